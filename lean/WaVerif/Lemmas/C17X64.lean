import WaVerif.Model.C17X64
/-!
# C17 — x86-64 (bonus): decode ∘ encode for `op reg, [base + disp]` (REX / ModRM / SIB / disp8 / disp32)

The register numbers are finite: one lemma per (REX.W, reg) enumerates the 16 base registers; the
displacement stays symbolic.
-/
set_option linter.unusedSimpArgs false
namespace WaVerif.C17.X64

theorem lt16 (n : Nat) (h : n < 16) : n = 0 ∨ n = 1 ∨ n = 2 ∨ n = 3 ∨ n = 4 ∨ n = 5 ∨ n = 6 ∨ n = 7 ∨ n = 8 ∨ n = 9 ∨ n = 10 ∨
    n = 11 ∨ n = 12 ∨ n = 13 ∨ n = 14 ∨ n = 15 := by omega

theorem sext8_disp8 (d : Int) (h : -128 ≤ d ∧ d ≤ 127) : sext8 (disp8 d) = d := by
  unfold sext8 disp8; split <;> omega

theorem sext32_disp32 (d : Int) (h : -2147483648 ≤ d ∧ d ≤ 2147483647) :
    let u := (d % 4294967296).toNat
    sext32 (u % 256 + u / 256 % 256 * 256 + u / 65536 % 256 * 65536 + u / 16777216 % 256 * 16777216) = d := by
  intro u
  have hu : u < 4294967296 := by omega
  have : u % 256 + u / 256 % 256 * 256 + u / 65536 % 256 * 65536 + u / 16777216 % 256 * 16777216 = u := by omega
  rw [this]; unfold sext32; split <;> omega

theorem rm_w0_r0 (opc base : Nat) (d : Int) (ho : opc < 64 ∨ 80 ≤ opc) (hb : base < 16)
    (hd : -2147483648 ≤ d ∧ d ≤ 2147483647) :
    decodeRM opc (encodeRM opc 0 0 base d) = some (0, 0, base, d) := by
  have h8 := sext8_disp8 d
  have h32 := sext32_disp32 d hd
  have hopc : ¬ (64 ≤ opc ∧ opc < 80) := by omega
  rcases lt16 base hb with rfl | rfl | rfl | rfl | rfl | rfl | rfl | rfl | rfl | rfl | rfl | rfl | rfl | rfl | rfl | rfl <;>
  (simp only [encodeRM, rex, modrm, sib]
   split
   · rename_i h0; first | (exact absurd rfl h0.2) | simp [decodeRM, unModrm, hopc, h0.1]
   · split
     · rename_i h1 h2; simp [decodeRM, unModrm, hopc, h8 h2]
     · simp [decodeRM, unModrm, hopc, disp32]; exact h32)

theorem rm_w0_r1 (opc base : Nat) (d : Int) (ho : opc < 64 ∨ 80 ≤ opc) (hb : base < 16)
    (hd : -2147483648 ≤ d ∧ d ≤ 2147483647) :
    decodeRM opc (encodeRM opc 0 1 base d) = some (0, 1, base, d) := by
  have h8 := sext8_disp8 d
  have h32 := sext32_disp32 d hd
  have hopc : ¬ (64 ≤ opc ∧ opc < 80) := by omega
  rcases lt16 base hb with rfl | rfl | rfl | rfl | rfl | rfl | rfl | rfl | rfl | rfl | rfl | rfl | rfl | rfl | rfl | rfl <;>
  (simp only [encodeRM, rex, modrm, sib]
   split
   · rename_i h0; first | (exact absurd rfl h0.2) | simp [decodeRM, unModrm, hopc, h0.1]
   · split
     · rename_i h1 h2; simp [decodeRM, unModrm, hopc, h8 h2]
     · simp [decodeRM, unModrm, hopc, disp32]; exact h32)

theorem rm_w0_r2 (opc base : Nat) (d : Int) (ho : opc < 64 ∨ 80 ≤ opc) (hb : base < 16)
    (hd : -2147483648 ≤ d ∧ d ≤ 2147483647) :
    decodeRM opc (encodeRM opc 0 2 base d) = some (0, 2, base, d) := by
  have h8 := sext8_disp8 d
  have h32 := sext32_disp32 d hd
  have hopc : ¬ (64 ≤ opc ∧ opc < 80) := by omega
  rcases lt16 base hb with rfl | rfl | rfl | rfl | rfl | rfl | rfl | rfl | rfl | rfl | rfl | rfl | rfl | rfl | rfl | rfl <;>
  (simp only [encodeRM, rex, modrm, sib]
   split
   · rename_i h0; first | (exact absurd rfl h0.2) | simp [decodeRM, unModrm, hopc, h0.1]
   · split
     · rename_i h1 h2; simp [decodeRM, unModrm, hopc, h8 h2]
     · simp [decodeRM, unModrm, hopc, disp32]; exact h32)

theorem rm_w0_r3 (opc base : Nat) (d : Int) (ho : opc < 64 ∨ 80 ≤ opc) (hb : base < 16)
    (hd : -2147483648 ≤ d ∧ d ≤ 2147483647) :
    decodeRM opc (encodeRM opc 0 3 base d) = some (0, 3, base, d) := by
  have h8 := sext8_disp8 d
  have h32 := sext32_disp32 d hd
  have hopc : ¬ (64 ≤ opc ∧ opc < 80) := by omega
  rcases lt16 base hb with rfl | rfl | rfl | rfl | rfl | rfl | rfl | rfl | rfl | rfl | rfl | rfl | rfl | rfl | rfl | rfl <;>
  (simp only [encodeRM, rex, modrm, sib]
   split
   · rename_i h0; first | (exact absurd rfl h0.2) | simp [decodeRM, unModrm, hopc, h0.1]
   · split
     · rename_i h1 h2; simp [decodeRM, unModrm, hopc, h8 h2]
     · simp [decodeRM, unModrm, hopc, disp32]; exact h32)

theorem rm_w0_r4 (opc base : Nat) (d : Int) (ho : opc < 64 ∨ 80 ≤ opc) (hb : base < 16)
    (hd : -2147483648 ≤ d ∧ d ≤ 2147483647) :
    decodeRM opc (encodeRM opc 0 4 base d) = some (0, 4, base, d) := by
  have h8 := sext8_disp8 d
  have h32 := sext32_disp32 d hd
  have hopc : ¬ (64 ≤ opc ∧ opc < 80) := by omega
  rcases lt16 base hb with rfl | rfl | rfl | rfl | rfl | rfl | rfl | rfl | rfl | rfl | rfl | rfl | rfl | rfl | rfl | rfl <;>
  (simp only [encodeRM, rex, modrm, sib]
   split
   · rename_i h0; first | (exact absurd rfl h0.2) | simp [decodeRM, unModrm, hopc, h0.1]
   · split
     · rename_i h1 h2; simp [decodeRM, unModrm, hopc, h8 h2]
     · simp [decodeRM, unModrm, hopc, disp32]; exact h32)

theorem rm_w0_r5 (opc base : Nat) (d : Int) (ho : opc < 64 ∨ 80 ≤ opc) (hb : base < 16)
    (hd : -2147483648 ≤ d ∧ d ≤ 2147483647) :
    decodeRM opc (encodeRM opc 0 5 base d) = some (0, 5, base, d) := by
  have h8 := sext8_disp8 d
  have h32 := sext32_disp32 d hd
  have hopc : ¬ (64 ≤ opc ∧ opc < 80) := by omega
  rcases lt16 base hb with rfl | rfl | rfl | rfl | rfl | rfl | rfl | rfl | rfl | rfl | rfl | rfl | rfl | rfl | rfl | rfl <;>
  (simp only [encodeRM, rex, modrm, sib]
   split
   · rename_i h0; first | (exact absurd rfl h0.2) | simp [decodeRM, unModrm, hopc, h0.1]
   · split
     · rename_i h1 h2; simp [decodeRM, unModrm, hopc, h8 h2]
     · simp [decodeRM, unModrm, hopc, disp32]; exact h32)

theorem rm_w0_r6 (opc base : Nat) (d : Int) (ho : opc < 64 ∨ 80 ≤ opc) (hb : base < 16)
    (hd : -2147483648 ≤ d ∧ d ≤ 2147483647) :
    decodeRM opc (encodeRM opc 0 6 base d) = some (0, 6, base, d) := by
  have h8 := sext8_disp8 d
  have h32 := sext32_disp32 d hd
  have hopc : ¬ (64 ≤ opc ∧ opc < 80) := by omega
  rcases lt16 base hb with rfl | rfl | rfl | rfl | rfl | rfl | rfl | rfl | rfl | rfl | rfl | rfl | rfl | rfl | rfl | rfl <;>
  (simp only [encodeRM, rex, modrm, sib]
   split
   · rename_i h0; first | (exact absurd rfl h0.2) | simp [decodeRM, unModrm, hopc, h0.1]
   · split
     · rename_i h1 h2; simp [decodeRM, unModrm, hopc, h8 h2]
     · simp [decodeRM, unModrm, hopc, disp32]; exact h32)

theorem rm_w0_r7 (opc base : Nat) (d : Int) (ho : opc < 64 ∨ 80 ≤ opc) (hb : base < 16)
    (hd : -2147483648 ≤ d ∧ d ≤ 2147483647) :
    decodeRM opc (encodeRM opc 0 7 base d) = some (0, 7, base, d) := by
  have h8 := sext8_disp8 d
  have h32 := sext32_disp32 d hd
  have hopc : ¬ (64 ≤ opc ∧ opc < 80) := by omega
  rcases lt16 base hb with rfl | rfl | rfl | rfl | rfl | rfl | rfl | rfl | rfl | rfl | rfl | rfl | rfl | rfl | rfl | rfl <;>
  (simp only [encodeRM, rex, modrm, sib]
   split
   · rename_i h0; first | (exact absurd rfl h0.2) | simp [decodeRM, unModrm, hopc, h0.1]
   · split
     · rename_i h1 h2; simp [decodeRM, unModrm, hopc, h8 h2]
     · simp [decodeRM, unModrm, hopc, disp32]; exact h32)

theorem rm_w0_r8 (opc base : Nat) (d : Int) (ho : opc < 64 ∨ 80 ≤ opc) (hb : base < 16)
    (hd : -2147483648 ≤ d ∧ d ≤ 2147483647) :
    decodeRM opc (encodeRM opc 0 8 base d) = some (0, 8, base, d) := by
  have h8 := sext8_disp8 d
  have h32 := sext32_disp32 d hd
  have hopc : ¬ (64 ≤ opc ∧ opc < 80) := by omega
  rcases lt16 base hb with rfl | rfl | rfl | rfl | rfl | rfl | rfl | rfl | rfl | rfl | rfl | rfl | rfl | rfl | rfl | rfl <;>
  (simp only [encodeRM, rex, modrm, sib]
   split
   · rename_i h0; first | (exact absurd rfl h0.2) | simp [decodeRM, unModrm, hopc, h0.1]
   · split
     · rename_i h1 h2; simp [decodeRM, unModrm, hopc, h8 h2]
     · simp [decodeRM, unModrm, hopc, disp32]; exact h32)

theorem rm_w0_r9 (opc base : Nat) (d : Int) (ho : opc < 64 ∨ 80 ≤ opc) (hb : base < 16)
    (hd : -2147483648 ≤ d ∧ d ≤ 2147483647) :
    decodeRM opc (encodeRM opc 0 9 base d) = some (0, 9, base, d) := by
  have h8 := sext8_disp8 d
  have h32 := sext32_disp32 d hd
  have hopc : ¬ (64 ≤ opc ∧ opc < 80) := by omega
  rcases lt16 base hb with rfl | rfl | rfl | rfl | rfl | rfl | rfl | rfl | rfl | rfl | rfl | rfl | rfl | rfl | rfl | rfl <;>
  (simp only [encodeRM, rex, modrm, sib]
   split
   · rename_i h0; first | (exact absurd rfl h0.2) | simp [decodeRM, unModrm, hopc, h0.1]
   · split
     · rename_i h1 h2; simp [decodeRM, unModrm, hopc, h8 h2]
     · simp [decodeRM, unModrm, hopc, disp32]; exact h32)

theorem rm_w0_r10 (opc base : Nat) (d : Int) (ho : opc < 64 ∨ 80 ≤ opc) (hb : base < 16)
    (hd : -2147483648 ≤ d ∧ d ≤ 2147483647) :
    decodeRM opc (encodeRM opc 0 10 base d) = some (0, 10, base, d) := by
  have h8 := sext8_disp8 d
  have h32 := sext32_disp32 d hd
  have hopc : ¬ (64 ≤ opc ∧ opc < 80) := by omega
  rcases lt16 base hb with rfl | rfl | rfl | rfl | rfl | rfl | rfl | rfl | rfl | rfl | rfl | rfl | rfl | rfl | rfl | rfl <;>
  (simp only [encodeRM, rex, modrm, sib]
   split
   · rename_i h0; first | (exact absurd rfl h0.2) | simp [decodeRM, unModrm, hopc, h0.1]
   · split
     · rename_i h1 h2; simp [decodeRM, unModrm, hopc, h8 h2]
     · simp [decodeRM, unModrm, hopc, disp32]; exact h32)

theorem rm_w0_r11 (opc base : Nat) (d : Int) (ho : opc < 64 ∨ 80 ≤ opc) (hb : base < 16)
    (hd : -2147483648 ≤ d ∧ d ≤ 2147483647) :
    decodeRM opc (encodeRM opc 0 11 base d) = some (0, 11, base, d) := by
  have h8 := sext8_disp8 d
  have h32 := sext32_disp32 d hd
  have hopc : ¬ (64 ≤ opc ∧ opc < 80) := by omega
  rcases lt16 base hb with rfl | rfl | rfl | rfl | rfl | rfl | rfl | rfl | rfl | rfl | rfl | rfl | rfl | rfl | rfl | rfl <;>
  (simp only [encodeRM, rex, modrm, sib]
   split
   · rename_i h0; first | (exact absurd rfl h0.2) | simp [decodeRM, unModrm, hopc, h0.1]
   · split
     · rename_i h1 h2; simp [decodeRM, unModrm, hopc, h8 h2]
     · simp [decodeRM, unModrm, hopc, disp32]; exact h32)

theorem rm_w0_r12 (opc base : Nat) (d : Int) (ho : opc < 64 ∨ 80 ≤ opc) (hb : base < 16)
    (hd : -2147483648 ≤ d ∧ d ≤ 2147483647) :
    decodeRM opc (encodeRM opc 0 12 base d) = some (0, 12, base, d) := by
  have h8 := sext8_disp8 d
  have h32 := sext32_disp32 d hd
  have hopc : ¬ (64 ≤ opc ∧ opc < 80) := by omega
  rcases lt16 base hb with rfl | rfl | rfl | rfl | rfl | rfl | rfl | rfl | rfl | rfl | rfl | rfl | rfl | rfl | rfl | rfl <;>
  (simp only [encodeRM, rex, modrm, sib]
   split
   · rename_i h0; first | (exact absurd rfl h0.2) | simp [decodeRM, unModrm, hopc, h0.1]
   · split
     · rename_i h1 h2; simp [decodeRM, unModrm, hopc, h8 h2]
     · simp [decodeRM, unModrm, hopc, disp32]; exact h32)

theorem rm_w0_r13 (opc base : Nat) (d : Int) (ho : opc < 64 ∨ 80 ≤ opc) (hb : base < 16)
    (hd : -2147483648 ≤ d ∧ d ≤ 2147483647) :
    decodeRM opc (encodeRM opc 0 13 base d) = some (0, 13, base, d) := by
  have h8 := sext8_disp8 d
  have h32 := sext32_disp32 d hd
  have hopc : ¬ (64 ≤ opc ∧ opc < 80) := by omega
  rcases lt16 base hb with rfl | rfl | rfl | rfl | rfl | rfl | rfl | rfl | rfl | rfl | rfl | rfl | rfl | rfl | rfl | rfl <;>
  (simp only [encodeRM, rex, modrm, sib]
   split
   · rename_i h0; first | (exact absurd rfl h0.2) | simp [decodeRM, unModrm, hopc, h0.1]
   · split
     · rename_i h1 h2; simp [decodeRM, unModrm, hopc, h8 h2]
     · simp [decodeRM, unModrm, hopc, disp32]; exact h32)

theorem rm_w0_r14 (opc base : Nat) (d : Int) (ho : opc < 64 ∨ 80 ≤ opc) (hb : base < 16)
    (hd : -2147483648 ≤ d ∧ d ≤ 2147483647) :
    decodeRM opc (encodeRM opc 0 14 base d) = some (0, 14, base, d) := by
  have h8 := sext8_disp8 d
  have h32 := sext32_disp32 d hd
  have hopc : ¬ (64 ≤ opc ∧ opc < 80) := by omega
  rcases lt16 base hb with rfl | rfl | rfl | rfl | rfl | rfl | rfl | rfl | rfl | rfl | rfl | rfl | rfl | rfl | rfl | rfl <;>
  (simp only [encodeRM, rex, modrm, sib]
   split
   · rename_i h0; first | (exact absurd rfl h0.2) | simp [decodeRM, unModrm, hopc, h0.1]
   · split
     · rename_i h1 h2; simp [decodeRM, unModrm, hopc, h8 h2]
     · simp [decodeRM, unModrm, hopc, disp32]; exact h32)

theorem rm_w0_r15 (opc base : Nat) (d : Int) (ho : opc < 64 ∨ 80 ≤ opc) (hb : base < 16)
    (hd : -2147483648 ≤ d ∧ d ≤ 2147483647) :
    decodeRM opc (encodeRM opc 0 15 base d) = some (0, 15, base, d) := by
  have h8 := sext8_disp8 d
  have h32 := sext32_disp32 d hd
  have hopc : ¬ (64 ≤ opc ∧ opc < 80) := by omega
  rcases lt16 base hb with rfl | rfl | rfl | rfl | rfl | rfl | rfl | rfl | rfl | rfl | rfl | rfl | rfl | rfl | rfl | rfl <;>
  (simp only [encodeRM, rex, modrm, sib]
   split
   · rename_i h0; first | (exact absurd rfl h0.2) | simp [decodeRM, unModrm, hopc, h0.1]
   · split
     · rename_i h1 h2; simp [decodeRM, unModrm, hopc, h8 h2]
     · simp [decodeRM, unModrm, hopc, disp32]; exact h32)

theorem rm_w1_r0 (opc base : Nat) (d : Int) (ho : opc < 64 ∨ 80 ≤ opc) (hb : base < 16)
    (hd : -2147483648 ≤ d ∧ d ≤ 2147483647) :
    decodeRM opc (encodeRM opc 1 0 base d) = some (1, 0, base, d) := by
  have h8 := sext8_disp8 d
  have h32 := sext32_disp32 d hd
  have hopc : ¬ (64 ≤ opc ∧ opc < 80) := by omega
  rcases lt16 base hb with rfl | rfl | rfl | rfl | rfl | rfl | rfl | rfl | rfl | rfl | rfl | rfl | rfl | rfl | rfl | rfl <;>
  (simp only [encodeRM, rex, modrm, sib]
   split
   · rename_i h0; first | (exact absurd rfl h0.2) | simp [decodeRM, unModrm, hopc, h0.1]
   · split
     · rename_i h1 h2; simp [decodeRM, unModrm, hopc, h8 h2]
     · simp [decodeRM, unModrm, hopc, disp32]; exact h32)

theorem rm_w1_r1 (opc base : Nat) (d : Int) (ho : opc < 64 ∨ 80 ≤ opc) (hb : base < 16)
    (hd : -2147483648 ≤ d ∧ d ≤ 2147483647) :
    decodeRM opc (encodeRM opc 1 1 base d) = some (1, 1, base, d) := by
  have h8 := sext8_disp8 d
  have h32 := sext32_disp32 d hd
  have hopc : ¬ (64 ≤ opc ∧ opc < 80) := by omega
  rcases lt16 base hb with rfl | rfl | rfl | rfl | rfl | rfl | rfl | rfl | rfl | rfl | rfl | rfl | rfl | rfl | rfl | rfl <;>
  (simp only [encodeRM, rex, modrm, sib]
   split
   · rename_i h0; first | (exact absurd rfl h0.2) | simp [decodeRM, unModrm, hopc, h0.1]
   · split
     · rename_i h1 h2; simp [decodeRM, unModrm, hopc, h8 h2]
     · simp [decodeRM, unModrm, hopc, disp32]; exact h32)

theorem rm_w1_r2 (opc base : Nat) (d : Int) (ho : opc < 64 ∨ 80 ≤ opc) (hb : base < 16)
    (hd : -2147483648 ≤ d ∧ d ≤ 2147483647) :
    decodeRM opc (encodeRM opc 1 2 base d) = some (1, 2, base, d) := by
  have h8 := sext8_disp8 d
  have h32 := sext32_disp32 d hd
  have hopc : ¬ (64 ≤ opc ∧ opc < 80) := by omega
  rcases lt16 base hb with rfl | rfl | rfl | rfl | rfl | rfl | rfl | rfl | rfl | rfl | rfl | rfl | rfl | rfl | rfl | rfl <;>
  (simp only [encodeRM, rex, modrm, sib]
   split
   · rename_i h0; first | (exact absurd rfl h0.2) | simp [decodeRM, unModrm, hopc, h0.1]
   · split
     · rename_i h1 h2; simp [decodeRM, unModrm, hopc, h8 h2]
     · simp [decodeRM, unModrm, hopc, disp32]; exact h32)

theorem rm_w1_r3 (opc base : Nat) (d : Int) (ho : opc < 64 ∨ 80 ≤ opc) (hb : base < 16)
    (hd : -2147483648 ≤ d ∧ d ≤ 2147483647) :
    decodeRM opc (encodeRM opc 1 3 base d) = some (1, 3, base, d) := by
  have h8 := sext8_disp8 d
  have h32 := sext32_disp32 d hd
  have hopc : ¬ (64 ≤ opc ∧ opc < 80) := by omega
  rcases lt16 base hb with rfl | rfl | rfl | rfl | rfl | rfl | rfl | rfl | rfl | rfl | rfl | rfl | rfl | rfl | rfl | rfl <;>
  (simp only [encodeRM, rex, modrm, sib]
   split
   · rename_i h0; first | (exact absurd rfl h0.2) | simp [decodeRM, unModrm, hopc, h0.1]
   · split
     · rename_i h1 h2; simp [decodeRM, unModrm, hopc, h8 h2]
     · simp [decodeRM, unModrm, hopc, disp32]; exact h32)

theorem rm_w1_r4 (opc base : Nat) (d : Int) (ho : opc < 64 ∨ 80 ≤ opc) (hb : base < 16)
    (hd : -2147483648 ≤ d ∧ d ≤ 2147483647) :
    decodeRM opc (encodeRM opc 1 4 base d) = some (1, 4, base, d) := by
  have h8 := sext8_disp8 d
  have h32 := sext32_disp32 d hd
  have hopc : ¬ (64 ≤ opc ∧ opc < 80) := by omega
  rcases lt16 base hb with rfl | rfl | rfl | rfl | rfl | rfl | rfl | rfl | rfl | rfl | rfl | rfl | rfl | rfl | rfl | rfl <;>
  (simp only [encodeRM, rex, modrm, sib]
   split
   · rename_i h0; first | (exact absurd rfl h0.2) | simp [decodeRM, unModrm, hopc, h0.1]
   · split
     · rename_i h1 h2; simp [decodeRM, unModrm, hopc, h8 h2]
     · simp [decodeRM, unModrm, hopc, disp32]; exact h32)

theorem rm_w1_r5 (opc base : Nat) (d : Int) (ho : opc < 64 ∨ 80 ≤ opc) (hb : base < 16)
    (hd : -2147483648 ≤ d ∧ d ≤ 2147483647) :
    decodeRM opc (encodeRM opc 1 5 base d) = some (1, 5, base, d) := by
  have h8 := sext8_disp8 d
  have h32 := sext32_disp32 d hd
  have hopc : ¬ (64 ≤ opc ∧ opc < 80) := by omega
  rcases lt16 base hb with rfl | rfl | rfl | rfl | rfl | rfl | rfl | rfl | rfl | rfl | rfl | rfl | rfl | rfl | rfl | rfl <;>
  (simp only [encodeRM, rex, modrm, sib]
   split
   · rename_i h0; first | (exact absurd rfl h0.2) | simp [decodeRM, unModrm, hopc, h0.1]
   · split
     · rename_i h1 h2; simp [decodeRM, unModrm, hopc, h8 h2]
     · simp [decodeRM, unModrm, hopc, disp32]; exact h32)

theorem rm_w1_r6 (opc base : Nat) (d : Int) (ho : opc < 64 ∨ 80 ≤ opc) (hb : base < 16)
    (hd : -2147483648 ≤ d ∧ d ≤ 2147483647) :
    decodeRM opc (encodeRM opc 1 6 base d) = some (1, 6, base, d) := by
  have h8 := sext8_disp8 d
  have h32 := sext32_disp32 d hd
  have hopc : ¬ (64 ≤ opc ∧ opc < 80) := by omega
  rcases lt16 base hb with rfl | rfl | rfl | rfl | rfl | rfl | rfl | rfl | rfl | rfl | rfl | rfl | rfl | rfl | rfl | rfl <;>
  (simp only [encodeRM, rex, modrm, sib]
   split
   · rename_i h0; first | (exact absurd rfl h0.2) | simp [decodeRM, unModrm, hopc, h0.1]
   · split
     · rename_i h1 h2; simp [decodeRM, unModrm, hopc, h8 h2]
     · simp [decodeRM, unModrm, hopc, disp32]; exact h32)

theorem rm_w1_r7 (opc base : Nat) (d : Int) (ho : opc < 64 ∨ 80 ≤ opc) (hb : base < 16)
    (hd : -2147483648 ≤ d ∧ d ≤ 2147483647) :
    decodeRM opc (encodeRM opc 1 7 base d) = some (1, 7, base, d) := by
  have h8 := sext8_disp8 d
  have h32 := sext32_disp32 d hd
  have hopc : ¬ (64 ≤ opc ∧ opc < 80) := by omega
  rcases lt16 base hb with rfl | rfl | rfl | rfl | rfl | rfl | rfl | rfl | rfl | rfl | rfl | rfl | rfl | rfl | rfl | rfl <;>
  (simp only [encodeRM, rex, modrm, sib]
   split
   · rename_i h0; first | (exact absurd rfl h0.2) | simp [decodeRM, unModrm, hopc, h0.1]
   · split
     · rename_i h1 h2; simp [decodeRM, unModrm, hopc, h8 h2]
     · simp [decodeRM, unModrm, hopc, disp32]; exact h32)

theorem rm_w1_r8 (opc base : Nat) (d : Int) (ho : opc < 64 ∨ 80 ≤ opc) (hb : base < 16)
    (hd : -2147483648 ≤ d ∧ d ≤ 2147483647) :
    decodeRM opc (encodeRM opc 1 8 base d) = some (1, 8, base, d) := by
  have h8 := sext8_disp8 d
  have h32 := sext32_disp32 d hd
  have hopc : ¬ (64 ≤ opc ∧ opc < 80) := by omega
  rcases lt16 base hb with rfl | rfl | rfl | rfl | rfl | rfl | rfl | rfl | rfl | rfl | rfl | rfl | rfl | rfl | rfl | rfl <;>
  (simp only [encodeRM, rex, modrm, sib]
   split
   · rename_i h0; first | (exact absurd rfl h0.2) | simp [decodeRM, unModrm, hopc, h0.1]
   · split
     · rename_i h1 h2; simp [decodeRM, unModrm, hopc, h8 h2]
     · simp [decodeRM, unModrm, hopc, disp32]; exact h32)

theorem rm_w1_r9 (opc base : Nat) (d : Int) (ho : opc < 64 ∨ 80 ≤ opc) (hb : base < 16)
    (hd : -2147483648 ≤ d ∧ d ≤ 2147483647) :
    decodeRM opc (encodeRM opc 1 9 base d) = some (1, 9, base, d) := by
  have h8 := sext8_disp8 d
  have h32 := sext32_disp32 d hd
  have hopc : ¬ (64 ≤ opc ∧ opc < 80) := by omega
  rcases lt16 base hb with rfl | rfl | rfl | rfl | rfl | rfl | rfl | rfl | rfl | rfl | rfl | rfl | rfl | rfl | rfl | rfl <;>
  (simp only [encodeRM, rex, modrm, sib]
   split
   · rename_i h0; first | (exact absurd rfl h0.2) | simp [decodeRM, unModrm, hopc, h0.1]
   · split
     · rename_i h1 h2; simp [decodeRM, unModrm, hopc, h8 h2]
     · simp [decodeRM, unModrm, hopc, disp32]; exact h32)

theorem rm_w1_r10 (opc base : Nat) (d : Int) (ho : opc < 64 ∨ 80 ≤ opc) (hb : base < 16)
    (hd : -2147483648 ≤ d ∧ d ≤ 2147483647) :
    decodeRM opc (encodeRM opc 1 10 base d) = some (1, 10, base, d) := by
  have h8 := sext8_disp8 d
  have h32 := sext32_disp32 d hd
  have hopc : ¬ (64 ≤ opc ∧ opc < 80) := by omega
  rcases lt16 base hb with rfl | rfl | rfl | rfl | rfl | rfl | rfl | rfl | rfl | rfl | rfl | rfl | rfl | rfl | rfl | rfl <;>
  (simp only [encodeRM, rex, modrm, sib]
   split
   · rename_i h0; first | (exact absurd rfl h0.2) | simp [decodeRM, unModrm, hopc, h0.1]
   · split
     · rename_i h1 h2; simp [decodeRM, unModrm, hopc, h8 h2]
     · simp [decodeRM, unModrm, hopc, disp32]; exact h32)

theorem rm_w1_r11 (opc base : Nat) (d : Int) (ho : opc < 64 ∨ 80 ≤ opc) (hb : base < 16)
    (hd : -2147483648 ≤ d ∧ d ≤ 2147483647) :
    decodeRM opc (encodeRM opc 1 11 base d) = some (1, 11, base, d) := by
  have h8 := sext8_disp8 d
  have h32 := sext32_disp32 d hd
  have hopc : ¬ (64 ≤ opc ∧ opc < 80) := by omega
  rcases lt16 base hb with rfl | rfl | rfl | rfl | rfl | rfl | rfl | rfl | rfl | rfl | rfl | rfl | rfl | rfl | rfl | rfl <;>
  (simp only [encodeRM, rex, modrm, sib]
   split
   · rename_i h0; first | (exact absurd rfl h0.2) | simp [decodeRM, unModrm, hopc, h0.1]
   · split
     · rename_i h1 h2; simp [decodeRM, unModrm, hopc, h8 h2]
     · simp [decodeRM, unModrm, hopc, disp32]; exact h32)

theorem rm_w1_r12 (opc base : Nat) (d : Int) (ho : opc < 64 ∨ 80 ≤ opc) (hb : base < 16)
    (hd : -2147483648 ≤ d ∧ d ≤ 2147483647) :
    decodeRM opc (encodeRM opc 1 12 base d) = some (1, 12, base, d) := by
  have h8 := sext8_disp8 d
  have h32 := sext32_disp32 d hd
  have hopc : ¬ (64 ≤ opc ∧ opc < 80) := by omega
  rcases lt16 base hb with rfl | rfl | rfl | rfl | rfl | rfl | rfl | rfl | rfl | rfl | rfl | rfl | rfl | rfl | rfl | rfl <;>
  (simp only [encodeRM, rex, modrm, sib]
   split
   · rename_i h0; first | (exact absurd rfl h0.2) | simp [decodeRM, unModrm, hopc, h0.1]
   · split
     · rename_i h1 h2; simp [decodeRM, unModrm, hopc, h8 h2]
     · simp [decodeRM, unModrm, hopc, disp32]; exact h32)

theorem rm_w1_r13 (opc base : Nat) (d : Int) (ho : opc < 64 ∨ 80 ≤ opc) (hb : base < 16)
    (hd : -2147483648 ≤ d ∧ d ≤ 2147483647) :
    decodeRM opc (encodeRM opc 1 13 base d) = some (1, 13, base, d) := by
  have h8 := sext8_disp8 d
  have h32 := sext32_disp32 d hd
  have hopc : ¬ (64 ≤ opc ∧ opc < 80) := by omega
  rcases lt16 base hb with rfl | rfl | rfl | rfl | rfl | rfl | rfl | rfl | rfl | rfl | rfl | rfl | rfl | rfl | rfl | rfl <;>
  (simp only [encodeRM, rex, modrm, sib]
   split
   · rename_i h0; first | (exact absurd rfl h0.2) | simp [decodeRM, unModrm, hopc, h0.1]
   · split
     · rename_i h1 h2; simp [decodeRM, unModrm, hopc, h8 h2]
     · simp [decodeRM, unModrm, hopc, disp32]; exact h32)

theorem rm_w1_r14 (opc base : Nat) (d : Int) (ho : opc < 64 ∨ 80 ≤ opc) (hb : base < 16)
    (hd : -2147483648 ≤ d ∧ d ≤ 2147483647) :
    decodeRM opc (encodeRM opc 1 14 base d) = some (1, 14, base, d) := by
  have h8 := sext8_disp8 d
  have h32 := sext32_disp32 d hd
  have hopc : ¬ (64 ≤ opc ∧ opc < 80) := by omega
  rcases lt16 base hb with rfl | rfl | rfl | rfl | rfl | rfl | rfl | rfl | rfl | rfl | rfl | rfl | rfl | rfl | rfl | rfl <;>
  (simp only [encodeRM, rex, modrm, sib]
   split
   · rename_i h0; first | (exact absurd rfl h0.2) | simp [decodeRM, unModrm, hopc, h0.1]
   · split
     · rename_i h1 h2; simp [decodeRM, unModrm, hopc, h8 h2]
     · simp [decodeRM, unModrm, hopc, disp32]; exact h32)

theorem rm_w1_r15 (opc base : Nat) (d : Int) (ho : opc < 64 ∨ 80 ≤ opc) (hb : base < 16)
    (hd : -2147483648 ≤ d ∧ d ≤ 2147483647) :
    decodeRM opc (encodeRM opc 1 15 base d) = some (1, 15, base, d) := by
  have h8 := sext8_disp8 d
  have h32 := sext32_disp32 d hd
  have hopc : ¬ (64 ≤ opc ∧ opc < 80) := by omega
  rcases lt16 base hb with rfl | rfl | rfl | rfl | rfl | rfl | rfl | rfl | rfl | rfl | rfl | rfl | rfl | rfl | rfl | rfl <;>
  (simp only [encodeRM, rex, modrm, sib]
   split
   · rename_i h0; first | (exact absurd rfl h0.2) | simp [decodeRM, unModrm, hopc, h0.1]
   · split
     · rename_i h1 h2; simp [decodeRM, unModrm, hopc, h8 h2]
     · simp [decodeRM, unModrm, hopc, disp32]; exact h32)

theorem rm_decode_encode (opc w reg base : Nat) (d : Int) (ho : opc < 64 ∨ 80 ≤ opc) (hw : w < 2) (hr : reg < 16) (hb : base < 16)
    (hd : -2147483648 ≤ d ∧ d ≤ 2147483647) :
    decodeRM opc (encodeRM opc w reg base d) = some (w, reg, base, d) := by
  have hw' : w = 0 ∨ w = 1 := by omega
  rcases hw' with rfl | rfl <;>
  rcases lt16 reg hr with rfl | rfl | rfl | rfl | rfl | rfl | rfl | rfl | rfl | rfl | rfl | rfl | rfl | rfl | rfl | rfl
  · exact rm_w0_r0 opc base d ho hb hd
  · exact rm_w0_r1 opc base d ho hb hd
  · exact rm_w0_r2 opc base d ho hb hd
  · exact rm_w0_r3 opc base d ho hb hd
  · exact rm_w0_r4 opc base d ho hb hd
  · exact rm_w0_r5 opc base d ho hb hd
  · exact rm_w0_r6 opc base d ho hb hd
  · exact rm_w0_r7 opc base d ho hb hd
  · exact rm_w0_r8 opc base d ho hb hd
  · exact rm_w0_r9 opc base d ho hb hd
  · exact rm_w0_r10 opc base d ho hb hd
  · exact rm_w0_r11 opc base d ho hb hd
  · exact rm_w0_r12 opc base d ho hb hd
  · exact rm_w0_r13 opc base d ho hb hd
  · exact rm_w0_r14 opc base d ho hb hd
  · exact rm_w0_r15 opc base d ho hb hd
  · exact rm_w1_r0 opc base d ho hb hd
  · exact rm_w1_r1 opc base d ho hb hd
  · exact rm_w1_r2 opc base d ho hb hd
  · exact rm_w1_r3 opc base d ho hb hd
  · exact rm_w1_r4 opc base d ho hb hd
  · exact rm_w1_r5 opc base d ho hb hd
  · exact rm_w1_r6 opc base d ho hb hd
  · exact rm_w1_r7 opc base d ho hb hd
  · exact rm_w1_r8 opc base d ho hb hd
  · exact rm_w1_r9 opc base d ho hb hd
  · exact rm_w1_r10 opc base d ho hb hd
  · exact rm_w1_r11 opc base d ho hb hd
  · exact rm_w1_r12 opc base d ho hb hd
  · exact rm_w1_r13 opc base d ho hb hd
  · exact rm_w1_r14 opc base d ho hb hd
  · exact rm_w1_r15 opc base d ho hb hd

end WaVerif.C17.X64
