import WaVerif.Lemmas.C15Ops
namespace WaVerif.C15
open WaVerif

/-- the range predicate attached to a kind: everything for untyped constants -/
def kindRange (word : Nat) (k : Kind) (v : Int) : Prop :=
  match k.ity word with
  | none => True
  | some t => inRange t v

theorem sign_nonneg_iff (v : Int) : 0 ≤ sign v ↔ 0 ≤ v := by
  unfold sign
  by_cases h1 : v < 0
  · rw [if_pos h1]; omega
  · rw [if_neg h1]
    by_cases h2 : v = 0
    · rw [if_pos h2]; omega
    · rw [if_neg h2]; omega

theorem wrap64_c1 : wrap64 (-(2:Int) ^ 31) = -2147483648 := by decide
theorem wrap64_c2 : wrap64 (wrap64 ((2:Int) ^ 31) - 1) = 2147483647 := by decide
theorem wrap64_c3 : wrap64 (-(2:Int) ^ 63) = -9223372036854775808 := by decide
theorem wrap64_c4 : wrap64 (wrap64 ((2:Int) ^ 63) - 1) = 9223372036854775807 := by decide

theorem representable_iff_range_lem (word : Nat) (hw : word = 4 ∨ word = 8) (v : Int) (k : Kind) :
    representableConst word v k = true ↔ kindRange word k v := by
  have hb := bitLen_le_iff v
  have hs := sign_nonneg_iff v
  by_cases hf : fits64 v = true
  · have hf' := (fits64_iff v).mp hf
    unfold fitsS at hf'
    rcases hw with rfl | rfl <;> cases k <;>
      simp only [representableConst, hf, if_true, kindRange, Kind.ity, inRange, wrap64_c1, wrap64_c2, wrap64_c3, wrap64_c4,
        decide_eq_true_eq, Nat.reduceMul, Nat.reduceSub, Nat.reduceLT, if_false, Bool.false_eq_true, Nat.lt_irrefl] <;>
      first | omega | (constructor <;> intro h <;> first | omega | trivial | exact h.elim)
  · have hf' : ¬ fitsS 63 v := fun h => hf ((fits64_iff v).mpr h)
    unfold fitsS at hf'
    rcases hw with rfl | rfl <;> cases k <;>
      simp only [representableConst, hf, if_false, Bool.false_eq_true, kindRange, Kind.ity, inRange, decide_eq_true_eq, hb, hs,
        Nat.reduceMul, Nat.reduceSub, if_true] <;>
      first | omega | (constructor <;> intro h <;> first | omega | trivial | exact h.elim)

end WaVerif.C15
