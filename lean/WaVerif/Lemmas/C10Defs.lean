import WaVerif.Model.C10
/-!
# C10 — specification predicates and the invariant

`sumf f L` is the additive functional used for every "counting" statement:
* `sumf (cov x) L` = number of blocks of `L` that contain address `x` (tiling: exactly one inside
  `[heapStart, heapPtr)`, none outside);
* `sumf bad8 L` = number of blocks whose address or size is not a multiple of 8.
-/
namespace WaVerif.C10

def sumf (f : FBlk → Nat) : List FBlk → Nat
  | [] => 0
  | b :: r => f b + sumf f r

@[simp] theorem sumf_nil (f : FBlk → Nat) : sumf f [] = 0 := rfl
@[simp] theorem sumf_cons (f : FBlk → Nat) (b : FBlk) (r : List FBlk) : sumf f (b :: r) = f b + sumf f r := rfl
@[simp] theorem sumf_append (f : FBlk → Nat) (l1 l2 : List FBlk) : sumf f (l1 ++ l2) = sumf f l1 + sumf f l2 := by
  induction l1 with
  | nil => simp
  | cons a r ih => simp [ih]; omega

theorem sumf_mem_le (f : FBlk → Nat) {b : FBlk} {l : List FBlk} (h : b ∈ l) : f b ≤ sumf f l := by
  induction l with
  | nil => cases h
  | cons a r ih =>
    cases h with
    | head => simp
    | tail _ h' => have := ih h'; simp; omega

theorem sumf_eq_zero {f : FBlk → Nat} {l : List FBlk} (h : sumf f l = 0) : ∀ b ∈ l, f b = 0 := by
  intro b hb; have := sumf_mem_le f hb; omega

/-- does block `b` (header included) contain address `x`? -/
def cov (x : Nat) (b : FBlk) : Nat := if b.1 ≤ x ∧ x < b.1 + b.2 + 8 then 1 else 0

theorem cov_le_one (x : Nat) (b : FBlk) : cov x b ≤ 1 := by unfold cov; split <;> omega

def bad8 (b : FBlk) : Nat := if b.1 % 8 = 0 ∧ b.2 % 8 = 0 then 0 else 1

/-- every block the allocator knows about: live ++ the four fixed lists ++ the general list -/
def allBlocks (s : State) : List FBlk :=
  s.live.map LBlk.blk ++ (s.f0 ++ (s.f1 ++ (s.f2 ++ (s.f3 ++ s.free))))

/-- sorted by address, non-overlapping, and no two neighbours adjacent (fully coalesced) -/
def Sepd : List FBlk → Prop
  | [] => True
  | [_] => True
  | a :: b :: r => bend a < b.1 ∧ Sepd (b :: r)

/-- block sizes `$wa_malloc` produces when the fixed lists are enabled -/
def ClsSize (n : Nat) : Prop := n = 24 ∨ n = 32 ∨ n = 48 ∨ n = 80 ∨ 128 ≤ n

def classSize (k : Nat) : Nat :=
  match k with
  | 0 => 24
  | 1 => 32
  | 2 => 48
  | _ => 80

/-- Configuration guard.  `maxPages ≤ 32767` keeps every address signed-positive (`heap_top ≤ 2^31 - 64K`),
which the code's signed address comparisons need. -/
def CfgWF (c : Config) : Prop :=
  0 < c.stackPtr ∧ c.stackPtr < c.heapBase ∧ c.heapBase % 8 = 0 ∧
  c.heapBase + 48 < c.pages * 65536 ∧ c.pages ≤ c.maxPages ∧ c.maxPages ≤ 32767

instance (c : Config) : Decidable (CfgWF c) := by unfold CfgWF; exact inferInstance

/-- Operation guard: requests up to 2^30. (`free` of a non-live pointer is a no-op of the model.) -/
def OpOK (_c : Config) : Op → Prop
  | .malloc req => req ≤ 1073741824
  | .free _ => True

instance (c : Config) (op : Op) : Decidable (OpOK c op) := by
  cases op <;> (unfold OpOK; exact inferInstance)

/-- the tiling clause: every address of `[heapStart, heapPtr)` lies in exactly one block of `L`,
every other address in none -/
def TilesHeap (s : State) (L : List FBlk) : Prop :=
  ∀ x, sumf (cov x) L = if heapStart s.cfg ≤ x ∧ x < s.heapPtr then 1 else 0

/-- The invariant, with `ex` = blocks "in transit" (taken off a list, not yet put on another). -/
structure InvX (s : State) (ex : List FBlk) : Prop where
  wf : CfgWF s.cfg
  alive : s.dead = 0
  hp_lo : heapStart s.cfg ≤ s.heapPtr
  hp_top : s.heapPtr < s.heapTop
  hp8 : s.heapPtr % 8 = 0
  top : s.heapTop = s.pages * 65536
  pages_le : s.pages ≤ s.cfg.maxPages
  tiling : TilesHeap s (ex ++ allBlocks s)
  al8 : sumf bad8 (ex ++ allBlocks s) = 0
  sep : Sepd s.free
  liveReq : ∀ b ∈ s.live, b.req ≤ b.size
  liveCls : s.cfg.cap ≠ 0 → ∀ b ∈ s.live, ClsSize b.size
  fxk : ∀ k, k < 4 → ∀ b ∈ getFx s k, b.2 = classSize k

abbrev Inv (s : State) : Prop := InvX s []

end WaVerif.C10
