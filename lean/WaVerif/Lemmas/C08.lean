import WaVerif.Model.C08
/-! # C08 — helper lemmas for the dispatch model -/
namespace WaVerif.C08

theorem lookup_mem {α β} [BEq α] (t : List (α × β)) (k : α) (v : β) (h : t.lookup k = some v) :
    ∃ e ∈ t, e.2 = v := by
  induction t with
  | nil => simp [List.lookup] at h
  | cons e rest ih =>
    obtain ⟨a, b⟩ := e
    simp only [List.lookup] at h
    split at h
    · exact ⟨(a, b), by simp, by simpa using h⟩
    · obtain ⟨e, he, hv⟩ := ih h
      exact ⟨e, by simp [he], hv⟩

theorem suffixLookup_mem (s : List Char) (t : List (List Char × Lang)) (v : Lang)
    (h : suffixLookup s t = some v) : ∃ e ∈ t, e.2 = v := by
  induction t with
  | nil => simp [suffixLookup] at h
  | cons e rest ih =>
    obtain ⟨a, b⟩ := e
    simp only [suffixLookup] at h
    split at h
    · exact ⟨(a, b), by simp, by simpa using h⟩
    · obtain ⟨e, he, hv⟩ := ih h
      exact ⟨e, by simp [he], hv⟩

/-- a language selected by the file name comes from one of the two tables -/
theorem extLang_mem (cfg : Cfg) (name : List Char) (l : Lang) (h : extLang cfg name = some l) :
    (∃ e ∈ cfg.extTable, e.2 = l) ∨ (∃ e ∈ cfg.suffixTable, e.2 = l) := by
  unfold extLang at h
  split at h
  · rename_i l' hl
    left
    obtain ⟨e, he, hv⟩ := lookup_mem _ _ _ hl
    exact ⟨e, he, by simpa [hv] using h⟩
  · right
    exact suffixLookup_mem _ _ _ h

/-- the Wa loop, when an unrecognised token ends detection (`return LangType_Unknown`),
is decided by the first token that is not a plain comment -/
def waVerdict : WaTok → Step
  | .eof => .fallthrough
  | .illegal => .fallthrough
  | .keyword => .decided .wa
  | .wzIdent => .decided .wz
  | .wzMark => .decided .wz
  | .comment => .fallthrough
  | .other => .decided .unknown

theorem waStage_retUnknown (cfg : Cfg) (h : cfg.waOther = .retUnknown) (wa : List WaTok) :
    waStage cfg wa = waVerdict (waFirst wa) := by
  induction wa with
  | nil => simp [waStage, waFirst, waVerdict]
  | cons t ts ih => cases t <;> simp [waStage, waFirst, waVerdict, h, ih]

/-- the Wa loop depends on the table only through `waOther` -/
theorem waStage_congr (c1 c2 : Cfg) (h : c1.waOther = c2.waOther) (wa : List WaTok) :
    waStage c1 wa = waStage c2 wa := by
  induction wa with
  | nil => simp [waStage]
  | cons t ts ih => cases t <;> simp [waStage, h, ih]

/-- detection depends on the table only through the two name tables and `waOther` -/
theorem detect_congr (c1 c2 : Cfg) (h1 : c1.extTable = c2.extTable) (h2 : c1.suffixTable = c2.suffixTable)
    (h3 : c1.waOther = c2.waOther) (name : List Char) (wa : List WaTok) (na wt : List ATok) :
    detect c1 name wa na wt = detect c2 name wa na wt := by
  simp only [detect, extLang, h1, h2, waStage_congr c1 c2 h3]

theorem waFirst_ne_comment (wa : List WaTok) : waFirst wa ≠ .comment := by
  induction wa with
  | nil => simp [waFirst]
  | cons t ts ih => cases t <;> simp [waFirst, ih]

theorem aStage_eq (l : Lang) (ts : List ATok) :
    aStage l ts = if hasKw ts then .decided l else .fallthrough := by
  induction ts with
  | nil => simp [aStage, hasKw]
  | cons t ts ih => cases t <;> simp only [aStage, hasKw] <;> first | exact ih | simp

end WaVerif.C08
