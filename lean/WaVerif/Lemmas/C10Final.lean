import WaVerif.Lemmas.C10Writes2
/-! # C10 — from the invariant to the clauses of the property -/
namespace WaVerif.C10

theorem disj_of_le_one {l1 l2 : List FBlk} (h : ∀ x, sumf (cov x) (l1 ++ l2) ≤ 1) {a b : FBlk}
    (ha : a ∈ l1) (hb : b ∈ l2) : bend a ≤ b.1 ∨ bend b ≤ a.1 := by
  by_cases hab : a.1 ≤ b.1
  · by_cases h2 : bend a ≤ b.1
    · exact Or.inl h2
    · exfalso
      have := le_one_disj h ha hb b.1
      have c1 : cov b.1 b = 1 := cov_self b
      have c2 : cov b.1 a = 1 := by simp [cov, bend] at *; omega
      omega
  · by_cases h2 : bend b ≤ a.1
    · exact Or.inr h2
    · exfalso
      have := le_one_disj h ha hb a.1
      have c1 : cov a.1 a = 1 := cov_self a
      have c2 : cov a.1 b = 1 := by simp [cov, bend] at *; omega
      omega

/-- two live blocks (header + payload) do not overlap -/
def LDisjoint (a b : LBlk) : Prop := a.addr + 8 + a.size ≤ b.addr ∨ b.addr + 8 + b.size ≤ a.addr

theorem pairwise_of_le_one (l : List LBlk) (rest : List FBlk)
    (h : ∀ x, sumf (cov x) (l.map LBlk.blk ++ rest) ≤ 1) : List.Pairwise LDisjoint l := by
  induction l with
  | nil => exact List.Pairwise.nil
  | cons a r ih =>
    refine List.Pairwise.cons ?_ (ih ?_)
    · intro b hb
      have h' : ∀ x, sumf (cov x) ([a.blk] ++ (r.map LBlk.blk ++ rest)) ≤ 1 := by
        intro x; have := h x; simpa using this
      have := disj_of_le_one h' (a := a.blk) (b := b.blk) (by simp)
        (List.mem_append_left _ (List.mem_map_of_mem hb))
      unfold LDisjoint
      simp [bend] at this
      omega
    · intro x
      have := h x
      simp at this ⊢
      omega

theorem inv_live_disjoint {s : State} (h : Inv s) : List.Pairwise LDisjoint s.live := by
  apply pairwise_of_le_one s.live (s.f0 ++ (s.f1 ++ (s.f2 ++ (s.f3 ++ s.free))))
  intro x
  have := tiles_le_one h.tiling x
  simpa [allBlocks] using this

theorem inv_live_bounds {s : State} (h : Inv s) : ∀ b ∈ s.live,
    s.cfg.heapBase + 48 ≤ b.addr ∧ b.addr + 8 + b.size ≤ s.heapPtr := by
  intro b hb
  have hm : b.blk ∈ [] ++ allBlocks s := by
    simp only [allBlocks, List.nil_append, List.mem_append]
    exact Or.inl (List.mem_map_of_mem hb)
  have := tiles_mem_bounds h.tiling hm
  simp [bend, heapStart] at this
  omega

theorem inv_live_aligned {s : State} (h : Inv s) : ∀ b ∈ s.live, (b.addr + 8) % 8 = 0 ∧ b.size % 8 = 0 := by
  intro b hb
  have hm : b.blk ∈ [] ++ allBlocks s := by
    simp only [allBlocks, List.nil_append, List.mem_append]
    exact Or.inl (List.mem_map_of_mem hb)
  have := (bad8_zero_iff b.blk).1 (sumf_eq_zero h.al8 b.blk hm)
  simp at this
  omega

theorem inv_free_bounds {s : State} (h : Inv s) : ∀ b ∈ s.free, s.cfg.heapBase + 48 ≤ b.1 ∧ bend b ≤ s.heapPtr := by
  intro b hb
  have := tiles_mem_bounds h.tiling (free_mem_all (ex := []) hb)
  simpa [heapStart] using this

/-- a successful `malloc` adds exactly the returned block to the live set -/
theorem malloc_live {s : State} (h : Inv s) (req : Nat) (hok : OpOK s.cfg (.malloc req)) :
    ((malloc s req).ret = 0 ∧ (malloc s req).st = s) ∨
    (∃ a, (malloc s req).ret = a + 8 ∧
      (malloc s req).st.live = ⟨a, effSize s.cfg req, req⟩ :: s.live) := by
  rcases malloc_cases h req hok with h1 | ⟨s1, b, _, _, hl, hb, hst, hret⟩
  · exact Or.inl h1
  · right
    refine ⟨b.1, hret, ?_⟩
    rw [hst]; unfold addLive; simp [hl, hb]

end WaVerif.C10

namespace WaVerif.C10

theorem inv_run' (c : Config) (h : CfgWF c) (ops : List Op) (hok : ∀ op ∈ ops, OpOK c op) :
    Inv (run c ops) ∧ (run c ops).cfg = c :=
  inv_run_from (inv_init c h) ops hok

/-- only the size bound of `OpOK` (requests up to 2^30), without the exclusion of `malloc(0)` -/
def ReqOK : Op → Prop
  | .malloc req => req ≤ 1073741824
  | .free _ => True

instance (op : Op) : Decidable (ReqOK op) := by
  cases op <;> (unfold ReqOK; exact inferInstance)

end WaVerif.C10
