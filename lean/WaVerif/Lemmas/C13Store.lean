import WaVerif.Model.C13RB
/-!
C13 — store-level lemmas for the mirror: what each primitive write does to each field of each node
(`nd`), to `nodes`, `root`, and the heap size.  Everything later is computed with these by `simp`.
-/
namespace WaVerif.C13RB

theorem getD_modify {α : Type} (a : Array α) (i j : Nat) (f : α → α) (d : α) :
    (a.modify i f).getD j d = if j = i ∧ i < a.size then f (a.getD j d) else a.getD j d := by
  simp only [Array.getD_eq_getD_getElem?, Array.getElem?_modify]
  by_cases h : i = j
  · subst h
    by_cases h2 : i < a.size
    · simp [h2]
    · simp [h2]
  · have : ¬ j = i := fun e => h e.symm
    simp [h, this]

theorem nd_upd (s : St) (p q : Nat) (f : Node → Node) :
    (s.upd p f).nd q = if q = p ∧ p < s.heap.size then f (s.nd q) else s.nd q := by
  simp only [St.upd, St.nd, getD_modify]

@[simp] theorem upd_nodes (s : St) (p : Nat) (f : Node → Node) : (s.upd p f).nodes = s.nodes := rfl
@[simp] theorem upd_root (s : St) (p : Nat) (f : Node → Node) : (s.upd p f).root = s.root := rfl
@[simp] theorem upd_fault (s : St) (p : Nat) (f : Node → Node) : (s.upd p f).fault = s.fault := rfl
@[simp] theorem upd_size (s : St) (p : Nat) (f : Node → Node) : (s.upd p f).heap.size = s.heap.size := by
  simp [St.upd]

/-! ### setRoot -/
@[simp] theorem setRoot_nd (s : St) (p q : Nat) : (s.setRoot p).nd q = s.nd q := rfl
@[simp] theorem setRoot_nodes (s : St) (p : Nat) : (s.setRoot p).nodes = s.nodes := rfl
@[simp] theorem setRoot_root (s : St) (p : Nat) : (s.setRoot p).root = p := rfl
@[simp] theorem setRoot_size (s : St) (p : Nat) : (s.setRoot p).heap.size = s.heap.size := rfl
@[simp] theorem setRoot_fault (s : St) (p : Nat) : (s.setRoot p).fault = s.fault := rfl
@[simp] theorem setRoot_parentOf (s : St) (p q : Nat) : (s.setRoot p).parentOf q = s.parentOf q := rfl

/-! ### setParent -/
@[simp] theorem setParent_nodes (s : St) (x y : Nat) : (s.setParent x y).nodes = s.nodes := rfl
@[simp] theorem setParent_root (s : St) (x y : Nat) : (s.setParent x y).root = s.root := rfl
@[simp] theorem setParent_fault (s : St) (x y : Nat) : (s.setParent x y).fault = s.fault := rfl
@[simp] theorem setParent_size (s : St) (x y : Nat) : (s.setParent x y).heap.size = s.heap.size := by
  simp [St.setParent]
@[simp] theorem setParent_left (s : St) (x y q : Nat) : ((s.setParent x y).nd q).left = (s.nd q).left := by
  simp only [St.setParent, nd_upd]; split <;> rfl
@[simp] theorem setParent_right (s : St) (x y q : Nat) : ((s.setParent x y).nd q).right = (s.nd q).right := by
  simp only [St.setParent, nd_upd]; split <;> rfl
@[simp] theorem setParent_key (s : St) (x y q : Nat) : ((s.setParent x y).nd q).key = (s.nd q).key := by
  simp only [St.setParent, nd_upd]; split <;> rfl
@[simp] theorem setParent_val (s : St) (x y q : Nat) : ((s.setParent x y).nd q).val = (s.nd q).val := by
  simp only [St.setParent, nd_upd]; split <;> rfl
@[simp] theorem setParent_red (s : St) (x y q : Nat) : ((s.setParent x y).nd q).red = (s.nd q).red := by
  simp only [St.setParent, nd_upd]; split <;> rfl
@[simp] theorem setParent_idx (s : St) (x y q : Nat) : ((s.setParent x y).nd q).idx = (s.nd q).idx := by
  simp only [St.setParent, nd_upd]; split <;> rfl
theorem setParent_parent (s : St) (x y q : Nat) :
    ((s.setParent x y).nd q).parent = if q = x ∧ x < s.heap.size then (s.nd y).idx else (s.nd q).parent := by
  simp only [St.setParent, nd_upd]; split <;> rfl

/-! ### setRed -/
@[simp] theorem setRed_nodes (s : St) (p : Nat) (c : Bool) : (s.setRed p c).nodes = s.nodes := rfl
@[simp] theorem setRed_root (s : St) (p : Nat) (c : Bool) : (s.setRed p c).root = s.root := rfl
@[simp] theorem setRed_fault (s : St) (p : Nat) (c : Bool) : (s.setRed p c).fault = s.fault := rfl
@[simp] theorem setRed_size (s : St) (p : Nat) (c : Bool) : (s.setRed p c).heap.size = s.heap.size := by
  simp [St.setRed]
@[simp] theorem setRed_left (s : St) (p : Nat) (c : Bool) (q : Nat) : ((s.setRed p c).nd q).left = (s.nd q).left := by
  simp only [St.setRed, nd_upd]; split <;> rfl
@[simp] theorem setRed_right (s : St) (p : Nat) (c : Bool) (q : Nat) : ((s.setRed p c).nd q).right = (s.nd q).right := by
  simp only [St.setRed, nd_upd]; split <;> rfl
@[simp] theorem setRed_key (s : St) (p : Nat) (c : Bool) (q : Nat) : ((s.setRed p c).nd q).key = (s.nd q).key := by
  simp only [St.setRed, nd_upd]; split <;> rfl
@[simp] theorem setRed_val (s : St) (p : Nat) (c : Bool) (q : Nat) : ((s.setRed p c).nd q).val = (s.nd q).val := by
  simp only [St.setRed, nd_upd]; split <;> rfl
@[simp] theorem setRed_idx (s : St) (p : Nat) (c : Bool) (q : Nat) : ((s.setRed p c).nd q).idx = (s.nd q).idx := by
  simp only [St.setRed, nd_upd]; split <;> rfl
@[simp] theorem setRed_parent (s : St) (p : Nat) (c : Bool) (q : Nat) : ((s.setRed p c).nd q).parent = (s.nd q).parent := by
  simp only [St.setRed, nd_upd]; split <;> rfl
@[simp] theorem setRed_parentOf (s : St) (p : Nat) (c : Bool) (q : Nat) : (s.setRed p c).parentOf q = s.parentOf q := by
  simp [St.parentOf]
theorem setRed_red (s : St) (p : Nat) (c : Bool) (q : Nat) :
    ((s.setRed p c).nd q).red = if q = p ∧ p < s.heap.size then c else (s.nd q).red := by
  simp only [St.setRed, nd_upd]; split <;> rfl

/-! ### setLeft -/
@[simp] theorem setLeft_nodes (s : St) (p v : Nat) : (s.setLeft p v).nodes = s.nodes := rfl
@[simp] theorem setLeft_root (s : St) (p v : Nat) : (s.setLeft p v).root = s.root := rfl
@[simp] theorem setLeft_fault (s : St) (p v : Nat) : (s.setLeft p v).fault = s.fault := rfl
@[simp] theorem setLeft_size (s : St) (p v : Nat) : (s.setLeft p v).heap.size = s.heap.size := by
  simp [St.setLeft]
@[simp] theorem setLeft_right (s : St) (p v q : Nat) : ((s.setLeft p v).nd q).right = (s.nd q).right := by
  simp only [St.setLeft, nd_upd]; split <;> rfl
@[simp] theorem setLeft_key (s : St) (p v q : Nat) : ((s.setLeft p v).nd q).key = (s.nd q).key := by
  simp only [St.setLeft, nd_upd]; split <;> rfl
@[simp] theorem setLeft_val (s : St) (p v q : Nat) : ((s.setLeft p v).nd q).val = (s.nd q).val := by
  simp only [St.setLeft, nd_upd]; split <;> rfl
@[simp] theorem setLeft_red (s : St) (p v q : Nat) : ((s.setLeft p v).nd q).red = (s.nd q).red := by
  simp only [St.setLeft, nd_upd]; split <;> rfl
@[simp] theorem setLeft_idx (s : St) (p v q : Nat) : ((s.setLeft p v).nd q).idx = (s.nd q).idx := by
  simp only [St.setLeft, nd_upd]; split <;> rfl
@[simp] theorem setLeft_parent (s : St) (p v q : Nat) : ((s.setLeft p v).nd q).parent = (s.nd q).parent := by
  simp only [St.setLeft, nd_upd]; split <;> rfl
@[simp] theorem setLeft_parentOf (s : St) (p v q : Nat) : (s.setLeft p v).parentOf q = s.parentOf q := by
  simp [St.parentOf]
theorem setLeft_left (s : St) (p v q : Nat) :
    ((s.setLeft p v).nd q).left = if q = p ∧ p < s.heap.size then v else (s.nd q).left := by
  simp only [St.setLeft, nd_upd]; split <;> rfl

/-! ### setRight -/
@[simp] theorem setRight_nodes (s : St) (p v : Nat) : (s.setRight p v).nodes = s.nodes := rfl
@[simp] theorem setRight_root (s : St) (p v : Nat) : (s.setRight p v).root = s.root := rfl
@[simp] theorem setRight_fault (s : St) (p v : Nat) : (s.setRight p v).fault = s.fault := rfl
@[simp] theorem setRight_size (s : St) (p v : Nat) : (s.setRight p v).heap.size = s.heap.size := by
  simp [St.setRight]
@[simp] theorem setRight_left (s : St) (p v q : Nat) : ((s.setRight p v).nd q).left = (s.nd q).left := by
  simp only [St.setRight, nd_upd]; split <;> rfl
@[simp] theorem setRight_key (s : St) (p v q : Nat) : ((s.setRight p v).nd q).key = (s.nd q).key := by
  simp only [St.setRight, nd_upd]; split <;> rfl
@[simp] theorem setRight_val (s : St) (p v q : Nat) : ((s.setRight p v).nd q).val = (s.nd q).val := by
  simp only [St.setRight, nd_upd]; split <;> rfl
@[simp] theorem setRight_red (s : St) (p v q : Nat) : ((s.setRight p v).nd q).red = (s.nd q).red := by
  simp only [St.setRight, nd_upd]; split <;> rfl
@[simp] theorem setRight_idx (s : St) (p v q : Nat) : ((s.setRight p v).nd q).idx = (s.nd q).idx := by
  simp only [St.setRight, nd_upd]; split <;> rfl
@[simp] theorem setRight_parent (s : St) (p v q : Nat) : ((s.setRight p v).nd q).parent = (s.nd q).parent := by
  simp only [St.setRight, nd_upd]; split <;> rfl
@[simp] theorem setRight_parentOf (s : St) (p v q : Nat) : (s.setRight p v).parentOf q = s.parentOf q := by
  simp [St.parentOf]
theorem setRight_right (s : St) (p v q : Nat) :
    ((s.setRight p v).nd q).right = if q = p ∧ p < s.heap.size then v else (s.nd q).right := by
  simp only [St.setRight, nd_upd]; split <;> rfl

theorem setParent_parentOf (s : St) (x y q : Nat) :
    (s.setParent x y).parentOf q =
      if q = x ∧ x < s.heap.size then s.nodes.getD (s.nd y).idx 0 else s.parentOf q := by
  simp only [St.parentOf, setParent_nodes, setParent_parent]
  split <;> rfl

theorem setParent_parentOf_ne (s : St) (x y q : Nat) (h : q ≠ x) : (s.setParent x y).parentOf q = s.parentOf q := by
  rw [setParent_parentOf]; simp [h]

end WaVerif.C13RB
