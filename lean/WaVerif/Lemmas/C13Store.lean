import WaVerif.Model.C13RB
/-!
C13 — store-level lemmas for the mirror: what each primitive write does to each field of each node
(`nd`), to `nodes`, `root`, and the heap size.  Everything later is computed with these by `simp`.
-/
namespace WaVerif.C13RB

theorem getD_modify {α : Type} (a : Array α) (i j : Nat) (f : α → α) (d : α) :
    (a.modify i f).getD j d = if j = i ∧ i < a.size then f (a.getD j d) else a.getD j d := by
  simp only [Array.getD_eq_getD_getElem?, Array.getElem?_modify]
  by_cases h : i = j
  · subst h
    by_cases h2 : i < a.size
    · simp [h2]
    · simp [h2]
  · have : ¬ j = i := fun e => h e.symm
    simp [h, this]

theorem nd_upd (s : St) (p q : Nat) (f : Node → Node) :
    (s.upd p f).nd q = if q = p ∧ p < s.heap.size then f (s.nd q) else s.nd q := by
  simp only [St.upd, St.nd, getD_modify]

@[simp] theorem upd_nodes (s : St) (p : Nat) (f : Node → Node) : (s.upd p f).nodes = s.nodes := rfl
@[simp] theorem upd_root (s : St) (p : Nat) (f : Node → Node) : (s.upd p f).root = s.root := rfl
@[simp] theorem upd_fault (s : St) (p : Nat) (f : Node → Node) : (s.upd p f).fault = s.fault := rfl
@[simp] theorem upd_size (s : St) (p : Nat) (f : Node → Node) : (s.upd p f).heap.size = s.heap.size := by
  simp [St.upd]

/-! ### setRoot -/
@[simp] theorem setRoot_nd (s : St) (p q : Nat) : (s.setRoot p).nd q = s.nd q := rfl
@[simp] theorem setRoot_nodes (s : St) (p : Nat) : (s.setRoot p).nodes = s.nodes := rfl
@[simp] theorem setRoot_root (s : St) (p : Nat) : (s.setRoot p).root = p := rfl
@[simp] theorem setRoot_size (s : St) (p : Nat) : (s.setRoot p).heap.size = s.heap.size := rfl
@[simp] theorem setRoot_fault (s : St) (p : Nat) : (s.setRoot p).fault = s.fault := rfl
@[simp] theorem setRoot_parentOf (s : St) (p q : Nat) : (s.setRoot p).parentOf q = s.parentOf q := rfl

/-! ### setParent -/
@[simp] theorem setParent_nodes (s : St) (x y : Nat) : (s.setParent x y).nodes = s.nodes := rfl
@[simp] theorem setParent_root (s : St) (x y : Nat) : (s.setParent x y).root = s.root := rfl
@[simp] theorem setParent_fault (s : St) (x y : Nat) : (s.setParent x y).fault = s.fault := rfl
@[simp] theorem setParent_size (s : St) (x y : Nat) : (s.setParent x y).heap.size = s.heap.size := by
  simp [St.setParent]
@[simp] theorem setParent_left (s : St) (x y q : Nat) : ((s.setParent x y).nd q).left = (s.nd q).left := by
  simp only [St.setParent, nd_upd]; split <;> rfl
@[simp] theorem setParent_right (s : St) (x y q : Nat) : ((s.setParent x y).nd q).right = (s.nd q).right := by
  simp only [St.setParent, nd_upd]; split <;> rfl
@[simp] theorem setParent_key (s : St) (x y q : Nat) : ((s.setParent x y).nd q).key = (s.nd q).key := by
  simp only [St.setParent, nd_upd]; split <;> rfl
@[simp] theorem setParent_val (s : St) (x y q : Nat) : ((s.setParent x y).nd q).val = (s.nd q).val := by
  simp only [St.setParent, nd_upd]; split <;> rfl
@[simp] theorem setParent_red (s : St) (x y q : Nat) : ((s.setParent x y).nd q).red = (s.nd q).red := by
  simp only [St.setParent, nd_upd]; split <;> rfl
@[simp] theorem setParent_idx (s : St) (x y q : Nat) : ((s.setParent x y).nd q).idx = (s.nd q).idx := by
  simp only [St.setParent, nd_upd]; split <;> rfl
theorem setParent_parent (s : St) (x y q : Nat) :
    ((s.setParent x y).nd q).parent = if q = x ∧ x < s.heap.size then (s.nd y).idx else (s.nd q).parent := by
  simp only [St.setParent, nd_upd]; split <;> rfl

/-! ### setRed -/
@[simp] theorem setRed_nodes (s : St) (p : Nat) (c : Bool) : (s.setRed p c).nodes = s.nodes := rfl
@[simp] theorem setRed_root (s : St) (p : Nat) (c : Bool) : (s.setRed p c).root = s.root := rfl
@[simp] theorem setRed_fault (s : St) (p : Nat) (c : Bool) : (s.setRed p c).fault = s.fault := rfl
@[simp] theorem setRed_size (s : St) (p : Nat) (c : Bool) : (s.setRed p c).heap.size = s.heap.size := by
  simp [St.setRed]
@[simp] theorem setRed_left (s : St) (p : Nat) (c : Bool) (q : Nat) : ((s.setRed p c).nd q).left = (s.nd q).left := by
  simp only [St.setRed, nd_upd]; split <;> rfl
@[simp] theorem setRed_right (s : St) (p : Nat) (c : Bool) (q : Nat) : ((s.setRed p c).nd q).right = (s.nd q).right := by
  simp only [St.setRed, nd_upd]; split <;> rfl
@[simp] theorem setRed_key (s : St) (p : Nat) (c : Bool) (q : Nat) : ((s.setRed p c).nd q).key = (s.nd q).key := by
  simp only [St.setRed, nd_upd]; split <;> rfl
@[simp] theorem setRed_val (s : St) (p : Nat) (c : Bool) (q : Nat) : ((s.setRed p c).nd q).val = (s.nd q).val := by
  simp only [St.setRed, nd_upd]; split <;> rfl
@[simp] theorem setRed_idx (s : St) (p : Nat) (c : Bool) (q : Nat) : ((s.setRed p c).nd q).idx = (s.nd q).idx := by
  simp only [St.setRed, nd_upd]; split <;> rfl
@[simp] theorem setRed_parent (s : St) (p : Nat) (c : Bool) (q : Nat) : ((s.setRed p c).nd q).parent = (s.nd q).parent := by
  simp only [St.setRed, nd_upd]; split <;> rfl
@[simp] theorem setRed_parentOf (s : St) (p : Nat) (c : Bool) (q : Nat) : (s.setRed p c).parentOf q = s.parentOf q := by
  simp [St.parentOf]
theorem setRed_red (s : St) (p : Nat) (c : Bool) (q : Nat) :
    ((s.setRed p c).nd q).red = if q = p ∧ p < s.heap.size then c else (s.nd q).red := by
  simp only [St.setRed, nd_upd]; split <;> rfl

/-! ### setLeft -/
@[simp] theorem setLeft_nodes (s : St) (p v : Nat) : (s.setLeft p v).nodes = s.nodes := rfl
@[simp] theorem setLeft_root (s : St) (p v : Nat) : (s.setLeft p v).root = s.root := rfl
@[simp] theorem setLeft_fault (s : St) (p v : Nat) : (s.setLeft p v).fault = s.fault := rfl
@[simp] theorem setLeft_size (s : St) (p v : Nat) : (s.setLeft p v).heap.size = s.heap.size := by
  simp [St.setLeft]
@[simp] theorem setLeft_right (s : St) (p v q : Nat) : ((s.setLeft p v).nd q).right = (s.nd q).right := by
  simp only [St.setLeft, nd_upd]; split <;> rfl
@[simp] theorem setLeft_key (s : St) (p v q : Nat) : ((s.setLeft p v).nd q).key = (s.nd q).key := by
  simp only [St.setLeft, nd_upd]; split <;> rfl
@[simp] theorem setLeft_val (s : St) (p v q : Nat) : ((s.setLeft p v).nd q).val = (s.nd q).val := by
  simp only [St.setLeft, nd_upd]; split <;> rfl
@[simp] theorem setLeft_red (s : St) (p v q : Nat) : ((s.setLeft p v).nd q).red = (s.nd q).red := by
  simp only [St.setLeft, nd_upd]; split <;> rfl
@[simp] theorem setLeft_idx (s : St) (p v q : Nat) : ((s.setLeft p v).nd q).idx = (s.nd q).idx := by
  simp only [St.setLeft, nd_upd]; split <;> rfl
@[simp] theorem setLeft_parent (s : St) (p v q : Nat) : ((s.setLeft p v).nd q).parent = (s.nd q).parent := by
  simp only [St.setLeft, nd_upd]; split <;> rfl
@[simp] theorem setLeft_parentOf (s : St) (p v q : Nat) : (s.setLeft p v).parentOf q = s.parentOf q := by
  simp [St.parentOf]
theorem setLeft_left (s : St) (p v q : Nat) :
    ((s.setLeft p v).nd q).left = if q = p ∧ p < s.heap.size then v else (s.nd q).left := by
  simp only [St.setLeft, nd_upd]; split <;> rfl

/-! ### setRight -/
@[simp] theorem setRight_nodes (s : St) (p v : Nat) : (s.setRight p v).nodes = s.nodes := rfl
@[simp] theorem setRight_root (s : St) (p v : Nat) : (s.setRight p v).root = s.root := rfl
@[simp] theorem setRight_fault (s : St) (p v : Nat) : (s.setRight p v).fault = s.fault := rfl
@[simp] theorem setRight_size (s : St) (p v : Nat) : (s.setRight p v).heap.size = s.heap.size := by
  simp [St.setRight]
@[simp] theorem setRight_left (s : St) (p v q : Nat) : ((s.setRight p v).nd q).left = (s.nd q).left := by
  simp only [St.setRight, nd_upd]; split <;> rfl
@[simp] theorem setRight_key (s : St) (p v q : Nat) : ((s.setRight p v).nd q).key = (s.nd q).key := by
  simp only [St.setRight, nd_upd]; split <;> rfl
@[simp] theorem setRight_val (s : St) (p v q : Nat) : ((s.setRight p v).nd q).val = (s.nd q).val := by
  simp only [St.setRight, nd_upd]; split <;> rfl
@[simp] theorem setRight_red (s : St) (p v q : Nat) : ((s.setRight p v).nd q).red = (s.nd q).red := by
  simp only [St.setRight, nd_upd]; split <;> rfl
@[simp] theorem setRight_idx (s : St) (p v q : Nat) : ((s.setRight p v).nd q).idx = (s.nd q).idx := by
  simp only [St.setRight, nd_upd]; split <;> rfl
@[simp] theorem setRight_parent (s : St) (p v q : Nat) : ((s.setRight p v).nd q).parent = (s.nd q).parent := by
  simp only [St.setRight, nd_upd]; split <;> rfl
@[simp] theorem setRight_parentOf (s : St) (p v q : Nat) : (s.setRight p v).parentOf q = s.parentOf q := by
  simp [St.parentOf]
theorem setRight_right (s : St) (p v q : Nat) :
    ((s.setRight p v).nd q).right = if q = p ∧ p < s.heap.size then v else (s.nd q).right := by
  simp only [St.setRight, nd_upd]; split <;> rfl

theorem setParent_parentOf (s : St) (x y q : Nat) :
    (s.setParent x y).parentOf q =
      if q = x ∧ x < s.heap.size then s.nodes.getD (s.nd y).idx 0 else s.parentOf q := by
  simp only [St.parentOf, setParent_nodes, setParent_parent]
  split <;> rfl

theorem setParent_parentOf_ne (s : St) (x y q : Nat) (h : q ≠ x) : (s.setParent x y).parentOf q = s.parentOf q := by
  rw [setParent_parentOf]; simp [h]

/-! ### adopt: `if c != NIL { c.SetParent(p) }` -/
@[simp] theorem adopt_nodes (s : St) (c p : Nat) : (adopt s c p).nodes = s.nodes := by unfold adopt; split <;> rfl
@[simp] theorem adopt_root (s : St) (c p : Nat) : (adopt s c p).root = s.root := by unfold adopt; split <;> rfl
@[simp] theorem adopt_fault (s : St) (c p : Nat) : (adopt s c p).fault = s.fault := by unfold adopt; split <;> rfl
@[simp] theorem adopt_size (s : St) (c p : Nat) : (adopt s c p).heap.size = s.heap.size := by
  unfold adopt; split <;> simp
@[simp] theorem adopt_left (s : St) (c p q : Nat) : ((adopt s c p).nd q).left = (s.nd q).left := by
  unfold adopt; split <;> simp
@[simp] theorem adopt_right (s : St) (c p q : Nat) : ((adopt s c p).nd q).right = (s.nd q).right := by
  unfold adopt; split <;> simp
@[simp] theorem adopt_key (s : St) (c p q : Nat) : ((adopt s c p).nd q).key = (s.nd q).key := by
  unfold adopt; split <;> simp
@[simp] theorem adopt_val (s : St) (c p q : Nat) : ((adopt s c p).nd q).val = (s.nd q).val := by
  unfold adopt; split <;> simp
@[simp] theorem adopt_red (s : St) (c p q : Nat) : ((adopt s c p).nd q).red = (s.nd q).red := by
  unfold adopt; split <;> simp
@[simp] theorem adopt_idx (s : St) (c p q : Nat) : ((adopt s c p).nd q).idx = (s.nd q).idx := by
  unfold adopt; split <;> simp
theorem adopt_parentOf_ne (s : St) (c p q : Nat) (h : q ≠ c) : (adopt s c p).parentOf q = s.parentOf q := by
  unfold adopt; split
  · exact setParent_parentOf_ne s c p q h
  · rfl
theorem adopt_parentOf_self (s : St) (c p : Nat) (hc : c ≠ 0) (hs : c < s.heap.size) :
    (adopt s c p).parentOf c = s.nodes.getD (s.nd p).idx 0 := by
  unfold adopt; rw [if_pos hc, setParent_parentOf]; simp [hs]

/-! ### relink: redirect the pointer that led to `x` -/
@[simp] theorem relink_nodes (s : St) (x y : Nat) : (relink s x y).nodes = s.nodes := by
  unfold relink; repeat' split
  all_goals rfl
@[simp] theorem relink_fault (s : St) (x y : Nat) : (relink s x y).fault = s.fault := by
  unfold relink; repeat' split
  all_goals rfl
@[simp] theorem relink_size (s : St) (x y : Nat) : (relink s x y).heap.size = s.heap.size := by
  unfold relink; repeat' split
  all_goals simp
@[simp] theorem relink_key (s : St) (x y q : Nat) : ((relink s x y).nd q).key = (s.nd q).key := by
  unfold relink; repeat' split
  all_goals simp
@[simp] theorem relink_val (s : St) (x y q : Nat) : ((relink s x y).nd q).val = (s.nd q).val := by
  unfold relink; repeat' split
  all_goals simp
@[simp] theorem relink_red (s : St) (x y q : Nat) : ((relink s x y).nd q).red = (s.nd q).red := by
  unfold relink; repeat' split
  all_goals simp
@[simp] theorem relink_idx (s : St) (x y q : Nat) : ((relink s x y).nd q).idx = (s.nd q).idx := by
  unfold relink; repeat' split
  all_goals simp
@[simp] theorem relink_parent (s : St) (x y q : Nat) : ((relink s x y).nd q).parent = (s.nd q).parent := by
  unfold relink; repeat' split
  all_goals simp
@[simp] theorem relink_parentOf (s : St) (x y q : Nat) : (relink s x y).parentOf q = s.parentOf q := by
  simp [St.parentOf]
theorem relink_left_ne (s : St) (x y q : Nat) (h : q ≠ s.parentOf x) : ((relink s x y).nd q).left = (s.nd q).left := by
  unfold relink; repeat' split
  all_goals simp [setLeft_left, h]
theorem relink_right_ne (s : St) (x y q : Nat) (h : q ≠ s.parentOf x) : ((relink s x y).nd q).right = (s.nd q).right := by
  unfold relink; repeat' split
  all_goals simp [setRight_right, h]
theorem relink_root (s : St) (x y : Nat) : (relink s x y).root = if s.parentOf x = 0 then y else s.root := by
  unfold relink
  by_cases h : s.parentOf x = 0
  · simp only [h, if_true, setRoot_root]
  · simp only [h, if_false]; split <;> rfl
/-- at the parent: the child field that held `x` now holds `y`, the other one is unchanged -/
theorem relink_at_parent (s : St) (x y : Nat) (h0 : s.parentOf x ≠ 0) (hs : s.parentOf x < s.heap.size) :
    ((relink s x y).nd (s.parentOf x)).left = (if x = (s.nd (s.parentOf x)).left then y else (s.nd (s.parentOf x)).left) ∧
    ((relink s x y).nd (s.parentOf x)).right = (if x = (s.nd (s.parentOf x)).left then (s.nd (s.parentOf x)).right else y) := by
  unfold relink; rw [if_neg h0]
  split <;> simp [setLeft_left, setRight_right, hs]

end WaVerif.C13RB
