import WaVerif.Lemmas.C05Func
/-! C05: whatever the model parser accepts is well formed (so printing it and parsing again is the identity). -/
namespace WaVerif.C05

theorem groupBody_wf : ∀ (l : List SExp) (args : List SExp) (is : List Instr), groupBody l = some (args, is) →
    (∀ a ∈ args, a.isOp = false) ∧ (∀ i ∈ is, i.WF)
  | [], args, is, h => by
    simp [groupBody] at h
    obtain ⟨rfl, rfl⟩ := h
    simp
  | x :: rest, args, is, h => by
    simp only [groupBody] at h
    cases hr : groupBody rest with
    | none => simp [hr] at h
    | some p =>
      obtain ⟨a0, is0⟩ := p
      have ih := groupBody_wf rest a0 is0 hr
      simp only [hr] at h
      cases x with
      | list l =>
        simp at h
        obtain ⟨rfl, rfl⟩ := h
        refine ⟨?_, ih.2⟩
        intro a ha
        rcases List.mem_cons.mp ha with rfl | ha
        · rfl
        · exact ih.1 a ha
      | atom at' =>
        cases at' with
        | op s =>
          simp at h
          obtain ⟨rfl, rfl⟩ := h
          refine ⟨by simp, ?_⟩
          intro i hi
          rcases List.mem_cons.mp hi with rfl | hi
          · exact ih.1
          · exact ih.2 i hi
        | kw s | id s | str s | int s | flt w b =>
          simp at h
          obtain ⟨rfl, rfl⟩ := h
          refine ⟨?_, ih.2⟩
          intro a ha
          rcases List.mem_cons.mp ha with rfl | ha
          · rfl
          · exact ih.1 a ha

theorem bodyOf_wf (l : List SExp) (b : List Instr) (h : bodyOf l = some b) : ∀ i ∈ b, i.WF := by
  unfold bodyOf at h
  split at h
  · rename_i is hg
    cases h
    exact (groupBody_wf l [] _ hg).2
  · cases h

theorem Func.ofArgs_wf (l : List SExp) (f : Func) (h : Func.ofArgs l = some f) : f.WF := by
  unfold Func.ofArgs at h
  split at h
  · split at h
    · rename_i hb
      cases h
      exact bodyOf_wf _ _ hb
    · cases h
  · cases h

theorem Module.step_wf (x : SExp) (a a' : Module) (h : Module.step x a = some a') (ha : a.WF) : a'.WF := by
  unfold Module.step at h
  split at h
  · rename_i k r
    -- every branch either leaves `funcs` alone or prepends a function produced by `Func.ofArgs`
    repeat' split at h
    all_goals first
      | cases h
      | (simp only [Option.map_eq_some_iff] at h
         obtain ⟨v, hv, rfl⟩ := h
         first
           | exact ha
           | (intro f hf
              rcases List.mem_cons.mp hf with rfl | hf
              · exact Func.ofArgs_wf _ _ hv
              · exact ha f hf))
  · cases h

theorem foldFields_wf (l : List SExp) (a a' : Module) (h : foldFields Module.step l a = some a') (ha : a.WF) : a'.WF := by
  induction l generalizing a' with
  | nil => simp [foldFields] at h; subst h; exact ha
  | cons x xs ih =>
    simp only [foldFields] at h
    cases hr : foldFields Module.step xs a with
    | none => simp [hr] at h
    | some b =>
      simp [hr] at h
      exact Module.step_wf x b a' h (ih b hr)

theorem Module.ofS_wf (e : SExp) (m : Module) (h : Module.ofS e = some m) : m.WF := by
  unfold Module.ofS at h
  split at h
  · split at h
    · exact foldFields_wf _ _ _ h (by intro f hf; simp [Module.empty] at hf)
    · cases h
  · cases h

theorem parse_wf (ts : List Tok) (m : Module) (h : parse ts = some m) : m.WF := by
  unfold parse at h
  split at h
  · exact Module.ofS_wf _ _ h
  · cases h

end WaVerif.C05
