import WaVerif.Lemmas.C13Rotate
/-!
C13 — whole-tree invariant of the mirror (`TInv`: the root represents a tree with distinct nodes,
parent indices lead to the tree parent, every tree node sits in the slot its `NodeIdx` names) and its
preservation by a rotation at ANY node of the tree.
-/
namespace WaVerif.C13RB

/-- parent links: the top node's `Parent()` is `par`, every other node's is its tree parent -/
def POK (s : St) : Nat → RTree → Prop
  | _, .leaf => True
  | par, .node l p _ _ r => s.parentOf p = par ∧ POK s p l ∧ POK s p r

namespace RTree

/-- left rotation at the node with pointer `x` (no effect if `x` is absent or has no right child) -/
def rotL (x : Nat) : RTree → RTree
  | leaf => leaf
  | node l p k v r =>
    if p = x then
      match r with
      | node b y ky vy c => node (node l p k v b) y ky vy c
      | leaf => node l p k v leaf
    else node (l.rotL x) p k v (r.rotL x)

/-- right rotation at the node with pointer `x` -/
def rotR (x : Nat) : RTree → RTree
  | leaf => leaf
  | node l p k v r =>
    if p = x then
      match l with
      | node a y ky vy b => node a y ky vy (node b p k v r)
      | leaf => node leaf p k v r
    else node (l.rotR x) p k v (r.rotR x)

theorem rotL_toList (x : Nat) (t : RTree) : (t.rotL x).toList = t.toList := by
  induction t with
  | leaf => rfl
  | node l p k v r ihl ihr =>
    simp only [rotL]
    split
    · cases r <;> simp [toList]
    · simp [toList, ihl, ihr]

theorem rotL_ptrs (x : Nat) (t : RTree) : (t.rotL x).ptrs = t.ptrs := by
  induction t with
  | leaf => rfl
  | node l p k v r ihl ihr =>
    simp only [rotL]
    split
    · cases r <;> simp [ptrs]
    · simp [ptrs, ihl, ihr]

theorem rotR_toList (x : Nat) (t : RTree) : (t.rotR x).toList = t.toList := by
  induction t with
  | leaf => rfl
  | node l p k v r ihl ihr =>
    simp only [rotR]
    split
    · cases l <;> simp [toList]
    · simp [toList, ihl, ihr]

theorem rotR_ptrs (x : Nat) (t : RTree) : (t.rotR x).ptrs = t.ptrs := by
  induction t with
  | leaf => rfl
  | node l p k v r ihl ihr =>
    simp only [rotR]
    split
    · cases l <;> simp [ptrs]
    · simp [ptrs, ihl, ihr]

theorem rotL_not_mem (x : Nat) (t : RTree) (h : x ∉ t.ptrs) : t.rotL x = t := by
  induction t with
  | leaf => rfl
  | node l p k v r ihl ihr =>
    simp only [ptrs, List.mem_append, List.mem_cons, not_or] at h
    have : ¬ p = x := fun e => h.2.1 e.symm
    simp only [rotL, this, if_false, ihl h.1, ihr h.2.2]

theorem rotR_not_mem (x : Nat) (t : RTree) (h : x ∉ t.ptrs) : t.rotR x = t := by
  induction t with
  | leaf => rfl
  | node l p k v r ihl ihr =>
    simp only [ptrs, List.mem_append, List.mem_cons, not_or] at h
    have : ¬ p = x := fun e => h.2.1 e.symm
    simp only [rotR, this, if_false, ihl h.1, ihr h.2.2]

end RTree

/-! ### membership facts -/

theorem rep_zero_leaf {s : St} {t : RTree} (h : Rep s 0 t) : t = .leaf := by
  cases t with
  | leaf => rfl
  | node l q k v r => exact absurd rfl h.2.1

/-- children of a tree node are tree nodes or NIL -/
theorem rep_children_mem {s : St} {p : Nat} {t : RTree} (h : Rep s p t) {x : Nat} (hx : x ∈ t.ptrs) :
    ((s.nd x).left = 0 ∨ (s.nd x).left ∈ t.ptrs) ∧ ((s.nd x).right = 0 ∨ (s.nd x).right ∈ t.ptrs) := by
  induction t generalizing p with
  | leaf => cases hx
  | node l q k v r ihl ihr =>
    obtain ⟨rfl, _, _, _, _, hl, hr⟩ := h
    simp only [RTree.ptrs, List.mem_append, List.mem_cons] at hx ⊢
    rcases hx with hx | rfl | hx
    · have := ihl hl hx
      exact ⟨this.1.imp id Or.inl, this.2.imp id Or.inl⟩
    · exact ⟨(rep_root_zero_or_mem hl).imp id Or.inl, (rep_root_zero_or_mem hr).imp id (fun h => Or.inr (Or.inr h))⟩
    · have := ihr hr hx
      exact ⟨this.1.imp id (fun h => Or.inr (Or.inr h)), this.2.imp id (fun h => Or.inr (Or.inr h))⟩

/-- the subtree hanging at a tree node -/
theorem rep_sub {s : St} {p : Nat} {t : RTree} (h : Rep s p t) (hn : t.ptrs.Nodup) {x : Nat} (hx : x ∈ t.ptrs) :
    ∃ a kx vx c, Rep s x (.node a x kx vx c) ∧ (RTree.node a x kx vx c).ptrs.Nodup ∧
      ∀ q ∈ (RTree.node a x kx vx c).ptrs, q ∈ t.ptrs := by
  induction t generalizing p with
  | leaf => cases hx
  | node l q k v r ihl ihr =>
    have h' := h
    obtain ⟨rfl, _, _, _, _, hl, hr⟩ := h
    simp only [RTree.ptrs, List.nodup_append, List.nodup_cons] at hn
    simp only [RTree.ptrs, List.mem_append, List.mem_cons] at hx
    rcases hx with hx | rfl | hx
    · obtain ⟨a, kx, vx, c, h1, h2, h3⟩ := ihl hl hn.1 hx
      exact ⟨a, kx, vx, c, h1, h2, fun q hq => by simp [RTree.ptrs, h3 q hq]⟩
    · exact ⟨l, k, v, r, h', by simp only [RTree.ptrs, List.nodup_append, List.nodup_cons]; exact hn, fun q hq => hq⟩
    · obtain ⟨a, kx, vx, c, h1, h2, h3⟩ := ihr hr hn.2.1.2 hx
      exact ⟨a, kx, vx, c, h1, h2, fun q hq => by simp [RTree.ptrs, h3 q hq]⟩

/-- the parent of a tree node: `par` for the top node, a tree node otherwise -/
theorem pok_parentOf {s : St} {p par : Nat} {t : RTree} (h : Rep s p t) (hn : t.ptrs.Nodup) (hp : POK s par t)
    {x : Nat} (hx : x ∈ t.ptrs) : (x = p ∧ s.parentOf x = par) ∨ (x ≠ p ∧ s.parentOf x ∈ t.ptrs) := by
  induction t generalizing p par with
  | leaf => cases hx
  | node l q k v r ihl ihr =>
    obtain ⟨rfl, _, _, _, _, hl, hr⟩ := h
    obtain ⟨hpp, hpl, hpr⟩ := hp
    simp only [RTree.ptrs, List.nodup_append, List.nodup_cons] at hn
    obtain ⟨hnl, ⟨hpr', hnr⟩, hlr⟩ := hn
    simp only [RTree.ptrs, List.mem_append, List.mem_cons] at hx ⊢
    rcases hx with hx | rfl | hx
    · right
      refine ⟨fun e => hlr x hx x (by simp [e]) rfl, ?_⟩
      rcases ihl hl hnl hpl hx with ⟨e, h2⟩ | ⟨_, h2⟩
      · rw [h2]; simp
      · exact Or.inl h2
    · exact Or.inl ⟨rfl, hpp⟩
    · right
      refine ⟨fun e => hpr' (e ▸ hx), ?_⟩
      rcases ihr hr hnr hpr hx with ⟨e, h2⟩ | ⟨_, h2⟩
      · rw [h2]; simp
      · exact Or.inr (Or.inr h2)

/-! ### parent links after a rotation -/

theorem adopt_parentOf (s : St) (c p q : Nat) :
    (adopt s c p).parentOf q =
      if c ≠ 0 ∧ q = c ∧ c < s.heap.size then s.nodes.getD (s.nd p).idx 0 else s.parentOf q := by
  unfold adopt
  by_cases hc : c = 0
  · simp [hc]
  · rw [if_pos hc, setParent_parentOf]
    simp [hc]

/-- `Parent()` of every node after `leftRotate x` (with `y = x.Right`, `bl = y.Left`, `px = x.Parent()`):
`x ↦ y`, `y ↦ px`, `bl ↦ x` (if not NIL), everything else unchanged — provided `x`, `y`, `px` sit in their slots -/
theorem leftRotate_parentOf (s : St) (x w : Nat) (h0 : (s.nd x).right ≠ 0)
    (hxy : x ≠ (s.nd x).right) (hbx : x ≠ (s.nd (s.nd x).right).left) (hby : (s.nd x).right ≠ (s.nd (s.nd x).right).left)
    (hxs : x < s.heap.size) (hys : (s.nd x).right < s.heap.size)
    (hbs : (s.nd (s.nd x).right).left ≠ 0 → (s.nd (s.nd x).right).left < s.heap.size)
    (slx : s.nodes.getD (s.nd x).idx 0 = x) (sly : s.nodes.getD (s.nd (s.nd x).right).idx 0 = (s.nd x).right)
    (slp : s.nodes.getD (s.nd (s.parentOf x)).idx 0 = s.parentOf x) :
    (leftRotate s x).parentOf w =
      if w = x then (s.nd x).right
      else if w = (s.nd x).right then s.parentOf x
      else if w = (s.nd (s.nd x).right).left ∧ (s.nd (s.nd x).right).left ≠ 0 then x
      else s.parentOf w := by
  unfold leftRotate
  rw [if_neg h0]
  simp only [setParent_parentOf, setLeft_parentOf, relink_parentOf, adopt_parentOf, setRight_parentOf,
    setParent_size, setLeft_size, relink_size, adopt_size, setRight_size,
    setParent_idx, setLeft_idx, relink_idx, adopt_idx, setRight_idx,
    setParent_nodes, setLeft_nodes, relink_nodes, adopt_nodes, setRight_nodes, setRight_left]
  by_cases h1 : w = x
  · subst h1
    simp [hxs, sly]
  · by_cases h2 : w = (s.nd x).right
    · subst h2
      have : ¬ (s.nd x).right = x := fun e => hxy e.symm
      simp [this, hys, hbx, slp]
    · by_cases h3 : w = (s.nd (s.nd x).right).left ∧ (s.nd (s.nd x).right).left ≠ 0
      · obtain ⟨h3, h4⟩ := h3
        subst h3
        simp [h1, h2, h4, hbs h4, slx]
      · simp only [h1, h2, h3, false_and, if_false]
        split
        · rename_i h; exact absurd ⟨h.2.1, h.1⟩ h3
        · rfl

/-- `Parent()` of every node after `rightRotate x` (with `y = x.Left`, `bl = y.Right`, `px = x.Parent()`):
`x ↦ y`, `y ↦ px`, `bl ↦ x` (if not NIL), everything else unchanged — provided `x`, `y`, `px` sit in their slots -/
theorem rightRotate_parentOf (s : St) (x w : Nat) (h0 : (s.nd x).left ≠ 0)
    (hxy : x ≠ (s.nd x).left) (hbx : x ≠ (s.nd (s.nd x).left).right) (hby : (s.nd x).left ≠ (s.nd (s.nd x).left).right)
    (hxs : x < s.heap.size) (hys : (s.nd x).left < s.heap.size)
    (hbs : (s.nd (s.nd x).left).right ≠ 0 → (s.nd (s.nd x).left).right < s.heap.size)
    (slx : s.nodes.getD (s.nd x).idx 0 = x) (sly : s.nodes.getD (s.nd (s.nd x).left).idx 0 = (s.nd x).left)
    (slp : s.nodes.getD (s.nd (s.parentOf x)).idx 0 = s.parentOf x) :
    (rightRotate s x).parentOf w =
      if w = x then (s.nd x).left
      else if w = (s.nd x).left then s.parentOf x
      else if w = (s.nd (s.nd x).left).right ∧ (s.nd (s.nd x).left).right ≠ 0 then x
      else s.parentOf w := by
  unfold rightRotate
  rw [if_neg h0]
  simp only [setParent_parentOf, setRight_parentOf, relink_parentOf, adopt_parentOf, setLeft_parentOf,
    setParent_size, setRight_size, relink_size, adopt_size, setLeft_size,
    setParent_idx, setRight_idx, relink_idx, adopt_idx, setLeft_idx,
    setParent_nodes, setRight_nodes, relink_nodes, adopt_nodes, setLeft_nodes, setLeft_right]
  by_cases h1 : w = x
  · subst h1
    simp [hxs, sly]
  · by_cases h2 : w = (s.nd x).left
    · subst h2
      have : ¬ (s.nd x).left = x := fun e => hxy e.symm
      simp [this, hys, hbx, slp]
    · by_cases h3 : w = (s.nd (s.nd x).left).right ∧ (s.nd (s.nd x).left).right ≠ 0
      · obtain ⟨h3, h4⟩ := h3
        subst h3
        simp [h1, h2, h4, hbs h4, slx]
      · simp only [h1, h2, h3, false_and, if_false]
        split
        · rename_i h; exact absurd ⟨h.2.1, h.1⟩ h3
        · rfl

/-! ### `leftRotate` at a node strictly inside a represented subtree -/

theorem rotL_rep_inside (s : St) (x : Nat) (h0 : (s.nd x).right ≠ 0)
    (hxy : x ≠ (s.nd x).right) (hbx : x ≠ (s.nd (s.nd x).right).left)
    (t : RTree) (q par : Nat) (hr : Rep s q t) (hn : t.ptrs.Nodup) (hp : POK s par t)
    (hx : x ∈ t.ptrs) (hxq : x ≠ q) :
    Rep (leftRotate s x) q (t.rotL x) := by
  induction t generalizing q par with
  | leaf => cases hx
  | node l p k v r ihl ihr =>
    obtain ⟨rfl, hq0, hqs, hk, hv, hl, hr'⟩ := hr
    obtain ⟨hpp, hpl, hpr⟩ := hp
    have hn' := hn
    simp only [RTree.ptrs, List.nodup_append, List.nodup_cons] at hn
    obtain ⟨hnl, ⟨hqr, hnr⟩, hlr⟩ := hn
    have hql : q ∉ l.ptrs := fun hm => hlr q hm q (by simp) rfl
    simp only [RTree.ptrs, List.mem_append, List.mem_cons] at hx
    have hqx : ¬ q = x := fun e => hxq e.symm
    simp only [RTree.rotL, hqx, if_false]
    have hframe : ∀ (t' : RTree) (p' : Nat), Rep s p' t' →
        (∀ w ∈ t'.ptrs, w ≠ x ∧ w ≠ (s.nd x).right ∧ w ≠ s.parentOf x) → Rep (leftRotate s x) p' t' :=
      fun t' p' h hd => leftRotate_frame h0 hxy hbx h hd
    rcases hx with hx | hx | hx
    · -- x in the left subtree
      have hxr : x ∉ r.ptrs := fun hm => hlr x hx x (by simp [hm]) rfl
      rw [RTree.rotL_not_mem x r hxr]
      have hyl : (s.nd x).right ∈ l.ptrs := ((rep_children_mem hl hx).2).resolve_left h0
      have hqy : q ≠ (s.nd x).right := fun e => hql (e ▸ hyl)
      rcases pok_parentOf hl hnl hpl hx with ⟨hxtop, hpx⟩ | ⟨hxtop, hpx⟩
      · -- x is the left child of q
        have hpxs : s.parentOf x < s.heap.size := by rw [hpx]; exact hqs
        have hap := leftRotate_at_parent s x h0 hxy hbx (by rw [hpx]; exact hq0) hpxs (by rw [hpx]; exact hqx)
          (by rw [hpx]; exact hqy)
        rw [hpx, if_pos hxtop, if_pos hxtop] at hap
        have hrr : Rep (leftRotate s x) (s.nd q).right r := by
          apply hframe r _ hr'
          intro w hw
          refine ⟨fun e => hxr (e ▸ hw), fun e => ?_, fun e => ?_⟩
          · exact hlr _ hyl w (by simp [hw]) e.symm
          · rw [hpx] at e; exact hqr (e ▸ hw)
        refine ⟨rfl, hq0, by rw [leftRotate_size]; exact hqs, by rw [leftRotate_key]; exact hk,
          by rw [leftRotate_val]; exact hv, ?_, by rw [hap.2]; exact hrr⟩
        rw [hap.1]
        -- shape of l: x(a, y(b, c))
        cases l with
        | leaf => cases hx
        | node a x' kx vx cc =>
          have hx' : x' = x := by rw [hxtop]; exact hl.1.symm
          subst hx'
          have hl2 := hl
          rw [← hxtop] at hl2
          cases cc with
          | leaf => exact absurd (show (s.nd x').right = 0 from hl2.2.2.2.2.2.2) h0
          | node b y ky vy c =>
            have hy : (s.nd x').right = y := hl2.2.2.2.2.2.2.1
            simp only [RTree.rotL, if_true]
            rw [hy]
            apply leftRotate_rep s a b c x' y kx vx ky vy hl2 hnl
            rw [hpx]; exact hql
      · -- x deeper inside l
        have hqpx : q ≠ s.parentOf x := fun e => hql (e ▸ hpx)
        have h1 := leftRotate_left s x q h0 hxy hbx hqpx
        have h2 := leftRotate_right s x q h0 hxy hbx hqpx
        rw [if_neg (fun h => hqy h.1)] at h1
        rw [if_neg (fun h => hqx h.1)] at h2
        have hrr : Rep (leftRotate s x) (s.nd q).right r := by
          apply hframe r _ hr'
          intro w hw
          refine ⟨fun e => hxr (e ▸ hw), fun e => ?_, fun e => ?_⟩
          · exact hlr _ hyl w (by simp [hw]) e.symm
          · exact hlr _ hpx w (by simp [hw]) e.symm
        refine ⟨rfl, hq0, by rw [leftRotate_size]; exact hqs, by rw [leftRotate_key]; exact hk,
          by rw [leftRotate_val]; exact hv, ?_, by rw [h2]; exact hrr⟩
        rw [h1]
        exact ihl _ q hl hnl hpl hx hxtop
    · exact absurd hx hxq
    · -- x in the right subtree
      have hxl : x ∉ l.ptrs := fun hm => hlr x hm x (by simp [hx]) rfl
      rw [RTree.rotL_not_mem x l hxl]
      have hyr : (s.nd x).right ∈ r.ptrs := ((rep_children_mem hr' hx).2).resolve_left h0
      have hqy : q ≠ (s.nd x).right := fun e => hqr (e ▸ hyr)
      rcases pok_parentOf hr' hnr hpr hx with ⟨hxtop, hpx⟩ | ⟨hxtop, hpx⟩
      · have hpxs : s.parentOf x < s.heap.size := by rw [hpx]; exact hqs
        have hap := leftRotate_at_parent s x h0 hxy hbx (by rw [hpx]; exact hq0) hpxs (by rw [hpx]; exact hqx)
          (by rw [hpx]; exact hqy)
        have hxnl : ¬ x = (s.nd q).left := by
          intro e
          rcases rep_root_zero_or_mem hl with e0 | em
          · exact (rep_ptrs_ne_zero hr' x hx).1 (e.trans e0)
          · exact hxl (e ▸ em)
        rw [hpx, if_neg hxnl, if_neg hxnl] at hap
        have hll : Rep (leftRotate s x) (s.nd q).left l := by
          apply hframe l _ hl
          intro w hw
          refine ⟨fun e => hxl (e ▸ hw), fun e => ?_, fun e => ?_⟩
          · exact hlr w hw _ (by simp [hyr]) e
          · rw [hpx] at e; exact hql (e ▸ hw)
        refine ⟨rfl, hq0, by rw [leftRotate_size]; exact hqs, by rw [leftRotate_key]; exact hk,
          by rw [leftRotate_val]; exact hv, by rw [hap.1]; exact hll, ?_⟩
        rw [hap.2]
        cases r with
        | leaf => cases hx
        | node a x' kx vx cc =>
          have hx' : x' = x := by rw [hxtop]; exact hr'.1.symm
          subst hx'
          have hr2 := hr'
          rw [← hxtop] at hr2
          cases cc with
          | leaf => exact absurd (show (s.nd x').right = 0 from hr2.2.2.2.2.2.2) h0
          | node b y ky vy c =>
            have hy : (s.nd x').right = y := hr2.2.2.2.2.2.2.1
            simp only [RTree.rotL, if_true]
            rw [hy]
            apply leftRotate_rep s a b c x' y kx vx ky vy hr2 hnr
            rw [hpx]; exact hqr
      · have hqpx : q ≠ s.parentOf x := fun e => hqr (e ▸ hpx)
        have h1 := leftRotate_left s x q h0 hxy hbx hqpx
        have h2 := leftRotate_right s x q h0 hxy hbx hqpx
        rw [if_neg (fun h => hqy h.1)] at h1
        rw [if_neg (fun h => hqx h.1)] at h2
        have hll : Rep (leftRotate s x) (s.nd q).left l := by
          apply hframe l _ hl
          intro w hw
          refine ⟨fun e => hxl (e ▸ hw), fun e => ?_, fun e => ?_⟩
          · exact hlr w hw _ (by simp [hyr]) e
          · exact hlr w hw _ (by simp [hpx]) e
        refine ⟨rfl, hq0, by rw [leftRotate_size]; exact hqs, by rw [leftRotate_key]; exact hk,
          by rw [leftRotate_val]; exact hv, by rw [h1]; exact hll, ?_⟩
        rw [h2]
        exact ihr _ q hr' hnr hpr hx hxtop

/-! ### parent links of the rotated tree -/

theorem pok_frame {s s' : St} {par : Nat} {t : RTree} (hp : POK s par t)
    (hf : ∀ w ∈ t.ptrs, s'.parentOf w = s.parentOf w) : POK s' par t := by
  induction t generalizing par with
  | leaf => trivial
  | node l p k v r ihl ihr =>
    obtain ⟨h1, h2, h3⟩ := hp
    refine ⟨(hf p (by simp [RTree.ptrs])).trans h1, ihl h2 (fun w hw => hf w (by simp [RTree.ptrs, hw])),
      ihr h3 (fun w hw => hf w (by simp [RTree.ptrs, hw]))⟩

/-- the grandchild-or-NIL on the inner side of a rotation is a tree node or NIL -/
theorem rep_inner_mem {s : St} {p : Nat} {t : RTree} (h : Rep s p t) {x : Nat} (hx : x ∈ t.ptrs)
    (h0 : (s.nd x).right ≠ 0) :
    (s.nd x).right ∈ t.ptrs ∧ ((s.nd (s.nd x).right).left = 0 ∨ (s.nd (s.nd x).right).left ∈ t.ptrs) := by
  have hy := ((rep_children_mem h hx).2).resolve_left h0
  exact ⟨hy, (rep_children_mem h hy).1⟩

theorem rotL_pok (s : St) (x : Nat) (h0 : (s.nd x).right ≠ 0)
    (hpar : ∀ w, (leftRotate s x).parentOf w =
      if w = x then (s.nd x).right
      else if w = (s.nd x).right then s.parentOf x
      else if w = (s.nd (s.nd x).right).left ∧ (s.nd (s.nd x).right).left ≠ 0 then x
      else s.parentOf w)
    (t : RTree) (q par : Nat) (hr : Rep s q t) (hn : t.ptrs.Nodup) (hp : POK s par t) (hx : x ∈ t.ptrs) :
    POK (leftRotate s x) par (t.rotL x) := by
  induction t generalizing q par with
  | leaf => cases hx
  | node l p k v r ihl ihr =>
    have hr0 := hr
    obtain ⟨rfl, hq0, hqs, hk, hv, hl, hr'⟩ := hr
    obtain ⟨hpp, hpl, hpr⟩ := hp
    have hn' := hn
    simp only [RTree.ptrs, List.nodup_append, List.nodup_cons] at hn
    obtain ⟨hnl, ⟨hqr, hnr⟩, hlr⟩ := hn
    have hql : q ∉ l.ptrs := fun hm => hlr q hm q (by simp) rfl
    -- unaffected nodes
    have hsame : ∀ w, w ≠ x → w ≠ (s.nd x).right → (w = (s.nd (s.nd x).right).left → (s.nd (s.nd x).right).left = 0) →
        (leftRotate s x).parentOf w = s.parentOf w := by
      intro w h1 h2 h3
      rw [hpar w, if_neg h1, if_neg h2, if_neg (fun h => h.2 (h3 h.1))]
    by_cases hqx : q = x
    · subst hqx
      cases r with
      | leaf => exact absurd (show (s.nd q).right = 0 from hr') h0
      | node b y ky vy c =>
        obtain ⟨hy, hy0, hys, _, _, hb, hc⟩ := hr'
        rw [hy] at hb hc
        obtain ⟨hpy, hpb, hpc⟩ := hpr
        simp only [RTree.ptrs, List.nodup_append, List.nodup_cons, List.mem_append, List.mem_cons, not_or] at hnr hqr hlr
        obtain ⟨hnb, ⟨hyc, hnc⟩, hbc⟩ := hnr
        obtain ⟨hqb, hqy, hqc⟩ := hqr
        simp only [RTree.rotL, if_true]
        have hbl : (s.nd y).left = 0 ∨ (s.nd y).left ∈ b.ptrs := rep_root_zero_or_mem hb
        have hbl_l : ∀ w ∈ l.ptrs, w = (s.nd (s.nd q).right).left → (s.nd (s.nd q).right).left = 0 := by
          intro w hw e
          rw [hy] at e ⊢
          rcases hbl with e0 | em
          · exact e0
          · exact absurd rfl (hlr w hw w (Or.inr (Or.inl (by rw [e]; exact em))))
        refine ⟨?_, ⟨?_, ?_, ?_⟩, ?_⟩
        · rw [hpar y, if_neg (fun e => hqy e.symm), hy, if_pos rfl]; exact hpp
        · rw [hpar q, if_pos rfl]; exact hy
        · apply pok_frame hpl
          intro w hw
          exact hsame w (fun e => hql (e ▸ hw)) (fun e => hlr w hw w (Or.inr (Or.inr (Or.inl (e.trans hy)))) rfl) (hbl_l w hw)
        · cases b with
          | leaf => trivial
          | node ba bp bk bv bc =>
            obtain ⟨hbp, hbp0, _, _, _, _, _⟩ := hb
            obtain ⟨_, hpba, hpbc⟩ := hpb
            simp only [RTree.ptrs, List.nodup_append, List.nodup_cons, List.mem_append, List.mem_cons, not_or] at hnb hqb
            obtain ⟨_, ⟨hbpc, _⟩, hbac⟩ := hnb
            have hblv : (s.nd (s.nd q).right).left = bp := by rw [hy]; exact hbp
            have hyb : y ∉ (RTree.node ba bp bk bv bc).ptrs := fun hm => hbc y hm y (by simp) rfl
            simp only [RTree.ptrs, List.mem_append, List.mem_cons, not_or] at hyb
            refine ⟨?_, ?_, ?_⟩
            · have hbp0' : bp ≠ 0 := hbp ▸ hbp0
              rw [hpar bp, if_neg (fun e => hqb.2.1 e.symm), if_neg (fun e => hyb.2.1 (e.trans hy).symm), hblv, if_pos ⟨rfl, hbp0'⟩]
            · apply pok_frame hpba
              intro w hw
              refine hsame w (fun e => hqb.1 (e ▸ hw)) (fun e => hyb.1 ((e.trans hy) ▸ hw)) (fun e => ?_)
              rw [hblv] at e
              exact absurd rfl (hbac w hw w (Or.inl e))
            · apply pok_frame hpbc
              intro w hw
              refine hsame w (fun e => hqb.2.2 (e ▸ hw)) (fun e => hyb.2.2 ((e.trans hy) ▸ hw)) (fun e => ?_)
              rw [hblv] at e
              exact absurd (e ▸ hw) hbpc
        · apply pok_frame hpc
          intro w hw
          refine hsame w (fun e => hqc (e ▸ hw)) (fun e => hyc ((e.trans hy) ▸ hw)) (fun e => ?_)
          rw [hy] at e ⊢
          rcases hbl with e0 | em
          · exact e0
          · exact absurd e.symm (hbc _ em w (Or.inr hw))
    · simp only [RTree.rotL, hqx, if_false]
      simp only [RTree.ptrs, List.mem_append, List.mem_cons] at hx
      have hxq : x ≠ q := fun e => hqx e.symm
      rcases hx with hx | hx | hx
      · have hxr : x ∉ r.ptrs := fun hm => hlr x hx x (by simp [hm]) rfl
        rw [RTree.rotL_not_mem x r hxr]
        obtain ⟨hyl, hbl⟩ := rep_inner_mem hl hx h0
        refine ⟨?_, ihl _ q hl hnl hpl hx, ?_⟩
        · rw [hsame q hqx (fun e => hql (e ▸ hyl)) (fun e => hbl.resolve_right (fun hm => hql (e ▸ hm)))]; exact hpp
        · apply pok_frame hpr
          intro w hw
          refine hsame w (fun e => hxr (e ▸ hw)) (fun e => hlr _ hyl w (by simp [hw]) e.symm) (fun e => ?_)
          exact hbl.resolve_right (fun hm => hlr _ hm w (by simp [hw]) e.symm)
      · exact absurd hx hxq
      · have hxl : x ∉ l.ptrs := fun hm => hlr x hm x (by simp [hx]) rfl
        rw [RTree.rotL_not_mem x l hxl]
        obtain ⟨hyr, hbl⟩ := rep_inner_mem hr' hx h0
        refine ⟨?_, ?_, ihr _ q hr' hnr hpr hx⟩
        · rw [hsame q hqx (fun e => hqr (e ▸ hyr)) (fun e => hbl.resolve_right (fun hm => hqr (e ▸ hm)))]; exact hpp
        · apply pok_frame hpl
          intro w hw
          refine hsame w (fun e => hxl (e ▸ hw)) (fun e => hlr w hw _ (by simp [hyr]) e) (fun e => ?_)
          exact hbl.resolve_right (fun hm => hlr w hw _ (by simp [hm]) e)

/-! ### the whole-tree invariant -/

structure TInv (s : St) (t : RTree) : Prop where
  rep : Rep s s.root t
  nodup : t.ptrs.Nodup
  pok : POK s 0 t
  slot : ∀ p ∈ t.ptrs, s.nodes.getD (s.nd p).idx 0 = p
  nil_slot : s.nodes.getD (s.nd 0).idx 0 = 0
  nil_left : (s.nd 0).left = 0
  nil_right : (s.nd 0).right = 0
  /-- every slot holds a tree node (or NIL): `Parent()` never leaves the tree -/
  slots_in : ∀ p ∈ s.nodes.toList, p ∈ t.ptrs ∨ p = 0

theorem getD_mem_or_zero (a : Array Nat) (i : Nat) : a.getD i 0 ∈ a.toList ∨ a.getD i 0 = 0 := by
  rw [Array.getD_eq_getD_getElem?]
  cases h : a[i]? with
  | none => right; rfl
  | some v =>
    left
    rw [← Array.getElem?_toList] at h
    exact List.mem_of_getElem? h

theorem TInv.slots_getD {s : St} {t : RTree} (h : TInv s t) (i : Nat) :
    s.nodes.getD i 0 ∈ t.ptrs ∨ s.nodes.getD i 0 = 0 := by
  rcases getD_mem_or_zero s.nodes i with hm | h0
  · exact h.slots_in _ hm
  · exact Or.inr h0

instance decPOK (s : St) : (par : Nat) → (t : RTree) → Decidable (POK s par t)
  | _, .leaf => inferInstanceAs (Decidable True)
  | par, .node l p _ _ r =>
    have := decPOK s p l
    have := decPOK s p r
    inferInstanceAs (Decidable (s.parentOf p = par ∧ POK s p l ∧ POK s p r))

theorem rotL_noop {s : St} {p : Nat} {t : RTree} (h : Rep s p t) (x : Nat) (hr0 : (s.nd x).right = 0) : t.rotL x = t := by
  induction t generalizing p with
  | leaf => rfl
  | node l q k v r ihl ihr =>
    obtain ⟨rfl, _, _, _, _, hl, hr⟩ := h
    simp only [RTree.rotL]
    split
    · rename_i e
      subst e
      rw [hr0] at hr
      rw [rep_zero_leaf hr]
    · rw [ihl hl, ihr hr]

theorem relink_nil (s : St) (x y : Nat) :
    ((relink s x y).nd 0).left = (s.nd 0).left ∧ ((relink s x y).nd 0).right = (s.nd 0).right := by
  unfold relink
  split
  · exact ⟨rfl, rfl⟩
  · rename_i h
    have : ¬ 0 = s.parentOf x := fun e => h e.symm
    split <;> simp [setLeft_left, setRight_right, this]

theorem leftRotate_nil (s : St) (x : Nat) (hx0 : x ≠ 0) :
    ((leftRotate s x).nd 0).left = (s.nd 0).left ∧ ((leftRotate s x).nd 0).right = (s.nd 0).right := by
  unfold leftRotate
  split
  · exact ⟨rfl, rfl⟩
  · rename_i h0
    have h1 : ¬ 0 = (s.nd x).right := fun e => h0 e.symm
    have h2 : ¬ 0 = x := fun e => hx0 e.symm
    simp only [setParent_left, setParent_right, setLeft_left, setLeft_right, h1, false_and, if_false]
    rw [(relink_nil _ _ _).1, (relink_nil _ _ _).2]
    simp [setRight_right, h2]

/-- a left rotation at any node of the tree (or at NIL) preserves the whole-tree invariant and
turns the represented tree into its pure rotation (same in-order sequence, same nodes) -/
theorem tinv_leftRotate {s : St} {t : RTree} (h : TInv s t) {x : Nat} (hx : x ∈ t.ptrs ∨ x = 0) :
    TInv (leftRotate s x) (t.rotL x) := by
  by_cases h0 : (s.nd x).right = 0
  · have e1 : leftRotate s x = s := by unfold leftRotate; rw [if_pos h0]
    rw [e1, rotL_noop h.rep x h0]; exact h
  · have hx0 : x ≠ 0 := fun e => h0 (e ▸ h.nil_right)
    have hxm : x ∈ t.ptrs := hx.resolve_right hx0
    obtain ⟨a, kx, vx, cc, hsub, hsn, hss⟩ := rep_sub h.rep h.nodup hxm
    cases cc with
    | leaf => exact absurd (show (s.nd x).right = 0 from hsub.2.2.2.2.2.2) h0
    | node b y ky vy c =>
      have hsub' := hsub
      obtain ⟨_, _, hxs, _, _, ha, hyr⟩ := hsub
      obtain ⟨hy, hy0, hys, _, _, hb, hc⟩ := hyr
      simp only [RTree.ptrs, List.nodup_append, List.nodup_cons, List.mem_append, List.mem_cons, not_or] at hsn
      obtain ⟨hna, ⟨⟨hxb, hxy', hxc⟩, hnb, ⟨hyc, hnc⟩, hbc⟩, hax⟩ := hsn
      have hxy : x ≠ (s.nd x).right := by rw [hy]; exact hxy'
      have hbl := rep_root_zero_or_mem hb
      have hbx : x ≠ (s.nd (s.nd x).right).left := by
        rcases hbl with e | e
        · rw [e]; exact hx0
        · intro e'; rw [← e'] at e; exact hxb e
      have hby : (s.nd x).right ≠ (s.nd (s.nd x).right).left := by
        rcases hbl with e | e
        · rw [e]; exact h0
        · intro e'; rw [← e'] at e; rw [hy] at e; exact hbc y e y (by simp) rfl
      have hym : (s.nd x).right ∈ t.ptrs := hss _ (by rw [hy]; simp [RTree.ptrs])
      have hbs : (s.nd (s.nd x).right).left ≠ 0 → (s.nd (s.nd x).right).left < s.heap.size := by
        intro hne
        have := hbl.resolve_left hne
        exact (rep_ptrs_ne_zero hb _ this).2
      have hpxcases := pok_parentOf h.rep h.nodup h.pok hxm
      have slp : s.nodes.getD (s.nd (s.parentOf x)).idx 0 = s.parentOf x := by
        rcases hpxcases with ⟨_, e⟩ | ⟨_, e⟩
        · rw [e]; exact h.nil_slot
        · exact h.slot _ e
      have hpar := fun w => leftRotate_parentOf s x w h0 hxy hbx hby hxs hys hbs (h.slot x hxm) (h.slot _ hym) slp
      have hsl : ∀ p, (leftRotate s x).nodes.getD ((leftRotate s x).nd p).idx 0 = s.nodes.getD (s.nd p).idx 0 := by
        intro p; rw [leftRotate_nodes, leftRotate_idx]
      have hnil := leftRotate_nil s x hx0
      refine ⟨?_, by rw [RTree.rotL_ptrs]; exact h.nodup, rotL_pok s x h0 hpar t s.root 0 h.rep h.nodup h.pok hxm,
        fun p hp => by rw [hsl]; exact h.slot p (by rw [RTree.rotL_ptrs] at hp; exact hp),
        by rw [hsl]; exact h.nil_slot, by rw [hnil.1]; exact h.nil_left, by rw [hnil.2]; exact h.nil_right,
        by rw [leftRotate_nodes, RTree.rotL_ptrs]; exact h.slots_in⟩
      rcases hpxcases with ⟨hroot, hpx⟩ | ⟨hroot, hpx⟩
      · -- rotation at the root
        rw [leftRotate_root s x h0 hxy hbx, if_pos hpx]
        cases t with
        | leaf => cases hxm
        | node l p k v r =>
          have hp : p = x := by rw [hroot]; exact h.rep.1.symm
          subst hp
          have hrep := h.rep
          rw [← hroot] at hrep
          cases r with
          | leaf => exact absurd (show (s.nd p).right = 0 from hrep.2.2.2.2.2.2) h0
          | node b' y' ky' vy' c' =>
            have hy' : (s.nd p).right = y' := hrep.2.2.2.2.2.2.1
            simp only [RTree.rotL, if_true]
            rw [hy']
            apply leftRotate_rep s l b' c' p y' k v ky' vy' hrep h.nodup
            rw [hpx]
            intro hm
            exact (rep_ptrs_ne_zero hrep 0 hm).1 rfl
      · have hp0 : s.parentOf x ≠ 0 := (rep_ptrs_ne_zero h.rep _ hpx).1
        rw [leftRotate_root s x h0 hxy hbx, if_neg hp0]
        exact rotL_rep_inside s x h0 hxy hbx t s.root 0 h.rep h.nodup h.pok hxm hroot

/-! ## mirror image: `rightRotate` -/

theorem rotR_rep_inside (s : St) (x : Nat) (h0 : (s.nd x).left ≠ 0)
    (hxy : x ≠ (s.nd x).left) (hbx : x ≠ (s.nd (s.nd x).left).right)
    (t : RTree) (q par : Nat) (hr : Rep s q t) (hn : t.ptrs.Nodup) (hp : POK s par t)
    (hx : x ∈ t.ptrs) (hxq : x ≠ q) :
    Rep (rightRotate s x) q (t.rotR x) := by
  induction t generalizing q par with
  | leaf => cases hx
  | node l p k v r ihl ihr =>
    obtain ⟨rfl, hq0, hqs, hk, hv, hl, hr'⟩ := hr
    obtain ⟨hpp, hpl, hpr⟩ := hp
    simp only [RTree.ptrs, List.nodup_append, List.nodup_cons] at hn
    obtain ⟨hnl, ⟨hqr, hnr⟩, hlr⟩ := hn
    have hql : q ∉ l.ptrs := fun hm => hlr q hm q (by simp) rfl
    simp only [RTree.ptrs, List.mem_append, List.mem_cons] at hx
    have hqx : ¬ q = x := fun e => hxq e.symm
    simp only [RTree.rotR, hqx, if_false]
    have hframe : ∀ (t' : RTree) (p' : Nat), Rep s p' t' →
        (∀ w ∈ t'.ptrs, w ≠ x ∧ w ≠ (s.nd x).left ∧ w ≠ s.parentOf x) → Rep (rightRotate s x) p' t' :=
      fun t' p' h hd => rightRotate_frame h0 hxy hbx h hd
    rcases hx with hx | hx | hx
    · have hxr : x ∉ r.ptrs := fun hm => hlr x hx x (by simp [hm]) rfl
      rw [RTree.rotR_not_mem x r hxr]
      have hyl : (s.nd x).left ∈ l.ptrs := ((rep_children_mem hl hx).1).resolve_left h0
      have hqy : q ≠ (s.nd x).left := fun e => hql (e ▸ hyl)
      rcases pok_parentOf hl hnl hpl hx with ⟨hxtop, hpx⟩ | ⟨hxtop, hpx⟩
      · have hpxs : s.parentOf x < s.heap.size := by rw [hpx]; exact hqs
        have hap := rightRotate_at_parent s x h0 hxy hbx (by rw [hpx]; exact hq0) hpxs (by rw [hpx]; exact hqx)
          (by rw [hpx]; exact hqy)
        rw [hpx, if_pos hxtop, if_pos hxtop] at hap
        have hrr : Rep (rightRotate s x) (s.nd q).right r := by
          apply hframe r _ hr'
          intro w hw
          refine ⟨fun e => hxr (e ▸ hw), fun e => ?_, fun e => ?_⟩
          · exact hlr _ hyl w (by simp [hw]) e.symm
          · rw [hpx] at e; exact hqr (e ▸ hw)
        refine ⟨rfl, hq0, by rw [rightRotate_size]; exact hqs, by rw [rightRotate_key]; exact hk,
          by rw [rightRotate_val]; exact hv, ?_, by rw [hap.2]; exact hrr⟩
        rw [hap.1]
        cases l with
        | leaf => cases hx
        | node aa x' kx vx c =>
          have hx' : x' = x := by rw [hxtop]; exact hl.1.symm
          subst hx'
          have hl2 := hl
          rw [← hxtop] at hl2
          cases aa with
          | leaf => exact absurd (show (s.nd x').left = 0 from hl2.2.2.2.2.2.1) h0
          | node a y ky vy b =>
            have hy : (s.nd x').left = y := hl2.2.2.2.2.2.1.1
            simp only [RTree.rotR, if_true]
            rw [hy]
            apply rightRotate_rep s a b c x' y kx vx ky vy hl2 hnl
            rw [hpx]; exact hql
      · have hqpx : q ≠ s.parentOf x := fun e => hql (e ▸ hpx)
        have h1 := rightRotate_left s x q h0 hxy hbx hqpx
        have h2 := rightRotate_right s x q h0 hxy hbx hqpx
        rw [if_neg (fun h => hqx h.1)] at h1
        rw [if_neg (fun h => hqy h.1)] at h2
        have hrr : Rep (rightRotate s x) (s.nd q).right r := by
          apply hframe r _ hr'
          intro w hw
          refine ⟨fun e => hxr (e ▸ hw), fun e => ?_, fun e => ?_⟩
          · exact hlr _ hyl w (by simp [hw]) e.symm
          · exact hlr _ hpx w (by simp [hw]) e.symm
        refine ⟨rfl, hq0, by rw [rightRotate_size]; exact hqs, by rw [rightRotate_key]; exact hk,
          by rw [rightRotate_val]; exact hv, ?_, by rw [h2]; exact hrr⟩
        rw [h1]
        exact ihl _ q hl hnl hpl hx hxtop
    · exact absurd hx hxq
    · have hxl : x ∉ l.ptrs := fun hm => hlr x hm x (by simp [hx]) rfl
      rw [RTree.rotR_not_mem x l hxl]
      have hyr : (s.nd x).left ∈ r.ptrs := ((rep_children_mem hr' hx).1).resolve_left h0
      have hqy : q ≠ (s.nd x).left := fun e => hqr (e ▸ hyr)
      rcases pok_parentOf hr' hnr hpr hx with ⟨hxtop, hpx⟩ | ⟨hxtop, hpx⟩
      · have hpxs : s.parentOf x < s.heap.size := by rw [hpx]; exact hqs
        have hap := rightRotate_at_parent s x h0 hxy hbx (by rw [hpx]; exact hq0) hpxs (by rw [hpx]; exact hqx)
          (by rw [hpx]; exact hqy)
        have hxnl : ¬ x = (s.nd q).left := by
          intro e
          rcases rep_root_zero_or_mem hl with e0 | em
          · exact (rep_ptrs_ne_zero hr' x hx).1 (e.trans e0)
          · exact hxl (e ▸ em)
        rw [hpx, if_neg hxnl, if_neg hxnl] at hap
        have hll : Rep (rightRotate s x) (s.nd q).left l := by
          apply hframe l _ hl
          intro w hw
          refine ⟨fun e => hxl (e ▸ hw), fun e => ?_, fun e => ?_⟩
          · exact hlr w hw _ (by simp [hyr]) e
          · rw [hpx] at e; exact hql (e ▸ hw)
        refine ⟨rfl, hq0, by rw [rightRotate_size]; exact hqs, by rw [rightRotate_key]; exact hk,
          by rw [rightRotate_val]; exact hv, by rw [hap.1]; exact hll, ?_⟩
        rw [hap.2]
        cases r with
        | leaf => cases hx
        | node aa x' kx vx c =>
          have hx' : x' = x := by rw [hxtop]; exact hr'.1.symm
          subst hx'
          have hr2 := hr'
          rw [← hxtop] at hr2
          cases aa with
          | leaf => exact absurd (show (s.nd x').left = 0 from hr2.2.2.2.2.2.1) h0
          | node a y ky vy b =>
            have hy : (s.nd x').left = y := hr2.2.2.2.2.2.1.1
            simp only [RTree.rotR, if_true]
            rw [hy]
            apply rightRotate_rep s a b c x' y kx vx ky vy hr2 hnr
            rw [hpx]; exact hqr
      · have hqpx : q ≠ s.parentOf x := fun e => hqr (e ▸ hpx)
        have h1 := rightRotate_left s x q h0 hxy hbx hqpx
        have h2 := rightRotate_right s x q h0 hxy hbx hqpx
        rw [if_neg (fun h => hqx h.1)] at h1
        rw [if_neg (fun h => hqy h.1)] at h2
        have hll : Rep (rightRotate s x) (s.nd q).left l := by
          apply hframe l _ hl
          intro w hw
          refine ⟨fun e => hxl (e ▸ hw), fun e => ?_, fun e => ?_⟩
          · exact hlr w hw _ (by simp [hyr]) e
          · exact hlr w hw _ (by simp [hpx]) e
        refine ⟨rfl, hq0, by rw [rightRotate_size]; exact hqs, by rw [rightRotate_key]; exact hk,
          by rw [rightRotate_val]; exact hv, by rw [h1]; exact hll, ?_⟩
        rw [h2]
        exact ihr _ q hr' hnr hpr hx hxtop

theorem rep_inner_mem_R {s : St} {p : Nat} {t : RTree} (h : Rep s p t) {x : Nat} (hx : x ∈ t.ptrs)
    (h0 : (s.nd x).left ≠ 0) :
    (s.nd x).left ∈ t.ptrs ∧ ((s.nd (s.nd x).left).right = 0 ∨ (s.nd (s.nd x).left).right ∈ t.ptrs) := by
  have hy := ((rep_children_mem h hx).1).resolve_left h0
  exact ⟨hy, (rep_children_mem h hy).2⟩

theorem rotR_pok (s : St) (x : Nat) (h0 : (s.nd x).left ≠ 0)
    (hpar : ∀ w, (rightRotate s x).parentOf w =
      if w = x then (s.nd x).left
      else if w = (s.nd x).left then s.parentOf x
      else if w = (s.nd (s.nd x).left).right ∧ (s.nd (s.nd x).left).right ≠ 0 then x
      else s.parentOf w)
    (t : RTree) (q par : Nat) (hr : Rep s q t) (hn : t.ptrs.Nodup) (hp : POK s par t) (hx : x ∈ t.ptrs) :
    POK (rightRotate s x) par (t.rotR x) := by
  induction t generalizing q par with
  | leaf => cases hx
  | node l p k v r ihl ihr =>
    obtain ⟨rfl, hq0, hqs, hk, hv, hl, hr'⟩ := hr
    obtain ⟨hpp, hpl, hpr⟩ := hp
    simp only [RTree.ptrs, List.nodup_append, List.nodup_cons] at hn
    obtain ⟨hnl, ⟨hqr, hnr⟩, hlr⟩ := hn
    have hql : q ∉ l.ptrs := fun hm => hlr q hm q (by simp) rfl
    have hsame : ∀ w, w ≠ x → w ≠ (s.nd x).left → (w = (s.nd (s.nd x).left).right → (s.nd (s.nd x).left).right = 0) →
        (rightRotate s x).parentOf w = s.parentOf w := by
      intro w h1 h2 h3
      rw [hpar w, if_neg h1, if_neg h2, if_neg (fun h => h.2 (h3 h.1))]
    by_cases hqx : q = x
    · subst hqx
      cases l with
      | leaf => exact absurd (show (s.nd q).left = 0 from hl) h0
      | node a y ky vy b =>
        obtain ⟨hy, hy0, hys, _, _, ha, hb⟩ := hl
        rw [hy] at ha hb
        obtain ⟨hpy, hpa, hpb⟩ := hpl
        simp only [RTree.ptrs, List.nodup_append, List.nodup_cons, List.mem_append, List.mem_cons, not_or] at hnl hql hlr
        obtain ⟨hna, ⟨hyb, hnb⟩, hab⟩ := hnl
        obtain ⟨hqa, hqy, hqb⟩ := hql
        simp only [RTree.rotR, if_true]
        have hbl : (s.nd y).right = 0 ∨ (s.nd y).right ∈ b.ptrs := rep_root_zero_or_mem hb
        refine ⟨?_, ?_, ⟨?_, ?_, ?_⟩⟩
        · rw [hpar y, if_neg (fun e => hqy e.symm), hy, if_pos rfl]; exact hpp
        · apply pok_frame hpa
          intro w hw
          refine hsame w (fun e => hqa (e ▸ hw)) (fun e => hab w hw w (Or.inl (e.trans hy)) rfl) (fun e => ?_)
          rw [hy] at e ⊢
          rcases hbl with e0 | em
          · exact e0
          · exact absurd e (hab w hw _ (Or.inr em))
        · rw [hpar q, if_pos rfl]; exact hy
        · cases b with
          | leaf => trivial
          | node ba bp bk bv bc =>
            obtain ⟨hbp, hbp0, _, _, _, _, _⟩ := hb
            obtain ⟨_, hpba, hpbc⟩ := hpb
            simp only [RTree.ptrs, List.nodup_append, List.nodup_cons, List.mem_append, List.mem_cons, not_or] at hnb hqb hyb
            obtain ⟨_, ⟨hbpc, _⟩, hbac⟩ := hnb
            have hblv : (s.nd (s.nd q).left).right = bp := by rw [hy]; exact hbp
            have hbp0' : bp ≠ 0 := hbp ▸ hbp0
            refine ⟨?_, ?_, ?_⟩
            · rw [hpar bp, if_neg (fun e => hqb.2.1 e.symm), if_neg (fun e => hyb.2.1 (e.trans hy).symm), hblv, if_pos ⟨rfl, hbp0'⟩]
            · apply pok_frame hpba
              intro w hw
              refine hsame w (fun e => hqb.1 (e ▸ hw)) (fun e => hyb.1 ((e.trans hy) ▸ hw)) (fun e => ?_)
              rw [hblv] at e
              exact absurd rfl (hbac w hw w (Or.inl e))
            · apply pok_frame hpbc
              intro w hw
              refine hsame w (fun e => hqb.2.2 (e ▸ hw)) (fun e => hyb.2.2 ((e.trans hy) ▸ hw)) (fun e => ?_)
              rw [hblv] at e
              exact absurd (e ▸ hw) hbpc
        · apply pok_frame hpr
          intro w hw
          refine hsame w (fun e => hqr (e ▸ hw)) (fun e => hlr w (Or.inr (Or.inl (e.trans hy))) w (Or.inr hw) rfl) (fun e => ?_)
          rw [hy] at e ⊢
          rcases hbl with e0 | em
          · exact e0
          · exact absurd e.symm (hlr _ (Or.inr (Or.inr em)) w (Or.inr hw))
    · simp only [RTree.rotR, hqx, if_false]
      simp only [RTree.ptrs, List.mem_append, List.mem_cons] at hx
      have hxq : x ≠ q := fun e => hqx e.symm
      rcases hx with hx | hx | hx
      · have hxr : x ∉ r.ptrs := fun hm => hlr x hx x (by simp [hm]) rfl
        rw [RTree.rotR_not_mem x r hxr]
        obtain ⟨hyl, hbl⟩ := rep_inner_mem_R hl hx h0
        refine ⟨?_, ihl _ q hl hnl hpl hx, ?_⟩
        · rw [hsame q hqx (fun e => hql (e ▸ hyl)) (fun e => hbl.resolve_right (fun hm => hql (e ▸ hm)))]; exact hpp
        · apply pok_frame hpr
          intro w hw
          refine hsame w (fun e => hxr (e ▸ hw)) (fun e => hlr _ hyl w (by simp [hw]) e.symm) (fun e => ?_)
          exact hbl.resolve_right (fun hm => hlr _ hm w (by simp [hw]) e.symm)
      · exact absurd hx hxq
      · have hxl : x ∉ l.ptrs := fun hm => hlr x hm x (by simp [hx]) rfl
        rw [RTree.rotR_not_mem x l hxl]
        obtain ⟨hyr, hbl⟩ := rep_inner_mem_R hr' hx h0
        refine ⟨?_, ?_, ihr _ q hr' hnr hpr hx⟩
        · rw [hsame q hqx (fun e => hqr (e ▸ hyr)) (fun e => hbl.resolve_right (fun hm => hqr (e ▸ hm)))]; exact hpp
        · apply pok_frame hpl
          intro w hw
          refine hsame w (fun e => hxl (e ▸ hw)) (fun e => hlr w hw _ (by simp [hyr]) e) (fun e => ?_)
          exact hbl.resolve_right (fun hm => hlr w hw _ (by simp [hm]) e)

theorem rotR_noop {s : St} {p : Nat} {t : RTree} (h : Rep s p t) (x : Nat) (hr0 : (s.nd x).left = 0) : t.rotR x = t := by
  induction t generalizing p with
  | leaf => rfl
  | node l q k v r ihl ihr =>
    obtain ⟨rfl, _, _, _, _, hl, hr⟩ := h
    simp only [RTree.rotR]
    split
    · rename_i e
      subst e
      rw [hr0] at hl
      rw [rep_zero_leaf hl]
    · rw [ihl hl, ihr hr]

theorem rightRotate_nil (s : St) (x : Nat) (hx0 : x ≠ 0) :
    ((rightRotate s x).nd 0).left = (s.nd 0).left ∧ ((rightRotate s x).nd 0).right = (s.nd 0).right := by
  unfold rightRotate
  split
  · exact ⟨rfl, rfl⟩
  · rename_i h0
    have h1 : ¬ 0 = (s.nd x).left := fun e => h0 e.symm
    have h2 : ¬ 0 = x := fun e => hx0 e.symm
    simp only [setParent_left, setParent_right, setRight_left, setRight_right, h1, false_and, if_false]
    rw [(relink_nil _ _ _).1, (relink_nil _ _ _).2]
    simp [setLeft_left, h2]

/-- a right rotation at any node of the tree (or at NIL) preserves the whole-tree invariant -/
theorem tinv_rightRotate {s : St} {t : RTree} (h : TInv s t) {x : Nat} (hx : x ∈ t.ptrs ∨ x = 0) :
    TInv (rightRotate s x) (t.rotR x) := by
  by_cases h0 : (s.nd x).left = 0
  · have e1 : rightRotate s x = s := by unfold rightRotate; rw [if_pos h0]
    rw [e1, rotR_noop h.rep x h0]; exact h
  · have hx0 : x ≠ 0 := fun e => h0 (e ▸ h.nil_left)
    have hxm : x ∈ t.ptrs := hx.resolve_right hx0
    obtain ⟨aa, kx, vx, c, hsub, hsn, hss⟩ := rep_sub h.rep h.nodup hxm
    cases aa with
    | leaf => exact absurd (show (s.nd x).left = 0 from hsub.2.2.2.2.2.1) h0
    | node a y ky vy b =>
      obtain ⟨_, _, hxs, _, _, hyr, hc⟩ := hsub
      obtain ⟨hy, hy0, hys, _, _, ha, hb⟩ := hyr
      simp only [RTree.ptrs, List.nodup_append, List.nodup_cons, List.mem_append, List.mem_cons] at hsn
      obtain ⟨⟨hna, ⟨hyb, hnb⟩, hab⟩, ⟨hxc, hnc⟩, hlx⟩ := hsn
      have hxy' : x ≠ y := fun e => hlx y (by simp) x (by simp) e.symm
      have hxy : x ≠ (s.nd x).left := by rw [hy]; exact hxy'
      have hbl := rep_root_zero_or_mem hb
      have hbx : x ≠ (s.nd (s.nd x).left).right := by
        rcases hbl with e | e
        · rw [e]; exact hx0
        · intro e'; rw [← e'] at e; exact hlx x (by simp [e]) x (by simp) rfl
      have hby : (s.nd x).left ≠ (s.nd (s.nd x).left).right := by
        rcases hbl with e | e
        · rw [e]; exact h0
        · intro e'; rw [← e'] at e; rw [hy] at e; exact hyb e
      have hym : (s.nd x).left ∈ t.ptrs := hss _ (by rw [hy]; simp [RTree.ptrs])
      have hbs : (s.nd (s.nd x).left).right ≠ 0 → (s.nd (s.nd x).left).right < s.heap.size := by
        intro hne
        have := hbl.resolve_left hne
        exact (rep_ptrs_ne_zero hb _ this).2
      have hpxcases := pok_parentOf h.rep h.nodup h.pok hxm
      have slp : s.nodes.getD (s.nd (s.parentOf x)).idx 0 = s.parentOf x := by
        rcases hpxcases with ⟨_, e⟩ | ⟨_, e⟩
        · rw [e]; exact h.nil_slot
        · exact h.slot _ e
      have hpar := fun w => rightRotate_parentOf s x w h0 hxy hbx hby hxs hys hbs (h.slot x hxm) (h.slot _ hym) slp
      have hsl : ∀ p, (rightRotate s x).nodes.getD ((rightRotate s x).nd p).idx 0 = s.nodes.getD (s.nd p).idx 0 := by
        intro p; rw [rightRotate_nodes, rightRotate_idx]
      have hnil := rightRotate_nil s x hx0
      refine ⟨?_, by rw [RTree.rotR_ptrs]; exact h.nodup, rotR_pok s x h0 hpar t s.root 0 h.rep h.nodup h.pok hxm,
        fun p hp => by rw [hsl]; exact h.slot p (by rw [RTree.rotR_ptrs] at hp; exact hp),
        by rw [hsl]; exact h.nil_slot, by rw [hnil.1]; exact h.nil_left, by rw [hnil.2]; exact h.nil_right,
        by rw [rightRotate_nodes, RTree.rotR_ptrs]; exact h.slots_in⟩
      rcases hpxcases with ⟨hroot, hpx⟩ | ⟨hroot, hpx⟩
      · rw [rightRotate_root s x h0 hxy hbx, if_pos hpx]
        cases t with
        | leaf => cases hxm
        | node l p k v r =>
          have hp : p = x := by rw [hroot]; exact h.rep.1.symm
          subst hp
          have hrep := h.rep
          rw [← hroot] at hrep
          cases l with
          | leaf => exact absurd (show (s.nd p).left = 0 from hrep.2.2.2.2.2.1) h0
          | node a' y' ky' vy' b' =>
            have hy' : (s.nd p).left = y' := hrep.2.2.2.2.2.1.1
            simp only [RTree.rotR, if_true]
            rw [hy']
            apply rightRotate_rep s a' b' r p y' k v ky' vy' hrep h.nodup
            rw [hpx]
            intro hm
            exact (rep_ptrs_ne_zero hrep 0 hm).1 rfl
      · have hp0 : s.parentOf x ≠ 0 := (rep_ptrs_ne_zero h.rep _ hpx).1
        rw [rightRotate_root s x h0 hxy hbx, if_neg hp0]
        exact rotR_rep_inside s x h0 hxy hbx t s.root 0 h.rep h.nodup h.pok hxm hroot

/-! ### recolouring and other writes that are invisible to `TInv` -/

theorem tinv_setRed {s : St} {t : RTree} (h : TInv s t) (p : Nat) (c : Bool) : TInv (s.setRed p c) t := by
  refine ⟨?_, h.nodup, pok_frame h.pok (fun w _ => by simp), fun q hq => by simpa using h.slot q hq,
    by simpa using h.nil_slot, by simpa using h.nil_left, by simpa using h.nil_right, by simpa using h.slots_in⟩
  exact rep_frame h.rep (by simp) (fun q _ => by simp)

/-- the set of "tree nodes or NIL" is closed under `Parent()`, `Left`, `Right` -/
def InT (t : RTree) (p : Nat) : Prop := p ∈ t.ptrs ∨ p = 0

theorem inT_left {s : St} {t : RTree} (h : TInv s t) {p : Nat} (hp : InT t p) : InT t (s.nd p).left := by
  rcases hp with hp | rfl
  · exact ((rep_children_mem h.rep hp).1).symm.imp id id
  · exact Or.inr h.nil_left

theorem inT_right {s : St} {t : RTree} (h : TInv s t) {p : Nat} (hp : InT t p) : InT t (s.nd p).right := by
  rcases hp with hp | rfl
  · exact ((rep_children_mem h.rep hp).2).symm.imp id id
  · exact Or.inr h.nil_right

theorem inT_parent {s : St} {t : RTree} (h : TInv s t) (p : Nat) : InT t (s.parentOf p) := h.slots_getD _

/-! ### the fix-up loops: recolourings and rotations at tree nodes only -/

/-- the store is well formed and its tree has in-order sequence `l` over the node sequence `ps` -/
def Good (s : St) (l : List (Int × Int)) (ps : List Nat) : Prop := ∃ t, TInv s t ∧ t.toList = l ∧ t.ptrs = ps

def InP (ps : List Nat) (p : Nat) : Prop := p ∈ ps ∨ p = 0

theorem good_setRed {s : St} {l : List (Int × Int)} {ps : List Nat} (h : Good s l ps) (p : Nat) (c : Bool) :
    Good (s.setRed p c) l ps := by
  obtain ⟨t, ht, h1, h2⟩ := h
  exact ⟨t, tinv_setRed ht p c, h1, h2⟩

theorem good_rotL {s : St} {l : List (Int × Int)} {ps : List Nat} (h : Good s l ps) {x : Nat} (hx : InP ps x) :
    Good (leftRotate s x) l ps := by
  obtain ⟨t, ht, h1, h2⟩ := h
  exact ⟨t.rotL x, tinv_leftRotate ht (h2 ▸ hx), by rw [RTree.rotL_toList, h1], by rw [RTree.rotL_ptrs, h2]⟩

theorem good_rotR {s : St} {l : List (Int × Int)} {ps : List Nat} (h : Good s l ps) {x : Nat} (hx : InP ps x) :
    Good (rightRotate s x) l ps := by
  obtain ⟨t, ht, h1, h2⟩ := h
  exact ⟨t.rotR x, tinv_rightRotate ht (h2 ▸ hx), by rw [RTree.rotR_toList, h1], by rw [RTree.rotR_ptrs, h2]⟩

theorem good_fault {s : St} {l : List (Int × Int)} {ps : List Nat} (h : Good s l ps) : Good { s with fault := true } l ps := by
  obtain ⟨t, ht, h1, h2⟩ := h
  refine ⟨t, ⟨rep_frame ht.rep (Nat.le_refl _) (fun q _ => ⟨rfl, rfl, rfl, rfl⟩), ht.nodup,
    pok_frame ht.pok (fun w _ => rfl), ht.slot, ht.nil_slot, ht.nil_left, ht.nil_right, ht.slots_in⟩, h1, h2⟩

theorem good_ite {a b : St} {l : List (Int × Int)} {ps : List Nat} (c : Prop) [Decidable c]
    (ha : Good a l ps) (hb : Good b l ps) : Good (if c then a else b) l ps := by
  split
  · exact ha
  · exact hb

theorem inP_parent {s : St} {l : List (Int × Int)} {ps : List Nat} (h : Good s l ps) (p : Nat) : InP ps (s.parentOf p) := by
  obtain ⟨t, ht, _, h2⟩ := h
  exact h2 ▸ ht.slots_getD _

theorem inP_left {s : St} {l : List (Int × Int)} {ps : List Nat} (h : Good s l ps) {p : Nat} (hp : InP ps p) : InP ps (s.nd p).left := by
  obtain ⟨t, ht, _, h2⟩ := h
  have := inT_left ht (show InT t p by unfold InT; rw [h2]; exact hp)
  unfold InT at this; rw [h2] at this; exact this

theorem inP_right {s : St} {l : List (Int × Int)} {ps : List Nat} (h : Good s l ps) {p : Nat} (hp : InP ps p) : InP ps (s.nd p).right := by
  obtain ⟨t, ht, _, h2⟩ := h
  have := inT_right ht (show InT t p by unfold InT; rw [h2]; exact hp)
  unfold InT at this; rw [h2] at this; exact this

theorem good_insCase1 {s : St} {l : List (Int × Int)} {ps : List Nat} (h : Good s l ps) (z y : Nat) : Good (insCase1 s z y) l ps := by
  unfold insCase1
  exact good_setRed (good_setRed (good_setRed h _ _) _ _) _ _

theorem good_insCase23L {s : St} {l : List (Int × Int)} {ps : List Nat} (h : Good s l ps) (z : Nat) (hz : InP ps z) :
    Good (insCase23L s z).1 l ps ∧ InP ps (insCase23L s z).2 := by
  unfold insCase23L
  have h1 : Good (if z = (s.nd (s.parentOf z)).right then leftRotate s (s.parentOf z) else s) l ps :=
    good_ite _ (good_rotL h (inP_parent h z)) h
  refine ⟨good_rotR (good_setRed (good_setRed h1 _ _) _ _) (inP_parent (good_setRed (good_setRed h1 _ _) _ _) _), ?_⟩
  simp only
  split
  · exact inP_parent h z
  · exact hz

theorem good_insCase23R {s : St} {l : List (Int × Int)} {ps : List Nat} (h : Good s l ps) (z : Nat) (hz : InP ps z) :
    Good (insCase23R s z).1 l ps ∧ InP ps (insCase23R s z).2 := by
  unfold insCase23R
  have h1 : Good (if z = (s.nd (s.parentOf z)).left then rightRotate s (s.parentOf z) else s) l ps :=
    good_ite _ (good_rotR h (inP_parent h z)) h
  refine ⟨good_rotL (good_setRed (good_setRed h1 _ _) _ _) (inP_parent (good_setRed (good_setRed h1 _ _) _ _) _), ?_⟩
  simp only
  split
  · exact inP_parent h z
  · exact hz

/-- `insertFixup` preserves the whole-tree invariant, the in-order sequence and the node set -/
theorem good_insertFixup (f : Nat) {s : St} {l : List (Int × Int)} {ps : List Nat} (h : Good s l ps) (z : Nat) (hz : InP ps z) :
    Good (insertFixup f s z) l ps := by
  induction f generalizing s z with
  | zero => exact good_fault h
  | succ f ih =>
    unfold insertFixup
    split
    · split
      · simp only
        split
        · exact ih (good_insCase1 h _ _) _ (inP_parent (good_insCase1 h _ _) _)
        · exact ih (good_insCase23L h z hz).1 _ (good_insCase23L h z hz).2
      · simp only
        split
        · exact ih (good_insCase1 h _ _) _ (inP_parent (good_insCase1 h _ _) _)
        · exact ih (good_insCase23R h z hz).1 _ (good_insCase23R h z hz).2
    · exact good_setRed h _ _

theorem good_delCase1L {s : St} {l : List (Int × Int)} {ps : List Nat} (h : Good s l ps) (x : Nat) : Good (delCase1L s x) l ps := by
  unfold delCase1L
  exact good_ite _ (good_rotL (good_setRed (good_setRed h _ _) _ _) (inP_parent (good_setRed (good_setRed h _ _) _ _) _)) h

theorem good_delCase1R {s : St} {l : List (Int × Int)} {ps : List Nat} (h : Good s l ps) (x : Nat) : Good (delCase1R s x) l ps := by
  unfold delCase1R
  exact good_ite _ (good_rotR (good_setRed (good_setRed h _ _) _ _) (inP_parent (good_setRed (good_setRed h _ _) _ _) _)) h

theorem good_delCase3L {s : St} {l : List (Int × Int)} {ps : List Nat} (h : Good s l ps) (w : Nat) (hw : InP ps w) : Good (delCase3L s w) l ps := by
  unfold delCase3L
  exact good_ite _ (good_rotR (good_setRed (good_setRed h _ _) _ _) hw) h

theorem good_delCase3R {s : St} {l : List (Int × Int)} {ps : List Nat} (h : Good s l ps) (w : Nat) (hw : InP ps w) : Good (delCase3R s w) l ps := by
  unfold delCase3R
  exact good_ite _ (good_rotL (good_setRed (good_setRed h _ _) _ _) hw) h

theorem good_delCase4L {s : St} {l : List (Int × Int)} {ps : List Nat} (h : Good s l ps) (x w : Nat) : Good (delCase4L s x w) l ps := by
  unfold delCase4L
  exact good_rotL (good_setRed (good_setRed (good_setRed h _ _) _ _) _ _) (inP_parent (good_setRed (good_setRed (good_setRed h _ _) _ _) _ _) _)

theorem good_delCase4R {s : St} {l : List (Int × Int)} {ps : List Nat} (h : Good s l ps) (x w : Nat) : Good (delCase4R s x w) l ps := by
  unfold delCase4R
  exact good_rotR (good_setRed (good_setRed (good_setRed h _ _) _ _) _ _) (inP_parent (good_setRed (good_setRed (good_setRed h _ _) _ _) _ _) _)

/-- `deleteFixup` preserves the whole-tree invariant, the in-order sequence and the node set -/
theorem good_deleteFixup (f : Nat) {s : St} {l : List (Int × Int)} {ps : List Nat} (h : Good s l ps) (x : Nat) :
    Good (deleteFixup f s x) l ps := by
  induction f generalizing s x with
  | zero => exact good_fault h
  | succ f ih =>
    unfold deleteFixup
    split
    · split
      · simp only
        have h1 := good_delCase1L h x
        split
        · exact ih (good_setRed h1 _ _) _
        · have hw : InP ps ((delCase1L s x).nd ((delCase1L s x).parentOf x)).right := inP_right h1 (inP_parent h1 x)
          exact ih (good_delCase4L (good_delCase3L h1 _ hw) _ _) _
      · simp only
        have h1 := good_delCase1R h x
        split
        · exact ih (good_setRed h1 _ _) _
        · have hw : InP ps ((delCase1R s x).nd ((delCase1R s x).parentOf x)).left := inP_left h1 (inP_parent h1 x)
          exact ih (good_delCase4R (good_delCase3R h1 _ hw) _ _) _
    · exact good_setRed h _ _

end WaVerif.C13RB
