import WaVerif.Lemmas.C13Store
import WaVerif.Lemmas.C13Spec
/-!
C13 — the abstraction of the mirror's store: which inductive tree a pointer represents (`Rep`),
binary-search-tree order (`BST`), and correctness of `search` / `Lookup` on such stores.
-/
namespace WaVerif.C13RB

/-- shape of a tree in the store: every node carries its pointer, key and value -/
inductive RTree where
  | leaf
  | node (l : RTree) (p : Nat) (k v : Int) (r : RTree)
  deriving Repr

namespace RTree

/-- in-order `(key, value)` sequence -/
def toList : RTree → List (Int × Int)
  | leaf => []
  | node l _ k v r => l.toList ++ (k, v) :: r.toList

/-- in-order pointer sequence -/
def ptrs : RTree → List Nat
  | leaf => []
  | node l p _ _ r => l.ptrs ++ p :: r.ptrs

def height : RTree → Nat
  | leaf => 0
  | node l _ _ _ r => max l.height r.height + 1

def rootPtr : RTree → Nat
  | leaf => 0
  | node _ p _ _ _ => p

/-- the pointer a binary search for `k` arrives at (0 = NIL) -/
def find (k : Int) : RTree → Nat
  | leaf => 0
  | node l p k' _ r => if k' < k then r.find k else if k < k' then l.find k else p

/-- binary search for `k` -/
def lookup (k : Int) : RTree → Option Int
  | leaf => none
  | node l _ k' v r => if k' < k then r.lookup k else if k < k' then l.lookup k else some v

end RTree

/-- the store represents tree `t` at pointer `p`: pointers are in bounds and not NIL, keys/values
and child pointers are those of `t`.  (Parent indices, colours and slot indices are not part of it.) -/
def Rep (s : St) : Nat → RTree → Prop
  | p, .leaf => p = 0
  | p, .node l q k v r =>
    p = q ∧ p ≠ 0 ∧ p < s.heap.size ∧ (s.nd p).key = k ∧ (s.nd p).val = v ∧
    Rep s (s.nd p).left l ∧ Rep s (s.nd p).right r

instance decRep (s : St) : (p : Nat) → (t : RTree) → Decidable (Rep s p t)
  | p, .leaf => inferInstanceAs (Decidable (p = 0))
  | p, .node l q k v r =>
    have := decRep s (s.nd p).left l
    have := decRep s (s.nd p).right r
    inferInstanceAs (Decidable (p = q ∧ p ≠ 0 ∧ p < s.heap.size ∧ (s.nd p).key = k ∧ (s.nd p).val = v ∧
      Rep s (s.nd p).left l ∧ Rep s (s.nd p).right r))

/-- binary-search-tree order of the keys -/
def BST : RTree → Prop
  | .leaf => True
  | .node l _ k _ r => BST l ∧ BST r ∧ (∀ x ∈ l.toList, x.1 < k) ∧ (∀ x ∈ r.toList, k < x.1)

theorem rep_rootPtr {s : St} {p : Nat} {t : RTree} (h : Rep s p t) : t.rootPtr = p := by
  cases t with
  | leaf => exact h.symm
  | node l q k v r => exact h.1.symm

theorem rep_ptrs_ne_zero {s : St} {p : Nat} {t : RTree} (h : Rep s p t) : ∀ q ∈ t.ptrs, q ≠ 0 ∧ q < s.heap.size := by
  induction t generalizing p with
  | leaf => intro q hq; cases hq
  | node l q k v r ihl ihr =>
    obtain ⟨rfl, hp0, hps, _, _, hl, hr⟩ := h
    intro x hx
    simp only [RTree.ptrs, List.mem_append, List.mem_cons] at hx
    rcases hx with hx | rfl | hx
    · exact ihl hl x hx
    · exact ⟨hp0, hps⟩
    · exact ihr hr x hx

/-- frame rule: a store that agrees on the structural fields of the tree's own nodes represents the same tree -/
theorem rep_frame {s s' : St} {p : Nat} {t : RTree} (h : Rep s p t) (hs : s.heap.size ≤ s'.heap.size)
    (hf : ∀ q ∈ t.ptrs, (s'.nd q).left = (s.nd q).left ∧ (s'.nd q).right = (s.nd q).right ∧
                        (s'.nd q).key = (s.nd q).key ∧ (s'.nd q).val = (s.nd q).val) :
    Rep s' p t := by
  induction t generalizing p with
  | leaf => exact h
  | node l q k v r ihl ihr =>
    obtain ⟨rfl, hp0, hps, hk, hv, hl, hr⟩ := h
    have hp := hf p (by simp [RTree.ptrs])
    refine ⟨rfl, hp0, Nat.lt_of_lt_of_le hps hs, hp.2.2.1.trans hk, hp.2.2.2.trans hv, ?_, ?_⟩
    · rw [hp.1]; exact ihl hl (fun q hq => hf q (by simp [RTree.ptrs, hq]))
    · rw [hp.2.1]; exact ihr hr (fun q hq => hf q (by simp [RTree.ptrs, hq]))

/-! ### search -/

theorem searchFrom_rep {s : St} {t : RTree} {p : Nat} (k : Int) {f : Nat} (h : Rep s p t) (hf : t.height < f) :
    searchFrom f s p k = some (t.find k) := by
  induction t generalizing p f with
  | leaf =>
    cases f with
    | zero => cases hf
    | succ f => simp [searchFrom, Rep] at *; simp [h, RTree.find]
  | node l q k' v r ihl ihr =>
    obtain ⟨rfl, hp0, _, hk, _, hl, hr⟩ := h
    cases f with
    | zero => cases hf
    | succ f =>
      simp only [RTree.height] at hf
      have hlf : l.height < f := by omega
      have hrf : r.height < f := by omega
      simp only [searchFrom, hp0, if_false, hk, RTree.find]
      split
      · exact ihr hr hrf
      · split
        · exact ihl hl hlf
        · rfl

theorem find_lookup {s : St} {t : RTree} {p : Nat} (k : Int) (h : Rep s p t) :
    (t.find k = 0 → t.lookup k = none) ∧
    (t.find k ≠ 0 → t.lookup k = some (s.nd (t.find k)).val) := by
  induction t generalizing p with
  | leaf => simp [RTree.find, RTree.lookup]
  | node l q k' v r ihl ihr =>
    obtain ⟨rfl, hp0, _, hk, hv, hl, hr⟩ := h
    simp only [RTree.find, RTree.lookup]
    split
    · exact ihr hr
    · split
      · exact ihl hl
      · exact ⟨fun e => absurd e hp0, fun _ => by rw [hv]⟩

theorem lookup_append_right {k : Int} {a b : List (Int × Int)} (h : k ∉ C13Spec.keys a) :
    C13Spec.lookup k (a ++ b) = C13Spec.lookup k b := by
  induction a with
  | nil => rfl
  | cons x a ih =>
    obtain ⟨k', v'⟩ := x
    rw [C13Spec.keys_cons, List.mem_cons, not_or] at h
    have : ¬ k' = k := fun e => h.1 e.symm
    simp only [List.cons_append, C13Spec.lookup, this, if_false, ih h.2]

theorem lookup_append_left {k : Int} {a b : List (Int × Int)} (h : k ∉ C13Spec.keys b) :
    C13Spec.lookup k (a ++ b) = C13Spec.lookup k a := by
  induction a with
  | nil => simpa [C13Spec.lookup] using C13Spec.lookup_eq_none_iff.mpr h
  | cons x a ih =>
    obtain ⟨k', v'⟩ := x
    simp only [List.cons_append, C13Spec.lookup, ih]

theorem not_mem_keys_of_lt {k : Int} {l : List (Int × Int)} (h : ∀ x ∈ l, x.1 < k) : k ∉ C13Spec.keys l := by
  intro hm
  obtain ⟨x, hx, e⟩ := List.mem_map.mp hm
  have := h x hx
  omega

theorem not_mem_keys_of_gt {k : Int} {l : List (Int × Int)} (h : ∀ x ∈ l, k < x.1) : k ∉ C13Spec.keys l := by
  intro hm
  obtain ⟨x, hx, e⟩ := List.mem_map.mp hm
  have := h x hx
  omega

/-- on a BST, binary search is lookup in the in-order association list -/
theorem lookup_eq_spec {t : RTree} (k : Int) (hb : BST t) : t.lookup k = C13Spec.lookup k t.toList := by
  induction t with
  | leaf => rfl
  | node l q k' v r ihl ihr =>
    obtain ⟨hbl, hbr, hlt, hgt⟩ := hb
    simp only [RTree.lookup, RTree.toList]
    split
    · rename_i h1
      rw [ihr hbr, lookup_append_right (not_mem_keys_of_lt (fun x hx => Int.lt_trans (hlt x hx) h1))]
      have : ¬ k' = k := by omega
      simp only [C13Spec.lookup, this, if_false]
    · split
      · rename_i h1 h2
        rw [ihl hbl]
        apply (lookup_append_left _).symm
        rw [C13Spec.keys_cons, List.mem_cons, not_or]
        exact ⟨by simp; omega, not_mem_keys_of_gt (fun x hx => Int.lt_trans h2 (hgt x hx))⟩
      · rename_i h1 h2
        have e : k' = k := by omega
        rw [lookup_append_right (not_mem_keys_of_lt (fun x hx => e ▸ hlt x hx))]
        simp only [C13Spec.lookup, e, if_true]

theorem bst_keys_nodup {t : RTree} (hb : BST t) : (C13Spec.keys t.toList).Nodup := by
  induction t with
  | leaf => exact List.nodup_nil
  | node l q k v r ihl ihr =>
    obtain ⟨hbl, hbr, hlt, hgt⟩ := hb
    simp only [RTree.toList, C13Spec.keys, List.map_append, List.map_cons]
    rw [List.nodup_append]
    refine ⟨ihl hbl, ?_, ?_⟩
    · rw [List.nodup_cons]
      exact ⟨not_mem_keys_of_gt hgt, ihr hbr⟩
    · intro a ha b hb' e
      subst e
      obtain ⟨x, hx, rfl⟩ := List.mem_map.mp ha
      have h1 := hlt x hx
      rcases List.mem_cons.mp hb' with e | hb'
      · omega
      · obtain ⟨y, hy, e⟩ := List.mem_map.mp hb'
        have h2 := hgt y hy
        omega

end WaVerif.C13RB
