import WaVerif.Model.C18
/-!
# C18 — bridging lemmas (core Lean only; kernel-only tactics)

`omega` does not understand `&&&`, `sshiftRight`, `signExtend`; these lemmas restate the few
bit-level operations of the model as `/`, `%` on `toNat` / `toInt`, after which `omega` decides.
-/
namespace WaVerif.C18

theorem nat_and_two_pow (n i : Nat) : n &&& 2 ^ i = if n.testBit i then 2 ^ i else 0 := by
  apply Nat.eq_of_testBit_eq
  intro j
  by_cases h : n.testBit i
  · simp only [h, if_true, Nat.testBit_and, Nat.testBit_two_pow]
    by_cases hj : i = j
    · subst hj; simp [h]
    · simp [hj]
  · simp only [h, Nat.testBit_and, Nat.testBit_two_pow]
    by_cases hj : i = j
    · subst hj; simp [h]
    · simp [hj]

/-- Go's `(delta & 0x800) != 0` -/
theorem and_800_ne_zero (d : BitVec 32) : (d &&& 0x800#32 ≠ 0#32) ↔ d.toNat / 2048 % 2 = 1 := by
  rw [ne_eq, ← BitVec.toNat_inj, BitVec.toNat_and]
  have : (0x800#32).toNat = 2 ^ 11 := by decide
  rw [this, nat_and_two_pow, Nat.testBit_eq_decide_div_mod_eq]
  by_cases h : d.toNat / 2 ^ 11 % 2 = 1 <;> simp [h]

theorem and_allOnes_shl {w : Nat} (x : BitVec w) (k : Nat) :
    x &&& (BitVec.allOnes w <<< k) = (x >>> k) <<< k := by
  ext i hi
  by_cases hk : i < k
  · simp [hk]
  · simp [hk]
    congr 1; omega

/-- Go's `x &^ 0xFFF` clears the low 12 bits -/
theorem toNat_and_not_fff (x : BitVec 64) :
    (x &&& ~~~0xFFF#64).toNat = x.toNat - x.toNat % 4096 := by
  have h : ~~~0xFFF#64 = BitVec.allOnes 64 <<< 12 := by decide
  rw [h, and_allOnes_shl]
  simp [BitVec.toNat_shiftLeft, BitVec.toNat_ushiftRight, Nat.shiftLeft_eq, Nat.shiftRight_eq_div_pow]
  have := x.isLt
  omega

theorem toNat_and_fff (x : BitVec 64) : (x &&& 0xFFF#64).toNat = x.toNat % 4096 := by
  rw [BitVec.toNat_and]
  exact Nat.and_two_pow_sub_one_eq_mod x.toNat 12

theorem toNat_and_fffff (x : BitVec 32) : (x &&& 0xFFFFF#32).toNat = x.toNat % 1048576 := by
  rw [BitVec.toNat_and]
  exact Nat.and_two_pow_sub_one_eq_mod x.toNat 20

theorem toInt_sext64 (n : Nat) (hn : n ≤ 64) (x : BitVec n) : (x.signExtend 64).toInt = x.toInt := by
  rw [BitVec.toInt_signExtend, Nat.min_eq_right hn]
  exact BitVec.toInt_bmod_cancel x

theorem toInt_sext32 (n : Nat) (hn : n ≤ 32) (x : BitVec n) : (x.signExtend 32).toInt = x.toInt := by
  rw [BitVec.toInt_signExtend, Nat.min_eq_right hn]
  exact BitVec.toInt_bmod_cancel x

theorem toInt_sshiftRight12 {w : Nat} (x : BitVec w) : (x.sshiftRight 12).toInt = x.toInt / 4096 := by
  rw [BitVec.toInt_sshiftRight, Int.shiftRight_eq_div_pow]; rfl

/-- page-masking commutes with adding a page multiple -/
theorem page_add (x y : BitVec 64) (hy : y.toNat % 4096 = 0) :
    (x + y) &&& ~~~0xFFF#64 = (x &&& ~~~0xFFF#64) + y := by
  apply BitVec.eq_of_toNat_eq
  rw [toNat_and_not_fff, BitVec.toNat_add, BitVec.toNat_add, toNat_and_not_fff]
  have := x.isLt; have := y.isLt
  omega

/-- two registers whose signed values are `H` and `d - 4096 H` recombine to `d` (mod 2^64) -/
theorem shl12_add_eq (a b d : BitVec 64) (H : Int) (ha : a.toInt = H)
    (hb : b.toInt = d.toInt - 4096 * H) : (a <<< 12) + b = d := by
  apply BitVec.eq_of_toNat_eq
  rw [BitVec.toNat_add, BitVec.toNat_shiftLeft, Nat.shiftLeft_eq]
  have h1 := BitVec.toInt_eq_toNat_cond a
  have h2 := BitVec.toInt_eq_toNat_cond b
  have h3 := BitVec.toInt_eq_toNat_cond d
  have := a.isLt; have := b.isLt; have := d.isLt
  omega

/-- the two LoongArch instruction fields, read back with sign extension, as integers -/
theorem la64_fields (delta : BitVec 64)
    (h : -2147483648 ≤ delta.toInt + 2048 ∧ delta.toInt + 2048 < 2147483648) :
    let lo := (delta &&& 0xFFF#64).setWidth 32
    let hi0 := (delta.sshiftRight 12).setWidth 32
    let hi := (if (0x800#32).sle lo then hi0 + 1#32 else hi0) &&& 0xFFFFF#32
    (sext20 hi).toInt = (delta.toInt + 2048) / 4096 ∧
    (sext12 lo).toInt = delta.toInt - 4096 * ((delta.toInt + 2048) / 4096) ∧
    hi.toNat < 1048576 ∧ lo.toNat < 4096 ∧
    (lo.toNat < 2048 ↔ 0 ≤ (sext12 lo).toInt) ∧ (hi.toNat < 524288 ↔ 0 ≤ (sext20 hi).toInt) := by
  intro lo hi0 hi
  have hdc := BitVec.toInt_eq_toNat_cond delta
  have hlo : lo.toNat = delta.toNat % 4096 := by
    show ((delta &&& 0xFFF#64).setWidth 32).toNat = _
    rw [BitVec.toNat_setWidth, toNat_and_fff]; omega
  have hsle : (0x800#32).sle lo = true ↔ 2048 ≤ lo.toNat := by
    rw [BitVec.sle_iff_toInt_le, BitVec.toInt_eq_toNat_cond lo]
    have : (0x800#32).toInt = 2048 := by decide
    rw [this]; omega
  have hsh := toInt_sshiftRight12 delta
  have hshc := BitVec.toInt_eq_toNat_cond (delta.sshiftRight 12)
  have hhi0 : hi0.toNat = (delta.sshiftRight 12).toNat % 2^32 := BitVec.toNat_setWidth _ _
  have hhi0' : (hi0.toNat : Int) = (delta.toInt / 4096) % 4294967296 := by
    have := (delta.sshiftRight 12).isLt
    omega
  have hloI : (lo.toNat : Int) = delta.toInt - 4096 * (delta.toInt / 4096) := by
    have := delta.isLt
    omega
  have h20 : (sext20 hi).toInt = ((hi.setWidth 20)).toInt := toInt_sext64 20 (by omega) _
  have h20c := BitVec.toInt_eq_toNat_cond (hi.setWidth 20)
  have h20n : (hi.setWidth 20).toNat = hi.toNat % 2^20 := BitVec.toNat_setWidth _ _
  have h12 : (sext12 lo).toInt = (lo.setWidth 12).toInt := toInt_sext64 12 (by omega) _
  have h12c := BitVec.toInt_eq_toNat_cond (lo.setWidth 12)
  have h12n : (lo.setWidth 12).toNat = lo.toNat % 2^12 := BitVec.toNat_setWidth _ _
  have hhi : hi.toNat = (if (0x800#32).sle lo then hi0 + 1#32 else hi0).toNat % 1048576 :=
    toNat_and_fffff _
  have h1 : (1#32).toNat = 1 := by decide
  have := hi0.isLt
  by_cases hc : (0x800#32).sle lo = true
  · have hc' := hsle.mp hc
    rw [if_pos hc, BitVec.toNat_add, h1] at hhi
    refine ⟨?_, ?_, ?_, ?_, ?_, ?_⟩ <;> omega
  · have hc' : ¬ 2048 ≤ lo.toNat := fun h' => hc (hsle.mpr h')
    rw [if_neg hc] at hhi
    refine ⟨?_, ?_, ?_, ?_, ?_, ?_⟩ <;> omega

/-- `SplitOffset` as integer arithmetic: `hi = ⌊(d + 2048) / 4096⌋`, `lo = d - 4096 hi`
(`lo` computed without overflow although `hi << 12` may wrap at `hi = 2^19`). -/
theorem split_int (d : BitVec 32) :
    (splitOffset d).1.toInt = (d.toInt + 2048) / 4096 ∧
    (splitOffset d).2.toInt = d.toInt - 4096 * ((d.toInt + 2048) / 4096) := by
  have hdc := BitVec.toInt_eq_toNat_cond d
  have hsh := toInt_sshiftRight12 d
  have hshc := BitVec.toInt_eq_toNat_cond (d.sshiftRight 12)
  have hbit := and_800_ne_zero d
  have h1 : (1#32).toNat = 1 := by decide
  have := d.isLt
  have := (d.sshiftRight 12).isLt
  unfold splitOffset
  by_cases hc : d &&& 0x800#32 ≠ 0#32
  · have hc' := hbit.mp hc
    simp only [if_pos hc]
    have hhi := BitVec.toInt_eq_toNat_cond (d.sshiftRight 12 + 1#32)
    have hhin : (d.sshiftRight 12 + 1#32).toNat = ((d.sshiftRight 12).toNat + 1) % 2^32 := by
      rw [BitVec.toNat_add, h1]
    have hlo := BitVec.toInt_eq_toNat_cond (d - ((d.sshiftRight 12 + 1#32) <<< 12))
    have hlon : (d - ((d.sshiftRight 12 + 1#32) <<< 12)).toNat
        = (2^32 - ((d.sshiftRight 12 + 1#32).toNat * 4096) % 2^32 + d.toNat) % 2^32 := by
      rw [BitVec.toNat_sub, BitVec.toNat_shiftLeft, Nat.shiftLeft_eq]
    generalize (d - ((d.sshiftRight 12 + 1#32) <<< 12)) = lo at *
    generalize (d.sshiftRight 12 + 1#32) = hi at *
    constructor <;> omega
  · have hc' : ¬ d.toNat / 2048 % 2 = 1 := fun h' => hc (hbit.mpr h')
    simp only [if_neg hc]
    have hlo := BitVec.toInt_eq_toNat_cond (d - ((d.sshiftRight 12) <<< 12))
    have hlon : (d - ((d.sshiftRight 12) <<< 12)).toNat
        = (2^32 - ((d.sshiftRight 12).toNat * 4096) % 2^32 + d.toNat) % 2^32 := by
      rw [BitVec.toNat_sub, BitVec.toNat_shiftLeft, Nat.shiftLeft_eq]
    generalize (d - ((d.sshiftRight 12) <<< 12)) = lo at *
    generalize (d.sshiftRight 12) = hi at *
    constructor <;> omega

/-- reading a 20-bit field back with sign extension -/
theorem sext20_toInt (x : BitVec 32) (h : x.toNat < 1048576) :
    (sext20 x).toInt = if x.toNat < 524288 then (x.toNat : Int) else (x.toNat : Int) - 1048576 := by
  unfold sext20
  rw [toInt_sext64 20 (by omega)]
  have h1 := BitVec.toInt_eq_toNat_cond (x.setWidth 20)
  have h2 : (x.setWidth 20).toNat = x.toNat % 2 ^ 20 := BitVec.toNat_setWidth _ _
  omega

theorem sext12_toInt (x : BitVec 32) (h : x.toNat < 4096) :
    (sext12 x).toInt = if x.toNat < 2048 then (x.toNat : Int) else (x.toNat : Int) - 4096 := by
  unfold sext12
  rw [toInt_sext64 12 (by omega)]
  have h1 := BitVec.toInt_eq_toNat_cond (x.setWidth 12)
  have h2 : (x.setWidth 12).toNat = x.toNat % 2 ^ 12 := BitVec.toNat_setWidth _ _
  omega

/-- Go's `int64(x)` of a non-negative `int32` -/
theorem toNat_sext_small (x : BitVec 32) (h : x.toNat < 2147483648) :
    (x.signExtend 64).toNat = x.toNat := by
  have h0 := toInt_sext64 32 (by omega) x
  have h1 := BitVec.toInt_eq_toNat_cond (x.signExtend 64)
  have h2 := BitVec.toInt_eq_toNat_cond x
  have := (x.signExtend 64).isLt
  omega

end WaVerif.C18
