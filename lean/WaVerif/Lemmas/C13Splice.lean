import WaVerif.Lemmas.C13Inv
/-!
C13 — the unlinking step of `delete(z)` for a node with at most one child (before `deleteFixup`):
`x.SetParent(z.Parent)`, then the pointer that led to `z` leads to `x` (`z`'s only child, or NIL).
-/
namespace WaVerif.C13RB

namespace RTree

/-- remove the node with pointer `z`, which has at most one child: its child subtree takes its place -/
def remove (z : Nat) : RTree → RTree
  | leaf => leaf
  | node l p k v r =>
    if p = z then (match l with | leaf => r | node _ _ _ _ _ => l)
    else node (l.remove z) p k v (r.remove z)

theorem remove_not_mem (z : Nat) (t : RTree) (h : z ∉ t.ptrs) : t.remove z = t := by
  induction t with
  | leaf => rfl
  | node l p k v r ihl ihr =>
    simp only [ptrs, List.mem_append, List.mem_cons, not_or] at h
    have : ¬ p = z := fun e => h.2.1 e.symm
    simp only [remove, this, if_false, ihl h.1, ihr h.2.2]

end RTree

/-- the unlinking step of the pinned `delete(z)` when `z` has at most one child (`y = z`) -/
def spliceOut (s : St) (z : Nat) : St :=
  let x := if (s.nd z).left ≠ 0 then (s.nd z).left else (s.nd z).right
  relink (s.setParent x (s.parentOf z)) z x

theorem spliceOut_key (s : St) (z w : Nat) : ((spliceOut s z).nd w).key = (s.nd w).key := by
  unfold spliceOut; simp

theorem spliceOut_val (s : St) (z w : Nat) : ((spliceOut s z).nd w).val = (s.nd w).val := by
  unfold spliceOut; simp

theorem spliceOut_fields (s : St) (z w : Nat) (hw : w ≠ s.parentOf z) (hzx : z ≠ (if (s.nd z).left ≠ 0 then (s.nd z).left else (s.nd z).right)) :
    ((spliceOut s z).nd w).left = (s.nd w).left ∧ ((spliceOut s z).nd w).right = (s.nd w).right ∧
    ((spliceOut s z).nd w).key = (s.nd w).key ∧ ((spliceOut s z).nd w).val = (s.nd w).val := by
  refine ⟨?_, ?_, spliceOut_key s z w, spliceOut_val s z w⟩
  all_goals unfold spliceOut
  all_goals simp only
  all_goals have hp : (s.setParent (if (s.nd z).left ≠ 0 then (s.nd z).left else (s.nd z).right) (s.parentOf z)).parentOf z = s.parentOf z :=
    setParent_parentOf_ne _ _ _ _ hzx
  · rw [relink_left_ne _ _ _ _ (by rw [hp]; exact hw)]; simp
  · rw [relink_right_ne _ _ _ _ (by rw [hp]; exact hw)]; simp

theorem spliceOut_size (s : St) (z : Nat) : (spliceOut s z).heap.size = s.heap.size := by
  unfold spliceOut; simp

theorem spliceOut_frame {s : St} {z p : Nat} {t : RTree} (h : Rep s p t)
    (hzx : z ≠ (if (s.nd z).left ≠ 0 then (s.nd z).left else (s.nd z).right))
    (hd : ∀ w ∈ t.ptrs, w ≠ s.parentOf z) : Rep (spliceOut s z) p t := by
  apply rep_frame h (by rw [spliceOut_size]; exact Nat.le_refl _)
  intro w hw
  exact spliceOut_fields s z w (hd w hw) hzx

/-- `z` is the top of the represented tree `tz` and its parent is outside: the child takes its place -/
theorem spliceOut_rep_top {s : St} {z : Nat} (hz0 : z ≠ 0)
    (hzx : z ≠ (if (s.nd z).left ≠ 0 then (s.nd z).left else (s.nd z).right))
    (tz : RTree) (hrz : Rep s z tz) (hd : ∀ w ∈ tz.ptrs, w ≠ s.parentOf z) :
    Rep (spliceOut s z) (if (s.nd z).left ≠ 0 then (s.nd z).left else (s.nd z).right) (tz.remove z) := by
  cases tz with
  | leaf => exact absurd hrz hz0
  | node a z' kz vz c =>
    obtain ⟨hzz, _, _, _, _, ha, hc⟩ := hrz
    subst hzz
    simp only [RTree.remove, if_true]
    cases a with
    | leaf =>
      have hl0 : (s.nd z).left = 0 := ha
      simp only [hl0, ne_eq, not_true_eq_false, if_false]
      exact spliceOut_frame hc (by simpa [hl0] using hzx) (fun w hw => hd w (by simp [RTree.ptrs, hw]))
    | node aa ap ak av ac =>
      have hl0 : (s.nd z).left ≠ 0 := ha.1 ▸ ha.2.1
      simp only [hl0, ne_eq, not_false_eq_true, if_true]
      exact spliceOut_frame ha (by simpa [hl0] using hzx)
        (fun w hw => hd w (by simp only [RTree.ptrs, List.mem_append, List.mem_cons] at hw ⊢; exact Or.inl hw))

theorem splice_target_ne {s : St} {q z : Nat} {t : RTree} (hr : Rep s q t) (hn : t.ptrs.Nodup) (hz : z ∈ t.ptrs) :
    z ≠ (if (s.nd z).left ≠ 0 then (s.nd z).left else (s.nd z).right) := by
  obtain ⟨a, kz, vz, c, hsub, hsn, _⟩ := rep_sub hr hn hz
  obtain ⟨_, hz0, _, _, _, ha, hc⟩ := hsub
  simp only [RTree.ptrs, List.nodup_append, List.nodup_cons] at hsn
  split
  · rename_i hl
    rcases rep_root_zero_or_mem ha with e | e
    · exact absurd e hl
    · intro e'; rw [← e'] at e; exact hsn.2.2 z e z (by simp) rfl
  · rcases rep_root_zero_or_mem hc with e | e
    · rw [e]; exact hz0
    · intro e'; rw [← e'] at e; exact hsn.2.1.1 e

/-- `z` strictly inside a represented subtree with top `q`: afterwards `q` represents the tree without `z` -/
theorem spliceOut_rep_inside (s : St) (z : Nat) (hz0 : z ≠ 0)
    (t : RTree) (q par : Nat) (hr : Rep s q t) (hn : t.ptrs.Nodup) (hp : POK s par t)
    (hz : z ∈ t.ptrs) (hzq : z ≠ q) :
    Rep (spliceOut s z) q (t.remove z) := by
  have hzx := splice_target_ne hr hn hz
  induction t generalizing q par with
  | leaf => cases hz
  | node l p k v r ihl ihr =>
    obtain ⟨rfl, hq0, hqs, hk, hv, hl, hr'⟩ := hr
    obtain ⟨hpp, hpl, hpr⟩ := hp
    simp only [RTree.ptrs, List.nodup_append, List.nodup_cons] at hn
    obtain ⟨hnl, ⟨hqr, hnr⟩, hlr⟩ := hn
    have hql : q ∉ l.ptrs := fun hm => hlr q hm q (by simp) rfl
    simp only [RTree.ptrs, List.mem_append, List.mem_cons] at hz
    have hqz : ¬ q = z := fun e => hzq e.symm
    simp only [RTree.remove, hqz, if_false]
    have hsz : (spliceOut s z).heap.size = s.heap.size := spliceOut_size s z
    -- the fields of q when z is a child of q (so q = z.Parent)
    have hat : s.parentOf z = q →
        ((spliceOut s z).nd q).left = (if z = (s.nd q).left then (if (s.nd z).left ≠ 0 then (s.nd z).left else (s.nd z).right) else (s.nd q).left) ∧
        ((spliceOut s z).nd q).right = (if z = (s.nd q).left then (s.nd q).right else (if (s.nd z).left ≠ 0 then (s.nd z).left else (s.nd z).right)) := by
      intro hpz
      unfold spliceOut
      simp only
      have hpe : (s.setParent (if (s.nd z).left ≠ 0 then (s.nd z).left else (s.nd z).right) (s.parentOf z)).parentOf z = q := by
        rw [setParent_parentOf_ne _ _ _ _ hzx]; exact hpz
      have := relink_at _ z (if (s.nd z).left ≠ 0 then (s.nd z).left else (s.nd z).right) q hpe hq0 (by simpa using hqs)
      simpa using this
    have htop : ∀ (tz : RTree), Rep s z tz → tz.ptrs.Nodup → (∀ w ∈ tz.ptrs, w ≠ q) → s.parentOf z = q →
        Rep (spliceOut s z) (if (s.nd z).left ≠ 0 then (s.nd z).left else (s.nd z).right) (tz.remove z) :=
      fun tz hrz _ hdq hpz => spliceOut_rep_top hz0 hzx tz hrz (fun w hw => hpz ▸ hdq w hw)
    rcases hz with hz | hz | hz
    · have hzr : z ∉ r.ptrs := fun hm => hlr z hz z (by simp [hm]) rfl
      rw [RTree.remove_not_mem z r hzr]
      rcases pok_parentOf hl hnl hpl hz with ⟨hztop, hpz⟩ | ⟨hztop, hpz⟩
      · -- z is the left child of q
        have ha := hat hpz
        rw [if_pos hztop, if_pos hztop] at ha
        have hrr : Rep (spliceOut s z) (s.nd q).right r :=
          spliceOut_frame hr' hzx (fun w hw e => hqr ((e.trans hpz) ▸ hw))
        refine ⟨rfl, hq0, by rw [hsz]; exact hqs, by rw [spliceOut_key]; exact hk, by rw [spliceOut_val]; exact hv,
          ?_, by rw [ha.2]; exact hrr⟩
        rw [ha.1]
        have hl2 := hl
        rw [← hztop] at hl2
        exact htop l hl2 hnl (fun w hw e => hql (e ▸ hw)) hpz
      · have hqpz : q ≠ s.parentOf z := fun e => hql (e ▸ hpz)
        have hf := spliceOut_fields s z q hqpz hzx
        have hrr : Rep (spliceOut s z) (s.nd q).right r :=
          spliceOut_frame hr' hzx (fun w hw e => hlr _ hpz w (by simp [hw]) e.symm)
        refine ⟨rfl, hq0, by rw [hsz]; exact hqs, by rw [spliceOut_key]; exact hk, by rw [spliceOut_val]; exact hv,
          ?_, by rw [hf.2.1]; exact hrr⟩
        rw [hf.1]
        exact ihl _ q hl hnl hpl hz hztop
    · exact absurd hz hzq
    · have hzl : z ∉ l.ptrs := fun hm => hlr z hm z (by simp [hz]) rfl
      rw [RTree.remove_not_mem z l hzl]
      rcases pok_parentOf hr' hnr hpr hz with ⟨hztop, hpz⟩ | ⟨hztop, hpz⟩
      · have ha := hat hpz
        have hznl : ¬ z = (s.nd q).left := by
          intro e
          rcases rep_root_zero_or_mem hl with e0 | em
          · exact hz0 (e.trans e0)
          · exact hzl (e ▸ em)
        rw [if_neg hznl, if_neg hznl] at ha
        have hll : Rep (spliceOut s z) (s.nd q).left l :=
          spliceOut_frame hl hzx (fun w hw e => hql ((e.trans hpz) ▸ hw))
        refine ⟨rfl, hq0, by rw [hsz]; exact hqs, by rw [spliceOut_key]; exact hk, by rw [spliceOut_val]; exact hv,
          by rw [ha.1]; exact hll, ?_⟩
        rw [ha.2]
        have hr2 := hr'
        rw [← hztop] at hr2
        exact htop r hr2 hnr (fun w hw e => hqr (e ▸ hw)) hpz
      · have hqpz : q ≠ s.parentOf z := fun e => hqr (e ▸ hpz)
        have hf := spliceOut_fields s z q hqpz hzx
        have hll : Rep (spliceOut s z) (s.nd q).left l :=
          spliceOut_frame hl hzx (fun w hw e => hlr w hw _ (by simp [hpz]) e)
        refine ⟨rfl, hq0, by rw [hsz]; exact hqs, by rw [spliceOut_key]; exact hk, by rw [spliceOut_val]; exact hv,
          by rw [hf.1]; exact hll, ?_⟩
        rw [hf.2.1]
        exact ihr _ q hr' hnr hpr hz hztop

/-- in-order effect of removing a node with at most one child: exactly its entry disappears -/
theorem remove_toList {s : St} {q z : Nat} {t : RTree} (hr : Rep s q t) (hn : t.ptrs.Nodup) (hz : z ∈ t.ptrs)
    (h1 : (s.nd z).left = 0 ∨ (s.nd z).right = 0) :
    ∃ L R, t.toList = L ++ ((s.nd z).key, (s.nd z).val) :: R ∧ (t.remove z).toList = L ++ R := by
  induction t generalizing q with
  | leaf => cases hz
  | node l p k v r ihl ihr =>
    obtain ⟨rfl, hq0, _, hk, hv, hl, hr'⟩ := hr
    simp only [RTree.ptrs, List.nodup_append, List.nodup_cons] at hn
    obtain ⟨hnl, ⟨hqr, hnr⟩, hlr⟩ := hn
    simp only [RTree.ptrs, List.mem_append, List.mem_cons] at hz
    by_cases hqz : q = z
    · subst hqz
      simp only [RTree.remove, if_true, RTree.toList, hk, hv]
      cases l with
      | leaf => exact ⟨[], r.toList, by simp [RTree.toList], by simp⟩
      | node la lp lk lv lc =>
        have hl0 : (s.nd q).left ≠ 0 := hl.1 ▸ hl.2.1
        have hr0 : (s.nd q).right = 0 := h1.resolve_left hl0
        rw [hr0] at hr'
        rw [rep_zero_leaf hr']
        exact ⟨(RTree.node la lp lk lv lc).toList, [], by simp [RTree.toList], by simp⟩
    · simp only [RTree.remove, hqz, if_false, RTree.toList]
      rcases hz with hz | hz | hz
      · have hzr : z ∉ r.ptrs := fun hm => hlr z hz z (by simp [hm]) rfl
        rw [RTree.remove_not_mem z r hzr]
        obtain ⟨L, R, e1, e2⟩ := ihl hl hnl hz
        exact ⟨L, R ++ (k, v) :: r.toList, by rw [e1]; simp, by rw [e2]; simp⟩
      · exact absurd hz.symm hqz
      · have hzl : z ∉ l.ptrs := fun hm => hlr z hm z (by simp [hz]) rfl
        rw [RTree.remove_not_mem z l hzl]
        obtain ⟨L, R, e1, e2⟩ := ihr hr' hnr hz
        exact ⟨l.toList ++ (k, v) :: L, R, by rw [e1]; simp, by rw [e2]; simp⟩

/-- the whole unlinking step: the root represents the tree without `z` -/
theorem spliceOut_rep (s : St) (z : Nat) (t : RTree) (hr : Rep s s.root t) (hn : t.ptrs.Nodup) (hp : POK s 0 t)
    (hz : z ∈ t.ptrs) : Rep (spliceOut s z) (spliceOut s z).root (t.remove z) := by
  have hz0 : z ≠ 0 := (rep_ptrs_ne_zero hr z hz).1
  have hzx := splice_target_ne hr hn hz
  have hroot : (spliceOut s z).root = if s.parentOf z = 0 then (if (s.nd z).left ≠ 0 then (s.nd z).left else (s.nd z).right) else s.root := by
    unfold spliceOut
    simp only [relink_root, setParent_parentOf_ne _ _ _ _ hzx, setParent_root]
  rcases pok_parentOf hr hn hp hz with ⟨hztop, hpz⟩ | ⟨hztop, hpz⟩
  · rw [hroot, if_pos hpz]
    have hr2 := hr
    rw [← hztop] at hr2
    exact spliceOut_rep_top hz0 hzx t hr2 (fun w hw e => (rep_ptrs_ne_zero hr w hw).1 (e.trans hpz))
  · rw [hroot, if_neg (rep_ptrs_ne_zero hr _ hpz).1]
    exact spliceOut_rep_inside s z hz0 t s.root 0 hr hn hp hz hztop

/-! ### consequences for lookups -/

theorem mem_remove_toList (z : Nat) (t : RTree) (x : Int × Int) (h : x ∈ (t.remove z).toList) : x ∈ t.toList := by
  induction t with
  | leaf => exact h
  | node l p k v r ihl ihr =>
    simp only [RTree.remove] at h
    split at h
    · cases l with
      | leaf => simp only [RTree.toList, List.nil_append, List.mem_cons]; exact Or.inr h
      | node _ _ _ _ _ => simp only [RTree.toList, List.mem_append]; exact Or.inl (by simpa [RTree.toList] using h)
    · simp only [RTree.toList, List.mem_append, List.mem_cons] at h ⊢
      rcases h with h | h | h
      · exact Or.inl (ihl h)
      · exact Or.inr (Or.inl h)
      · exact Or.inr (Or.inr (ihr h))

theorem bst_remove (z : Nat) (t : RTree) (hb : BST t) : BST (t.remove z) := by
  induction t with
  | leaf => trivial
  | node l p k v r ihl ihr =>
    obtain ⟨hbl, hbr, hlt, hgt⟩ := hb
    simp only [RTree.remove]
    split
    · cases l with
      | leaf => exact hbr
      | node _ _ _ _ _ => exact hbl
    · exact ⟨ihl hbl, ihr hbr, fun x hx => hlt x (mem_remove_toList z l x hx), fun x hx => hgt x (mem_remove_toList z r x hx)⟩

theorem height_remove_le (z : Nat) (t : RTree) : (t.remove z).height ≤ t.height := by
  induction t with
  | leaf => exact Nat.le_refl _
  | node l p k v r ihl ihr =>
    simp only [RTree.remove]
    split
    · cases l with
      | leaf => simp only [RTree.height]; omega
      | node _ _ _ _ _ => simp only [RTree.height]; omega
    · simp only [RTree.height]; omega

theorem lookup_remove_middle (L R : List (Int × Int)) (e : Int × Int) (hn : (C13Spec.keys (L ++ e :: R)).Nodup) (q : Int) :
    C13Spec.lookup q (L ++ R) = if q = e.1 then none else C13Spec.lookup q (L ++ e :: R) := by
  have hsub : (L ++ R).Sublist (L ++ e :: R) := List.Sublist.append_left (List.sublist_cons_self e R) L
  have hn' : (C13Spec.keys (L ++ R)).Nodup := List.Sublist.nodup (List.Sublist.map Prod.fst hsub) hn
  apply Option.ext
  intro w
  rw [C13Spec.lookup_eq_some_iff hn']
  by_cases h : q = e.1
  · subst h
    simp only [if_true, reduceCtorEq, iff_false]
    intro hm
    simp only [C13Spec.keys, List.map_append, List.map_cons, List.nodup_append, List.nodup_cons] at hn
    rcases List.mem_append.mp hm with hm | hm
    · exact hn.2.2 e.1 (List.mem_map.mpr ⟨(e.1, w), hm, rfl⟩) e.1 (by simp) rfl
    · exact hn.2.1.1 (List.mem_map.mpr ⟨(e.1, w), hm, rfl⟩)
  · simp only [h, if_false, C13Spec.lookup_eq_some_iff hn, List.mem_append, List.mem_cons]
    constructor
    · rintro (hm | hm)
      · exact Or.inl hm
      · exact Or.inr (Or.inr hm)
    · rintro (hm | hm | hm)
      · exact Or.inl hm
      · exact absurd (by rw [← hm]) h
      · exact Or.inr hm

/-- for a node with at most one child the pinned `delete(z)` is: unlink, then `deleteFixup` if the node was black -/
theorem treeDelete_le1 (s : St) (z : Nat) (h1 : (s.nd z).left = 0 ∨ (s.nd z).right = 0) :
    (treeDelete false s z).1 =
      if ((spliceOut s z).nd z).red = false
      then deleteFixup (spliceOut s z).fuel (spliceOut s z) (if (s.nd z).left ≠ 0 then (s.nd z).left else (s.nd z).right)
      else spliceOut s z := by
  unfold treeDelete spliceTarget
  rw [if_pos h1]
  simp only [Bool.false_eq_true, false_and, if_false]
  rfl

theorem find_mem {s : St} {t : RTree} {p : Nat} (k : Int) (h : Rep s p t) (hne : t.find k ≠ 0) :
    t.find k ∈ t.ptrs ∧ (s.nd (t.find k)).key = k := by
  induction t generalizing p with
  | leaf => exact absurd rfl hne
  | node l q k' v r ihl ihr =>
    obtain ⟨rfl, _, _, hk, _, hl, hr⟩ := h
    simp only [RTree.find] at hne ⊢
    simp only [RTree.ptrs, List.mem_append, List.mem_cons]
    split
    · rename_i h1
      rw [if_pos h1] at hne
      exact ⟨Or.inr (Or.inr (ihr hr hne).1), (ihr hr hne).2⟩
    · rename_i h1
      rw [if_neg h1] at hne
      split
      · rename_i h2
        rw [if_pos h2] at hne
        exact ⟨Or.inl (ihl hl hne).1, (ihl hl hne).2⟩
      · rename_i h2
        exact ⟨Or.inr (Or.inl rfl), by rw [hk]; omega⟩

instance decBST : (t : RTree) → Decidable (BST t)
  | .leaf => inferInstanceAs (Decidable True)
  | .node l _ k _ r =>
    have := decBST l
    have := decBST r
    inferInstanceAs (Decidable (BST l ∧ BST r ∧ (∀ x ∈ l.toList, x.1 < k) ∧ (∀ x ∈ r.toList, k < x.1)))

end WaVerif.C13RB
