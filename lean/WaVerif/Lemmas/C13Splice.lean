import WaVerif.Lemmas.C13Inv
/-!
C13 — the unlinking step of `delete(z)` for a node with at most one child (before `deleteFixup`):
`x.SetParent(z.Parent)`, then the pointer that led to `z` leads to `x` (`z`'s only child, or NIL).
-/
namespace WaVerif.C13RB

namespace RTree

/-- remove the node with pointer `z`, which has at most one child: its child subtree takes its place -/
def remove (z : Nat) : RTree → RTree
  | leaf => leaf
  | node l p k v r =>
    if p = z then (match l with | leaf => r | node _ _ _ _ _ => l)
    else node (l.remove z) p k v (r.remove z)

theorem remove_not_mem (z : Nat) (t : RTree) (h : z ∉ t.ptrs) : t.remove z = t := by
  induction t with
  | leaf => rfl
  | node l p k v r ihl ihr =>
    simp only [ptrs, List.mem_append, List.mem_cons, not_or] at h
    have : ¬ p = z := fun e => h.2.1 e.symm
    simp only [remove, this, if_false, ihl h.1, ihr h.2.2]

end RTree

/-- the unlinking step of the pinned `delete(z)` when `z` has at most one child (`y = z`) -/
def spliceOut (s : St) (z : Nat) : St :=
  let x := if (s.nd z).left ≠ 0 then (s.nd z).left else (s.nd z).right
  relink (s.setParent x (s.parentOf z)) z x

theorem spliceOut_fields (s : St) (z w : Nat) (hw : w ≠ s.parentOf z) (hzx : z ≠ (if (s.nd z).left ≠ 0 then (s.nd z).left else (s.nd z).right)) :
    ((spliceOut s z).nd w).left = (s.nd w).left ∧ ((spliceOut s z).nd w).right = (s.nd w).right ∧
    ((spliceOut s z).nd w).key = (s.nd w).key ∧ ((spliceOut s z).nd w).val = (s.nd w).val := by
  unfold spliceOut
  simp only
  have hp : (s.setParent (if (s.nd z).left ≠ 0 then (s.nd z).left else (s.nd z).right) (s.parentOf z)).parentOf z = s.parentOf z :=
    setParent_parentOf_ne _ _ _ _ hzx
  refine ⟨?_, ?_, by simp, by simp⟩
  · rw [relink_left_ne _ _ _ _ (by rw [hp]; exact hw)]; simp
  · rw [relink_right_ne _ _ _ _ (by rw [hp]; exact hw)]; simp

theorem spliceOut_size (s : St) (z : Nat) : (spliceOut s z).heap.size = s.heap.size := by
  unfold spliceOut; simp

theorem spliceOut_frame {s : St} {z p : Nat} {t : RTree} (h : Rep s p t)
    (hzx : z ≠ (if (s.nd z).left ≠ 0 then (s.nd z).left else (s.nd z).right))
    (hd : ∀ w ∈ t.ptrs, w ≠ s.parentOf z) : Rep (spliceOut s z) p t := by
  apply rep_frame h (by rw [spliceOut_size]; exact Nat.le_refl _)
  intro w hw
  exact spliceOut_fields s z w (hd w hw) hzx

/-- `z` strictly inside a represented subtree with top `q`: afterwards `q` represents the tree without `z` -/
theorem spliceOut_rep_inside (s : St) (z : Nat) (h1 : (s.nd z).left = 0 ∨ (s.nd z).right = 0) (hz0 : z ≠ 0)
    (t : RTree) (q par : Nat) (hr : Rep s q t) (hn : t.ptrs.Nodup) (hp : POK s par t)
    (hz : z ∈ t.ptrs) (hzq : z ≠ q) :
    Rep (spliceOut s z) q (t.remove z) := by
  have hzx : z ≠ (if (s.nd z).left ≠ 0 then (s.nd z).left else (s.nd z).right) := by
    obtain ⟨a, kz, vz, c, hsub, hsn, _⟩ := rep_sub hr hn hz
    obtain ⟨_, _, _, _, _, ha, hc⟩ := hsub
    simp only [RTree.ptrs, List.nodup_append, List.nodup_cons] at hsn
    split
    · rename_i hl
      rcases rep_root_zero_or_mem ha with e | e
      · exact absurd e hl
      · intro e'; rw [← e'] at e; exact hsn.2.2 z e z (by simp) rfl
    · rcases rep_root_zero_or_mem hc with e | e
      · rw [e]; exact hz0
      · intro e'; rw [← e'] at e; exact hsn.2.1.1 e
  induction t generalizing q par with
  | leaf => cases hz
  | node l p k v r ihl ihr =>
    obtain ⟨rfl, hq0, hqs, hk, hv, hl, hr'⟩ := hr
    obtain ⟨hpp, hpl, hpr⟩ := hp
    simp only [RTree.ptrs, List.nodup_append, List.nodup_cons] at hn
    obtain ⟨hnl, ⟨hqr, hnr⟩, hlr⟩ := hn
    have hql : q ∉ l.ptrs := fun hm => hlr q hm q (by simp) rfl
    simp only [RTree.ptrs, List.mem_append, List.mem_cons] at hz
    have hqz : ¬ q = z := fun e => hzq e.symm
    simp only [RTree.remove, hqz, if_false]
    have hsz : (spliceOut s z).heap.size = s.heap.size := spliceOut_size s z
    -- the fields of q when z is a child of q (so q = z.Parent)
    have hat : s.parentOf z = q →
        ((spliceOut s z).nd q).left = (if z = (s.nd q).left then (if (s.nd z).left ≠ 0 then (s.nd z).left else (s.nd z).right) else (s.nd q).left) ∧
        ((spliceOut s z).nd q).right = (if z = (s.nd q).left then (s.nd q).right else (if (s.nd z).left ≠ 0 then (s.nd z).left else (s.nd z).right)) := by
      intro hpz
      unfold spliceOut
      simp only
      have hpe : (s.setParent (if (s.nd z).left ≠ 0 then (s.nd z).left else (s.nd z).right) (s.parentOf z)).parentOf z = q := by
        rw [setParent_parentOf_ne _ _ _ _ hzx]; exact hpz
      have := relink_at _ z (if (s.nd z).left ≠ 0 then (s.nd z).left else (s.nd z).right) q hpe hq0 (by simpa using hqs)
      simpa using this
    rcases hz with hz | hz | hz
    · have hzr : z ∉ r.ptrs := fun hm => hlr z hz z (by simp [hm]) rfl
      rw [RTree.remove_not_mem z r hzr]
      rcases pok_parentOf hl hnl hpl hz with ⟨hztop, hpz⟩ | ⟨hztop, hpz⟩
      · -- z is the left child of q
        have ha := hat hpz
        rw [if_pos hztop, if_pos hztop] at ha
        have hrr : Rep (spliceOut s z) (s.nd q).right r :=
          spliceOut_frame hr' hzx (fun w hw e => hqr ((e.trans hpz) ▸ hw))
        refine ⟨rfl, hq0, by rw [hsz]; exact hqs, by rw [(spliceOut_fields s z q (fun e => ?_) hzx).2.2.1]; exact hk, ?_, ?_, ?_⟩
        all_goals sorry
      · sorry
    · exact absurd hz hzq
    · sorry

end WaVerif.C13RB
