import WaVerif.Lemmas.C05
/-! Helper lemmas for C05: functions (header + flat body) and the module. -/
namespace WaVerif.C05

/-! ## function body -/

theorem groupBody_args (args rest : List SExp) (a0 : List SExp) (is0 : List Instr)
    (hargs : ∀ a ∈ args, a.isOp = false) (h : groupBody rest = some (a0, is0)) :
    groupBody (args ++ rest) = some (args ++ a0, is0) := by
  induction args with
  | nil => simpa using h
  | cons x xs ih =>
    have hx : x.isOp = false := hargs x List.mem_cons_self
    have ih' := ih (fun a ha => hargs a (List.mem_cons_of_mem _ ha))
    simp only [List.cons_append, groupBody, ih']
    cases x with
    | list l => rfl
    | atom a =>
      cases a <;> first | rfl | (simp [SExp.isOp] at hx)

theorem groupBody_bodyS (body : List Instr) (h : ∀ i ∈ body, i.WF) : groupBody (bodyS body) = some ([], body) := by
  induction body with
  | nil => rfl
  | cons i is ih =>
    have ih' := ih (fun j hj => h j (List.mem_cons_of_mem _ hj))
    have hi : i.WF := h i List.mem_cons_self
    have := groupBody_args i.args (bodyS is) [] is hi ih'
    simp only [bodyS, Instr.toL, List.cons_append, groupBody, this, List.append_nil]

theorem bodyOf_bodyS (body : List Instr) (h : ∀ i ∈ body, i.WF) : bodyOf (bodyS body) = some body := by
  simp [bodyOf, groupBody_bodyS body h]

theorem splitAtOp_append (hs b : List SExp) (hh : ∀ x ∈ hs, x.isOp = false)
    (hb : b = [] ∨ ∃ s r, b = .atom (.op s) :: r) : splitAtOp (hs ++ b) = (hs, b) := by
  induction hs with
  | nil =>
    rcases hb with rfl | ⟨s, r, rfl⟩
    · rfl
    · simp [splitAtOp, SExp.isOp]
  | cons x xs ih =>
    have hx : x.isOp = false := hh x List.mem_cons_self
    have ih' := ih (fun a ha => hh a (List.mem_cons_of_mem _ ha))
    simp [splitAtOp, hx, ih']

theorem bodyS_head (body : List Instr) : bodyS body = [] ∨ ∃ s r, bodyS body = .atom (.op s) :: r := by
  cases body with
  | nil => exact Or.inl rfl
  | cons i is => exact Or.inr ⟨i.op, i.args ++ bodyS is, rfl⟩

/-! ## function header -/

theorem Field.ofArgs_args (f : Field) : Field.ofArgs (optName f.name ++ [f.ty.toS]) = some f := by
  obtain ⟨n, t⟩ := f
  cases n with
  | none => simp [optName, Field.ofArgs, ValTy.toS, ValTy.ofS]
  | some s => simp [optName, Field.ofArgs]

theorem FuncHdr.fold_params (ps : List Field) (a : FuncHdr) :
    foldFields FuncHdr.step (ps.map (Field.toS "param")) a = some { a with params := ps ++ a.params } := by
  rw [foldFields_map FuncHdr.step _ (fun t a => { a with params := t :: a.params })]
  · congr 1
    induction ps with
    | nil => rfl
    | cons p ps ih => simp [List.foldr, ih]
  · intro x _ a
    simp [FuncHdr.step, Field.toS, Field.ofArgs_args]

theorem FuncHdr.fold_locals (ps : List Field) (a : FuncHdr) :
    foldFields FuncHdr.step (ps.map (Field.toS "local")) a = some { a with locals := ps ++ a.locals } := by
  rw [foldFields_map FuncHdr.step _ (fun t a => { a with locals := t :: a.locals })]
  · congr 1
    induction ps with
    | nil => rfl
    | cons p ps ih => simp [List.foldr, ih]
  · intro x _ a
    simp [FuncHdr.step, Field.toS, Field.ofArgs_args]

theorem FuncHdr.fold_results (rs : List ValTy) (a : FuncHdr) (h : a.results = []) :
    foldFields FuncHdr.step (resultsS rs) a = some { a with results := rs } := by
  cases rs with
  | nil => cases a; simp_all [resultsS, foldFields]
  | cons r rs =>
    have := mapOpt_map ValTy.ofS ValTy.toS ValTy.ofS_toS (r :: rs)
    simp only [List.map_cons] at this
    simp [resultsS, foldFields, FuncHdr.step, h, this]

theorem FuncHdr.fold_exp (e : Option (List Nat)) (a : FuncHdr) (h : a.exp = none) :
    foldFields FuncHdr.step (expS e) a = some { a with exp := e } := by
  cases e with
  | none => cases a; simp_all [expS, foldFields]
  | some n => simp [expS, foldFields, FuncHdr.step, h]

theorem Func.header_fold (f : Func) :
    foldFields FuncHdr.step f.header ⟨none, [], [], []⟩ = some ⟨f.exp, f.params, f.results, f.locals⟩ := by
  simp [Func.header, foldFields_append, FuncHdr.fold_locals, FuncHdr.fold_results, FuncHdr.fold_params, FuncHdr.fold_exp]

theorem Func.header_noOp (f : Func) : ∀ x ∈ f.header, x.isOp = false := by
  intro x hx
  simp only [Func.header, List.mem_append, List.mem_map] at hx
  rcases hx with hx | ⟨p, _, rfl⟩ | hx | ⟨p, _, rfl⟩
  · cases he : f.exp <;> simp [he, expS] at hx
    subst hx; rfl
  · rfl
  · cases hr : f.results <;> simp [hr, resultsS] at hx
    subst hx; rfl
  · rfl

theorem Func.ofArgs_args (f : Func) (h : f.WF) : Func.ofArgs f.args = some f := by
  have hs := splitAtOp_append f.header (bodyS f.body) f.header_noOp (bodyS_head f.body)
  simp only [Func.ofArgs, Func.args, hs, Func.header_fold, bodyOf_bodyS f.body h]

/-! ## module -/

theorem AllLists.append {a b : List SExp} (ha : AllLists a) (hb : AllLists b) : AllLists (a ++ b) := by
  intro x hx
  rcases List.mem_append.mp hx with h | h
  · exact ha x h
  · exact hb x h

theorem AllLists.map {α : Type} (l : List α) (g : α → List SExp) : AllLists (l.map (fun x => L (g x))) := by
  intro x hx
  obtain ⟨y, _, rfl⟩ := List.mem_map.mp hx
  exact ⟨_, rfl⟩

theorem AllLists.optS {α : Type} (k : String) (g : α → List SExp) (o : Option α) : AllLists (optS k g o) := by
  intro x hx
  cases o with
  | none => simp [WaVerif.C05.optS] at hx
  | some v =>
    simp [WaVerif.C05.optS] at hx
    exact ⟨_, hx⟩

theorem Module.fields_lists (m : Module) : AllLists m.fields := by
  unfold Module.fields
  repeat (first | apply AllLists.append | apply AllLists.map | apply AllLists.optS)

section folds
variable (a : Module)

theorem Module.fold_imports (l : List Import) :
    foldFields Module.step (l.map (fun x => L (K "import" :: x.args))) a = some { a with imports := l ++ a.imports } := by
  rw [foldFields_map Module.step _ (fun t a => { a with imports := t :: a.imports })]
  · congr 1
    induction l with
    | nil => rfl
    | cons p ps ih => simp [List.foldr, ih]
  · intro x _ a
    simp [Module.step, Import.ofArgs_args]

theorem Module.fold_exports (l : List Export) :
    foldFields Module.step (l.map (fun x => L (K "export" :: x.args))) a = some { a with exports := l ++ a.exports } := by
  rw [foldFields_map Module.step _ (fun t a => { a with exports := t :: a.exports })]
  · congr 1
    induction l with
    | nil => rfl
    | cons p ps ih => simp [List.foldr, ih]
  · intro x _ a
    simp [Module.step, Export.ofArgs_args]

theorem Module.fold_types (l : List TypeDef) :
    foldFields Module.step (l.map (fun x => L (K "type" :: x.args))) a = some { a with types := l ++ a.types } := by
  rw [foldFields_map Module.step _ (fun t a => { a with types := t :: a.types })]
  · congr 1
    induction l with
    | nil => rfl
    | cons p ps ih => simp [List.foldr, ih]
  · intro x _ a
    simp [Module.step, TypeDef.ofArgs_args]

theorem Module.fold_globals (l : List Global) :
    foldFields Module.step (l.map (fun x => L (K "global" :: x.args))) a = some { a with globals := l ++ a.globals } := by
  rw [foldFields_map Module.step _ (fun t a => { a with globals := t :: a.globals })]
  · congr 1
    induction l with
    | nil => rfl
    | cons p ps ih => simp [List.foldr, ih]
  · intro x _ a
    simp [Module.step, Global.ofArgs_args]

theorem Module.fold_funcs (l : List Func) (h : ∀ f ∈ l, f.WF) :
    foldFields Module.step (l.map (fun x => L (K "func" :: x.args))) a = some { a with funcs := l ++ a.funcs } := by
  rw [foldFields_map Module.step _ (fun t a => { a with funcs := t :: a.funcs })]
  · congr 1
    clear h
    induction l with
    | nil => rfl
    | cons p ps ih => simp [List.foldr, ih]
  · intro x hx a
    simp [Module.step, Func.ofArgs_args x (h x hx)]

theorem Module.fold_data (l : List Data) :
    foldFields Module.step (l.map (fun x => L (K "data" :: x.args))) a = some { a with data := l ++ a.data } := by
  rw [foldFields_map Module.step _ (fun t a => { a with data := t :: a.data })]
  · congr 1
    induction l with
    | nil => rfl
    | cons p ps ih => simp [List.foldr, ih]
  · intro x _ a
    simp [Module.step, Data.ofArgs_args]

theorem Module.fold_elems (l : List Elem) :
    foldFields Module.step (l.map (fun x => L (K "elem" :: x.args))) a = some { a with elems := l ++ a.elems } := by
  rw [foldFields_map Module.step _ (fun t a => { a with elems := t :: a.elems })]
  · congr 1
    induction l with
    | nil => rfl
    | cons p ps ih => simp [List.foldr, ih]
  · intro x _ a
    simp [Module.step, Elem.ofArgs_args]

theorem Module.fold_memory (o : Option Memory) (h : a.memory = none) :
    foldFields Module.step (optS "memory" Memory.args o) a = some { a with memory := o } := by
  cases o with
  | none => cases a; simp_all [optS, foldFields]
  | some x => simp [optS, foldFields, Module.step, h, Memory.ofArgs_args]

theorem Module.fold_table (o : Option Table) (h : a.table = none) :
    foldFields Module.step (optS "table" Table.args o) a = some { a with table := o } := by
  cases o with
  | none => cases a; simp_all [optS, foldFields]
  | some x => simp [optS, foldFields, Module.step, h, Table.ofArgs_args]

theorem Module.fold_start (o : Option Idx) (h : a.start = none) :
    foldFields Module.step (optS "start" (fun i => [Idx.toS i]) o) a = some { a with start := o } := by
  cases o with
  | none => cases a; simp_all [optS, foldFields]
  | some x => simp [optS, foldFields, Module.step, h]

end folds

theorem Module.ofS_toS (m : Module) (h : m.WF) : Module.ofS m.toS = some m := by
  obtain ⟨name, imports, exports, memory, table, types, globals, funcs, start, data, elems⟩ := m
  have hl := Module.fields_lists ⟨name, imports, exports, memory, table, types, globals, funcs, start, data, elems⟩
  have hw : ∀ f ∈ funcs, f.WF := h
  simp only [Module.ofS, Module.toS, if_true]
  rw [popName_optName _ _ hl]
  simp only [Module.fields, foldFields_append, Module.fold_elems, Module.fold_data, Option.bind_some]
  rw [Module.fold_start _ _ rfl]
  simp only [Option.bind_some]
  rw [Module.fold_funcs _ _ hw]
  simp only [Option.bind_some, Module.fold_globals, Module.fold_types]
  rw [Module.fold_table _ _ rfl]
  simp only [Option.bind_some]
  rw [Module.fold_memory _ _ rfl]
  simp [Module.fold_exports, Module.fold_imports, Module.empty]

end WaVerif.C05
