import WaVerif.Model.C10Wat
/-! # C10 — rewrite rules for symbolic execution of the WAT-subset interpreter (all by `rfl`) -/
namespace WaVerif.C10.Wat

/-! The rules are stated by `Eq.trans rfl rfl`, not `rfl`, on purpose: `simp` would use `rfl`-lemmas as definitional
(`dsimp`) steps, and the kernel would then have to re-check whole goals by evaluation of the interpreter. -/
variable (fs : List Func) (gl : String → Int) (f : Nat) (l st : List Int)

theorem seqK_next (s : St) (k : St → Option (Ctl × St)) : seqK (some (.next, s)) k = k s := Eq.trans rfl rfl
theorem seqK_ret (s : St) (k : St → Option (Ctl × St)) : seqK (some (.returned, s)) k = some (.returned, s) := Eq.trans rfl rfl
theorem seqK_none (k : St → Option (Ctl × St)) : seqK none k = none := Eq.trans rfl rfl

theorem run_nil (s : St) : run fs gl (f + 1) [] s = some (.next, s) := Eq.trans rfl rfl
theorem run_cons (i : Instr) (rest : List Instr) (s : St) :
    run fs gl (f + 1) (i :: rest) s = seqK (step fs gl f i s) (run fs gl f rest) := Eq.trans rfl rfl

theorem step_localGet (k : Nat) : step fs gl (f + 1) (.localGet k) ⟨l, st⟩ = some (.next, ⟨l, l.getD k 0 :: st⟩) := Eq.trans rfl rfl
theorem step_localSet (k : Nat) (v : Int) : step fs gl (f + 1) (.localSet k) ⟨l, v :: st⟩ = some (.next, ⟨l.set k v, st⟩) := Eq.trans rfl rfl
theorem step_localTee (k : Nat) (v : Int) : step fs gl (f + 1) (.localTee k) ⟨l, v :: st⟩ = some (.next, ⟨l.set k v, v :: st⟩) := Eq.trans rfl rfl
theorem step_globalGet (g : String) : step fs gl (f + 1) (.globalGet g) ⟨l, st⟩ = some (.next, ⟨l, gl g :: st⟩) := Eq.trans rfl rfl
theorem step_const (v : Int) : step fs gl (f + 1) (.i32Const v) ⟨l, st⟩ = some (.next, ⟨l, wrap32 v :: st⟩) := Eq.trans rfl rfl
theorem step_add (a b : Int) : step fs gl (f + 1) .i32Add ⟨l, b :: a :: st⟩ = some (.next, ⟨l, wrap32 (a + b) :: st⟩) := Eq.trans rfl rfl
theorem step_sub (a b : Int) : step fs gl (f + 1) .i32Sub ⟨l, b :: a :: st⟩ = some (.next, ⟨l, wrap32 (a - b) :: st⟩) := Eq.trans rfl rfl
theorem step_mul (a b : Int) : step fs gl (f + 1) .i32Mul ⟨l, b :: a :: st⟩ = some (.next, ⟨l, wrap32 (a * b) :: st⟩) := Eq.trans rfl rfl
theorem step_divS (a b : Int) : step fs gl (f + 1) .i32DivS ⟨l, b :: a :: st⟩ =
    (divS a b).map fun r => (.next, ⟨l, r :: st⟩) := Eq.trans rfl rfl
theorem step_remS (a b : Int) : step fs gl (f + 1) .i32RemS ⟨l, b :: a :: st⟩ =
    (remS a b).map fun r => (.next, ⟨l, r :: st⟩) := Eq.trans rfl rfl
theorem step_leS (a b : Int) : step fs gl (f + 1) .i32LeS ⟨l, b :: a :: st⟩ = some (.next, ⟨l, b2i (decide (a ≤ b)) :: st⟩) := Eq.trans rfl rfl
theorem step_ltS (a b : Int) : step fs gl (f + 1) .i32LtS ⟨l, b :: a :: st⟩ = some (.next, ⟨l, b2i (decide (a < b)) :: st⟩) := Eq.trans rfl rfl
theorem step_gtS (a b : Int) : step fs gl (f + 1) .i32GtS ⟨l, b :: a :: st⟩ = some (.next, ⟨l, b2i (decide (a > b)) :: st⟩) := Eq.trans rfl rfl
theorem step_geS (a b : Int) : step fs gl (f + 1) .i32GeS ⟨l, b :: a :: st⟩ = some (.next, ⟨l, b2i (decide (a ≥ b)) :: st⟩) := Eq.trans rfl rfl
theorem step_eq (a b : Int) : step fs gl (f + 1) .i32Eq ⟨l, b :: a :: st⟩ = some (.next, ⟨l, b2i (decide (a = b)) :: st⟩) := Eq.trans rfl rfl
theorem step_ne (a b : Int) : step fs gl (f + 1) .i32Ne ⟨l, b :: a :: st⟩ = some (.next, ⟨l, b2i (decide (a ≠ b)) :: st⟩) := Eq.trans rfl rfl
theorem step_eqz (a : Int) : step fs gl (f + 1) .i32Eqz ⟨l, a :: st⟩ = some (.next, ⟨l, b2i (decide (a = 0)) :: st⟩) := Eq.trans rfl rfl
theorem step_drop (a : Int) : step fs gl (f + 1) .drop ⟨l, a :: st⟩ = some (.next, ⟨l, st⟩) := Eq.trans rfl rfl
theorem step_unreachable (s : St) : step fs gl (f + 1) .unreachable s = none := by
  unfold step; split <;> simp_all
theorem step_ret (s : St) : step fs gl (f + 1) .ret s = some (.returned, s) := by
  unfold step; split <;> simp_all
theorem step_if (t e : List Instr) (c : Int) : step fs gl (f + 1) (.ifElse t e) ⟨l, c :: st⟩ =
    if c ≠ 0 then run fs gl f t ⟨l, st⟩ else run fs gl f e ⟨l, st⟩ := Eq.trans rfl rfl
theorem step_block (b : List Instr) (s : St) : step fs gl (f + 1) (.block b) s = run fs gl f b s := by
  unfold step; split <;> simp_all
theorem step_call (name : String) (fn : Func) (s : St) (h : findFunc fs name = some fn) (hp : fn.params ≤ s.stack.length) :
    step fs gl (f + 1) (.call name) s =
      callRet fn s (run fs gl f fn.body ⟨(s.stack.take fn.params).reverse ++ List.replicate fn.locals 0, []⟩) := by
  have : ¬ s.stack.length < fn.params := by omega
  unfold step
  split <;> simp_all
  intro h'; omega

/-- entering a function from outside: look it up, run its body, collect the results -/
theorem callFuel_run (name : String) (fn : Func) (args : List Int) (h : findFunc fs name = some fn)
    (hp : fn.params ≤ args.length) :
    callFuel fs gl (f + 1) name args =
      (callRet fn ⟨[], args.reverse⟩ (run fs gl f fn.body
        ⟨(args.reverse.take fn.params).reverse ++ List.replicate fn.locals 0, []⟩)).map
        (fun r => (r.2.stack.take fn.results).reverse) := by
  unfold callFuel
  rw [h, step_call fs gl f name fn _ h (by simpa using hp)]
  rfl

theorem ite_true_nr {α : Type} (a b : α) : (if True then a else b) = a := if_pos trivial
theorem ite_false_nr {α : Type} (a b : α) : (if False then a else b) = b := if_neg not_false

theorem callRet_some (fn : Func) (s : St) (c : Ctl) (s' : St) (h : fn.results ≤ s'.stack.length) :
    callRet fn s (some (c, s')) = some (.next, ⟨s.locals, s'.stack.take fn.results ++ s.stack.drop fn.params⟩) := by
  have : ¬ s'.stack.length < fn.results := by omega
  simp [callRet, this]

theorem b2i_true_ne (p : Prop) [Decidable p] : (b2i (decide p) ≠ 0) = p := by
  by_cases h : p <;> simp [b2i, h]

end WaVerif.C10.Wat

namespace WaVerif.C10.Wat

theorem wrap32_small (x : Int) (h1 : -2147483648 ≤ x) (h2 : x < 2147483648) : wrap32 x = x := by
  unfold wrap32; omega

theorem divS_pos (a b : Int) (ha : 0 ≤ a) (hb : 0 < b) : divS a b = some (wrap32 (a / b)) := by
  unfold divS
  have h1 : b ≠ 0 := by omega
  have h2 : ¬ (a = -2147483648 ∧ b = -1) := by omega
  simp [h1, h2, Int.tdiv_eq_ediv_of_nonneg ha]

theorem remS_pos (a b : Int) (ha : 0 ≤ a) (hb : 0 < b) : remS a b = some (wrap32 (a % b)) := by
  unfold remS
  have h1 : b ≠ 0 := by omega
  simp [h1, Int.tmod_eq_emod_of_nonneg ha]

theorem b2i_ne_zero_iff (p : Prop) [Decidable p] : b2i (decide p) ≠ 0 ↔ p := by
  by_cases h : p <;> simp [b2i, h]

end WaVerif.C10.Wat
