import WaVerif.Lemmas.C24
/-!
# C24 — what every string of the reference grammar looks like
(non-empty, no bad character, balanced parentheses, every `!` directly followed by `(` or a tag)
-/
namespace WaVerif.C24

/-- parenthesis depth after scanning `w` from depth `d`; `none` if it would go below zero -/
def depthScan : Nat → List Tok → Option Nat
  | d, [] => some d
  | d, .lp :: r => depthScan (d + 1) r
  | d, .rp :: r => if d = 0 then none else depthScan (d - 1) r
  | d, _ :: r => depthScan d r

def Balanced (w : List Tok) : Prop := depthScan 0 w = some 0

theorem depthScan_append (a b : List Tok) : ∀ d, depthScan d (a ++ b) = (depthScan d a).bind (fun d' => depthScan d' b) := by
  induction a with
  | nil => intro d; simp [depthScan]
  | cons x r ih =>
    intro d
    cases x <;> simp only [List.cons_append, depthScan, ih]
    split <;> simp

theorem D_depth {nt w e} (h : D nt w e) : ∀ d, depthScan d w = some d := by
  induction h with
  | or _ _ ih1 ih2 => intro d; rw [depthScan_append, ih1]; simp [ih2]
  | orNil => intro d; rfl
  | orCons _ _ ih1 ih2 => intro d; simp only [depthScan]; rw [depthScan_append, ih1]; simp [ih2]
  | and _ _ ih1 ih2 => intro d; rw [depthScan_append, ih1]; simp [ih2]
  | andNil => intro d; rfl
  | andCons _ _ ih1 ih2 => intro d; simp only [depthScan]; rw [depthScan_append, ih1]; simp [ih2]
  | notPos _ ih => exact ih
  | notNeg _ ih => intro d; simp only [depthScan]; exact ih d
  | tag => intro d; rfl
  | paren _ ih => intro d; simp only [depthScan]; rw [depthScan_append, ih]; simp [depthScan]

theorem D_no_bad {nt w e} (h : D nt w e) : ∀ ch, Tok.bad ch ∉ w := by
  induction h with
  | or _ _ ih1 ih2 => intro ch; simp [ih1 ch, ih2 ch]
  | orNil => simp
  | orCons _ _ ih1 ih2 => intro ch; simp [ih1 ch, ih2 ch]
  | and _ _ ih1 ih2 => intro ch; simp [ih1 ch, ih2 ch]
  | andNil => simp
  | andCons _ _ ih1 ih2 => intro ch; simp [ih1 ch, ih2 ch]
  | notPos _ ih => exact ih
  | notNeg _ ih => intro ch; simp [ih ch]
  | tag => simp
  | paren _ ih => intro ch; simp [ih ch]

theorem D_ne_nil {nt w e} (h : D nt w e) (hnt : entersLexed nt = false ∨ nt = .atom) : w ≠ [] := by
  induction h with
  | or d1 _ ih1 _ => simp [ih1 (Or.inl rfl)]
  | orNil => simp [entersLexed] at hnt
  | orCons => simp
  | and d1 _ ih1 _ => simp [ih1 (Or.inl rfl)]
  | andNil => simp [entersLexed] at hnt
  | andCons => simp
  | notPos _ ih => exact ih (Or.inr rfl)
  | notNeg => simp
  | tag => simp
  | paren => simp

/-- every `!` is directly followed by `(` or a tag -/
def startsAtom : List Tok → Bool
  | .lp :: _ => true
  | .tag _ :: _ => true
  | _ => false

def bangOK : List Tok → Bool
  | [] => true
  | .bang :: r => startsAtom r && bangOK r
  | _ :: r => bangOK r

theorem startsAtom_append {a : List Tok} (b : List Tok) (h : startsAtom a = true) : startsAtom (a ++ b) = true := by
  cases a with
  | nil => simp [startsAtom] at h
  | cons x r => cases x <;> simp_all [startsAtom]

theorem bangOK_append {a b : List Tok} (ha : bangOK a = true) (hb : bangOK b = true) : bangOK (a ++ b) = true := by
  induction a with
  | nil => simpa using hb
  | cons x r ih =>
    cases x <;> simp_all [bangOK]
    exact startsAtom_append b ha.1

theorem bangOK_double (pre post : List Tok) : bangOK (pre ++ .bang :: .bang :: post) = false := by
  induction pre with
  | nil => simp [bangOK, startsAtom]
  | cons x r ih => cases x <;> simp_all [bangOK]

theorem D_bangOK {nt w e} (h : D nt w e) : bangOK w = true := by
  induction h with
  | or _ _ ih1 ih2 => exact bangOK_append ih1 ih2
  | orNil => rfl
  | orCons _ _ ih1 ih2 => simp only [bangOK]; exact bangOK_append ih1 ih2
  | and _ _ ih1 ih2 => exact bangOK_append ih1 ih2
  | andNil => rfl
  | andCons _ _ ih1 ih2 => simp only [bangOK]; exact bangOK_append ih1 ih2
  | @notPos t x d ih => exact ih
  | @notNeg t x d ih =>
    simp only [bangOK, ih, Bool.and_true]
    have hne := atom_ne_nil d
    obtain ⟨a, r, rfl⟩ := List.exists_cons_of_ne_nil hne
    rcases atom_head d a r rfl with rfl | ⟨s, rfl⟩ <;> rfl
  | tag => rfl
  | paren _ ih => simp only [bangOK]; exact bangOK_append ih rfl

end WaVerif.C24
