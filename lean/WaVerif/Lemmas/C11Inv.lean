import WaVerif.Lemmas.C11Sum
/-! `Inv` is preserved by every step of the release machine and by every disciplined mutator operation. -/
namespace WaVerif.C11

/-! ### heapRefs under point updates -/

theorem heapRefs_setBlk {s : St} {x : Addr} {nb : Blk} (b : Addr) (hn : s.live.Nodup) (hx : x ∈ s.live) :
    heapRefs (s.setBlk x nb) b + (s.blk x).kids.count b = heapRefs s b + nb.kids.count b := by
  unfold heapRefs St.setBlk
  simp only
  have hcongr : (s.live.map fun a => (if a = x then nb else s.blk a).kids.count b).sum
      = (s.live.map fun a => if a = x then nb.kids.count b else (s.blk a).kids.count b).sum := by
    apply sum_map_congr
    intro a _
    by_cases h : a = x <;> simp [h]
  rw [hcongr]
  exact sum_map_update (f := fun a => (s.blk a).kids.count b) hn hx

theorem heapRefs_setBlk_notin {s : St} {x : Addr} {nb : Blk} (b : Addr) (hx : x ∉ s.live) :
    heapRefs (s.setBlk x nb) b = heapRefs s b := by
  unfold heapRefs St.setBlk
  simp only
  apply sum_map_congr
  intro a ha
  have : a ≠ x := fun e => hx (e ▸ ha)
  simp [this]

theorem heapRefs_samekids {s : St} {x : Addr} {nb : Blk} (b : Addr) (hk : nb.kids = (s.blk x).kids) :
    heapRefs (s.setBlk x nb) b = heapRefs s b := by
  unfold heapRefs St.setBlk
  simp only
  apply sum_map_congr
  intro a _
  by_cases h : a = x
  · subst h; simp [hk]
  · simp [h]

@[simp] theorem pendRefs_nil (b : Addr) : pendRefs [] b = 0 := rfl
@[simp] theorem pendRefs_cons (f : Frame) (stk : List Frame) (b : Addr) :
    pendRefs (f :: stk) b = f.rem.count b + pendRefs stk b := by simp [pendRefs]
@[simp] theorem dying_nil : dying [] = [] := rfl
@[simp] theorem dying_cons_none (r : List Addr) (stk : List Frame) : dying (⟨none, r⟩ :: stk) = dying stk := by
  simp [dying]
@[simp] theorem dying_cons_some (a : Addr) (r : List Addr) (stk : List Frame) :
    dying (⟨some a, r⟩ :: stk) = a :: dying stk := by
  simp [dying]

theorem count_cons_ite (k b : Addr) (l : List Addr) : (k :: l).count b = l.count b + (if k = b then 1 else 0) := by
  rw [List.count_cons]
  by_cases h : k = b <;> simp [h]

/-- a block with a reference to it is allocated and not being destroyed -/
theorem Inv.live_of_refs {c : Cfg} (h : Inv c) {b : Addr} (hr : 0 < refsC c b) :
    b ∈ c.st.live ∧ b ∉ dying c.stk := by
  refine ⟨?_, ?_⟩
  · apply Classical.byContradiction
    intro hb
    have := h.noDangling b (Or.inl hb); omega
  · intro hb
    have := h.noDangling b (Or.inr hb); omega

/-! ### the release machine -/

/-- popping a reference `k` off the top frame and entering `Block.Release k` -/
theorem inv_decr {st : St} {o : Option Addr} {k : Addr} {ks : List Addr} {rest : List Frame}
    (h : Inv ⟨st, ⟨o, k :: ks⟩ :: rest⟩) : Inv (decr k ⟨st, ⟨o, ks⟩ :: rest⟩) := by
  have hdy : dying (⟨o, k :: ks⟩ :: rest) = dying (⟨o, ks⟩ :: rest) := by cases o <;> simp
  -- refs before = refs after the pop + [k = b]
  have hrefs : ∀ b, refsC ⟨st, ⟨o, k :: ks⟩ :: rest⟩ b = refsC ⟨st, ⟨o, ks⟩ :: rest⟩ b + (if k = b then 1 else 0) := by
    intro b
    simp only [refsC, pendRefs_cons, count_cons_ite]
    omega
  have hkpos : 0 < refsC ⟨st, ⟨o, k :: ks⟩ :: rest⟩ k := by rw [hrefs k]; simp
  obtain ⟨hklive, hkdy⟩ := h.live_of_refs hkpos
  simp only at hklive
  obtain ⟨hkrc, hk1⟩ := h.counted k hklive hkdy
  simp only at hkrc hk1
  have hkrc' : (st.blk k).rc = refsC ⟨st, ⟨o, ks⟩ :: rest⟩ k + 1 := by rw [hkrc, hrefs k]; simp
  unfold decr
  simp only [hklive, if_true]
  by_cases h1 : (st.blk k).rc = 1
  · simp only [h1, if_true]
    have hk0 : refsC ⟨st, ⟨o, ks⟩ :: rest⟩ k = 0 := by omega
    -- references are only moved from the heap into the new frame
    have hmove : ∀ b, refsC ⟨(st.setBlk k ⟨0, []⟩).emit (.release k 1), ⟨some k, (st.blk k).kids⟩ :: ⟨o, ks⟩ :: rest⟩ b
        = refsC ⟨st, ⟨o, ks⟩ :: rest⟩ b := by
      intro b
      have := heapRefs_setBlk (s := st) (x := k) (nb := ⟨0, []⟩) b h.nodup hklive
      simp only [List.count_nil] at this
      simp only [refsC, pendRefs_cons, St.emit]
      have e1 : heapRefs { (st.setBlk k ⟨0, []⟩) with log := Ev.release k 1 :: (st.setBlk k ⟨0, []⟩).log } b
          = heapRefs (st.setBlk k ⟨0, []⟩) b := rfl
      have e2 : ({ (st.setBlk k ⟨0, []⟩) with log := Ev.release k 1 :: (st.setBlk k ⟨0, []⟩).log } : St).roots = st.roots := rfl
      rw [e1, e2]
      omega
    constructor
    · exact h.nodup
    · exact h.noerr
    · simp only [dying_cons_some]
      rw [← hdy]
      exact List.nodup_cons.mpr ⟨hkdy, h.dyNodup⟩
    · intro b hb
      simp only [dying_cons_some] at hb
      rw [← hdy] at hb
      rcases List.mem_cons.mp hb with e | hb'
      · subst e
        exact ⟨hklive, by simp [St.emit, St.setBlk]⟩
      · have hne : b ≠ k := fun e => hkdy (e ▸ hb')
        have := h.dyLive b hb'
        exact ⟨this.1, by simpa [St.emit, St.setBlk, hne] using this.2⟩
    · intro b hb hnd
      simp only [dying_cons_some] at hnd
      rw [← hdy] at hnd
      have hne : b ≠ k := fun e => hnd (e ▸ List.mem_cons_self)
      have hnd' : b ∉ dying (⟨o, k :: ks⟩ :: rest) := fun hh => hnd (List.mem_cons_of_mem _ hh)
      have hc := h.counted b hb hnd'
      simp only at hc
      rw [hmove b]
      have hb' : ((st.setBlk k ⟨0, []⟩).emit (.release k 1)).blk b = st.blk b := by simp [St.emit, St.setBlk, hne]
      simp only [hb']
      have := hrefs b
      have hkb : ¬ k = b := fun e => hne e.symm
      simp only [hkb, if_false] at this
      omega
    · intro b hb
      rw [hmove b]
      simp only [dying_cons_some] at hb
      rw [← hdy] at hb
      by_cases hbk : b = k
      · subst hbk; exact hk0
      · have hor : b ∉ st.live ∨ b ∈ dying (⟨o, k :: ks⟩ :: rest) := by
          rcases hb with hb | hb
          · exact Or.inl hb
          · rcases List.mem_cons.mp hb with e | hb'
            · exact absurd e hbk
            · exact Or.inr hb'
        have := h.noDangling b hor
        have hr := hrefs b
        omega
  · simp only [h1, if_false]
    have h0 : ¬ (st.blk k).rc = 0 := by omega
    simp only [h0, if_false]
    have hsame : ∀ b, refsC ⟨(st.setBlk k ⟨(st.blk k).rc - 1, (st.blk k).kids⟩).emit (.release k (st.blk k).rc), ⟨o, ks⟩ :: rest⟩ b
        = refsC ⟨st, ⟨o, ks⟩ :: rest⟩ b := by
      intro b
      have := heapRefs_samekids (s := st) (x := k) (nb := ⟨(st.blk k).rc - 1, (st.blk k).kids⟩) b rfl
      simp only [refsC, St.emit]
      have e1 : heapRefs { (st.setBlk k ⟨(st.blk k).rc - 1, (st.blk k).kids⟩) with
          log := Ev.release k (st.blk k).rc :: (st.setBlk k ⟨(st.blk k).rc - 1, (st.blk k).kids⟩).log } b
          = heapRefs (st.setBlk k ⟨(st.blk k).rc - 1, (st.blk k).kids⟩) b := rfl
      rw [e1, this]
      rfl
    constructor
    · exact h.nodup
    · exact h.noerr
    · rw [← hdy]; exact h.dyNodup
    · intro b hb
      rw [← hdy] at hb
      have hne : b ≠ k := fun e => hkdy (e ▸ hb)
      have := h.dyLive b hb
      exact ⟨this.1, by simpa [St.emit, St.setBlk, hne] using this.2⟩
    · intro b hb hnd
      rw [← hdy] at hnd
      rw [hsame b]
      by_cases hbk : b = k
      · subst hbk
        simp [St.emit, St.setBlk]
        omega
      · have hc := h.counted b hb hnd
        simp only at hc
        have hb' : ((st.setBlk k ⟨(st.blk k).rc - 1, (st.blk k).kids⟩).emit (.release k (st.blk k).rc)).blk b = st.blk b := by
          simp [St.emit, St.setBlk, hbk]
        simp only [hb']
        have := hrefs b
        have hkb : ¬ k = b := fun e => hbk e.symm
        simp only [hkb, if_false] at this
        omega
    · intro b hb
      rw [hsame b]
      rw [← hdy] at hb
      have := h.noDangling b hb
      have hr := hrefs b
      omega

theorem inv_step {c : Cfg} (h : Inv c) : Inv (step c) := by
  obtain ⟨st, stk⟩ := c
  unfold step
  match stk, h with
  | [], h => exact h
  | ⟨none, []⟩ :: rest, h =>
    simp only
    constructor
    · exact h.nodup
    · exact h.noerr
    · simpa using h.dyNodup
    · intro b hb; exact h.dyLive b (by simpa using hb)
    · intro b hb hnd
      have := h.counted b hb (by simpa using hnd)
      simpa [refsC] using this
    · intro b hb
      have := h.noDangling b (by simpa using hb)
      simpa [refsC] using this
  | ⟨some b0, []⟩ :: rest, h =>
    simp only
    have hdn := h.dyNodup
    simp only [dying_cons_some] at hdn
    have hb0 := h.dyLive b0 (by simp)
    simp only at hb0
    have hb0live := hb0.1
    have hfree : st.free b0 = { st with live := st.live.erase b0, log := Ev.free b0 :: st.log } := by
      unfold St.free; simp [hb0live]
    rw [hfree]
    have hheap : ∀ b, heapRefs { st with live := st.live.erase b0, log := Ev.free b0 :: st.log } b = heapRefs st b := by
      intro b
      unfold heapRefs
      simp only
      have := sum_map_erase (l := st.live) (f := fun a => (st.blk a).kids.count b) hb0live
      simp only [hb0.2, List.count_nil] at this
      omega
    have hrefs : ∀ b, refsC ⟨{ st with live := st.live.erase b0, log := Ev.free b0 :: st.log }, rest⟩ b
        = refsC ⟨st, ⟨some b0, []⟩ :: rest⟩ b := by
      intro b
      simp only [refsC, pendRefs_cons, List.count_nil, hheap b]
      omega
    constructor
    · exact h.nodup.erase b0
    · exact h.noerr
    · exact (List.nodup_cons.mp hdn).2
    · intro b hb
      have hne : b ≠ b0 := fun e => (List.nodup_cons.mp hdn).1 (e ▸ hb)
      have := h.dyLive b (by simp [hb])
      exact ⟨(List.mem_erase_of_ne hne).mpr this.1, this.2⟩
    · intro b hb hnd
      simp only at hb
      have hbl : b ∈ st.live := List.mem_of_mem_erase hb
      have hne : b ≠ b0 := fun e => by
        subst e
        exact (List.Nodup.mem_erase_iff h.nodup).mp hb |>.1 rfl
      rw [hrefs b]
      exact h.counted b hbl (by simp only [dying_cons_some, List.mem_cons, not_or]; exact ⟨hne, hnd⟩)
    · intro b hb
      rw [hrefs b]
      simp only at hb
      apply h.noDangling b
      by_cases hbe : b = b0
      · subst hbe; exact Or.inr (by simp)
      · rcases hb with hb | hb
        · exact Or.inl (fun hl => hb ((List.mem_erase_of_ne hbe).mpr hl))
        · exact Or.inr (by simp [hb])
  | ⟨o, k :: ks⟩ :: rest, h =>
    simp only
    exact inv_decr h

theorem inv_run {c : Cfg} (h : Inv c) (n : Nat) : Inv (run n c) := by
  induction n generalizing c with
  | zero => exact h
  | succ n ih => exact ih (inv_step h)

theorem cfg_eta_nil (c : Cfg) (h : c.stk = []) : c = ⟨c.st, []⟩ := by
  cases c; simp only at h; subst h; rfl

/-- `release b` from a configuration in which the reference being released is the only pending one -/
theorem owned_release {s : St} {b : Addr} (h : Inv ⟨s, [⟨none, [b]⟩]⟩) : Owned (release b s) := by
  unfold release Owned
  simp only
  have hi := inv_run h (mu ⟨s, [⟨none, [b]⟩]⟩)
  have ht := run_terminates (mu ⟨s, [⟨none, [b]⟩]⟩) ⟨s, [⟨none, [b]⟩]⟩ (Nat.le_refl _)
  rw [cfg_eta_nil _ ht] at hi
  exact hi

end WaVerif.C11
