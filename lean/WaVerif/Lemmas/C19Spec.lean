import WaVerif.Model.C19
/-!
# C19 — helper lemmas: a generic "decoder loop meets the LEB128 specification" argument

`GoSpec G val lo W K` packages the per-byte-position facts about a decoder loop `G k ret bs`
(`k` bytes consumed so far, accumulator `ret`): what it does on a terminating byte, on a
continuation byte, and that it never accepts at position `≥ K`.  From these facts
`GoSpec.sound` and `GoSpec.complete` derive, by induction on the byte list, that `G` accepts
exactly the terminated sequences of at most `K - k` bytes whose exact value is in range.
The per-position facts for the four decoders are generated (`C19Dec.lean`).
-/
namespace WaVerif.C19

/-! ## basic facts on `valS`, `valU`, `Terminated` -/

theorem valS_cons2 (b b' : Nat) (t : List Nat) :
    valS (b :: b' :: t) = ((b % 128 : Nat) : Int) + 128 * valS (b' :: t) := by
  simp [valS]

theorem valU_cons2 (b b' : Nat) (t : List Nat) :
    ((valU (b :: b' :: t) : Nat) : Int) = ((b % 128 : Nat) : Int) + 128 * ((valU (b' :: t) : Nat) : Int) := by
  simp [valU]

theorem terminated_cons2 (b b' : Nat) (t : List Nat) :
    Terminated (b :: b' :: t) ↔ 128 ≤ b ∧ Terminated (b' :: t) := by
  simp [Terminated]

theorem terminated_ne_nil {bs : List Nat} (h : Terminated bs) : bs ≠ [] := by
  intro e; subst e; simp [Terminated] at h

/-- `Res Nat` read as `Res Int` (to treat the unsigned decoder with the same argument) -/
def liftU : Res Nat → Res Int
  | .ok (v, n) => .ok ((v : Int), n)
  | .error e => .error e

/-- the part of `decodeS33` after the loop -/
def fin33 : Except Err (Nat × Nat × Nat) → Res Int
  | .error e => .error e
  | .ok (ret, n, b) =>
    let shift := 7 * n
    let ret1 := if shift < 33 ∧ (b / 64) % 2 = 1 then (ret + (2 ^ 33 - 1) * 2 ^ shift) % 2 ^ 64 else ret
    let ret2 : Nat := ret1 % 2 ^ 33
    let v : Int := if ret2 ≥ 2 ^ 32 then (ret2 : Int) - 2 ^ 33 else (ret2 : Int)
    let unused := (b / 32) % 4
    if n > 5 then .error .overflow
    else if b ≥ 128 then .error .overflow
    else if n = 5 ∧ v < 0 ∧ unused ≠ 3 then .error .overflow
    else if n = 5 ∧ v ≥ 0 ∧ unused ≠ 0 then .error .overflow
    else .ok (v, n)

theorem decodeS33_eq_fin33 (bs : List Nat) : decodeS33 bs = fin33 (decS33loop 0 0 bs) := by
  unfold decodeS33
  cases decS33loop 0 0 bs with
  | error e => rfl
  | ok p => obtain ⟨r, n, b⟩ := p; rfl

/-! ## the generic argument -/

structure GoSpec (G : Nat → Nat → List Nat → Res Int) (val : List Nat → Int) (lo : Int) (W K : Nat) : Prop where
  hK : 7 * (K - 1) ≤ W
  hKpos : 1 ≤ K
  val_cons : ∀ b b' t, val (b :: b' :: t) = ((b % 128 : Nat) : Int) + 128 * val (b' :: t)
  nil : ∀ k ret v m, G k ret [] ≠ .ok (v, m)
  big : ∀ k, K ≤ k → ∀ ret bs v m, G k ret bs ≠ .ok (v, m)
  term : ∀ k, k < K → ∀ ret b rest, b < 128 → ret < 2 ^ (7 * k) →
    G k ret (b :: rest) =
      if lo * 2 ^ (W - 7 * k) ≤ val [b] ∧ val [b] < 2 ^ (W - 7 * k)
      then .ok ((ret : Int) + val [b] * 2 ^ (7 * k), k + 1) else .error .overflow
  step : ∀ k, k + 1 < K → ∀ ret b rest, ¬ b < 128 → ret < 2 ^ (7 * k) →
    G k ret (b :: rest) = G (k + 1) (ret + b % 128 * 2 ^ (7 * k)) rest
  last : ∀ ret b rest v m, ¬ b < 128 → G (K - 1) ret (b :: rest) ≠ .ok (v, m)

theorem acc_bound (k ret c : Nat) (hret : ret < 2 ^ (7 * k)) (hc : c < 128) :
    ret + c * 2 ^ (7 * k) < 2 ^ (7 * (k + 1)) := by
  have e : 2 ^ (7 * (k + 1)) = 128 * 2 ^ (7 * k) := by
    rw [show 7 * (k + 1) = 7 + 7 * k by omega, Nat.pow_add]
  have h : c * 2 ^ (7 * k) ≤ 127 * 2 ^ (7 * k) := Nat.mul_le_mul_right _ (by omega)
  rw [e]
  generalize c * 2 ^ (7 * k) = cp at h
  omega

/-- value bookkeeping of one continuation step -/
theorem acc_value (k ret c : Nat) (x : Int) :
    (((ret + c * 2 ^ (7 * k) : Nat) : Int)) + x * 2 ^ (7 * (k + 1))
      = (ret : Int) + ((c : Int) + 128 * x) * 2 ^ (7 * k) := by
  have e : (2 : Int) ^ (7 * (k + 1)) = 128 * 2 ^ (7 * k) := by
    rw [show 7 * (k + 1) = 7 + 7 * k by omega, Int.pow_add]; rfl
  rw [e]
  push_cast
  generalize (2 : Int) ^ (7 * k) = P
  grind

theorem range_pow (W k : Nat) (h : 7 * (k + 1) ≤ W) :
    (2 : Int) ^ (W - 7 * k) = 128 * 2 ^ (W - 7 * (k + 1)) := by
  rw [show W - 7 * k = 7 + (W - 7 * (k + 1)) by omega, Int.pow_add]; rfl

theorem GoSpec.sound {G val lo W K} (S : GoSpec G val lo W K) :
    ∀ bs k ret v m, ret < 2 ^ (7 * k) → G k ret bs = .ok (v, m) →
      ∃ j, m = k + j ∧ m ≤ K ∧ j ≤ bs.length ∧ Terminated (bs.take j) ∧
        lo * 2 ^ (W - 7 * k) ≤ val (bs.take j) ∧ val (bs.take j) < 2 ^ (W - 7 * k) ∧
        v = (ret : Int) + val (bs.take j) * 2 ^ (7 * k) := by
  intro bs
  induction bs with
  | nil => intro k ret v m _ h; exact absurd h (S.nil k ret v m)
  | cons b rest ih =>
    intro k ret v m hret h
    rcases Nat.lt_or_ge k K with hk | hk
    · by_cases hb : b < 128
      · rw [S.term k hk ret b rest hb hret] at h
        split at h
        · rename_i hr
          simp only [Except.ok.injEq, Prod.mk.injEq] at h
          obtain ⟨hv, hm⟩ := h
          refine ⟨1, hm.symm, by omega, by simp, ?_, ?_, ?_, ?_⟩
          · simpa [Terminated] using hb
          · simpa using hr.1
          · simpa using hr.2
          · simpa using hv.symm
        · cases h
      · by_cases hk1 : k + 1 < K
        · rw [S.step k hk1 ret b rest hb hret] at h
          have hc : b % 128 < 128 := Nat.mod_lt _ (by omega)
          obtain ⟨j, hm, hmK, hj, hT, hlo, hhi, hv⟩ :=
            ih (k + 1) _ v m (acc_bound k ret (b % 128) hret hc) h
          refine ⟨j + 1, by omega, hmK, by simp; omega, ?_⟩
          rw [List.take_succ_cons]
          cases ht : List.take j rest with
          | nil => rw [ht] at hT; simp [Terminated] at hT
          | cons b' t =>
            rw [ht] at hT hlo hhi hv
            rw [terminated_cons2, S.val_cons]
            rw [acc_value] at hv
            have e := range_pow W k (by have := S.hK; omega)
            rw [e]
            generalize val (b' :: t) = x at *
            generalize (2 : Int) ^ (W - 7 * (k + 1)) = Q at *
            have e2 : lo * (128 * Q) = 128 * (lo * Q) := by grind
            rw [e2]
            generalize lo * Q = A at *
            refine ⟨⟨by omega, hT⟩, by omega, by omega, hv⟩
        · have : k = K - 1 := by omega
          subst this
          exact absurd h (S.last ret b rest v m hb)
    · exact absurd h (S.big k hk ret _ v m)

theorem GoSpec.complete {G val lo W K} (S : GoSpec G val lo W K) :
    ∀ bs k ret j, ret < 2 ^ (7 * k) → k + j ≤ K → j ≤ bs.length → Terminated (bs.take j) →
      lo * 2 ^ (W - 7 * k) ≤ val (bs.take j) → val (bs.take j) < 2 ^ (W - 7 * k) →
      G k ret bs = .ok ((ret : Int) + val (bs.take j) * 2 ^ (7 * k), k + j) := by
  intro bs
  induction bs with
  | nil => intro k ret j _ _ _ hT; simp [Terminated] at hT
  | cons b rest ih =>
    intro k ret j hret hkj hjl hT hlo hhi
    cases j with
    | zero => simp [Terminated] at hT
    | succ j =>
      rw [List.take_succ_cons] at hT hlo hhi ⊢
      simp only [List.length_cons] at hjl
      cases ht : List.take j rest with
      | nil =>
        have hj0 : j = 0 := by
          have := congrArg List.length ht
          rw [List.length_take, List.length_nil] at this; omega
        subst hj0
        rw [ht] at hT hlo hhi
        have hb : b < 128 := by simpa [Terminated] using hT
        rw [S.term k (by omega) ret b rest hb hret, if_pos ⟨hlo, hhi⟩]
      | cons b' t =>
        have hj1 : 1 ≤ j := by
          cases j with
          | zero => simp at ht
          | succ j => omega
        rw [ht] at hT hlo hhi
        rw [terminated_cons2] at hT
        rw [S.val_cons] at hlo hhi ⊢
        have hb : ¬ b < 128 := by omega
        have hc : b % 128 < 128 := Nat.mod_lt _ (by omega)
        have e := range_pow W k (by have := S.hK; omega)
        rw [e] at hlo hhi
        rw [S.step k (by omega) ret b rest hb hret]
        have hrec := ih (k + 1) _ j (acc_bound k ret (b % 128) hret hc) (by omega) (by omega)
          (by rw [ht]; exact hT.2)
        rw [ht] at hrec
        have e2 : lo * (128 * 2 ^ (W - 7 * (k + 1))) = 128 * (lo * 2 ^ (W - 7 * (k + 1))) := by grind
        rw [e2] at hlo
        rw [hrec (by generalize lo * 2 ^ (W - 7 * (k + 1)) = A at *; omega) (by omega), acc_value]
        simp only [Except.ok.injEq, Prod.mk.injEq, true_and]
        omega

end WaVerif.C19
