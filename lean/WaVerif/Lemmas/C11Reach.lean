import WaVerif.Lemmas.C11Ops
/-! Reachability: under `Owned`, reachable blocks are allocated; on an acyclic heap every allocated block is reachable. -/
namespace WaVerif.C11

/-- reachability in `s`'s heap from an arbitrary root set -/
inductive ReachR (s : St) (R : List Addr) : Addr → Prop where
  | root {b} : b ∈ R → ReachR s R b
  | kid {x b} : ReachR s R x → x ∈ s.live → b ∈ (s.blk x).kids → ReachR s R b

theorem reach_iff_reachR {s : St} {b : Addr} : Reach s b ↔ ReachR s s.roots b := by
  constructor
  · intro h
    induction h with
    | root h => exact .root h
    | kid _ hx hb ih => exact .kid ih hx hb
  · intro h
    induction h with
    | root h => exact .root h
    | kid _ hx hb ih => exact .kid ih hx hb

theorem live_of_reach {s : St} (h : Owned s) {b : Addr} (hr : Reach s b) : b ∈ s.live := by
  induction hr with
  | root hb => exact h.root_live hb
  | kid _ hx hb _ => exact h.kid_live hx hb

theorem exists_of_sum_pos {l : List Addr} {f : Addr → Nat} (h : 0 < (l.map f).sum) : ∃ a ∈ l, 0 < f a := by
  induction l with
  | nil => simp at h
  | cons x xs ih =>
    simp only [List.map_cons, List.sum_cons] at h
    by_cases hx : 0 < f x
    · exact ⟨x, by simp, hx⟩
    · have : 0 < (xs.map f).sum := by omega
      obtain ⟨a, ha, hfa⟩ := ih this
      exact ⟨a, by simp [ha], hfa⟩

theorem exists_rank_bound (l : List Addr) (rank : Addr → Nat) : ∃ M, ∀ x ∈ l, rank x ≤ M := by
  induction l with
  | nil => exact ⟨0, by simp⟩
  | cons y ys ih =>
    obtain ⟨M, hM⟩ := ih
    refine ⟨max M (rank y), ?_⟩
    intro x hx
    rcases List.mem_cons.mp hx with e | e
    · subst e; exact Nat.le_max_right _ _
    · exact Nat.le_trans (hM x e) (Nat.le_max_left _ _)

/-- an allocated block has a positive count, hence a referrer: a root or an allocated block of higher rank -/
theorem referrer_of_live {s : St} (h : Owned s) {b : Addr} (hb : b ∈ s.live) :
    b ∈ s.roots ∨ ∃ x ∈ s.live, b ∈ (s.blk x).kids := by
  have hc := h.counted b hb (by simp)
  simp only [refsC, pendRefs_nil] at hc
  by_cases hr : 0 < s.roots.count b
  · exact Or.inl (List.count_pos_iff.mp hr)
  · right
    have : 0 < heapRefs s b := by omega
    obtain ⟨x, hx, hpos⟩ := exists_of_sum_pos this
    exact ⟨x, hx, List.count_pos_iff.mp hpos⟩

/-- on an acyclic heap reference counting leaves no unreachable block allocated -/
theorem reach_of_live {s : St} (h : Owned s) (hac : Acyclic s) {b : Addr} (hb : b ∈ s.live) : Reach s b := by
  obtain ⟨rank, hrank⟩ := hac
  obtain ⟨M, hM⟩ := exists_rank_bound s.live rank
  have key : ∀ n, ∀ b ∈ s.live, M - rank b ≤ n → Reach s b := by
    intro n
    induction n with
    | zero =>
      intro b hb hn
      rcases referrer_of_live h hb with hr | ⟨x, hx, hbx⟩
      · exact .root hr
      · have := hrank x hx b hbx
        have := hM x hx
        have := hM b hb
        omega
    | succ n ih =>
      intro b hb hn
      rcases referrer_of_live h hb with hr | ⟨x, hx, hbx⟩
      · exact .root hr
      · have h1 := hrank x hx b hbx
        have h2 := hM x hx
        exact .kid (ih x hx (by omega)) hx hbx
  exact key (M - rank b) b hb (Nat.le_refl _)

theorem live_iff_reach {s : St} (h : Owned s) (hac : Acyclic s) (b : Addr) : b ∈ s.live ↔ Reach s b :=
  ⟨reach_of_live h hac, live_of_reach h⟩

theorem acyclic_drop {s : St} {r : Addr} (h : Owned s) (hac : Acyclic s) (hr : r ∈ s.roots) :
    Acyclic (apply s (.drop r)) := by
  obtain ⟨rank, hrank⟩ := hac
  obtain ⟨_, hsub, hkids⟩ := drop_frame h hr
  refine ⟨rank, ?_⟩
  intro x hx k hk
  rw [hkids x hx] at hk
  exact hrank x (hsub x hx) k hk

/-- after dropping a held reference, reachability in the new heap is reachability in the OLD heap from the
remaining roots -/
theorem reach_drop_iff {s : St} {r : Addr} (h : Owned s) (hr : r ∈ s.roots) (b : Addr) :
    Reach (apply s (.drop r)) b ↔ ReachR s (s.roots.erase r) b := by
  obtain ⟨hroots, hsub, hkids⟩ := drop_frame h hr
  have ho := owned_drop h hr
  constructor
  · intro hb
    induction hb with
    | root hb => exact .root (hroots ▸ hb)
    | kid _ hx hb ih => exact .kid ih (hsub _ hx) (hkids _ hx ▸ hb)
  · intro hb
    induction hb with
    | root hb => exact .root (hroots ▸ hb)
    | kid _ _ hb ih =>
      have hx' := live_of_reach ho ih
      exact .kid ih hx' ((hkids _ hx').symm ▸ hb)

theorem length_eq_of_mem_iff {l₁ l₂ : List Addr} (h1 : l₁.Nodup) (h2 : l₂.Nodup) (h : ∀ a, a ∈ l₁ ↔ a ∈ l₂) :
    l₁.length = l₂.length :=
  ((List.perm_ext_iff_of_nodup h1 h2).mpr h).length_eq

theorem reach_of_sameRetained {s t : St} (hs : Owned s) (h : SameRetained s t) (b : Addr) : Reach t b ↔ Reach s b := by
  constructor
  · intro hb
    induction hb with
    | root hb => exact .root (h.rootsTo _ hb)
    | kid _ _ hb ih =>
      have hx := live_of_reach hs ih
      exact .kid ih hx ((h.kids _ hx).2 ▸ hb)
  · intro hb
    induction hb with
    | root hb => exact .root (h.rootsFrom _ hb)
    | kid _ hx hb ih => exact .kid ih (h.kids _ hx).1 ((h.kids _ hx).2.symm ▸ hb)

/-- two acyclic `Owned` states with the same retained structure have the same allocated set -/
theorem live_eq_of_sameRetained {s t : St} (hs : Owned s) (has : Acyclic s) (ht : Owned t) (hat : Acyclic t)
    (h : SameRetained s t) : (∀ b, b ∈ t.live ↔ b ∈ s.live) ∧ t.live.length = s.live.length := by
  have hm : ∀ b, b ∈ t.live ↔ b ∈ s.live := fun b =>
    (live_iff_reach ht hat b).trans ((reach_of_sameRetained hs h b).trans (live_iff_reach hs has b).symm)
  exact ⟨hm, length_eq_of_mem_iff ht.nodup hs.nodup hm⟩

end WaVerif.C11
