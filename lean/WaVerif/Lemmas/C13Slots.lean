import WaVerif.Lemmas.C13Frame
/-!
C13 — `Delete`'s slot bookkeeping (`vacate`): the last slot moves into the vacated one, which is
the specification's swap-with-last `delete` on the slot list.
-/
namespace WaVerif.C13RB

/-- the `(Key, Val)` a `range` loop reads from node `p` -/
def kv (s : St) (p : Nat) : Int × Int := ((s.nd p).key, (s.nd p).val)

theorem slots_eq (s : St) : slots s = (s.nodes.toList.drop 1).map (kv s) := rfl

theorem kv_of_sameKV {s s' : St} (h : SameKV s s') (q : Nat) : kv s' q = kv s q := by
  simp only [kv, h.key, h.val]

theorem slots_of_sameKV {s s' : St} (h : SameKV s s') : slots s' = slots s := by
  rw [slots_eq, slots_eq, h.nodes]
  exact List.map_congr_left (fun q _ => kv_of_sameKV h q)

/-! ### `moveLast`, `vacate`: nodes and key/value fields -/

theorem adopt_kv (s : St) (c p q : Nat) : kv (adopt s c p) q = kv s q := by simp [kv]

theorem moveLast_nodes (s : St) (ri : Nat) :
    (moveLast s ri).nodes = s.nodes.setIfInBounds ri (s.nodes.getD (s.nodes.size - 1) 0) := by
  simp [moveLast]

theorem moveLast_kv (s : St) (ri q : Nat) : kv (moveLast s ri) q = kv s q := by
  unfold moveLast
  simp only [adopt_kv]
  simp only [kv, St.nd, St.upd]
  rw [getD_modify]
  split <;> rfl

theorem vacate_nodes (s : St) (r : Nat) :
    (vacate s r).nodes =
      if (s.nd r).idx < s.nodes.size - 1
      then (s.nodes.setIfInBounds (s.nd r).idx (s.nodes.getD (s.nodes.size - 1) 0)).pop
      else s.nodes.pop := by
  unfold vacate popSlot
  split
  · simp [moveLast_nodes]
  · rfl

theorem popSlot_kv (s : St) (q : Nat) : kv (popSlot s) q = kv s q := rfl

theorem vacate_kv (s : St) (r q : Nat) : kv (vacate s r) q = kv s q := by
  unfold vacate
  rw [popSlot_kv]
  split
  · exact moveLast_kv s _ q
  · rfl

/-! ### list facts -/

theorem set_length_append {α : Type} (A : List α) (z x : α) (C : List α) : (A ++ z :: C).set A.length x = A ++ x :: C := by
  induction A with
  | nil => rfl
  | cons a A ih => simp [ih]

theorem getLast_slot (A B : List Nat) (r l : Nat) :
    (0 :: (A ++ r :: B ++ [l]))[A.length + B.length + 2]? = some l := by
  have h1 : (0 :: (A ++ r :: B ++ [l]))[A.length + B.length + 2]? = (A ++ r :: B ++ [l])[A.length + B.length + 1]? := by
    simp
  rw [h1, List.append_assoc, List.cons_append, List.getElem?_append_right (by omega)]
  have : A.length + B.length + 1 - A.length = B.length + 1 := by omega
  rw [this]
  simp

/-! ### the slot list after `vacate` -/

/-- `r` sits in slot `|A|+1`, which is not the last one: the last node `l` takes its place -/
theorem vacate_slots_middle (s : St) (r : Nat) (A B : List Nat) (l : Nat)
    (hN : s.nodes.toList = 0 :: (A ++ r :: B ++ [l])) (hidx : (s.nd r).idx = A.length + 1) :
    slots (vacate s r) = A.map (kv s) ++ kv s l :: B.map (kv s) := by
  have hsize : s.nodes.size = A.length + B.length + 3 := by
    rw [← Array.length_toList, hN]; simp; omega
  have hlast : s.nodes.getD (s.nodes.size - 1) 0 = l := by
    rw [Array.getD_eq_getD_getElem?, ← Array.getElem?_toList, hN, hsize]
    have : A.length + B.length + 3 - 1 = A.length + B.length + 2 := by omega
    rw [this, getLast_slot]; rfl
  have hnodes : (vacate s r).nodes.toList = 0 :: (A ++ l :: B) := by
    rw [vacate_nodes, if_pos (by rw [hidx, hsize]; omega), Array.toList_pop, Array.toList_setIfInBounds, hN, hidx, hlast,
      List.set_cons_succ, List.append_assoc, List.cons_append, set_length_append]
    have : (0 :: (A ++ l :: (B ++ [l]))) = (0 :: (A ++ l :: B)) ++ [l] := by simp
    rw [this, List.dropLast_concat]
  rw [slots_eq, hnodes]
  simp only [List.drop_succ_cons, List.drop_zero, List.map_append, List.map_cons]
  have hk : ∀ q, kv (vacate s r) q = kv s q := vacate_kv s r
  simp only [hk]
  rw [List.map_congr_left (fun q _ => hk q), List.map_congr_left (fun q _ => hk q)]

/-- `r` sits in the last slot: the slot list is truncated -/
theorem vacate_slots_last (s : St) (r : Nat) (A : List Nat)
    (hN : s.nodes.toList = 0 :: (A ++ [r])) (hidx : (s.nd r).idx = A.length + 1) :
    slots (vacate s r) = A.map (kv s) := by
  have hsize : s.nodes.size = A.length + 2 := by
    rw [← Array.length_toList, hN]; simp
  have hnodes : (vacate s r).nodes.toList = 0 :: A := by
    rw [vacate_nodes, if_neg (by rw [hidx, hsize]; omega), Array.toList_pop, hN]
    have : (0 :: (A ++ [r])) = (0 :: A) ++ [r] := by simp
    rw [this, List.dropLast_concat]
  rw [slots_eq, hnodes]
  simp only [List.drop_succ_cons, List.drop_zero]
  exact List.map_congr_left (fun q _ => vacate_kv s r q)

end WaVerif.C13RB
