import WaVerif.Model.C06
/-!
# C06 — helper lemmas for the abstract interpreter: congruence of `exec` on a call-closed set
-/
namespace WaVerif.C06

variable {ν σ : Type}

/-- two meanings of "call" agree on the names of `S` (for states whose table stays in `S`) and keep
the table in `S` -/
def CallAgree (S : ν → Prop) (c₁ c₂ : ν → St ν σ → Res (St ν σ)) : Prop :=
  ∀ g st, S g → TblIn S st → c₁ g st = c₂ g st ∧ ∀ st', c₁ g st = .ok st' → TblIn S st'

theorem bind_congr_inv {S : ν → Prop} {r₁ r₂ : Res (St ν σ)} {k₁ k₂ : St ν σ → Res (St ν σ)}
    (hr : r₁ = r₂) (hinv : ∀ st', r₁ = .ok st' → TblIn S st')
    (hk : ∀ st', TblIn S st' → k₁ st' = k₂ st' ∧ ∀ st'', k₁ st' = .ok st'' → TblIn S st'') :
    r₁.bind k₁ = r₂.bind k₂ ∧ ∀ st'', r₁.bind k₁ = .ok st'' → TblIn S st'' := by
  subst hr
  cases r₁ with
  | ok a => simpa [Res.bind] using hk a (hinv a rfl)
  | trap => simp [Res.bind]
  | undefined => simp [Res.bind]
  | outOfFuel => simp [Res.bind]

theorem tblIn_set {S : ν → Prop} {st : St ν σ} (h : TblIn S st) {i j : Nat} {v : Option ν}
    (hv : st.tbl[j]? = some v) (d : σ) : TblIn S ({ data := d, tbl := st.tbl.set i v } : St ν σ) := by
  intro g hg
  simp only at hg
  cases List.mem_or_eq_of_mem_set hg with
  | inl hm => exact h g hm
  | inr e => exact h g (e ▸ List.mem_of_getElem? hv)

theorem exec_congr (S : ν → Prop) (c₁ c₂ : ν → St ν σ → Res (St ν σ)) (hc : CallAgree S c₁ c₂) :
    ∀ (p : Prog ν σ) (st : St ν σ), (∀ g ∈ p.calls, S g) → TblIn S st →
      exec c₁ p st = exec c₂ p st ∧ ∀ st', exec c₁ p st = .ok st' → TblIn S st' := by
  intro p
  induction p with
  | ret =>
    intro st _ ht
    refine ⟨rfl, ?_⟩
    intro st' h
    simp only [exec] at h
    cases h; exact ht
  | trap =>
    intro st _ _
    refine ⟨rfl, ?_⟩
    intro st' h
    simp [exec] at h
  | op f k ih =>
    intro st hp ht
    simp only [exec]
    exact ih _ (by simpa [Prog.calls] using hp) (by intro g hg; exact ht g hg)
  | br c t e iht ihe =>
    intro st hp ht
    simp only [exec]
    simp only [Prog.calls, List.mem_append] at hp
    split
    · exact iht st (fun g hg => hp g (Or.inl hg)) ht
    · exact ihe st (fun g hg => hp g (Or.inr hg)) ht
  | call g k ih =>
    intro st hp ht
    simp only [exec]
    simp only [Prog.calls, List.mem_cons] at hp
    have hg := hc g st (hp g (Or.inl rfl)) ht
    exact bind_congr_inv hg.1 hg.2 (fun st' ht' => ih st' (fun g hg => hp g (Or.inr hg)) ht')
  | callInd slot k ih =>
    intro st hp ht
    simp only [exec]
    simp only [Prog.calls] at hp
    split
    · rename_i g hget
      have hS : S g := ht g (List.mem_of_getElem? hget)
      have hg := hc g st hS ht
      exact bind_congr_inv hg.1 hg.2 (fun st' ht' => ih st' hp ht')
    · simp
  | tblCopy dst src k ih =>
    intro st hp ht
    simp only [exec]
    simp only [Prog.calls] at hp
    split
    · rename_i v hget
      split
      · exact ih _ hp (tblIn_set ht hget st.data)
      · simp
    · simp

end WaVerif.C06
