import WaVerif.Model.C23
/-! # C23 — helper lemmas: line table, binary-search invariant, unpack on a content (core only) -/
namespace WaVerif.C23

def isLS (c : List Nat) (o : Nat) : Bool := o == 0 || c[o - 1]? == some 10

def lsList (c : List Nat) : List Nat := (List.range c.length).filter (isLS c)

theorem slcGo_eq (c : List Nat) : ∀ (rest : List Nat) (off : Nat) (pend : Option Nat),
    c.drop off = rest → pend = (if isLS c off then some off else none) →
    slcGo rest off pend = ((List.range' off rest.length).filter (isLS c)).map Int.ofNat := by
  intro rest
  induction rest with
  | nil => intro off pend _ _; simp [slcGo]
  | cons b rest ih =>
    intro off pend hd hp
    have hlt : off < c.length := by
      rcases Nat.lt_or_ge off c.length with h | h
      · exact h
      · rw [List.drop_of_length_le h] at hd; cases hd
    have hb : c[off]? = some b := by
      have := congrArg List.head? hd
      simpa [List.head?_drop] using this
    have hd' : c.drop (off + 1) = rest := by
      have := congrArg List.tail hd
      simpa [List.tail_drop] using this
    have hp' : (if b = 10 then some (off + 1) else none) = (if isLS c (off + 1) then some (off + 1) else none) := by
      simp [isLS, hb]
    have := ih (off + 1) _ hd' hp'
    simp only [slcGo, List.length_cons, List.range'_succ, this]
    subst hp
    by_cases h : isLS c off <;> simp [h]

theorem lines_table_aux (c : List Nat) : setLinesForContent c = (lsList c).map Int.ofNat := by
  unfold setLinesForContent lsList
  have := slcGo_eq c c 0 (some 0) (by simp) (by simp [isLS])
  rw [this, List.range_eq_range']

def SortedLE (a : List Int) : Prop := ∀ (i j : Nat) (hi : i < a.length) (hj : j < a.length), i ≤ j → a[i] ≤ a[j]

/-- partition property of an index `r` for `x` -/
def Part (a : List Int) (x : Int) (r : Nat) : Prop :=
  (∀ (k : Nat) (hk : k < a.length), k < r → a[k] ≤ x) ∧ (∀ (k : Nat) (hk : k < a.length), r ≤ k → x < a[k])

theorem searchGo_inv (a : List Int) (x : Int) (hs : SortedLE a) (i j : Nat) (hj : j ≤ a.length) (hij : i ≤ j)
    (hlo : ∀ (k : Nat) (hk : k < a.length), k < i → a[k] ≤ x)
    (hhi : ∀ (k : Nat) (hk : k < a.length), j ≤ k → x < a[k]) :
    Part a x (searchGo a x i j hj) := by
  induction h : j - i using Nat.strongRecOn generalizing i j with
  | _ n ih =>
    unfold searchGo
    split
    · rename_i hlt
      simp only
      split
      · rename_i hle
        refine ih _ (by omega) _ _ hj (by omega) ?_ hhi rfl
        intro k hk hkm
        have hm : i + (j - i) / 2 < a.length := by omega
        exact Int.le_trans (hs k (i + (j - i) / 2) hk hm (by omega)) hle
      · rename_i hgt
        refine ih _ (by omega) i (i + (j - i) / 2) (by omega) (by omega) hlo ?_ rfl
        intro k hk hkm
        have hm : i + (j - i) / 2 < a.length := by omega
        have := hs (i + (j - i) / 2) k hm hk hkm
        omega
    · have : i = j := by omega
      subst this
      exact ⟨hlo, hhi⟩

theorem searchGo_part (a : List Int) (x : Int) (hs : SortedLE a) :
    Part a x (searchGo a x 0 a.length (Nat.le_refl _)) :=
  searchGo_inv a x hs 0 a.length _ (Nat.zero_le _) (fun _ _ h => by omega) (fun _ hk h => by omega)

theorem countP_of_part {α} (p : α → Bool) : ∀ (a : List α) (r : Nat), r ≤ a.length →
    (∀ (k : Nat) (hk : k < a.length), k < r → p a[k] = true) →
    (∀ (k : Nat) (hk : k < a.length), r ≤ k → p a[k] = false) → a.countP p = r := by
  intro a
  induction a with
  | nil => intro r hr _ _; simp at hr; simp [hr]
  | cons h t ih =>
    intro r hr h1 h2
    cases r with
    | zero =>
      have h0 := h2 0 (by simp) (Nat.le_refl _)
      simp at h0
      have := ih 0 (Nat.zero_le _) (fun _ _ h => by omega) (fun k hk _ => by
        have := h2 (k + 1) (by simp; omega) (by omega)
        simpa using this)
      simp [h0, this]
    | succ r =>
      have h0 := h1 0 (by simp) (by omega)
      simp at h0
      have := ih r (by simp at hr; omega) (fun k hk hkr => by
        have := h1 (k + 1) (by simp; omega) (by omega)
        simpa using this) (fun k hk hkr => by
        have := h2 (k + 1) (by simp; omega) (by omega)
        simpa using this)
      simp [h0, this]

theorem searchInts_spec' (a : List Int) (x : Int) (hs : SortedLE a) :
    searchInts a x = (a.countP (fun v => decide (v ≤ x)) : Nat) - 1 := by
  unfold searchInts
  have hp := searchGo_part a x hs
  have hle := searchGo_le a x 0 a.length (Nat.le_refl _) (Nat.zero_le _)
  have := countP_of_part (fun v => decide (v ≤ x)) a _ hle
    (fun k hk h => by simpa using hp.1 k hk h)
    (fun k hk h => by have := hp.2 k hk h; simp; omega)
  rw [this]


/-! ### the line table is strictly increasing -/
theorem lsList_pairwise (c : List Nat) : (lsList c).Pairwise (· < ·) :=
  List.Pairwise.filter _ List.pairwise_lt_range

theorem lsList_mono (c : List Nat) (i j : Nat) (hi : i < (lsList c).length) (hj : j < (lsList c).length) (h : i < j) :
    (lsList c)[i] < (lsList c)[j] :=
  (List.pairwise_iff_getElem.mp (lsList_pairwise c)) i j hi hj h

theorem mem_lsList (c : List Nat) (o : Nat) : o ∈ lsList c ↔ o < c.length ∧ isLS c o = true := by
  simp [lsList]

theorem sortedLE_lines (c : List Nat) : SortedLE ((lsList c).map Int.ofNat) := by
  intro i j hi hj hij
  simp only [List.length_map] at hi hj
  simp only [List.getElem_map]
  rcases Nat.lt_or_ge i j with h | h
  · have := lsList_mono c i j hi hj h
    simp only [Int.ofNat_eq_natCast]; omega
  · have : i = j := by omega
    subst this; exact Int.le_refl _

/-! ### counting line starts = counting newlines -/
theorem countP_le_filter_range (p : Nat → Bool) (off : Nat) : ∀ n, off + 1 ≤ n →
    ((List.range n).filter p).countP (fun o => decide (o ≤ off)) = (List.range (off + 1)).countP p := by
  intro n hn
  induction n with
  | zero => omega
  | succ n ih =>
    rcases Nat.lt_or_ge off n with h | h
    · have := ih (by omega)
      rw [List.range_succ, List.filter_append, List.countP_append, this]
      by_cases hp : p n <;> simp [hp]; omega
    · have : n = off := by omega
      subst this
      rw [List.countP_filter]
      apply List.countP_congr
      intro o ho
      simp at ho
      simp; intro _; omega

theorem countP_isLS_range (c : List Nat) : ∀ off, off ≤ c.length →
    (List.range (off + 1)).countP (isLS c) = 1 + (c.take off).count 10 := by
  intro off
  induction off with
  | zero => intro _; simp [isLS]
  | succ k ih =>
    intro hk
    have hlt : k < c.length := by omega
    rw [List.range_succ, List.countP_append, ih (by omega), List.take_add_one, List.count_append]
    have : c[k]? = some c[k] := by simp [hlt]
    simp only [List.countP_cons, List.countP_nil, isLS, Nat.add_sub_cancel, this]
    by_cases hc : c[k] = 10 <;> simp [hc] <;> omega

theorem count_lines_le (c : List Nat) (off : Nat) (h : off < c.length) :
    (lsList c).countP (fun o => decide (o ≤ off)) = 1 + (c.take off).count 10 := by
  unfold lsList
  rw [countP_le_filter_range _ off c.length (by omega), countP_isLS_range c off (by omega)]

/-! ### the last line start -/
theorem lls_le (c : List Nat) : ∀ off, lastLineStart c off ≤ off := by
  intro off; induction off with
  | zero => simp [lastLineStart]
  | succ k ih => simp only [lastLineStart]; split <;> omega

theorem lls_isLS (c : List Nat) : ∀ off, isLS c (lastLineStart c off) = true := by
  intro off; induction off with
  | zero => simp [lastLineStart, isLS]
  | succ k ih =>
    simp only [lastLineStart]; split
    · rename_i h; simp [isLS, h]
    · exact ih

theorem lls_last (c : List Nat) : ∀ off o, lastLineStart c off < o → o ≤ off → isLS c o = false := by
  intro off; induction off with
  | zero => intro o h1 h2; simp [lastLineStart] at h1; omega
  | succ k ih =>
    intro o h1 h2
    simp only [lastLineStart] at h1
    split at h1
    · omega
    · rename_i hne
      rcases Nat.lt_or_ge k o with h | h
      · have : o = k + 1 := by omega
        subst this
        simp [isLS]; simpa using hne
      · exact ih o h1 h

/-! ### unpack on the line table of a content -/
theorem unpack_of_part (a : List Int) (x : Int) (hs : SortedLE a) :
    ∃ (r : Nat) (hle : r ≤ a.length), Part a x r ∧
      unpack a x = if h : 0 < r then ((r : Int), x - a[r - 1]'(by omega) + 1) else (0, 0) := by
  refine ⟨searchGo a x 0 a.length (Nat.le_refl _),
    searchGo_le a x 0 a.length (Nat.le_refl _) (Nat.zero_le _), searchGo_part a x hs, ?_⟩
  unfold unpack searchEntry
  by_cases h : 0 < searchGo a x 0 a.length (Nat.le_refl _)
  · simp only [h, dite_true]
    congr 1
    omega
  · simp only [h, dite_false]

theorem unpack_content (c : List Nat) (off : Nat) (h : off < c.length) :
    unpack (setLinesForContent c) off = specLineCol c off := by
  rw [lines_table_aux]
  have hs := sortedLE_lines c
  obtain ⟨r, hle, hp, hu⟩ := unpack_of_part ((lsList c).map Int.ofNat) off hs
  rw [hu]
  -- r = number of line starts ≤ off
  have hcount : ((lsList c).map Int.ofNat).countP (fun v => decide (v ≤ (off : Int))) = r :=
    countP_of_part _ _ r hle (fun k hk h => by simpa using hp.1 k hk h)
      (fun k hk h => by have := hp.2 k hk h; simp at this ⊢; omega)
  rw [List.countP_map] at hcount
  have hcount' : (lsList c).countP (fun o => decide (o ≤ off)) = r := by
    rw [← hcount]; apply List.countP_congr; intro o _; simp [Int.ofNat_eq_natCast]
  rw [count_lines_le c off h] at hcount'
  have hpos : 0 < r := by omega
  simp only [hpos, dite_true, specLineCol]
  simp only [List.length_map] at hle
  have hk1 : r - 1 < (lsList c).length := by omega
  -- the entry found is the last line start
  have hs1 : (lsList c)[r - 1] ≤ off := by
    have := hp.1 (r - 1) (by simpa using hk1) (by omega)
    simp only [List.getElem_map, Int.ofNat_eq_natCast] at this; omega
  have hmem : (lsList c)[r - 1] ∈ lsList c := List.getElem_mem hk1
  have hsLS := ((mem_lsList c _).mp hmem).2
  have htm : lastLineStart c off ∈ lsList c :=
    (mem_lsList c _).mpr ⟨by have := lls_le c off; omega, lls_isLS c off⟩
  obtain ⟨k, hk, hkt⟩ := List.getElem_of_mem htm
  have hkr : k < r := by
    rcases Nat.lt_or_ge k r with h' | h'
    · exact h'
    · have := hp.2 k (by simpa using hk) h'
      simp only [List.getElem_map, Int.ofNat_eq_natCast, hkt] at this
      have := lls_le c off; omega
  have heq : (lsList c)[r - 1] = lastLineStart c off := by
    rcases Nat.lt_or_ge k (r - 1) with h' | h'
    · have hm := lsList_mono c k (r - 1) hk hk1 h'
      rw [hkt] at hm
      have := lls_last c off _ hm hs1
      rw [this] at hsLS; cases hsLS
    · have : k = r - 1 := by omega
      subst this; exact hkt
  simp only [List.getElem_map, Int.ofNat_eq_natCast, heq]
  congr 1 <;> omega

theorem searchEntry_of_part (a : List Int) (x : Int) (hs : SortedLE a) :
    ∃ (r : Nat) (hle : r ≤ a.length), Part a x r ∧
      searchEntry a x = if h : 0 < r then some (r - 1, a[r - 1]'(by omega)) else none := by
  refine ⟨searchGo a x 0 a.length (Nat.le_refl _),
    searchGo_le a x 0 a.length (Nat.le_refl _) (Nat.zero_le _), searchGo_part a x hs, ?_⟩
  unfold searchEntry
  by_cases h : 0 < searchGo a x 0 a.length (Nat.le_refl _)
  · simp only [h, dite_true]
  · simp only [h, dite_false]

theorem part_unique (a : List Int) (x y : Int) (r r' : Nat) (hr : r ≤ a.length) (hr' : r' ≤ a.length)
    (h1 : Part a x r) (h2 : Part a y r')
    (heq : ∀ (k : Nat) (hk : k < a.length), a[k] ≤ x ↔ a[k] ≤ y) : r = r' := by
  rcases Nat.lt_trichotomy r r' with h | h | h
  · have A := h1.2 r (by omega) (Nat.le_refl _)
    have B := h2.1 r (by omega) h
    have := (heq r (by omega)).mpr B
    omega
  · exact h
  · have A := h2.2 r' (by omega) (Nat.le_refl _)
    have B := h1.1 r' (by omega) h
    have := (heq r' (by omega)).mp B
    omega

theorem unpack_eof (c : List Nat) (hne : c ≠ []) :
    unpack (setLinesForContent c) c.length =
      ((specLineCol c (c.length - 1)).1, (specLineCol c (c.length - 1)).2 + 1) := by
  have hn : 0 < c.length := List.length_pos_iff.mpr hne
  have hlast := unpack_content c (c.length - 1) (by omega)
  rw [← hlast, lines_table_aux]
  have hs := sortedLE_lines c
  obtain ⟨r, hle, hp, hu⟩ := unpack_of_part ((lsList c).map Int.ofNat) (c.length : Nat) hs
  obtain ⟨r', hle', hp', hu'⟩ := unpack_of_part ((lsList c).map Int.ofNat) ((c.length - 1 : Nat) : Int) hs
  have : r = r' := part_unique _ _ _ r r' hle hle' hp hp' (by
    intro k hk
    simp only [List.length_map] at hk
    have hm := ((mem_lsList c _).mp (List.getElem_mem hk)).1
    simp only [List.getElem_map, Int.ofNat_eq_natCast]
    omega)
  subst this
  rw [hu, hu']
  by_cases h : 0 < r
  · simp only [h, dite_true]; congr 1; omega
  · exfalso
    have := hp.2 0 (by
      simp only [List.length_map]
      have : 0 ∈ lsList c := (mem_lsList c 0).mpr ⟨hn, by simp [isLS]⟩
      exact List.length_pos_of_mem this) (by omega)
    have h0 : (lsList c)[0]'(List.length_pos_of_mem ((mem_lsList c 0).mpr ⟨hn, by simp [isLS]⟩)) ≤ c.length := by
      have hm := ((mem_lsList c _).mp (List.getElem_mem
        (List.length_pos_of_mem ((mem_lsList c 0).mpr ⟨hn, by simp [isLS]⟩)))).1
      omega
    simp only [List.getElem_map, Int.ofNat_eq_natCast] at this
    omega

theorem unpack_empty (x : Int) : unpack (setLinesForContent []) x = (0, 0) := by
  simp [setLinesForContent, slcGo, unpack, searchEntry, searchGo]

end WaVerif.C23
