import WaVerif.Model.C30
/-! # C30 — helper lemmas (per-function verdict, fold over the functions) -/
namespace WaVerif.C30

/-- the lines of one function never contain the final verdicts `ok` -/
theorem ok_not_mem_runFnCore (cfg : Cfg) (f : Fn) (got : Text) (err : RunErr) :
    Line.ok ∉ (runFnCore cfg f got err).1 := by
  unfold runFnCore
  simp only []
  repeat' split
  all_goals simp

theorem ok_not_mem_runFn (cfg : Cfg) (io : Text) (f : Fn) : Line.ok ∉ (runFn cfg io f).1 :=
  ok_not_mem_runFnCore cfg f _ _

/-- without a leak (reset in place, or nothing printed during init, or not the first function on
an instance) the runner sees exactly the function's own output -/
theorem captured_eq_own (cfg : Cfg) (io : Text) (f : Fn)
    (h : cfg.initOutputLeaks = false ∨ io = [] ∨ f.fresh = false) : captured cfg io f = (obs f.beh).1 := by
  unfold captured
  rcases h with h | h | h
  · simp [h]
  · subst h; simp [joinOut]
  · simp [h]

theorem panicPrefix_isPrefix_panicLine (e p : Text) : (panicPrefix ++ e).isPrefixOf (panicLine e p) = true := by
  rw [List.isPrefixOf_iff_prefix]
  unfold panicLine
  exact (List.prefix_append_right_inj panicPrefix).2 (List.prefix_append e _)

theorem panicPrefix_not_prefix_nil (e : Text) : (panicPrefix ++ e).isPrefixOf ([] : Text) = false := by
  simp [panicPrefix]

theorem panicPrefix_not_prefix_assert (e m p : Text) : (panicPrefix ++ e).isPrefixOf (assertLine m p) = false := by
  simp only [panicPrefix, assertLine, assertPrefix, List.cons_append, List.nil_append]
  rfl

/-- the early exit is taken exactly by a function without expected panic that does not return -/
theorem runFn_abort_iff (cfg : Cfg) (io : Text) (f : Fn) : (runFn cfg io f).2 = .abort ↔ Aborts f = true := by
  unfold runFn
  generalize captured cfg io f = got
  obtain ⟨name, ex, sel, decl, ⟨out, e⟩, fr⟩ := f
  cases decl <;> cases e <;> simp [runFnCore, declInfo, obs, Aborts, exitCodeOf]
  all_goals (try (repeat' split))
  all_goals (try simp_all)

/-- a function that takes the early exit prints FAIL iff its loop's block does -/
theorem fail_mem_runFn_of_abort (cfg : Cfg) (io : Text) (f : Fn) (h : (runFn cfg io f).2 = .abort)
    (hf : abortFAIL cfg f = true) : Line.fail ∈ (runFn cfg io f).1 := by
  unfold runFn at h ⊢
  generalize captured cfg io f = got at h ⊢
  obtain ⟨name, ex, sel, decl, ⟨out, e⟩, fr⟩ := f
  cases decl <;> cases e <;> simp [runFnCore, declInfo, obs, exitCodeOf] at h ⊢
  all_goals (try (repeat' split))
  all_goals (try simp_all)

/-- under the guards, the verdict for one function is `pass` exactly when it meets its contract -/
theorem runFn_pass_iff_meets (cfg : Cfg) (io : Text) (f : Fn) (hg : Guarded f = true)
    (hl : cfg.initOutputLeaks = false ∨ io = [] ∨ f.fresh = false) :
    (runFn cfg io f).2 = .pass ↔ meets f.decl f.beh = true := by
  unfold runFn
  rw [captured_eq_own cfg io f hl]
  obtain ⟨name, ex, sel, decl, ⟨out, e⟩, fr⟩ := f
  cases decl with
  | none => cases e <;> simp [runFnCore, declInfo, obs, meets, exitCodeOf]
  | output s =>
    have hs : s ≠ [] := by
      intro h; subst h; simp [Guarded, EmptyDecl] at hg
    cases e <;> simp [runFnCore, declInfo, obs, meets, exitCodeOf, hs]
    · constructor
      · intro h; split at h <;> simp_all
      · intro h; simp [h, hs]
  | panic s =>
    have hs : s ≠ [] := by
      intro h; subst h; simp [Guarded, EmptyDecl] at hg
    have ho : out = [] := by
      simp [Guarded, WF] at hg; exact hg.1.1
    subst ho
    cases e with
    | returns => simp [runFnCore, declInfo, obs, meets, exitCodeOf, hs]
    | traps => simp [runFnCore, declInfo, obs, meets, exitCodeOf, hs]
    | exits n =>
      by_cases hn : n = 0
      · simp [runFnCore, declInfo, obs, meets, exitCodeOf, hs, hn]
      · simp [runFnCore, declInfo, obs, meets, exitCodeOf, hs, hn, panicPrefix_not_prefix_nil]
    | assertFails m p =>
      simp [runFnCore, declInfo, obs, meets, exitCodeOf, hs, addLine, panicPrefix_not_prefix_assert]
    | panics m p =>
      by_cases hm : m = s
      · subst hm
        simp [runFnCore, declInfo, obs, meets, exitCodeOf, hs, addLine, panicPrefix_isPrefix_panicLine]
      · have hp : (panicPrefix ++ s).isPrefixOf (panicLine m p) = false := by
          simp [Guarded, PrefixAmbiguous, hm] at hg
          simpa using hg.2
        simp [runFnCore, declInfo, obs, meets, exitCodeOf, hs, addLine, hp, hm]

/-! ## the fold -/

theorem runAll_status_zero_iff (cfg : Cfg) (io : Text) (l : List Fn) : ∀ failed : Bool,
    (runAll cfg io l failed).2 = 0 ↔
      (failed = false ∧ ∀ f ∈ l, f.selected = true → (runFn cfg io f).2 = .pass) := by
  induction l with
  | nil => intro failed; cases failed <;> simp [runAll]
  | cons f rest ih =>
    intro failed
    by_cases hs : f.selected = true
    · rcases hr : runFn cfg io f with ⟨ls, r⟩
      cases r
      · simp [runAll, hs, hr, ih]
      · simp [runAll, hs, hr, ih]
      · simp [runAll, hs, hr]
    · simp [runAll, hs, ih]

theorem runAll_ok_iff (cfg : Cfg) (io : Text) (l : List Fn) : ∀ failed : Bool,
    Line.ok ∈ (runAll cfg io l failed).1 ↔
      (failed = false ∧ ∀ f ∈ l, f.selected = true → (runFn cfg io f).2 = .pass) := by
  induction l with
  | nil => intro failed; cases failed <;> simp [runAll]
  | cons f rest ih =>
    intro failed
    by_cases hs : f.selected = true
    · have hno := ok_not_mem_runFn cfg io f
      rcases hr : runFn cfg io f with ⟨ls, r⟩
      rw [hr] at hno
      cases r
      · simp [runAll, hs, hr, ih, hno]
      · simp [runAll, hs, hr, ih, hno]
      · simpa [runAll, hs, hr] using hno
    · simp [runAll, hs, ih]

/-- FAIL is printed as soon as something does not pass, provided every early exit prints it -/
theorem runAll_fail_mem (cfg : Cfg) (io : Text) (l : List Fn) : ∀ failed : Bool,
    (∀ f ∈ l, f.selected = true → Aborts f = true → abortFAIL cfg f = true) →
    (failed = true ∨ ∃ f ∈ l, f.selected = true ∧ (runFn cfg io f).2 ≠ .pass) →
    Line.fail ∈ (runAll cfg io l failed).1 := by
  induction l with
  | nil => intro failed _ h; cases failed <;> simp [runAll] at h ⊢
  | cons f rest ih =>
    intro failed ha h
    have ha' : ∀ g ∈ rest, g.selected = true → Aborts g = true → abortFAIL cfg g = true :=
      fun g hg => ha g (List.mem_cons_of_mem _ hg)
    by_cases hs : f.selected = true
    · rcases hr : runFn cfg io f with ⟨ls, r⟩
      cases r
      · -- pass: the witness is in the rest
        have h' : failed = true ∨ ∃ g ∈ rest, g.selected = true ∧ (runFn cfg io g).2 ≠ .pass := by
          rcases h with h | ⟨g, hg, hgs, hgp⟩
          · exact Or.inl h
          · rcases List.mem_cons.1 hg with rfl | hg
            · simp [hr] at hgp
            · exact Or.inr ⟨g, hg, hgs, hgp⟩
        have := ih failed ha' h'
        simp [runAll, hs, hr, this]
      · have := ih true ha' (Or.inl rfl)
        simp [runAll, hs, hr, this]
      · have hab : (runFn cfg io f).2 = .abort := by simp [hr]
        have hf := ha f (List.mem_cons_self ..) hs ((runFn_abort_iff cfg io f).1 hab)
        have := fail_mem_runFn_of_abort cfg io f hab hf
        simpa [runAll, hs, hr] using this
    · have h' : failed = true ∨ ∃ g ∈ rest, g.selected = true ∧ (runFn cfg io g).2 ≠ .pass := by
        rcases h with h | ⟨g, hg, hgs, hgp⟩
        · exact Or.inl h
        · rcases List.mem_cons.1 hg with rfl | hg
          · exact absurd hgs hs
          · exact Or.inr ⟨g, hg, hgs, hgp⟩
      have := ih failed ha' h'
      simp [runAll, hs, this]

end WaVerif.C30
