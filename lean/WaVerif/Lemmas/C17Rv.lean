import WaVerif.Model.C17Rv
/-!
# C17 — RISC-V helper lemmas: the encoder's OR/shift packing equals positional arithmetic
-/
namespace WaVerif.C17

/-- OR of a multiple of `2^k` with a value below `2^k` is their sum. -/
theorem lor_eq_add (k a b : Nat) (ha : a % 2 ^ k = 0) (hb : b < 2 ^ k) : a ||| b = a + b := by
  have : a = (a / 2 ^ k) <<< k := by
    rw [Nat.shiftLeft_eq]; have := Nat.div_add_mod a (2 ^ k); rw [ha] at this; rw [Nat.mul_comm]; omega
  rw [this]
  exact (Nat.shiftLeft_add_eq_or_of_lt hb _).symm

theorem and31 (u : Nat) : u &&& 31 = u % 32 := Nat.and_two_pow_sub_one_eq_mod u 5
theorem and63 (u : Nat) : u &&& 63 = u % 64 := Nat.and_two_pow_sub_one_eq_mod u 6
theorem and15 (u : Nat) : u &&& 15 = u % 16 := Nat.and_two_pow_sub_one_eq_mod u 4
theorem and1 (u : Nat) : u &&& 1 = u % 2 := Nat.and_two_pow_sub_one_eq_mod u 1
theorem and1023 (u : Nat) : u &&& 1023 = u % 1024 := Nat.and_two_pow_sub_one_eq_mod u 10
theorem and255 (u : Nat) : u &&& 255 = u % 256 := Nat.and_two_pow_sub_one_eq_mod u 8

namespace Rv

theorem packR_eq (opc f3 f7 rd rs1 rs2 : Nat) (h1 : opc < 128) (h2 : f3 < 8) (h3 : rd < 32) (h4 : rs1 < 32) (h5 : rs2 < 32) :
    packR opc f3 f7 rd rs1 rs2 = (f7 * 33554432 + rs2 * 1048576 + rs1 * 32768 + f3 * 4096 + rd * 128 + opc) % 4294967296 := by
  unfold packR W32
  simp only [Nat.shiftLeft_eq]
  rw [lor_eq_add 25 (f7 * 2 ^ 25) (rs2 * 2 ^ 20) (by omega) (by omega)]
  rw [lor_eq_add 20 _ (rs1 * 2 ^ 15) (by omega) (by omega)]
  rw [lor_eq_add 15 _ (f3 * 2 ^ 12) (by omega) (by omega)]
  rw [lor_eq_add 12 _ (rd * 2 ^ 7) (by omega) (by omega)]
  rw [lor_eq_add 7 _ opc (by omega) (by omega)]

theorem packR4_eq (opc f3 f2 rd rs1 rs2 rs3 : Nat) (h1 : opc < 128) (h2 : f3 < 8) (h3 : rd < 32) (h4 : rs1 < 32)
    (h5 : rs2 < 32) (h6 : f2 < 4) :
    packR4 opc f3 f2 rd rs1 rs2 rs3 =
      (rs3 * 134217728 + f2 * 33554432 + rs2 * 1048576 + rs1 * 32768 + f3 * 4096 + rd * 128 + opc) % 4294967296 := by
  unfold packR4 W32
  simp only [Nat.shiftLeft_eq]
  rw [lor_eq_add 27 (rs3 * 2 ^ 27) (f2 * 2 ^ 25) (by omega) (by omega)]
  rw [lor_eq_add 25 _ (rs2 * 2 ^ 20) (by omega) (by omega)]
  rw [lor_eq_add 20 _ (rs1 * 2 ^ 15) (by omega) (by omega)]
  rw [lor_eq_add 15 _ (f3 * 2 ^ 12) (by omega) (by omega)]
  rw [lor_eq_add 12 _ (rd * 2 ^ 7) (by omega) (by omega)]
  rw [lor_eq_add 7 _ opc (by omega) (by omega)]

theorem packI_eq (opc f3 rd rs1 imm : Nat) (h1 : opc < 128) (h2 : f3 < 8) (h3 : rd < 32) (h4 : rs1 < 32) :
    packI opc f3 rd rs1 imm = (imm * 1048576 + rs1 * 32768 + f3 * 4096 + rd * 128 + opc) % 4294967296 := by
  unfold packI W32
  simp only [Nat.shiftLeft_eq]
  rw [lor_eq_add 20 (imm * 2 ^ 20) (rs1 * 2 ^ 15) (by omega) (by omega)]
  rw [lor_eq_add 15 _ (f3 * 2 ^ 12) (by omega) (by omega)]
  rw [lor_eq_add 12 _ (rd * 2 ^ 7) (by omega) (by omega)]
  rw [lor_eq_add 7 _ opc (by omega) (by omega)]

theorem packS_eq (opc f3 rs1 rs2 imm : Nat) (h1 : opc < 128) (h2 : f3 < 8) (h4 : rs1 < 32) (h5 : rs2 < 32) :
    packS opc f3 rs1 rs2 imm =
      ((imm / 32) * 33554432 + rs2 * 1048576 + rs1 * 32768 + f3 * 4096 + (imm % 32) * 128 + opc) % 4294967296 := by
  unfold packS W32
  simp only [Nat.shiftLeft_eq, Nat.shiftRight_eq_div_pow, and31]
  rw [lor_eq_add 25 (imm / 2 ^ 5 * 2 ^ 25) (rs2 * 2 ^ 20) (by omega) (by omega)]
  rw [lor_eq_add 20 _ (rs1 * 2 ^ 15) (by omega) (by omega)]
  rw [lor_eq_add 15 _ (f3 * 2 ^ 12) (by omega) (by omega)]
  rw [lor_eq_add 12 _ (imm % 32 * 2 ^ 7) (by omega) (by omega)]
  rw [lor_eq_add 7 _ opc (by omega) (by omega)]

theorem packU_eq (opc rd imm : Nat) (h1 : opc < 128) (h3 : rd < 32) :
    packU opc rd imm = (imm * 4096 + rd * 128 + opc) % 4294967296 := by
  unfold packU W32
  simp only [Nat.shiftLeft_eq]
  rw [lor_eq_add 12 (imm * 2 ^ 12) (rd * 2 ^ 7) (by omega) (by omega)]
  rw [lor_eq_add 7 _ opc (by omega) (by omega)]

/-- the scattered B immediate, as positional arithmetic (any `imm`) -/
theorem packBImm_eq (imm : Nat) :
    packBImm imm = ((imm / 4096) * 2147483648 + (imm / 32 % 64) * 33554432 + (imm / 2 % 16) * 256 + (imm / 2048 % 2) * 128) % 4294967296 := by
  unfold packBImm W32
  simp only [Nat.shiftLeft_eq, Nat.shiftRight_eq_div_pow, and63, and15, and1]
  rw [lor_eq_add 31 (imm / 2 ^ 12 * 2 ^ 31) (imm / 2 ^ 5 % 64 * 2 ^ 25) (by omega) (by omega)]
  rw [lor_eq_add 25 _ (imm / 2 ^ 1 % 16 * 2 ^ 8) (by omega) (by omega)]
  rw [lor_eq_add 8 _ (imm / 2 ^ 11 % 2 * 2 ^ 7) (by omega) (by omega)]

theorem packJImm_eq (imm : Nat) :
    packJImm imm = ((imm / 1048576) * 2147483648 + (imm / 2 % 1024) * 2097152 + (imm / 2048 % 2) * 1048576 + (imm / 4096 % 256) * 4096) % 4294967296 := by
  unfold packJImm W32
  simp only [Nat.shiftLeft_eq, Nat.shiftRight_eq_div_pow, and1023, and255, and1]
  rw [lor_eq_add 31 (imm / 2 ^ 20 * 2 ^ 31) (imm / 2 ^ 1 % 1024 * 2 ^ 21) (by omega) (by omega)]
  rw [lor_eq_add 21 _ (imm / 2 ^ 11 % 2 * 2 ^ 20) (by omega) (by omega)]
  rw [lor_eq_add 20 _ (imm / 2 ^ 12 % 256 * 2 ^ 12) (by omega) (by omega)]

/-- high part (multiple of `2^k`) OR-ed with the rest: split `p = h + l` first -/
theorem packB_eq (opc f3 rs1 rs2 imm : Nat) (h1 : opc < 128) (h2 : f3 < 8) (h4 : rs1 < 32) (h5 : rs2 < 32) :
    packB opc f3 rs1 rs2 imm =
      ((imm / 4096 % 2) * 2147483648 + (imm / 32 % 64) * 33554432 + rs2 * 1048576 + rs1 * 32768 + f3 * 4096 +
       (imm / 2 % 16) * 256 + (imm / 2048 % 2) * 128 + opc) % 4294967296 := by
  unfold packB W32
  rw [packBImm_eq]
  simp only [Nat.shiftLeft_eq]
  have hsplit : ((imm / 4096) * 2147483648 + (imm / 32 % 64) * 33554432 + (imm / 2 % 16) * 256 + (imm / 2048 % 2) * 128) % 4294967296
      = ((imm / 4096 % 2) * 2147483648 + (imm / 32 % 64) * 33554432) ||| ((imm / 2 % 16) * 256 + (imm / 2048 % 2) * 128) := by
    rw [lor_eq_add 25 _ _ (by omega) (by omega)]; omega
  rw [hsplit]
  have hre : ∀ H L a b c d : Nat, H ||| L ||| a ||| b ||| c ||| d = H ||| a ||| b ||| c ||| L ||| d := by
    intro H L a b c d; ac_rfl
  rw [hre]
  clear hre hsplit
  rw [lor_eq_add 25 _ (rs2 * 2 ^ 20) (by omega) (by omega)]
  rw [lor_eq_add 20 _ (rs1 * 2 ^ 15) (by omega) (by omega)]
  rw [lor_eq_add 15 _ (f3 * 2 ^ 12) (by omega) (by omega)]
  rw [lor_eq_add 12 _ ((imm / 2 % 16) * 256 + (imm / 2048 % 2) * 128) (by omega) (by omega)]
  rw [lor_eq_add 7 _ opc (by omega) (by omega)]
  omega

theorem packJ_eq (opc rd imm : Nat) (h1 : opc < 128) (h3 : rd < 32) :
    packJ opc rd imm =
      ((imm / 1048576 % 2) * 2147483648 + (imm / 2 % 1024) * 2097152 + (imm / 2048 % 2) * 1048576 + (imm / 4096 % 256) * 4096 +
       rd * 128 + opc) % 4294967296 := by
  unfold packJ W32
  rw [packJImm_eq]
  simp only [Nat.shiftLeft_eq]
  have hm : ((imm / 1048576) * 2147483648 + (imm / 2 % 1024) * 2097152 + (imm / 2048 % 2) * 1048576 + (imm / 4096 % 256) * 4096) % 4294967296
      = (imm / 1048576 % 2) * 2147483648 + (imm / 2 % 1024) * 2097152 + (imm / 2048 % 2) * 1048576 + (imm / 4096 % 256) * 4096 := by
    omega
  rw [hm]
  clear hm
  rw [lor_eq_add 12 _ (rd * 2 ^ 7) (by omega) (by omega)]
  rw [lor_eq_add 7 _ opc (by omega) (by omega)]

/-! ### mod-free normal forms -/

theorem toU32_mod4096 (imm : Int) : toU32 imm % 4096 = (imm % 4096).toNat := by unfold toU32; omega
theorem toU32_mod8192 (imm : Int) : toU32 imm % 8192 = (imm % 8192).toNat := by unfold toU32; omega
theorem toU32_mod2m (imm : Int) : toU32 imm % 2097152 = (imm % 2097152).toNat := by unfold toU32; omega

theorem packI_norm (opc f3 rd rs1 imm : Nat) (h1 : opc < 128) (h2 : f3 < 8) (h3 : rd < 32) (h4 : rs1 < 32) :
    packI opc f3 rd rs1 imm = (imm % 4096) * 1048576 + rs1 * 32768 + f3 * 4096 + rd * 128 + opc := by
  rw [packI_eq _ _ _ _ _ h1 h2 h3 h4]; omega

theorem packS_norm (opc f3 rs1 rs2 imm : Nat) (h1 : opc < 128) (h2 : f3 < 8) (h4 : rs1 < 32) (h5 : rs2 < 32) :
    packS opc f3 rs1 rs2 imm =
      (imm % 4096 / 32) * 33554432 + rs2 * 1048576 + rs1 * 32768 + f3 * 4096 + (imm % 32) * 128 + opc := by
  rw [packS_eq _ _ _ _ _ h1 h2 h4 h5]
  have e1 : imm / 32 % 128 = imm % 4096 / 32 := by omega
  omega

theorem packB_norm (opc f3 rs1 rs2 imm : Nat) (h1 : opc < 128) (h2 : f3 < 8) (h4 : rs1 < 32) (h5 : rs2 < 32) :
    packB opc f3 rs1 rs2 imm =
      (imm / 4096 % 2) * 2147483648 + (imm / 32 % 64) * 33554432 + rs2 * 1048576 + rs1 * 32768 + f3 * 4096 +
       (imm / 2 % 16) * 256 + (imm / 2048 % 2) * 128 + opc := by
  rw [packB_eq _ _ _ _ _ h1 h2 h4 h5]; omega

theorem packU_norm (opc rd imm : Nat) (h1 : opc < 128) (h3 : rd < 32) :
    packU opc rd imm = (imm % 1048576) * 4096 + rd * 128 + opc := by
  rw [packU_eq _ _ _ h1 h3]; omega

theorem packJ_norm (opc rd imm : Nat) (h1 : opc < 128) (h3 : rd < 32) :
    packJ opc rd imm =
      (imm / 1048576 % 2) * 2147483648 + (imm / 2 % 1024) * 2097152 + (imm / 2048 % 2) * 1048576 + (imm / 4096 % 256) * 4096 +
       rd * 128 + opc := by
  rw [packJ_eq _ _ _ h1 h3]; omega

theorem packR_norm (opc f3 f7 rd rs1 rs2 : Nat) (h1 : opc < 128) (h2 : f3 < 8) (h3 : rd < 32) (h4 : rs1 < 32) (h5 : rs2 < 32) (h6 : f7 < 128) :
    packR opc f3 f7 rd rs1 rs2 = f7 * 33554432 + rs2 * 1048576 + rs1 * 32768 + f3 * 4096 + rd * 128 + opc := by
  rw [packR_eq _ _ _ _ _ _ h1 h2 h3 h4 h5]; omega

theorem packR4_norm (opc f3 f2 rd rs1 rs2 rs3 : Nat) (h1 : opc < 128) (h2 : f3 < 8) (h3 : rd < 32) (h4 : rs1 < 32)
    (h5 : rs2 < 32) (h6 : f2 < 4) (h7 : rs3 < 32) :
    packR4 opc f3 f2 rd rs1 rs2 rs3 =
      rs3 * 134217728 + f2 * 33554432 + rs2 * 1048576 + rs1 * 32768 + f3 * 4096 + rd * 128 + opc := by
  rw [packR4_eq _ _ _ _ _ _ _ h1 h2 h3 h4 h5 h6]; omega

/-- sign extension undoes two's complement truncation on the signed range -/
theorem sext12_mod (imm : Int) (h : -2048 ≤ imm ∧ imm ≤ 2047) : sext 12 (imm % 4096).toNat = imm := by
  unfold sext; split <;> omega
theorem sext13_mod (imm : Int) (h : -4096 ≤ imm ∧ imm ≤ 4095) : sext 13 (imm % 8192).toNat = imm := by
  unfold sext; split <;> omega
theorem sext21_mod (imm : Int) (h : -1048576 ≤ imm ∧ imm ≤ 1048575) : sext 21 (imm % 2097152).toNat = imm := by
  unfold sext; split <;> omega

/-! ### field extraction from positional sums; decode-of-encode per format -/

theorem fieldOf_some (c : RC) (r v : Nat) (h : fieldOf c r = some v) :
    v < 32 ∧ regOf c v = r ∧ (c = .N → r = 0) := by
  cases c <;> simp only [fieldOf] at h <;> split at h <;> simp at h <;> subst h <;> simp [regOf] <;> omega

theorem xR (f7 f3 rd rs1 rs2 opc : Nat) (h7 : f7 < 128) (h1 : opc < 128) (h2 : f3 < 8) (h3 : rd < 32) (h4 : rs1 < 32) (h5 : rs2 < 32) :
    ∀ w, w = f7 * 33554432 + rs2 * 1048576 + rs1 * 32768 + f3 * 4096 + rd * 128 + opc →
    w % 128 = opc ∧ w / 128 % 32 = rd ∧ w / 4096 % 8 = f3 ∧ w / 32768 % 32 = rs1 ∧ w / 1048576 % 32 = rs2 ∧
    w / 33554432 % 128 = f7 ∧ w < 4294967296 := by
  intro w hw; subst hw; refine ⟨?_, ?_, ?_, ?_, ?_, ?_, ?_⟩ <;> omega

theorem dec_R (e : Isa) (hfmt : e.fmt = .R) (hwf : e.wf = true) (r : Row) (hr : rowIsa r e = true)
    (xlen : Nat) (a : Ops) (w : Nat)
    (hrm : if e.f3.isNone then a.rm < 8 else a.rm = 0)
    (h : encode r e xlen a = .ok w) : e.matchesW xlen w = true ∧ e.operands xlen w = a := by
  obtain ⟨mn, fmt, opcode, f3, f7, rs2f, immf, sh, rd, rs1, rs2, rs3, rv64⟩ := e
  obtain ⟨ard, ars1, ars2, ars3, aimm, arm⟩ := a
  simp only at hfmt; subst hfmt
  simp only [Isa.wf, Bool.and_eq_true, decide_eq_true_eq] at hwf
  simp only [rowIsa, Bool.and_eq_true, beq_iff_eq] at hr
  obtain ⟨⟨⟨⟨⟨ho1, _⟩, hf3⟩, hrs2f⟩, _⟩, ⟨⟨⟨⟨⟨⟨hf7, _⟩, _⟩, hrs3⟩, _⟩, himmf⟩, hrs2c⟩⟩ := hwf
  obtain ⟨⟨⟨⟨⟨⟨⟨_, hro⟩, _⟩, hrf3⟩, hrf7⟩, hrrs2⟩, _⟩, _⟩ := hr
  cases f7 with
  | none => simp at hf7
  | some v7 =>
  simp only [decide_eq_true_eq, beq_iff_eq] at hf7 hrf7
  simp only [beq_iff_eq] at hrs3; subst hrs3
  simp only [encode] at h
  split at h
  · simp at h
  · rename_i hrv
    split at h
    · rename_i frd frs1 frs2 frs3 e1 e2 e3 e4
      obtain ⟨b1, g1, _⟩ := fieldOf_some _ _ _ e1
      obtain ⟨b2, g2, _⟩ := fieldOf_some _ _ _ e2
      obtain ⟨b3, g3, n3⟩ := fieldOf_some _ _ _ e3
      obtain ⟨_, _, n4⟩ := fieldOf_some _ _ _ e4
      have hars3 : ars3 = 0 := n4 rfl
      split at h
      · simp at h
      · rename_i himm
        simp only [Decidable.not_not] at himm
        simp only [Res.ok.injEq] at h
        -- the funct3 and rs2 fields actually placed
        have hF3 : (if (f3 : Option Nat).isNone = true then arm else r.funct3) < 8 := by
          cases f3 with
          | none => simpa using hrm
          | some v => simp at hf3 hrf3 ⊢; omega
        have hRS2 : (r.rs2.getD frs2) < 32 := by
          rw [hrrs2]; cases rs2f with
          | none => simpa using b3
          | some v => simpa using hrs2f
        rw [hro, hrf7] at h
        rw [packR_norm _ _ _ _ _ _ ho1 hF3 b1 b2 hRS2 hf7] at h
        obtain ⟨x1, x2, x3, x4, x5, x6, x7⟩ := xR _ _ _ _ _ _ hf7 ho1 hF3 b1 b2 hRS2 w h.symm
        constructor
        · simp only [Isa.matchesW, W32, fOpc, fF3, fRs2, fF7, x1, x3, x5, x6, x7, Bool.and_eq_true, decide_eq_true_eq, beq_iff_eq]
          refine ⟨⟨⟨⟨⟨⟨trivial, trivial⟩, ?_⟩, ?_⟩, ?_⟩, ?_⟩, ?_⟩
          · cases rv64 <;> simp_all
          · cases f3 with
            | none => rfl
            | some v => simp at hrf3 ⊢; exact hrf3
          · rw [hrrs2]; cases rs2f with
            | none => rfl
            | some v => simp
          · cases immf with
            | none => rfl
            | some v => simp at himmf
          · simp
        · simp only [Isa.operands, fRd, fRs1, fRs2, fF3, x2, x3, x4, x5, g1, g2, Ops.mk.injEq, true_and]
          refine ⟨?_, hars3.symm, himm.symm, ?_⟩
          · rw [hrrs2]; cases rs2f with
            | none => simpa using g3
            | some v =>
              have : rs2 = .N := by simpa using hrs2c
              subst this; simp [regOf]; exact (n3 rfl).symm
          · cases f3 with
            | none => simp
            | some v => simpa using hrm.symm
    · simp at h

theorem xS (a b opc f3 rs1 rs2 : Nat) (ha : a < 128) (hb : b < 32) (h1 : opc < 128) (h2 : f3 < 8) (h4 : rs1 < 32) (h5 : rs2 < 32) :
    ∀ w, w = a * 33554432 + rs2 * 1048576 + rs1 * 32768 + f3 * 4096 + b * 128 + opc →
    w % 128 = opc ∧ w / 4096 % 8 = f3 ∧ w / 32768 % 32 = rs1 ∧ w / 1048576 % 32 = rs2 ∧ w / 33554432 % 128 = a ∧ w / 128 % 32 = b ∧ w < 4294967296 := by
  intro w hw; subst hw; refine ⟨?_, ?_, ?_, ?_, ?_, ?_, ?_⟩ <;> omega

theorem xB (a b c d opc f3 rs1 rs2 : Nat) (ha : a < 2) (hb : b < 64) (hc : c < 16) (hd : d < 2)
    (h1 : opc < 128) (h2 : f3 < 8) (h4 : rs1 < 32) (h5 : rs2 < 32) :
    ∀ w, w = a * 2147483648 + b * 33554432 + rs2 * 1048576 + rs1 * 32768 + f3 * 4096 + c * 256 + d * 128 + opc →
    w % 128 = opc ∧ w / 4096 % 8 = f3 ∧ w / 32768 % 32 = rs1 ∧ w / 1048576 % 32 = rs2 ∧
    w / 2147483648 % 2 = a ∧ w / 128 % 2 = d ∧ w / 33554432 % 64 = b ∧ w / 256 % 16 = c ∧ w < 4294967296 := by
  intro w hw; subst hw; refine ⟨?_, ?_, ?_, ?_, ?_, ?_, ?_, ?_, ?_⟩ <;> omega

theorem xJ (a b c d opc rd : Nat) (ha : a < 2) (hb : b < 1024) (hc : c < 2) (hd : d < 256) (h1 : opc < 128) (h3 : rd < 32) :
    ∀ w, w = a * 2147483648 + b * 2097152 + c * 1048576 + d * 4096 + rd * 128 + opc →
    w % 128 = opc ∧ w / 128 % 32 = rd ∧
    w / 2147483648 % 2 = a ∧ w / 4096 % 256 = d ∧ w / 1048576 % 2 = c ∧ w / 2097152 % 1024 = b ∧ w < 4294967296 := by
  intro w hw; subst hw; refine ⟨?_, ?_, ?_, ?_, ?_, ?_, ?_⟩ <;> omega

theorem xR4 (rs3 f2 f3 rd rs1 rs2 opc : Nat) (h8 : rs3 < 32) (h7 : f2 < 4) (h1 : opc < 128) (h2 : f3 < 8) (h3 : rd < 32)
    (h4 : rs1 < 32) (h5 : rs2 < 32) :
    ∀ w, w = rs3 * 134217728 + f2 * 33554432 + rs2 * 1048576 + rs1 * 32768 + f3 * 4096 + rd * 128 + opc →
    w % 128 = opc ∧ w / 128 % 32 = rd ∧ w / 4096 % 8 = f3 ∧ w / 32768 % 32 = rs1 ∧ w / 1048576 % 32 = rs2 ∧
    w / 33554432 % 4 = f2 ∧ w / 134217728 % 32 = rs3 ∧ w < 4294967296 := by
  intro w hw; subst hw; refine ⟨?_, ?_, ?_, ?_, ?_, ?_, ?_, ?_⟩ <;> omega

theorem xI (t f3 rd rs1 opc : Nat) (ht : t < 4096) (h1 : opc < 128) (h2 : f3 < 8) (h3 : rd < 32) (h4 : rs1 < 32) :
    ∀ w, w = t * 1048576 + rs1 * 32768 + f3 * 4096 + rd * 128 + opc →
    w % 128 = opc ∧ w / 128 % 32 = rd ∧ w / 4096 % 8 = f3 ∧ w / 32768 % 32 = rs1 ∧ w / 1048576 = t ∧ w < 4294967296 := by
  intro w hw; subst hw; refine ⟨?_, ?_, ?_, ?_, ?_, ?_⟩ <;> omega

theorem xU (t rd opc : Nat) (ht : t < 1048576) (h1 : opc < 128) (h3 : rd < 32) :
    ∀ w, w = t * 4096 + rd * 128 + opc →
    w % 128 = opc ∧ w / 128 % 32 = rd ∧ w / 4096 % 1048576 = t ∧ w < 4294967296 := by
  intro w hw; subst hw; refine ⟨?_, ?_, ?_, ?_⟩ <;> omega


theorem dec_R4 (e : Isa) (hfmt : e.fmt = .R4) (hwf : e.wf = true) (r : Row) (hr : rowIsa r e = true)
    (xlen : Nat) (a : Ops) (w : Nat) (hrm : a.rm < 8)
    (h : encode r e xlen a = .ok w) : e.matchesW xlen w = true ∧ e.operands xlen w = a := by
  obtain ⟨mn, fmt, opcode, f3, f7, rs2f, immf, sh, rd, rs1, rs2, rs3, rv64⟩ := e
  obtain ⟨ard, ars1, ars2, ars3, aimm, arm⟩ := a
  simp only at hfmt; subst hfmt
  simp only [Isa.wf, Bool.and_eq_true, decide_eq_true_eq] at hwf
  simp only [rowIsa, Bool.and_eq_true, beq_iff_eq] at hr
  obtain ⟨⟨⟨⟨⟨ho1, _⟩, _⟩, _⟩, _⟩, ⟨⟨⟨⟨⟨⟨⟨⟨hf7, hf3⟩, _⟩, _⟩, _⟩, _⟩, _⟩, himmf⟩, hrs2f⟩⟩ := hwf
  obtain ⟨⟨⟨⟨⟨⟨⟨_, hro⟩, _⟩, _⟩, hrf7⟩, _⟩, _⟩, _⟩ := hr
  cases f7 with
  | none => simp at hf7
  | some v7 =>
  cases f3 with
  | some v => simp at hf3
  | none =>
  cases immf with
  | some v => simp at himmf
  | none =>
  cases rs2f with
  | some v => simp at hrs2f
  | none =>
  simp only [decide_eq_true_eq, beq_iff_eq] at hf7 hrf7
  simp only [encode] at h
  split at h
  · simp at h
  · rename_i hrv
    split at h
    · rename_i frd frs1 frs2 frs3 e1 e2 e3 e4
      obtain ⟨b1, g1, _⟩ := fieldOf_some _ _ _ e1
      obtain ⟨b2, g2, _⟩ := fieldOf_some _ _ _ e2
      obtain ⟨b3, g3, _⟩ := fieldOf_some _ _ _ e3
      obtain ⟨b4, g4, _⟩ := fieldOf_some _ _ _ e4
      split at h
      · simp at h
      · rename_i himm
        simp only [Decidable.not_not] at himm
        simp only [Res.ok.injEq] at h
        simp only at hrm
        rw [hro, hrf7] at h
        rw [packR4_norm _ _ _ _ _ _ _ ho1 hrm b1 b2 b3 hf7 b4] at h
        obtain ⟨x1, x2, x3, x4, x5, x6, x7, x8⟩ := xR4 _ _ _ _ _ _ _ b4 hf7 ho1 hrm b1 b2 b3 w h.symm
        constructor
        · simp only [Isa.matchesW, W32, fOpc, fF2, x1, x6, x8, Bool.and_eq_true, decide_eq_true_eq, beq_iff_eq]
          refine ⟨⟨⟨⟨⟨⟨trivial, trivial⟩, ?_⟩, trivial⟩, trivial⟩, trivial⟩, ?_⟩
          · cases rv64 <;> simp_all
          · simp
        · simp only [Isa.operands, fRd, fRs1, fRs2, fRs3, fF3, x2, x3, x4, x5, x7, g1, g2, g3, g4, Ops.mk.injEq, true_and]
          exact ⟨himm.symm, trivial⟩
    · simp at h

theorem dec_S (e : Isa) (hfmt : e.fmt = .S) (hwf : e.wf = true) (r : Row) (hr : rowIsa r e = true)
    (xlen : Nat) (a : Ops) (w : Nat) (hrm : a.rm = 0)
    (h : encode r e xlen a = .ok w) : e.matchesW xlen w = true ∧ e.operands xlen w = a := by
  obtain ⟨mn, fmt, opcode, f3, f7, rs2f, immf, sh, rd, rs1, rs2, rs3, rv64⟩ := e
  obtain ⟨ard, ars1, ars2, ars3, aimm, arm⟩ := a
  simp only at hfmt; subst hfmt
  simp only [Isa.wf, Bool.and_eq_true, decide_eq_true_eq] at hwf
  simp only [rowIsa, Bool.and_eq_true, beq_iff_eq] at hr
  obtain ⟨⟨⟨⟨⟨ho1, _⟩, hf3⟩, _⟩, _⟩, ⟨⟨⟨⟨⟨⟨⟨⟨hf3s, hf7⟩, hrd⟩, _⟩, _⟩, hrs3⟩, _⟩, himmf⟩, hrs2f⟩⟩ := hwf
  obtain ⟨⟨⟨⟨⟨⟨⟨_, hro⟩, _⟩, hrf3⟩, _⟩, _⟩, _⟩, _⟩ := hr
  cases f3 with
  | none => simp at hf3s
  | some v3 =>
  cases f7 with
  | some v => simp at hf7
  | none =>
  cases immf with
  | some v => simp at himmf
  | none =>
  cases rs2f with
  | some v => simp at hrs2f
  | none =>
  simp only [decide_eq_true_eq, beq_iff_eq] at hf3 hrf3 hrd hrs3
  subst hrd hrs3
  simp only [encode] at h
  split at h
  · simp at h
  · rename_i hrv
    split at h
    · rename_i frd frs1 frs2 frs3 e1 e2 e3 e4
      obtain ⟨_, _, n1⟩ := fieldOf_some _ _ _ e1
      obtain ⟨b2, g2, _⟩ := fieldOf_some _ _ _ e2
      obtain ⟨b3, g3, _⟩ := fieldOf_some _ _ _ e3
      obtain ⟨_, _, n4⟩ := fieldOf_some _ _ _ e4
      split at h
      · rename_i himm
        simp only [Res.ok.injEq] at h
        simp only at hrm
        have hu := toU32_mod4096 aimm
        have hs := sext12_mod aimm himm
        generalize toU32 aimm = u at hu h
        rw [hro, hrf3] at h
        rw [packS_norm _ _ _ _ _ ho1 hf3 b2 b3] at h
        obtain ⟨x1, x2, x3, x4, x5, x6, x7⟩ := xS (u % 4096 / 32) (u % 32) _ _ _ _ (by omega) (by omega) ho1 hf3 b2 b3 w h.symm
        constructor
        · simp only [Isa.matchesW, W32, fOpc, fF3, x1, x2, x7, Bool.and_eq_true, decide_eq_true_eq, beq_iff_eq]
          refine ⟨⟨⟨⟨⟨⟨trivial, trivial⟩, ?_⟩, trivial⟩, trivial⟩, trivial⟩, trivial⟩
          cases rv64 <;> simp_all
        · simp only [Isa.operands, fRs1, fRs2, immS, x3, x4, x5, x6, g2, g3, Ops.mk.injEq, true_and]
          refine ⟨(n1 rfl).symm, (n4 rfl).symm, ?_, hrm.symm⟩
          have : u % 4096 / 32 * 32 + u % 32 = u % 4096 := by omega
          rw [this, hu]; exact hs
      · simp at h
    · simp at h


theorem decompB (u : Nat) (he : u % 2 = 0) :
    u / 4096 % 2 * 4096 + u / 2048 % 2 * 2048 + u / 32 % 64 * 32 + u / 2 % 16 * 2 = u % 8192 := by omega
theorem decompJ (u : Nat) (he : u % 2 = 0) :
    u / 1048576 % 2 * 1048576 + u / 4096 % 256 * 4096 + u / 2048 % 2 * 2048 + u / 2 % 1024 * 2 = u % 2097152 := by omega
theorem decompS (u : Nat) : u % 4096 / 32 * 32 + u % 32 = u % 4096 := by omega

theorem dec_B (e : Isa) (hfmt : e.fmt = .B) (hwf : e.wf = true) (r : Row) (hr : rowIsa r e = true)
    (xlen : Nat) (a : Ops) (w : Nat) (hrm : a.rm = 0)
    (h : encode r e xlen a = .ok w) : e.matchesW xlen w = true ∧ e.operands xlen w = a := by
  obtain ⟨mn, fmt, opcode, f3, f7, rs2f, immf, sh, rd, rs1, rs2, rs3, rv64⟩ := e
  obtain ⟨ard, ars1, ars2, ars3, aimm, arm⟩ := a
  simp only at hfmt; subst hfmt
  simp only [Isa.wf, Bool.and_eq_true, decide_eq_true_eq] at hwf
  simp only [rowIsa, Bool.and_eq_true, beq_iff_eq] at hr
  obtain ⟨⟨⟨⟨⟨ho1, _⟩, hf3⟩, _⟩, _⟩, ⟨⟨⟨⟨⟨⟨⟨⟨hf3s, hf7⟩, hrd⟩, _⟩, _⟩, hrs3⟩, _⟩, himmf⟩, hrs2f⟩⟩ := hwf
  obtain ⟨⟨⟨⟨⟨⟨⟨_, hro⟩, _⟩, hrf3⟩, _⟩, _⟩, _⟩, _⟩ := hr
  cases f3 with
  | none => simp at hf3s
  | some v3 =>
  cases f7 with
  | some v => simp at hf7
  | none =>
  cases immf with
  | some v => simp at himmf
  | none =>
  cases rs2f with
  | some v => simp at hrs2f
  | none =>
  simp only [decide_eq_true_eq, beq_iff_eq] at hf3 hrf3 hrd hrs3
  subst hrd hrs3
  simp only [encode] at h
  split at h
  · simp at h
  · rename_i hrv
    split at h
    · rename_i frd frs1 frs2 frs3 e1 e2 e3 e4
      obtain ⟨_, _, n1⟩ := fieldOf_some _ _ _ e1
      obtain ⟨b2, g2, _⟩ := fieldOf_some _ _ _ e2
      obtain ⟨b3, g3, _⟩ := fieldOf_some _ _ _ e3
      obtain ⟨_, _, n4⟩ := fieldOf_some _ _ _ e4
      split at h
      · rename_i himm
        simp only [Res.ok.injEq] at h
        simp only at hrm
        have hu := toU32_mod8192 aimm
        have hs := sext13_mod aimm ⟨himm.1, by omega⟩
        have he : toU32 aimm % 2 = 0 := by unfold toU32; omega
        generalize toU32 aimm = u at hu h he
        rw [hro, hrf3] at h
        rw [packB_norm _ _ _ _ _ ho1 hf3 b2 b3] at h
        obtain ⟨x1, x2, x3, x4, x5, x6, x7, x8, x9⟩ :=
          xB (u / 4096 % 2) (u / 32 % 64) (u / 2 % 16) (u / 2048 % 2) _ _ _ _ (by omega) (by omega) (by omega) (by omega) ho1 hf3 b2 b3 w h.symm
        constructor
        · simp only [Isa.matchesW, W32, fOpc, fF3, x1, x2, x9, Bool.and_eq_true, decide_eq_true_eq, beq_iff_eq]
          refine ⟨⟨⟨⟨⟨⟨trivial, trivial⟩, ?_⟩, trivial⟩, trivial⟩, trivial⟩, trivial⟩
          cases rv64 <;> simp_all
        · simp only [Isa.operands, fRs1, fRs2, immB, x3, x4, x5, x6, x7, x8, g2, g3, Ops.mk.injEq, true_and]
          refine ⟨(n1 rfl).symm, (n4 rfl).symm, ?_, hrm.symm⟩
          rw [decompB u he, hu]; exact hs
      · simp at h
    · simp at h

theorem dec_U (e : Isa) (hfmt : e.fmt = .U) (hwf : e.wf = true) (r : Row) (hr : rowIsa r e = true)
    (xlen : Nat) (a : Ops) (w : Nat) (hrm : a.rm = 0)
    (h : encode r e xlen a = .ok w) : e.matchesW xlen w = true ∧ e.operands xlen w = a := by
  obtain ⟨mn, fmt, opcode, f3, f7, rs2f, immf, sh, rd, rs1, rs2, rs3, rv64⟩ := e
  obtain ⟨ard, ars1, ars2, ars3, aimm, arm⟩ := a
  simp only at hfmt; subst hfmt
  simp only [Isa.wf, Bool.and_eq_true, decide_eq_true_eq] at hwf
  simp only [rowIsa, Bool.and_eq_true, beq_iff_eq] at hr
  obtain ⟨⟨⟨⟨⟨ho1, _⟩, _⟩, _⟩, _⟩, ⟨⟨⟨⟨⟨⟨⟨⟨hf3s, hf7⟩, _⟩, hrs1⟩, hrs2⟩, hrs3⟩, _⟩, himmf⟩, hrs2f⟩⟩ := hwf
  obtain ⟨⟨⟨⟨⟨⟨⟨_, hro⟩, _⟩, _⟩, _⟩, _⟩, _⟩, _⟩ := hr
  cases f3 with
  | some v => simp at hf3s
  | none =>
  cases f7 with
  | some v => simp at hf7
  | none =>
  cases immf with
  | some v => simp at himmf
  | none =>
  cases rs2f with
  | some v => simp at hrs2f
  | none =>
  simp only [beq_iff_eq] at hrs1 hrs2 hrs3
  subst hrs1 hrs2 hrs3
  simp only [encode] at h
  split at h
  · simp at h
  · rename_i hrv
    split at h
    · rename_i frd frs1 frs2 frs3 e1 e2 e3 e4
      obtain ⟨b1, g1, _⟩ := fieldOf_some _ _ _ e1
      obtain ⟨_, _, n2⟩ := fieldOf_some _ _ _ e2
      obtain ⟨_, _, n3⟩ := fieldOf_some _ _ _ e3
      obtain ⟨_, _, n4⟩ := fieldOf_some _ _ _ e4
      split at h
      · rename_i himm
        simp only [Res.ok.injEq] at h
        simp only at hrm
        have hu : toU32 aimm % 1048576 = aimm.toNat := by unfold toU32; omega
        generalize toU32 aimm = u at hu h
        rw [hro] at h
        rw [packU_norm _ _ _ ho1 b1] at h
        obtain ⟨x1, x2, x3, x4⟩ := xU (u % 1048576) _ _ (by omega) ho1 b1 w h.symm
        constructor
        · simp only [Isa.matchesW, W32, fOpc, x1, x4, Bool.and_eq_true, decide_eq_true_eq, beq_iff_eq]
          refine ⟨⟨⟨⟨⟨⟨trivial, trivial⟩, ?_⟩, trivial⟩, trivial⟩, trivial⟩, trivial⟩
          cases rv64 <;> simp_all
        · simp only [Isa.operands, fRd, immU, x2, x3, g1, Ops.mk.injEq, true_and]
          refine ⟨(n2 rfl).symm, (n3 rfl).symm, (n4 rfl).symm, ?_, hrm.symm⟩
          rw [hu]; omega
      · simp at h
    · simp at h

theorem dec_J (e : Isa) (hfmt : e.fmt = .J) (hwf : e.wf = true) (r : Row) (hr : rowIsa r e = true)
    (xlen : Nat) (a : Ops) (w : Nat) (hrm : a.rm = 0)
    (h : encode r e xlen a = .ok w) : e.matchesW xlen w = true ∧ e.operands xlen w = a := by
  obtain ⟨mn, fmt, opcode, f3, f7, rs2f, immf, sh, rd, rs1, rs2, rs3, rv64⟩ := e
  obtain ⟨ard, ars1, ars2, ars3, aimm, arm⟩ := a
  simp only at hfmt; subst hfmt
  simp only [Isa.wf, Bool.and_eq_true, decide_eq_true_eq] at hwf
  simp only [rowIsa, Bool.and_eq_true, beq_iff_eq] at hr
  obtain ⟨⟨⟨⟨⟨ho1, _⟩, _⟩, _⟩, _⟩, ⟨⟨⟨⟨⟨⟨⟨⟨hf3s, hf7⟩, _⟩, hrs1⟩, hrs2⟩, hrs3⟩, _⟩, himmf⟩, hrs2f⟩⟩ := hwf
  obtain ⟨⟨⟨⟨⟨⟨⟨_, hro⟩, _⟩, _⟩, _⟩, _⟩, _⟩, _⟩ := hr
  cases f3 with
  | some v => simp at hf3s
  | none =>
  cases f7 with
  | some v => simp at hf7
  | none =>
  cases immf with
  | some v => simp at himmf
  | none =>
  cases rs2f with
  | some v => simp at hrs2f
  | none =>
  simp only [beq_iff_eq] at hrs1 hrs2 hrs3
  subst hrs1 hrs2 hrs3
  simp only [encode] at h
  split at h
  · simp at h
  · rename_i hrv
    split at h
    · rename_i frd frs1 frs2 frs3 e1 e2 e3 e4
      obtain ⟨b1, g1, _⟩ := fieldOf_some _ _ _ e1
      obtain ⟨_, _, n2⟩ := fieldOf_some _ _ _ e2
      obtain ⟨_, _, n3⟩ := fieldOf_some _ _ _ e3
      obtain ⟨_, _, n4⟩ := fieldOf_some _ _ _ e4
      split at h
      · rename_i himm
        simp only [Res.ok.injEq] at h
        simp only at hrm
        have hu := toU32_mod2m aimm
        have hs := sext21_mod aimm ⟨himm.1, by omega⟩
        have he : toU32 aimm % 2 = 0 := by unfold toU32; omega
        generalize toU32 aimm = u at hu h he
        rw [hro] at h
        rw [packJ_norm _ _ _ ho1 b1] at h
        obtain ⟨x1, x2, x3, x4, x5, x6, x7⟩ :=
          xJ (u / 1048576 % 2) (u / 2 % 1024) (u / 2048 % 2) (u / 4096 % 256) _ _ (by omega) (by omega) (by omega) (by omega) ho1 b1 w h.symm
        constructor
        · simp only [Isa.matchesW, W32, fOpc, x1, x7, Bool.and_eq_true, decide_eq_true_eq, beq_iff_eq]
          refine ⟨⟨⟨⟨⟨⟨trivial, trivial⟩, ?_⟩, trivial⟩, trivial⟩, trivial⟩, trivial⟩
          cases rv64 <;> simp_all
        · simp only [Isa.operands, fRd, immJ, x2, x3, x4, x5, x6, g1, Ops.mk.injEq, true_and]
          refine ⟨(n2 rfl).symm, (n3 rfl).symm, (n4 rfl).symm, ?_, hrm.symm⟩
          rw [decompJ u he, hu]; exact hs
      · simp at h
    · simp at h


theorem shx64 (v7 s w : Nat) (he : v7 % 2 = 0) (hs : s ≤ 63) (hw : w / 1048576 = v7 * 32 + s) :
    w / 67108864 = v7 / 2 ∧ w / 1048576 % 64 = s := by omega
theorem shx32 (v7 s w : Nat) (hs : s ≤ 31) (hv : v7 < 128) (hw : w / 1048576 = v7 * 32 + s) :
    w / 33554432 % 128 = v7 ∧ w / 1048576 % 32 = s := by omega

theorem dec_I (e : Isa) (hfmt : e.fmt = .I) (hwf : e.wf = true) (r : Row) (hr : rowIsa r e = true)
    (xlen : Nat) (a : Ops) (w : Nat) (hrm : a.rm = 0)
    (h : encode r e xlen a = .ok w) : e.matchesW xlen w = true ∧ e.operands xlen w = a := by
  obtain ⟨mn, fmt, opcode, f3, f7, rs2f, immf, sh, rd, rs1, rs2, rs3, rv64⟩ := e
  obtain ⟨ard, ars1, ars2, ars3, aimm, arm⟩ := a
  simp only at hfmt; subst hfmt
  simp only [Isa.wf, Bool.and_eq_true, decide_eq_true_eq] at hwf
  simp only [rowIsa, Bool.and_eq_true, beq_iff_eq] at hr
  obtain ⟨⟨⟨⟨⟨ho1, _⟩, hf3⟩, _⟩, himmb⟩, ⟨⟨⟨⟨hf3s, hrs2⟩, hrs3⟩, hrs2f⟩, hrest⟩⟩ := hwf
  obtain ⟨⟨⟨⟨⟨⟨⟨_, hro⟩, _⟩, hrf3⟩, hrf7⟩, _⟩, _⟩, _⟩ := hr
  cases f3 with
  | none => simp at hf3s
  | some v3 =>
  cases rs2f with
  | some v => simp at hrs2f
  | none =>
  simp only [decide_eq_true_eq, beq_iff_eq] at hf3 hrf3 hrs2 hrs3
  subst hrs2 hrs3
  simp only [encode] at h
  split at h
  · simp at h
  · rename_i hrv
    have hrv' : rv64 = false ∨ xlen = 64 := by cases rv64 <;> simp_all
    split at h
    · rename_i frd frs1 frs2 frs3 e1 e2 e3 e4
      obtain ⟨b1, g1, n1⟩ := fieldOf_some _ _ _ e1
      obtain ⟨b2, g2, n2⟩ := fieldOf_some _ _ _ e2
      obtain ⟨_, _, n3⟩ := fieldOf_some _ _ _ e3
      obtain ⟨_, _, n4⟩ := fieldOf_some _ _ _ e4
      simp only at hrm
      cases immf with
      | some vi =>
        -- ECALL / EBREAK
        simp only [Option.isSome_some, if_true, Bool.and_eq_true, beq_iff_eq] at hrest
        obtain ⟨⟨⟨hrd, hrs1⟩, hsh⟩, hf7n⟩ := hrest
        subst hrd hrs1
        simp only [decide_eq_true_eq] at himmb
        simp only at h
        split at h
        · simp at h
        · rename_i himm
          simp only [Decidable.not_not] at himm
          simp only [Res.ok.injEq] at h
          rw [hro, hrf3] at h
          rw [packI_norm _ _ _ _ _ ho1 hf3 (by omega) (by omega)] at h
          obtain ⟨x1, x2, x3, x4, x5, x6⟩ := xI (vi % 4096) _ 0 0 _ (by omega) ho1 hf3 (by omega) (by omega) w h.symm
          have hvi : vi % 4096 = vi := by omega
          constructor
          · simp only [Isa.matchesW, W32, fOpc, fF3, fRd, fRs1, x1, x2, x3, x4, x5, x6, hvi, Bool.and_eq_true, decide_eq_true_eq, beq_iff_eq]
            refine ⟨⟨⟨⟨⟨⟨trivial, trivial⟩, ?_⟩, trivial⟩, trivial⟩, ⟨⟨trivial, trivial⟩, trivial⟩⟩, ?_⟩
            · simpa using hrv'
            · cases f7 with
              | none => rfl
              | some v => simp at hf7n
          · simp only [Isa.operands, regOf, Option.isSome_some, if_true, Ops.mk.injEq]
            exact ⟨(n1 rfl).symm, (n2 rfl).symm, (n3 rfl).symm, (n4 rfl).symm, himm.symm, hrm.symm⟩
      | none =>
        simp only [Option.isSome_none, Bool.false_eq_true, if_false, Bool.and_eq_true, bne_iff_ne] at hrest
        obtain ⟨⟨_, _⟩, hshf⟩ := hrest
        simp only at h
        by_cases hsh0 : sh = 0
        · -- plain I-type immediate
          subst hsh0
          simp only [beq_self_eq_true, if_true] at h hshf
          cases f7 with
          | some v => simp at hshf
          | none =>
          split at h
          · rename_i himm
            simp only [Res.ok.injEq] at h
            have hu := toU32_mod4096 aimm
            have hs := sext12_mod aimm himm
            generalize toU32 aimm = u at hu h
            rw [hro, hrf3] at h
            rw [packI_norm _ _ _ _ _ ho1 hf3 b1 b2] at h
            obtain ⟨x1, x2, x3, x4, x5, x6⟩ := xI (u % 4096) _ _ _ _ (by omega) ho1 hf3 b1 b2 w h.symm
            constructor
            · simp only [Isa.matchesW, W32, fOpc, fF3, x1, x3, x6, Bool.and_eq_true, decide_eq_true_eq, beq_iff_eq]
              refine ⟨⟨⟨⟨⟨⟨trivial, trivial⟩, ?_⟩, trivial⟩, trivial⟩, trivial⟩, trivial⟩
              simpa using hrv'
            · simp only [Isa.operands, fRd, fRs1, immI, x2, x4, x5, g1, g2, Option.isSome_none, Bool.false_eq_true, if_false,
                beq_self_eq_true, if_true, Ops.mk.injEq, true_and]
              refine ⟨(n3 rfl).symm, (n4 rfl).symm, ?_, hrm.symm⟩
              have : u % 4096 % 4096 = u % 4096 := by omega
              rw [this, hu]; exact hs
          · simp at h
        · -- shift: imm field = funct7 ++ shamt
          have hsh0' : (sh == 0) = false := by simpa using hsh0
          simp only [hsh0', Bool.false_eq_true, if_false] at h hshf
          cases f7 with
          | none => simp at hshf
          | some v7 =>
          simp only [Bool.and_eq_true, Bool.or_eq_true, beq_iff_eq, decide_eq_true_eq] at hshf hrf7
          obtain ⟨hsh56, hv7, hv7e⟩ := hshf
          split at h
          · rename_i himm
            simp only [Res.ok.injEq] at h
            have hlim : shLimit sh xlen ≤ 63 := by unfold shLimit; split <;> omega
            have hu : toU32 aimm = aimm.toNat := by unfold toU32; omega
            rw [hu, hro, hrf3, hrf7] at h
            have hor : v7 <<< 5 ||| aimm.toNat = v7 * 32 + aimm.toNat := by
              rw [Nat.shiftLeft_eq]; exact lor_eq_add 6 _ _ (by omega) (by omega)
            rw [hor] at h
            rw [packI_norm _ _ _ _ _ ho1 hf3 b1 b2] at h
            have ht : (v7 * 32 + aimm.toNat) % 4096 = v7 * 32 + aimm.toNat := by omega
            rw [ht] at h
            obtain ⟨x1, x2, x3, x4, x5, x6⟩ := xI (v7 * 32 + aimm.toNat) _ _ _ _ (by omega) ho1 hf3 b1 b2 w h.symm
            constructor
            · simp only [Isa.matchesW, W32, fOpc, fF3, fF7, x1, x3, x6, Bool.and_eq_true, decide_eq_true_eq, beq_iff_eq]
              refine ⟨⟨⟨⟨⟨⟨trivial, trivial⟩, ?_⟩, trivial⟩, trivial⟩, trivial⟩, ?_⟩
              · simpa using hrv'
              · split
                · rename_i h64
                  have hl : shLimit sh xlen = 63 := by simp [shLimit, h64]
                  have hs : aimm.toNat ≤ 63 := by omega
                  simp only [beq_iff_eq]; exact (shx64 v7 _ w hv7e hs x5).1
                · rename_i h64
                  have hl : shLimit sh xlen = 31 := by simp [shLimit, h64]
                  have hs : aimm.toNat ≤ 31 := by omega
                  simp only [beq_iff_eq]; exact (shx32 v7 _ w hs hv7 x5).1
            · simp only [Isa.operands, fRd, fRs1, x2, x4, x5, g1, g2, Option.isSome_none, Bool.false_eq_true, if_false,
                hsh0', Ops.mk.injEq, true_and]
              refine ⟨(n3 rfl).symm, (n4 rfl).symm, ?_, hrm.symm⟩
              split
              · rename_i h64
                have hl : shLimit sh xlen = 63 := by simp [shLimit, h64]
                have hs : aimm.toNat ≤ 63 := by omega
                omega
              · rename_i h64
                have hl : shLimit sh xlen = 31 := by simp [shLimit, h64]
                have hs : aimm.toNat ≤ 31 := by omega
                omega
          · simp at h
    · simp at h


theorem disjoint_sound (a b : Isa) (xlen w : Nat) (hd : a.disjoint b = true)
    (ha : a.matchesW xlen w = true) (hb : b.matchesW xlen w = true) : False := by
  obtain ⟨amn, afmt, aopc, af3, af7, ars2f, aimmf, ash, _, _, _, _, arv⟩ := a
  obtain ⟨bmn, bfmt, bopc, bf3, bf7, brs2f, bimmf, bsh, _, _, _, _, brv⟩ := b
  simp only [Isa.matchesW, Bool.and_eq_true, decide_eq_true_eq, beq_iff_eq] at ha hb
  obtain ⟨⟨⟨⟨⟨⟨_, ao⟩, _⟩, a3⟩, a2⟩, ai⟩, a7⟩ := ha
  obtain ⟨⟨⟨⟨⟨⟨_, bo⟩, _⟩, b3⟩, b2⟩, bi⟩, b7⟩ := hb
  simp only [Isa.disjoint, Bool.or_eq_true, bne_iff_ne] at hd
  rcases hd with (((h | h) | h) | h) | h
  · exact h (ao.symm.trans bo)
  · cases af3 <;> cases bf3 <;> simp at h a3 b3; omega
  · cases ars2f <;> cases brs2f <;> simp at h a2 b2; omega
  · cases aimmf <;> cases bimmf <;> simp at h ai bi; omega
  · cases afmt <;> cases bfmt <;> cases af7 <;> cases bf7 <;> simp at h a7 b7
    · omega
    · omega
    · obtain ⟨hs, hne⟩ := h
      subst hs
      split at a7 <;> split at b7 <;> simp_all <;> omega

theorem mem_of_pairwiseDisjoint : ∀ (l : List Isa), pairwiseDisjoint l = true →
    ∀ a ∈ l, ∀ b ∈ l, a = b ∨ a.disjoint b = true ∨ b.disjoint a = true := by
  intro l
  induction l with
  | nil => intro _ a ha; cases ha
  | cons x t ih =>
    intro h a ha b hb
    simp only [pairwiseDisjoint, Bool.and_eq_true, List.all_eq_true] at h
    obtain ⟨hx, ht⟩ := h
    rcases List.mem_cons.mp ha with rfl | ha' <;> rcases List.mem_cons.mp hb with rfl | hb'
    · exact Or.inl rfl
    · exact Or.inr (Or.inl (hx b hb'))
    · exact Or.inr (Or.inr (hx a ha'))
    · exact ih ht a ha' b hb'

theorem find?_unique {α : Type} (l : List α) (p : α → Bool) (e : α) (he : e ∈ l) (hp : p e = true)
    (hu : ∀ x ∈ l, p x = true → x = e) : l.find? p = some e := by
  induction l with
  | nil => cases he
  | cons x t ih =>
    simp only [List.find?]
    cases hpx : p x with
    | true => simp; exact hu x (List.mem_cons_self) hpx
    | false =>
      simp
      rcases List.mem_cons.mp he with rfl | he'
      · rw [hp] at hpx; cases hpx
      · exact ih he' (fun y hy => hu y (List.mem_cons_of_mem _ hy))

end Rv
end WaVerif.C17
