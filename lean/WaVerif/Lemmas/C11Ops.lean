import WaVerif.Lemmas.C11Inv
/-! Disciplined mutator operations preserve `Owned`; frame properties of `release`. -/
namespace WaVerif.C11

/-- transfer of `Inv` between configurations with the same allocation status whose counts and reference
numbers moved together -/
theorem inv_transfer {c c' : Cfg} (h : Inv c)
    (hl : c'.st.live = c.st.live) (he : c'.st.err = c.st.err) (hd : dying c'.stk = dying c.stk)
    (hdb : ∀ b ∈ dying c.stk, c'.st.blk b = c.st.blk b)
    (hcnt : ∀ b ∈ c.st.live, b ∉ dying c.stk →
      (c'.st.blk b).rc + refsC c b = (c.st.blk b).rc + refsC c' b ∧ (c.st.blk b).rc ≤ (c'.st.blk b).rc)
    (hdead : ∀ b, (b ∉ c.st.live ∨ b ∈ dying c.stk) → refsC c' b = refsC c b) : Inv c' := by
  constructor
  · rw [hl]; exact h.nodup
  · rw [he]; exact h.noerr
  · rw [hd]; exact h.dyNodup
  · intro b hb
    rw [hd] at hb
    rw [hl, hdb b hb]
    exact h.dyLive b hb
  · intro b hb hnd
    rw [hl] at hb
    rw [hd] at hnd
    have h1 := h.counted b hb hnd
    have h2 := hcnt b hb hnd
    omega
  · intro b hb
    rw [hl, hd] at hb
    rw [hdead b hb]
    exact h.noDangling b hb

theorem heapRefs_ge {s : St} {x : Addr} (b : Addr) (hx : x ∈ s.live) : (s.blk x).kids.count b ≤ heapRefs s b := by
  unfold heapRefs
  have := sum_map_erase (l := s.live) (f := fun a => (s.blk a).kids.count b) hx
  omega

theorem count_pos_of_mem {l : List Addr} {b : Addr} (h : b ∈ l) : 0 < l.count b :=
  List.count_pos_iff.mpr h

/-- what the mutator holds is allocated -/
theorem Owned.root_live {s : St} (h : Owned s) {b : Addr} (hb : b ∈ s.roots) : b ∈ s.live := by
  have : 0 < refsC ⟨s, []⟩ b := by
    have := count_pos_of_mem hb
    simp only [refsC]; omega
  exact (Inv.live_of_refs h this).1

theorem Owned.kid_live {s : St} (h : Owned s) {x b : Addr} (hx : x ∈ s.live) (hb : b ∈ (s.blk x).kids) : b ∈ s.live := by
  have : 0 < refsC ⟨s, []⟩ b := by
    have h1 := count_pos_of_mem hb
    have h2 := heapRefs_ge (s := s) b hx
    simp only [refsC]; omega
  exact (Inv.live_of_refs h this).1

theorem Owned.held_live {s : St} (h : Owned s) {b : Addr} (hb : Held s b) : b ∈ s.live := by
  rcases hb with hb | ⟨x, hx, hb⟩
  · exact h.root_live hb
  · exact h.kid_live (h.root_live hx) hb

theorem count_erase_add {l : List Addr} {b : Addr} (b' : Addr) (hb : b ∈ l) :
    (l.erase b).count b' + (if b = b' then 1 else 0) = l.count b' := by
  by_cases h : b = b'
  · subst h
    have := List.count_erase_self (a := b) (l := l)
    have hp := count_pos_of_mem hb
    simp only [if_true]
    omega
  · have : (l.erase b).count b' = l.count b' := List.count_erase_of_ne (fun e => h e.symm)
    simp [h, this]

theorem owned_alloc {s : St} {a : Addr} (h : Owned s) (ha : a ∉ s.live) : Owned (apply s (.alloc a)) := by
  have h0 := h.noDangling a (Or.inl ha)
  simp only [refsC, pendRefs_nil] at h0
  have hheap : ∀ b, heapRefs (apply s (.alloc a)) b = heapRefs s b := by
    intro b
    have := heapRefs_setBlk_notin (s := s) (x := a) (nb := ⟨1, []⟩) b ha
    unfold heapRefs at this ⊢
    simp only [apply, St.setBlk, List.map_cons, List.sum_cons, if_true, List.count_nil] at this ⊢
    omega
  unfold Owned
  constructor
  · exact List.nodup_cons.mpr ⟨ha, h.nodup⟩
  · exact h.noerr
  · simp
  · intro b hb; simp at hb
  · intro b hb _
    simp only [refsC, pendRefs_nil, hheap b]
    simp only [apply] at hb ⊢
    by_cases hba : b = a
    · subst hba
      simp [St.setBlk]
      omega
    · have hbl : b ∈ s.live := by
        rcases List.mem_cons.mp hb with e | e
        · exact absurd e hba
        · exact e
      have hc := h.counted b hbl (by simp)
      simp only [refsC, pendRefs_nil] at hc
      have hab : ¬ a = b := fun e => hba e.symm
      simp [St.setBlk, hba, hab]
      omega
  · intro b hb
    simp only [dying_nil, List.not_mem_nil, or_false] at hb
    simp only [refsC, pendRefs_nil, hheap b]
    simp only [apply] at hb ⊢
    have hba : b ≠ a := fun e => hb (e ▸ List.mem_cons_self)
    have hbl : b ∉ s.live := fun hh => hb (List.mem_cons_of_mem _ hh)
    have := h.noDangling b (Or.inl hbl)
    simp only [refsC, pendRefs_nil] at this
    have hab : ¬ a = b := fun e => hba e.symm
    simp [hab]
    omega

theorem owned_retain {s : St} {b : Addr} (h : Owned s) (hb : Held s b) : Owned (apply s (.retain b)) := by
  have hbl := h.held_live hb
  apply inv_transfer h
  · rfl
  · rfl
  · rfl
  · intro x hx; simp at hx
  · intro x _ _
    have hh := heapRefs_samekids (s := s) (x := b) (nb := ⟨(s.blk b).rc + 1, (s.blk b).kids⟩) x rfl
    simp only [refsC, apply, pendRefs_nil]
    have e1 : heapRefs { (s.setBlk b ⟨(s.blk b).rc + 1, (s.blk b).kids⟩) with
        roots := b :: s.roots, log := Ev.retain b (s.blk b).rc :: s.log } x
        = heapRefs (s.setBlk b ⟨(s.blk b).rc + 1, (s.blk b).kids⟩) x := rfl
    rw [e1, hh]
    by_cases hxb : x = b
    · subst hxb
      simp [St.setBlk]
      omega
    · have hbx : ¬ b = x := fun e => hxb e.symm
      simp [St.setBlk, hxb, hbx]
  · intro x hx
    simp only [dying_nil, List.not_mem_nil, or_false] at hx
    have hxb : x ≠ b := fun e => hx (e ▸ hbl)
    have hh := heapRefs_samekids (s := s) (x := b) (nb := ⟨(s.blk b).rc + 1, (s.blk b).kids⟩) x rfl
    simp only [refsC, apply, pendRefs_nil]
    have e1 : heapRefs { (s.setBlk b ⟨(s.blk b).rc + 1, (s.blk b).kids⟩) with
        roots := b :: s.roots, log := Ev.retain b (s.blk b).rc :: s.log } x
        = heapRefs (s.setBlk b ⟨(s.blk b).rc + 1, (s.blk b).kids⟩) x := rfl
    rw [e1, hh]
    have hbx : ¬ b = x := fun e => hxb e.symm
    simp [hbx]

theorem owned_store {s : St} {x b : Addr} (h : Owned s) (hb : b ∈ s.roots) (hx : x ∈ s.roots.erase b) :
    Owned (apply s (.store x b)) := by
  have hxl : x ∈ s.live := h.root_live (List.mem_of_mem_erase hx)
  have hrefs : ∀ y, refsC ⟨apply s (.store x b), []⟩ y = refsC ⟨s, []⟩ y := by
    intro y
    have hh := heapRefs_setBlk (s := s) (x := x) (nb := ⟨(s.blk x).rc, b :: (s.blk x).kids⟩) y h.nodup hxl
    simp only [count_cons_ite] at hh
    have hc := count_erase_add y hb
    simp only [refsC, apply, pendRefs_nil]
    have e1 : heapRefs { (s.setBlk x ⟨(s.blk x).rc, b :: (s.blk x).kids⟩) with roots := s.roots.erase b } y
        = heapRefs (s.setBlk x ⟨(s.blk x).rc, b :: (s.blk x).kids⟩) y := rfl
    rw [e1]
    omega
  apply inv_transfer h
  · rfl
  · rfl
  · rfl
  · intro y hy; simp at hy
  · intro y _ _
    rw [hrefs y]
    by_cases hyx : y = x
    · subst hyx; simp [apply, St.setBlk]
    · simp [apply, St.setBlk, hyx]
  · intro y _; exact hrefs y

theorem owned_unstore {s : St} {x b : Addr} (h : Owned s) (hx : x ∈ s.roots) (hb : b ∈ (s.blk x).kids) :
    Owned (apply s (.unstore x b)) := by
  have hxl : x ∈ s.live := h.root_live hx
  simp only [apply]
  apply owned_release
  have hrefs : ∀ y, refsC ⟨s.setBlk x ⟨(s.blk x).rc, (s.blk x).kids.erase b⟩, [⟨none, [b]⟩]⟩ y = refsC ⟨s, []⟩ y := by
    intro y
    have hh := heapRefs_setBlk (s := s) (x := x) (nb := ⟨(s.blk x).rc, (s.blk x).kids.erase b⟩) y h.nodup hxl
    have hc := count_erase_add y hb
    simp only [refsC, pendRefs_cons, pendRefs_nil, count_cons_ite, List.count_nil]
    have e2 : (s.setBlk x ⟨(s.blk x).rc, (s.blk x).kids.erase b⟩).roots = s.roots := rfl
    rw [e2]
    simp only at hh
    omega
  apply inv_transfer h
  · rfl
  · rfl
  · simp
  · intro y hy; simp at hy
  · intro y _ _
    rw [hrefs y]
    by_cases hyx : y = x
    · subst hyx; simp [St.setBlk]
    · simp [St.setBlk, hyx]
  · intro y _; exact hrefs y

theorem inv_drop_start {s : St} {b : Addr} (h : Owned s) (hb : b ∈ s.roots) :
    Inv ⟨{ s with roots := s.roots.erase b }, [⟨none, [b]⟩]⟩ := by
  have hrefs : ∀ y, refsC ⟨{ s with roots := s.roots.erase b }, [⟨none, [b]⟩]⟩ y = refsC ⟨s, []⟩ y := by
    intro y
    have hc := count_erase_add y hb
    simp only [refsC, pendRefs_cons, pendRefs_nil, count_cons_ite, List.count_nil]
    have e1 : heapRefs { s with roots := s.roots.erase b } y = heapRefs s y := rfl
    rw [e1]
    omega
  apply inv_transfer h
  · rfl
  · rfl
  · simp
  · intro y hy; simp at hy
  · intro y _ _
    rw [hrefs y]
    exact ⟨rfl, Nat.le_refl _⟩
  · intro y _; exact hrefs y

theorem owned_drop {s : St} {b : Addr} (h : Owned s) (hb : b ∈ s.roots) : Owned (apply s (.drop b)) := by
  simp only [apply]
  exact owned_release (inv_drop_start h hb)

theorem owned_apply {s : St} {op : Op} (h : Owned s) (hok : op.Ok s) : Owned (apply s op) := by
  cases op with
  | alloc a => exact owned_alloc h hok
  | retain b => exact owned_retain h hok
  | store x b => exact owned_store h hok.1 hok.2
  | unstore x b => exact owned_unstore h hok.1 hok.2
  | drop b => exact owned_drop h hok

theorem owned_applyAll {s : St} {ops : List Op} (h : Owned s) (hok : AllOk s ops) : Owned (applyAll s ops) := by
  induction ops generalizing s with
  | nil => exact h
  | cons op ops ih => exact ih (owned_apply h hok.1) hok.2

theorem owned_empty : Owned empty := by
  unfold Owned empty
  constructor <;> simp [refsC, heapRefs]

/-! ### frame: what a release leaves alone -/

/-- relative to `s`: same roots, no new blocks, surviving blocks that are not being destroyed keep their fields -/
structure Fr (s : St) (c : Cfg) : Prop where
  roots : c.st.roots = s.roots
  sub : ∀ b, b ∈ c.st.live → b ∈ s.live
  kids : ∀ b ∈ c.st.live, b ∉ dying c.stk → (c.st.blk b).kids = (s.blk b).kids

theorem fr_decr {s st : St} {o : Option Addr} {k : Addr} {ks : List Addr} {rest : List Frame}
    (hf : Fr s ⟨st, ⟨o, k :: ks⟩ :: rest⟩) : Fr s (decr k ⟨st, ⟨o, ks⟩ :: rest⟩) := by
  have hdy : dying (⟨o, k :: ks⟩ :: rest) = dying (⟨o, ks⟩ :: rest) := by cases o <;> simp
  unfold decr
  by_cases hk : k ∈ st.live
  · simp only [hk, if_true]
    by_cases h1 : (st.blk k).rc = 1
    · simp only [h1, if_true]
      constructor
      · exact hf.roots
      · exact hf.sub
      · intro b hb hnd
        simp only [dying_cons_some, List.mem_cons, not_or] at hnd
        rw [← hdy] at hnd
        have := hf.kids b hb hnd.2
        simpa [St.emit, St.setBlk, hnd.1] using this
    · simp only [h1, if_false]
      by_cases h0 : (st.blk k).rc = 0
      · simp only [h0, if_true]
        constructor
        · exact hf.roots
        · exact hf.sub
        · intro b hb hnd
          rw [← hdy] at hnd
          exact hf.kids b hb hnd
      · simp only [h0, if_false]
        constructor
        · exact hf.roots
        · exact hf.sub
        · intro b hb hnd
          rw [← hdy] at hnd
          have := hf.kids b hb hnd
          by_cases hbk : b = k
          · subst hbk; simpa [St.emit, St.setBlk] using this
          · simpa [St.emit, St.setBlk, hbk] using this
  · simp only [hk, if_false]
    constructor
    · exact hf.roots
    · exact hf.sub
    · intro b hb hnd
      rw [← hdy] at hnd
      exact hf.kids b hb hnd

theorem fr_step {s : St} {c : Cfg} (h : Inv c) (hf : Fr s c) : Fr s (step c) := by
  obtain ⟨st, stk⟩ := c
  unfold step
  match stk, h, hf with
  | [], _, hf => exact hf
  | ⟨none, []⟩ :: rest, _, hf =>
    simp only
    constructor
    · exact hf.roots
    · exact hf.sub
    · intro b hb hnd; exact hf.kids b hb (by simpa using hnd)
  | ⟨some b0, []⟩ :: rest, h, hf =>
    simp only
    have hb0 := (h.dyLive b0 (by simp)).1
    simp only at hb0
    have hfree : st.free b0 = { st with live := st.live.erase b0, log := Ev.free b0 :: st.log } := by
      unfold St.free; simp [hb0]
    rw [hfree]
    constructor
    · exact hf.roots
    · intro b hb; exact hf.sub b (List.mem_of_mem_erase hb)
    · intro b hb hnd
      simp only at hb
      have hne : b ≠ b0 := fun e => by
        subst e
        exact (List.Nodup.mem_erase_iff h.nodup).mp hb |>.1 rfl
      exact hf.kids b (List.mem_of_mem_erase hb)
        (by simp only [dying_cons_some, List.mem_cons, not_or]; exact ⟨hne, hnd⟩)
  | ⟨o, k :: ks⟩ :: rest, _, hf =>
    simp only
    exact fr_decr hf

theorem fr_run {s : St} {c : Cfg} (h : Inv c) (hf : Fr s c) (n : Nat) : Fr s (run n c) := by
  induction n generalizing c with
  | zero => exact hf
  | succ n ih => exact ih (inv_step h) (fr_step h hf)

/-- dropping a held reference: the roots lose exactly that reference, nothing is allocated, and every surviving
block keeps its fields -/
theorem drop_frame {s : St} {b : Addr} (h : Owned s) (hb : b ∈ s.roots) :
    (apply s (.drop b)).roots = s.roots.erase b ∧ (∀ x, x ∈ (apply s (.drop b)).live → x ∈ s.live) ∧
    (∀ x ∈ (apply s (.drop b)).live, ((apply s (.drop b)).blk x).kids = (s.blk x).kids) := by
  have hi := inv_drop_start h hb
  have hf0 : Fr { s with roots := s.roots.erase b } ⟨{ s with roots := s.roots.erase b }, [⟨none, [b]⟩]⟩ :=
    ⟨rfl, fun _ hx => hx, fun _ _ _ => rfl⟩
  have hf := fr_run hi hf0 (mu ⟨{ s with roots := s.roots.erase b }, [⟨none, [b]⟩]⟩)
  have ht := run_terminates (mu ⟨{ s with roots := s.roots.erase b }, [⟨none, [b]⟩]⟩) ⟨{ s with roots := s.roots.erase b }, [⟨none, [b]⟩]⟩ (Nat.le_refl _)
  simp only [apply, release]
  refine ⟨hf.roots, hf.sub, ?_⟩
  intro x hx
  have := hf.kids x hx (by rw [ht]; simp)
  exact this

end WaVerif.C11
