import WaVerif.Lemmas.C15Arith
namespace WaVerif.C15
open WaVerif

theorem shift_exact_lem (op : SOp) (x : Int) (s : Nat) : shift op x s = exactShift op x s := by
  unfold shift exactShift
  by_cases hs : s = 0
  · subst hs; cases op <;> simp
  · rw [if_neg hs]
    cases op
    · simp [Int.shiftLeft_eq]
    · by_cases hf : fits64 x = true
      · rw [if_pos hf, BitVec.toInt_sshiftRight]
        rw [fits64_iff] at hf
        have := wrap64_of_fits hf
        unfold wrap64 at this
        rw [this, Int.shiftRight_eq_div_pow]
        simp
      · rw [if_neg hf, Int.shiftRight_eq_div_pow]; simp

theorem int_not_eq (y : Int) : ~~~y = -y - 1 := by
  cases y with
  | ofNat n => show Int.negSucc n = _; simp only [Int.ofNat_eq_natCast]; omega
  | negSucc n => show Int.ofNat n = _; simp only [Int.ofNat_eq_natCast]; omega

theorem neg_one_shiftLeft (p : Nat) : (-1 : Int) <<< p = Int.negSucc (2 ^ p - 1) := by
  show Int.shiftLeft (Int.negSucc 0) p = _
  simp [Int.shiftLeft, Nat.shiftLeft_eq]

theorem natAndNot_mask (p m : Nat) : natAndNot (2 ^ p - 1) m = 2 ^ p - 1 - m % 2 ^ p := by
  apply Nat.eq_of_testBit_eq; intro i
  have hlt : m % 2 ^ p < 2 ^ p := Nat.mod_lt _ (Nat.two_pow_pos p)
  have e : 2 ^ p - 1 - m % 2 ^ p = 2 ^ p - (m % 2 ^ p + 1) := by omega
  rw [e, Nat.testBit_two_pow_sub_succ hlt, testBit_natAndNot, Nat.testBit_two_pow_sub_one, Nat.testBit_mod_two_pow]
  cases decide (i < p) <;> cases m.testBit i <;> rfl

theorem landnot_mask (z : Int) (p : Nat) : landnot z ((-1 : Int) <<< p) = z % 2 ^ p := by
  rw [neg_one_shiftLeft]
  have hpos : (0 : Int) < 2 ^ p := Int.pow_pos (by decide)
  cases z with
  | ofNat m =>
    simp only [landnot, Nat.and_two_pow_sub_one_eq_mod]
    simp
  | negSucc m =>
    simp only [landnot, natAndNot_mask]
    rw [Int.negSucc_emod m hpos]
    have hlt : m % 2 ^ p < 2 ^ p := Nat.mod_lt _ (Nat.two_pow_pos p)
    have hc : ((m % 2 ^ p : Nat) : Int) = (m : Int) % 2 ^ p := by simp
    have h2 : ((2 ^ p : Nat) : Int) = (2 : Int) ^ p := by simp
    simp only [Int.ofNat_eq_natCast]
    omega

theorem unary_exact_lem (op : UOp) (y : Int) (prec : Nat) : unaryOp op y prec = exactUn op y prec := by
  unfold unaryOp exactUn
  cases op
  · rfl
  · show (if fits64 y = true then (if wrap64 (-y) ≠ y then wrap64 (-y) else -y) else -y) = -y
    by_cases hf : fits64 y = true
    · rw [if_pos hf]
      rw [fits64_iff] at hf
      by_cases hmin : y = -(2:Int)^63
      · subst hmin
        have : wrap64 (-(-(2:Int)^63)) = -(2:Int)^63 := by decide
        rw [this]; simp
      · have hfn : fitsS 63 (-y) := by unfold fitsS at *; omega
        rw [wrap64_of_fits hfn]; split <;> rfl
    · rw [if_neg hf]
  · show (if prec > 0 then landnot (~~~y) ((-1 : Int) <<< prec) else ~~~y) = (if prec = 0 then -y - 1 else (-y - 1) % 2 ^ prec)
    by_cases hp : prec = 0
    · subst hp; simp [int_not_eq]
    · rw [if_pos (by omega), if_neg hp, landnot_mask, int_not_eq]

theorem toIntRat_ok_iff (n d v : Int) : toIntRat n d = .ok v ↔ d ≠ 0 ∧ n = v * d := by
  unfold toIntRat
  by_cases hd : d = 0
  · simp [hd]
  · rw [if_neg hd]
    by_cases hm : n % d = 0
    · rw [if_pos hm]
      have hdvd : d ∣ n := Int.dvd_of_emod_eq_zero hm
      constructor
      · intro h; injection h with h; subst h
        exact ⟨hd, (Int.ediv_mul_cancel hdvd).symm⟩
      · rintro ⟨_, h⟩
        rw [h, Int.mul_ediv_cancel _ hd]
    · rw [if_neg hm]
      constructor
      · intro h; cases h
      · rintro ⟨_, h⟩; exact absurd (by rw [h]; exact Int.mul_emod_left _ _) hm

theorem bitLen_le_iff (v : Int) (k : Nat) : bitLen v ≤ k ↔ v.natAbs < 2 ^ k := by
  unfold bitLen
  by_cases h0 : v.natAbs = 0
  · rw [if_pos h0, h0]; simp [Nat.two_pow_pos]
  · rw [if_neg h0]
    have := @Nat.log2_lt v.natAbs k h0
    omega

end WaVerif.C15
