import WaVerif.Model.C07Format
/-! # C07 — lemmas about the import-sorting model -/
namespace WaVerif.C07

theorem impLe_total (a b : Imp) : impLe a b = true ∨ impLe b a = true := by
  simp only [impLe, Bool.or_eq_true, Bool.and_eq_true, decide_eq_true_eq, beq_iff_eq]
  omega

theorem impLe_trans {a b c : Imp} (h₁ : impLe a b = true) (h₂ : impLe b c = true) : impLe a c = true := by
  simp only [impLe, Bool.or_eq_true, Bool.and_eq_true, decide_eq_true_eq, beq_iff_eq] at *
  omega

theorem impLe_refl (a : Imp) : impLe a a = true := by
  simp [impLe]

theorem impLe_antisymm {a b : Imp} (h₁ : impLe a b = true) (h₂ : impLe b a = true) : a = b := by
  cases a; cases b
  simp only [impLe, Bool.or_eq_true, Bool.and_eq_true, decide_eq_true_eq, beq_iff_eq] at *
  simp only [Imp.mk.injEq]; omega

/-- sortedness as a pairwise property -/
def Sorted (l : List Imp) : Prop := l.Pairwise (fun a b => impLe a b = true)

theorem insertImp_perm (a : Imp) (l : List Imp) : (insertImp a l).Perm (a :: l) := by
  induction l with
  | nil => exact List.Perm.refl _
  | cons b l ih =>
    simp only [insertImp]
    split
    · exact ((List.Perm.cons b ih).trans (List.Perm.swap a b l))
    · exact List.Perm.refl _

theorem mem_insertImp {a x : Imp} {l : List Imp} : x ∈ insertImp a l ↔ x = a ∨ x ∈ l := by
  have := (insertImp_perm a l).mem_iff (a := x)
  simpa using this

theorem sorted_insertImp (a : Imp) {l : List Imp} (h : Sorted l) : Sorted (insertImp a l) := by
  induction l with
  | nil => simp [insertImp, Sorted]
  | cons b l ih =>
    simp only [insertImp]
    have hb : ∀ x ∈ l, impLe b x = true := (List.pairwise_cons.mp h).1
    have hl : Sorted l := (List.pairwise_cons.mp h).2
    split
    · rename_i hba
      refine List.pairwise_cons.mpr ⟨?_, ih hl⟩
      intro x hx
      rcases mem_insertImp.mp hx with rfl | hx
      · exact hba
      · exact hb x hx
    · rename_i hba
      have hab : impLe a b = true := by
        rcases impLe_total a b with h | h
        · exact h
        · exact absurd h hba
      refine List.pairwise_cons.mpr ⟨?_, h⟩
      intro x hx
      rcases List.mem_cons.mp hx with rfl | hx
      · exact hab
      · exact impLe_trans hab (hb x hx)

theorem sortRun_perm (l : List Imp) : (sortRun l).Perm l := by
  induction l with
  | nil => exact List.Perm.refl _
  | cons a l ih => exact (insertImp_perm a (sortRun l)).trans (List.Perm.cons a ih)

theorem sorted_sortRun (l : List Imp) : Sorted (sortRun l) := by
  induction l with
  | nil => simp [sortRun, Sorted]
  | cons a l ih => exact sorted_insertImp a ih

/-- inserting an element that is ≤ everything puts it in front -/
theorem insertImp_of_le_all (a : Imp) {l : List Imp} (hs : Sorted l) (h : ∀ x ∈ l, impLe a x = true) :
    insertImp a l = a :: l := by
  induction l with
  | nil => rfl
  | cons b l ih =>
    simp only [insertImp]
    have hab := h b (List.mem_cons_self)
    split
    · rename_i hba
      have : a = b := impLe_antisymm hab hba
      subst this
      have hl : Sorted l := (List.pairwise_cons.mp hs).2
      rw [ih hl (fun x hx => h x (List.mem_cons_of_mem _ hx))]
    · rfl

theorem sortRun_of_sorted {l : List Imp} (h : Sorted l) : sortRun l = l := by
  induction l with
  | nil => rfl
  | cons a l ih =>
    have ha : ∀ x ∈ l, impLe a x = true := (List.pairwise_cons.mp h).1
    have hl : Sorted l := (List.pairwise_cons.mp h).2
    simp only [sortRun, ih hl]
    exact insertImp_of_le_all a hl ha

theorem dedupRun_sublist (l : List Imp) : (dedupRun l).Sublist l := by
  induction l with
  | nil => exact List.Sublist.refl _
  | cons a l ih =>
    cases l with
    | nil => exact List.Sublist.refl _
    | cons b l =>
      simp only [dedupRun]
      split
      · exact List.Sublist.cons a ih
      · exact List.Sublist.cons_cons a ih

/-- the first element kept from `b :: l` has the path and name of `b` (a chain of collapses keeps them) -/
theorem dedupRun_head (b : Imp) (l : List Imp) :
    ∃ h t, dedupRun (b :: l) = h :: t ∧ h.path = b.path ∧ h.name = b.name := by
  induction l generalizing b with
  | nil => exact ⟨b, [], rfl, rfl, rfl⟩
  | cons c l ih =>
    simp only [dedupRun]
    split
    · rename_i hc
      obtain ⟨h, t, e, hp, hn⟩ := ih c
      simp only [collapse, Bool.and_eq_true, beq_iff_eq] at hc
      exact ⟨h, t, e, by omega, by omega⟩
    · exact ⟨b, dedupRun (c :: l), rfl, rfl, rfl⟩

/-- no adjacent pair of the result collapses -/
def NoCollapse : List Imp → Prop
  | [] => True
  | [_] => True
  | a :: b :: l => collapse a b = false ∧ NoCollapse (b :: l)

theorem noCollapse_dedupRun (l : List Imp) : NoCollapse (dedupRun l) := by
  induction l with
  | nil => trivial
  | cons a l ih =>
    cases l with
    | nil => trivial
    | cons b l =>
      simp only [dedupRun]
      split
      · exact ih
      · rename_i hab
        obtain ⟨h, t, e, hp, hn⟩ := dedupRun_head b l
        rw [e]
        rw [e] at ih
        refine ⟨?_, ih⟩
        have hab' : ¬ (a.path = b.path ∧ a.name = b.name ∧ a.comment = 0) := by
          intro hh; apply hab
          simp only [collapse, Bool.and_eq_true, beq_iff_eq]
          exact ⟨⟨hh.1, hh.2.1⟩, hh.2.2⟩
        cases hc : collapse a h with
        | false => rfl
        | true =>
          exfalso; apply hab'
          simp only [collapse, Bool.and_eq_true, beq_iff_eq] at hc
          exact ⟨by omega, by omega, hc.2⟩

theorem dedupRun_of_noCollapse {l : List Imp} (h : NoCollapse l) : dedupRun l = l := by
  induction l with
  | nil => rfl
  | cons a l ih =>
    cases l with
    | nil => rfl
    | cons b l =>
      obtain ⟨hab, hrest⟩ := h
      simp only [dedupRun, hab]
      rw [ih hrest]
      rfl

theorem sorted_sublist {l l' : List Imp} (h : l'.Sublist l) (hs : Sorted l) : Sorted l' :=
  List.Pairwise.sublist h hs

/-- a spec that carries a line comment is never dropped -/
theorem mem_dedupRun_of_comment {a : Imp} {l : List Imp} (ha : a ∈ l) (hc : a.comment ≠ 0) : a ∈ dedupRun l := by
  induction l with
  | nil => cases ha
  | cons b l ih =>
    cases l with
    | nil => simpa [dedupRun] using ha
    | cons c l =>
      simp only [dedupRun]
      rcases List.mem_cons.mp ha with rfl | ha'
      · have : collapse a c = false := by
          simp only [collapse, Bool.and_eq_false_iff, beq_eq_false_iff_ne, ne_eq]
          right; exact hc
        simp [this]
      · split
        · exact ih ha'
        · exact List.mem_cons_of_mem _ (ih ha')

/-- every (path, name) of the input survives -/
theorem dedupRun_covers {a : Imp} {l : List Imp} (ha : a ∈ l) :
    ∃ b ∈ dedupRun l, b.path = a.path ∧ b.name = a.name := by
  induction l with
  | nil => cases ha
  | cons b l ih =>
    cases l with
    | nil =>
      have : a = b := by simpa using ha
      exact ⟨b, by simp [dedupRun], by simp [this]⟩
    | cons c l =>
      simp only [dedupRun]
      rcases List.mem_cons.mp ha with rfl | ha'
      · split
        · rename_i hc
          obtain ⟨h, t, e, hp, hn⟩ := dedupRun_head c l
          simp only [collapse, Bool.and_eq_true, beq_iff_eq] at hc
          exact ⟨h, by rw [e]; exact List.mem_cons_self, by omega, by omega⟩
        · exact ⟨a, List.mem_cons_self, rfl, rfl⟩
      · obtain ⟨x, hx, hp, hn⟩ := ih ha'
        split
        · exact ⟨x, hx, hp, hn⟩
        · exact ⟨x, List.mem_cons_of_mem _ hx, hp, hn⟩

end WaVerif.C07
