import WaVerif.Lemmas.C10Lists
/-! # C10 — every primitive of the allocator preserves the invariant -/
namespace WaVerif.C10

/-! ## `getFx` / `setFx` -/

@[simp] theorem setFx_cfg (s : State) (k : Nat) (l : List FBlk) : (setFx s k l).cfg = s.cfg := by
  unfold setFx; split <;> rfl
@[simp] theorem setFx_heapPtr (s : State) (k : Nat) (l : List FBlk) : (setFx s k l).heapPtr = s.heapPtr := by
  unfold setFx; split <;> rfl
@[simp] theorem setFx_heapTop (s : State) (k : Nat) (l : List FBlk) : (setFx s k l).heapTop = s.heapTop := by
  unfold setFx; split <;> rfl
@[simp] theorem setFx_pages (s : State) (k : Nat) (l : List FBlk) : (setFx s k l).pages = s.pages := by
  unfold setFx; split <;> rfl
@[simp] theorem setFx_live (s : State) (k : Nat) (l : List FBlk) : (setFx s k l).live = s.live := by
  unfold setFx; split <;> rfl
@[simp] theorem setFx_free (s : State) (k : Nat) (l : List FBlk) : (setFx s k l).free = s.free := by
  unfold setFx; split <;> rfl
@[simp] theorem setFx_rover (s : State) (k : Nat) (l : List FBlk) : (setFx s k l).rover = s.rover := by
  unfold setFx; split <;> rfl
@[simp] theorem setFx_dead (s : State) (k : Nat) (l : List FBlk) : (setFx s k l).dead = s.dead := by
  unfold setFx; split <;> rfl

theorem getFx_setFx (s : State) (k j : Nat) (l : List FBlk) (hk : k < 4) (hj : j < 4) :
    getFx (setFx s k l) j = if j = k then l else getFx s j := by
  rcases k with _|_|_|_|k <;> rcases j with _|_|_|_|j <;> simp [getFx, setFx] <;> omega

theorem sumf_all_setFx (f : FBlk → Nat) (s : State) (k : Nat) (l : List FBlk) :
    sumf f (allBlocks (setFx s k l)) + sumf f (getFx s k) = sumf f (allBlocks s) + sumf f l := by
  rcases k with _|_|_|k <;> simp [getFx, setFx, allBlocks] <;> omega

/-! ## consequences of the tiling -/

theorem tiles_le_one {s : State} {L : List FBlk} (h : TilesHeap s L) (x : Nat) : sumf (cov x) L ≤ 1 := by
  rw [h x]; split <;> omega

theorem cov_self (b : FBlk) : cov b.1 b = 1 := by simp [cov]; omega

/-- a block of a tiled list lies inside `[heapStart, heapPtr)` -/
theorem tiles_mem_bounds {s : State} {L : List FBlk} (h : TilesHeap s L) {b : FBlk} (hb : b ∈ L) :
    heapStart s.cfg ≤ b.1 ∧ bend b ≤ s.heapPtr := by
  have h1 := sumf_mem_le (cov b.1) hb
  have h2 := sumf_mem_le (cov (b.1 + b.2 + 7)) hb
  rw [h b.1] at h1
  rw [h (b.1 + b.2 + 7)] at h2
  have c1 : cov b.1 b = 1 := cov_self b
  have c2 : cov (b.1 + b.2 + 7) b = 1 := by simp [cov]; omega
  rw [c1] at h1; rw [c2] at h2
  split at h1 <;> split at h2 <;> simp [bend] <;> omega

/-- two entries of a list, at different positions unless equal, never both count -/
theorem sumf_two_mem (f : FBlk → Nat) {a b : FBlk} {l1 l2 : List FBlk} (ha : a ∈ l1) (hb : b ∈ l2) :
    f a + f b ≤ sumf f (l1 ++ l2) := by
  have := sumf_mem_le f ha
  have := sumf_mem_le f hb
  simp; omega

/-- blocks in two different parts of a tiled list do not overlap -/
theorem tiles_disj {s : State} {l1 l2 : List FBlk} (h : TilesHeap s (l1 ++ l2)) {a b : FBlk}
    (ha : a ∈ l1) (hb : b ∈ l2) : bend a ≤ b.1 ∨ bend b ≤ a.1 := by
  by_cases hab : a.1 ≤ b.1
  · by_cases h2 : bend a ≤ b.1
    · exact Or.inl h2
    · exfalso
      have := sumf_two_mem (cov b.1) ha hb
      have := tiles_le_one h b.1
      have c1 : cov b.1 b = 1 := cov_self b
      have c2 : cov b.1 a = 1 := by simp [cov, bend] at *; omega
      omega
  · by_cases h2 : bend b ≤ a.1
    · exact Or.inr h2
    · exfalso
      have := sumf_two_mem (cov a.1) ha hb
      have := tiles_le_one h a.1
      have c1 : cov a.1 a = 1 := cov_self a
      have c2 : cov a.1 b = 1 := by simp [cov, bend] at *; omega
      omega

end WaVerif.C10
