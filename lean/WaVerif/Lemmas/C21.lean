import WaVerif.Model.C21
/-!
# C21 — helper lemmas (core only)

1. UTF-8: `decodeRune (utf8Enc c ++ rest) = (c.toNat, utf8Size c)` (per length class), no byte of a
   non-newline character equals 10, `take`/`drop` of `utf8` at character boundaries.
2. line table: `lineStarts (utf8 doc)` in terms of the characters (`lineStartsC`), looked up = `lineIndex`.
3. column loop: `colLoop` over `utf8 cs` = character-level mirror `srvCol`; `srvCol` vs the client's `colIndex`.
4. `positionOffset (utf8 doc)` characterised; LSP three-terminator client = simple client without lone `\r`.
-/
set_option linter.unusedSimpArgs false
namespace WaVerif.C21

/-! ## 1. UTF-8 -/

def ValidScalar (n : Nat) : Prop := n < 0xD800 ∨ (0xDFFF < n ∧ n < 0x110000)

theorem char_valid (c : Char) : ValidScalar c.toNat := by
  have h : c.val.toNat.isValidChar := c.valid
  unfold Nat.isValidChar at h
  exact h

theorem utf8EncN_length (n : Nat) : (utf8EncN n).length = utf8SizeN n := by
  unfold utf8EncN utf8SizeN
  repeat' split
  all_goals rfl

theorem utf8Enc_length (c : Char) : (utf8Enc c).length = utf8Size c := utf8EncN_length _

theorem utf8SizeN_pos (n : Nat) : 1 ≤ utf8SizeN n := by
  unfold utf8SizeN
  repeat' split
  all_goals omega

theorem utf8Size_pos (c : Char) : 1 ≤ utf8Size c := utf8SizeN_pos _

theorem decode_encN (n : Nat) (hv : ValidScalar n) (rest : List Nat) :
    decodeRune (utf8EncN n ++ rest) = (n, utf8SizeN n) := by
  unfold ValidScalar at hv
  unfold utf8EncN utf8SizeN
  by_cases h1 : n < 0x80
  · simp [h1, decodeRune]
  · by_cases h2 : n < 0x800
    · simp only [h1, h2, if_false, if_true]
      simp only [List.cons_append, List.nil_append, decodeRune]
      have a1 : ¬ (0xC0 + n / 64 < 0x80) := by omega
      have a2 : ¬ (0xC0 + n / 64 < 0xC2) := by omega
      have a3 : (0xC0 + n / 64 < 0xE0) := by omega
      have a4 : ¬ (0x80 + n % 64 < 0x80 ∨ 0xBF < 0x80 + n % 64) := by omega
      simp only [a1, a2, a3, a4, if_false, if_true]
      congr 1
      omega
    · by_cases h3 : n < 0x10000
      · simp only [h1, h2, h3, if_false, if_true]
        simp only [List.cons_append, List.nil_append, decodeRune]
        have a1 : ¬ (0xE0 + n / 4096 < 0x80) := by omega
        have a2 : ¬ (0xE0 + n / 4096 < 0xC2) := by omega
        have a3 : ¬ (0xE0 + n / 4096 < 0xE0) := by omega
        have a4 : (0xE0 + n / 4096 < 0xF0) := by omega
        have a5 : ¬ (0x80 + n / 64 % 64 < (if 0xE0 + n / 4096 = 0xE0 then 0xA0 else 0x80) ∨
            (if 0xE0 + n / 4096 = 0xED then 0x9F else 0xBF) < 0x80 + n / 64 % 64) := by
          split <;> split <;> omega
        have a6 : ¬ (0x80 + n % 64 < 0x80 ∨ 0xBF < 0x80 + n % 64) := by omega
        simp only [a1, a2, a3, a4, a5, a6, if_false, if_true]
        congr 1
        omega
      · simp only [h1, h2, h3, if_false]
        simp only [List.cons_append, List.nil_append, decodeRune]
        have a1 : ¬ (0xF0 + n / 262144 < 0x80) := by omega
        have a2 : ¬ (0xF0 + n / 262144 < 0xC2) := by omega
        have a3 : ¬ (0xF0 + n / 262144 < 0xE0) := by omega
        have a4 : ¬ (0xF0 + n / 262144 < 0xF0) := by omega
        have a4' : (0xF0 + n / 262144 < 0xF5) := by omega
        have a5 : ¬ (0x80 + n / 4096 % 64 < (if 0xF0 + n / 262144 = 0xF0 then 0x90 else 0x80) ∨
            (if 0xF0 + n / 262144 = 0xF4 then 0x8F else 0xBF) < 0x80 + n / 4096 % 64) := by
          split <;> split <;> omega
        have a6 : ¬ (0x80 + n / 64 % 64 < 0x80 ∨ 0xBF < 0x80 + n / 64 % 64) := by omega
        have a7 : ¬ (0x80 + n % 64 < 0x80 ∨ 0xBF < 0x80 + n % 64) := by omega
        simp only [a1, a2, a3, a4, a4', a5, a6, a7, if_false, if_true]
        congr 1
        omega

/-- Go's `DecodeRune` inverts the encoder on every scalar value, whatever follows. -/
theorem decode_enc (c : Char) (rest : List Nat) :
    decodeRune (utf8Enc c ++ rest) = (c.toNat, utf8Size c) :=
  decode_encN c.toNat (char_valid c) rest

theorem utf8EncN_no10 (n : Nat) (h : n ≠ 10) : ∀ x ∈ utf8EncN n, x ≠ 10 := by
  unfold utf8EncN
  repeat' split
  all_goals (intro x hx; simp at hx; omega)

theorem toNat_newline (c : Char) : c.toNat = 10 ↔ c = '\n' := by
  have : ('\n' : Char).toNat = 10 := rfl
  rw [← this, Char.toNat_inj]

theorem utf8Enc_no10 (c : Char) (h : c ≠ '\n') : ∀ x ∈ utf8Enc c, x ≠ 10 :=
  utf8EncN_no10 _ (fun e => h ((toNat_newline c).1 e))

theorem utf8Enc_newline : utf8Enc '\n' = [10] := rfl

theorem utf8_append (a b : List Char) : utf8 (a ++ b) = utf8 a ++ utf8 b := by
  induction a with
  | nil => rfl
  | cons c a ih => simp [utf8, ih]

theorem utf8Len_append (a b : List Char) : utf8Len (a ++ b) = utf8Len a + utf8Len b := by
  induction a with
  | nil => simp [utf8Len]
  | cons c a ih => simp [utf8Len, ih]; omega

theorem utf8_length (cs : List Char) : (utf8 cs).length = utf8Len cs := by
  induction cs with
  | nil => rfl
  | cons c cs ih => simp [utf8, utf8Len, ih, utf8Enc_length]

theorem take_utf8 (cs : List Char) (k : Nat) :
    (utf8 cs).take (utf8Len (cs.take k)) = utf8 (cs.take k) := by
  conv => lhs; arg 2; rw [← List.take_append_drop k cs]
  rw [utf8_append]
  exact List.take_left' (utf8_length _)

theorem drop_utf8 (cs : List Char) (k : Nat) :
    (utf8 cs).drop (utf8Len (cs.take k)) = utf8 (cs.drop k) := by
  conv => lhs; arg 2; rw [← List.take_append_drop k cs]
  rw [utf8_append]
  exact List.drop_left' (utf8_length _)

theorem utf8Len_take_mono (cs : List Char) {i j : Nat} (h : i ≤ j) :
    utf8Len (cs.take i) ≤ utf8Len (cs.take j) := by
  obtain ⟨d, rfl⟩ := Nat.exists_eq_add_of_le h
  rw [List.take_add, utf8Len_append]
  omega

/-! ## 2. line table -/

/-- `lineStartsFrom` over the characters: byte offsets after every `\n` -/
def lineStartsC (off : Nat) : List Char → List Nat
  | [] => []
  | c :: cs => if c = '\n' then (off + 1) :: lineStartsC (off + 1) cs else lineStartsC (off + utf8Size c) cs

theorem lineStartsFrom_append_no10 (a b : List Nat) (off : Nat) (h : ∀ x ∈ a, x ≠ 10) :
    lineStartsFrom off (a ++ b) = lineStartsFrom (off + a.length) b := by
  induction a generalizing off with
  | nil => simp
  | cons x a ih =>
    have hx : x ≠ 10 := h x (by simp)
    have ha : ∀ y ∈ a, y ≠ 10 := fun y hy => h y (by simp [hy])
    simp only [List.cons_append, lineStartsFrom, hx, if_false, ih (off + 1) ha, List.length_cons]
    congr 1
    omega

theorem lineStartsFrom_utf8 (cs : List Char) (off : Nat) :
    lineStartsFrom off (utf8 cs) = lineStartsC off cs := by
  induction cs generalizing off with
  | nil => rfl
  | cons c cs ih =>
    by_cases hc : c = '\n'
    · subst hc
      simp [utf8, utf8Enc_newline, lineStartsFrom, lineStartsC, ih]
    · simp only [utf8, lineStartsC, hc, if_false]
      rw [lineStartsFrom_append_no10 _ _ _ (utf8Enc_no10 c hc), utf8Enc_length, ih]

theorem lineStartsC_length (cs : List Char) (off : Nat) :
    (lineStartsC off cs).length + 1 = numLines cs := by
  induction cs generalizing off with
  | nil => rfl
  | cons c cs ih =>
    by_cases hc : c = '\n'
    · simp [lineStartsC, numLines, hc, ih]
    · simp [lineStartsC, numLines, hc, ih]

/-- the line table, looked up, is the byte offset of the client's line start -/
theorem lineStartsC_get (cs : List Char) (l off : Nat) :
    (off :: lineStartsC off cs)[l]? = (lineIndex cs l).map (fun i => off + utf8Len (cs.take i)) := by
  induction cs generalizing l off with
  | nil =>
    cases l with
    | zero => simp [lineIndex, utf8Len]
    | succ l => simp [lineIndex, lineStartsC]
  | cons c cs ih =>
    cases l with
    | zero => simp [lineIndex, utf8Len]
    | succ l =>
      by_cases hc : c = '\n'
      · subst hc
        simp only [lineStartsC, if_true, List.getElem?_cons_succ, lineIndex, Option.map_map]
        rw [ih l (off + 1)]
        congr 1
        funext i
        simp [utf8Len, utf8Size, utf8SizeN]
        omega
      · simp only [lineStartsC, hc, if_false, List.getElem?_cons_succ, lineIndex, Option.map_map]
        have := ih (l + 1) (off + utf8Size c)
        simp only [List.getElem?_cons_succ] at this
        rw [this]
        congr 1
        funext i
        simp [utf8Len]
        omega

theorem lineStarts_utf8 (doc : List Char) : lineStarts (utf8 doc) = 0 :: lineStartsC 0 doc := by
  simp [lineStarts, lineStartsFrom_utf8]

theorem lineIndex_isSome_iff (doc : List Char) (l : Nat) :
    (lineIndex doc l).isSome ↔ l < numLines doc := by
  have h := lineStartsC_get doc l 0
  have hl := lineStartsC_length doc 0
  constructor
  · intro hs
    have : ((0 :: lineStartsC 0 doc)[l]?).isSome := by rw [h]; simpa using hs
    have := List.getElem?_eq_some_iff.1 (Option.eq_some_of_isSome this)
    obtain ⟨hlt, _⟩ := this
    simp at hlt
    omega
  · intro hlt
    have hlt' : l < (0 :: lineStartsC 0 doc).length := by simp; omega
    have : ((0 :: lineStartsC 0 doc)[l]?).isSome := by
      rw [List.getElem?_eq_getElem hlt']; rfl
    rw [h] at this
    simpa using this

/-! ## 3. column loop -/

/-- character-level mirror of `colLoop` -/
def srvCol : List Char → Nat → Nat → Except PErr Nat
  | _, 0, col8 => .ok col8
  | [], _ + 1, _ => .error .eofCol
  | c :: cs, k + 1, col8 =>
    if c = '\n' then .error .eolCol
    else if utf16Size c = 2 then
      match k with
      | 0 => .ok col8
      | k' + 1 => srvCol cs k' (col8 + utf8Size c)
    else srvCol cs k (col8 + utf8Size c)

theorem utf8Size_one_lt (c : Char) (h : utf8Size c = 1) : c.toNat < 0x80 := by
  unfold utf8Size utf8SizeN at h
  repeat' split at h
  all_goals omega

theorem utf16Size_eq_two (c : Char) : utf16Size c = 2 ↔ c.toNat ≥ 0x10000 := by
  unfold utf16Size
  split <;> omega

theorem colLoop_zero (content : List Nat) (col8 : Nat) : colLoop 0 content col8 = .ok col8 := by
  unfold colLoop; rfl

theorem colLoop_succ (k : Nat) (content : List Nat) (col8 : Nat) :
    colLoop (k + 1) content col8 =
      if (decodeRune content).2 = 0 then .error .eofCol
      else if (decodeRune content).1 = 10 then .error .eolCol
      else if (decodeRune content).2 = 1 ∧ (decodeRune content).1 = runeError then .error .badUtf8
      else if (decodeRune content).1 ≥ 0x10000 then
        match k with
        | 0 => .ok col8
        | k' + 1 => colLoop k' (content.drop (decodeRune content).2) (col8 + (decodeRune content).2)
      else colLoop k (content.drop (decodeRune content).2) (col8 + (decodeRune content).2) := by
  conv => lhs; unfold colLoop
  rfl

theorem colLoop_utf8 (cs : List Char) (k col8 : Nat) :
    colLoop k (utf8 cs) col8 = srvCol cs k col8 := by
  induction cs generalizing k col8 with
  | nil =>
    cases k with
    | zero => simp [colLoop_zero, srvCol]
    | succ k => simp [colLoop_succ, srvCol, utf8, decodeRune]
  | cons c cs ih =>
    cases k with
    | zero => simp [colLoop_zero, srvCol]
    | succ k =>
      have hd : (utf8Enc c ++ utf8 cs).drop (utf8Size c) = utf8 cs :=
        List.drop_left' (utf8Enc_length c)
      have hp := utf8Size_pos c
      have h0 : ¬ utf8Size c = 0 := by omega
      have hbad : ¬ (utf8Size c = 1 ∧ c.toNat = runeError) := by
        intro ⟨h1, h2⟩
        have := utf8Size_one_lt c h1
        simp [runeError] at h2
        omega
      simp only [colLoop_succ, srvCol, utf8, decode_enc, h0, hbad, if_false, toNat_newline, hd]
      by_cases hn : c = '\n'
      · simp [hn]
      · simp only [hn, if_false]
        by_cases ha : utf16Size c = 2
        · have ha' := (utf16Size_eq_two c).1 ha
          simp only [ha, ha', if_true]
          cases k with
          | zero => rfl
          | succ k' => exact ih k' _
        · have ha' : ¬ c.toNat ≥ 0x10000 := fun h => ha ((utf16Size_eq_two c).2 h)
          simp only [ha, ha', if_false]
          exact ih k _

/-- a position the client can denote: the server's column loop advances exactly to it -/
theorem srvCol_of_colIndex (cs : List Char) (k col8 j : Nat) (h : colIndex cs k = some j) :
    srvCol cs k col8 = .ok (col8 + utf8Len (cs.take j)) := by
  induction cs generalizing k col8 j with
  | nil =>
    cases k with
    | zero => simp [colIndex] at h; subst h; simp [srvCol, utf8Len]
    | succ k => simp [colIndex] at h
  | cons c cs ih =>
    cases k with
    | zero => simp [colIndex] at h; subst h; simp [srvCol, utf8Len]
    | succ k =>
      simp only [colIndex] at h
      split at h
      · simp at h
      · rename_i hn
        split at h
        · simp at h
        · split at h
          · rename_i ha
            cases k with
            | zero => simp at h
            | succ k' =>
              simp only [Option.map_eq_some_iff] at h
              obtain ⟨j', hj', rfl⟩ := h
              simp only [srvCol, hn, ha, if_false, if_true, ih k' _ j' hj', List.take_succ_cons, utf8Len]
              congr 1
              omega
          · rename_i ha
            simp only [Option.map_eq_some_iff] at h
            obtain ⟨j', hj', rfl⟩ := h
            simp only [srvCol, hn, ha, if_false, ih k _ j' hj', List.take_succ_cons, utf8Len]
            congr 1
            omega

/-- a column that denotes nothing, is not inside a surrogate pair and is not the gap of a `\r\n`
is rejected by the server's column loop -/
theorem srvCol_error_of_none (cs : List Char) (k col8 : Nat) (h : colIndex cs k = none)
    (hm : midSurrogateCol cs k = false) (hr : afterCRCol cs k = false) :
    ∃ e, srvCol cs k col8 = .error e := by
  induction cs generalizing k col8 with
  | nil =>
    cases k with
    | zero => simp [colIndex] at h
    | succ k => exact ⟨_, rfl⟩
  | cons c cs ih =>
    cases k with
    | zero => simp [colIndex] at h
    | succ k =>
      by_cases hn : c = '\n'
      · exact ⟨.eolCol, by simp [srvCol, hn]⟩
      · simp only [colIndex, midSurrogateCol, afterCRCol, hn, if_false] at h hm hr
        by_cases hs : startsCRLF (c :: cs) = true
        · -- `c` is the `\r` of a `\r\n`: one more column is the gap (excluded), two or more hit the `\n`
          simp only [hs, if_true] at hr
          have hk : k ≠ 0 := by simpa using hr
          obtain ⟨k', rfl⟩ := Nat.exists_eq_succ_of_ne_zero hk
          cases cs with
          | nil => simp [startsCRLF] at hs
          | cons d cs' =>
            simp only [startsCRLF, Bool.and_eq_true, decide_eq_true_eq] at hs
            obtain ⟨hc, hd⟩ := hs
            have h16 : utf16Size c ≠ 2 := by subst hc; decide
            refine ⟨.eolCol, ?_⟩
            simp [srvCol, hn, h16, hd]
        · have hs' : startsCRLF (c :: cs) = false := by simpa using hs
          simp only [hs', Bool.false_eq_true, if_false] at h hm hr
          by_cases ha : utf16Size c = 2
          · simp only [ha, if_true] at h hm hr
            cases k with
            | zero => simp at hm
            | succ k' =>
              simp only [Option.map_eq_none_iff] at h
              obtain ⟨e, he⟩ := ih k' (col8 + utf8Size c) h hm hr
              exact ⟨e, by simp [srvCol, hn, ha, he]⟩
          · simp only [ha, if_false] at h hm hr
            simp only [Option.map_eq_none_iff] at h
            obtain ⟨e, he⟩ := ih k (col8 + utf8Size c) h hm hr
            exact ⟨e, by simp [srvCol, hn, ha, he]⟩

/-! ## 4. `positionOffset` over `utf8 doc`; the two client definitions -/

theorem positionOffset_utf8 (doc : List Char) (l c : Nat) :
    positionOffset (utf8 doc) l c =
      match lineIndex doc l with
      | some i =>
        match srvCol (doc.drop i) c 0 with
        | .ok x => .ok (utf8Len (doc.take i) + x)
        | .error e => .error e
      | none =>
        if l = numLines doc then (if c = 0 then .ok (utf8Len doc) else .error .eofCol)
        else .error .lineRange := by
  have hlen : (0 :: lineStartsC 0 doc).length = numLines doc := by
    simp [lineStartsC_length]
  unfold positionOffset
  simp only [lineStarts_utf8, lineStartsC_get, hlen, utf8_length]
  cases h : lineIndex doc l with
  | none => simp
  | some i =>
    simp [drop_utf8, colLoop_utf8]
    cases srvCol (List.drop i doc) c 0 <;> rfl

theorem positionOffset_of_charIndex (doc : List Char) (p : Pos) (i : Nat)
    (h : charIndex doc p = some i) :
    positionOffset (utf8 doc) p.line p.char = .ok (utf8Len (doc.take i)) := by
  rw [positionOffset_utf8]
  unfold charIndex at h
  cases hl : lineIndex doc p.line with
  | none =>
    simp only [hl] at h
    split at h
    · rename_i hc
      simp at h; subst h
      simp [hc.1, hc.2]
    · simp at h
  | some i0 =>
    simp only [hl, Option.map_eq_some_iff] at h
    obtain ⟨j, hj, rfl⟩ := h
    simp only [srvCol_of_colIndex _ _ 0 j hj, List.take_add, utf8Len_append]
    congr 1
    omega

theorem positionOffset_error_of_none (doc : List Char) (p : Pos) (h : charIndex doc p = none)
    (hm : midSurrogate doc p = false) (hr : afterCR doc p = false) :
    ∃ e, positionOffset (utf8 doc) p.line p.char = .error e := by
  rw [positionOffset_utf8]
  unfold charIndex at h
  unfold midSurrogate at hm
  unfold afterCR at hr
  cases hl : lineIndex doc p.line with
  | none =>
    simp only [hl] at h
    split at h
    · simp at h
    · rename_i hc
      by_cases h1 : p.line = numLines doc
      · have h2 : p.char ≠ 0 := fun h2 => hc ⟨h1, h2⟩
        exact ⟨.eofCol, by simp [h1, h2]⟩
      · exact ⟨.lineRange, by simp [h1]⟩
  | some i0 =>
    simp only [hl, Option.map_eq_none_iff] at h hm hr
    obtain ⟨e, he⟩ := srvCol_error_of_none _ _ 0 h hm hr
    exact ⟨e, by simp [he]⟩

/-! ### no lone `\r`: the LSP client and the simple client coincide -/

theorem NoLoneCR_cons {c : Char} {cs : List Char} (h : NoLoneCR (c :: cs) = true) :
    (c = '\r' → cs.head? = some '\n') ∧ NoLoneCR cs = true := by
  simp only [NoLoneCR, Bool.and_eq_true, Bool.or_eq_true, bne_iff_ne, beq_iff_eq] at h
  refine ⟨fun hc => ?_, h.2⟩
  rcases h.1 with h1 | h1
  · exact absurd hc h1
  · exact h1

theorem NoLoneCR_drop (doc : List Char) (i : Nat) (h : NoLoneCR doc = true) :
    NoLoneCR (doc.drop i) = true := by
  induction doc generalizing i with
  | nil => simp [NoLoneCR]
  | cons c cs ih =>
    cases i with
    | zero => simpa using h
    | succ i => simpa using ih i (NoLoneCR_cons h).2

theorem startsCRLF_iff {c : Char} {cs : List Char} (h : NoLoneCR (c :: cs) = true) :
    startsCRLF (c :: cs) = true ↔ c = '\r' := by
  constructor
  · intro hs
    cases cs with
    | nil => simp [startsCRLF] at hs
    | cons d cs' => simp [startsCRLF] at hs; exact hs.1
  · intro hc
    have := (NoLoneCR_cons h).1 hc
    cases cs with
    | nil => simp at this
    | cons d cs' => simp at this; simp [startsCRLF, hc, this]

theorem lspLineIndex_eq (doc : List Char) (l : Nat) (h : NoLoneCR doc = true) :
    lspLineIndex doc l = lineIndex doc l := by
  induction doc generalizing l with
  | nil => cases l <;> rfl
  | cons c cs ih =>
    cases l with
    | zero => rfl
    | succ l =>
      obtain ⟨h1, h2⟩ := NoLoneCR_cons h
      have hlone : ¬ (c = '\r' ∧ cs.head? ≠ some '\n') := fun ⟨a, b⟩ => b (h1 a)
      simp only [lspLineIndex, lineIndex, hlone, if_false, ih _ h2]

theorem lspNumLines_eq (doc : List Char) (h : NoLoneCR doc = true) :
    lspNumLines doc = numLines doc := by
  induction doc with
  | nil => rfl
  | cons c cs ih =>
    obtain ⟨h1, h2⟩ := NoLoneCR_cons h
    have hlone : ¬ (c = '\r' ∧ cs.head? ≠ some '\n') := fun ⟨a, b⟩ => b (h1 a)
    simp only [lspNumLines, numLines, hlone, if_false, ih h2]

theorem lspColIndex_eq (cs : List Char) (k : Nat) (h : NoLoneCR cs = true) :
    lspColIndex cs k = colIndex cs k := by
  induction cs generalizing k with
  | nil => cases k <;> rfl
  | cons c cs ih =>
    cases k with
    | zero => rfl
    | succ k =>
      have h2 := (NoLoneCR_cons h).2
      have hs := startsCRLF_iff h
      simp only [lspColIndex, colIndex]
      by_cases hn : c = '\n'
      · simp [hn]
      · by_cases hr : c = '\r'
        · have hs1 := hs.2 hr
          simp only [hn, hr, or_true, false_or, if_true, if_false]
          rw [hr] at hs1
          simp [hs1]
        · have hs' : startsCRLF (c :: cs) = false := by
            cases hx : startsCRLF (c :: cs) with
            | false => rfl
            | true => exact absurd (hs.1 hx) hr
          simp only [hn, hr, or_self, if_false, hs', Bool.false_eq_true]
          split
          · cases k with
            | zero => rfl
            | succ k' => simp only [ih _ h2]
          · simp only [ih _ h2]

/-- without a lone `\r` the LSP (three-terminator) reading of a position is the simple one -/
theorem lsp_charIndex_eq' (doc : List Char) (p : Pos) (h : NoLoneCR doc = true) :
    lspCharIndex doc p = charIndex doc p := by
  unfold lspCharIndex charIndex
  rw [lspLineIndex_eq _ _ h, lspNumLines_eq _ h]
  cases hl : lineIndex doc p.line with
  | none => rfl
  | some i => simp only [lspColIndex_eq _ _ (NoLoneCR_drop doc i h)]

/-! ## 5. one edit, lists of edits -/

theorem lineIndex_le (doc : List Char) (l i : Nat) (h : lineIndex doc l = some i) : i ≤ doc.length := by
  induction doc generalizing l i with
  | nil =>
    cases l with
    | zero => simp [lineIndex] at h; omega
    | succ l => simp [lineIndex] at h
  | cons c cs ih =>
    cases l with
    | zero => simp [lineIndex] at h; omega
    | succ l =>
      simp only [lineIndex] at h
      split at h
      all_goals
        simp only [Option.map_eq_some_iff] at h
        obtain ⟨j, hj, rfl⟩ := h
        have := ih _ _ hj
        simp
        omega

theorem colIndex_le (cs : List Char) (k j : Nat) (h : colIndex cs k = some j) : j ≤ cs.length := by
  induction cs generalizing k j with
  | nil =>
    cases k with
    | zero => simp [colIndex] at h; omega
    | succ k => simp [colIndex] at h
  | cons c cs ih =>
    cases k with
    | zero => simp [colIndex] at h; omega
    | succ k =>
      simp only [colIndex] at h
      split at h
      · simp at h
      · split at h
        · simp at h
        · split at h
          · cases k with
            | zero => simp at h
            | succ k' =>
              simp only [Option.map_eq_some_iff] at h
              obtain ⟨j', hj', rfl⟩ := h
              have := ih _ _ hj'
              simp; omega
          · simp only [Option.map_eq_some_iff] at h
            obtain ⟨j', hj', rfl⟩ := h
            have := ih _ _ hj'
            simp; omega

theorem charIndex_le (doc : List Char) (p : Pos) (i : Nat) (h : charIndex doc p = some i) :
    i ≤ doc.length := by
  unfold charIndex at h
  cases hl : lineIndex doc p.line with
  | none =>
    simp only [hl] at h
    split at h
    · simp at h; omega
    · simp at h
  | some i0 =>
    simp only [hl, Option.map_eq_some_iff] at h
    obtain ⟨j, hj, rfl⟩ := h
    have h1 := lineIndex_le _ _ _ hl
    have h2 := colIndex_le _ _ _ hj
    simp at h2
    omega

theorem utf8Len_pos_of_ne_nil (cs : List Char) (h : cs ≠ []) : 1 ≤ utf8Len cs := by
  cases cs with
  | nil => exact absurd rfl h
  | cons c cs => have := utf8Size_pos c; simp [utf8Len]; omega

theorem utf8Len_take_strict (cs : List Char) {i j : Nat} (h : j < i) (hi : i ≤ cs.length) :
    utf8Len (cs.take j) < utf8Len (cs.take i) := by
  obtain ⟨d, rfl⟩ := Nat.exists_eq_add_of_lt h
  rw [show j + d + 1 = j + (d + 1) by omega, List.take_add, utf8Len_append]
  have : (cs.drop j).take (d + 1) ≠ [] := by
    intro hnil
    have := congrArg List.length hnil
    simp at this
    omega
  have := utf8Len_pos_of_ne_nil _ this
  omega

/-- one valid range edit (simple client): the server computes the UTF-8 of the client's result -/
theorem applyOne_of_client (doc : List Char) (r : Range) (txt doc' : List Char)
    (h : clientApplyRange charIndex doc r txt = some doc') :
    applyOne (utf8 doc) r (utf8 txt) = .ok (utf8 doc') := by
  unfold clientApplyRange at h
  cases hs : charIndex doc r.start with
  | none => simp [hs] at h
  | some i =>
    cases he : charIndex doc r.stop with
    | none => simp [hs, he] at h
    | some j =>
      simp only [hs, he] at h
      split at h
      · rename_i hij
        simp at h; subst h
        unfold applyOne
        simp only [positionOffset_of_charIndex _ _ _ hs, positionOffset_of_charIndex _ _ _ he]
        have := utf8Len_take_mono doc hij
        simp only [show ¬ utf8Len (doc.take j) < utf8Len (doc.take i) by omega, if_false,
          take_utf8, drop_utf8, utf8_append, List.append_assoc]
      · simp at h

/-- a range the (simple) client cannot resolve, with both ends outside surrogate pairs and outside
`\r\n` gaps, is rejected -/
theorem applyOne_error_of_none (doc : List Char) (r : Range) (txt : List Char)
    (h : clientApplyRange charIndex doc r txt = none)
    (hm1 : midSurrogate doc r.start = false) (hm2 : midSurrogate doc r.stop = false)
    (hr1 : afterCR doc r.start = false) (hr2 : afterCR doc r.stop = false) :
    ∃ e, applyOne (utf8 doc) r (utf8 txt) = .error e := by
  unfold clientApplyRange at h
  unfold applyOne
  cases hs : charIndex doc r.start with
  | none =>
    obtain ⟨e, he⟩ := positionOffset_error_of_none doc r.start hs hm1 hr1
    exact ⟨.pos e, by simp [he]⟩
  | some i =>
    simp only [positionOffset_of_charIndex _ _ _ hs]
    cases he : charIndex doc r.stop with
    | none =>
      obtain ⟨e, hee⟩ := positionOffset_error_of_none doc r.stop he hm2 hr2
      exact ⟨.pos e, by simp [hee]⟩
    | some j =>
      simp only [positionOffset_of_charIndex _ _ _ he]
      simp only [hs, he] at h
      split at h
      · simp at h
      · rename_i hij
        have := utf8Len_take_strict doc (show j < i by omega) (charIndex_le _ _ _ hs)
        exact ⟨.reversed, by simp [this]⟩

theorem changedText_incr (stored : List Nat) (cs : List CChange) (h : cs.all isIncr = true)
    (hne : cs ≠ []) :
    changedText stored (cs.map toServer) = applyIncremental stored (cs.map toServer) := by
  cases cs with
  | nil => exact absurd rfl hne
  | cons c rest =>
    cases rest with
    | nil =>
      cases c with
      | full t => simp [isIncr] at h
      | incr r t => simp [changedText, toServer]
    | cons c2 rest2 => simp [changedText]

/-! Realise the equation lemmas of the model functions here, so that the audited module
Props/C21.lean contains the property theorems only. -/
theorem eqnsRealised : True := by
  have := @NotifShape.eq_1
  have := @NotifShape.eq_2
  have := @applyIncremental.eq_1
  have := @applyIncremental.eq_2
  have := @applyIncremental.eq_def
  have := @clientApply1.eq_1
  have := @clientApply1.eq_2
  have := @clientApplyList.eq_1
  have := @clientApplyList.eq_2
  have := @clientApplyList.eq_def
  have := @clientRun.eq_1
  have := @clientRun.eq_2
  have := @clientRun.eq_def
  have := @clientStep.eq_1
  have := @clientStep.eq_2
  have := @didChange.eq_1
  have := @historyGuard.eq_1
  have := @historyGuard.eq_2
  have := @historyGuard.eq_3
  have := @historyGuard.eq_def
  have := @listNoLoneCR.eq_1
  have := @listNoLoneCR.eq_2
  have := @listNoLoneCR.eq_def
  have := @serverRun.eq_1
  have := @serverRun.eq_2
  have := @serverRun.eq_def
  have := @serverStep.eq_1
  have := @serverStep.eq_2
  trivial

end WaVerif.C21
