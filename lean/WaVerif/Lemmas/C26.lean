import WaVerif.Model.C26
import WaVerif.Lemmas.C25Stream
/-!
# C26 — helper lemmas (decimal, header scan, chunked reader = flat reader)
-/
namespace WaVerif.C26
open WaVerif.Gen.C26 WaVerif.Stream

/-! ## decimal -/

theorem decDigits_isDigit (n : Nat) : ∀ d ∈ decDigits n, isDigit d = true := by
  induction n using Nat.strongRecOn with
  | _ n ih =>
    intro d hd
    rw [decDigits] at hd
    by_cases h : n < 10
    · rw [if_pos h] at hd
      simp only [List.mem_singleton] at hd
      subst hd; simp [isDigit]; omega
    · rw [if_neg h] at hd
      simp only [List.mem_append, List.mem_singleton] at hd
      rcases hd with hd | rfl
      · exact ih (n / 10) (by omega) d hd
      · simp [isDigit]; omega

theorem decDigits_ne_nil (n : Nat) : decDigits n ≠ [] := by
  rw [decDigits]; split <;> simp

theorem parseDec_snoc (l : List Nat) (d : Nat) : parseDec (l ++ [d]) = parseDec l * 10 + (d - 48) := by
  simp [parseDec, List.foldl_append]

theorem parseDec_decDigits (n : Nat) : parseDec (decDigits n) = n := by
  induction n using Nat.strongRecOn with
  | _ n ih =>
    rw [decDigits]
    by_cases h : n < 10
    · rw [if_pos h]; simp [parseDec]
    · rw [if_neg h, parseDec_snoc, ih (n / 10) (by omega)]; omega

theorem isDigit_ne_cr {d : Nat} (h : isDigit d = true) : d ≠ 13 := by
  simp [isDigit] at h; omega

/-! ## flat primitives on concatenations -/

theorem takeUntil_append (d : Nat) (l r : List Nat) (h : ∀ b ∈ l, b ≠ d) :
    ∀ acc, takeUntil d (l ++ d :: r) acc = some (acc ++ l ++ [d], r) := by
  induction l with
  | nil => intro acc; simp [takeUntil]
  | cons b l ih =>
    intro acc
    have hb : b ≠ d := h b (by simp)
    rw [List.cons_append, takeUntil, if_neg hb, ih (fun x hx => h x (by simp [hx]))]
    simp

theorem takeN_append (l r : List Nat) : ∀ acc, takeN l.length (l ++ r) acc = some (acc ++ l, r) := by
  induction l with
  | nil => intro acc; simp [takeN]
  | cons b l ih => intro acc; simp only [List.length_cons, List.cons_append, takeN]; rw [ih]; simp

theorem trimCr_snoc (l : List Nat) : trimCr (l ++ [13]) = l := by
  simp [trimCr]

theorem matchHeader_prefix (ds : List Nat) (hne : ds ≠ []) (hd : ∀ d ∈ ds, isDigit d = true) :
    matchHeader (regexPrefix ++ ds) = some ds := by
  unfold matchHeader
  rw [List.take_left', List.drop_left']
  · have : ds.all isDigit = true := by simpa [List.all_eq_true] using hd
    simp [hne, this]
  · rfl
  · rfl

/-! ## chunked reader = flat reader -/

theorem next_isNone_iff {cap : Nat} {s : Buffered} (hw : s.WF cap) :
    (s.next cap).isNone = s.flat.isEmpty := by
  cases hn : s.next cap with
  | none => simp [Buffered.next_none_flat hw hn]
  | some r => obtain ⟨b, s'⟩ := r; simp [Buffered.next_flat hn]

def liftB {α : Type} : Except Err (α × Buffered) → Except Err (α × List Nat)
  | .error e => .error e
  | .ok (a, s) => .ok (a, s.flat)

theorem readLenC_flat (cap : Nat) (s : Buffered) (hw : s.WF cap) :
    liftB (readLenC cap s) = readLen s.flat ∧ ∀ n s2, readLenC cap s = .ok (n, s2) → s2.WF cap := by
  have hu := takeUntilC_flat cap 13 s [] hw
  cases h1 : takeUntilC cap 13 s [] with
  | none =>
    rw [h1] at hu
    simp only [Option.map_none] at hu
    simp only [readLenC, readLen, h1, ← hu.1, liftB, true_and]
    intro n s2 he; simp at he
  | some r1 =>
    obtain ⟨hdr, s1⟩ := r1
    rw [h1] at hu
    simp only [Option.map_some] at hu
    have hw1 : s1.WF cap := hu.2 _ rfl
    have h3 := takeNC_flat cap 3 s1 [] hw1
    cases h2 : takeNC cap 3 s1 [] with
    | none =>
      rw [h2] at h3
      simp only [Option.map_none] at h3
      simp only [readLenC, readLen, h1, h2, ← hu.1, ← h3.1, liftB, next_isNone_iff hw1, true_and]
      intro n s2 he; simp at he
    | some r2 =>
      obtain ⟨three, s2⟩ := r2
      rw [h2] at h3
      simp only [Option.map_some] at h3
      have hw2 : s2.WF cap := h3.2 _ rfl
      simp only [readLenC, readLen, h1, h2, ← hu.1, ← h3.1]
      cases hv : headerValue hdr three with
      | error e =>
        simp only [liftB, true_and]
        intro n s2 he; simp at he
      | ok v =>
        simp only [liftB, true_and]
        intro n s2' he
        simp only [Except.ok.injEq, Prod.mk.injEq] at he
        rw [← he.2]; exact hw2

theorem readBaseC_flat (cap : Nat) (s : Buffered) (hw : s.WF cap) :
    liftB (readBaseC cap s) = readBase s.flat ∧ ∀ c r, readBaseC cap s = .ok (c, r) → r.WF cap := by
  have hl := readLenC_flat cap s hw
  cases h1 : readLenC cap s with
  | error e =>
    rw [h1] at hl
    simp only [liftB] at hl
    simp only [readBaseC, readBase, h1, ← hl.1, liftB, true_and]
    intro c r he; simp at he
  | ok r1 =>
    obtain ⟨n, s2⟩ := r1
    rw [h1] at hl
    simp only [liftB] at hl
    have hw2 : s2.WF cap := hl.2 _ _ rfl
    have h3 := takeNC_flat cap n s2 [] hw2
    cases h2 : takeNC cap n s2 [] with
    | none =>
      rw [h2] at h3
      simp only [Option.map_none] at h3
      simp only [readBaseC, readBase, h1, h2, ← hl.1, ← h3.1, liftB, next_isNone_iff hw2, true_and]
      intro c r he; simp at he
    | some r2 =>
      obtain ⟨c, r⟩ := r2
      rw [h2] at h3
      simp only [Option.map_some] at h3
      simp only [readBaseC, readBase, h1, h2, ← hl.1, ← h3.1, liftB, true_and]
      intro c' r' he
      simp only [Except.ok.injEq, Prod.mk.injEq] at he
      rw [← he.2]; exact h3.2 _ rfl

theorem readAllBase_error {s : List Nat} {e : Err} (h : readBase s = .error e) :
    readAllBase s = ([], e) := by
  rw [readAllBase]; split
  · rename_i e' h'; rw [h] at h'; simp only [Except.error.injEq] at h'; rw [h']
  · rename_i c r h'; rw [h] at h'; simp at h'

theorem readAllBase_ok {s c r : List Nat} (h : readBase s = .ok (c, r)) :
    readAllBase s = (c :: (readAllBase r).1, (readAllBase r).2) := by
  rw [readAllBase]; split
  · rename_i e' h'; rw [h] at h'; simp at h'
  · rename_i c' r' h'; rw [h] at h'
    simp only [Except.ok.injEq, Prod.mk.injEq] at h'
    obtain ⟨rfl, rfl⟩ := h'; rfl

theorem readAllBaseC_flat (cap : Nat) : ∀ (fuel : Nat) (s : Buffered), s.WF cap → s.flat.length < fuel →
    readAllBaseC cap fuel s = readAllBase s.flat := by
  intro fuel
  induction fuel with
  | zero => intro s _ h; omega
  | succ fuel ih =>
    intro s hw hlen
    have hb := readBaseC_flat cap s hw
    unfold readAllBaseC
    cases h1 : readBaseC cap s with
    | error e =>
      rw [h1] at hb
      simp only [liftB] at hb
      rw [readAllBase_error hb.1.symm]
    | ok r1 =>
      obtain ⟨c, r⟩ := r1
      rw [h1] at hb
      simp only [liftB] at hb
      have hlt := readBase_rest_lt hb.1.symm
      rw [readAllBase_ok hb.1.symm]
      simp only
      rw [ih r (hb.2 _ _ rfl) (by omega)]

/-! ## dispatch: cheap distinctness, lookup in a table with distinct keys -/

theorem nodup_of_allDistinctN : ∀ (l : List Nat), allDistinctN l = true → l.Nodup
  | [], _ => List.nodup_nil
  | x :: xs, h => by
    simp only [allDistinctN, Bool.and_eq_true, Bool.not_eq_eq_eq_not, Bool.not_true] at h
    refine List.nodup_cons.mpr ⟨?_, nodup_of_allDistinctN xs h.2⟩
    intro hm
    have : xs.contains x = true := List.contains_iff_mem.mpr hm
    rw [this] at h; simp at h

theorem nodup_of_codes {α : Type} (f : α → Nat) (l : List α) (h : allDistinctN (l.map f) = true) :
    l.Nodup :=
  List.Pairwise.of_map f (fun _ _ hab e => hab (congrArg f e)) (nodup_of_allDistinctN _ h)

theorem lookup_of_mem_nodup {α β : Type} [BEq α] [LawfulBEq α] :
    ∀ (t : List (α × β)) (k : α) (v : β), (t.map Prod.fst).Nodup → (k, v) ∈ t → t.lookup k = some v
  | [], _, _, _, h => by simp at h
  | (k', v') :: t, k, v, hn, h => by
    simp only [List.map_cons, List.nodup_cons] at hn
    simp only [List.mem_cons, Prod.mk.injEq] at h
    rcases h with ⟨rfl, rfl⟩ | h
    · simp [List.lookup]
    · have hne : k ≠ k' := by
        intro e; subst e
        exact hn.1 (List.mem_map.mpr ⟨(k, v), h, rfl⟩)
      have : (k == k') = false := by simpa using hne
      simp only [List.lookup, this]
      exact lookup_of_mem_nodup t k v hn.2 h

end WaVerif.C26
