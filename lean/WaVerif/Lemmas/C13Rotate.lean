import WaVerif.Lemmas.C13Tree
/-!
C13 — rotations of the mirror: field-level effect and preservation of the represented in-order sequence.
-/
namespace WaVerif.C13RB

/-! ## leftRotate -/

theorem leftRotate_size (s : St) (x : Nat) : (leftRotate s x).heap.size = s.heap.size := by
  unfold leftRotate; split <;> simp

theorem leftRotate_nodes (s : St) (x : Nat) : (leftRotate s x).nodes = s.nodes := by
  unfold leftRotate; split <;> simp

theorem leftRotate_key (s : St) (x q : Nat) : ((leftRotate s x).nd q).key = (s.nd q).key := by
  unfold leftRotate; split <;> simp

theorem leftRotate_val (s : St) (x q : Nat) : ((leftRotate s x).nd q).val = (s.nd q).val := by
  unfold leftRotate; split <;> simp

theorem leftRotate_idx (s : St) (x q : Nat) : ((leftRotate s x).nd q).idx = (s.nd q).idx := by
  unfold leftRotate; split <;> simp

/-- the parent of `x` as seen by the relinking step is the parent in the initial store -/
theorem leftRotate_px (s : St) (x : Nat) (hxy : x ≠ (s.nd x).right) (hbx : x ≠ (s.nd (s.nd x).right).left) :
    (((adopt (s.setRight x (s.nd (s.nd x).right).left)
        (((s.setRight x (s.nd (s.nd x).right).left)).nd (s.nd x).right).left x).setParent (s.nd x).right
        ((adopt (s.setRight x (s.nd (s.nd x).right).left)
          (((s.setRight x (s.nd (s.nd x).right).left)).nd (s.nd x).right).left x).parentOf x))).parentOf x = s.parentOf x := by
  rw [setParent_parentOf_ne _ _ _ _ hxy, adopt_parentOf_ne, setRight_parentOf]
  rw [setRight_left]; exact hbx

theorem leftRotate_left (s : St) (x q : Nat) (h0 : (s.nd x).right ≠ 0)
    (hxy : x ≠ (s.nd x).right) (hbx : x ≠ (s.nd (s.nd x).right).left) (hq : q ≠ s.parentOf x) :
    ((leftRotate s x).nd q).left =
      if q = (s.nd x).right ∧ (s.nd x).right < s.heap.size then x else (s.nd q).left := by
  unfold leftRotate
  rw [if_neg h0]
  simp only [setParent_left, setLeft_left, relink_size, setParent_size, adopt_size, setRight_size]
  split
  · rfl
  · rw [relink_left_ne]
    · simp
    · rw [leftRotate_px s x hxy hbx]; exact hq

theorem leftRotate_right (s : St) (x q : Nat) (h0 : (s.nd x).right ≠ 0)
    (hxy : x ≠ (s.nd x).right) (hbx : x ≠ (s.nd (s.nd x).right).left) (hq : q ≠ s.parentOf x) :
    ((leftRotate s x).nd q).right =
      if q = x ∧ x < s.heap.size then (s.nd (s.nd x).right).left else (s.nd q).right := by
  unfold leftRotate
  rw [if_neg h0]
  simp only [setParent_right, setLeft_right]
  rw [relink_right_ne]
  · simp [setRight_right]
  · rw [leftRotate_px s x hxy hbx]; exact hq

theorem rep_root_zero_or_mem {s : St} {p : Nat} {t : RTree} (h : Rep s p t) : p = 0 ∨ p ∈ t.ptrs := by
  cases t with
  | leaf => exact Or.inl h
  | node l q k v r => right; rw [h.1]; simp [RTree.ptrs]

/-- a subtree none of whose nodes is `x`, `x.right` or `x`'s parent is untouched by `leftRotate x` -/
theorem leftRotate_frame {s : St} {x p : Nat} {t : RTree} (h0 : (s.nd x).right ≠ 0)
    (hxy : x ≠ (s.nd x).right) (hbx : x ≠ (s.nd (s.nd x).right).left)
    (h : Rep s p t) (hd : ∀ q ∈ t.ptrs, q ≠ x ∧ q ≠ (s.nd x).right ∧ q ≠ s.parentOf x) :
    Rep (leftRotate s x) p t := by
  apply rep_frame h (by rw [leftRotate_size]; exact Nat.le_refl _)
  intro q hq
  obtain ⟨h1, h2, h3⟩ := hd q hq
  refine ⟨?_, ?_, leftRotate_key s x q, leftRotate_val s x q⟩
  · rw [leftRotate_left s x q h0 hxy hbx h3]; simp [h2]
  · rw [leftRotate_right s x q h0 hxy hbx h3]; simp [h1]

/-- `leftRotate x` on a store representing `x(a, y(b, c))` at `x` yields `y(x(a, b), c)` at `y` -/
theorem leftRotate_rep (s : St) (a b c : RTree) (x y : Nat) (kx vx ky vy : Int)
    (hr : Rep s x (.node a x kx vx (.node b y ky vy c)))
    (hnd : (RTree.node a x kx vx (.node b y ky vy c)).ptrs.Nodup)
    (hpx : s.parentOf x ∉ (RTree.node a x kx vx (.node b y ky vy c)).ptrs) :
    Rep (leftRotate s x) y (.node (.node a x kx vx b) y ky vy c) := by
  obtain ⟨_, hx0, hxs, hkx, hvx, ha, hyr⟩ := hr
  obtain ⟨hy, hy0, hys, hky, hvy, hb, hc⟩ := hyr
  simp only [RTree.ptrs, List.nodup_append, List.nodup_cons, List.mem_append, List.mem_cons, not_or] at hnd hpx
  obtain ⟨hna, ⟨⟨hxb, hxy', hxc⟩, hnb, ⟨hyc, hnc⟩, hbc⟩, hax⟩ := hnd
  obtain ⟨hpa, hpxx, hpb, hpy, hpc⟩ := hpx
  have hxy : x ≠ (s.nd x).right := by rw [hy]; exact hxy'
  have h0 : (s.nd x).right ≠ 0 := hy0
  have hbx : x ≠ (s.nd (s.nd x).right).left := by
    rcases rep_root_zero_or_mem hb with e | e
    · rw [e]; exact hx0
    · intro e'; rw [← e'] at e; exact hxb e
  have hyx : (s.nd x).right ≠ x := fun e => hxy e.symm
  have hfr : ∀ (t : RTree) (p : Nat), Rep s p t → (∀ q ∈ t.ptrs, q ≠ x ∧ q ≠ (s.nd x).right ∧ q ≠ s.parentOf x) →
      Rep (leftRotate s x) p t := fun t p h hd => leftRotate_frame h0 hxy hbx h hd
  refine ⟨hy.symm ▸ rfl, hy ▸ hy0, ?_, ?_, ?_, ?_, ?_⟩
  · rw [leftRotate_size, ← hy]; exact hys
  · rw [leftRotate_key, ← hy]; exact hky
  · rw [leftRotate_val, ← hy]; exact hvy
  · -- left child of y is x, representing x(a, b)
    have hl : ((leftRotate s x).nd y).left = x := by
      rw [leftRotate_left s x y h0 hxy hbx (fun e => hpy e.symm), hy]; simp [hy ▸ hys]
    rw [hl]
    refine ⟨rfl, hx0, by rw [leftRotate_size]; exact hxs, by rw [leftRotate_key]; exact hkx,
      by rw [leftRotate_val]; exact hvx, ?_, ?_⟩
    · have : ((leftRotate s x).nd x).left = (s.nd x).left := by
        rw [leftRotate_left s x x h0 hxy hbx (fun e => hpxx e.symm)]; simp [hxy]
      rw [this]
      apply hfr a _ ha
      intro q hq
      refine ⟨fun e => ?_, fun e => ?_, fun e => hpa (e ▸ hq)⟩
      · exact hax q hq x (by simp) e
      · exact hax q hq y (by simp) (e.trans hy)
    · have : ((leftRotate s x).nd x).right = (s.nd (s.nd x).right).left := by
        rw [leftRotate_right s x x h0 hxy hbx (fun e => hpxx e.symm)]; simp [hxs]
      rw [this]
      apply hfr b _ hb
      intro q hq
      refine ⟨fun e => hxb (e ▸ hq), fun e => ?_, fun e => hpb (e ▸ hq)⟩
      exact hbc q hq y (by simp) (e.trans hy)
  · have : ((leftRotate s x).nd y).right = (s.nd (s.nd x).right).right := by
      rw [leftRotate_right s x y h0 hxy hbx (fun e => hpy e.symm), hy]; simp
      intro e; exact absurd e.symm hxy'
    rw [this]
    apply hfr c _ hc
    intro q hq
    refine ⟨fun e => hxc (e ▸ hq), fun e => hyc ((e.trans hy) ▸ hq), fun e => hpc (e ▸ hq)⟩

/-! ## rightRotate (mirror image) -/

theorem rightRotate_size (s : St) (x : Nat) : (rightRotate s x).heap.size = s.heap.size := by
  unfold rightRotate; split <;> simp

theorem rightRotate_nodes (s : St) (x : Nat) : (rightRotate s x).nodes = s.nodes := by
  unfold rightRotate; split <;> simp

theorem rightRotate_key (s : St) (x q : Nat) : ((rightRotate s x).nd q).key = (s.nd q).key := by
  unfold rightRotate; split <;> simp

theorem rightRotate_val (s : St) (x q : Nat) : ((rightRotate s x).nd q).val = (s.nd q).val := by
  unfold rightRotate; split <;> simp

theorem rightRotate_idx (s : St) (x q : Nat) : ((rightRotate s x).nd q).idx = (s.nd q).idx := by
  unfold rightRotate; split <;> simp

theorem rightRotate_px (s : St) (x : Nat) (hxy : x ≠ (s.nd x).left) (hbx : x ≠ (s.nd (s.nd x).left).right) :
    (((adopt (s.setLeft x (s.nd (s.nd x).left).right)
        (((s.setLeft x (s.nd (s.nd x).left).right)).nd (s.nd x).left).right x).setParent (s.nd x).left
        ((adopt (s.setLeft x (s.nd (s.nd x).left).right)
          (((s.setLeft x (s.nd (s.nd x).left).right)).nd (s.nd x).left).right x).parentOf x))).parentOf x = s.parentOf x := by
  rw [setParent_parentOf_ne _ _ _ _ hxy, adopt_parentOf_ne, setLeft_parentOf]
  rw [setLeft_right]; exact hbx

theorem rightRotate_right (s : St) (x q : Nat) (h0 : (s.nd x).left ≠ 0)
    (hxy : x ≠ (s.nd x).left) (hbx : x ≠ (s.nd (s.nd x).left).right) (hq : q ≠ s.parentOf x) :
    ((rightRotate s x).nd q).right =
      if q = (s.nd x).left ∧ (s.nd x).left < s.heap.size then x else (s.nd q).right := by
  unfold rightRotate
  rw [if_neg h0]
  simp only [setParent_right, setRight_right, relink_size, setParent_size, adopt_size, setLeft_size]
  split
  · rfl
  · rw [relink_right_ne]
    · simp
    · rw [rightRotate_px s x hxy hbx]; exact hq

theorem rightRotate_left (s : St) (x q : Nat) (h0 : (s.nd x).left ≠ 0)
    (hxy : x ≠ (s.nd x).left) (hbx : x ≠ (s.nd (s.nd x).left).right) (hq : q ≠ s.parentOf x) :
    ((rightRotate s x).nd q).left =
      if q = x ∧ x < s.heap.size then (s.nd (s.nd x).left).right else (s.nd q).left := by
  unfold rightRotate
  rw [if_neg h0]
  simp only [setParent_left, setRight_left]
  rw [relink_left_ne]
  · simp [setLeft_left]
  · rw [rightRotate_px s x hxy hbx]; exact hq

theorem rightRotate_frame {s : St} {x p : Nat} {t : RTree} (h0 : (s.nd x).left ≠ 0)
    (hxy : x ≠ (s.nd x).left) (hbx : x ≠ (s.nd (s.nd x).left).right)
    (h : Rep s p t) (hd : ∀ q ∈ t.ptrs, q ≠ x ∧ q ≠ (s.nd x).left ∧ q ≠ s.parentOf x) :
    Rep (rightRotate s x) p t := by
  apply rep_frame h (by rw [rightRotate_size]; exact Nat.le_refl _)
  intro q hq
  obtain ⟨h1, h2, h3⟩ := hd q hq
  refine ⟨?_, ?_, rightRotate_key s x q, rightRotate_val s x q⟩
  · rw [rightRotate_left s x q h0 hxy hbx h3]; simp [h1]
  · rw [rightRotate_right s x q h0 hxy hbx h3]; simp [h2]

/-- `rightRotate x` on a store representing `x(y(a, b), c)` at `x` yields `y(a, x(b, c))` at `y` -/
theorem rightRotate_rep (s : St) (a b c : RTree) (x y : Nat) (kx vx ky vy : Int)
    (hr : Rep s x (.node (.node a y ky vy b) x kx vx c))
    (hnd : (RTree.node (.node a y ky vy b) x kx vx c).ptrs.Nodup)
    (hpx : s.parentOf x ∉ (RTree.node (.node a y ky vy b) x kx vx c).ptrs) :
    Rep (rightRotate s x) y (.node a y ky vy (.node b x kx vx c)) := by
  obtain ⟨_, hx0, hxs, hkx, hvx, hyr, hc⟩ := hr
  obtain ⟨hy, hy0, hys, hky, hvy, ha, hb⟩ := hyr
  simp only [RTree.ptrs, List.nodup_append, List.nodup_cons, List.mem_append, List.mem_cons, not_or] at hnd hpx
  obtain ⟨⟨hna, ⟨hyb, hnb⟩, hab⟩, ⟨hxc, hnc⟩, hlx⟩ := hnd
  obtain ⟨⟨hpa, hpy, hpb⟩, hpxx, hpc⟩ := hpx
  have hxy' : x ≠ y := fun e => hlx y (by simp) x (by simp) e.symm
  have hxy : x ≠ (s.nd x).left := by rw [hy]; exact hxy'
  have h0 : (s.nd x).left ≠ 0 := hy0
  have hbx : x ≠ (s.nd (s.nd x).left).right := by
    rcases rep_root_zero_or_mem hb with e | e
    · rw [e]; exact hx0
    · intro e'; rw [← e'] at e; exact hlx x (by simp [e]) x (by simp) rfl
  have hfr : ∀ (t : RTree) (p : Nat), Rep s p t → (∀ q ∈ t.ptrs, q ≠ x ∧ q ≠ (s.nd x).left ∧ q ≠ s.parentOf x) →
      Rep (rightRotate s x) p t := fun t p h hd => rightRotate_frame h0 hxy hbx h hd
  refine ⟨hy.symm ▸ rfl, hy ▸ hy0, ?_, ?_, ?_, ?_, ?_⟩
  · rw [rightRotate_size, ← hy]; exact hys
  · rw [rightRotate_key, ← hy]; exact hky
  · rw [rightRotate_val, ← hy]; exact hvy
  · have : ((rightRotate s x).nd y).left = (s.nd (s.nd x).left).left := by
      rw [rightRotate_left s x y h0 hxy hbx (fun e => hpy e.symm), hy]; simp
      intro e; exact absurd e.symm hxy'
    rw [this]
    apply hfr a _ ha
    intro q hq
    refine ⟨fun e => ?_, fun e => ?_, fun e => hpa (e ▸ hq)⟩
    · exact hlx q (by simp [hq]) x (by simp) e
    · exact hab q hq y (by simp) (e.trans hy)
  · have hl : ((rightRotate s x).nd y).right = x := by
      rw [rightRotate_right s x y h0 hxy hbx (fun e => hpy e.symm), hy]; simp [hy ▸ hys]
    rw [hl]
    refine ⟨rfl, hx0, by rw [rightRotate_size]; exact hxs, by rw [rightRotate_key]; exact hkx,
      by rw [rightRotate_val]; exact hvx, ?_, ?_⟩
    · have : ((rightRotate s x).nd x).left = (s.nd (s.nd x).left).right := by
        rw [rightRotate_left s x x h0 hxy hbx (fun e => hpxx e.symm)]; simp [hxs]
      rw [this]
      apply hfr b _ hb
      intro q hq
      refine ⟨fun e => ?_, fun e => hyb ((e.trans hy) ▸ hq), fun e => hpb (e ▸ hq)⟩
      exact hlx q (by simp [hq]) x (by simp) e
    · have : ((rightRotate s x).nd x).right = (s.nd x).right := by
        rw [rightRotate_right s x x h0 hxy hbx (fun e => hpxx e.symm)]; simp [hxy]
      rw [this]
      apply hfr c _ hc
      intro q hq
      refine ⟨fun e => hxc (e ▸ hq), fun e => ?_, fun e => hpc (e ▸ hq)⟩
      exact hlx y (by simp) q (by simp [hq]) (e.trans hy).symm

/-! ## where the pointer to `x` went -/

theorem leftRotate_root (s : St) (x : Nat) (h0 : (s.nd x).right ≠ 0)
    (hxy : x ≠ (s.nd x).right) (hbx : x ≠ (s.nd (s.nd x).right).left) :
    (leftRotate s x).root = if s.parentOf x = 0 then (s.nd x).right else s.root := by
  unfold leftRotate
  rw [if_neg h0]
  simp only [setParent_root, setLeft_root, relink_root, leftRotate_px s x hxy hbx, adopt_root, setRight_root]

theorem relink_at (S : St) (x y p : Nat) (hp : S.parentOf x = p) (h0 : p ≠ 0) (hs : p < S.heap.size) :
    ((relink S x y).nd p).left = (if x = (S.nd p).left then y else (S.nd p).left) ∧
    ((relink S x y).nd p).right = (if x = (S.nd p).left then (S.nd p).right else y) := by
  subst hp; exact relink_at_parent S x y h0 hs

theorem leftRotate_at_parent (s : St) (x : Nat) (h0 : (s.nd x).right ≠ 0)
    (hxy : x ≠ (s.nd x).right) (hbx : x ≠ (s.nd (s.nd x).right).left)
    (hp0 : s.parentOf x ≠ 0) (hps : s.parentOf x < s.heap.size) (hpx : s.parentOf x ≠ x) (hpy : s.parentOf x ≠ (s.nd x).right) :
    ((leftRotate s x).nd (s.parentOf x)).left =
        (if x = (s.nd (s.parentOf x)).left then (s.nd x).right else (s.nd (s.parentOf x)).left) ∧
    ((leftRotate s x).nd (s.parentOf x)).right =
        (if x = (s.nd (s.parentOf x)).left then (s.nd (s.parentOf x)).right else (s.nd x).right) := by
  unfold leftRotate
  rw [if_neg h0]
  have hpe := leftRotate_px s x hxy hbx
  simp only [setParent_left, setParent_right, setLeft_left, setLeft_right, hpy, false_and, if_false]
  have h := relink_at _ x (s.nd x).right (s.parentOf x) hpe hp0 (by simpa using hps)
  rw [h.1, h.2]
  simp only [setParent_left, setParent_right, adopt_left, adopt_right, setRight_left, setRight_right, hpx, false_and, if_false]
  exact ⟨trivial, trivial⟩

theorem rightRotate_root (s : St) (x : Nat) (h0 : (s.nd x).left ≠ 0)
    (hxy : x ≠ (s.nd x).left) (hbx : x ≠ (s.nd (s.nd x).left).right) :
    (rightRotate s x).root = if s.parentOf x = 0 then (s.nd x).left else s.root := by
  unfold rightRotate
  rw [if_neg h0]
  simp only [setParent_root, setRight_root, relink_root, rightRotate_px s x hxy hbx, adopt_root, setLeft_root]

theorem rightRotate_at_parent (s : St) (x : Nat) (h0 : (s.nd x).left ≠ 0)
    (hxy : x ≠ (s.nd x).left) (hbx : x ≠ (s.nd (s.nd x).left).right)
    (hp0 : s.parentOf x ≠ 0) (hps : s.parentOf x < s.heap.size) (hpx : s.parentOf x ≠ x) (hpy : s.parentOf x ≠ (s.nd x).left) :
    ((rightRotate s x).nd (s.parentOf x)).left =
        (if x = (s.nd (s.parentOf x)).left then (s.nd x).left else (s.nd (s.parentOf x)).left) ∧
    ((rightRotate s x).nd (s.parentOf x)).right =
        (if x = (s.nd (s.parentOf x)).left then (s.nd (s.parentOf x)).right else (s.nd x).left) := by
  unfold rightRotate
  rw [if_neg h0]
  have hpe := rightRotate_px s x hxy hbx
  simp only [setParent_left, setParent_right, setRight_left, setRight_right, hpy, false_and, if_false]
  have h := relink_at _ x (s.nd x).left (s.parentOf x) hpe hp0 (by simpa using hps)
  rw [h.1, h.2]
  simp only [setParent_left, setParent_right, adopt_left, adopt_right, setLeft_left, setLeft_right, hpx, false_and, if_false]
  exact ⟨trivial, trivial⟩

end WaVerif.C13RB
