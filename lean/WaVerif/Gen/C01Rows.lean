import WaVerif.Base.WasmNum
/-! REGENERATED on every run by extract/c01_rows.py from wir.EmitBinOp/EmitUnOp/EmitGenConvert
    of /repo's working tree. Do not edit. -/
namespace WaVerif.Gen.C01
open WaVerif.Wasm

/-- bin add u8 u8  ⇒  local.get $x ; local.get $y ; i32.add ; i32.const 255 ; i32.and : u8 -/
def bin_add_u8_u8 : List Instr := [.localGet 0, .localGet 1, .bin .i32 .add, .const32 255#32, .bin .i32 .and]
def bin_add_u8_u8_ret : String := "u8"
/-- bin add u16 u16  ⇒  local.get $x ; local.get $y ; i32.add ; i32.const 65535 ; i32.and : u16 -/
def bin_add_u16_u16 : List Instr := [.localGet 0, .localGet 1, .bin .i32 .add, .const32 65535#32, .bin .i32 .and]
def bin_add_u16_u16_ret : String := "u16"
/-- bin add i32 i32  ⇒  local.get $x ; local.get $y ; i32.add : i32 -/
def bin_add_i32_i32 : List Instr := [.localGet 0, .localGet 1, .bin .i32 .add]
def bin_add_i32_i32_ret : String := "i32"
/-- bin add u32 u32  ⇒  local.get $x ; local.get $y ; i32.add : u32 -/
def bin_add_u32_u32 : List Instr := [.localGet 0, .localGet 1, .bin .i32 .add]
def bin_add_u32_u32_ret : String := "u32"
/-- bin add i64 i64  ⇒  local.get $x ; local.get $y ; i64.add : i64 -/
def bin_add_i64_i64 : List Instr := [.localGet 0, .localGet 1, .bin .i64 .add]
def bin_add_i64_i64_ret : String := "i64"
/-- bin add u64 u64  ⇒  local.get $x ; local.get $y ; i64.add : u64 -/
def bin_add_u64_u64 : List Instr := [.localGet 0, .localGet 1, .bin .i64 .add]
def bin_add_u64_u64_ret : String := "u64"
/-- bin add rune rune  ⇒  local.get $x ; local.get $y ; i32.add : rune -/
def bin_add_rune_rune : List Instr := [.localGet 0, .localGet 1, .bin .i32 .add]
def bin_add_rune_rune_ret : String := "rune"
/-- bin sub u8 u8  ⇒  local.get $x ; local.get $y ; i32.sub ; i32.const 255 ; i32.and : u8 -/
def bin_sub_u8_u8 : List Instr := [.localGet 0, .localGet 1, .bin .i32 .sub, .const32 255#32, .bin .i32 .and]
def bin_sub_u8_u8_ret : String := "u8"
/-- bin sub u16 u16  ⇒  local.get $x ; local.get $y ; i32.sub ; i32.const 65535 ; i32.and : u16 -/
def bin_sub_u16_u16 : List Instr := [.localGet 0, .localGet 1, .bin .i32 .sub, .const32 65535#32, .bin .i32 .and]
def bin_sub_u16_u16_ret : String := "u16"
/-- bin sub i32 i32  ⇒  local.get $x ; local.get $y ; i32.sub : i32 -/
def bin_sub_i32_i32 : List Instr := [.localGet 0, .localGet 1, .bin .i32 .sub]
def bin_sub_i32_i32_ret : String := "i32"
/-- bin sub u32 u32  ⇒  local.get $x ; local.get $y ; i32.sub : u32 -/
def bin_sub_u32_u32 : List Instr := [.localGet 0, .localGet 1, .bin .i32 .sub]
def bin_sub_u32_u32_ret : String := "u32"
/-- bin sub i64 i64  ⇒  local.get $x ; local.get $y ; i64.sub : i64 -/
def bin_sub_i64_i64 : List Instr := [.localGet 0, .localGet 1, .bin .i64 .sub]
def bin_sub_i64_i64_ret : String := "i64"
/-- bin sub u64 u64  ⇒  local.get $x ; local.get $y ; i64.sub : u64 -/
def bin_sub_u64_u64 : List Instr := [.localGet 0, .localGet 1, .bin .i64 .sub]
def bin_sub_u64_u64_ret : String := "u64"
/-- bin sub rune rune  ⇒  local.get $x ; local.get $y ; i32.sub : rune -/
def bin_sub_rune_rune : List Instr := [.localGet 0, .localGet 1, .bin .i32 .sub]
def bin_sub_rune_rune_ret : String := "rune"
/-- bin mul u8 u8  ⇒  local.get $x ; local.get $y ; i32.mul ; i32.const 255 ; i32.and : u8 -/
def bin_mul_u8_u8 : List Instr := [.localGet 0, .localGet 1, .bin .i32 .mul, .const32 255#32, .bin .i32 .and]
def bin_mul_u8_u8_ret : String := "u8"
/-- bin mul u16 u16  ⇒  local.get $x ; local.get $y ; i32.mul ; i32.const 65535 ; i32.and : u16 -/
def bin_mul_u16_u16 : List Instr := [.localGet 0, .localGet 1, .bin .i32 .mul, .const32 65535#32, .bin .i32 .and]
def bin_mul_u16_u16_ret : String := "u16"
/-- bin mul i32 i32  ⇒  local.get $x ; local.get $y ; i32.mul : i32 -/
def bin_mul_i32_i32 : List Instr := [.localGet 0, .localGet 1, .bin .i32 .mul]
def bin_mul_i32_i32_ret : String := "i32"
/-- bin mul u32 u32  ⇒  local.get $x ; local.get $y ; i32.mul : u32 -/
def bin_mul_u32_u32 : List Instr := [.localGet 0, .localGet 1, .bin .i32 .mul]
def bin_mul_u32_u32_ret : String := "u32"
/-- bin mul i64 i64  ⇒  local.get $x ; local.get $y ; i64.mul : i64 -/
def bin_mul_i64_i64 : List Instr := [.localGet 0, .localGet 1, .bin .i64 .mul]
def bin_mul_i64_i64_ret : String := "i64"
/-- bin mul u64 u64  ⇒  local.get $x ; local.get $y ; i64.mul : u64 -/
def bin_mul_u64_u64 : List Instr := [.localGet 0, .localGet 1, .bin .i64 .mul]
def bin_mul_u64_u64_ret : String := "u64"
/-- bin mul rune rune  ⇒  local.get $x ; local.get $y ; i32.mul : rune -/
def bin_mul_rune_rune : List Instr := [.localGet 0, .localGet 1, .bin .i32 .mul]
def bin_mul_rune_rune_ret : String := "rune"
/-- bin quo u8 u8  ⇒  local.get $x ; local.get $y ; i32.div_u : u8 -/
def bin_quo_u8_u8 : List Instr := [.localGet 0, .localGet 1, .bin .i32 .div_u]
def bin_quo_u8_u8_ret : String := "u8"
/-- bin quo u16 u16  ⇒  local.get $x ; local.get $y ; i32.div_u : u16 -/
def bin_quo_u16_u16 : List Instr := [.localGet 0, .localGet 1, .bin .i32 .div_u]
def bin_quo_u16_u16_ret : String := "u16"
/-- bin quo i32 i32  ⇒  local.get $x ; local.get $y ; i32.div_s : i32 -/
def bin_quo_i32_i32 : List Instr := [.localGet 0, .localGet 1, .bin .i32 .div_s]
def bin_quo_i32_i32_ret : String := "i32"
/-- bin quo u32 u32  ⇒  local.get $x ; local.get $y ; i32.div_u : u32 -/
def bin_quo_u32_u32 : List Instr := [.localGet 0, .localGet 1, .bin .i32 .div_u]
def bin_quo_u32_u32_ret : String := "u32"
/-- bin quo i64 i64  ⇒  local.get $x ; local.get $y ; i64.div_s : i64 -/
def bin_quo_i64_i64 : List Instr := [.localGet 0, .localGet 1, .bin .i64 .div_s]
def bin_quo_i64_i64_ret : String := "i64"
/-- bin quo u64 u64  ⇒  local.get $x ; local.get $y ; i64.div_u : u64 -/
def bin_quo_u64_u64 : List Instr := [.localGet 0, .localGet 1, .bin .i64 .div_u]
def bin_quo_u64_u64_ret : String := "u64"
/-- bin quo rune rune  ⇒  local.get $x ; local.get $y ; i32.div_s : rune -/
def bin_quo_rune_rune : List Instr := [.localGet 0, .localGet 1, .bin .i32 .div_s]
def bin_quo_rune_rune_ret : String := "rune"
/-- bin rem u8 u8  ⇒  local.get $x ; local.get $y ; i32.rem_u : u8 -/
def bin_rem_u8_u8 : List Instr := [.localGet 0, .localGet 1, .bin .i32 .rem_u]
def bin_rem_u8_u8_ret : String := "u8"
/-- bin rem u16 u16  ⇒  local.get $x ; local.get $y ; i32.rem_u : u16 -/
def bin_rem_u16_u16 : List Instr := [.localGet 0, .localGet 1, .bin .i32 .rem_u]
def bin_rem_u16_u16_ret : String := "u16"
/-- bin rem i32 i32  ⇒  local.get $x ; local.get $y ; i32.rem_s : i32 -/
def bin_rem_i32_i32 : List Instr := [.localGet 0, .localGet 1, .bin .i32 .rem_s]
def bin_rem_i32_i32_ret : String := "i32"
/-- bin rem u32 u32  ⇒  local.get $x ; local.get $y ; i32.rem_u : u32 -/
def bin_rem_u32_u32 : List Instr := [.localGet 0, .localGet 1, .bin .i32 .rem_u]
def bin_rem_u32_u32_ret : String := "u32"
/-- bin rem i64 i64  ⇒  local.get $x ; local.get $y ; i64.rem_s : i64 -/
def bin_rem_i64_i64 : List Instr := [.localGet 0, .localGet 1, .bin .i64 .rem_s]
def bin_rem_i64_i64_ret : String := "i64"
/-- bin rem u64 u64  ⇒  local.get $x ; local.get $y ; i64.rem_u : u64 -/
def bin_rem_u64_u64 : List Instr := [.localGet 0, .localGet 1, .bin .i64 .rem_u]
def bin_rem_u64_u64_ret : String := "u64"
/-- bin rem rune rune  ⇒  local.get $x ; local.get $y ; i32.rem_s : rune -/
def bin_rem_rune_rune : List Instr := [.localGet 0, .localGet 1, .bin .i32 .rem_s]
def bin_rem_rune_rune_ret : String := "rune"
/-- bin and u8 u8  ⇒  local.get $x ; local.get $y ; i32.and : u8 -/
def bin_and_u8_u8 : List Instr := [.localGet 0, .localGet 1, .bin .i32 .and]
def bin_and_u8_u8_ret : String := "u8"
/-- bin and u16 u16  ⇒  local.get $x ; local.get $y ; i32.and : u16 -/
def bin_and_u16_u16 : List Instr := [.localGet 0, .localGet 1, .bin .i32 .and]
def bin_and_u16_u16_ret : String := "u16"
/-- bin and i32 i32  ⇒  local.get $x ; local.get $y ; i32.and : i32 -/
def bin_and_i32_i32 : List Instr := [.localGet 0, .localGet 1, .bin .i32 .and]
def bin_and_i32_i32_ret : String := "i32"
/-- bin and u32 u32  ⇒  local.get $x ; local.get $y ; i32.and : u32 -/
def bin_and_u32_u32 : List Instr := [.localGet 0, .localGet 1, .bin .i32 .and]
def bin_and_u32_u32_ret : String := "u32"
/-- bin and i64 i64  ⇒  local.get $x ; local.get $y ; i64.and : i64 -/
def bin_and_i64_i64 : List Instr := [.localGet 0, .localGet 1, .bin .i64 .and]
def bin_and_i64_i64_ret : String := "i64"
/-- bin and u64 u64  ⇒  local.get $x ; local.get $y ; i64.and : u64 -/
def bin_and_u64_u64 : List Instr := [.localGet 0, .localGet 1, .bin .i64 .and]
def bin_and_u64_u64_ret : String := "u64"
/-- bin and rune rune  ⇒  local.get $x ; local.get $y ; i32.and : rune -/
def bin_and_rune_rune : List Instr := [.localGet 0, .localGet 1, .bin .i32 .and]
def bin_and_rune_rune_ret : String := "rune"
/-- bin or u8 u8  ⇒  local.get $x ; local.get $y ; i32.or : u8 -/
def bin_or_u8_u8 : List Instr := [.localGet 0, .localGet 1, .bin .i32 .or]
def bin_or_u8_u8_ret : String := "u8"
/-- bin or u16 u16  ⇒  local.get $x ; local.get $y ; i32.or : u16 -/
def bin_or_u16_u16 : List Instr := [.localGet 0, .localGet 1, .bin .i32 .or]
def bin_or_u16_u16_ret : String := "u16"
/-- bin or i32 i32  ⇒  local.get $x ; local.get $y ; i32.or : i32 -/
def bin_or_i32_i32 : List Instr := [.localGet 0, .localGet 1, .bin .i32 .or]
def bin_or_i32_i32_ret : String := "i32"
/-- bin or u32 u32  ⇒  local.get $x ; local.get $y ; i32.or : u32 -/
def bin_or_u32_u32 : List Instr := [.localGet 0, .localGet 1, .bin .i32 .or]
def bin_or_u32_u32_ret : String := "u32"
/-- bin or i64 i64  ⇒  local.get $x ; local.get $y ; i64.or : i64 -/
def bin_or_i64_i64 : List Instr := [.localGet 0, .localGet 1, .bin .i64 .or]
def bin_or_i64_i64_ret : String := "i64"
/-- bin or u64 u64  ⇒  local.get $x ; local.get $y ; i64.or : u64 -/
def bin_or_u64_u64 : List Instr := [.localGet 0, .localGet 1, .bin .i64 .or]
def bin_or_u64_u64_ret : String := "u64"
/-- bin or rune rune  ⇒  local.get $x ; local.get $y ; i32.or : rune -/
def bin_or_rune_rune : List Instr := [.localGet 0, .localGet 1, .bin .i32 .or]
def bin_or_rune_rune_ret : String := "rune"
/-- bin xor u8 u8  ⇒  local.get $x ; local.get $y ; i32.xor : u8 -/
def bin_xor_u8_u8 : List Instr := [.localGet 0, .localGet 1, .bin .i32 .xor]
def bin_xor_u8_u8_ret : String := "u8"
/-- bin xor u16 u16  ⇒  local.get $x ; local.get $y ; i32.xor : u16 -/
def bin_xor_u16_u16 : List Instr := [.localGet 0, .localGet 1, .bin .i32 .xor]
def bin_xor_u16_u16_ret : String := "u16"
/-- bin xor i32 i32  ⇒  local.get $x ; local.get $y ; i32.xor : i32 -/
def bin_xor_i32_i32 : List Instr := [.localGet 0, .localGet 1, .bin .i32 .xor]
def bin_xor_i32_i32_ret : String := "i32"
/-- bin xor u32 u32  ⇒  local.get $x ; local.get $y ; i32.xor : u32 -/
def bin_xor_u32_u32 : List Instr := [.localGet 0, .localGet 1, .bin .i32 .xor]
def bin_xor_u32_u32_ret : String := "u32"
/-- bin xor i64 i64  ⇒  local.get $x ; local.get $y ; i64.xor : i64 -/
def bin_xor_i64_i64 : List Instr := [.localGet 0, .localGet 1, .bin .i64 .xor]
def bin_xor_i64_i64_ret : String := "i64"
/-- bin xor u64 u64  ⇒  local.get $x ; local.get $y ; i64.xor : u64 -/
def bin_xor_u64_u64 : List Instr := [.localGet 0, .localGet 1, .bin .i64 .xor]
def bin_xor_u64_u64_ret : String := "u64"
/-- bin xor rune rune  ⇒  local.get $x ; local.get $y ; i32.xor : rune -/
def bin_xor_rune_rune : List Instr := [.localGet 0, .localGet 1, .bin .i32 .xor]
def bin_xor_rune_rune_ret : String := "rune"
/-- bin andnot u8 u8  ⇒  local.get $x ; local.get $y ; i32.const -1 ; i32.xor ; i32.and : u8 -/
def bin_andnot_u8_u8 : List Instr := [.localGet 0, .localGet 1, .const32 4294967295#32, .bin .i32 .xor, .bin .i32 .and]
def bin_andnot_u8_u8_ret : String := "u8"
/-- bin andnot u16 u16  ⇒  local.get $x ; local.get $y ; i32.const -1 ; i32.xor ; i32.and : u16 -/
def bin_andnot_u16_u16 : List Instr := [.localGet 0, .localGet 1, .const32 4294967295#32, .bin .i32 .xor, .bin .i32 .and]
def bin_andnot_u16_u16_ret : String := "u16"
/-- bin andnot i32 i32  ⇒  local.get $x ; local.get $y ; i32.const -1 ; i32.xor ; i32.and : i32 -/
def bin_andnot_i32_i32 : List Instr := [.localGet 0, .localGet 1, .const32 4294967295#32, .bin .i32 .xor, .bin .i32 .and]
def bin_andnot_i32_i32_ret : String := "i32"
/-- bin andnot u32 u32  ⇒  local.get $x ; local.get $y ; i32.const -1 ; i32.xor ; i32.and : u32 -/
def bin_andnot_u32_u32 : List Instr := [.localGet 0, .localGet 1, .const32 4294967295#32, .bin .i32 .xor, .bin .i32 .and]
def bin_andnot_u32_u32_ret : String := "u32"
/-- bin andnot i64 i64  ⇒  local.get $x ; local.get $y ; i64.const -1 ; i64.xor ; i64.and : i64 -/
def bin_andnot_i64_i64 : List Instr := [.localGet 0, .localGet 1, .const64 18446744073709551615#64, .bin .i64 .xor, .bin .i64 .and]
def bin_andnot_i64_i64_ret : String := "i64"
/-- bin andnot u64 u64  ⇒  local.get $x ; local.get $y ; i64.const -1 ; i64.xor ; i64.and : u64 -/
def bin_andnot_u64_u64 : List Instr := [.localGet 0, .localGet 1, .const64 18446744073709551615#64, .bin .i64 .xor, .bin .i64 .and]
def bin_andnot_u64_u64_ret : String := "u64"
/-- bin andnot rune rune  ⇒  local.get $x ; local.get $y ; i32.const -1 ; i32.xor ; i32.and : rune -/
def bin_andnot_rune_rune : List Instr := [.localGet 0, .localGet 1, .const32 4294967295#32, .bin .i32 .xor, .bin .i32 .and]
def bin_andnot_rune_rune_ret : String := "rune"
/-- bin eql u8 u8  ⇒  local.get $x ; local.get $y ; i32.eq : bool -/
def bin_eql_u8_u8 : List Instr := [.localGet 0, .localGet 1, .rel .i32 .eq]
def bin_eql_u8_u8_ret : String := "bool"
/-- bin eql u16 u16  ⇒  local.get $x ; local.get $y ; i32.eq : bool -/
def bin_eql_u16_u16 : List Instr := [.localGet 0, .localGet 1, .rel .i32 .eq]
def bin_eql_u16_u16_ret : String := "bool"
/-- bin eql i32 i32  ⇒  local.get $x ; local.get $y ; i32.eq : bool -/
def bin_eql_i32_i32 : List Instr := [.localGet 0, .localGet 1, .rel .i32 .eq]
def bin_eql_i32_i32_ret : String := "bool"
/-- bin eql u32 u32  ⇒  local.get $x ; local.get $y ; i32.eq : bool -/
def bin_eql_u32_u32 : List Instr := [.localGet 0, .localGet 1, .rel .i32 .eq]
def bin_eql_u32_u32_ret : String := "bool"
/-- bin eql i64 i64  ⇒  local.get $x ; local.get $y ; i64.eq : bool -/
def bin_eql_i64_i64 : List Instr := [.localGet 0, .localGet 1, .rel .i64 .eq]
def bin_eql_i64_i64_ret : String := "bool"
/-- bin eql u64 u64  ⇒  local.get $x ; local.get $y ; i64.eq : bool -/
def bin_eql_u64_u64 : List Instr := [.localGet 0, .localGet 1, .rel .i64 .eq]
def bin_eql_u64_u64_ret : String := "bool"
/-- bin eql rune rune  ⇒  local.get $x ; local.get $y ; i32.eq : bool -/
def bin_eql_rune_rune : List Instr := [.localGet 0, .localGet 1, .rel .i32 .eq]
def bin_eql_rune_rune_ret : String := "bool"
/-- bin ne u8 u8  ⇒  local.get $x ; local.get $y ; i32.eq ; i32.eqz : bool -/
def bin_ne_u8_u8 : List Instr := [.localGet 0, .localGet 1, .rel .i32 .eq, .eqz .i32]
def bin_ne_u8_u8_ret : String := "bool"
/-- bin ne u16 u16  ⇒  local.get $x ; local.get $y ; i32.eq ; i32.eqz : bool -/
def bin_ne_u16_u16 : List Instr := [.localGet 0, .localGet 1, .rel .i32 .eq, .eqz .i32]
def bin_ne_u16_u16_ret : String := "bool"
/-- bin ne i32 i32  ⇒  local.get $x ; local.get $y ; i32.eq ; i32.eqz : bool -/
def bin_ne_i32_i32 : List Instr := [.localGet 0, .localGet 1, .rel .i32 .eq, .eqz .i32]
def bin_ne_i32_i32_ret : String := "bool"
/-- bin ne u32 u32  ⇒  local.get $x ; local.get $y ; i32.eq ; i32.eqz : bool -/
def bin_ne_u32_u32 : List Instr := [.localGet 0, .localGet 1, .rel .i32 .eq, .eqz .i32]
def bin_ne_u32_u32_ret : String := "bool"
/-- bin ne i64 i64  ⇒  local.get $x ; local.get $y ; i64.eq ; i32.eqz : bool -/
def bin_ne_i64_i64 : List Instr := [.localGet 0, .localGet 1, .rel .i64 .eq, .eqz .i32]
def bin_ne_i64_i64_ret : String := "bool"
/-- bin ne u64 u64  ⇒  local.get $x ; local.get $y ; i64.eq ; i32.eqz : bool -/
def bin_ne_u64_u64 : List Instr := [.localGet 0, .localGet 1, .rel .i64 .eq, .eqz .i32]
def bin_ne_u64_u64_ret : String := "bool"
/-- bin ne rune rune  ⇒  local.get $x ; local.get $y ; i32.eq ; i32.eqz : bool -/
def bin_ne_rune_rune : List Instr := [.localGet 0, .localGet 1, .rel .i32 .eq, .eqz .i32]
def bin_ne_rune_rune_ret : String := "bool"
/-- bin lt u8 u8  ⇒  local.get $x ; local.get $y ; i32.lt_u : bool -/
def bin_lt_u8_u8 : List Instr := [.localGet 0, .localGet 1, .rel .i32 .lt_u]
def bin_lt_u8_u8_ret : String := "bool"
/-- bin lt u16 u16  ⇒  local.get $x ; local.get $y ; i32.lt_u : bool -/
def bin_lt_u16_u16 : List Instr := [.localGet 0, .localGet 1, .rel .i32 .lt_u]
def bin_lt_u16_u16_ret : String := "bool"
/-- bin lt i32 i32  ⇒  local.get $x ; local.get $y ; i32.lt_s : bool -/
def bin_lt_i32_i32 : List Instr := [.localGet 0, .localGet 1, .rel .i32 .lt_s]
def bin_lt_i32_i32_ret : String := "bool"
/-- bin lt u32 u32  ⇒  local.get $x ; local.get $y ; i32.lt_u : bool -/
def bin_lt_u32_u32 : List Instr := [.localGet 0, .localGet 1, .rel .i32 .lt_u]
def bin_lt_u32_u32_ret : String := "bool"
/-- bin lt i64 i64  ⇒  local.get $x ; local.get $y ; i64.lt_s : bool -/
def bin_lt_i64_i64 : List Instr := [.localGet 0, .localGet 1, .rel .i64 .lt_s]
def bin_lt_i64_i64_ret : String := "bool"
/-- bin lt u64 u64  ⇒  local.get $x ; local.get $y ; i64.lt_u : bool -/
def bin_lt_u64_u64 : List Instr := [.localGet 0, .localGet 1, .rel .i64 .lt_u]
def bin_lt_u64_u64_ret : String := "bool"
/-- bin lt rune rune  ⇒  local.get $x ; local.get $y ; i32.lt_s : bool -/
def bin_lt_rune_rune : List Instr := [.localGet 0, .localGet 1, .rel .i32 .lt_s]
def bin_lt_rune_rune_ret : String := "bool"
/-- bin gt u8 u8  ⇒  local.get $x ; local.get $y ; i32.gt_u : bool -/
def bin_gt_u8_u8 : List Instr := [.localGet 0, .localGet 1, .rel .i32 .gt_u]
def bin_gt_u8_u8_ret : String := "bool"
/-- bin gt u16 u16  ⇒  local.get $x ; local.get $y ; i32.gt_u : bool -/
def bin_gt_u16_u16 : List Instr := [.localGet 0, .localGet 1, .rel .i32 .gt_u]
def bin_gt_u16_u16_ret : String := "bool"
/-- bin gt i32 i32  ⇒  local.get $x ; local.get $y ; i32.gt_s : bool -/
def bin_gt_i32_i32 : List Instr := [.localGet 0, .localGet 1, .rel .i32 .gt_s]
def bin_gt_i32_i32_ret : String := "bool"
/-- bin gt u32 u32  ⇒  local.get $x ; local.get $y ; i32.gt_u : bool -/
def bin_gt_u32_u32 : List Instr := [.localGet 0, .localGet 1, .rel .i32 .gt_u]
def bin_gt_u32_u32_ret : String := "bool"
/-- bin gt i64 i64  ⇒  local.get $x ; local.get $y ; i64.gt_s : bool -/
def bin_gt_i64_i64 : List Instr := [.localGet 0, .localGet 1, .rel .i64 .gt_s]
def bin_gt_i64_i64_ret : String := "bool"
/-- bin gt u64 u64  ⇒  local.get $x ; local.get $y ; i64.gt_u : bool -/
def bin_gt_u64_u64 : List Instr := [.localGet 0, .localGet 1, .rel .i64 .gt_u]
def bin_gt_u64_u64_ret : String := "bool"
/-- bin gt rune rune  ⇒  local.get $x ; local.get $y ; i32.gt_s : bool -/
def bin_gt_rune_rune : List Instr := [.localGet 0, .localGet 1, .rel .i32 .gt_s]
def bin_gt_rune_rune_ret : String := "bool"
/-- bin le u8 u8  ⇒  local.get $x ; local.get $y ; i32.le_u : bool -/
def bin_le_u8_u8 : List Instr := [.localGet 0, .localGet 1, .rel .i32 .le_u]
def bin_le_u8_u8_ret : String := "bool"
/-- bin le u16 u16  ⇒  local.get $x ; local.get $y ; i32.le_u : bool -/
def bin_le_u16_u16 : List Instr := [.localGet 0, .localGet 1, .rel .i32 .le_u]
def bin_le_u16_u16_ret : String := "bool"
/-- bin le i32 i32  ⇒  local.get $x ; local.get $y ; i32.le_s : bool -/
def bin_le_i32_i32 : List Instr := [.localGet 0, .localGet 1, .rel .i32 .le_s]
def bin_le_i32_i32_ret : String := "bool"
/-- bin le u32 u32  ⇒  local.get $x ; local.get $y ; i32.le_u : bool -/
def bin_le_u32_u32 : List Instr := [.localGet 0, .localGet 1, .rel .i32 .le_u]
def bin_le_u32_u32_ret : String := "bool"
/-- bin le i64 i64  ⇒  local.get $x ; local.get $y ; i64.le_s : bool -/
def bin_le_i64_i64 : List Instr := [.localGet 0, .localGet 1, .rel .i64 .le_s]
def bin_le_i64_i64_ret : String := "bool"
/-- bin le u64 u64  ⇒  local.get $x ; local.get $y ; i64.le_u : bool -/
def bin_le_u64_u64 : List Instr := [.localGet 0, .localGet 1, .rel .i64 .le_u]
def bin_le_u64_u64_ret : String := "bool"
/-- bin le rune rune  ⇒  local.get $x ; local.get $y ; i32.le_s : bool -/
def bin_le_rune_rune : List Instr := [.localGet 0, .localGet 1, .rel .i32 .le_s]
def bin_le_rune_rune_ret : String := "bool"
/-- bin ge u8 u8  ⇒  local.get $x ; local.get $y ; i32.ge_u : bool -/
def bin_ge_u8_u8 : List Instr := [.localGet 0, .localGet 1, .rel .i32 .ge_u]
def bin_ge_u8_u8_ret : String := "bool"
/-- bin ge u16 u16  ⇒  local.get $x ; local.get $y ; i32.ge_u : bool -/
def bin_ge_u16_u16 : List Instr := [.localGet 0, .localGet 1, .rel .i32 .ge_u]
def bin_ge_u16_u16_ret : String := "bool"
/-- bin ge i32 i32  ⇒  local.get $x ; local.get $y ; i32.ge_s : bool -/
def bin_ge_i32_i32 : List Instr := [.localGet 0, .localGet 1, .rel .i32 .ge_s]
def bin_ge_i32_i32_ret : String := "bool"
/-- bin ge u32 u32  ⇒  local.get $x ; local.get $y ; i32.ge_u : bool -/
def bin_ge_u32_u32 : List Instr := [.localGet 0, .localGet 1, .rel .i32 .ge_u]
def bin_ge_u32_u32_ret : String := "bool"
/-- bin ge i64 i64  ⇒  local.get $x ; local.get $y ; i64.ge_s : bool -/
def bin_ge_i64_i64 : List Instr := [.localGet 0, .localGet 1, .rel .i64 .ge_s]
def bin_ge_i64_i64_ret : String := "bool"
/-- bin ge u64 u64  ⇒  local.get $x ; local.get $y ; i64.ge_u : bool -/
def bin_ge_u64_u64 : List Instr := [.localGet 0, .localGet 1, .rel .i64 .ge_u]
def bin_ge_u64_u64_ret : String := "bool"
/-- bin ge rune rune  ⇒  local.get $x ; local.get $y ; i32.ge_s : bool -/
def bin_ge_rune_rune : List Instr := [.localGet 0, .localGet 1, .rel .i32 .ge_s]
def bin_ge_rune_rune_ret : String := "bool"
/-- bin shl u8 u8  ⇒  local.get $x ; local.get $y ; i32.shl ; i32.const 255 ; i32.and : u8 -/
def bin_shl_u8_u8 : List Instr := [.localGet 0, .localGet 1, .bin .i32 .shl, .const32 255#32, .bin .i32 .and]
def bin_shl_u8_u8_ret : String := "u8"
/-- bin shl u8 u16  ⇒  local.get $x ; local.get $y ; i32.shl ; i32.const 255 ; i32.and : u8 -/
def bin_shl_u8_u16 : List Instr := [.localGet 0, .localGet 1, .bin .i32 .shl, .const32 255#32, .bin .i32 .and]
def bin_shl_u8_u16_ret : String := "u8"
/-- bin shl u8 u32  ⇒  local.get $x ; local.get $y ; i32.shl ; i32.const 255 ; i32.and : u8 -/
def bin_shl_u8_u32 : List Instr := [.localGet 0, .localGet 1, .bin .i32 .shl, .const32 255#32, .bin .i32 .and]
def bin_shl_u8_u32_ret : String := "u8"
/-- bin shl u8 u64  ⇒  local.get $x ; local.get $y ; i32.wrap_i64 ; i32.shl ; i32.const 255 ; i32.and : u8 -/
def bin_shl_u8_u64 : List Instr := [.localGet 0, .localGet 1, .wrap_i64, .bin .i32 .shl, .const32 255#32, .bin .i32 .and]
def bin_shl_u8_u64_ret : String := "u8"
/-- bin shl u8 i32  ⇒  local.get $x ; local.get $y ; i32.shl ; i32.const 255 ; i32.and : u8 -/
def bin_shl_u8_i32 : List Instr := [.localGet 0, .localGet 1, .bin .i32 .shl, .const32 255#32, .bin .i32 .and]
def bin_shl_u8_i32_ret : String := "u8"
/-- bin shl u8 i64  ⇒  local.get $x ; local.get $y ; i32.wrap_i64 ; i32.shl ; i32.const 255 ; i32.and : u8 -/
def bin_shl_u8_i64 : List Instr := [.localGet 0, .localGet 1, .wrap_i64, .bin .i32 .shl, .const32 255#32, .bin .i32 .and]
def bin_shl_u8_i64_ret : String := "u8"
/-- bin shl u16 u8  ⇒  local.get $x ; local.get $y ; i32.shl ; i32.const 65535 ; i32.and : u16 -/
def bin_shl_u16_u8 : List Instr := [.localGet 0, .localGet 1, .bin .i32 .shl, .const32 65535#32, .bin .i32 .and]
def bin_shl_u16_u8_ret : String := "u16"
/-- bin shl u16 u16  ⇒  local.get $x ; local.get $y ; i32.shl ; i32.const 65535 ; i32.and : u16 -/
def bin_shl_u16_u16 : List Instr := [.localGet 0, .localGet 1, .bin .i32 .shl, .const32 65535#32, .bin .i32 .and]
def bin_shl_u16_u16_ret : String := "u16"
/-- bin shl u16 u32  ⇒  local.get $x ; local.get $y ; i32.shl ; i32.const 65535 ; i32.and : u16 -/
def bin_shl_u16_u32 : List Instr := [.localGet 0, .localGet 1, .bin .i32 .shl, .const32 65535#32, .bin .i32 .and]
def bin_shl_u16_u32_ret : String := "u16"
/-- bin shl u16 u64  ⇒  local.get $x ; local.get $y ; i32.wrap_i64 ; i32.shl ; i32.const 65535 ; i32.and : u16 -/
def bin_shl_u16_u64 : List Instr := [.localGet 0, .localGet 1, .wrap_i64, .bin .i32 .shl, .const32 65535#32, .bin .i32 .and]
def bin_shl_u16_u64_ret : String := "u16"
/-- bin shl u16 i32  ⇒  local.get $x ; local.get $y ; i32.shl ; i32.const 65535 ; i32.and : u16 -/
def bin_shl_u16_i32 : List Instr := [.localGet 0, .localGet 1, .bin .i32 .shl, .const32 65535#32, .bin .i32 .and]
def bin_shl_u16_i32_ret : String := "u16"
/-- bin shl u16 i64  ⇒  local.get $x ; local.get $y ; i32.wrap_i64 ; i32.shl ; i32.const 65535 ; i32.and : u16 -/
def bin_shl_u16_i64 : List Instr := [.localGet 0, .localGet 1, .wrap_i64, .bin .i32 .shl, .const32 65535#32, .bin .i32 .and]
def bin_shl_u16_i64_ret : String := "u16"
/-- bin shl i32 u8  ⇒  local.get $x ; local.get $y ; i32.shl : i32 -/
def bin_shl_i32_u8 : List Instr := [.localGet 0, .localGet 1, .bin .i32 .shl]
def bin_shl_i32_u8_ret : String := "i32"
/-- bin shl i32 u16  ⇒  local.get $x ; local.get $y ; i32.shl : i32 -/
def bin_shl_i32_u16 : List Instr := [.localGet 0, .localGet 1, .bin .i32 .shl]
def bin_shl_i32_u16_ret : String := "i32"
/-- bin shl i32 u32  ⇒  local.get $x ; local.get $y ; i32.shl : i32 -/
def bin_shl_i32_u32 : List Instr := [.localGet 0, .localGet 1, .bin .i32 .shl]
def bin_shl_i32_u32_ret : String := "i32"
/-- bin shl i32 u64  ⇒  local.get $x ; local.get $y ; i32.wrap_i64 ; i32.shl : i32 -/
def bin_shl_i32_u64 : List Instr := [.localGet 0, .localGet 1, .wrap_i64, .bin .i32 .shl]
def bin_shl_i32_u64_ret : String := "i32"
/-- bin shl i32 i32  ⇒  local.get $x ; local.get $y ; i32.shl : i32 -/
def bin_shl_i32_i32 : List Instr := [.localGet 0, .localGet 1, .bin .i32 .shl]
def bin_shl_i32_i32_ret : String := "i32"
/-- bin shl i32 i64  ⇒  local.get $x ; local.get $y ; i32.wrap_i64 ; i32.shl : i32 -/
def bin_shl_i32_i64 : List Instr := [.localGet 0, .localGet 1, .wrap_i64, .bin .i32 .shl]
def bin_shl_i32_i64_ret : String := "i32"
/-- bin shl u32 u8  ⇒  local.get $x ; local.get $y ; i32.shl : u32 -/
def bin_shl_u32_u8 : List Instr := [.localGet 0, .localGet 1, .bin .i32 .shl]
def bin_shl_u32_u8_ret : String := "u32"
/-- bin shl u32 u16  ⇒  local.get $x ; local.get $y ; i32.shl : u32 -/
def bin_shl_u32_u16 : List Instr := [.localGet 0, .localGet 1, .bin .i32 .shl]
def bin_shl_u32_u16_ret : String := "u32"
/-- bin shl u32 u32  ⇒  local.get $x ; local.get $y ; i32.shl : u32 -/
def bin_shl_u32_u32 : List Instr := [.localGet 0, .localGet 1, .bin .i32 .shl]
def bin_shl_u32_u32_ret : String := "u32"
/-- bin shl u32 u64  ⇒  local.get $x ; local.get $y ; i32.wrap_i64 ; i32.shl : u32 -/
def bin_shl_u32_u64 : List Instr := [.localGet 0, .localGet 1, .wrap_i64, .bin .i32 .shl]
def bin_shl_u32_u64_ret : String := "u32"
/-- bin shl u32 i32  ⇒  local.get $x ; local.get $y ; i32.shl : u32 -/
def bin_shl_u32_i32 : List Instr := [.localGet 0, .localGet 1, .bin .i32 .shl]
def bin_shl_u32_i32_ret : String := "u32"
/-- bin shl u32 i64  ⇒  local.get $x ; local.get $y ; i32.wrap_i64 ; i32.shl : u32 -/
def bin_shl_u32_i64 : List Instr := [.localGet 0, .localGet 1, .wrap_i64, .bin .i32 .shl]
def bin_shl_u32_i64_ret : String := "u32"
/-- bin shl i64 u8  ⇒  local.get $x ; local.get $y ; i64.extend_i32_u ; i64.shl : i64 -/
def bin_shl_i64_u8 : List Instr := [.localGet 0, .localGet 1, .extend_i32_u, .bin .i64 .shl]
def bin_shl_i64_u8_ret : String := "i64"
/-- bin shl i64 u16  ⇒  local.get $x ; local.get $y ; i64.extend_i32_u ; i64.shl : i64 -/
def bin_shl_i64_u16 : List Instr := [.localGet 0, .localGet 1, .extend_i32_u, .bin .i64 .shl]
def bin_shl_i64_u16_ret : String := "i64"
/-- bin shl i64 u32  ⇒  local.get $x ; local.get $y ; i64.extend_i32_u ; i64.shl : i64 -/
def bin_shl_i64_u32 : List Instr := [.localGet 0, .localGet 1, .extend_i32_u, .bin .i64 .shl]
def bin_shl_i64_u32_ret : String := "i64"
/-- bin shl i64 u64  ⇒  local.get $x ; local.get $y ; i64.shl : i64 -/
def bin_shl_i64_u64 : List Instr := [.localGet 0, .localGet 1, .bin .i64 .shl]
def bin_shl_i64_u64_ret : String := "i64"
/-- bin shl i64 i32  ⇒  local.get $x ; local.get $y ; i64.extend_i32_u ; i64.shl : i64 -/
def bin_shl_i64_i32 : List Instr := [.localGet 0, .localGet 1, .extend_i32_u, .bin .i64 .shl]
def bin_shl_i64_i32_ret : String := "i64"
/-- bin shl i64 i64  ⇒  local.get $x ; local.get $y ; i64.shl : i64 -/
def bin_shl_i64_i64 : List Instr := [.localGet 0, .localGet 1, .bin .i64 .shl]
def bin_shl_i64_i64_ret : String := "i64"
/-- bin shl u64 u8  ⇒  local.get $x ; local.get $y ; i64.extend_i32_u ; i64.shl : u64 -/
def bin_shl_u64_u8 : List Instr := [.localGet 0, .localGet 1, .extend_i32_u, .bin .i64 .shl]
def bin_shl_u64_u8_ret : String := "u64"
/-- bin shl u64 u16  ⇒  local.get $x ; local.get $y ; i64.extend_i32_u ; i64.shl : u64 -/
def bin_shl_u64_u16 : List Instr := [.localGet 0, .localGet 1, .extend_i32_u, .bin .i64 .shl]
def bin_shl_u64_u16_ret : String := "u64"
/-- bin shl u64 u32  ⇒  local.get $x ; local.get $y ; i64.extend_i32_u ; i64.shl : u64 -/
def bin_shl_u64_u32 : List Instr := [.localGet 0, .localGet 1, .extend_i32_u, .bin .i64 .shl]
def bin_shl_u64_u32_ret : String := "u64"
/-- bin shl u64 u64  ⇒  local.get $x ; local.get $y ; i64.shl : u64 -/
def bin_shl_u64_u64 : List Instr := [.localGet 0, .localGet 1, .bin .i64 .shl]
def bin_shl_u64_u64_ret : String := "u64"
/-- bin shl u64 i32  ⇒  local.get $x ; local.get $y ; i64.extend_i32_u ; i64.shl : u64 -/
def bin_shl_u64_i32 : List Instr := [.localGet 0, .localGet 1, .extend_i32_u, .bin .i64 .shl]
def bin_shl_u64_i32_ret : String := "u64"
/-- bin shl u64 i64  ⇒  local.get $x ; local.get $y ; i64.shl : u64 -/
def bin_shl_u64_i64 : List Instr := [.localGet 0, .localGet 1, .bin .i64 .shl]
def bin_shl_u64_i64_ret : String := "u64"
/-- bin shl rune u8  ⇒  local.get $x ; local.get $y ; i32.shl : rune -/
def bin_shl_rune_u8 : List Instr := [.localGet 0, .localGet 1, .bin .i32 .shl]
def bin_shl_rune_u8_ret : String := "rune"
/-- bin shl rune u16  ⇒  local.get $x ; local.get $y ; i32.shl : rune -/
def bin_shl_rune_u16 : List Instr := [.localGet 0, .localGet 1, .bin .i32 .shl]
def bin_shl_rune_u16_ret : String := "rune"
/-- bin shl rune u32  ⇒  local.get $x ; local.get $y ; i32.shl : rune -/
def bin_shl_rune_u32 : List Instr := [.localGet 0, .localGet 1, .bin .i32 .shl]
def bin_shl_rune_u32_ret : String := "rune"
/-- bin shl rune u64  ⇒  local.get $x ; local.get $y ; i32.wrap_i64 ; i32.shl : rune -/
def bin_shl_rune_u64 : List Instr := [.localGet 0, .localGet 1, .wrap_i64, .bin .i32 .shl]
def bin_shl_rune_u64_ret : String := "rune"
/-- bin shl rune i32  ⇒  local.get $x ; local.get $y ; i32.shl : rune -/
def bin_shl_rune_i32 : List Instr := [.localGet 0, .localGet 1, .bin .i32 .shl]
def bin_shl_rune_i32_ret : String := "rune"
/-- bin shl rune i64  ⇒  local.get $x ; local.get $y ; i32.wrap_i64 ; i32.shl : rune -/
def bin_shl_rune_i64 : List Instr := [.localGet 0, .localGet 1, .wrap_i64, .bin .i32 .shl]
def bin_shl_rune_i64_ret : String := "rune"
/-- bin shr u8 u8  ⇒  local.get $x ; local.get $y ; i32.shr_u : u8 -/
def bin_shr_u8_u8 : List Instr := [.localGet 0, .localGet 1, .bin .i32 .shr_u]
def bin_shr_u8_u8_ret : String := "u8"
/-- bin shr u8 u16  ⇒  local.get $x ; local.get $y ; i32.shr_u : u8 -/
def bin_shr_u8_u16 : List Instr := [.localGet 0, .localGet 1, .bin .i32 .shr_u]
def bin_shr_u8_u16_ret : String := "u8"
/-- bin shr u8 u32  ⇒  local.get $x ; local.get $y ; i32.shr_u : u8 -/
def bin_shr_u8_u32 : List Instr := [.localGet 0, .localGet 1, .bin .i32 .shr_u]
def bin_shr_u8_u32_ret : String := "u8"
/-- bin shr u8 u64  ⇒  local.get $x ; local.get $y ; i32.wrap_i64 ; i32.shr_u : u8 -/
def bin_shr_u8_u64 : List Instr := [.localGet 0, .localGet 1, .wrap_i64, .bin .i32 .shr_u]
def bin_shr_u8_u64_ret : String := "u8"
/-- bin shr u8 i32  ⇒  local.get $x ; local.get $y ; i32.shr_u : u8 -/
def bin_shr_u8_i32 : List Instr := [.localGet 0, .localGet 1, .bin .i32 .shr_u]
def bin_shr_u8_i32_ret : String := "u8"
/-- bin shr u8 i64  ⇒  local.get $x ; local.get $y ; i32.wrap_i64 ; i32.shr_u : u8 -/
def bin_shr_u8_i64 : List Instr := [.localGet 0, .localGet 1, .wrap_i64, .bin .i32 .shr_u]
def bin_shr_u8_i64_ret : String := "u8"
/-- bin shr u16 u8  ⇒  local.get $x ; local.get $y ; i32.shr_u : u16 -/
def bin_shr_u16_u8 : List Instr := [.localGet 0, .localGet 1, .bin .i32 .shr_u]
def bin_shr_u16_u8_ret : String := "u16"
/-- bin shr u16 u16  ⇒  local.get $x ; local.get $y ; i32.shr_u : u16 -/
def bin_shr_u16_u16 : List Instr := [.localGet 0, .localGet 1, .bin .i32 .shr_u]
def bin_shr_u16_u16_ret : String := "u16"
/-- bin shr u16 u32  ⇒  local.get $x ; local.get $y ; i32.shr_u : u16 -/
def bin_shr_u16_u32 : List Instr := [.localGet 0, .localGet 1, .bin .i32 .shr_u]
def bin_shr_u16_u32_ret : String := "u16"
/-- bin shr u16 u64  ⇒  local.get $x ; local.get $y ; i32.wrap_i64 ; i32.shr_u : u16 -/
def bin_shr_u16_u64 : List Instr := [.localGet 0, .localGet 1, .wrap_i64, .bin .i32 .shr_u]
def bin_shr_u16_u64_ret : String := "u16"
/-- bin shr u16 i32  ⇒  local.get $x ; local.get $y ; i32.shr_u : u16 -/
def bin_shr_u16_i32 : List Instr := [.localGet 0, .localGet 1, .bin .i32 .shr_u]
def bin_shr_u16_i32_ret : String := "u16"
/-- bin shr u16 i64  ⇒  local.get $x ; local.get $y ; i32.wrap_i64 ; i32.shr_u : u16 -/
def bin_shr_u16_i64 : List Instr := [.localGet 0, .localGet 1, .wrap_i64, .bin .i32 .shr_u]
def bin_shr_u16_i64_ret : String := "u16"
/-- bin shr i32 u8  ⇒  local.get $x ; local.get $y ; i32.shr_s : i32 -/
def bin_shr_i32_u8 : List Instr := [.localGet 0, .localGet 1, .bin .i32 .shr_s]
def bin_shr_i32_u8_ret : String := "i32"
/-- bin shr i32 u16  ⇒  local.get $x ; local.get $y ; i32.shr_s : i32 -/
def bin_shr_i32_u16 : List Instr := [.localGet 0, .localGet 1, .bin .i32 .shr_s]
def bin_shr_i32_u16_ret : String := "i32"
/-- bin shr i32 u32  ⇒  local.get $x ; local.get $y ; i32.shr_s : i32 -/
def bin_shr_i32_u32 : List Instr := [.localGet 0, .localGet 1, .bin .i32 .shr_s]
def bin_shr_i32_u32_ret : String := "i32"
/-- bin shr i32 u64  ⇒  local.get $x ; local.get $y ; i32.wrap_i64 ; i32.shr_s : i32 -/
def bin_shr_i32_u64 : List Instr := [.localGet 0, .localGet 1, .wrap_i64, .bin .i32 .shr_s]
def bin_shr_i32_u64_ret : String := "i32"
/-- bin shr i32 i32  ⇒  local.get $x ; local.get $y ; i32.shr_s : i32 -/
def bin_shr_i32_i32 : List Instr := [.localGet 0, .localGet 1, .bin .i32 .shr_s]
def bin_shr_i32_i32_ret : String := "i32"
/-- bin shr i32 i64  ⇒  local.get $x ; local.get $y ; i32.wrap_i64 ; i32.shr_s : i32 -/
def bin_shr_i32_i64 : List Instr := [.localGet 0, .localGet 1, .wrap_i64, .bin .i32 .shr_s]
def bin_shr_i32_i64_ret : String := "i32"
/-- bin shr u32 u8  ⇒  local.get $x ; local.get $y ; i32.shr_u : u32 -/
def bin_shr_u32_u8 : List Instr := [.localGet 0, .localGet 1, .bin .i32 .shr_u]
def bin_shr_u32_u8_ret : String := "u32"
/-- bin shr u32 u16  ⇒  local.get $x ; local.get $y ; i32.shr_u : u32 -/
def bin_shr_u32_u16 : List Instr := [.localGet 0, .localGet 1, .bin .i32 .shr_u]
def bin_shr_u32_u16_ret : String := "u32"
/-- bin shr u32 u32  ⇒  local.get $x ; local.get $y ; i32.shr_u : u32 -/
def bin_shr_u32_u32 : List Instr := [.localGet 0, .localGet 1, .bin .i32 .shr_u]
def bin_shr_u32_u32_ret : String := "u32"
/-- bin shr u32 u64  ⇒  local.get $x ; local.get $y ; i32.wrap_i64 ; i32.shr_u : u32 -/
def bin_shr_u32_u64 : List Instr := [.localGet 0, .localGet 1, .wrap_i64, .bin .i32 .shr_u]
def bin_shr_u32_u64_ret : String := "u32"
/-- bin shr u32 i32  ⇒  local.get $x ; local.get $y ; i32.shr_u : u32 -/
def bin_shr_u32_i32 : List Instr := [.localGet 0, .localGet 1, .bin .i32 .shr_u]
def bin_shr_u32_i32_ret : String := "u32"
/-- bin shr u32 i64  ⇒  local.get $x ; local.get $y ; i32.wrap_i64 ; i32.shr_u : u32 -/
def bin_shr_u32_i64 : List Instr := [.localGet 0, .localGet 1, .wrap_i64, .bin .i32 .shr_u]
def bin_shr_u32_i64_ret : String := "u32"
/-- bin shr i64 u8  ⇒  local.get $x ; local.get $y ; i64.extend_i32_u ; i64.shr_s : i64 -/
def bin_shr_i64_u8 : List Instr := [.localGet 0, .localGet 1, .extend_i32_u, .bin .i64 .shr_s]
def bin_shr_i64_u8_ret : String := "i64"
/-- bin shr i64 u16  ⇒  local.get $x ; local.get $y ; i64.extend_i32_u ; i64.shr_s : i64 -/
def bin_shr_i64_u16 : List Instr := [.localGet 0, .localGet 1, .extend_i32_u, .bin .i64 .shr_s]
def bin_shr_i64_u16_ret : String := "i64"
/-- bin shr i64 u32  ⇒  local.get $x ; local.get $y ; i64.extend_i32_u ; i64.shr_s : i64 -/
def bin_shr_i64_u32 : List Instr := [.localGet 0, .localGet 1, .extend_i32_u, .bin .i64 .shr_s]
def bin_shr_i64_u32_ret : String := "i64"
/-- bin shr i64 u64  ⇒  local.get $x ; local.get $y ; i64.shr_s : i64 -/
def bin_shr_i64_u64 : List Instr := [.localGet 0, .localGet 1, .bin .i64 .shr_s]
def bin_shr_i64_u64_ret : String := "i64"
/-- bin shr i64 i32  ⇒  local.get $x ; local.get $y ; i64.extend_i32_u ; i64.shr_s : i64 -/
def bin_shr_i64_i32 : List Instr := [.localGet 0, .localGet 1, .extend_i32_u, .bin .i64 .shr_s]
def bin_shr_i64_i32_ret : String := "i64"
/-- bin shr i64 i64  ⇒  local.get $x ; local.get $y ; i64.shr_s : i64 -/
def bin_shr_i64_i64 : List Instr := [.localGet 0, .localGet 1, .bin .i64 .shr_s]
def bin_shr_i64_i64_ret : String := "i64"
/-- bin shr u64 u8  ⇒  local.get $x ; local.get $y ; i64.extend_i32_u ; i64.shr_u : u64 -/
def bin_shr_u64_u8 : List Instr := [.localGet 0, .localGet 1, .extend_i32_u, .bin .i64 .shr_u]
def bin_shr_u64_u8_ret : String := "u64"
/-- bin shr u64 u16  ⇒  local.get $x ; local.get $y ; i64.extend_i32_u ; i64.shr_u : u64 -/
def bin_shr_u64_u16 : List Instr := [.localGet 0, .localGet 1, .extend_i32_u, .bin .i64 .shr_u]
def bin_shr_u64_u16_ret : String := "u64"
/-- bin shr u64 u32  ⇒  local.get $x ; local.get $y ; i64.extend_i32_u ; i64.shr_u : u64 -/
def bin_shr_u64_u32 : List Instr := [.localGet 0, .localGet 1, .extend_i32_u, .bin .i64 .shr_u]
def bin_shr_u64_u32_ret : String := "u64"
/-- bin shr u64 u64  ⇒  local.get $x ; local.get $y ; i64.shr_u : u64 -/
def bin_shr_u64_u64 : List Instr := [.localGet 0, .localGet 1, .bin .i64 .shr_u]
def bin_shr_u64_u64_ret : String := "u64"
/-- bin shr u64 i32  ⇒  local.get $x ; local.get $y ; i64.extend_i32_u ; i64.shr_u : u64 -/
def bin_shr_u64_i32 : List Instr := [.localGet 0, .localGet 1, .extend_i32_u, .bin .i64 .shr_u]
def bin_shr_u64_i32_ret : String := "u64"
/-- bin shr u64 i64  ⇒  local.get $x ; local.get $y ; i64.shr_u : u64 -/
def bin_shr_u64_i64 : List Instr := [.localGet 0, .localGet 1, .bin .i64 .shr_u]
def bin_shr_u64_i64_ret : String := "u64"
/-- bin shr rune u8  ⇒  local.get $x ; local.get $y ; i32.shr_s : rune -/
def bin_shr_rune_u8 : List Instr := [.localGet 0, .localGet 1, .bin .i32 .shr_s]
def bin_shr_rune_u8_ret : String := "rune"
/-- bin shr rune u16  ⇒  local.get $x ; local.get $y ; i32.shr_s : rune -/
def bin_shr_rune_u16 : List Instr := [.localGet 0, .localGet 1, .bin .i32 .shr_s]
def bin_shr_rune_u16_ret : String := "rune"
/-- bin shr rune u32  ⇒  local.get $x ; local.get $y ; i32.shr_s : rune -/
def bin_shr_rune_u32 : List Instr := [.localGet 0, .localGet 1, .bin .i32 .shr_s]
def bin_shr_rune_u32_ret : String := "rune"
/-- bin shr rune u64  ⇒  local.get $x ; local.get $y ; i32.wrap_i64 ; i32.shr_s : rune -/
def bin_shr_rune_u64 : List Instr := [.localGet 0, .localGet 1, .wrap_i64, .bin .i32 .shr_s]
def bin_shr_rune_u64_ret : String := "rune"
/-- bin shr rune i32  ⇒  local.get $x ; local.get $y ; i32.shr_s : rune -/
def bin_shr_rune_i32 : List Instr := [.localGet 0, .localGet 1, .bin .i32 .shr_s]
def bin_shr_rune_i32_ret : String := "rune"
/-- bin shr rune i64  ⇒  local.get $x ; local.get $y ; i32.wrap_i64 ; i32.shr_s : rune -/
def bin_shr_rune_i64 : List Instr := [.localGet 0, .localGet 1, .wrap_i64, .bin .i32 .shr_s]
def bin_shr_rune_i64_ret : String := "rune"
/-- un sub u8 -  ⇒  i32.const 0 ; local.get $x ; i32.sub ; i32.const 255 ; i32.and : u8 -/
def un_sub_u8 : List Instr := [.const32 0#32, .localGet 0, .bin .i32 .sub, .const32 255#32, .bin .i32 .and]
def un_sub_u8_ret : String := "u8"
/-- un sub u16 -  ⇒  i32.const 0 ; local.get $x ; i32.sub ; i32.const 65535 ; i32.and : u16 -/
def un_sub_u16 : List Instr := [.const32 0#32, .localGet 0, .bin .i32 .sub, .const32 65535#32, .bin .i32 .and]
def un_sub_u16_ret : String := "u16"
/-- un sub i32 -  ⇒  i32.const 0 ; local.get $x ; i32.sub : i32 -/
def un_sub_i32 : List Instr := [.const32 0#32, .localGet 0, .bin .i32 .sub]
def un_sub_i32_ret : String := "i32"
/-- un sub u32 -  ⇒  i32.const 0 ; local.get $x ; i32.sub : u32 -/
def un_sub_u32 : List Instr := [.const32 0#32, .localGet 0, .bin .i32 .sub]
def un_sub_u32_ret : String := "u32"
/-- un sub i64 -  ⇒  i64.const 0 ; local.get $x ; i64.sub : i64 -/
def un_sub_i64 : List Instr := [.const64 0#64, .localGet 0, .bin .i64 .sub]
def un_sub_i64_ret : String := "i64"
/-- un sub u64 -  ⇒  i64.const 0 ; local.get $x ; i64.sub : u64 -/
def un_sub_u64 : List Instr := [.const64 0#64, .localGet 0, .bin .i64 .sub]
def un_sub_u64_ret : String := "u64"
/-- un sub rune -  ⇒  i32.const 0 ; local.get $x ; i32.sub : rune -/
def un_sub_rune : List Instr := [.const32 0#32, .localGet 0, .bin .i32 .sub]
def un_sub_rune_ret : String := "rune"
/-- un xor u8 -  ⇒  i32.const -1 ; local.get $x ; i32.xor ; i32.const 255 ; i32.and : u8 -/
def un_xor_u8 : List Instr := [.const32 4294967295#32, .localGet 0, .bin .i32 .xor, .const32 255#32, .bin .i32 .and]
def un_xor_u8_ret : String := "u8"
/-- un xor u16 -  ⇒  i32.const -1 ; local.get $x ; i32.xor ; i32.const 65535 ; i32.and : u16 -/
def un_xor_u16 : List Instr := [.const32 4294967295#32, .localGet 0, .bin .i32 .xor, .const32 65535#32, .bin .i32 .and]
def un_xor_u16_ret : String := "u16"
/-- un xor i32 -  ⇒  i32.const -1 ; local.get $x ; i32.xor : i32 -/
def un_xor_i32 : List Instr := [.const32 4294967295#32, .localGet 0, .bin .i32 .xor]
def un_xor_i32_ret : String := "i32"
/-- un xor u32 -  ⇒  i32.const -1 ; local.get $x ; i32.xor : u32 -/
def un_xor_u32 : List Instr := [.const32 4294967295#32, .localGet 0, .bin .i32 .xor]
def un_xor_u32_ret : String := "u32"
/-- un xor i64 -  ⇒  i64.const -1 ; local.get $x ; i64.xor : i64 -/
def un_xor_i64 : List Instr := [.const64 18446744073709551615#64, .localGet 0, .bin .i64 .xor]
def un_xor_i64_ret : String := "i64"
/-- un xor u64 -  ⇒  i64.const -1 ; local.get $x ; i64.xor : u64 -/
def un_xor_u64 : List Instr := [.const64 18446744073709551615#64, .localGet 0, .bin .i64 .xor]
def un_xor_u64_ret : String := "u64"
/-- un xor rune -  ⇒  i32.const -1 ; local.get $x ; i32.xor : rune -/
def un_xor_rune : List Instr := [.const32 4294967295#32, .localGet 0, .bin .i32 .xor]
def un_xor_rune_ret : String := "rune"
/-- un not bool -  ⇒  local.get $x ; i32.eqz : bool -/
def un_not_bool : List Instr := [.localGet 0, .eqz .i32]
def un_not_bool_ret : String := "bool"
/-- conv - u8 u8  ⇒  local.get $x : u8 -/
def conv_to_u8_u8 : List Instr := [.localGet 0]
def conv_to_u8_u8_ret : String := "u8"
/-- conv - u8 u16  ⇒  local.get $x ; i32.const 65535 ; i32.and : u16 -/
def conv_to_u8_u16 : List Instr := [.localGet 0, .const32 65535#32, .bin .i32 .and]
def conv_to_u8_u16_ret : String := "u16"
/-- conv - u8 i32  ⇒  local.get $x : i32 -/
def conv_to_u8_i32 : List Instr := [.localGet 0]
def conv_to_u8_i32_ret : String := "i32"
/-- conv - u8 u32  ⇒  local.get $x : u32 -/
def conv_to_u8_u32 : List Instr := [.localGet 0]
def conv_to_u8_u32_ret : String := "u32"
/-- conv - u8 i64  ⇒  local.get $x ; i64.extend_i32_u : i64 -/
def conv_to_u8_i64 : List Instr := [.localGet 0, .extend_i32_u]
def conv_to_u8_i64_ret : String := "i64"
/-- conv - u8 u64  ⇒  local.get $x ; i64.extend_i32_u : u64 -/
def conv_to_u8_u64 : List Instr := [.localGet 0, .extend_i32_u]
def conv_to_u8_u64_ret : String := "u64"
/-- conv - u8 rune  ⇒  local.get $x : rune -/
def conv_to_u8_rune : List Instr := [.localGet 0]
def conv_to_u8_rune_ret : String := "rune"
/-- conv - u16 u8  ⇒  local.get $x ; i32.const 255 ; i32.and : u8 -/
def conv_to_u16_u8 : List Instr := [.localGet 0, .const32 255#32, .bin .i32 .and]
def conv_to_u16_u8_ret : String := "u8"
/-- conv - u16 u16  ⇒  local.get $x : u16 -/
def conv_to_u16_u16 : List Instr := [.localGet 0]
def conv_to_u16_u16_ret : String := "u16"
/-- conv - u16 i32  ⇒  local.get $x : i32 -/
def conv_to_u16_i32 : List Instr := [.localGet 0]
def conv_to_u16_i32_ret : String := "i32"
/-- conv - u16 u32  ⇒  local.get $x : u32 -/
def conv_to_u16_u32 : List Instr := [.localGet 0]
def conv_to_u16_u32_ret : String := "u32"
/-- conv - u16 i64  ⇒  local.get $x ; i64.extend_i32_u : i64 -/
def conv_to_u16_i64 : List Instr := [.localGet 0, .extend_i32_u]
def conv_to_u16_i64_ret : String := "i64"
/-- conv - u16 u64  ⇒  local.get $x ; i64.extend_i32_u : u64 -/
def conv_to_u16_u64 : List Instr := [.localGet 0, .extend_i32_u]
def conv_to_u16_u64_ret : String := "u64"
/-- conv - u16 rune  ⇒  local.get $x : rune -/
def conv_to_u16_rune : List Instr := [.localGet 0]
def conv_to_u16_rune_ret : String := "rune"
/-- conv - i32 u8  ⇒  local.get $x ; i32.const 255 ; i32.and : u8 -/
def conv_to_i32_u8 : List Instr := [.localGet 0, .const32 255#32, .bin .i32 .and]
def conv_to_i32_u8_ret : String := "u8"
/-- conv - i32 u16  ⇒  local.get $x ; i32.const 65535 ; i32.and : u16 -/
def conv_to_i32_u16 : List Instr := [.localGet 0, .const32 65535#32, .bin .i32 .and]
def conv_to_i32_u16_ret : String := "u16"
/-- conv - i32 i32  ⇒  local.get $x : i32 -/
def conv_to_i32_i32 : List Instr := [.localGet 0]
def conv_to_i32_i32_ret : String := "i32"
/-- conv - i32 u32  ⇒  local.get $x : u32 -/
def conv_to_i32_u32 : List Instr := [.localGet 0]
def conv_to_i32_u32_ret : String := "u32"
/-- conv - i32 i64  ⇒  local.get $x ; i64.extend_i32_s : i64 -/
def conv_to_i32_i64 : List Instr := [.localGet 0, .extend_i32_s]
def conv_to_i32_i64_ret : String := "i64"
/-- conv - i32 u64  ⇒  local.get $x ; i64.extend_i32_s : u64 -/
def conv_to_i32_u64 : List Instr := [.localGet 0, .extend_i32_s]
def conv_to_i32_u64_ret : String := "u64"
/-- conv - i32 rune  ⇒  local.get $x : rune -/
def conv_to_i32_rune : List Instr := [.localGet 0]
def conv_to_i32_rune_ret : String := "rune"
/-- conv - u32 u8  ⇒  local.get $x ; i32.const 255 ; i32.and : u8 -/
def conv_to_u32_u8 : List Instr := [.localGet 0, .const32 255#32, .bin .i32 .and]
def conv_to_u32_u8_ret : String := "u8"
/-- conv - u32 u16  ⇒  local.get $x ; i32.const 65535 ; i32.and : u16 -/
def conv_to_u32_u16 : List Instr := [.localGet 0, .const32 65535#32, .bin .i32 .and]
def conv_to_u32_u16_ret : String := "u16"
/-- conv - u32 i32  ⇒  local.get $x : i32 -/
def conv_to_u32_i32 : List Instr := [.localGet 0]
def conv_to_u32_i32_ret : String := "i32"
/-- conv - u32 u32  ⇒  local.get $x : u32 -/
def conv_to_u32_u32 : List Instr := [.localGet 0]
def conv_to_u32_u32_ret : String := "u32"
/-- conv - u32 i64  ⇒  local.get $x ; i64.extend_i32_u : i64 -/
def conv_to_u32_i64 : List Instr := [.localGet 0, .extend_i32_u]
def conv_to_u32_i64_ret : String := "i64"
/-- conv - u32 u64  ⇒  local.get $x ; i64.extend_i32_u : u64 -/
def conv_to_u32_u64 : List Instr := [.localGet 0, .extend_i32_u]
def conv_to_u32_u64_ret : String := "u64"
/-- conv - u32 rune  ⇒  local.get $x : rune -/
def conv_to_u32_rune : List Instr := [.localGet 0]
def conv_to_u32_rune_ret : String := "rune"
/-- conv - i64 u8  ⇒  local.get $x ; i32.wrap_i64 ; i32.const 255 ; i32.and : u8 -/
def conv_to_i64_u8 : List Instr := [.localGet 0, .wrap_i64, .const32 255#32, .bin .i32 .and]
def conv_to_i64_u8_ret : String := "u8"
/-- conv - i64 u16  ⇒  local.get $x ; i32.wrap_i64 ; i32.const 65535 ; i32.and : u16 -/
def conv_to_i64_u16 : List Instr := [.localGet 0, .wrap_i64, .const32 65535#32, .bin .i32 .and]
def conv_to_i64_u16_ret : String := "u16"
/-- conv - i64 i32  ⇒  local.get $x ; i32.wrap_i64 : i32 -/
def conv_to_i64_i32 : List Instr := [.localGet 0, .wrap_i64]
def conv_to_i64_i32_ret : String := "i32"
/-- conv - i64 u32  ⇒  local.get $x ; i32.wrap_i64 : u32 -/
def conv_to_i64_u32 : List Instr := [.localGet 0, .wrap_i64]
def conv_to_i64_u32_ret : String := "u32"
/-- conv - i64 i64  ⇒  local.get $x : i64 -/
def conv_to_i64_i64 : List Instr := [.localGet 0]
def conv_to_i64_i64_ret : String := "i64"
/-- conv - i64 u64  ⇒  local.get $x : u64 -/
def conv_to_i64_u64 : List Instr := [.localGet 0]
def conv_to_i64_u64_ret : String := "u64"
/-- conv - i64 rune  ⇒  local.get $x ; i32.wrap_i64 : rune -/
def conv_to_i64_rune : List Instr := [.localGet 0, .wrap_i64]
def conv_to_i64_rune_ret : String := "rune"
/-- conv - u64 u8  ⇒  local.get $x ; i32.wrap_i64 ; i32.const 255 ; i32.and : u8 -/
def conv_to_u64_u8 : List Instr := [.localGet 0, .wrap_i64, .const32 255#32, .bin .i32 .and]
def conv_to_u64_u8_ret : String := "u8"
/-- conv - u64 u16  ⇒  local.get $x ; i32.wrap_i64 ; i32.const 65535 ; i32.and : u16 -/
def conv_to_u64_u16 : List Instr := [.localGet 0, .wrap_i64, .const32 65535#32, .bin .i32 .and]
def conv_to_u64_u16_ret : String := "u16"
/-- conv - u64 i32  ⇒  local.get $x ; i32.wrap_i64 : i32 -/
def conv_to_u64_i32 : List Instr := [.localGet 0, .wrap_i64]
def conv_to_u64_i32_ret : String := "i32"
/-- conv - u64 u32  ⇒  local.get $x ; i32.wrap_i64 : u32 -/
def conv_to_u64_u32 : List Instr := [.localGet 0, .wrap_i64]
def conv_to_u64_u32_ret : String := "u32"
/-- conv - u64 i64  ⇒  local.get $x : i64 -/
def conv_to_u64_i64 : List Instr := [.localGet 0]
def conv_to_u64_i64_ret : String := "i64"
/-- conv - u64 u64  ⇒  local.get $x : u64 -/
def conv_to_u64_u64 : List Instr := [.localGet 0]
def conv_to_u64_u64_ret : String := "u64"
/-- conv - u64 rune  ⇒  local.get $x ; i32.wrap_i64 : rune -/
def conv_to_u64_rune : List Instr := [.localGet 0, .wrap_i64]
def conv_to_u64_rune_ret : String := "rune"
/-- conv - rune u8  ⇒  local.get $x ; i32.const 255 ; i32.and : u8 -/
def conv_to_rune_u8 : List Instr := [.localGet 0, .const32 255#32, .bin .i32 .and]
def conv_to_rune_u8_ret : String := "u8"
/-- conv - rune u16  ⇒  local.get $x ; i32.const 65535 ; i32.and : u16 -/
def conv_to_rune_u16 : List Instr := [.localGet 0, .const32 65535#32, .bin .i32 .and]
def conv_to_rune_u16_ret : String := "u16"
/-- conv - rune i32  ⇒  local.get $x : i32 -/
def conv_to_rune_i32 : List Instr := [.localGet 0]
def conv_to_rune_i32_ret : String := "i32"
/-- conv - rune u32  ⇒  local.get $x : u32 -/
def conv_to_rune_u32 : List Instr := [.localGet 0]
def conv_to_rune_u32_ret : String := "u32"
/-- conv - rune i64  ⇒  local.get $x ; i64.extend_i32_s : i64 -/
def conv_to_rune_i64 : List Instr := [.localGet 0, .extend_i32_s]
def conv_to_rune_i64_ret : String := "i64"
/-- conv - rune u64  ⇒  local.get $x ; i64.extend_i32_s : u64 -/
def conv_to_rune_u64 : List Instr := [.localGet 0, .extend_i32_s]
def conv_to_rune_u64_ret : String := "u64"
/-- conv - rune rune  ⇒  local.get $x : rune -/
def conv_to_rune_rune : List Instr := [.localGet 0]
def conv_to_rune_rune_ret : String := "rune"

def rowNames : List String := ["bin_add_u8_u8", "bin_add_u16_u16", "bin_add_i32_i32", "bin_add_u32_u32", "bin_add_i64_i64", "bin_add_u64_u64", "bin_add_rune_rune", "bin_sub_u8_u8", "bin_sub_u16_u16", "bin_sub_i32_i32", "bin_sub_u32_u32", "bin_sub_i64_i64", "bin_sub_u64_u64", "bin_sub_rune_rune", "bin_mul_u8_u8", "bin_mul_u16_u16", "bin_mul_i32_i32", "bin_mul_u32_u32", "bin_mul_i64_i64", "bin_mul_u64_u64", "bin_mul_rune_rune", "bin_quo_u8_u8", "bin_quo_u16_u16", "bin_quo_i32_i32", "bin_quo_u32_u32", "bin_quo_i64_i64", "bin_quo_u64_u64", "bin_quo_rune_rune", "bin_rem_u8_u8", "bin_rem_u16_u16", "bin_rem_i32_i32", "bin_rem_u32_u32", "bin_rem_i64_i64", "bin_rem_u64_u64", "bin_rem_rune_rune", "bin_and_u8_u8", "bin_and_u16_u16", "bin_and_i32_i32", "bin_and_u32_u32", "bin_and_i64_i64", "bin_and_u64_u64", "bin_and_rune_rune", "bin_or_u8_u8", "bin_or_u16_u16", "bin_or_i32_i32", "bin_or_u32_u32", "bin_or_i64_i64", "bin_or_u64_u64", "bin_or_rune_rune", "bin_xor_u8_u8", "bin_xor_u16_u16", "bin_xor_i32_i32", "bin_xor_u32_u32", "bin_xor_i64_i64", "bin_xor_u64_u64", "bin_xor_rune_rune", "bin_andnot_u8_u8", "bin_andnot_u16_u16", "bin_andnot_i32_i32", "bin_andnot_u32_u32", "bin_andnot_i64_i64", "bin_andnot_u64_u64", "bin_andnot_rune_rune", "bin_eql_u8_u8", "bin_eql_u16_u16", "bin_eql_i32_i32", "bin_eql_u32_u32", "bin_eql_i64_i64", "bin_eql_u64_u64", "bin_eql_rune_rune", "bin_ne_u8_u8", "bin_ne_u16_u16", "bin_ne_i32_i32", "bin_ne_u32_u32", "bin_ne_i64_i64", "bin_ne_u64_u64", "bin_ne_rune_rune", "bin_lt_u8_u8", "bin_lt_u16_u16", "bin_lt_i32_i32", "bin_lt_u32_u32", "bin_lt_i64_i64", "bin_lt_u64_u64", "bin_lt_rune_rune", "bin_gt_u8_u8", "bin_gt_u16_u16", "bin_gt_i32_i32", "bin_gt_u32_u32", "bin_gt_i64_i64", "bin_gt_u64_u64", "bin_gt_rune_rune", "bin_le_u8_u8", "bin_le_u16_u16", "bin_le_i32_i32", "bin_le_u32_u32", "bin_le_i64_i64", "bin_le_u64_u64", "bin_le_rune_rune", "bin_ge_u8_u8", "bin_ge_u16_u16", "bin_ge_i32_i32", "bin_ge_u32_u32", "bin_ge_i64_i64", "bin_ge_u64_u64", "bin_ge_rune_rune", "bin_shl_u8_u8", "bin_shl_u8_u16", "bin_shl_u8_u32", "bin_shl_u8_u64", "bin_shl_u8_i32", "bin_shl_u8_i64", "bin_shl_u16_u8", "bin_shl_u16_u16", "bin_shl_u16_u32", "bin_shl_u16_u64", "bin_shl_u16_i32", "bin_shl_u16_i64", "bin_shl_i32_u8", "bin_shl_i32_u16", "bin_shl_i32_u32", "bin_shl_i32_u64", "bin_shl_i32_i32", "bin_shl_i32_i64", "bin_shl_u32_u8", "bin_shl_u32_u16", "bin_shl_u32_u32", "bin_shl_u32_u64", "bin_shl_u32_i32", "bin_shl_u32_i64", "bin_shl_i64_u8", "bin_shl_i64_u16", "bin_shl_i64_u32", "bin_shl_i64_u64", "bin_shl_i64_i32", "bin_shl_i64_i64", "bin_shl_u64_u8", "bin_shl_u64_u16", "bin_shl_u64_u32", "bin_shl_u64_u64", "bin_shl_u64_i32", "bin_shl_u64_i64", "bin_shl_rune_u8", "bin_shl_rune_u16", "bin_shl_rune_u32", "bin_shl_rune_u64", "bin_shl_rune_i32", "bin_shl_rune_i64", "bin_shr_u8_u8", "bin_shr_u8_u16", "bin_shr_u8_u32", "bin_shr_u8_u64", "bin_shr_u8_i32", "bin_shr_u8_i64", "bin_shr_u16_u8", "bin_shr_u16_u16", "bin_shr_u16_u32", "bin_shr_u16_u64", "bin_shr_u16_i32", "bin_shr_u16_i64", "bin_shr_i32_u8", "bin_shr_i32_u16", "bin_shr_i32_u32", "bin_shr_i32_u64", "bin_shr_i32_i32", "bin_shr_i32_i64", "bin_shr_u32_u8", "bin_shr_u32_u16", "bin_shr_u32_u32", "bin_shr_u32_u64", "bin_shr_u32_i32", "bin_shr_u32_i64", "bin_shr_i64_u8", "bin_shr_i64_u16", "bin_shr_i64_u32", "bin_shr_i64_u64", "bin_shr_i64_i32", "bin_shr_i64_i64", "bin_shr_u64_u8", "bin_shr_u64_u16", "bin_shr_u64_u32", "bin_shr_u64_u64", "bin_shr_u64_i32", "bin_shr_u64_i64", "bin_shr_rune_u8", "bin_shr_rune_u16", "bin_shr_rune_u32", "bin_shr_rune_u64", "bin_shr_rune_i32", "bin_shr_rune_i64", "un_sub_u8", "un_sub_u16", "un_sub_i32", "un_sub_u32", "un_sub_i64", "un_sub_u64", "un_sub_rune", "un_xor_u8", "un_xor_u16", "un_xor_i32", "un_xor_u32", "un_xor_i64", "un_xor_u64", "un_xor_rune", "un_not_bool", "conv_to_u8_u8", "conv_to_u8_u16", "conv_to_u8_i32", "conv_to_u8_u32", "conv_to_u8_i64", "conv_to_u8_u64", "conv_to_u8_rune", "conv_to_u16_u8", "conv_to_u16_u16", "conv_to_u16_i32", "conv_to_u16_u32", "conv_to_u16_i64", "conv_to_u16_u64", "conv_to_u16_rune", "conv_to_i32_u8", "conv_to_i32_u16", "conv_to_i32_i32", "conv_to_i32_u32", "conv_to_i32_i64", "conv_to_i32_u64", "conv_to_i32_rune", "conv_to_u32_u8", "conv_to_u32_u16", "conv_to_u32_i32", "conv_to_u32_u32", "conv_to_u32_i64", "conv_to_u32_u64", "conv_to_u32_rune", "conv_to_i64_u8", "conv_to_i64_u16", "conv_to_i64_i32", "conv_to_i64_u32", "conv_to_i64_i64", "conv_to_i64_u64", "conv_to_i64_rune", "conv_to_u64_u8", "conv_to_u64_u16", "conv_to_u64_i32", "conv_to_u64_u32", "conv_to_u64_i64", "conv_to_u64_u64", "conv_to_u64_rune", "conv_to_rune_u8", "conv_to_rune_u16", "conv_to_rune_i32", "conv_to_rune_u32", "conv_to_rune_i64", "conv_to_rune_u64", "conv_to_rune_rune"]
def rowTable : List (String × List Instr) := [("bin_add_u8_u8", bin_add_u8_u8), ("bin_add_u16_u16", bin_add_u16_u16), ("bin_add_i32_i32", bin_add_i32_i32), ("bin_add_u32_u32", bin_add_u32_u32), ("bin_add_i64_i64", bin_add_i64_i64), ("bin_add_u64_u64", bin_add_u64_u64), ("bin_add_rune_rune", bin_add_rune_rune), ("bin_sub_u8_u8", bin_sub_u8_u8), ("bin_sub_u16_u16", bin_sub_u16_u16), ("bin_sub_i32_i32", bin_sub_i32_i32), ("bin_sub_u32_u32", bin_sub_u32_u32), ("bin_sub_i64_i64", bin_sub_i64_i64), ("bin_sub_u64_u64", bin_sub_u64_u64), ("bin_sub_rune_rune", bin_sub_rune_rune), ("bin_mul_u8_u8", bin_mul_u8_u8), ("bin_mul_u16_u16", bin_mul_u16_u16), ("bin_mul_i32_i32", bin_mul_i32_i32), ("bin_mul_u32_u32", bin_mul_u32_u32), ("bin_mul_i64_i64", bin_mul_i64_i64), ("bin_mul_u64_u64", bin_mul_u64_u64), ("bin_mul_rune_rune", bin_mul_rune_rune), ("bin_quo_u8_u8", bin_quo_u8_u8), ("bin_quo_u16_u16", bin_quo_u16_u16), ("bin_quo_i32_i32", bin_quo_i32_i32), ("bin_quo_u32_u32", bin_quo_u32_u32), ("bin_quo_i64_i64", bin_quo_i64_i64), ("bin_quo_u64_u64", bin_quo_u64_u64), ("bin_quo_rune_rune", bin_quo_rune_rune), ("bin_rem_u8_u8", bin_rem_u8_u8), ("bin_rem_u16_u16", bin_rem_u16_u16), ("bin_rem_i32_i32", bin_rem_i32_i32), ("bin_rem_u32_u32", bin_rem_u32_u32), ("bin_rem_i64_i64", bin_rem_i64_i64), ("bin_rem_u64_u64", bin_rem_u64_u64), ("bin_rem_rune_rune", bin_rem_rune_rune), ("bin_and_u8_u8", bin_and_u8_u8), ("bin_and_u16_u16", bin_and_u16_u16), ("bin_and_i32_i32", bin_and_i32_i32), ("bin_and_u32_u32", bin_and_u32_u32), ("bin_and_i64_i64", bin_and_i64_i64), ("bin_and_u64_u64", bin_and_u64_u64), ("bin_and_rune_rune", bin_and_rune_rune), ("bin_or_u8_u8", bin_or_u8_u8), ("bin_or_u16_u16", bin_or_u16_u16), ("bin_or_i32_i32", bin_or_i32_i32), ("bin_or_u32_u32", bin_or_u32_u32), ("bin_or_i64_i64", bin_or_i64_i64), ("bin_or_u64_u64", bin_or_u64_u64), ("bin_or_rune_rune", bin_or_rune_rune), ("bin_xor_u8_u8", bin_xor_u8_u8), ("bin_xor_u16_u16", bin_xor_u16_u16), ("bin_xor_i32_i32", bin_xor_i32_i32), ("bin_xor_u32_u32", bin_xor_u32_u32), ("bin_xor_i64_i64", bin_xor_i64_i64), ("bin_xor_u64_u64", bin_xor_u64_u64), ("bin_xor_rune_rune", bin_xor_rune_rune), ("bin_andnot_u8_u8", bin_andnot_u8_u8), ("bin_andnot_u16_u16", bin_andnot_u16_u16), ("bin_andnot_i32_i32", bin_andnot_i32_i32), ("bin_andnot_u32_u32", bin_andnot_u32_u32), ("bin_andnot_i64_i64", bin_andnot_i64_i64), ("bin_andnot_u64_u64", bin_andnot_u64_u64), ("bin_andnot_rune_rune", bin_andnot_rune_rune), ("bin_eql_u8_u8", bin_eql_u8_u8), ("bin_eql_u16_u16", bin_eql_u16_u16), ("bin_eql_i32_i32", bin_eql_i32_i32), ("bin_eql_u32_u32", bin_eql_u32_u32), ("bin_eql_i64_i64", bin_eql_i64_i64), ("bin_eql_u64_u64", bin_eql_u64_u64), ("bin_eql_rune_rune", bin_eql_rune_rune), ("bin_ne_u8_u8", bin_ne_u8_u8), ("bin_ne_u16_u16", bin_ne_u16_u16), ("bin_ne_i32_i32", bin_ne_i32_i32), ("bin_ne_u32_u32", bin_ne_u32_u32), ("bin_ne_i64_i64", bin_ne_i64_i64), ("bin_ne_u64_u64", bin_ne_u64_u64), ("bin_ne_rune_rune", bin_ne_rune_rune), ("bin_lt_u8_u8", bin_lt_u8_u8), ("bin_lt_u16_u16", bin_lt_u16_u16), ("bin_lt_i32_i32", bin_lt_i32_i32), ("bin_lt_u32_u32", bin_lt_u32_u32), ("bin_lt_i64_i64", bin_lt_i64_i64), ("bin_lt_u64_u64", bin_lt_u64_u64), ("bin_lt_rune_rune", bin_lt_rune_rune), ("bin_gt_u8_u8", bin_gt_u8_u8), ("bin_gt_u16_u16", bin_gt_u16_u16), ("bin_gt_i32_i32", bin_gt_i32_i32), ("bin_gt_u32_u32", bin_gt_u32_u32), ("bin_gt_i64_i64", bin_gt_i64_i64), ("bin_gt_u64_u64", bin_gt_u64_u64), ("bin_gt_rune_rune", bin_gt_rune_rune), ("bin_le_u8_u8", bin_le_u8_u8), ("bin_le_u16_u16", bin_le_u16_u16), ("bin_le_i32_i32", bin_le_i32_i32), ("bin_le_u32_u32", bin_le_u32_u32), ("bin_le_i64_i64", bin_le_i64_i64), ("bin_le_u64_u64", bin_le_u64_u64), ("bin_le_rune_rune", bin_le_rune_rune), ("bin_ge_u8_u8", bin_ge_u8_u8), ("bin_ge_u16_u16", bin_ge_u16_u16), ("bin_ge_i32_i32", bin_ge_i32_i32), ("bin_ge_u32_u32", bin_ge_u32_u32), ("bin_ge_i64_i64", bin_ge_i64_i64), ("bin_ge_u64_u64", bin_ge_u64_u64), ("bin_ge_rune_rune", bin_ge_rune_rune), ("bin_shl_u8_u8", bin_shl_u8_u8), ("bin_shl_u8_u16", bin_shl_u8_u16), ("bin_shl_u8_u32", bin_shl_u8_u32), ("bin_shl_u8_u64", bin_shl_u8_u64), ("bin_shl_u8_i32", bin_shl_u8_i32), ("bin_shl_u8_i64", bin_shl_u8_i64), ("bin_shl_u16_u8", bin_shl_u16_u8), ("bin_shl_u16_u16", bin_shl_u16_u16), ("bin_shl_u16_u32", bin_shl_u16_u32), ("bin_shl_u16_u64", bin_shl_u16_u64), ("bin_shl_u16_i32", bin_shl_u16_i32), ("bin_shl_u16_i64", bin_shl_u16_i64), ("bin_shl_i32_u8", bin_shl_i32_u8), ("bin_shl_i32_u16", bin_shl_i32_u16), ("bin_shl_i32_u32", bin_shl_i32_u32), ("bin_shl_i32_u64", bin_shl_i32_u64), ("bin_shl_i32_i32", bin_shl_i32_i32), ("bin_shl_i32_i64", bin_shl_i32_i64), ("bin_shl_u32_u8", bin_shl_u32_u8), ("bin_shl_u32_u16", bin_shl_u32_u16), ("bin_shl_u32_u32", bin_shl_u32_u32), ("bin_shl_u32_u64", bin_shl_u32_u64), ("bin_shl_u32_i32", bin_shl_u32_i32), ("bin_shl_u32_i64", bin_shl_u32_i64), ("bin_shl_i64_u8", bin_shl_i64_u8), ("bin_shl_i64_u16", bin_shl_i64_u16), ("bin_shl_i64_u32", bin_shl_i64_u32), ("bin_shl_i64_u64", bin_shl_i64_u64), ("bin_shl_i64_i32", bin_shl_i64_i32), ("bin_shl_i64_i64", bin_shl_i64_i64), ("bin_shl_u64_u8", bin_shl_u64_u8), ("bin_shl_u64_u16", bin_shl_u64_u16), ("bin_shl_u64_u32", bin_shl_u64_u32), ("bin_shl_u64_u64", bin_shl_u64_u64), ("bin_shl_u64_i32", bin_shl_u64_i32), ("bin_shl_u64_i64", bin_shl_u64_i64), ("bin_shl_rune_u8", bin_shl_rune_u8), ("bin_shl_rune_u16", bin_shl_rune_u16), ("bin_shl_rune_u32", bin_shl_rune_u32), ("bin_shl_rune_u64", bin_shl_rune_u64), ("bin_shl_rune_i32", bin_shl_rune_i32), ("bin_shl_rune_i64", bin_shl_rune_i64), ("bin_shr_u8_u8", bin_shr_u8_u8), ("bin_shr_u8_u16", bin_shr_u8_u16), ("bin_shr_u8_u32", bin_shr_u8_u32), ("bin_shr_u8_u64", bin_shr_u8_u64), ("bin_shr_u8_i32", bin_shr_u8_i32), ("bin_shr_u8_i64", bin_shr_u8_i64), ("bin_shr_u16_u8", bin_shr_u16_u8), ("bin_shr_u16_u16", bin_shr_u16_u16), ("bin_shr_u16_u32", bin_shr_u16_u32), ("bin_shr_u16_u64", bin_shr_u16_u64), ("bin_shr_u16_i32", bin_shr_u16_i32), ("bin_shr_u16_i64", bin_shr_u16_i64), ("bin_shr_i32_u8", bin_shr_i32_u8), ("bin_shr_i32_u16", bin_shr_i32_u16), ("bin_shr_i32_u32", bin_shr_i32_u32), ("bin_shr_i32_u64", bin_shr_i32_u64), ("bin_shr_i32_i32", bin_shr_i32_i32), ("bin_shr_i32_i64", bin_shr_i32_i64), ("bin_shr_u32_u8", bin_shr_u32_u8), ("bin_shr_u32_u16", bin_shr_u32_u16), ("bin_shr_u32_u32", bin_shr_u32_u32), ("bin_shr_u32_u64", bin_shr_u32_u64), ("bin_shr_u32_i32", bin_shr_u32_i32), ("bin_shr_u32_i64", bin_shr_u32_i64), ("bin_shr_i64_u8", bin_shr_i64_u8), ("bin_shr_i64_u16", bin_shr_i64_u16), ("bin_shr_i64_u32", bin_shr_i64_u32), ("bin_shr_i64_u64", bin_shr_i64_u64), ("bin_shr_i64_i32", bin_shr_i64_i32), ("bin_shr_i64_i64", bin_shr_i64_i64), ("bin_shr_u64_u8", bin_shr_u64_u8), ("bin_shr_u64_u16", bin_shr_u64_u16), ("bin_shr_u64_u32", bin_shr_u64_u32), ("bin_shr_u64_u64", bin_shr_u64_u64), ("bin_shr_u64_i32", bin_shr_u64_i32), ("bin_shr_u64_i64", bin_shr_u64_i64), ("bin_shr_rune_u8", bin_shr_rune_u8), ("bin_shr_rune_u16", bin_shr_rune_u16), ("bin_shr_rune_u32", bin_shr_rune_u32), ("bin_shr_rune_u64", bin_shr_rune_u64), ("bin_shr_rune_i32", bin_shr_rune_i32), ("bin_shr_rune_i64", bin_shr_rune_i64), ("un_sub_u8", un_sub_u8), ("un_sub_u16", un_sub_u16), ("un_sub_i32", un_sub_i32), ("un_sub_u32", un_sub_u32), ("un_sub_i64", un_sub_i64), ("un_sub_u64", un_sub_u64), ("un_sub_rune", un_sub_rune), ("un_xor_u8", un_xor_u8), ("un_xor_u16", un_xor_u16), ("un_xor_i32", un_xor_i32), ("un_xor_u32", un_xor_u32), ("un_xor_i64", un_xor_i64), ("un_xor_u64", un_xor_u64), ("un_xor_rune", un_xor_rune), ("un_not_bool", un_not_bool), ("conv_to_u8_u8", conv_to_u8_u8), ("conv_to_u8_u16", conv_to_u8_u16), ("conv_to_u8_i32", conv_to_u8_i32), ("conv_to_u8_u32", conv_to_u8_u32), ("conv_to_u8_i64", conv_to_u8_i64), ("conv_to_u8_u64", conv_to_u8_u64), ("conv_to_u8_rune", conv_to_u8_rune), ("conv_to_u16_u8", conv_to_u16_u8), ("conv_to_u16_u16", conv_to_u16_u16), ("conv_to_u16_i32", conv_to_u16_i32), ("conv_to_u16_u32", conv_to_u16_u32), ("conv_to_u16_i64", conv_to_u16_i64), ("conv_to_u16_u64", conv_to_u16_u64), ("conv_to_u16_rune", conv_to_u16_rune), ("conv_to_i32_u8", conv_to_i32_u8), ("conv_to_i32_u16", conv_to_i32_u16), ("conv_to_i32_i32", conv_to_i32_i32), ("conv_to_i32_u32", conv_to_i32_u32), ("conv_to_i32_i64", conv_to_i32_i64), ("conv_to_i32_u64", conv_to_i32_u64), ("conv_to_i32_rune", conv_to_i32_rune), ("conv_to_u32_u8", conv_to_u32_u8), ("conv_to_u32_u16", conv_to_u32_u16), ("conv_to_u32_i32", conv_to_u32_i32), ("conv_to_u32_u32", conv_to_u32_u32), ("conv_to_u32_i64", conv_to_u32_i64), ("conv_to_u32_u64", conv_to_u32_u64), ("conv_to_u32_rune", conv_to_u32_rune), ("conv_to_i64_u8", conv_to_i64_u8), ("conv_to_i64_u16", conv_to_i64_u16), ("conv_to_i64_i32", conv_to_i64_i32), ("conv_to_i64_u32", conv_to_i64_u32), ("conv_to_i64_i64", conv_to_i64_i64), ("conv_to_i64_u64", conv_to_i64_u64), ("conv_to_i64_rune", conv_to_i64_rune), ("conv_to_u64_u8", conv_to_u64_u8), ("conv_to_u64_u16", conv_to_u64_u16), ("conv_to_u64_i32", conv_to_u64_i32), ("conv_to_u64_u32", conv_to_u64_u32), ("conv_to_u64_i64", conv_to_u64_i64), ("conv_to_u64_u64", conv_to_u64_u64), ("conv_to_u64_rune", conv_to_u64_rune), ("conv_to_rune_u8", conv_to_rune_u8), ("conv_to_rune_u16", conv_to_rune_u16), ("conv_to_rune_i32", conv_to_rune_i32), ("conv_to_rune_u32", conv_to_rune_u32), ("conv_to_rune_i64", conv_to_rune_i64), ("conv_to_rune_u64", conv_to_rune_u64), ("conv_to_rune_rune", conv_to_rune_rune)]
end WaVerif.Gen.C01
