import WaVerif.Model.C02X64
/-! REGENERATED on every run by extract/c02_templates.py from wat2x64.Wat2X64 of /repo's working tree
    (the assembly text emitted for one WebAssembly instruction, parsed line by line). Do not edit. -/
namespace WaVerif.Gen.C02
open WaVerif.X64

/- i32.add:
     mov eax, dword ptr [rbp-32]
     add eax, dword ptr [rbp-40]
     mov dword ptr [rbp-32], eax
-/
def i32_add : Template := ⟨[.mov (.reg .rax .d) (.slot 4 .d),
    .alu .add (.reg .rax .d) (.slot 5 .d),
    .mov (.slot 4 .d) (.reg .rax .d)],
    4, 5⟩    -- code, x slot, y slot
/- i32.sub:
     mov eax, dword ptr [rbp-32]
     sub eax, dword ptr [rbp-40]
     mov dword ptr [rbp-32], eax
-/
def i32_sub : Template := ⟨[.mov (.reg .rax .d) (.slot 4 .d),
    .alu .sub (.reg .rax .d) (.slot 5 .d),
    .mov (.slot 4 .d) (.reg .rax .d)],
    4, 5⟩    -- code, x slot, y slot
/- i32.mul:
     mov  eax, dword ptr [rbp-32]
     imul eax, dword ptr [rbp-40]
     mov  dword ptr [rbp-32], eax
-/
def i32_mul : Template := ⟨[.mov (.reg .rax .d) (.slot 4 .d),
    .alu .imul (.reg .rax .d) (.slot 5 .d),
    .mov (.slot 4 .d) (.reg .rax .d)],
    4, 5⟩    -- code, x slot, y slot
/- i32.div_s:
     push rdx
     mov  eax, dword ptr [rbp-32]
     cdq  # edx = copysign(eax)
     idiv dword ptr [rbp-40]
     mov  dword ptr [rbp-32], eax
     pop  rdx
-/
def i32_div_s : Template := ⟨[.push .rdx,
    .mov (.reg .rax .d) (.slot 4 .d),
    .cdq,
    .idiv (.slot 5 .d),
    .mov (.slot 4 .d) (.reg .rax .d),
    .pop .rdx],
    4, 5⟩    -- code, x slot, y slot
/- i32.div_u:
     push rdx
     mov  eax, dword ptr [rbp-32]
     xor  edx, edx # 无符号高位清零
     div  dword ptr [rbp-40]
     mov  dword ptr [rbp-32], eax
     pop  rdx
-/
def i32_div_u : Template := ⟨[.push .rdx,
    .mov (.reg .rax .d) (.slot 4 .d),
    .alu .xor (.reg .rdx .d) (.reg .rdx .d),
    .div (.slot 5 .d),
    .mov (.slot 4 .d) (.reg .rax .d),
    .pop .rdx],
    4, 5⟩    -- code, x slot, y slot
/- i32.rem_s:
     push rdx
     mov  eax, dword ptr [rbp-32]
     cdq  # edx = copysign(eax)
     idiv dword ptr [rbp-40]
     mov  dword ptr [rbp-32], edx
     pop  rdx
-/
def i32_rem_s : Template := ⟨[.push .rdx,
    .mov (.reg .rax .d) (.slot 4 .d),
    .cdq,
    .idiv (.slot 5 .d),
    .mov (.slot 4 .d) (.reg .rdx .d),
    .pop .rdx],
    4, 5⟩    -- code, x slot, y slot
/- i32.rem_u:
     push rdx
     mov  eax, dword ptr [rbp-32]
     xor  edx, edx # 无符号高位清零
     div  dword ptr [rbp-40]
     mov  dword ptr [rbp-32], edx
     pop  rdx
-/
def i32_rem_u : Template := ⟨[.push .rdx,
    .mov (.reg .rax .d) (.slot 4 .d),
    .alu .xor (.reg .rdx .d) (.reg .rdx .d),
    .div (.slot 5 .d),
    .mov (.slot 4 .d) (.reg .rdx .d),
    .pop .rdx],
    4, 5⟩    -- code, x slot, y slot
/- i32.and:
     mov eax, dword ptr [rbp-32]
     and eax, dword ptr [rbp-40]
     mov dword ptr [rbp-32], eax
-/
def i32_and : Template := ⟨[.mov (.reg .rax .d) (.slot 4 .d),
    .alu .and (.reg .rax .d) (.slot 5 .d),
    .mov (.slot 4 .d) (.reg .rax .d)],
    4, 5⟩    -- code, x slot, y slot
/- i32.or:
     mov eax, dword ptr [rbp-32]
     or  eax, dword ptr [rbp-40]
     mov dword ptr [rbp-32], eax
-/
def i32_or : Template := ⟨[.mov (.reg .rax .d) (.slot 4 .d),
    .alu .or (.reg .rax .d) (.slot 5 .d),
    .mov (.slot 4 .d) (.reg .rax .d)],
    4, 5⟩    -- code, x slot, y slot
/- i32.xor:
     mov eax, dword ptr [rbp-32]
     xor eax, dword ptr [rbp-40]
     mov dword ptr [rbp-32], eax
-/
def i32_xor : Template := ⟨[.mov (.reg .rax .d) (.slot 4 .d),
    .alu .xor (.reg .rax .d) (.slot 5 .d),
    .mov (.slot 4 .d) (.reg .rax .d)],
    4, 5⟩    -- code, x slot, y slot
/- i32.shl:
     push rcx
     mov  eax, dword ptr [rbp-32]
     mov  ecx, dword ptr [rbp-40]
     shl  eax, cl # cl 是 ecx 低8位
     mov  dword ptr [rbp-32], eax
     pop  rcx
-/
def i32_shl : Template := ⟨[.push .rcx,
    .mov (.reg .rax .d) (.slot 4 .d),
    .mov (.reg .rcx .d) (.slot 5 .d),
    .sh .shl (.reg .rax .d),
    .mov (.slot 4 .d) (.reg .rax .d),
    .pop .rcx],
    4, 5⟩    -- code, x slot, y slot
/- i32.shr_s:
     push rcx
     mov  eax, dword ptr [rbp-32]
     mov  ecx, dword ptr [rbp-40]
     sar  eax, cl # cl 是 ecx 低8位
     mov  dword ptr [rbp-32], eax
     pop  rcx
-/
def i32_shr_s : Template := ⟨[.push .rcx,
    .mov (.reg .rax .d) (.slot 4 .d),
    .mov (.reg .rcx .d) (.slot 5 .d),
    .sh .sar (.reg .rax .d),
    .mov (.slot 4 .d) (.reg .rax .d),
    .pop .rcx],
    4, 5⟩    -- code, x slot, y slot
/- i32.shr_u:
     push rcx
     mov  eax, dword ptr [rbp-32]
     mov  ecx, dword ptr [rbp-40]
     shr  eax, cl # cl 是 ecx 低8位
     mov  dword ptr [rbp-32], eax
     pop  rcx
-/
def i32_shr_u : Template := ⟨[.push .rcx,
    .mov (.reg .rax .d) (.slot 4 .d),
    .mov (.reg .rcx .d) (.slot 5 .d),
    .sh .shr (.reg .rax .d),
    .mov (.slot 4 .d) (.reg .rax .d),
    .pop .rcx],
    4, 5⟩    -- code, x slot, y slot
/- i32.rotl:
     push rcx
     mov  eax, dword ptr [rbp-32]
     mov  ecx, dword ptr [rbp-40]
     rol  eax, cl # cl 是 ecx 低8位
     mov  dword ptr [rbp-32], eax
     pop  rcx
-/
def i32_rotl : Template := ⟨[.push .rcx,
    .mov (.reg .rax .d) (.slot 4 .d),
    .mov (.reg .rcx .d) (.slot 5 .d),
    .sh .rol (.reg .rax .d),
    .mov (.slot 4 .d) (.reg .rax .d),
    .pop .rcx],
    4, 5⟩    -- code, x slot, y slot
/- i32.rotr:
     push rcx
     mov  eax, dword ptr [rbp-32]
     mov  ecx, dword ptr [rbp-40]
     ror  eax, cl # cl 是 ecx 低8位
     mov  dword ptr [rbp-32], eax
     pop  rcx
-/
def i32_rotr : Template := ⟨[.push .rcx,
    .mov (.reg .rax .d) (.slot 4 .d),
    .mov (.reg .rcx .d) (.slot 5 .d),
    .sh .ror (.reg .rax .d),
    .mov (.slot 4 .d) (.reg .rax .d),
    .pop .rcx],
    4, 5⟩    -- code, x slot, y slot
/- i32.eq:
     mov   r10d, dword ptr [rbp-32]
     mov   r11d, dword ptr [rbp-40]
     cmp   r10d, r11d
     sete  al      # al = (r10d==r11d)? 1: 0
     movzx eax, al # eax = al
     mov   dword ptr [rbp-32], eax
-/
def i32_eq : Template := ⟨[.mov (.reg .r10 .d) (.slot 4 .d),
    .mov (.reg .r11 .d) (.slot 5 .d),
    .alu .cmp (.reg .r10 .d) (.reg .r11 .d),
    .set .e (.reg .rax .b),
    .movzx (.reg .rax .d) (.reg .rax .b),
    .mov (.slot 4 .d) (.reg .rax .d)],
    4, 5⟩    -- code, x slot, y slot
/- i32.ne:
     mov   r10d, dword ptr [rbp-32]
     mov   r11d, dword ptr [rbp-40]
     cmp   r10d, r11d
     setne al      # al = (r10d==r11d)? 1: 0
     movzx eax, al # eax = al
     mov   dword ptr [rbp-32], eax
-/
def i32_ne : Template := ⟨[.mov (.reg .r10 .d) (.slot 4 .d),
    .mov (.reg .r11 .d) (.slot 5 .d),
    .alu .cmp (.reg .r10 .d) (.reg .r11 .d),
    .set .ne (.reg .rax .b),
    .movzx (.reg .rax .d) (.reg .rax .b),
    .mov (.slot 4 .d) (.reg .rax .d)],
    4, 5⟩    -- code, x slot, y slot
/- i32.lt_s:
     mov   r10d, dword ptr [rbp-32]
     mov   r11d, dword ptr [rbp-40]
     cmp   r10d, r11d
     setl  al
     movzx eax, al
     mov   dword ptr [rbp-32], eax
-/
def i32_lt_s : Template := ⟨[.mov (.reg .r10 .d) (.slot 4 .d),
    .mov (.reg .r11 .d) (.slot 5 .d),
    .alu .cmp (.reg .r10 .d) (.reg .r11 .d),
    .set .l (.reg .rax .b),
    .movzx (.reg .rax .d) (.reg .rax .b),
    .mov (.slot 4 .d) (.reg .rax .d)],
    4, 5⟩    -- code, x slot, y slot
/- i32.lt_u:
     mov   r10d, dword ptr [rbp-32]
     mov   r11d, dword ptr [rbp-40]
     cmp   r10d, r11d
     setb  al
     movzx eax, al
     mov   dword ptr [rbp-32], eax
-/
def i32_lt_u : Template := ⟨[.mov (.reg .r10 .d) (.slot 4 .d),
    .mov (.reg .r11 .d) (.slot 5 .d),
    .alu .cmp (.reg .r10 .d) (.reg .r11 .d),
    .set .b (.reg .rax .b),
    .movzx (.reg .rax .d) (.reg .rax .b),
    .mov (.slot 4 .d) (.reg .rax .d)],
    4, 5⟩    -- code, x slot, y slot
/- i32.gt_s:
     mov   r10d, dword ptr [rbp-32]
     mov   r11d, dword ptr [rbp-40]
     cmp   r10d, r11d
     setg  al
     movzx eax, al
     mov   dword ptr [rbp-32], eax
-/
def i32_gt_s : Template := ⟨[.mov (.reg .r10 .d) (.slot 4 .d),
    .mov (.reg .r11 .d) (.slot 5 .d),
    .alu .cmp (.reg .r10 .d) (.reg .r11 .d),
    .set .g (.reg .rax .b),
    .movzx (.reg .rax .d) (.reg .rax .b),
    .mov (.slot 4 .d) (.reg .rax .d)],
    4, 5⟩    -- code, x slot, y slot
/- i32.gt_u:
     mov   r10d, dword ptr [rbp-32]
     mov   r11d, dword ptr [rbp-40]
     cmp   r10d, r11d
     seta  al
     movzx eax, al
     mov   dword ptr [rbp-32], eax
-/
def i32_gt_u : Template := ⟨[.mov (.reg .r10 .d) (.slot 4 .d),
    .mov (.reg .r11 .d) (.slot 5 .d),
    .alu .cmp (.reg .r10 .d) (.reg .r11 .d),
    .set .a (.reg .rax .b),
    .movzx (.reg .rax .d) (.reg .rax .b),
    .mov (.slot 4 .d) (.reg .rax .d)],
    4, 5⟩    -- code, x slot, y slot
/- i32.le_s:
     mov   r10d, dword ptr [rbp-32]
     mov   r11d, dword ptr [rbp-40]
     cmp   r10d, r11d
     setle al
     movzx eax, al
     mov   dword ptr [rbp-32], eax
-/
def i32_le_s : Template := ⟨[.mov (.reg .r10 .d) (.slot 4 .d),
    .mov (.reg .r11 .d) (.slot 5 .d),
    .alu .cmp (.reg .r10 .d) (.reg .r11 .d),
    .set .le (.reg .rax .b),
    .movzx (.reg .rax .d) (.reg .rax .b),
    .mov (.slot 4 .d) (.reg .rax .d)],
    4, 5⟩    -- code, x slot, y slot
/- i32.le_u:
     mov   r10d, dword ptr [rbp-32]
     mov   r11d, dword ptr [rbp-40]
     cmp   r10d, r11d
     setbe al
     movzx eax, al
     mov   dword ptr [rbp-32], eax
-/
def i32_le_u : Template := ⟨[.mov (.reg .r10 .d) (.slot 4 .d),
    .mov (.reg .r11 .d) (.slot 5 .d),
    .alu .cmp (.reg .r10 .d) (.reg .r11 .d),
    .set .be (.reg .rax .b),
    .movzx (.reg .rax .d) (.reg .rax .b),
    .mov (.slot 4 .d) (.reg .rax .d)],
    4, 5⟩    -- code, x slot, y slot
/- i32.ge_s:
     mov   r10d, dword ptr [rbp-32]
     mov   r11d, dword ptr [rbp-40]
     cmp   r10d, r11d
     setge al
     movzx eax, al
     mov   dword ptr [rbp-32], eax
-/
def i32_ge_s : Template := ⟨[.mov (.reg .r10 .d) (.slot 4 .d),
    .mov (.reg .r11 .d) (.slot 5 .d),
    .alu .cmp (.reg .r10 .d) (.reg .r11 .d),
    .set .ge (.reg .rax .b),
    .movzx (.reg .rax .d) (.reg .rax .b),
    .mov (.slot 4 .d) (.reg .rax .d)],
    4, 5⟩    -- code, x slot, y slot
/- i32.ge_u:
     mov   r10d, dword ptr [rbp-32]
     mov   r11d, dword ptr [rbp-40]
     cmp   r10d, r11d
     setae al
     movzx eax, al
     mov   dword ptr [rbp-32], eax
-/
def i32_ge_u : Template := ⟨[.mov (.reg .r10 .d) (.slot 4 .d),
    .mov (.reg .r11 .d) (.slot 5 .d),
    .alu .cmp (.reg .r10 .d) (.reg .r11 .d),
    .set .ae (.reg .rax .b),
    .movzx (.reg .rax .d) (.reg .rax .b),
    .mov (.slot 4 .d) (.reg .rax .d)],
    4, 5⟩    -- code, x slot, y slot
/- i32.eqz:
     mov   eax, dword ptr [rbp-24]
     cmp   eax, 0  # (eax==0)?
     sete  al      # al = (eax==0)? 1: 0
     movzx eax, al # eax = al
     mov   dword ptr [rbp-24], eax
-/
def i32_eqz : Template := ⟨[.mov (.reg .rax .d) (.slot 3 .d),
    .alu .cmp (.reg .rax .d) (.imm (0)),
    .set .e (.reg .rax .b),
    .movzx (.reg .rax .d) (.reg .rax .b),
    .mov (.slot 3 .d) (.reg .rax .d)],
    3, 0⟩    -- code, x slot, y slot
/- i32.clz:
     mov   eax, dword ptr [rbp-24]
     lzcnt eax, eax
     mov   dword ptr [rbp-24], eax
-/
def i32_clz : Template := ⟨[.mov (.reg .rax .d) (.slot 3 .d),
    .lzcnt (.reg .rax .d) (.reg .rax .d),
    .mov (.slot 3 .d) (.reg .rax .d)],
    3, 0⟩    -- code, x slot, y slot
/- i32.ctz:
     mov   eax, dword ptr [rbp-24]
     tzcnt eax, eax
     mov   dword ptr [rbp-24], eax
-/
def i32_ctz : Template := ⟨[.mov (.reg .rax .d) (.slot 3 .d),
    .tzcnt (.reg .rax .d) (.reg .rax .d),
    .mov (.slot 3 .d) (.reg .rax .d)],
    3, 0⟩    -- code, x slot, y slot
/- i32.popcnt:
     mov    eax, dword ptr [rbp-24]
     popcnt eax, eax
     mov    dword ptr [rbp-24], eax
-/
def i32_popcnt : Template := ⟨[.mov (.reg .rax .d) (.slot 3 .d),
    .popcnt (.reg .rax .d) (.reg .rax .d),
    .mov (.slot 3 .d) (.reg .rax .d)],
    3, 0⟩    -- code, x slot, y slot
/- i64.add:
     mov rax, qword ptr [rbp-32]
     add rax, qword ptr [rbp-40]
     mov qword ptr [rbp-32], rax
-/
def i64_add : Template := ⟨[.mov (.reg .rax .q) (.slot 4 .q),
    .alu .add (.reg .rax .q) (.slot 5 .q),
    .mov (.slot 4 .q) (.reg .rax .q)],
    4, 5⟩    -- code, x slot, y slot
/- i64.sub:
     mov rax, qword ptr [rbp-32]
     sub rax, qword ptr [rbp-40]
     mov qword ptr [rbp-32], rax
-/
def i64_sub : Template := ⟨[.mov (.reg .rax .q) (.slot 4 .q),
    .alu .sub (.reg .rax .q) (.slot 5 .q),
    .mov (.slot 4 .q) (.reg .rax .q)],
    4, 5⟩    -- code, x slot, y slot
/- i64.mul:
     mov  rax, qword ptr [rbp-32]
     imul rax, qword ptr [rbp-40]
     mov  qword ptr [rbp-32], rax
-/
def i64_mul : Template := ⟨[.mov (.reg .rax .q) (.slot 4 .q),
    .alu .imul (.reg .rax .q) (.slot 5 .q),
    .mov (.slot 4 .q) (.reg .rax .q)],
    4, 5⟩    -- code, x slot, y slot
/- i64.div_s:
     push rdx
     mov  rax, qword ptr [rbp-32]
     cqo  # rdx = copysign(rax)
     idiv qword ptr [rbp-40]
     mov  qword ptr [rbp-32], rax
     pop rdx
-/
def i64_div_s : Template := ⟨[.push .rdx,
    .mov (.reg .rax .q) (.slot 4 .q),
    .cqo,
    .idiv (.slot 5 .q),
    .mov (.slot 4 .q) (.reg .rax .q),
    .pop .rdx],
    4, 5⟩    -- code, x slot, y slot
/- i64.div_u:
     push rdx
     mov  rax, qword ptr [rbp-32]
     xor  rdx, rdx # 无符号高位清零
     div  qword ptr [rbp-40]
     mov  qword ptr [rbp-32], rax
     pop  rdx
-/
def i64_div_u : Template := ⟨[.push .rdx,
    .mov (.reg .rax .q) (.slot 4 .q),
    .alu .xor (.reg .rdx .q) (.reg .rdx .q),
    .div (.slot 5 .q),
    .mov (.slot 4 .q) (.reg .rax .q),
    .pop .rdx],
    4, 5⟩    -- code, x slot, y slot
/- i64.rem_s:
     push rdx
     mov  rax, qword ptr [rbp-32]
     cqo  # rdx = copysign(rax)
     idiv qword ptr [rbp-40]
     mov  qword ptr [rbp-32], rdx
     pop  rdx
-/
def i64_rem_s : Template := ⟨[.push .rdx,
    .mov (.reg .rax .q) (.slot 4 .q),
    .cqo,
    .idiv (.slot 5 .q),
    .mov (.slot 4 .q) (.reg .rdx .q),
    .pop .rdx],
    4, 5⟩    -- code, x slot, y slot
/- i64.rem_u:
     push rdx
     mov  rax, qword ptr [rbp-32]
     xor  rdx, rdx # 无符号高位清零
     div  qword ptr [rbp-40]
     mov  qword ptr [rbp-32], rdx
     pop  rdx
-/
def i64_rem_u : Template := ⟨[.push .rdx,
    .mov (.reg .rax .q) (.slot 4 .q),
    .alu .xor (.reg .rdx .q) (.reg .rdx .q),
    .div (.slot 5 .q),
    .mov (.slot 4 .q) (.reg .rdx .q),
    .pop .rdx],
    4, 5⟩    -- code, x slot, y slot
/- i64.and:
     mov rax, qword ptr [rbp-32]
     and rax, qword ptr [rbp-40]
     mov qword ptr [rbp-32], rax
-/
def i64_and : Template := ⟨[.mov (.reg .rax .q) (.slot 4 .q),
    .alu .and (.reg .rax .q) (.slot 5 .q),
    .mov (.slot 4 .q) (.reg .rax .q)],
    4, 5⟩    -- code, x slot, y slot
/- i64.or:
     mov rax, qword ptr [rbp-32]
     or  rax, qword ptr [rbp-40]
     mov qword ptr [rbp-32], rax
-/
def i64_or : Template := ⟨[.mov (.reg .rax .q) (.slot 4 .q),
    .alu .or (.reg .rax .q) (.slot 5 .q),
    .mov (.slot 4 .q) (.reg .rax .q)],
    4, 5⟩    -- code, x slot, y slot
/- i64.xor:
     mov rax, qword ptr [rbp-32]
     xor rax, qword ptr [rbp-40]
     mov qword ptr [rbp-32], rax
-/
def i64_xor : Template := ⟨[.mov (.reg .rax .q) (.slot 4 .q),
    .alu .xor (.reg .rax .q) (.slot 5 .q),
    .mov (.slot 4 .q) (.reg .rax .q)],
    4, 5⟩    -- code, x slot, y slot
/- i64.shl:
     push rcx
     mov  rax, qword ptr [rbp-32]
     mov  rcx, qword ptr [rbp-40]
     shl  rax, cl # cl 是 rcx 低8位
     mov  qword ptr [rbp-32], rax
     pop  rcx
-/
def i64_shl : Template := ⟨[.push .rcx,
    .mov (.reg .rax .q) (.slot 4 .q),
    .mov (.reg .rcx .q) (.slot 5 .q),
    .sh .shl (.reg .rax .q),
    .mov (.slot 4 .q) (.reg .rax .q),
    .pop .rcx],
    4, 5⟩    -- code, x slot, y slot
/- i64.shr_s:
     push rcx
     mov  rax, qword ptr [rbp-32]
     mov  rcx, qword ptr [rbp-40]
     sar  rax, cl # cl 是 rcx 低8位
     mov  qword ptr [rbp-32], rax
     pop  rcx
-/
def i64_shr_s : Template := ⟨[.push .rcx,
    .mov (.reg .rax .q) (.slot 4 .q),
    .mov (.reg .rcx .q) (.slot 5 .q),
    .sh .sar (.reg .rax .q),
    .mov (.slot 4 .q) (.reg .rax .q),
    .pop .rcx],
    4, 5⟩    -- code, x slot, y slot
/- i64.shr_u:
     push rcx
     mov  rax, qword ptr [rbp-32]
     mov  rcx, qword ptr [rbp-40]
     shr  rax, cl # cl 是 rcx 低8位
     mov  qword ptr [rbp-32], rax
     pop  rcx
-/
def i64_shr_u : Template := ⟨[.push .rcx,
    .mov (.reg .rax .q) (.slot 4 .q),
    .mov (.reg .rcx .q) (.slot 5 .q),
    .sh .shr (.reg .rax .q),
    .mov (.slot 4 .q) (.reg .rax .q),
    .pop .rcx],
    4, 5⟩    -- code, x slot, y slot
/- i64.rotl:
     push rcx
     mov  rax, qword ptr [rbp-32]
     mov  rcx, qword ptr [rbp-40]
     rol  rax, cl # cl 是 rcx 低8位
     mov  qword ptr [rbp-32], rax
     pop  rcx
-/
def i64_rotl : Template := ⟨[.push .rcx,
    .mov (.reg .rax .q) (.slot 4 .q),
    .mov (.reg .rcx .q) (.slot 5 .q),
    .sh .rol (.reg .rax .q),
    .mov (.slot 4 .q) (.reg .rax .q),
    .pop .rcx],
    4, 5⟩    -- code, x slot, y slot
/- i64.rotr:
     push rcx
     mov  rax, qword ptr [rbp-32]
     mov  rcx, qword ptr [rbp-40]
     ror  rax, cl # cl 是 rcx 低8位
     mov  qword ptr [rbp-32], rax
     pop  rcx
-/
def i64_rotr : Template := ⟨[.push .rcx,
    .mov (.reg .rax .q) (.slot 4 .q),
    .mov (.reg .rcx .q) (.slot 5 .q),
    .sh .ror (.reg .rax .q),
    .mov (.slot 4 .q) (.reg .rax .q),
    .pop .rcx],
    4, 5⟩    -- code, x slot, y slot
/- i64.eq:
     mov   r10, qword ptr [rbp-32]
     mov   r11, qword ptr [rbp-40]
     cmp   r10, r11
     sete  al
     movzx eax, al
     mov   dword ptr [rbp-32], eax
-/
def i64_eq : Template := ⟨[.mov (.reg .r10 .q) (.slot 4 .q),
    .mov (.reg .r11 .q) (.slot 5 .q),
    .alu .cmp (.reg .r10 .q) (.reg .r11 .q),
    .set .e (.reg .rax .b),
    .movzx (.reg .rax .d) (.reg .rax .b),
    .mov (.slot 4 .d) (.reg .rax .d)],
    4, 5⟩    -- code, x slot, y slot
/- i64.ne:
     mov   r10, qword ptr [rbp-32]
     mov   r11, qword ptr [rbp-40]
     cmp   r10, r11
     setne al
     movzx eax, al
     mov   dword ptr [rbp-32], eax
-/
def i64_ne : Template := ⟨[.mov (.reg .r10 .q) (.slot 4 .q),
    .mov (.reg .r11 .q) (.slot 5 .q),
    .alu .cmp (.reg .r10 .q) (.reg .r11 .q),
    .set .ne (.reg .rax .b),
    .movzx (.reg .rax .d) (.reg .rax .b),
    .mov (.slot 4 .d) (.reg .rax .d)],
    4, 5⟩    -- code, x slot, y slot
/- i64.lt_s:
     mov   r10, qword ptr [rbp-32]
     mov   r11, qword ptr [rbp-40]
     cmp   r10, r11
     setl  al
     movzx eax, al
     mov   dword ptr [rbp-32], eax
-/
def i64_lt_s : Template := ⟨[.mov (.reg .r10 .q) (.slot 4 .q),
    .mov (.reg .r11 .q) (.slot 5 .q),
    .alu .cmp (.reg .r10 .q) (.reg .r11 .q),
    .set .l (.reg .rax .b),
    .movzx (.reg .rax .d) (.reg .rax .b),
    .mov (.slot 4 .d) (.reg .rax .d)],
    4, 5⟩    -- code, x slot, y slot
/- i64.lt_u:
     mov   r10, qword ptr [rbp-32]
     mov   r11, qword ptr [rbp-40]
     cmp   r10, r11
     setb  al
     movzx eax, al
     mov   dword ptr [rbp-32], eax
-/
def i64_lt_u : Template := ⟨[.mov (.reg .r10 .q) (.slot 4 .q),
    .mov (.reg .r11 .q) (.slot 5 .q),
    .alu .cmp (.reg .r10 .q) (.reg .r11 .q),
    .set .b (.reg .rax .b),
    .movzx (.reg .rax .d) (.reg .rax .b),
    .mov (.slot 4 .d) (.reg .rax .d)],
    4, 5⟩    -- code, x slot, y slot
/- i64.gt_s:
     mov   r10, qword ptr [rbp-32]
     mov   r11, qword ptr [rbp-40]
     cmp   r10, r11
     setg  al
     movzx eax, al
     mov   dword ptr [rbp-32], eax
-/
def i64_gt_s : Template := ⟨[.mov (.reg .r10 .q) (.slot 4 .q),
    .mov (.reg .r11 .q) (.slot 5 .q),
    .alu .cmp (.reg .r10 .q) (.reg .r11 .q),
    .set .g (.reg .rax .b),
    .movzx (.reg .rax .d) (.reg .rax .b),
    .mov (.slot 4 .d) (.reg .rax .d)],
    4, 5⟩    -- code, x slot, y slot
/- i64.gt_u:
     mov   r10, qword ptr [rbp-32]
     mov   r11, qword ptr [rbp-40]
     cmp   r10, r11
     seta  al
     movzx eax, al
     mov   dword ptr [rbp-32], eax
-/
def i64_gt_u : Template := ⟨[.mov (.reg .r10 .q) (.slot 4 .q),
    .mov (.reg .r11 .q) (.slot 5 .q),
    .alu .cmp (.reg .r10 .q) (.reg .r11 .q),
    .set .a (.reg .rax .b),
    .movzx (.reg .rax .d) (.reg .rax .b),
    .mov (.slot 4 .d) (.reg .rax .d)],
    4, 5⟩    -- code, x slot, y slot
/- i64.le_s:
     mov   r10, qword ptr [rbp-32]
     mov   r11, qword ptr [rbp-40]
     cmp   r10, r11
     setle al
     movzx eax, al
     mov   dword ptr [rbp-32], eax
-/
def i64_le_s : Template := ⟨[.mov (.reg .r10 .q) (.slot 4 .q),
    .mov (.reg .r11 .q) (.slot 5 .q),
    .alu .cmp (.reg .r10 .q) (.reg .r11 .q),
    .set .le (.reg .rax .b),
    .movzx (.reg .rax .d) (.reg .rax .b),
    .mov (.slot 4 .d) (.reg .rax .d)],
    4, 5⟩    -- code, x slot, y slot
/- i64.le_u:
     mov   r10, qword ptr [rbp-32]
     mov   r11, qword ptr [rbp-40]
     cmp   r10, r11
     setbe al
     movzx eax, al
     mov   dword ptr [rbp-32], eax
-/
def i64_le_u : Template := ⟨[.mov (.reg .r10 .q) (.slot 4 .q),
    .mov (.reg .r11 .q) (.slot 5 .q),
    .alu .cmp (.reg .r10 .q) (.reg .r11 .q),
    .set .be (.reg .rax .b),
    .movzx (.reg .rax .d) (.reg .rax .b),
    .mov (.slot 4 .d) (.reg .rax .d)],
    4, 5⟩    -- code, x slot, y slot
/- i64.ge_s:
     mov   r10, qword ptr [rbp-32]
     mov   r11, qword ptr [rbp-40]
     cmp   r10, r11
     setge al
     movzx eax, al
     mov   dword ptr [rbp-32], eax
-/
def i64_ge_s : Template := ⟨[.mov (.reg .r10 .q) (.slot 4 .q),
    .mov (.reg .r11 .q) (.slot 5 .q),
    .alu .cmp (.reg .r10 .q) (.reg .r11 .q),
    .set .ge (.reg .rax .b),
    .movzx (.reg .rax .d) (.reg .rax .b),
    .mov (.slot 4 .d) (.reg .rax .d)],
    4, 5⟩    -- code, x slot, y slot
/- i64.ge_u:
     mov   r10, qword ptr [rbp-32]
     mov   r11, qword ptr [rbp-40]
     cmp   r10, r11
     setae al
     movzx eax, al
     mov   dword ptr [rbp-32], eax
-/
def i64_ge_u : Template := ⟨[.mov (.reg .r10 .q) (.slot 4 .q),
    .mov (.reg .r11 .q) (.slot 5 .q),
    .alu .cmp (.reg .r10 .q) (.reg .r11 .q),
    .set .ae (.reg .rax .b),
    .movzx (.reg .rax .d) (.reg .rax .b),
    .mov (.slot 4 .d) (.reg .rax .d)],
    4, 5⟩    -- code, x slot, y slot
/- i64.eqz:
     mov   rax, qword ptr [rbp-24]
     cmp   rax, 0  # (rax==0)?
     sete  al      # al = (rax==0)? 1: 0
     movzx eax, al # eax = al
     mov   dword ptr [rbp-24], eax
-/
def i64_eqz : Template := ⟨[.mov (.reg .rax .q) (.slot 3 .q),
    .alu .cmp (.reg .rax .q) (.imm (0)),
    .set .e (.reg .rax .b),
    .movzx (.reg .rax .d) (.reg .rax .b),
    .mov (.slot 3 .d) (.reg .rax .d)],
    3, 0⟩    -- code, x slot, y slot
/- i64.clz:
     mov   rax, qword ptr [rbp-24]
     lzcnt rax, rax
     mov   qword ptr [rbp-24], rax
-/
def i64_clz : Template := ⟨[.mov (.reg .rax .q) (.slot 3 .q),
    .lzcnt (.reg .rax .q) (.reg .rax .q),
    .mov (.slot 3 .q) (.reg .rax .q)],
    3, 0⟩    -- code, x slot, y slot
/- i64.ctz:
     mov   rax, qword ptr [rbp-24]
     tzcnt rax, rax
     mov   qword ptr [rbp-24], rax
-/
def i64_ctz : Template := ⟨[.mov (.reg .rax .q) (.slot 3 .q),
    .tzcnt (.reg .rax .q) (.reg .rax .q),
    .mov (.slot 3 .q) (.reg .rax .q)],
    3, 0⟩    -- code, x slot, y slot
/- i64.popcnt:
     mov    rax, qword ptr [rbp-24]
     popcnt rax, rax
     mov    qword ptr [rbp-24], rax
-/
def i64_popcnt : Template := ⟨[.mov (.reg .rax .q) (.slot 3 .q),
    .popcnt (.reg .rax .q) (.reg .rax .q),
    .mov (.slot 3 .q) (.reg .rax .q)],
    3, 0⟩    -- code, x slot, y slot
/- i32.wrap_i64:
     mov rax, qword ptr [rbp-24]
     mov dword ptr [rbp-24], eax
-/
def i32_wrap_i64 : Template := ⟨[.mov (.reg .rax .q) (.slot 3 .q),
    .mov (.slot 3 .d) (.reg .rax .d)],
    3, 0⟩    -- code, x slot, y slot
/- i64.extend_i32_s:
     movsxd rax, dword ptr [rbp-24]
     mov    qword ptr [rbp-24], rax
-/
def i64_extend_i32_s : Template := ⟨[.movsx (.reg .rax .q) (.slot 3 .d),
    .mov (.slot 3 .q) (.reg .rax .q)],
    3, 0⟩    -- code, x slot, y slot
/- i64.extend_i32_u:
     mov eax, dword ptr [rbp-24]
     mov qword ptr [rbp-24], rax
-/
def i64_extend_i32_u : Template := ⟨[.mov (.reg .rax .d) (.slot 3 .d),
    .mov (.slot 3 .q) (.reg .rax .q)],
    3, 0⟩    -- code, x slot, y slot
/- select:
     mov  eax, dword ptr [rbp-56]
     test eax, eax
     mov    r10d, dword ptr [rbp-48]
     mov    r11d, dword ptr [rbp-40]
     cmovne r10d, r11d
     mov    dword ptr [rbp-40], r10d
-/
def select_i32 : Template := ⟨[.mov (.reg .rax .d) (.slot 7 .d),
    .alu .test (.reg .rax .d) (.reg .rax .d),
    .mov (.reg .r10 .d) (.slot 6 .d),
    .mov (.reg .r11 .d) (.slot 5 .d),
    .cmovne (.reg .r10 .d) (.reg .r11 .d),
    .mov (.slot 5 .d) (.reg .r10 .d)],
    5, 6⟩    -- code, x slot, y slot
def select_i32_c : Nat := 7
/- select:
     mov  eax, dword ptr [rbp-56]
     test eax, eax
     mov    r10, qword ptr [rbp-48]
     mov    r11, qword ptr [rbp-40]
     cmovne r10, r11
     mov    qword ptr [rbp-40], r10
-/
def select_i64 : Template := ⟨[.mov (.reg .rax .d) (.slot 7 .d),
    .alu .test (.reg .rax .d) (.reg .rax .d),
    .mov (.reg .r10 .q) (.slot 6 .q),
    .mov (.reg .r11 .q) (.slot 5 .q),
    .cmovne (.reg .r10 .q) (.reg .r11 .q),
    .mov (.slot 5 .q) (.reg .r10 .q)],
    5, 6⟩    -- code, x slot, y slot
def select_i64_c : Nat := 7

def table : List (String × Template) := [("i32_add", i32_add), ("i32_sub", i32_sub), ("i32_mul", i32_mul), ("i32_div_s", i32_div_s), ("i32_div_u", i32_div_u), ("i32_rem_s", i32_rem_s), ("i32_rem_u", i32_rem_u), ("i32_and", i32_and), ("i32_or", i32_or), ("i32_xor", i32_xor), ("i32_shl", i32_shl), ("i32_shr_s", i32_shr_s), ("i32_shr_u", i32_shr_u), ("i32_rotl", i32_rotl), ("i32_rotr", i32_rotr), ("i32_eq", i32_eq), ("i32_ne", i32_ne), ("i32_lt_s", i32_lt_s), ("i32_lt_u", i32_lt_u), ("i32_gt_s", i32_gt_s), ("i32_gt_u", i32_gt_u), ("i32_le_s", i32_le_s), ("i32_le_u", i32_le_u), ("i32_ge_s", i32_ge_s), ("i32_ge_u", i32_ge_u), ("i32_eqz", i32_eqz), ("i32_clz", i32_clz), ("i32_ctz", i32_ctz), ("i32_popcnt", i32_popcnt), ("i64_add", i64_add), ("i64_sub", i64_sub), ("i64_mul", i64_mul), ("i64_div_s", i64_div_s), ("i64_div_u", i64_div_u), ("i64_rem_s", i64_rem_s), ("i64_rem_u", i64_rem_u), ("i64_and", i64_and), ("i64_or", i64_or), ("i64_xor", i64_xor), ("i64_shl", i64_shl), ("i64_shr_s", i64_shr_s), ("i64_shr_u", i64_shr_u), ("i64_rotl", i64_rotl), ("i64_rotr", i64_rotr), ("i64_eq", i64_eq), ("i64_ne", i64_ne), ("i64_lt_s", i64_lt_s), ("i64_lt_u", i64_lt_u), ("i64_gt_s", i64_gt_s), ("i64_gt_u", i64_gt_u), ("i64_le_s", i64_le_s), ("i64_le_u", i64_le_u), ("i64_ge_s", i64_ge_s), ("i64_ge_u", i64_ge_u), ("i64_eqz", i64_eqz), ("i64_clz", i64_clz), ("i64_ctz", i64_ctz), ("i64_popcnt", i64_popcnt), ("i32_wrap_i64", i32_wrap_i64), ("i64_extend_i32_s", i64_extend_i32_s), ("i64_extend_i32_u", i64_extend_i32_u), ("select_i32", select_i32), ("select_i64", select_i64)]
def condSlots : List (String × Nat) := [("select_i32", select_i32_c), ("select_i64", select_i64_c)]
end WaVerif.Gen.C02
