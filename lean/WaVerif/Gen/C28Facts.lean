import WaVerif.Model.C28
/-! GENERATED placeholder -/
namespace WaVerif.C28
def compileLocked : Bool := false
def globals : List GlobalVar := []
def claimGlobalsAccounted : Bool := true
end WaVerif.C28
