import WaVerif.Model.C03CExpr
/-! REGENERATED on every run by extract/c03_templates.py from the C that the real wat2c (watutil.Wat2C) emits
    for one exported function per instruction (helper macros expanded by gcc -E). Do not edit. -/
namespace WaVerif.Gen.C03
open WaVerif.C03

/-- `i32.add`  ⇒  R0.i32 = arg0; R1.i32 = arg1; R0.i32 = (int32_t)((uint32_t)R0.i32 + (uint32_t)R1.i32); return R0.i32; -/
def f_i32_add : CFunc := { params := [.i32, .i32], body := [
    .assign (.reg 0 .i32) (.arg 0 .i32),
    .assign (.reg 1 .i32) (.arg 1 .i32),
    .assign (.reg 0 .i32) (.cast .i32 (.bin .add (.cast .u32 (.reg 0 .i32)) (.cast .u32 (.reg 1 .i32)))),
    .ret (.reg 0 .i32)] }
/-- `i32.sub`  ⇒  R0.i32 = arg0; R1.i32 = arg1; R0.i32 = (int32_t)((uint32_t)R0.i32 - (uint32_t)R1.i32); return R0.i32; -/
def f_i32_sub : CFunc := { params := [.i32, .i32], body := [
    .assign (.reg 0 .i32) (.arg 0 .i32),
    .assign (.reg 1 .i32) (.arg 1 .i32),
    .assign (.reg 0 .i32) (.cast .i32 (.bin .sub (.cast .u32 (.reg 0 .i32)) (.cast .u32 (.reg 1 .i32)))),
    .ret (.reg 0 .i32)] }
/-- `i32.mul`  ⇒  R0.i32 = arg0; R1.i32 = arg1; R0.i32 = (int32_t)((uint32_t)R0.i32 * (uint32_t)R1.i32); return R0.i32; -/
def f_i32_mul : CFunc := { params := [.i32, .i32], body := [
    .assign (.reg 0 .i32) (.arg 0 .i32),
    .assign (.reg 1 .i32) (.arg 1 .i32),
    .assign (.reg 0 .i32) (.cast .i32 (.bin .mul (.cast .u32 (.reg 0 .i32)) (.cast .u32 (.reg 1 .i32)))),
    .ret (.reg 0 .i32)] }
/-- `i32.div_s`  ⇒  R0.i32 = arg0; R1.i32 = arg1; if(R1.i32 == 0 || (R0.i32 == (-2147483647-1) && R1.i32 == -1)) abort(); R0.i32 = R0.i32 / R1.i32; return R0.i32; -/
def f_i32_div_s : CFunc := { params := [.i32, .i32], body := [
    .assign (.reg 0 .i32) (.arg 0 .i32),
    .assign (.reg 1 .i32) (.arg 1 .i32),
    .ifThen (.lor (.bin .eq (.reg 1 .i32) (.lit 0)) (.land (.bin .eq (.reg 0 .i32) (.bin .sub (.un .neg (.lit 2147483647)) (.lit 1))) (.bin .eq (.reg 1 .i32) (.un .neg (.lit 1))))) [.abort],
    .assign (.reg 0 .i32) (.bin .div (.reg 0 .i32) (.reg 1 .i32)),
    .ret (.reg 0 .i32)] }
/-- `i32.div_u`  ⇒  R0.i32 = arg0; R1.i32 = arg1; if(R1.i32 == 0) abort(); R0.i32 = (int32_t)((uint32_t)(R0.i32)/(uint32_t)(R1.i32)); return R0.i32; -/
def f_i32_div_u : CFunc := { params := [.i32, .i32], body := [
    .assign (.reg 0 .i32) (.arg 0 .i32),
    .assign (.reg 1 .i32) (.arg 1 .i32),
    .ifThen (.bin .eq (.reg 1 .i32) (.lit 0)) [.abort],
    .assign (.reg 0 .i32) (.cast .i32 (.bin .div (.cast .u32 (.reg 0 .i32)) (.cast .u32 (.reg 1 .i32)))),
    .ret (.reg 0 .i32)] }
/-- `i32.rem_s`  ⇒  R0.i32 = arg0; R1.i32 = arg1; if(R1.i32 == 0) abort(); R0.i32 = (R1.i32 == -1)? 0: R0.i32 % R1.i32; return R0.i32; -/
def f_i32_rem_s : CFunc := { params := [.i32, .i32], body := [
    .assign (.reg 0 .i32) (.arg 0 .i32),
    .assign (.reg 1 .i32) (.arg 1 .i32),
    .ifThen (.bin .eq (.reg 1 .i32) (.lit 0)) [.abort],
    .assign (.reg 0 .i32) (.cond (.bin .eq (.reg 1 .i32) (.un .neg (.lit 1))) (.lit 0) (.bin .rem (.reg 0 .i32) (.reg 1 .i32))),
    .ret (.reg 0 .i32)] }
/-- `i32.rem_u`  ⇒  R0.i32 = arg0; R1.i32 = arg1; if(R1.i32 == 0) abort(); R0.i32 = (int32_t)((uint32_t)(R0.i32)%(uint32_t)(R1.i32)); return R0.i32; -/
def f_i32_rem_u : CFunc := { params := [.i32, .i32], body := [
    .assign (.reg 0 .i32) (.arg 0 .i32),
    .assign (.reg 1 .i32) (.arg 1 .i32),
    .ifThen (.bin .eq (.reg 1 .i32) (.lit 0)) [.abort],
    .assign (.reg 0 .i32) (.cast .i32 (.bin .rem (.cast .u32 (.reg 0 .i32)) (.cast .u32 (.reg 1 .i32)))),
    .ret (.reg 0 .i32)] }
/-- `i32.and`  ⇒  R0.i32 = arg0; R1.i32 = arg1; R0.i32 = R0.i32 & R1.i32; return R0.i32; -/
def f_i32_and : CFunc := { params := [.i32, .i32], body := [
    .assign (.reg 0 .i32) (.arg 0 .i32),
    .assign (.reg 1 .i32) (.arg 1 .i32),
    .assign (.reg 0 .i32) (.bin .band (.reg 0 .i32) (.reg 1 .i32)),
    .ret (.reg 0 .i32)] }
/-- `i32.or`  ⇒  R0.i32 = arg0; R1.i32 = arg1; R0.i32 = R0.i32 | R1.i32; return R0.i32; -/
def f_i32_or : CFunc := { params := [.i32, .i32], body := [
    .assign (.reg 0 .i32) (.arg 0 .i32),
    .assign (.reg 1 .i32) (.arg 1 .i32),
    .assign (.reg 0 .i32) (.bin .bor (.reg 0 .i32) (.reg 1 .i32)),
    .ret (.reg 0 .i32)] }
/-- `i32.xor`  ⇒  R0.i32 = arg0; R1.i32 = arg1; R0.i32 = R0.i32 ^ R1.i32; return R0.i32; -/
def f_i32_xor : CFunc := { params := [.i32, .i32], body := [
    .assign (.reg 0 .i32) (.arg 0 .i32),
    .assign (.reg 1 .i32) (.arg 1 .i32),
    .assign (.reg 0 .i32) (.bin .bxor (.reg 0 .i32) (.reg 1 .i32)),
    .ret (.reg 0 .i32)] }
/-- `i32.shl`  ⇒  R0.i32 = arg0; R1.i32 = arg1; R0.i32 = (int32_t)((uint32_t)R0.i32 << (R1.i32&31)); return R0.i32; -/
def f_i32_shl : CFunc := { params := [.i32, .i32], body := [
    .assign (.reg 0 .i32) (.arg 0 .i32),
    .assign (.reg 1 .i32) (.arg 1 .i32),
    .assign (.reg 0 .i32) (.cast .i32 (.bin .shl (.cast .u32 (.reg 0 .i32)) (.bin .band (.reg 1 .i32) (.lit 31)))),
    .ret (.reg 0 .i32)] }
/-- `i32.shr_s`  ⇒  R0.i32 = arg0; R1.i32 = arg1; R0.i32 = R0.i32 >> (R1.i32&31); return R0.i32; -/
def f_i32_shr_s : CFunc := { params := [.i32, .i32], body := [
    .assign (.reg 0 .i32) (.arg 0 .i32),
    .assign (.reg 1 .i32) (.arg 1 .i32),
    .assign (.reg 0 .i32) (.bin .shr (.reg 0 .i32) (.bin .band (.reg 1 .i32) (.lit 31))),
    .ret (.reg 0 .i32)] }
/-- `i32.shr_u`  ⇒  R0.i32 = arg0; R1.i32 = arg1; R0.i32 = (int32_t)((uint32_t)(R0.i32)>>(uint32_t)(R1.i32&31)); return R0.i32; -/
def f_i32_shr_u : CFunc := { params := [.i32, .i32], body := [
    .assign (.reg 0 .i32) (.arg 0 .i32),
    .assign (.reg 1 .i32) (.arg 1 .i32),
    .assign (.reg 0 .i32) (.cast .i32 (.bin .shr (.cast .u32 (.reg 0 .i32)) (.cast .u32 (.bin .band (.reg 1 .i32) (.lit 31))))),
    .ret (.reg 0 .i32)] }
/-- `i32.rotl`  ⇒  R0.i32 = arg0; R1.i32 = arg1; R0.i32 = (int32_t)((((uint32_t)R0.i32) << (((uint32_t)R1.i32) & (31))) | (((uint32_t)R0.i32) >> (((31) - ((uint32_t)R1.i32) + 1) & (31)))); return R0.i32; -/
def f_i32_rotl : CFunc := { params := [.i32, .i32], body := [
    .assign (.reg 0 .i32) (.arg 0 .i32),
    .assign (.reg 1 .i32) (.arg 1 .i32),
    .assign (.reg 0 .i32) (.cast .i32 (.bin .bor (.bin .shl (.cast .u32 (.reg 0 .i32)) (.bin .band (.cast .u32 (.reg 1 .i32)) (.lit 31))) (.bin .shr (.cast .u32 (.reg 0 .i32)) (.bin .band (.bin .add (.bin .sub (.lit 31) (.cast .u32 (.reg 1 .i32))) (.lit 1)) (.lit 31))))),
    .ret (.reg 0 .i32)] }
/-- `i32.rotr`  ⇒  R0.i32 = arg0; R1.i32 = arg1; R0.i32 = (int32_t)((((uint32_t)R0.i32) >> (((uint32_t)R1.i32) & (31))) | (((uint32_t)R0.i32) << (((31) - ((uint32_t)R1.i32) + 1) & (31)))); return R0.i32; -/
def f_i32_rotr : CFunc := { params := [.i32, .i32], body := [
    .assign (.reg 0 .i32) (.arg 0 .i32),
    .assign (.reg 1 .i32) (.arg 1 .i32),
    .assign (.reg 0 .i32) (.cast .i32 (.bin .bor (.bin .shr (.cast .u32 (.reg 0 .i32)) (.bin .band (.cast .u32 (.reg 1 .i32)) (.lit 31))) (.bin .shl (.cast .u32 (.reg 0 .i32)) (.bin .band (.bin .add (.bin .sub (.lit 31) (.cast .u32 (.reg 1 .i32))) (.lit 1)) (.lit 31))))),
    .ret (.reg 0 .i32)] }
/-- `i32.eq`  ⇒  R0.i32 = arg0; R1.i32 = arg1; R0.i32 = (R0.i32==R1.i32)? 1: 0; return R0.i32; -/
def f_i32_eq : CFunc := { params := [.i32, .i32], body := [
    .assign (.reg 0 .i32) (.arg 0 .i32),
    .assign (.reg 1 .i32) (.arg 1 .i32),
    .assign (.reg 0 .i32) (.cond (.bin .eq (.reg 0 .i32) (.reg 1 .i32)) (.lit 1) (.lit 0)),
    .ret (.reg 0 .i32)] }
/-- `i32.ne`  ⇒  R0.i32 = arg0; R1.i32 = arg1; R0.i32 = (R0.i32!=R1.i32)? 1: 0; return R0.i32; -/
def f_i32_ne : CFunc := { params := [.i32, .i32], body := [
    .assign (.reg 0 .i32) (.arg 0 .i32),
    .assign (.reg 1 .i32) (.arg 1 .i32),
    .assign (.reg 0 .i32) (.cond (.bin .ne (.reg 0 .i32) (.reg 1 .i32)) (.lit 1) (.lit 0)),
    .ret (.reg 0 .i32)] }
/-- `i32.lt_s`  ⇒  R0.i32 = arg0; R1.i32 = arg1; R0.i32 = (R0.i32<R1.i32)? 1: 0; return R0.i32; -/
def f_i32_lt_s : CFunc := { params := [.i32, .i32], body := [
    .assign (.reg 0 .i32) (.arg 0 .i32),
    .assign (.reg 1 .i32) (.arg 1 .i32),
    .assign (.reg 0 .i32) (.cond (.bin .lt (.reg 0 .i32) (.reg 1 .i32)) (.lit 1) (.lit 0)),
    .ret (.reg 0 .i32)] }
/-- `i32.lt_u`  ⇒  R0.i32 = arg0; R1.i32 = arg1; R0.i32 = ((uint32_t)(R0.i32)<(uint32_t)(R1.i32))? 1: 0; return R0.i32; -/
def f_i32_lt_u : CFunc := { params := [.i32, .i32], body := [
    .assign (.reg 0 .i32) (.arg 0 .i32),
    .assign (.reg 1 .i32) (.arg 1 .i32),
    .assign (.reg 0 .i32) (.cond (.bin .lt (.cast .u32 (.reg 0 .i32)) (.cast .u32 (.reg 1 .i32))) (.lit 1) (.lit 0)),
    .ret (.reg 0 .i32)] }
/-- `i32.gt_s`  ⇒  R0.i32 = arg0; R1.i32 = arg1; R0.i32 = (R0.i32>R1.i32)? 1: 0; return R0.i32; -/
def f_i32_gt_s : CFunc := { params := [.i32, .i32], body := [
    .assign (.reg 0 .i32) (.arg 0 .i32),
    .assign (.reg 1 .i32) (.arg 1 .i32),
    .assign (.reg 0 .i32) (.cond (.bin .gt (.reg 0 .i32) (.reg 1 .i32)) (.lit 1) (.lit 0)),
    .ret (.reg 0 .i32)] }
/-- `i32.gt_u`  ⇒  R0.i32 = arg0; R1.i32 = arg1; R0.i32 = ((uint32_t)(R0.i32)>(uint32_t)(R1.i32))? 1: 0; return R0.i32; -/
def f_i32_gt_u : CFunc := { params := [.i32, .i32], body := [
    .assign (.reg 0 .i32) (.arg 0 .i32),
    .assign (.reg 1 .i32) (.arg 1 .i32),
    .assign (.reg 0 .i32) (.cond (.bin .gt (.cast .u32 (.reg 0 .i32)) (.cast .u32 (.reg 1 .i32))) (.lit 1) (.lit 0)),
    .ret (.reg 0 .i32)] }
/-- `i32.le_s`  ⇒  R0.i32 = arg0; R1.i32 = arg1; R0.i32 = (R0.i32<=R1.i32)? 1: 0; return R0.i32; -/
def f_i32_le_s : CFunc := { params := [.i32, .i32], body := [
    .assign (.reg 0 .i32) (.arg 0 .i32),
    .assign (.reg 1 .i32) (.arg 1 .i32),
    .assign (.reg 0 .i32) (.cond (.bin .le (.reg 0 .i32) (.reg 1 .i32)) (.lit 1) (.lit 0)),
    .ret (.reg 0 .i32)] }
/-- `i32.le_u`  ⇒  R0.i32 = arg0; R1.i32 = arg1; R0.i32 = ((uint32_t)(R0.i32)<=(uint32_t)(R1.i32))? 1: 0; return R0.i32; -/
def f_i32_le_u : CFunc := { params := [.i32, .i32], body := [
    .assign (.reg 0 .i32) (.arg 0 .i32),
    .assign (.reg 1 .i32) (.arg 1 .i32),
    .assign (.reg 0 .i32) (.cond (.bin .le (.cast .u32 (.reg 0 .i32)) (.cast .u32 (.reg 1 .i32))) (.lit 1) (.lit 0)),
    .ret (.reg 0 .i32)] }
/-- `i32.ge_s`  ⇒  R0.i32 = arg0; R1.i32 = arg1; R0.i32 = (R0.i32>=R1.i32)? 1: 0; return R0.i32; -/
def f_i32_ge_s : CFunc := { params := [.i32, .i32], body := [
    .assign (.reg 0 .i32) (.arg 0 .i32),
    .assign (.reg 1 .i32) (.arg 1 .i32),
    .assign (.reg 0 .i32) (.cond (.bin .ge (.reg 0 .i32) (.reg 1 .i32)) (.lit 1) (.lit 0)),
    .ret (.reg 0 .i32)] }
/-- `i32.ge_u`  ⇒  R0.i32 = arg0; R1.i32 = arg1; R0.i32 = ((uint32_t)(R0.i32)>=(uint32_t)(R1.i32))? 1: 0; return R0.i32; -/
def f_i32_ge_u : CFunc := { params := [.i32, .i32], body := [
    .assign (.reg 0 .i32) (.arg 0 .i32),
    .assign (.reg 1 .i32) (.arg 1 .i32),
    .assign (.reg 0 .i32) (.cond (.bin .ge (.cast .u32 (.reg 0 .i32)) (.cast .u32 (.reg 1 .i32))) (.lit 1) (.lit 0)),
    .ret (.reg 0 .i32)] }
/-- `i32.eqz`  ⇒  R0.i32 = arg0; R0.i32 = (R0.i32==0)? 1: 0; return R0.i32; -/
def f_i32_eqz : CFunc := { params := [.i32], body := [
    .assign (.reg 0 .i32) (.arg 0 .i32),
    .assign (.reg 0 .i32) (.cond (.bin .eq (.reg 0 .i32) (.lit 0)) (.lit 1) (.lit 0)),
    .ret (.reg 0 .i32)] }
/-- `i32.clz`  ⇒  R0.i32 = arg0; R0.i32 = ((R0.i32) ? __builtin_clz(R0.i32) : 32); return R0.i32; -/
def f_i32_clz : CFunc := { params := [.i32], body := [
    .assign (.reg 0 .i32) (.arg 0 .i32),
    .assign (.reg 0 .i32) (.cond (.reg 0 .i32) (.call .clz (.reg 0 .i32)) (.lit 32)),
    .ret (.reg 0 .i32)] }
/-- `i32.ctz`  ⇒  R0.i32 = arg0; R0.i32 = ((R0.i32) ? __builtin_ctz(R0.i32) : 32); return R0.i32; -/
def f_i32_ctz : CFunc := { params := [.i32], body := [
    .assign (.reg 0 .i32) (.arg 0 .i32),
    .assign (.reg 0 .i32) (.cond (.reg 0 .i32) (.call .ctz (.reg 0 .i32)) (.lit 32)),
    .ret (.reg 0 .i32)] }
/-- `i32.popcnt`  ⇒  R0.i32 = arg0; R0.i32 = (__builtin_popcount(R0.i32)); return R0.i32; -/
def f_i32_popcnt : CFunc := { params := [.i32], body := [
    .assign (.reg 0 .i32) (.arg 0 .i32),
    .assign (.reg 0 .i32) (.call .popcount (.reg 0 .i32)),
    .ret (.reg 0 .i32)] }
/-- `select`  ⇒  R0.i32 = arg0; R1.i32 = arg1; R2.i32 = arg2; R0.i32 = R2.i32? R0.i32: R1.i32; return R0.i32; -/
def f_select_i32 : CFunc := { params := [.i32, .i32, .i32], body := [
    .assign (.reg 0 .i32) (.arg 0 .i32),
    .assign (.reg 1 .i32) (.arg 1 .i32),
    .assign (.reg 2 .i32) (.arg 2 .i32),
    .assign (.reg 0 .i32) (.cond (.reg 2 .i32) (.reg 0 .i32) (.reg 1 .i32)),
    .ret (.reg 0 .i32)] }
/-- `i64.add`  ⇒  R0.i64 = arg0; R1.i64 = arg1; R0.i64 = (int64_t)((uint64_t)R0.i64 + (uint64_t)R1.i64); return R0.i64; -/
def f_i64_add : CFunc := { params := [.i64, .i64], body := [
    .assign (.reg 0 .i64) (.arg 0 .i64),
    .assign (.reg 1 .i64) (.arg 1 .i64),
    .assign (.reg 0 .i64) (.cast .i64 (.bin .add (.cast .u64 (.reg 0 .i64)) (.cast .u64 (.reg 1 .i64)))),
    .ret (.reg 0 .i64)] }
/-- `i64.sub`  ⇒  R0.i64 = arg0; R1.i64 = arg1; R0.i64 = (int64_t)((uint64_t)R0.i64 - (uint64_t)R1.i64); return R0.i64; -/
def f_i64_sub : CFunc := { params := [.i64, .i64], body := [
    .assign (.reg 0 .i64) (.arg 0 .i64),
    .assign (.reg 1 .i64) (.arg 1 .i64),
    .assign (.reg 0 .i64) (.cast .i64 (.bin .sub (.cast .u64 (.reg 0 .i64)) (.cast .u64 (.reg 1 .i64)))),
    .ret (.reg 0 .i64)] }
/-- `i64.mul`  ⇒  R0.i64 = arg0; R1.i64 = arg1; R0.i64 = (int64_t)((uint64_t)R0.i64 * (uint64_t)R1.i64); return R0.i64; -/
def f_i64_mul : CFunc := { params := [.i64, .i64], body := [
    .assign (.reg 0 .i64) (.arg 0 .i64),
    .assign (.reg 1 .i64) (.arg 1 .i64),
    .assign (.reg 0 .i64) (.cast .i64 (.bin .mul (.cast .u64 (.reg 0 .i64)) (.cast .u64 (.reg 1 .i64)))),
    .ret (.reg 0 .i64)] }
-- i64_div_s (i64.div_s): UNMODELLED: constant with suffix / non-decimal / floating constant at '9223372036854775807L -1'   C: val_t R0, R1; R0.i64 = arg0; R1.i64 = arg1; if(R1.i64 == 0 || (R0.i64 == (-9223372036854775807L -1) && R1.i64 == -1)) abort(); R0.i64 = R0.i64 / R1.i64; return R0.i64;
/-- `i64.div_u`  ⇒  R0.i64 = arg0; R1.i64 = arg1; if(R1.i64 == 0) abort(); R0.i64 = (int64_t)((uint64_t)(R0.i64)/(uint64_t)(R1.i64)); return R0.i64; -/
def f_i64_div_u : CFunc := { params := [.i64, .i64], body := [
    .assign (.reg 0 .i64) (.arg 0 .i64),
    .assign (.reg 1 .i64) (.arg 1 .i64),
    .ifThen (.bin .eq (.reg 1 .i64) (.lit 0)) [.abort],
    .assign (.reg 0 .i64) (.cast .i64 (.bin .div (.cast .u64 (.reg 0 .i64)) (.cast .u64 (.reg 1 .i64)))),
    .ret (.reg 0 .i64)] }
/-- `i64.rem_s`  ⇒  R0.i64 = arg0; R1.i64 = arg1; if(R1.i64 == 0) abort(); R0.i64 = (R1.i64 == -1)? 0: R0.i64 % R1.i64; return R0.i64; -/
def f_i64_rem_s : CFunc := { params := [.i64, .i64], body := [
    .assign (.reg 0 .i64) (.arg 0 .i64),
    .assign (.reg 1 .i64) (.arg 1 .i64),
    .ifThen (.bin .eq (.reg 1 .i64) (.lit 0)) [.abort],
    .assign (.reg 0 .i64) (.cond (.bin .eq (.reg 1 .i64) (.un .neg (.lit 1))) (.lit 0) (.bin .rem (.reg 0 .i64) (.reg 1 .i64))),
    .ret (.reg 0 .i64)] }
/-- `i64.rem_u`  ⇒  R0.i64 = arg0; R1.i64 = arg1; if(R1.i64 == 0) abort(); R0.i64 = (int64_t)((uint64_t)(R0.i64)%(uint64_t)(R1.i64)); return R0.i64; -/
def f_i64_rem_u : CFunc := { params := [.i64, .i64], body := [
    .assign (.reg 0 .i64) (.arg 0 .i64),
    .assign (.reg 1 .i64) (.arg 1 .i64),
    .ifThen (.bin .eq (.reg 1 .i64) (.lit 0)) [.abort],
    .assign (.reg 0 .i64) (.cast .i64 (.bin .rem (.cast .u64 (.reg 0 .i64)) (.cast .u64 (.reg 1 .i64)))),
    .ret (.reg 0 .i64)] }
/-- `i64.and`  ⇒  R0.i64 = arg0; R1.i64 = arg1; R0.i64 = R0.i64 & R1.i64; return R0.i64; -/
def f_i64_and : CFunc := { params := [.i64, .i64], body := [
    .assign (.reg 0 .i64) (.arg 0 .i64),
    .assign (.reg 1 .i64) (.arg 1 .i64),
    .assign (.reg 0 .i64) (.bin .band (.reg 0 .i64) (.reg 1 .i64)),
    .ret (.reg 0 .i64)] }
/-- `i64.or`  ⇒  R0.i64 = arg0; R1.i64 = arg1; R0.i64 = R0.i64 | R1.i64; return R0.i64; -/
def f_i64_or : CFunc := { params := [.i64, .i64], body := [
    .assign (.reg 0 .i64) (.arg 0 .i64),
    .assign (.reg 1 .i64) (.arg 1 .i64),
    .assign (.reg 0 .i64) (.bin .bor (.reg 0 .i64) (.reg 1 .i64)),
    .ret (.reg 0 .i64)] }
/-- `i64.xor`  ⇒  R0.i64 = arg0; R1.i64 = arg1; R0.i64 = R0.i64 ^ R1.i64; return R0.i64; -/
def f_i64_xor : CFunc := { params := [.i64, .i64], body := [
    .assign (.reg 0 .i64) (.arg 0 .i64),
    .assign (.reg 1 .i64) (.arg 1 .i64),
    .assign (.reg 0 .i64) (.bin .bxor (.reg 0 .i64) (.reg 1 .i64)),
    .ret (.reg 0 .i64)] }
/-- `i64.shl`  ⇒  R0.i64 = arg0; R1.i64 = arg1; R0.i64 = (int64_t)((uint64_t)R0.i64 << (((uint64_t)R1.i64)&63)); return R0.i64; -/
def f_i64_shl : CFunc := { params := [.i64, .i64], body := [
    .assign (.reg 0 .i64) (.arg 0 .i64),
    .assign (.reg 1 .i64) (.arg 1 .i64),
    .assign (.reg 0 .i64) (.cast .i64 (.bin .shl (.cast .u64 (.reg 0 .i64)) (.bin .band (.cast .u64 (.reg 1 .i64)) (.lit 63)))),
    .ret (.reg 0 .i64)] }
/-- `i64.shr_s`  ⇒  R0.i64 = arg0; R1.i64 = arg1; R0.i64 = R0.i64 >> (((uint64_t)R1.i64)&63); return R0.i64; -/
def f_i64_shr_s : CFunc := { params := [.i64, .i64], body := [
    .assign (.reg 0 .i64) (.arg 0 .i64),
    .assign (.reg 1 .i64) (.arg 1 .i64),
    .assign (.reg 0 .i64) (.bin .shr (.reg 0 .i64) (.bin .band (.cast .u64 (.reg 1 .i64)) (.lit 63))),
    .ret (.reg 0 .i64)] }
/-- `i64.shr_u`  ⇒  R0.i64 = arg0; R1.i64 = arg1; R0.i64 = (int64_t)((uint64_t)(R0.i64)>>((uint64_t)(R1.i64)&63)); return R0.i64; -/
def f_i64_shr_u : CFunc := { params := [.i64, .i64], body := [
    .assign (.reg 0 .i64) (.arg 0 .i64),
    .assign (.reg 1 .i64) (.arg 1 .i64),
    .assign (.reg 0 .i64) (.cast .i64 (.bin .shr (.cast .u64 (.reg 0 .i64)) (.bin .band (.cast .u64 (.reg 1 .i64)) (.lit 63)))),
    .ret (.reg 0 .i64)] }
/-- `i64.rotl`  ⇒  R0.i64 = arg0; R1.i64 = arg1; R0.i64 = (int64_t)((((uint64_t)R0.i64) << (((uint64_t)R1.i64) & (63))) | (((uint64_t)R0.i64) >> (((63) - ((uint64_t)R1.i64) + 1) & (63)))); return R0.i64; -/
def f_i64_rotl : CFunc := { params := [.i64, .i64], body := [
    .assign (.reg 0 .i64) (.arg 0 .i64),
    .assign (.reg 1 .i64) (.arg 1 .i64),
    .assign (.reg 0 .i64) (.cast .i64 (.bin .bor (.bin .shl (.cast .u64 (.reg 0 .i64)) (.bin .band (.cast .u64 (.reg 1 .i64)) (.lit 63))) (.bin .shr (.cast .u64 (.reg 0 .i64)) (.bin .band (.bin .add (.bin .sub (.lit 63) (.cast .u64 (.reg 1 .i64))) (.lit 1)) (.lit 63))))),
    .ret (.reg 0 .i64)] }
/-- `i64.rotr`  ⇒  R0.i64 = arg0; R1.i64 = arg1; R0.i64 = (int64_t)((((uint64_t)R0.i64) >> (((uint64_t)R1.i64) & (63))) | (((uint64_t)R0.i64) << (((63) - ((uint64_t)R1.i64) + 1) & (63)))); return R0.i64; -/
def f_i64_rotr : CFunc := { params := [.i64, .i64], body := [
    .assign (.reg 0 .i64) (.arg 0 .i64),
    .assign (.reg 1 .i64) (.arg 1 .i64),
    .assign (.reg 0 .i64) (.cast .i64 (.bin .bor (.bin .shr (.cast .u64 (.reg 0 .i64)) (.bin .band (.cast .u64 (.reg 1 .i64)) (.lit 63))) (.bin .shl (.cast .u64 (.reg 0 .i64)) (.bin .band (.bin .add (.bin .sub (.lit 63) (.cast .u64 (.reg 1 .i64))) (.lit 1)) (.lit 63))))),
    .ret (.reg 0 .i64)] }
/-- `i64.eq`  ⇒  R0.i64 = arg0; R1.i64 = arg1; R0.i32 = (R0.i64==R1.i64)? 1: 0; return R0.i32; -/
def f_i64_eq : CFunc := { params := [.i64, .i64], body := [
    .assign (.reg 0 .i64) (.arg 0 .i64),
    .assign (.reg 1 .i64) (.arg 1 .i64),
    .assign (.reg 0 .i32) (.cond (.bin .eq (.reg 0 .i64) (.reg 1 .i64)) (.lit 1) (.lit 0)),
    .ret (.reg 0 .i32)] }
/-- `i64.ne`  ⇒  R0.i64 = arg0; R1.i64 = arg1; R0.i32 = (R0.i64!=R1.i64)? 1: 0; return R0.i32; -/
def f_i64_ne : CFunc := { params := [.i64, .i64], body := [
    .assign (.reg 0 .i64) (.arg 0 .i64),
    .assign (.reg 1 .i64) (.arg 1 .i64),
    .assign (.reg 0 .i32) (.cond (.bin .ne (.reg 0 .i64) (.reg 1 .i64)) (.lit 1) (.lit 0)),
    .ret (.reg 0 .i32)] }
/-- `i64.lt_s`  ⇒  R0.i64 = arg0; R1.i64 = arg1; R0.i32 = (R0.i64<R1.i64)? 1: 0; return R0.i32; -/
def f_i64_lt_s : CFunc := { params := [.i64, .i64], body := [
    .assign (.reg 0 .i64) (.arg 0 .i64),
    .assign (.reg 1 .i64) (.arg 1 .i64),
    .assign (.reg 0 .i32) (.cond (.bin .lt (.reg 0 .i64) (.reg 1 .i64)) (.lit 1) (.lit 0)),
    .ret (.reg 0 .i32)] }
/-- `i64.lt_u`  ⇒  R0.i64 = arg0; R1.i64 = arg1; R0.i32 = ((uint64_t)(R0.i64)<(uint64_t)(R1.i64))? 1: 0; return R0.i32; -/
def f_i64_lt_u : CFunc := { params := [.i64, .i64], body := [
    .assign (.reg 0 .i64) (.arg 0 .i64),
    .assign (.reg 1 .i64) (.arg 1 .i64),
    .assign (.reg 0 .i32) (.cond (.bin .lt (.cast .u64 (.reg 0 .i64)) (.cast .u64 (.reg 1 .i64))) (.lit 1) (.lit 0)),
    .ret (.reg 0 .i32)] }
/-- `i64.gt_s`  ⇒  R0.i64 = arg0; R1.i64 = arg1; R0.i32 = (R0.i64>R1.i64)? 1: 0; return R0.i32; -/
def f_i64_gt_s : CFunc := { params := [.i64, .i64], body := [
    .assign (.reg 0 .i64) (.arg 0 .i64),
    .assign (.reg 1 .i64) (.arg 1 .i64),
    .assign (.reg 0 .i32) (.cond (.bin .gt (.reg 0 .i64) (.reg 1 .i64)) (.lit 1) (.lit 0)),
    .ret (.reg 0 .i32)] }
/-- `i64.gt_u`  ⇒  R0.i64 = arg0; R1.i64 = arg1; R0.i32 = ((uint64_t)(R0.i64)>(uint64_t)(R1.i64))? 1: 0; return R0.i32; -/
def f_i64_gt_u : CFunc := { params := [.i64, .i64], body := [
    .assign (.reg 0 .i64) (.arg 0 .i64),
    .assign (.reg 1 .i64) (.arg 1 .i64),
    .assign (.reg 0 .i32) (.cond (.bin .gt (.cast .u64 (.reg 0 .i64)) (.cast .u64 (.reg 1 .i64))) (.lit 1) (.lit 0)),
    .ret (.reg 0 .i32)] }
/-- `i64.le_s`  ⇒  R0.i64 = arg0; R1.i64 = arg1; R0.i32 = (R0.i64<=R1.i64)? 1: 0; return R0.i32; -/
def f_i64_le_s : CFunc := { params := [.i64, .i64], body := [
    .assign (.reg 0 .i64) (.arg 0 .i64),
    .assign (.reg 1 .i64) (.arg 1 .i64),
    .assign (.reg 0 .i32) (.cond (.bin .le (.reg 0 .i64) (.reg 1 .i64)) (.lit 1) (.lit 0)),
    .ret (.reg 0 .i32)] }
/-- `i64.le_u`  ⇒  R0.i64 = arg0; R1.i64 = arg1; R0.i32 = ((uint64_t)(R0.i64)<=(uint64_t)(R1.i64))? 1: 0; return R0.i32; -/
def f_i64_le_u : CFunc := { params := [.i64, .i64], body := [
    .assign (.reg 0 .i64) (.arg 0 .i64),
    .assign (.reg 1 .i64) (.arg 1 .i64),
    .assign (.reg 0 .i32) (.cond (.bin .le (.cast .u64 (.reg 0 .i64)) (.cast .u64 (.reg 1 .i64))) (.lit 1) (.lit 0)),
    .ret (.reg 0 .i32)] }
/-- `i64.ge_s`  ⇒  R0.i64 = arg0; R1.i64 = arg1; R0.i32 = (R0.i64>=R1.i64)? 1: 0; return R0.i32; -/
def f_i64_ge_s : CFunc := { params := [.i64, .i64], body := [
    .assign (.reg 0 .i64) (.arg 0 .i64),
    .assign (.reg 1 .i64) (.arg 1 .i64),
    .assign (.reg 0 .i32) (.cond (.bin .ge (.reg 0 .i64) (.reg 1 .i64)) (.lit 1) (.lit 0)),
    .ret (.reg 0 .i32)] }
/-- `i64.ge_u`  ⇒  R0.i64 = arg0; R1.i64 = arg1; R0.i32 = ((uint64_t)(R0.i64)>=(uint64_t)(R1.i64))? 1: 0; return R0.i32; -/
def f_i64_ge_u : CFunc := { params := [.i64, .i64], body := [
    .assign (.reg 0 .i64) (.arg 0 .i64),
    .assign (.reg 1 .i64) (.arg 1 .i64),
    .assign (.reg 0 .i32) (.cond (.bin .ge (.cast .u64 (.reg 0 .i64)) (.cast .u64 (.reg 1 .i64))) (.lit 1) (.lit 0)),
    .ret (.reg 0 .i32)] }
/-- `i64.eqz`  ⇒  R0.i64 = arg0; R0.i32 = (R0.i64==0)? 1: 0; return R0.i32; -/
def f_i64_eqz : CFunc := { params := [.i64], body := [
    .assign (.reg 0 .i64) (.arg 0 .i64),
    .assign (.reg 0 .i32) (.cond (.bin .eq (.reg 0 .i64) (.lit 0)) (.lit 1) (.lit 0)),
    .ret (.reg 0 .i32)] }
/-- `i64.clz`  ⇒  R0.i64 = arg0; R0.i64 = ((R0.i64) ? __builtin_clzll(R0.i64) : 64); return R0.i64; -/
def f_i64_clz : CFunc := { params := [.i64], body := [
    .assign (.reg 0 .i64) (.arg 0 .i64),
    .assign (.reg 0 .i64) (.cond (.reg 0 .i64) (.call .clzll (.reg 0 .i64)) (.lit 64)),
    .ret (.reg 0 .i64)] }
/-- `i64.ctz`  ⇒  R0.i64 = arg0; R0.i64 = ((R0.i64) ? __builtin_ctzll(R0.i64) : 64); return R0.i64; -/
def f_i64_ctz : CFunc := { params := [.i64], body := [
    .assign (.reg 0 .i64) (.arg 0 .i64),
    .assign (.reg 0 .i64) (.cond (.reg 0 .i64) (.call .ctzll (.reg 0 .i64)) (.lit 64)),
    .ret (.reg 0 .i64)] }
/-- `i64.popcnt`  ⇒  R0.i64 = arg0; R0.i64 = (__builtin_popcountll(R0.i64)); return R0.i64; -/
def f_i64_popcnt : CFunc := { params := [.i64], body := [
    .assign (.reg 0 .i64) (.arg 0 .i64),
    .assign (.reg 0 .i64) (.call .popcountll (.reg 0 .i64)),
    .ret (.reg 0 .i64)] }
/-- `select`  ⇒  R0.i64 = arg0; R1.i64 = arg1; R2.i32 = arg2; R0.i64 = R2.i32? R0.i64: R1.i64; return R0.i64; -/
def f_select_i64 : CFunc := { params := [.i64, .i64, .i32], body := [
    .assign (.reg 0 .i64) (.arg 0 .i64),
    .assign (.reg 1 .i64) (.arg 1 .i64),
    .assign (.reg 2 .i32) (.arg 2 .i32),
    .assign (.reg 0 .i64) (.cond (.reg 2 .i32) (.reg 0 .i64) (.reg 1 .i64)),
    .ret (.reg 0 .i64)] }
/-- `i32.wrap_i64`  ⇒  R0.i64 = arg0; R0.i32 = (int32_t)(R0.i64); return R0.i32; -/
def f_i32_wrap_i64 : CFunc := { params := [.i64], body := [
    .assign (.reg 0 .i64) (.arg 0 .i64),
    .assign (.reg 0 .i32) (.cast .i32 (.reg 0 .i64)),
    .ret (.reg 0 .i32)] }
/-- `i64.extend_i32_s`  ⇒  R0.i32 = arg0; R0.i64 = (int64_t)(R0.i32); return R0.i64; -/
def f_i64_extend_i32_s : CFunc := { params := [.i32], body := [
    .assign (.reg 0 .i32) (.arg 0 .i32),
    .assign (.reg 0 .i64) (.cast .i64 (.reg 0 .i32)),
    .ret (.reg 0 .i64)] }
/-- `i64.extend_i32_u`  ⇒  R0.i32 = arg0; R0.i64 = (int64_t)((uint32_t)(R0.i32)); return R0.i64; -/
def f_i64_extend_i32_u : CFunc := { params := [.i32], body := [
    .assign (.reg 0 .i32) (.arg 0 .i32),
    .assign (.reg 0 .i64) (.cast .i64 (.cast .u32 (.reg 0 .i32))),
    .ret (.reg 0 .i64)] }
/-- `i32.const 0`  ⇒  R0.i32 = 0; return R0.i32; -/
def f_i32_const_0 : CFunc := { params := [], body := [
    .assign (.reg 0 .i32) (.lit 0),
    .ret (.reg 0 .i32)] }
/-- `i32.const 1`  ⇒  R0.i32 = 1; return R0.i32; -/
def f_i32_const_1 : CFunc := { params := [], body := [
    .assign (.reg 0 .i32) (.lit 1),
    .ret (.reg 0 .i32)] }
/-- `i32.const -1`  ⇒  R0.i32 = -1; return R0.i32; -/
def f_i32_const_2 : CFunc := { params := [], body := [
    .assign (.reg 0 .i32) (.un .neg (.lit 1)),
    .ret (.reg 0 .i32)] }
/-- `i32.const 2147483647`  ⇒  R0.i32 = 2147483647; return R0.i32; -/
def f_i32_const_3 : CFunc := { params := [], body := [
    .assign (.reg 0 .i32) (.lit 2147483647),
    .ret (.reg 0 .i32)] }
/-- `i32.const -2147483648`  ⇒  R0.i32 = -2147483648; return R0.i32; -/
def f_i32_const_4 : CFunc := { params := [], body := [
    .assign (.reg 0 .i32) (.un .neg (.lit 2147483648)),
    .ret (.reg 0 .i32)] }
/-- `i32.const 0x7fffffff`  ⇒  R0.i32 = 2147483647; return R0.i32; -/
def f_i32_const_5 : CFunc := { params := [], body := [
    .assign (.reg 0 .i32) (.lit 2147483647),
    .ret (.reg 0 .i32)] }
/-- `i64.const 0`  ⇒  R0.i64 = 0; return R0.i64; -/
def f_i64_const_0 : CFunc := { params := [], body := [
    .assign (.reg 0 .i64) (.lit 0),
    .ret (.reg 0 .i64)] }
/-- `i64.const 1`  ⇒  R0.i64 = 1; return R0.i64; -/
def f_i64_const_1 : CFunc := { params := [], body := [
    .assign (.reg 0 .i64) (.lit 1),
    .ret (.reg 0 .i64)] }
/-- `i64.const -1`  ⇒  R0.i64 = -1; return R0.i64; -/
def f_i64_const_2 : CFunc := { params := [], body := [
    .assign (.reg 0 .i64) (.un .neg (.lit 1)),
    .ret (.reg 0 .i64)] }
/-- `i64.const 9223372036854775807`  ⇒  R0.i64 = 9223372036854775807; return R0.i64; -/
def f_i64_const_3 : CFunc := { params := [], body := [
    .assign (.reg 0 .i64) (.lit 9223372036854775807),
    .ret (.reg 0 .i64)] }
-- i64_const_4 (i64.const -9223372036854775808): UNMODELLED: integer constant 9223372036854775808 is not representable in long long (C11 6.4.4.1p6: it has no type)   C: val_t R0; R0.i64 = -9223372036854775808; return R0.i64;
/-- `i64.const 4294967296`  ⇒  R0.i64 = 4294967296; return R0.i64; -/
def f_i64_const_5 : CFunc := { params := [], body := [
    .assign (.reg 0 .i64) (.lit 4294967296),
    .ret (.reg 0 .i64)] }
/-- `i64.const -4294967297`  ⇒  R0.i64 = -4294967297; return R0.i64; -/
def f_i64_const_6 : CFunc := { params := [], body := [
    .assign (.reg 0 .i64) (.un .neg (.lit 4294967297)),
    .ret (.reg 0 .i64)] }
/-- `i32.load offset=0`  ⇒  R0.i32 = arg0; memcpy(&R0.i32, &app_memory[R0.i32+0], 4); return R0.i32; -/
def f_i32_load_o0 : CFunc := { params := [.i32], body := [
    .assign (.reg 0 .i32) (.arg 0 .i32),
    .loadMem (.reg 0 .i32) (.bin .add (.reg 0 .i32) (.lit 0)) 4,
    .ret (.reg 0 .i32)] }
/-- `i32.load offset=3`  ⇒  R0.i32 = arg0; memcpy(&R0.i32, &app_memory[R0.i32+3], 4); return R0.i32; -/
def f_i32_load_o3 : CFunc := { params := [.i32], body := [
    .assign (.reg 0 .i32) (.arg 0 .i32),
    .loadMem (.reg 0 .i32) (.bin .add (.reg 0 .i32) (.lit 3)) 4,
    .ret (.reg 0 .i32)] }
/-- `i64.load offset=0`  ⇒  R0.i32 = arg0; memcpy(&R0.i64, &app_memory[R0.i32+0], 8); return R0.i64; -/
def f_i64_load_o0 : CFunc := { params := [.i32], body := [
    .assign (.reg 0 .i32) (.arg 0 .i32),
    .loadMem (.reg 0 .i64) (.bin .add (.reg 0 .i32) (.lit 0)) 8,
    .ret (.reg 0 .i64)] }
/-- `i64.load offset=3`  ⇒  R0.i32 = arg0; memcpy(&R0.i64, &app_memory[R0.i32+3], 8); return R0.i64; -/
def f_i64_load_o3 : CFunc := { params := [.i32], body := [
    .assign (.reg 0 .i32) (.arg 0 .i32),
    .loadMem (.reg 0 .i64) (.bin .add (.reg 0 .i32) (.lit 3)) 8,
    .ret (.reg 0 .i64)] }
/-- `i32.load8_s offset=0`  ⇒  R0.i32 = arg0; memcpy(&R_u8, &app_memory[R0.i32+0], 1); R0.i32 = (int32_t)((int8_t)R_u8); return R0.i32; -/
def f_i32_load8_s_o0 : CFunc := { params := [.i32], body := [
    .assign (.reg 0 .i32) (.arg 0 .i32),
    .loadMem (.tmp 8) (.bin .add (.reg 0 .i32) (.lit 0)) 1,
    .assign (.reg 0 .i32) (.cast .i32 (.cast .i8 (.tmp 8))),
    .ret (.reg 0 .i32)] }
/-- `i32.load8_s offset=3`  ⇒  R0.i32 = arg0; memcpy(&R_u8, &app_memory[R0.i32+3], 1); R0.i32 = (int32_t)((int8_t)R_u8); return R0.i32; -/
def f_i32_load8_s_o3 : CFunc := { params := [.i32], body := [
    .assign (.reg 0 .i32) (.arg 0 .i32),
    .loadMem (.tmp 8) (.bin .add (.reg 0 .i32) (.lit 3)) 1,
    .assign (.reg 0 .i32) (.cast .i32 (.cast .i8 (.tmp 8))),
    .ret (.reg 0 .i32)] }
/-- `i32.load8_u offset=0`  ⇒  R0.i32 = arg0; memcpy(&R_u8, &app_memory[R0.i32+0], 1); R0.i32 = (int32_t)((uint8_t)R_u8); return R0.i32; -/
def f_i32_load8_u_o0 : CFunc := { params := [.i32], body := [
    .assign (.reg 0 .i32) (.arg 0 .i32),
    .loadMem (.tmp 8) (.bin .add (.reg 0 .i32) (.lit 0)) 1,
    .assign (.reg 0 .i32) (.cast .i32 (.cast .u8 (.tmp 8))),
    .ret (.reg 0 .i32)] }
/-- `i32.load8_u offset=3`  ⇒  R0.i32 = arg0; memcpy(&R_u8, &app_memory[R0.i32+3], 1); R0.i32 = (int32_t)((uint8_t)R_u8); return R0.i32; -/
def f_i32_load8_u_o3 : CFunc := { params := [.i32], body := [
    .assign (.reg 0 .i32) (.arg 0 .i32),
    .loadMem (.tmp 8) (.bin .add (.reg 0 .i32) (.lit 3)) 1,
    .assign (.reg 0 .i32) (.cast .i32 (.cast .u8 (.tmp 8))),
    .ret (.reg 0 .i32)] }
/-- `i32.load16_s offset=0`  ⇒  R0.i32 = arg0; memcpy(&R_u16, &app_memory[R0.i32+0], 2); R0.i32 = (int32_t)((int16_t)R_u16); return R0.i32; -/
def f_i32_load16_s_o0 : CFunc := { params := [.i32], body := [
    .assign (.reg 0 .i32) (.arg 0 .i32),
    .loadMem (.tmp 16) (.bin .add (.reg 0 .i32) (.lit 0)) 2,
    .assign (.reg 0 .i32) (.cast .i32 (.cast .i16 (.tmp 16))),
    .ret (.reg 0 .i32)] }
/-- `i32.load16_s offset=3`  ⇒  R0.i32 = arg0; memcpy(&R_u16, &app_memory[R0.i32+3], 2); R0.i32 = (int32_t)((int16_t)R_u16); return R0.i32; -/
def f_i32_load16_s_o3 : CFunc := { params := [.i32], body := [
    .assign (.reg 0 .i32) (.arg 0 .i32),
    .loadMem (.tmp 16) (.bin .add (.reg 0 .i32) (.lit 3)) 2,
    .assign (.reg 0 .i32) (.cast .i32 (.cast .i16 (.tmp 16))),
    .ret (.reg 0 .i32)] }
/-- `i32.load16_u offset=0`  ⇒  R0.i32 = arg0; memcpy(&R_u16, &app_memory[R0.i32+0], 2); R0.i32 = (int32_t)((uint16_t)R_u16); return R0.i32; -/
def f_i32_load16_u_o0 : CFunc := { params := [.i32], body := [
    .assign (.reg 0 .i32) (.arg 0 .i32),
    .loadMem (.tmp 16) (.bin .add (.reg 0 .i32) (.lit 0)) 2,
    .assign (.reg 0 .i32) (.cast .i32 (.cast .u16 (.tmp 16))),
    .ret (.reg 0 .i32)] }
/-- `i32.load16_u offset=3`  ⇒  R0.i32 = arg0; memcpy(&R_u16, &app_memory[R0.i32+3], 2); R0.i32 = (int32_t)((uint16_t)R_u16); return R0.i32; -/
def f_i32_load16_u_o3 : CFunc := { params := [.i32], body := [
    .assign (.reg 0 .i32) (.arg 0 .i32),
    .loadMem (.tmp 16) (.bin .add (.reg 0 .i32) (.lit 3)) 2,
    .assign (.reg 0 .i32) (.cast .i32 (.cast .u16 (.tmp 16))),
    .ret (.reg 0 .i32)] }
/-- `i64.load8_s offset=0`  ⇒  R0.i32 = arg0; memcpy(&R_u8, &app_memory[R0.i32+0], 1); R0.i64 = (int64_t)((int8_t)R_u8); return R0.i64; -/
def f_i64_load8_s_o0 : CFunc := { params := [.i32], body := [
    .assign (.reg 0 .i32) (.arg 0 .i32),
    .loadMem (.tmp 8) (.bin .add (.reg 0 .i32) (.lit 0)) 1,
    .assign (.reg 0 .i64) (.cast .i64 (.cast .i8 (.tmp 8))),
    .ret (.reg 0 .i64)] }
/-- `i64.load8_s offset=3`  ⇒  R0.i32 = arg0; memcpy(&R_u8, &app_memory[R0.i32+3], 1); R0.i64 = (int64_t)((int8_t)R_u8); return R0.i64; -/
def f_i64_load8_s_o3 : CFunc := { params := [.i32], body := [
    .assign (.reg 0 .i32) (.arg 0 .i32),
    .loadMem (.tmp 8) (.bin .add (.reg 0 .i32) (.lit 3)) 1,
    .assign (.reg 0 .i64) (.cast .i64 (.cast .i8 (.tmp 8))),
    .ret (.reg 0 .i64)] }
/-- `i64.load8_u offset=0`  ⇒  R0.i32 = arg0; memcpy(&R_u8, &app_memory[R0.i32+0], 1); R0.i64 = (int64_t)((uint8_t)R_u8); return R0.i64; -/
def f_i64_load8_u_o0 : CFunc := { params := [.i32], body := [
    .assign (.reg 0 .i32) (.arg 0 .i32),
    .loadMem (.tmp 8) (.bin .add (.reg 0 .i32) (.lit 0)) 1,
    .assign (.reg 0 .i64) (.cast .i64 (.cast .u8 (.tmp 8))),
    .ret (.reg 0 .i64)] }
/-- `i64.load8_u offset=3`  ⇒  R0.i32 = arg0; memcpy(&R_u8, &app_memory[R0.i32+3], 1); R0.i64 = (int64_t)((uint8_t)R_u8); return R0.i64; -/
def f_i64_load8_u_o3 : CFunc := { params := [.i32], body := [
    .assign (.reg 0 .i32) (.arg 0 .i32),
    .loadMem (.tmp 8) (.bin .add (.reg 0 .i32) (.lit 3)) 1,
    .assign (.reg 0 .i64) (.cast .i64 (.cast .u8 (.tmp 8))),
    .ret (.reg 0 .i64)] }
/-- `i64.load16_s offset=0`  ⇒  R0.i32 = arg0; memcpy(&R_u16, &app_memory[R0.i32+0], 2); R0.i64 = (int64_t)((int16_t)R_u16); return R0.i64; -/
def f_i64_load16_s_o0 : CFunc := { params := [.i32], body := [
    .assign (.reg 0 .i32) (.arg 0 .i32),
    .loadMem (.tmp 16) (.bin .add (.reg 0 .i32) (.lit 0)) 2,
    .assign (.reg 0 .i64) (.cast .i64 (.cast .i16 (.tmp 16))),
    .ret (.reg 0 .i64)] }
/-- `i64.load16_s offset=3`  ⇒  R0.i32 = arg0; memcpy(&R_u16, &app_memory[R0.i32+3], 2); R0.i64 = (int64_t)((int16_t)R_u16); return R0.i64; -/
def f_i64_load16_s_o3 : CFunc := { params := [.i32], body := [
    .assign (.reg 0 .i32) (.arg 0 .i32),
    .loadMem (.tmp 16) (.bin .add (.reg 0 .i32) (.lit 3)) 2,
    .assign (.reg 0 .i64) (.cast .i64 (.cast .i16 (.tmp 16))),
    .ret (.reg 0 .i64)] }
/-- `i64.load16_u offset=0`  ⇒  R0.i32 = arg0; memcpy(&R_u16, &app_memory[R0.i32+0], 2); R0.i64 = (int64_t)((uint16_t)R_u16); return R0.i64; -/
def f_i64_load16_u_o0 : CFunc := { params := [.i32], body := [
    .assign (.reg 0 .i32) (.arg 0 .i32),
    .loadMem (.tmp 16) (.bin .add (.reg 0 .i32) (.lit 0)) 2,
    .assign (.reg 0 .i64) (.cast .i64 (.cast .u16 (.tmp 16))),
    .ret (.reg 0 .i64)] }
/-- `i64.load16_u offset=3`  ⇒  R0.i32 = arg0; memcpy(&R_u16, &app_memory[R0.i32+3], 2); R0.i64 = (int64_t)((uint16_t)R_u16); return R0.i64; -/
def f_i64_load16_u_o3 : CFunc := { params := [.i32], body := [
    .assign (.reg 0 .i32) (.arg 0 .i32),
    .loadMem (.tmp 16) (.bin .add (.reg 0 .i32) (.lit 3)) 2,
    .assign (.reg 0 .i64) (.cast .i64 (.cast .u16 (.tmp 16))),
    .ret (.reg 0 .i64)] }
/-- `i64.load32_s offset=0`  ⇒  R0.i32 = arg0; memcpy(&R_u32, &app_memory[R0.i32+0], 4); R0.i64 = (int64_t)((int32_t)R_u32); return R0.i64; -/
def f_i64_load32_s_o0 : CFunc := { params := [.i32], body := [
    .assign (.reg 0 .i32) (.arg 0 .i32),
    .loadMem (.tmp 32) (.bin .add (.reg 0 .i32) (.lit 0)) 4,
    .assign (.reg 0 .i64) (.cast .i64 (.cast .i32 (.tmp 32))),
    .ret (.reg 0 .i64)] }
/-- `i64.load32_s offset=3`  ⇒  R0.i32 = arg0; memcpy(&R_u32, &app_memory[R0.i32+3], 4); R0.i64 = (int64_t)((int32_t)R_u32); return R0.i64; -/
def f_i64_load32_s_o3 : CFunc := { params := [.i32], body := [
    .assign (.reg 0 .i32) (.arg 0 .i32),
    .loadMem (.tmp 32) (.bin .add (.reg 0 .i32) (.lit 3)) 4,
    .assign (.reg 0 .i64) (.cast .i64 (.cast .i32 (.tmp 32))),
    .ret (.reg 0 .i64)] }
/-- `i64.load32_u offset=0`  ⇒  R0.i32 = arg0; memcpy(&R_u32, &app_memory[R0.i32+0], 4); R0.i64 = (int64_t)((uint32_t)R_u32); return R0.i64; -/
def f_i64_load32_u_o0 : CFunc := { params := [.i32], body := [
    .assign (.reg 0 .i32) (.arg 0 .i32),
    .loadMem (.tmp 32) (.bin .add (.reg 0 .i32) (.lit 0)) 4,
    .assign (.reg 0 .i64) (.cast .i64 (.cast .u32 (.tmp 32))),
    .ret (.reg 0 .i64)] }
/-- `i64.load32_u offset=3`  ⇒  R0.i32 = arg0; memcpy(&R_u32, &app_memory[R0.i32+3], 4); R0.i64 = (int64_t)((uint32_t)R_u32); return R0.i64; -/
def f_i64_load32_u_o3 : CFunc := { params := [.i32], body := [
    .assign (.reg 0 .i32) (.arg 0 .i32),
    .loadMem (.tmp 32) (.bin .add (.reg 0 .i32) (.lit 3)) 4,
    .assign (.reg 0 .i64) (.cast .i64 (.cast .u32 (.tmp 32))),
    .ret (.reg 0 .i64)] }
/-- `i32.store offset=0`  ⇒  R0.i32 = arg0; R1.i32 = arg1; memcpy(&app_memory[R0.i32+0], &R1.i32, 4); return; -/
def f_i32_store_o0 : CFunc := { params := [.i32, .i32], body := [
    .assign (.reg 0 .i32) (.arg 0 .i32),
    .assign (.reg 1 .i32) (.arg 1 .i32),
    .storeMem (.bin .add (.reg 0 .i32) (.lit 0)) (.reg 1 .i32) 4,
    .retVoid] }
/-- `i32.store offset=3`  ⇒  R0.i32 = arg0; R1.i32 = arg1; memcpy(&app_memory[R0.i32+3], &R1.i32, 4); return; -/
def f_i32_store_o3 : CFunc := { params := [.i32, .i32], body := [
    .assign (.reg 0 .i32) (.arg 0 .i32),
    .assign (.reg 1 .i32) (.arg 1 .i32),
    .storeMem (.bin .add (.reg 0 .i32) (.lit 3)) (.reg 1 .i32) 4,
    .retVoid] }
/-- `i64.store offset=0`  ⇒  R0.i32 = arg0; R1.i64 = arg1; memcpy(&app_memory[R0.i32+0], &R1.i64, 8); return; -/
def f_i64_store_o0 : CFunc := { params := [.i32, .i64], body := [
    .assign (.reg 0 .i32) (.arg 0 .i32),
    .assign (.reg 1 .i64) (.arg 1 .i64),
    .storeMem (.bin .add (.reg 0 .i32) (.lit 0)) (.reg 1 .i64) 8,
    .retVoid] }
/-- `i64.store offset=3`  ⇒  R0.i32 = arg0; R1.i64 = arg1; memcpy(&app_memory[R0.i32+3], &R1.i64, 8); return; -/
def f_i64_store_o3 : CFunc := { params := [.i32, .i64], body := [
    .assign (.reg 0 .i32) (.arg 0 .i32),
    .assign (.reg 1 .i64) (.arg 1 .i64),
    .storeMem (.bin .add (.reg 0 .i32) (.lit 3)) (.reg 1 .i64) 8,
    .retVoid] }
/-- `i32.store8 offset=0`  ⇒  R0.i32 = arg0; R1.i32 = arg1; R_u8 = (uint8_t)((int8_t)(R1.i32)); memcpy(&app_memory[R0.i32+0], &R_u8, 1); return; -/
def f_i32_store8_o0 : CFunc := { params := [.i32, .i32], body := [
    .assign (.reg 0 .i32) (.arg 0 .i32),
    .assign (.reg 1 .i32) (.arg 1 .i32),
    .assign (.tmp 8) (.cast .u8 (.cast .i8 (.reg 1 .i32))),
    .storeMem (.bin .add (.reg 0 .i32) (.lit 0)) (.tmp 8) 1,
    .retVoid] }
/-- `i32.store8 offset=3`  ⇒  R0.i32 = arg0; R1.i32 = arg1; R_u8 = (uint8_t)((int8_t)(R1.i32)); memcpy(&app_memory[R0.i32+3], &R_u8, 1); return; -/
def f_i32_store8_o3 : CFunc := { params := [.i32, .i32], body := [
    .assign (.reg 0 .i32) (.arg 0 .i32),
    .assign (.reg 1 .i32) (.arg 1 .i32),
    .assign (.tmp 8) (.cast .u8 (.cast .i8 (.reg 1 .i32))),
    .storeMem (.bin .add (.reg 0 .i32) (.lit 3)) (.tmp 8) 1,
    .retVoid] }
/-- `i32.store16 offset=0`  ⇒  R0.i32 = arg0; R1.i32 = arg1; R_u16 = (uint16_t)((int16_t)(R1.i32)); memcpy(&app_memory[R0.i32+0], &R_u16, 2); return; -/
def f_i32_store16_o0 : CFunc := { params := [.i32, .i32], body := [
    .assign (.reg 0 .i32) (.arg 0 .i32),
    .assign (.reg 1 .i32) (.arg 1 .i32),
    .assign (.tmp 16) (.cast .u16 (.cast .i16 (.reg 1 .i32))),
    .storeMem (.bin .add (.reg 0 .i32) (.lit 0)) (.tmp 16) 2,
    .retVoid] }
/-- `i32.store16 offset=3`  ⇒  R0.i32 = arg0; R1.i32 = arg1; R_u16 = (uint16_t)((int16_t)(R1.i32)); memcpy(&app_memory[R0.i32+3], &R_u16, 2); return; -/
def f_i32_store16_o3 : CFunc := { params := [.i32, .i32], body := [
    .assign (.reg 0 .i32) (.arg 0 .i32),
    .assign (.reg 1 .i32) (.arg 1 .i32),
    .assign (.tmp 16) (.cast .u16 (.cast .i16 (.reg 1 .i32))),
    .storeMem (.bin .add (.reg 0 .i32) (.lit 3)) (.tmp 16) 2,
    .retVoid] }
/-- `i64.store8 offset=0`  ⇒  R0.i32 = arg0; R1.i64 = arg1; R_u8 = (uint8_t)((int8_t)(R1.i64)); memcpy(&app_memory[R0.i32+0], &R_u8, 1); return; -/
def f_i64_store8_o0 : CFunc := { params := [.i32, .i64], body := [
    .assign (.reg 0 .i32) (.arg 0 .i32),
    .assign (.reg 1 .i64) (.arg 1 .i64),
    .assign (.tmp 8) (.cast .u8 (.cast .i8 (.reg 1 .i64))),
    .storeMem (.bin .add (.reg 0 .i32) (.lit 0)) (.tmp 8) 1,
    .retVoid] }
/-- `i64.store8 offset=3`  ⇒  R0.i32 = arg0; R1.i64 = arg1; R_u8 = (uint8_t)((int8_t)(R1.i64)); memcpy(&app_memory[R0.i32+3], &R_u8, 1); return; -/
def f_i64_store8_o3 : CFunc := { params := [.i32, .i64], body := [
    .assign (.reg 0 .i32) (.arg 0 .i32),
    .assign (.reg 1 .i64) (.arg 1 .i64),
    .assign (.tmp 8) (.cast .u8 (.cast .i8 (.reg 1 .i64))),
    .storeMem (.bin .add (.reg 0 .i32) (.lit 3)) (.tmp 8) 1,
    .retVoid] }
/-- `i64.store16 offset=0`  ⇒  R0.i32 = arg0; R1.i64 = arg1; R_u16 = (uint16_t)((int16_t)(R1.i64)); memcpy(&app_memory[R0.i32+0], &R_u16, 2); return; -/
def f_i64_store16_o0 : CFunc := { params := [.i32, .i64], body := [
    .assign (.reg 0 .i32) (.arg 0 .i32),
    .assign (.reg 1 .i64) (.arg 1 .i64),
    .assign (.tmp 16) (.cast .u16 (.cast .i16 (.reg 1 .i64))),
    .storeMem (.bin .add (.reg 0 .i32) (.lit 0)) (.tmp 16) 2,
    .retVoid] }
/-- `i64.store16 offset=3`  ⇒  R0.i32 = arg0; R1.i64 = arg1; R_u16 = (uint16_t)((int16_t)(R1.i64)); memcpy(&app_memory[R0.i32+3], &R_u16, 2); return; -/
def f_i64_store16_o3 : CFunc := { params := [.i32, .i64], body := [
    .assign (.reg 0 .i32) (.arg 0 .i32),
    .assign (.reg 1 .i64) (.arg 1 .i64),
    .assign (.tmp 16) (.cast .u16 (.cast .i16 (.reg 1 .i64))),
    .storeMem (.bin .add (.reg 0 .i32) (.lit 3)) (.tmp 16) 2,
    .retVoid] }
/-- `i64.store32 offset=0`  ⇒  R0.i32 = arg0; R1.i64 = arg1; R_u32 = (uint32_t)((int32_t)(R1.i64)); memcpy(&app_memory[R0.i32+0], &R_u32, 4); return; -/
def f_i64_store32_o0 : CFunc := { params := [.i32, .i64], body := [
    .assign (.reg 0 .i32) (.arg 0 .i32),
    .assign (.reg 1 .i64) (.arg 1 .i64),
    .assign (.tmp 32) (.cast .u32 (.cast .i32 (.reg 1 .i64))),
    .storeMem (.bin .add (.reg 0 .i32) (.lit 0)) (.tmp 32) 4,
    .retVoid] }
/-- `i64.store32 offset=3`  ⇒  R0.i32 = arg0; R1.i64 = arg1; R_u32 = (uint32_t)((int32_t)(R1.i64)); memcpy(&app_memory[R0.i32+3], &R_u32, 4); return; -/
def f_i64_store32_o3 : CFunc := { params := [.i32, .i64], body := [
    .assign (.reg 0 .i32) (.arg 0 .i32),
    .assign (.reg 1 .i64) (.arg 1 .i64),
    .assign (.tmp 32) (.cast .u32 (.cast .i32 (.reg 1 .i64))),
    .storeMem (.bin .add (.reg 0 .i32) (.lit 3)) (.tmp 32) 4,
    .retVoid] }
-- memory_size (memory.size): UNMODELLED: identifier app_memory_size   C: val_t R0; R0.i32 = app_memory_size; return R0.i32;
-- memory_fill (memory.fill): UNMODELLED: identifier memset   C: val_t R0, R1, R2; R0.i32 = arg0; R1.i32 = arg1; R2.i32 = arg2; memset(&app_memory[R0.i32], R1.i32, R2.i32); return;
-- memory_copy (memory.copy): UNMODELLED: identifier memmove   C: val_t R0, R1, R2; R0.i32 = arg0; R1.i32 = arg1; R2.i32 = arg2; memmove(&app_memory[R0.i32], &app_memory[R1.i32], (uint32_t)R2.i32); return;

def table : List (String × CFunc) := [("i32_add", f_i32_add), ("i32_sub", f_i32_sub), ("i32_mul", f_i32_mul), ("i32_div_s", f_i32_div_s), ("i32_div_u", f_i32_div_u), ("i32_rem_s", f_i32_rem_s), ("i32_rem_u", f_i32_rem_u), ("i32_and", f_i32_and), ("i32_or", f_i32_or), ("i32_xor", f_i32_xor), ("i32_shl", f_i32_shl), ("i32_shr_s", f_i32_shr_s), ("i32_shr_u", f_i32_shr_u), ("i32_rotl", f_i32_rotl), ("i32_rotr", f_i32_rotr), ("i32_eq", f_i32_eq), ("i32_ne", f_i32_ne), ("i32_lt_s", f_i32_lt_s), ("i32_lt_u", f_i32_lt_u), ("i32_gt_s", f_i32_gt_s), ("i32_gt_u", f_i32_gt_u), ("i32_le_s", f_i32_le_s), ("i32_le_u", f_i32_le_u), ("i32_ge_s", f_i32_ge_s), ("i32_ge_u", f_i32_ge_u), ("i32_eqz", f_i32_eqz), ("i32_clz", f_i32_clz), ("i32_ctz", f_i32_ctz), ("i32_popcnt", f_i32_popcnt), ("select_i32", f_select_i32), ("i64_add", f_i64_add), ("i64_sub", f_i64_sub), ("i64_mul", f_i64_mul), ("i64_div_u", f_i64_div_u), ("i64_rem_s", f_i64_rem_s), ("i64_rem_u", f_i64_rem_u), ("i64_and", f_i64_and), ("i64_or", f_i64_or), ("i64_xor", f_i64_xor), ("i64_shl", f_i64_shl), ("i64_shr_s", f_i64_shr_s), ("i64_shr_u", f_i64_shr_u), ("i64_rotl", f_i64_rotl), ("i64_rotr", f_i64_rotr), ("i64_eq", f_i64_eq), ("i64_ne", f_i64_ne), ("i64_lt_s", f_i64_lt_s), ("i64_lt_u", f_i64_lt_u), ("i64_gt_s", f_i64_gt_s), ("i64_gt_u", f_i64_gt_u), ("i64_le_s", f_i64_le_s), ("i64_le_u", f_i64_le_u), ("i64_ge_s", f_i64_ge_s), ("i64_ge_u", f_i64_ge_u), ("i64_eqz", f_i64_eqz), ("i64_clz", f_i64_clz), ("i64_ctz", f_i64_ctz), ("i64_popcnt", f_i64_popcnt), ("select_i64", f_select_i64), ("i32_wrap_i64", f_i32_wrap_i64), ("i64_extend_i32_s", f_i64_extend_i32_s), ("i64_extend_i32_u", f_i64_extend_i32_u), ("i32_const_0", f_i32_const_0), ("i32_const_1", f_i32_const_1), ("i32_const_2", f_i32_const_2), ("i32_const_3", f_i32_const_3), ("i32_const_4", f_i32_const_4), ("i32_const_5", f_i32_const_5), ("i64_const_0", f_i64_const_0), ("i64_const_1", f_i64_const_1), ("i64_const_2", f_i64_const_2), ("i64_const_3", f_i64_const_3), ("i64_const_5", f_i64_const_5), ("i64_const_6", f_i64_const_6), ("i32_load_o0", f_i32_load_o0), ("i32_load_o3", f_i32_load_o3), ("i64_load_o0", f_i64_load_o0), ("i64_load_o3", f_i64_load_o3), ("i32_load8_s_o0", f_i32_load8_s_o0), ("i32_load8_s_o3", f_i32_load8_s_o3), ("i32_load8_u_o0", f_i32_load8_u_o0), ("i32_load8_u_o3", f_i32_load8_u_o3), ("i32_load16_s_o0", f_i32_load16_s_o0), ("i32_load16_s_o3", f_i32_load16_s_o3), ("i32_load16_u_o0", f_i32_load16_u_o0), ("i32_load16_u_o3", f_i32_load16_u_o3), ("i64_load8_s_o0", f_i64_load8_s_o0), ("i64_load8_s_o3", f_i64_load8_s_o3), ("i64_load8_u_o0", f_i64_load8_u_o0), ("i64_load8_u_o3", f_i64_load8_u_o3), ("i64_load16_s_o0", f_i64_load16_s_o0), ("i64_load16_s_o3", f_i64_load16_s_o3), ("i64_load16_u_o0", f_i64_load16_u_o0), ("i64_load16_u_o3", f_i64_load16_u_o3), ("i64_load32_s_o0", f_i64_load32_s_o0), ("i64_load32_s_o3", f_i64_load32_s_o3), ("i64_load32_u_o0", f_i64_load32_u_o0), ("i64_load32_u_o3", f_i64_load32_u_o3), ("i32_store_o0", f_i32_store_o0), ("i32_store_o3", f_i32_store_o3), ("i64_store_o0", f_i64_store_o0), ("i64_store_o3", f_i64_store_o3), ("i32_store8_o0", f_i32_store8_o0), ("i32_store8_o3", f_i32_store8_o3), ("i32_store16_o0", f_i32_store16_o0), ("i32_store16_o3", f_i32_store16_o3), ("i64_store8_o0", f_i64_store8_o0), ("i64_store8_o3", f_i64_store8_o3), ("i64_store16_o0", f_i64_store16_o0), ("i64_store16_o3", f_i64_store16_o3), ("i64_store32_o0", f_i64_store32_o0), ("i64_store32_o3", f_i64_store32_o3)]
end WaVerif.Gen.C03
