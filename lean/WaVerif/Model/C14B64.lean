import WaVerif.Gen.C14Tables
/-!
# C14 — model of encoding/base64 (core Lean only, executable)
An encoding is an alphabet of 64 character codes plus an optional padding character.  Alphabets come from
`Gen/C14Tables.lean`.  `DecodeString` ignores '\r' and '\n' anywhere in its input (base64.wa decodeQuantum skips them
while collecting a quantum and between/after padding characters), so decoding is specified on the stripped input.
-/
namespace WaVerif.C14
open WaVerif.C14.Gen

structure B64Enc where
  alphabet : List Nat
  pad : Option Nat

def b64Sym (e : B64Enc) (v : Nat) : Nat := e.alphabet.getD v 0

/-- position of `c` in the alphabet (the source's `decodeMap`), `none` = 0xFF -/
def b64Val (e : B64Enc) (c : Nat) : Option Nat :=
  let i := e.alphabet.idxOf c
  if i < e.alphabet.length then some i else none

def b64Pads (e : B64Enc) (n : Nat) : List Nat :=
  match e.pad with
  | some p => List.replicate n p
  | none => []

/-- `Encode` -/
def b64Encode (e : B64Enc) : List Nat → List Nat
  | [] => []
  | [a] => [b64Sym e (a / 4), b64Sym e (a % 4 * 16)] ++ b64Pads e 2
  | [a, b] => [b64Sym e (a / 4), b64Sym e (a % 4 * 16 + b / 16), b64Sym e (b % 16 * 4)] ++ b64Pads e 1
  | a :: b :: c :: rest =>
    b64Sym e (a / 4) :: b64Sym e (a % 4 * 16 + b / 16) :: b64Sym e (b % 16 * 4 + c / 64) :: b64Sym e (c % 64) :: b64Encode e rest

def isPad (e : B64Enc) (c : Nat) : Bool := e.pad == some c

/-- decoding of newline-free input, quantum by quantum (non-strict: unused low bits of the last symbol are ignored) -/
def b64DecodeCore (e : B64Enc) : List Nat → Option (List Nat)
  | [] => some []
  | [_] => none
  | [a, b] =>
    match e.pad, b64Val e a, b64Val e b with
    | none, some va, some vb => some [va * 4 + vb / 16]
    | _, _, _ => none
  | [a, b, c] =>
    match e.pad, b64Val e a, b64Val e b, b64Val e c with
    | none, some va, some vb, some vc => some [va * 4 + vb / 16, vb % 16 * 16 + vc / 4]
    | _, _, _, _ => none
  | a :: b :: c :: d :: rest =>
    match b64Val e a, b64Val e b with
    | some va, some vb =>
      if isPad e c then
        (if isPad e d ∧ rest = [] then some [va * 4 + vb / 16] else none)
      else match b64Val e c with
        | none => none
        | some vc =>
          if isPad e d then
            (if rest = [] then some [va * 4 + vb / 16, vb % 16 * 16 + vc / 4] else none)
          else match b64Val e d with
            | none => none
            | some vd =>
              match b64DecodeCore e rest with
              | none => none
              | some bs => some ((va * 4 + vb / 16) :: (vb % 16 * 16 + vc / 4) :: (vc % 4 * 64 + vd) :: bs)
    | _, _ => none

def stripNewlines (s : List Nat) : List Nat := s.filter (fun c => c != 10 && c != 13)

/-- `DecodeString` -/
def b64Decode (e : B64Enc) (s : List Nat) : Option (List Nat) := b64DecodeCore e (stripNewlines s)

/-- `EncodedLen` as in current Go (the port computes the unpadded length as `(n*8+5)/6`, equal for n < 2^28) -/
def b64EncodedLen (e : B64Enc) (n : Nat) : Nat :=
  match e.pad with
  | some _ => (n + 2) / 3 * 4
  | none => n / 3 * 4 + (n % 3 * 8 + 5) / 6

/-- `DecodedLen` -/
def b64DecodedLen (e : B64Enc) (n : Nat) : Nat :=
  match e.pad with
  | some _ => n / 4 * 3
  | none => n * 6 / 8

def encStd : B64Enc := ⟨Gen.b64Std, some b64StdPadding⟩
def encURL : B64Enc := ⟨Gen.b64URL, some b64StdPadding⟩
def encRawStd : B64Enc := ⟨Gen.b64Std, none⟩
def encRawURL : B64Enc := ⟨Gen.b64URL, none⟩

end WaVerif.C14
