import WaVerif.Model.C14B64
/-!
# C14 — model of encoding/base32 with Go's semantics (core Lean only, executable)
The Wa port is an older version of the Go package (always '='-padded, no WithPadding).  Encoding follows base32.wa;
DECODING follows the reference Go decoder — newlines are stripped first, a final quantum may carry 2, 4, 5 or 7 symbols
followed by padding, and (a quirk of Go's decoder) fewer than 8 characters after a padded final quantum are ignored.
The port's decoder differs from this on malformed input (recorded finding); on well-formed input they agree.
-/
namespace WaVerif.C14
open WaVerif.C14.Gen

def b32Pads (n : Nat) : List Nat := List.replicate n 61

/-- `Encode` (quintets written with `/` and `%`) -/
def b32Encode (e : B64Enc) : List Nat → List Nat
  | [] => []
  | [a] => [b64Sym e (a / 8), b64Sym e (a % 8 * 4)] ++ b32Pads 6
  | [a, b] => [b64Sym e (a / 8), b64Sym e (a % 8 * 4 + b / 64), b64Sym e (b / 2 % 32), b64Sym e (b % 2 * 16)] ++ b32Pads 4
  | [a, b, c] =>
    [b64Sym e (a / 8), b64Sym e (a % 8 * 4 + b / 64), b64Sym e (b / 2 % 32), b64Sym e (b % 2 * 16 + c / 16),
     b64Sym e (c % 16 * 2)] ++ b32Pads 3
  | [a, b, c, d] =>
    [b64Sym e (a / 8), b64Sym e (a % 8 * 4 + b / 64), b64Sym e (b / 2 % 32), b64Sym e (b % 2 * 16 + c / 16),
     b64Sym e (c % 16 * 2 + d / 128), b64Sym e (d / 4 % 32), b64Sym e (d % 4 * 8)] ++ b32Pads 1
  | a :: b :: c :: d :: f :: rest =>
    b64Sym e (a / 8) :: b64Sym e (a % 8 * 4 + b / 64) :: b64Sym e (b / 2 % 32) :: b64Sym e (b % 2 * 16 + c / 16) ::
    b64Sym e (c % 16 * 2 + d / 128) :: b64Sym e (d / 4 % 32) :: b64Sym e (d % 4 * 8 + f / 32) :: b64Sym e (f % 32) ::
    b32Encode e rest

/-- what may follow the first padding character of the final quantum: at least `need` more padding characters,
and fewer than 8 characters in all -/
def padTail (need : Nat) (rem : List Nat) : Bool :=
  decide (rem.length < 8) && decide (need ≤ rem.length) && (rem.take need).all (· == 61)

/-- decoding of newline-free input -/
def b32DecodeCore (e : B64Enc) : Nat → List Nat → Option (List Nat)
  | 0, _ => none
  | fuel + 1, s =>
    match s with
    | [] => some []
    | c0 :: c1 :: c2 :: tl =>
      match b64Val e c0, b64Val e c1 with
      | some v0, some v1 =>
        let d0 := v0 * 8 + v1 / 4
        if c2 = 61 then (if padTail 5 tl then some [d0] else none)
        else match b64Val e c2, tl with
          | some v2, c3 :: c4 :: tl =>
            match b64Val e c3 with
            | none => none
            | some v3 =>
              let d1 := v1 % 4 * 64 + v2 * 2 + v3 / 16
              if c4 = 61 then (if padTail 3 tl then some [d0, d1] else none)
              else match b64Val e c4, tl with
                | some v4, c5 :: tl =>
                  let d2 := v3 % 16 * 16 + v4 / 2
                  if c5 = 61 then (if padTail 2 tl then some [d0, d1, d2] else none)
                  else match b64Val e c5, tl with
                    | some v5, c6 :: c7 :: tl =>
                      match b64Val e c6 with
                      | none => none
                      | some v6 =>
                        let d3 := v4 % 2 * 128 + v5 * 4 + v6 / 8
                        if c7 = 61 then (if padTail 0 tl then some [d0, d1, d2, d3] else none)
                        else match b64Val e c7 with
                          | none => none
                          | some v7 =>
                            match b32DecodeCore e fuel tl with
                            | none => none
                            | some bs => some (d0 :: d1 :: d2 :: d3 :: (v6 % 8 * 32 + v7) :: bs)
                    | _, _ => none
                | _, _ => none
          | _, _ => none
      | _, _ => none
    | _ => none

/-- `DecodeString` -/
def b32Decode (e : B64Enc) (s : List Nat) : Option (List Nat) :=
  let t := stripNewlines s
  b32DecodeCore e (t.length + 1) t

def b32EncodedLen (n : Nat) : Nat := (n + 4) / 5 * 8
def b32DecodedLen (n : Nat) : Nat := n / 8 * 5

def enc32Std : B64Enc := ⟨Gen.b32Std, some 61⟩
def enc32Hex : B64Enc := ⟨Gen.b32Hex, some 61⟩

end WaVerif.C14
