import WaVerif.Base.GoInt
/-!
# C15 — constant folding: model of internal/constant (integer part) and of the checker's
representability / overflow rules (hand-written; tied to /repo by the correspondence run)

Untyped integer constants are `Int`.  The package keeps two representations, `int64Val` and
`intVal` (math/big), in a normal form: a value is an `int64Val` exactly when it fits 64 signed bits
(`makeInt`, `MakeInt64`, `MakeFromLiteral` all normalise).  The model therefore branches on `fits64`
exactly where value.go switches on the dynamic type, and models the `int64` fast paths with
wrap-around (`wrap64`, `BitVec 64`) exactly where Go's `int64` arithmetic is used.  The big-number
paths use `Int` arithmetic and, for the bitwise operators, math/big's sign-case algorithms
(`land`, `lor`, `lxor`, `landnot`).

`none` / `.panic` = the Go code panics (division by zero) — the type checker must prevent it.
-/
namespace WaVerif.C15
open WaVerif

/-- operators of `constant.BinaryOp` on Int operands (`quo` is `token.QUO_ASSIGN`, the forced integer division) -/
inductive BOp | add | sub | mul | quo | rem | and | or | xor | andnot
  deriving DecidableEq, Repr, Inhabited

inductive SOp | shl | shr
  deriving DecidableEq, Repr, Inhabited

inductive UOp | pos | neg | not
  deriving DecidableEq, Repr, Inhabited

/-! ## specification side: exact arithmetic on `Int` -/

/-- bit `i` of the infinite two's-complement expansion -/
def tbit : Int → Nat → Bool
  | .ofNat m, i => m.testBit i
  | .negSucc m, i => !m.testBit i

/-- `m &^ n` on naturals -/
def natAndNot (m n : Nat) : Nat := m ^^^ (m &&& n)

/-- math/big `Int.And`: sign cases over `nat` operations (`-x = ^(x-1)`) -/
def land : Int → Int → Int
  | .ofNat m, .ofNat n => .ofNat (m &&& n)
  | .ofNat m, .negSucc n => .ofNat (natAndNot m n)
  | .negSucc m, .ofNat n => .ofNat (natAndNot n m)
  | .negSucc m, .negSucc n => .negSucc (m ||| n)

/-- math/big `Int.Or` -/
def lor : Int → Int → Int
  | .ofNat m, .ofNat n => .ofNat (m ||| n)
  | .ofNat m, .negSucc n => .negSucc (natAndNot n m)
  | .negSucc m, .ofNat n => .negSucc (natAndNot m n)
  | .negSucc m, .negSucc n => .negSucc (m &&& n)

/-- math/big `Int.Xor` -/
def lxor : Int → Int → Int
  | .ofNat m, .ofNat n => .ofNat (m ^^^ n)
  | .ofNat m, .negSucc n => .negSucc (m ^^^ n)
  | .negSucc m, .ofNat n => .negSucc (m ^^^ n)
  | .negSucc m, .negSucc n => .ofNat (m ^^^ n)

/-- math/big `Int.AndNot` -/
def landnot : Int → Int → Int
  | .ofNat m, .ofNat n => .ofNat (natAndNot m n)
  | .ofNat m, .negSucc n => .ofNat (m &&& n)
  | .negSucc m, .ofNat n => .negSucc (m ||| n)
  | .negSucc m, .negSucc n => .ofNat (natAndNot n m)

/-- the exact value of `x op y` (truncated division, as the Go spec defines `/` and `%`).
For `quo`/`rem` only meaningful when `y ≠ 0` (guarded wherever it is used). -/
def exactBin : BOp → Int → Int → Int
  | .add, x, y => x + y
  | .sub, x, y => x - y
  | .mul, x, y => x * y
  | .quo, x, y => Int.tdiv x y
  | .rem, x, y => Int.tmod x y
  | .and, x, y => land x y
  | .or, x, y => lor x y
  | .xor, x, y => lxor x y
  | .andnot, x, y => landnot x y

def BOp.isDiv : BOp → Bool
  | .quo => true
  | .rem => true
  | _ => false

/-- exact shift: multiplication by / floor division by a power of two -/
def exactShift : SOp → Int → Nat → Int
  | .shl, x, s => x * 2 ^ s
  | .shr, x, s => x / 2 ^ s

def exactCmp : Go.Cmp → Int → Int → Bool
  | .eq, x, y => decide (x = y)
  | .ne, x, y => decide (x ≠ y)
  | .lt, x, y => decide (x < y)
  | .le, x, y => decide (x ≤ y)
  | .gt, x, y => decide (x > y)
  | .ge, x, y => decide (x ≥ y)

/-- exact unary operators; `^x` is `-x-1`, and for an unsigned type of `prec` bits the
`prec`-bit complement `(-x-1) mod 2^prec` (spec: "^x = m ^ x with m = all bits set for unsigned x") -/
def exactUn : UOp → Int → Nat → Int
  | .pos, y, _ => y
  | .neg, y, _ => -y
  | .not, y, prec => if prec = 0 then -y - 1 else (-y - 1) % 2 ^ prec

/-! ## implementation side: value.go -/

def fits64 (v : Int) : Bool := decide (-(2 : Int) ^ 63 ≤ v ∧ v < (2 : Int) ^ 63)

/-- Go `int64` arithmetic: the result modulo 2^64, read as signed -/
def wrap64 (v : Int) : Int := (BitVec.ofInt 64 v).toInt

/-- `is63bit` -/
def is63bit (x : Int) : Bool := decide (-(2 : Int) ^ 62 ≤ x ∧ x ≤ (2 : Int) ^ 62 - 1)
/-- `is32bit` -/
def is32bit (x : Int) : Bool := decide (-(2 : Int) ^ 31 ≤ x ∧ x ≤ (2 : Int) ^ 31 - 1)

/-- `constant.BinaryOp` on two Int values.  `quoWraps = true` is the pinned code, where the
`int64Val` case computes `c = a / b` in `int64` (so `MinInt64 / -1` wraps); `quoWraps = false` is
the code with that case repaired.  The check selects the variant by probing the real code. -/
def binaryOp (quoWraps : Bool) (op : BOp) (x y : Int) : Option Int :=
  if fits64 x && fits64 y then
    -- case int64Val
    match op with
    | .add => some (if is63bit x && is63bit y then wrap64 (x + y) else x + y)
    | .sub => some (if is63bit x && is63bit y then wrap64 (x - y) else x - y)
    | .mul => some (if is32bit x && is32bit y then wrap64 (x * y) else x * y)
    | .quo => if y = 0 then none else some (if quoWraps then wrap64 (Int.tdiv x y) else Int.tdiv x y)
    | .rem => if y = 0 then none else some (wrap64 (Int.tmod x y))
    | .and => some (BitVec.ofInt 64 x &&& BitVec.ofInt 64 y).toInt
    | .or => some (BitVec.ofInt 64 x ||| BitVec.ofInt 64 y).toInt
    | .xor => some (BitVec.ofInt 64 x ^^^ BitVec.ofInt 64 y).toInt
    | .andnot => some (BitVec.ofInt 64 x &&& ~~~BitVec.ofInt 64 y).toInt
  else
    -- case intVal (after `match` has promoted an int64Val operand)
    match op with
    | .add => some (x + y)
    | .sub => some (x - y)
    | .mul => some (x * y)
    | .quo => if y = 0 then none else some (Int.tdiv x y)
    | .rem => if y = 0 then none else some (Int.tmod x y)
    | .and => some (land x y)
    | .or => some (lor x y)
    | .xor => some (lxor x y)
    | .andnot => some (landnot x y)

/-- `constant.Shift` -/
def shift (op : SOp) (x : Int) (s : Nat) : Int :=
  if s = 0 then x else
  match op with
  | .shl => x <<< s
  | .shr => if fits64 x then ((BitVec.ofInt 64 x).sshiftRight s).toInt else x >>> s

/-- `constant.UnaryOp` (ADD, SUB, XOR with result precision `prec`) -/
def unaryOp (op : UOp) (y : Int) (prec : Nat) : Int :=
  match op with
  | .pos => y
  | .neg => if fits64 y then (if wrap64 (-y) ≠ y then wrap64 (-y) else -y) else -y
  | .not =>
    let z := ~~~y
    if prec > 0 then landnot z ((-1 : Int) <<< prec) else z

/-- `constant.Compare` (both representations compare the mathematical values) -/
def compare (c : Go.Cmp) (x y : Int) : Bool := exactCmp c x y

/-- `constant.CompareSpaceShip` on Int values (the Wa-only `x <=> y`): the int64 case compares
`x == y`, `x < y`, `x > y` directly, the big case is `big.Int.Cmp` -/
def spaceship (x y : Int) : Int :=
  if fits64 x && fits64 y then
    (if x = y then 0 else if x < y then -1 else 1)
  else
    (if x < y then -1 else if x = y then 0 else 1)

/-- result of an operation that may yield `Unknown` or panic -/
inductive CRes | ok (v : Int) | unknown | panic
  deriving DecidableEq, Repr, Inhabited

/-- `ToInt (BinaryOp n QUO d)`: the untyped quotient is a rational; `ToInt` succeeds iff it is integral -/
def toIntRat (n d : Int) : CRes :=
  if d = 0 then .panic else if n % d = 0 then .ok (n / d) else .unknown

/-- `Int64Val`: (value, exact) -/
def int64Val (v : Int) : Int × Bool := (wrap64 v, fits64 v)
/-- `Uint64Val` -/
def uint64Val (v : Int) : Int × Bool := (v % 2 ^ 64, decide (0 ≤ v ∧ v < 2 ^ 64))

/-- `BitLen` -/
def bitLen (v : Int) : Nat := if v.natAbs = 0 then 0 else Nat.log2 v.natAbs + 1
/-- `Sign` -/
def sign (v : Int) : Int := if v < 0 then -1 else if v = 0 then 0 else 1

/-! ### integer literals (`MakeFromLiteral(lit, token.INT, 0)`) -/

def digitVal (c : Char) : Option Nat :=
  if '0' ≤ c ∧ c ≤ '9' then some (c.toNat - '0'.toNat)
  else if 'a' ≤ c ∧ c ≤ 'f' then some (c.toNat - 'a'.toNat + 10)
  else if 'A' ≤ c ∧ c ≤ 'F' then some (c.toNat - 'A'.toNat + 10)
  else none

/-- value of a non-empty digit string in `base` -/
def digitsVal (base : Nat) : List Char → Nat → Option Nat
  | [], acc => some acc
  | c :: rest, acc =>
    match digitVal c with
    | some d => if d < base then digitsVal base rest (acc * base + d) else none
    | none => none

def digitsNE (base : Nat) (cs : List Char) : Option Nat :=
  if cs.isEmpty then none else digitsVal base cs 0

/-- base-0 syntax of strconv.ParseInt / big.Int.SetString (no sign, separators already removed) -/
def parseBase0 : List Char → Option Nat
  | '0' :: 'x' :: r => digitsNE 16 r
  | '0' :: 'X' :: r => digitsNE 16 r
  | '0' :: 'b' :: r => digitsNE 2 r
  | '0' :: 'B' :: r => digitsNE 2 r
  | '0' :: 'o' :: r => digitsNE 8 r
  | '0' :: 'O' :: r => digitsNE 8 r
  | ['0'] => some 0
  | '0' :: r => digitsNE 8 r
  | cs => digitsNE 10 cs

/-- the Wa port: strip every `_`, rewrite a leading `0o`/`0O` to `0`, then parse with base 0 -/
def litValue (s : List Char) : Option Nat :=
  let t := s.filter (· ≠ '_')
  let t := match t with
    | '0' :: 'o' :: r => '0' :: r
    | '0' :: 'O' :: r => '0' :: r
    | t => t
  parseBase0 t

/-! ## the checker: internal/types/expr.go -/

inductive Kind | int | int8 | int16 | int32 | int64 | uint | uint8 | uint16 | uint32 | uint64 | uintptr | untypedInt
  deriving DecidableEq, Repr, Inhabited

/-- the Go integer type a kind denotes when `int`/`uint`/`uintptr` are `word` bytes wide -/
def Kind.ity (word : Nat) : Kind → Option Go.ITy
  | .int => some ⟨word * 8, true⟩
  | .int8 => some ⟨8, true⟩
  | .int16 => some ⟨16, true⟩
  | .int32 => some ⟨32, true⟩
  | .int64 => some ⟨64, true⟩
  | .uint => some ⟨word * 8, false⟩
  | .uint8 => some ⟨8, false⟩
  | .uint16 => some ⟨16, false⟩
  | .uint32 => some ⟨32, false⟩
  | .uint64 => some ⟨64, false⟩
  | .uintptr => some ⟨word * 8, false⟩
  | .untypedInt => none

/-- the mathematical range of a Go integer type -/
def inRange (t : Go.ITy) (v : Int) : Prop :=
  if t.signed then -(2 : Int) ^ (t.bits - 1) ≤ v ∧ v < (2 : Int) ^ (t.bits - 1)
  else 0 ≤ v ∧ v < (2 : Int) ^ t.bits

instance (t : Go.ITy) (v : Int) : Decidable (inRange t v) := by unfold inRange; infer_instance

/-- `representableConst` for integer kinds, transcribed: first the `Int64Val` branch with its
per-kind bounds computed in `int64` (`int64(-1)<<(s-1)`, `int64(1)<<(s-1)-1` wrap for `s = 64`),
then the "does not fit into int64" branch via `BitLen` and `Sign`. -/
def representableConst (word : Nat) (v : Int) (k : Kind) : Bool :=
  let s := word * 8
  if fits64 v then
    match k with
    | .int => decide (wrap64 (-(2 ^ (s - 1))) ≤ v ∧ v ≤ wrap64 (wrap64 (2 ^ (s - 1)) - 1))
    | .int8 => decide (-(2 : Int) ^ 7 ≤ v ∧ v ≤ 2 ^ 7 - 1)
    | .int16 => decide (-(2 : Int) ^ 15 ≤ v ∧ v ≤ 2 ^ 15 - 1)
    | .int32 => decide (-(2 : Int) ^ 31 ≤ v ∧ v ≤ 2 ^ 31 - 1)
    | .int64 => true
    | .untypedInt => true
    | .uint => if s < 64 then decide (0 ≤ v ∧ v ≤ 2 ^ s - 1) else decide (0 ≤ v)
    | .uintptr => if s < 64 then decide (0 ≤ v ∧ v ≤ 2 ^ s - 1) else decide (0 ≤ v)
    | .uint8 => decide (0 ≤ v ∧ v ≤ 2 ^ 8 - 1)
    | .uint16 => decide (0 ≤ v ∧ v ≤ 2 ^ 16 - 1)
    | .uint32 => decide (0 ≤ v ∧ v ≤ 2 ^ 32 - 1)
    | .uint64 => decide (0 ≤ v)
  else
    match k with
    | .uint => decide (sign v ≥ 0 ∧ bitLen v ≤ s)
    | .uintptr => decide (sign v ≥ 0 ∧ bitLen v ≤ s)
    | .uint64 => decide (sign v ≥ 0 ∧ bitLen v ≤ 64)
    | .untypedInt => true
    | _ => false

def Kind.unsigned : Kind → Bool
  | .uint => true
  | .uint8 => true
  | .uint16 => true
  | .uint32 => true
  | .uint64 => true
  | .uintptr => true
  | _ => false

def Kind.typed : Kind → Bool
  | .untypedInt => false
  | _ => true

/-- bit size `conf.sizeof(typ) * 8` of a typed kind (0 for untyped) -/
def Kind.bits (word : Nat) (k : Kind) : Nat :=
  match k.ity word with
  | some t => t.bits
  | none => 0

/-- what the checker says about one constant expression -/
inductive Verdict
  | ok (v : Int)        -- accepted, with the folded value
  | okBool (b : Bool)   -- accepted comparison
  | overflow            -- "... overflows T"
  | cannot              -- "cannot convert ... to T" (constant conversion of an unrepresentable value)
  | divzero             -- "division by zero"
  | shift               -- negative / too large shift count
  | truncated           -- non-integral value converted to an integer type
  | panic               -- the constant package would panic (must be unreachable)
  deriving DecidableEq, Repr, Inhabited

/-- `Checker.binary`, constant operands of the same kind `k` (typed or untyped) -/
def checkBinary (qw : Bool) (word : Nat) (k : Kind) (op : BOp) (x y : Int) : Verdict :=
  if op.isDiv && decide (y = 0) then .divzero
  else match binaryOp qw op x y with
    | none => .panic
    | some v => if k.typed && !representableConst word v k then .overflow else .ok v

/-- shift bound of the checker: `1023 - 1 + 52` -/
def shiftBound : Int := 1074

/-- `Checker.shift`, constant operands; `s` is the (integer) count, already representable as `uint`
when it came from an untyped constant -/
def checkShift (word : Nat) (k : Kind) (op : SOp) (x s : Int) : Verdict :=
  if s < 0 then .shift
  else if !(decide (0 ≤ s ∧ s < 2 ^ 64)) || decide (s > shiftBound) then .shift
  else
    let v := shift op x s.toNat
    if k.typed && !representableConst word v k then .overflow else .ok v

/-- `Checker.unary` on a constant operand of kind `k` -/
def checkUnary (word : Nat) (k : Kind) (op : UOp) (x : Int) : Verdict :=
  let prec := if k.unsigned then k.bits word else 0
  let v := unaryOp op x prec
  if k.typed && !representableConst word v k then .overflow else .ok v

/-- `Checker.conversion` `T(x)` of an integer constant -/
def checkConvert (word : Nat) (k : Kind) (x : Int) : Verdict :=
  if representableConst word x k then .ok x else .cannot

/-- assignment / declaration `const c T = <untyped value>` (`convertUntyped` + `representable`) -/
def checkAssign (word : Nat) (k : Kind) (x : Int) : Verdict :=
  if representableConst word x k then .ok x else .overflow

def Verdict.bind (v : Verdict) (f : Int → Verdict) : Verdict :=
  match v with
  | .ok x => f x
  | e => e

/-! ### the declaration shapes the check generates -/

/-- `const c = K(x) op K(y)` -/
def declBinTyped (qw : Bool) (word : Nat) (k : Kind) (op : BOp) (x y : Int) : Verdict :=
  (checkConvert word k x).bind fun x' => (checkConvert word k y).bind fun y' => checkBinary qw word k op x' y'

/-- `const c K = x op y` (untyped operands: exact, then one representability check) -/
def declBinUntyped (qw : Bool) (word : Nat) (k : Kind) (op : BOp) (x y : Int) : Verdict :=
  (checkBinary qw word .untypedInt op x y).bind fun v => checkAssign word k v

/-- `const c = (K(x) op1 K(y)) op2 K(z)`: every typed intermediate result is checked -/
def declBin2Typed (qw : Bool) (word : Nat) (k : Kind) (op1 op2 : BOp) (x y z : Int) : Verdict :=
  (declBinTyped qw word k op1 x y).bind fun r => (checkConvert word k z).bind fun z' => checkBinary qw word k op2 r z'

/-- `const c K = (x op1 y) op2 z`: untyped intermediates are exact and unbounded, only the final
value is checked against `K` -/
def declBin2Untyped (qw : Bool) (word : Nat) (k : Kind) (op1 op2 : BOp) (x y z : Int) : Verdict :=
  (checkBinary qw word .untypedInt op1 x y).bind fun r =>
    (checkBinary qw word .untypedInt op2 r z).bind fun v => checkAssign word k v

/-- `const c = K(x) << s` / `>> s` with an untyped constant count -/
def declShiftTyped (word : Nat) (k : Kind) (op : SOp) (x s : Int) : Verdict :=
  (checkConvert word k x).bind fun x' =>
    if representableConst word s .uint then checkShift word k op x' s else .shift

/-- `const c K = x << s` -/
def declShiftUntyped (word : Nat) (k : Kind) (op : SOp) (x s : Int) : Verdict :=
  if representableConst word s .uint then (checkShift word .untypedInt op x s).bind fun v => checkAssign word k v
  else .shift

/-- `const c = op K(x)` -/
def declUnTyped (word : Nat) (k : Kind) (op : UOp) (x : Int) : Verdict :=
  (checkConvert word k x).bind fun x' => checkUnary word k op x'

/-- `const c K = op x` -/
def declUnUntyped (word : Nat) (k : Kind) (op : UOp) (x : Int) : Verdict :=
  (checkUnary word .untypedInt op x).bind fun v => checkAssign word k v

/-- `const c = K2(K1(x))` -/
def declConv (word : Nat) (k1 k2 : Kind) (x : Int) : Verdict :=
  (checkConvert word k1 x).bind fun x' => checkConvert word k2 x'

/-- `const c = K(x) rel K(y)` -/
def declCmpTyped (word : Nat) (k : Kind) (c : Go.Cmp) (x y : Int) : Verdict :=
  match checkConvert word k x, checkConvert word k y with
  | .ok x', .ok y' => .okBool (compare c x' y')
  | .ok _, e => e
  | e, _ => e

/-- `const c = K(x) <=> K(y)`: an `int` constant -1 / 0 / 1 -/
def declShipTyped (word : Nat) (k : Kind) (x y : Int) : Verdict :=
  match checkConvert word k x, checkConvert word k y with
  | .ok x', .ok y' => .ok (spaceship x' y')
  | .ok _, e => e
  | e, _ => e

/-- `const c K = n / d.0`-style: an untyped rational quotient assigned to an integer type -/
def declRatAssign (word : Nat) (k : Kind) (n d : Int) : Verdict :=
  if d = 0 then .divzero else
  match toIntRat n d with
  | .ok v => if representableConst word v k then .ok v else .truncated   -- float -> integer: the message is always "truncated"
  | .unknown => .truncated
  | .panic => .panic

/-! ## run-time side: encodings into the bit vectors of `Base.GoInt` -/

/-- the run-time representation of the mathematical value `v` at type `t` -/
def enc (t : Go.ITy) (v : Int) : BitVec t.bits := BitVec.ofInt t.bits v
/-- the mathematical value a run-time bit vector denotes at type `t` -/
def dec (t : Go.ITy) (b : BitVec t.bits) : Int := if t.signed then b.toInt else (b.toNat : Int)

def BOp.toGo : BOp → Go.Op
  | .add => .add | .sub => .sub | .mul => .mul | .quo => .quo | .rem => .rem
  | .and => .and | .or => .or | .xor => .xor | .andnot => .andnot

/-- what the compiled program computes for `x op y` on variables of type `t` holding `x`, `y`
(`none` = run-time panic) -/
def runBin (t : Go.ITy) (op : BOp) (x y : Int) : Option Int :=
  (Go.arith t.signed op.toGo (enc t x) (enc t y)).map (dec t)

def runShift (t : Go.ITy) (op : SOp) (x : Int) (s : Nat) : Int :=
  match op with
  | .shl => dec t (Go.shl (enc t x) s)
  | .shr => dec t (Go.shr t.signed (enc t x) s)

def runUn (t : Go.ITy) (op : UOp) (x : Int) : Int :=
  match op with
  | .pos => dec t (enc t x)
  | .neg => dec t (Go.neg (enc t x))
  | .not => dec t (Go.compl (enc t x))

def runConv (t1 t2 : Go.ITy) (x : Int) : Int := dec t2 (Go.conv t1.signed (enc t1 x) t2.bits)

/-- the run-time three-way comparison on the encodings -/
def runShip (t : Go.ITy) (x y : Int) : Int :=
  if Go.cmp t.signed .eq (enc t x) (enc t y) then 0
  else if Go.cmp t.signed .lt (enc t x) (enc t y) then -1 else 1

def runCmp (t : Go.ITy) (c : Go.Cmp) (x y : Int) : Bool := Go.cmp t.signed c (enc t x) (enc t y)

end WaVerif.C15
