import WaVerif.Model.C21Utf
/-!
# C21 — language-server document sync: server and client models (hand-written, core only)

## Server (transcribes /repo/internal/lsp)
* `lineStarts`          — `Mapper.initLines` (protocol/mapper.go): `[0]` plus `offset+1` of every `\n` byte.
* `colLoop`             — the column loop of `Mapper.PositionOffset`: decodes runes with
                          `utf8.DecodeRune`, the three error returns, the `r >= 0x10000` double step and
                          the "middle of a rune" `break`.
* `positionOffset`      — `Mapper.PositionOffset` incl. the line validation and the EOF-line rule
                          (`line == len(lineStart)` is accepted with character 0 and means EOF).
* `applyOne`, `applyIncremental`, `changedText`, `didChange`, `didOpen`
                        — server_text_sync.go. `didChange` carries the `.wa` URI-suffix test as a Bool.
Stored text and change texts are UTF-8 byte lists (`Nat`s below 256).

## Client (the specification side)
A document is a `List Char`. Two definitions of what a (line, UTF-16 column) position denotes:
* `lspCharIndex`  — the LSP definition: lines end at `\n`, `\r\n` or a lone `\r`; a column counts
                    UTF-16 code units of the line's content (terminator excluded); a column inside a
                    surrogate pair or beyond the content denotes nothing.
* `charIndex`     — the same with only `\n` (and `\r` directly before it as part of the terminator).
They coincide when the document has no lone `\r` (`lsp_charIndex_eq`, Props/C21.lean); the
property theorems are stated with `lspCharIndex` under the guard `NoLoneCR`.
Both accept the position `(number of lines, 0)` as EOF (the LSP rule "a line number greater than the
number of lines defaults back to the number of lines"; clients that address EOF of a file without
final newline this way exist, and the server implements exactly this one case).
-/
namespace WaVerif.C21

/-! ## server -/

inductive PErr | lineRange | eofCol | eolCol | badUtf8
  deriving DecidableEq, Repr

/-- `initLines`, the part after the initial `0`: `off` is the offset of the first byte of the list -/
def lineStartsFrom (off : Nat) : List Nat → List Nat
  | [] => []
  | b :: bs => if b = 10 then (off + 1) :: lineStartsFrom (off + 1) bs else lineStartsFrom (off + 1) bs

def lineStarts (bs : List Nat) : List Nat := 0 :: lineStartsFrom 0 bs

/-- column loop of `PositionOffset`. First argument: `p.Character - col16` (code units still to
advance); `content`: rest of file; `col8`: bytes advanced so far. -/
def colLoop : Nat → List Nat → Nat → Except PErr Nat
  | 0, _, col8 => .ok col8
  | k + 1, content, col8 =>
    let rs := decodeRune content
    if rs.2 = 0 then .error .eofCol
    else if rs.1 = 10 then .error .eolCol
    else if rs.2 = 1 ∧ rs.1 = runeError then .error .badUtf8
    else if rs.1 ≥ 0x10000 then
      match k with
      | 0 => .ok col8                      -- requested position is in the middle of a rune
      | k' + 1 => colLoop k' (content.drop rs.2) (col8 + rs.2)
    else colLoop k (content.drop rs.2) (col8 + rs.2)

/-- `Mapper.PositionOffset` -/
def positionOffset (bs : List Nat) (line char : Nat) : Except PErr Nat :=
  let ls := lineStarts bs
  match ls[line]? with
  | some off =>                                   -- p.Line < len(m.lineStart)
    match colLoop char (bs.drop off) 0 with
    | .ok c => .ok (off + c)
    | .error e => .error e
  | none =>
    if line = ls.length then
      if char = 0 then .ok bs.length else .error .eofCol
    else .error .lineRange                        -- p.Line > len(m.lineStart)

structure Pos where
  line : Nat
  char : Nat
  deriving DecidableEq, Repr

structure Range where
  start : Pos
  stop : Pos
  deriving DecidableEq, Repr

inductive AErr | pos (e : PErr) | nilRange | reversed | noChanges
  deriving DecidableEq, Repr

/-- `protocol.TextDocumentContentChangeEvent` as the server sees it -/
structure SChange where
  range : Option Range
  rangeLength : Nat
  text : List Nat
  deriving DecidableEq, Repr

/-- one iteration of the loop of `applyIncrementalChanges` (range present) -/
def applyOne (content : List Nat) (r : Range) (txt : List Nat) : Except AErr (List Nat) :=
  match positionOffset content r.start.line r.start.char with
  | .error e => .error (.pos e)
  | .ok s =>
    match positionOffset content r.stop.line r.stop.char with
    | .error e => .error (.pos e)
    | .ok e =>
      if e < s then .error .reversed
      else .ok (content.take s ++ txt ++ content.drop e)

/-- `applyIncrementalChanges` -/
def applyIncremental (content : List Nat) : List SChange → Except AErr (List Nat)
  | [] => .ok content
  | c :: rest =>
    match c.range with
    | none => .error .nilRange
    | some r =>
      match applyOne content r c.text with
      | .error e => .error e
      | .ok content' => applyIncremental content' rest

/-- `changedText` -/
def changedText (stored : List Nat) (changes : List SChange) : Except AErr (List Nat) :=
  match changes with
  | [] => .error .noChanges
  | [c] =>
    if c.range = none ∧ c.rangeLength = 0 then .ok c.text
    else applyIncremental stored changes
  | _ => applyIncremental stored changes

/-- `DidChange`: new stored text and the returned error. `isWa`: the URI ends in ".wa". -/
def didChange (isWa : Bool) (stored : List Nat) (changes : List SChange) : List Nat × Option AErr :=
  if !isWa then (stored, none)
  else match changedText stored changes with
    | .ok t => (t, none)
    | .error e => (stored, some e)

/-- `DidOpen` -/
def didOpen (txt : List Nat) : List Nat := txt

/-! ## client -/

/-- number of lines = number of `\n` + 1 -/
def numLines : List Char → Nat
  | [] => 1
  | c :: cs => if c = '\n' then numLines cs + 1 else numLines cs

/-- index of the first character of line `l` -/
def lineIndex : List Char → Nat → Option Nat
  | _, 0 => some 0
  | [], _ + 1 => none
  | c :: cs, l + 1 =>
    if c = '\n' then (lineIndex cs l).map (· + 1) else (lineIndex cs (l + 1)).map (· + 1)

/-- `cs` starts with the `\r\n` terminator -/
def startsCRLF (cs : List Char) : Bool :=
  match cs with
  | c :: d :: _ => c = '\r' && d = '\n'
  | _ => false

/-- index (relative to the line start `cs`) of UTF-16 column `k`; `none` if the column is beyond
the line's content or inside a surrogate pair -/
def colIndex : List Char → Nat → Option Nat
  | _, 0 => some 0
  | [], _ + 1 => none
  | c :: cs, k + 1 =>
    if c = '\n' then none
    else if startsCRLF (c :: cs) then none
    else if utf16Size c = 2 then
      match k with
      | 0 => none
      | k' + 1 => (colIndex cs k').map (· + 1)
    else (colIndex cs k).map (· + 1)

/-- character index denoted by a position -/
def charIndex (doc : List Char) (p : Pos) : Option Nat :=
  match lineIndex doc p.line with
  | some i => (colIndex (doc.drop i) p.char).map (i + ·)
  | none => if p.line = numLines doc ∧ p.char = 0 then some doc.length else none

/-! ### the LSP definition (three terminators) -/

def lspNumLines : List Char → Nat
  | [] => 1
  | c :: cs =>
    if c = '\n' then lspNumLines cs + 1
    else if c = '\r' ∧ cs.head? ≠ some '\n' then lspNumLines cs + 1   -- lone `\r`
    else lspNumLines cs                                                -- (`\r` of `\r\n`: the `\n` counts)

def lspLineIndex : List Char → Nat → Option Nat
  | _, 0 => some 0
  | [], _ + 1 => none
  | c :: cs, l + 1 =>
    if c = '\n' then (lspLineIndex cs l).map (· + 1)
    else if c = '\r' ∧ cs.head? ≠ some '\n' then (lspLineIndex cs l).map (· + 1)
    else (lspLineIndex cs (l + 1)).map (· + 1)

def lspColIndex : List Char → Nat → Option Nat
  | _, 0 => some 0
  | [], _ + 1 => none
  | c :: cs, k + 1 =>
    if c = '\n' ∨ c = '\r' then none
    else if utf16Size c = 2 then
      match k with
      | 0 => none
      | k' + 1 => (lspColIndex cs k').map (· + 1)
    else (lspColIndex cs k).map (· + 1)

def lspCharIndex (doc : List Char) (p : Pos) : Option Nat :=
  match lspLineIndex doc p.line with
  | some i => (lspColIndex (doc.drop i) p.char).map (i + ·)
  | none => if p.line = lspNumLines doc ∧ p.char = 0 then some doc.length else none

/-- every `\r` is directly followed by `\n` -/
def NoLoneCR : List Char → Bool
  | [] => true
  | c :: cs => (c != '\r' || cs.head? == some '\n') && NoLoneCR cs

/-! ### guards on columns (relative to a line start) -/

/-- column `k` falls between the two code units of an astral character -/
def midSurrogateCol : List Char → Nat → Bool
  | _, 0 => false
  | [], _ + 1 => false
  | c :: cs, k + 1 =>
    if c = '\n' then false
    else if startsCRLF (c :: cs) then false
    else if utf16Size c = 2 then
      match k with
      | 0 => true
      | k' + 1 => midSurrogateCol cs k'
    else midSurrogateCol cs k

/-- column `k` is one past the line's content on a line terminated by `\r\n`
(it would denote the gap between `\r` and `\n`) -/
def afterCRCol : List Char → Nat → Bool
  | _, 0 => false
  | [], _ + 1 => false
  | c :: cs, k + 1 =>
    if c = '\n' then false
    else if startsCRLF (c :: cs) then k = 0
    else if utf16Size c = 2 then
      match k with
      | 0 => false
      | k' + 1 => afterCRCol cs k'
    else afterCRCol cs k

def midSurrogate (doc : List Char) (p : Pos) : Bool :=
  match lineIndex doc p.line with
  | some i => midSurrogateCol (doc.drop i) p.char
  | none => false

def afterCR (doc : List Char) (p : Pos) : Bool :=
  match lineIndex doc p.line with
  | some i => afterCRCol (doc.drop i) p.char
  | none => false

/-! ### client edits -/

/-- replace the text between two positions; `none` if a position denotes nothing or the range is reversed -/
def clientApplyRange (idx : List Char → Pos → Option Nat) (doc : List Char) (r : Range) (txt : List Char) :
    Option (List Char) :=
  match idx doc r.start, idx doc r.stop with
  | some i, some j => if i ≤ j then some (doc.take i ++ txt ++ doc.drop j) else none
  | _, _ => none

inductive CChange
  | full (txt : List Char)
  | incr (r : Range) (txt : List Char)
  deriving Repr

def clientApply1 (idx : List Char → Pos → Option Nat) (doc : List Char) : CChange → Option (List Char)
  | .full t => some t
  | .incr r t => clientApplyRange idx doc r t

/-- the content changes of one `didChange`, applied in order (LSP: c1 on S gives S', c2 on S' gives S'') -/
def clientApplyList (idx : List Char → Pos → Option Nat) (doc : List Char) : List CChange → Option (List Char)
  | [] => some doc
  | c :: rest =>
    match clientApply1 idx doc c with
    | some d => clientApplyList idx d rest
    | none => none

inductive Notif
  | open (txt : List Char)
  | change (cs : List CChange)
  deriving Repr

def clientStep (idx : List Char → Pos → Option Nat) (doc : List Char) : Notif → Option (List Char)
  | .open t => some t
  | .change cs => clientApplyList idx doc cs

/-- how the client's change is put on the wire -/
def toServer : CChange → SChange
  | .full t => { range := none, rangeLength := 0, text := utf8 t }
  | .incr r t => { range := some r, rangeLength := 0, text := utf8 t }

def serverStep (stored : List Nat) : Notif → List Nat
  | .open t => didOpen (utf8 t)
  | .change cs => (didChange true stored (cs.map toServer)).1

def serverRun (stored : List Nat) : List Notif → List Nat
  | [] => stored
  | n :: rest => serverRun (serverStep stored n) rest

def isIncr : CChange → Bool
  | .incr _ _ => true
  | .full _ => false

/-- notifications the server handles: incremental changes only, or a single (then: full) change -/
def NotifShape : Notif → Bool
  | .open _ => true
  | .change cs => cs.all isIncr || cs.length == 1

/-- the client's document after a history; `none` if some range denotes nothing in the state it
applies to (such a history is not one a client sends) -/
def clientRun (idx : List Char → Pos → Option Nat) (doc : List Char) : List Notif → Option (List Char)
  | [] => some doc
  | n :: rest =>
    match clientStep idx doc n with
    | some d => clientRun idx d rest
    | none => none

/-- all intermediate states of a `didChange` list have no lone `\r` -/
def listNoLoneCR (idx : List Char → Pos → Option Nat) (doc : List Char) : List CChange → Bool
  | [] => true
  | c :: rest =>
    NoLoneCR doc &&
    match clientApply1 idx doc c with
    | some d => listNoLoneCR idx d rest
    | none => false

/-- guard of `sync_history`: every notification has a supported shape and every document state in
which a range is resolved has no lone `\r` -/
def historyGuard (idx : List Char → Pos → Option Nat) (doc : List Char) : List Notif → Bool
  | [] => true
  | n :: rest =>
    NotifShape n &&
    (match n with
     | .open _ => true
     | .change cs => listNoLoneCR idx doc cs) &&
    match clientStep idx doc n with
    | some d => historyGuard idx d rest
    | none => false

end WaVerif.C21
