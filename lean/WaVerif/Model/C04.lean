import WaVerif.Model.C19
/-!
# C04 — WebAssembly binary codec (framing level) and the name section

Bytes are `Nat`s below 256 (as in C19, whose LEB128 model and theorems are reused, not copied).

* u32 (`C19.encU` / `C19.decodeU32`), names (`vec(byte)`), generic vectors, limits;
* section framing: a module is the 8-byte header followed by sections `id size body`;
* the `name` custom section: module-name / function-names / local-names subsections;
* `buildNames`: the name section that the text DESCRIBES — every function index (imports first) and
  every local index (parameters first, then locals, continuing the numbering) gets exactly the name
  written in the text; unnamed items get no entry.

Decoders return `Option (value × rest)`.
-/
namespace WaVerif.C04
open WaVerif.C19

abbrev Bytes := List Nat

/-! ## u32, names, vectors -/

def encU32 (v : Nat) : Bytes := encU v

def decU32 (bs : Bytes) : Option (Nat × Bytes) :=
  match decodeU32 bs with
  | .ok (v, n) => some (v, bs.drop n)
  | .error _ => none

/-- `vec(byte)` with the length in front: names, data strings -/
def encName (n : Bytes) : Bytes := encU32 n.length ++ n

def decName (bs : Bytes) : Option (Bytes × Bytes) :=
  match decU32 bs with
  | some (len, r) => if len ≤ r.length then some (r.take len, r.drop len) else none
  | none => none

/-- `n` items decoded one after the other -/
def decMany {α : Type} (dec : Bytes → Option (α × Bytes)) : Nat → Bytes → Option (List α × Bytes)
  | 0, bs => some ([], bs)
  | n + 1, bs =>
    match dec bs with
    | none => none
    | some (x, r) =>
      match decMany dec n r with
      | none => none
      | some (xs, r') => some (x :: xs, r')

def encMany {α : Type} (enc : α → Bytes) : List α → Bytes
  | [] => []
  | x :: xs => enc x ++ encMany enc xs

def encVec {α : Type} (enc : α → Bytes) (xs : List α) : Bytes := encU32 xs.length ++ encMany enc xs

def decVec {α : Type} (dec : Bytes → Option (α × Bytes)) (bs : Bytes) : Option (List α × Bytes) :=
  match decU32 bs with
  | some (n, r) => decMany dec n r
  | none => none

/-! ## limits -/

structure Limits where
  min : Nat
  max : Option Nat
  deriving DecidableEq, Repr

def encLimits (l : Limits) : Bytes :=
  match l.max with
  | none => 0 :: encU32 l.min
  | some m => 1 :: (encU32 l.min ++ encU32 m)

def decLimits : Bytes → Option (Limits × Bytes)
  | 0 :: r => (decU32 r).map (fun p => (⟨p.1, none⟩, p.2))
  | 1 :: r =>
    match decU32 r with
    | some (mn, r1) => (decU32 r1).map (fun p => (⟨mn, some p.1⟩, p.2))
    | none => none
  | _ => none

/-! ## section framing -/

structure Section where
  id : Nat
  body : Bytes
  deriving DecidableEq, Repr

def encSection (s : Section) : Bytes := s.id :: (encU32 s.body.length ++ s.body)

def decSection : Bytes → Option (Section × Bytes)
  | [] => none
  | id :: r =>
    match decU32 r with
    | some (len, r1) => if len ≤ r1.length then some (⟨id, r1.take len⟩, r1.drop len) else none
    | none => none

/-- all sections up to the end of the input; `fuel` bounds the number of sections -/
def decSections : Nat → Bytes → Option (List Section)
  | _, [] => some []
  | 0, _ :: _ => none
  | fuel + 1, b :: bs =>
    match decSection (b :: bs) with
    | none => none
    | some (s, r) =>
      match decSections fuel r with
      | none => none
      | some ss => some (s :: ss)

def header : Bytes := [0x00, 0x61, 0x73, 0x6d, 0x01, 0x00, 0x00, 0x00]

def encodeModule (ss : List Section) : Bytes := header ++ encMany encSection ss

def decodeModule (bs : Bytes) : Option (List Section) :=
  if bs.take 8 = header then decSections (bs.length + 1) (bs.drop 8) else none

/-! ## the name section -/

abbrev NameMap := List (Nat × Bytes)

structure NameSec where
  moduleName : Option Bytes
  funcNames : NameMap
  localNames : List (Nat × NameMap)
  deriving DecidableEq, Repr

def encAssoc (a : Nat × Bytes) : Bytes := encU32 a.1 ++ encName a.2
def decAssoc (bs : Bytes) : Option ((Nat × Bytes) × Bytes) :=
  match decU32 bs with
  | some (i, r) => (decName r).map (fun p => ((i, p.1), p.2))
  | none => none

def encNameMap (m : NameMap) : Bytes := encVec encAssoc m
def decNameMap (bs : Bytes) : Option (NameMap × Bytes) := decVec decAssoc bs

def encIndirect (a : Nat × NameMap) : Bytes := encU32 a.1 ++ encNameMap a.2
def decIndirect (bs : Bytes) : Option ((Nat × NameMap) × Bytes) :=
  match decU32 bs with
  | some (i, r) => (decNameMap r).map (fun p => ((i, p.1), p.2))
  | none => none

/-- subsections as the real encoder writes them: 0 when there is a module name, 1 when there are
function names, 2 always (as WABT 1.0.29 does) -/
def nameSubsections (n : NameSec) : List Section :=
  (match n.moduleName with
   | none => []
   | some m => [⟨0, encName m⟩]) ++
  ((match n.funcNames with
   | [] => []
   | _ :: _ => [⟨1, encNameMap n.funcNames⟩]) ++
  [⟨2, encVec encIndirect n.localNames⟩])

def encodeNameSec (n : NameSec) : Bytes := encMany encSection (nameSubsections n)

/-- a decoder that must consume its whole input -/
def whole {α : Type} (dec : Bytes → Option (α × Bytes)) (bs : Bytes) : Option α :=
  match dec bs with
  | some (x, []) => some x
  | _ => none

/-- interpret subsections 0, 1, 2 (each at most once, in this order); anything else is rejected -/
def nameSecOfSubsections : List Section → Option NameSec
  | [⟨0, m⟩, ⟨1, f⟩, ⟨2, l⟩] =>
    match whole decName m, whole decNameMap f, whole (decVec decIndirect) l with
    | some a, some b, some c => some ⟨some a, b, c⟩
    | _, _, _ => none
  | [⟨0, m⟩, ⟨2, l⟩] =>
    match whole decName m, whole (decVec decIndirect) l with
    | some a, some c => some ⟨some a, [], c⟩
    | _, _ => none
  | [⟨1, f⟩, ⟨2, l⟩] =>
    match whole decNameMap f, whole (decVec decIndirect) l with
    | some b, some c => some ⟨none, b, c⟩
    | _, _ => none
  | [⟨2, l⟩] => (whole (decVec decIndirect) l).map (fun c => ⟨none, [], c⟩)
  | _ => none

def decodeNameSec (bs : Bytes) : Option NameSec :=
  match decSections (bs.length + 1) bs with
  | some ss => nameSecOfSubsections ss
  | none => none

/-- body of the custom section: the section's own name followed by the payload -/
def customName : Bytes := [0x6e, 0x61, 0x6d, 0x65]   -- "name"
def nameSectionBody (n : NameSec) : Bytes := encName customName ++ encodeNameSec n

/-! ## well-formedness: everything that is LEB-encoded fits 32 bits -/

def U32 (n : Nat) : Prop := n < 2 ^ 32

def NameMap.WF (m : NameMap) : Prop := U32 m.length ∧ ∀ a ∈ m, U32 a.1 ∧ U32 a.2.length

def NameSec.WF (n : NameSec) : Prop :=
  (∀ m, n.moduleName = some m → U32 m.length ∧ U32 (encName m).length) ∧
  NameMap.WF n.funcNames ∧ U32 (encNameMap n.funcNames).length ∧
  U32 n.localNames.length ∧ (∀ e ∈ n.localNames, U32 e.1 ∧ NameMap.WF e.2) ∧
  U32 (encVec encIndirect n.localNames).length

def Section.WF (s : Section) : Prop := U32 s.body.length

/-! ## the name section the text describes -/

/-- a function as written: its `$name`, the names of its parameters and of its locals (`none` = unnamed) -/
structure FuncDecl where
  name : Option Bytes
  params : List (Option Bytes)
  locals : List (Option Bytes)
  deriving DecidableEq, Repr

/-- entries for the named items of `l`, numbered from `start` -/
def entriesFrom (start : Nat) : List (Option Bytes) → NameMap
  | [] => []
  | none :: r => entriesFrom (start + 1) r
  | some n :: r => (start, n) :: entriesFrom (start + 1) r

/-- one local-name entry per function, numbered from `start` -/
def localsFrom (start : Nat) : List FuncDecl → List (Nat × NameMap)
  | [] => []
  | f :: r => (start, entriesFrom 0 (f.params ++ f.locals)) :: localsFrom (start + 1) r

/-- `fs` lists the functions in index order: imported functions first, then the defined ones -/
def buildNames (moduleName : Option Bytes) (fs : List FuncDecl) : NameSec :=
  { moduleName := moduleName
    funcNames := entriesFrom 0 (fs.map (·.name))
    localNames := localsFrom 0 fs }

/-- the name written in the text for function `f` -/
def writtenFuncName (fs : List FuncDecl) (f : Nat) : Option Bytes :=
  match fs[f]? with
  | some d => d.name
  | none => none

/-- the name written in the text for local `i` of function `f` (parameters first, then locals) -/
def writtenLocalName (fs : List FuncDecl) (f i : Nat) : Option Bytes :=
  match fs[f]? with
  | some d =>
    match (d.params ++ d.locals)[i]? with
    | some n => n
    | none => none
  | none => none

def lookupFuncName (n : NameSec) (f : Nat) : Option Bytes := n.funcNames.lookup f

def lookupLocalName (n : NameSec) (f i : Nat) : Option Bytes :=
  match n.localNames.lookup f with
  | some m => m.lookup i
  | none => none

/-! ## block type index: a SIGNED 33-bit LEB128 (`s33`), not a u32 -/

def encBlockTypeIdx (i : Nat) : Bytes := encS (i : Int)

def decBlockTypeIdx (bs : Bytes) : Option (Nat × Bytes) :=
  match decodeS33 bs with
  | .ok (v, n) => if 0 ≤ v then some (v.toNat, bs.drop n) else none
  | .error _ => none

/-! ## label resolution (`br $l`): the nearest enclosing block with that label -/

/-- `stk`: labels of the enclosing blocks, innermost first (`none` = unlabelled) -/
def resolveLabel : List (Option Bytes) → Bytes → Option Nat
  | [], _ => none
  | x :: r, l => if x = some l then some 0 else (resolveLabel r l).map (· + 1)

/-- strictly increasing -/
def StrictInc : List Nat → Prop
  | [] => True
  | [_] => True
  | a :: b :: r => a < b ∧ StrictInc (b :: r)

instance : (l : List Nat) → Decidable (StrictInc l)
  | [] => isTrue trivial
  | [_] => isTrue trivial
  | a :: b :: r =>
    match (inferInstance : Decidable (a < b)), instDecidableStrictInc (b :: r) with
    | isTrue h1, isTrue h2 => isTrue ⟨h1, h2⟩
    | isFalse h1, _ => isFalse (fun h => h1 h.1)
    | _, isFalse h2 => isFalse (fun h => h2 h.2)

end WaVerif.C04
