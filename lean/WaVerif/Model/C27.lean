/-! # C27 — compilation is deterministic: the pipeline model

Go randomises the iteration order of every `range` over a map.  The compiler's pattern
(`compile.go: CompilePkgType/Global/Func, Compile, CompileWatFiles`) is

```go
var names []string
for name := range pkg.Members { names = append(names, name) }   -- arbitrary order
sort.Strings(names)
for _, name := range names { emit(pkg.Members[name]) }
```

Model: the map is a duplicate-free (by key) list of members whose ORDER is the iteration order chosen
by the Go runtime (an arbitrary permutation); `collect` is the identity on that list; `sortBy` is a
(total, structural) insertion sort by key; `emit` is any function of the sorted list.
The second pattern is an order-insensitive fold: inserting into a set / or-ing a flag / counting.

Keys are abstract (`κ` with a Boolean `le`); `LinearLe` states the laws `sort.Strings`' byte-wise
order has.  Core-only, executable (the driver instantiates keys with byte strings `List Nat`). -/
namespace WaVerif.C27

variable {μ κ ω : Type}

/-- laws of the key order (total preorder + antisymmetry = linear order) -/
structure LinearLe (le : κ → κ → Bool) : Prop where
  total : ∀ a b, le a b = true ∨ le b a = true
  trans : ∀ a b c, le a b = true → le b c = true → le a c = true
  antisymm : ∀ a b, le a b = true → le b a = true → a = b

def insertBy (le : κ → κ → Bool) (key : μ → κ) (x : μ) : List μ → List μ
  | [] => [x]
  | y :: ys => if le (key x) (key y) then x :: y :: ys else y :: insertBy le key x ys

/-- the model of `sort.Strings(names)` / `sort.Slice(s, less-by-key)` -/
def sortBy (le : κ → κ → Bool) (key : μ → κ) : List μ → List μ
  | [] => []
  | x :: xs => insertBy le key x (sortBy le key xs)

/-- `for k := range m { s = append(s, k) }`: the collected slice IS the iteration order -/
def collect (members : List μ) : List μ := members

/-- output = emit (sortBy key (collect members)) -/
def compile (le : κ → κ → Bool) (key : μ → κ) (emit : List μ → ω) (members : List μ) : ω :=
  emit (sortBy le key (collect members))

/-- the UNSORTED pipeline (what a new `range` site without a sort would be) -/
def compileUnsorted (emit : List μ → ω) (members : List μ) : ω := emit (collect members)

/-! ## order-insensitive accumulations -/

/-- set insertion (`seen[k] = true`): a set is a duplicate-free list kept in insertion order; what the
program can observe of a Go map used as a set is membership only (`memSet`), and its size. -/
def setInsert [DecidableEq κ] (s : List κ) (k : κ) : List κ := if k ∈ s then s else s ++ [k]

def collectSet [DecidableEq κ] (key : μ → κ) (members : List μ) : List κ :=
  members.foldl (fun s m => setInsert s (key m)) []

def memSet [DecidableEq κ] (s : List κ) (k : κ) : Bool := decide (k ∈ s)

/-- `flag = flag || p(m)` -/
def anyFlag (p : μ → Bool) (members : List μ) : Bool := members.foldl (fun b m => b || p m) false

/-- `n++` / `n += w(m)` -/
def countBy (w : μ → Nat) (members : List μ) : Nat := members.foldl (fun n m => n + w m) 0

/-- byte-wise lexicographic `≤` on byte strings: Go's string comparison, used by `sort.Strings` -/
def bytesLe : List Nat → List Nat → Bool
  | [], _ => true
  | _ :: _, [] => false
  | a :: as, b :: bs => if a < b then true else if b < a then false else bytesLe as bs

/-! ## the table of map-`range` sites (regenerated into `Gen/C27Sites.lean`) -/

inductive SiteClass | sortedAfter | sortedByKey | orderInsensitive | unreachable | other
  deriving Repr, DecidableEq

/-- verdict of the committed audit for a site of class `other` (`unaudited` = not in the expectation
file, or its class / range expression changed since the audit) -/
inductive Audit
  | byShape | commutative | perElement | sortedLater | uniqueSearch | totalOrder
  | debugOnly | errorPathOnly | notOnBuildPath | injectiveKey | unaudited
  deriving Repr, DecidableEq

structure Site where
  id : String
  cls : SiteClass
  audit : Audit
  deriving Repr

def Site.accounted (s : Site) : Bool :=
  match s.cls, s.audit with
  | .other, .unaudited => false
  | .other, .byShape => false
  | .sortedByKey, .unaudited => false   -- sorted by a derived key: canonical only if the key is injective (`nodup_keys_needed`)
  | .sortedByKey, .byShape => false
  | _, _ => true

def allAccounted (l : List Site) : Bool := l.all Site.accounted

end WaVerif.C27
