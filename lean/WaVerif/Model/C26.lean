import WaVerif.Gen.C26Dap
import WaVerif.Model.C25Stream
/-!
# C26 — DAP base-protocol framing and message-type dispatch (internal/3rdparty/go-dap io.go, codec.go)

Hand-written transcription of `WriteBaseMessage`, `readContentLengthHeader`, `ReadBaseMessage` and
of the `switch`/map dispatch of `Codec.DecodeMessage`; the header format pieces, the 4 MiB limit,
the header regex text and the three constructor maps come from `WaVerif.Gen.C26`, regenerated from
the compiled package on every run.

The reader is written twice: on the flat remaining byte list (`readLen`, `readBase`, `readAllBase`)
and against `Stream.Buffered.next cap` (`readLenC`, …), i.e. through a buffer of `cap` bytes
(`bufio.Reader`) over a transport that delivers arbitrary chunks.  Bytes are `Nat`s.
-/
namespace WaVerif.C26
open WaVerif.Gen.C26 WaVerif.Stream

inductive Err | eof | ueof | delim | hdr | range | toolong
  deriving DecidableEq, Repr

/-! ## decimal -/

/-- `[0-9]` of the header regex -/
def isDigit (b : Nat) : Bool := decide (48 ≤ b ∧ b ≤ 57)

/-- `%d` of a non-negative int -/
def decDigits (n : Nat) : List Nat :=
  if n < 10 then [48 + n] else decDigits (n / 10) ++ [48 + n % 10]
decreasing_by omega

/-- `strconv.ParseInt(s, 10, 64)` on a string of ASCII digits: the value (range check separate) -/
def parseDec (ds : List Nat) : Nat := ds.foldl (fun acc d => acc * 10 + (d - 48)) 0

/-! ## writer -/

def writeHeader (n : Nat) : List Nat := cHeaderPrefix ++ decDigits n ++ cHeaderSuffix

/-- `WriteBaseMessage` -/
def writeBase (c : List Nat) : List Nat := writeHeader c.length ++ c

/-! ## reader -/

/-- the literal prefix of `contentLengthHeaderRegex` ("Content-Length: "); `Props` shows the
regenerated regex text is the one transcribed here and that this prefix is the writer's -/
def regexPrefix : List Nat := [67, 111, 110, 116, 101, 110, 116, 45, 76, 101, 110, 103, 116, 104, 58, 32]

/-- `strings.TrimSuffix(headerWithCr, "\r")` -/
def trimCr (l : List Nat) : List Nat := if l.getLast? = some 13 then l.dropLast else l

/-- `^Content-Length: ([0-9]+)$` : the captured digit string -/
def matchHeader (header : List Nat) : Option (List Nat) :=
  if header.take regexPrefix.length = regexPrefix then
    let ds := header.drop regexPrefix.length
    if ds ≠ [] ∧ ds.all isDigit = true then some ds else none
  else none

/-- what follows the header line's `\r` -/
def lfCrLf : List Nat := [10, 13, 10]

/-- everything of `ReadBaseMessage` after the header line and the 3 delimiter bytes were read -/
def headerValue (hdrWithCr three : List Nat) : Except Err Nat :=
  if three ≠ lfCrLf then .error .delim else
  match matchHeader (trimCr hdrWithCr) with
  | none => .error .hdr
  | some ds =>
    let v := parseDec ds
    if v ≥ 2 ^ 63 then .error .range
    else if v > cContentMaxLength then .error .toolong
    else .ok v

/-- `readContentLengthHeader` + the size check of `ReadBaseMessage`: content length and the
remaining stream -/
def readLen (s : List Nat) : Except Err (Nat × List Nat) :=
  match takeUntil 13 s [] with
  | none => .error .eof
  | some (hdrCr, s1) =>
    match takeN 3 s1 [] with
    | none => .error (if s1.isEmpty then .eof else .ueof)
    | some (three, s2) =>
      match headerValue hdrCr three with
      | .error e => .error e
      | .ok v => .ok (v, s2)

/-- `ReadBaseMessage`: (content, remaining stream) -/
def readBase (s : List Nat) : Except Err (List Nat × List Nat) :=
  match readLen s with
  | .error e => .error e
  | .ok (n, s2) =>
    match takeN n s2 [] with
    | none => .error (if s2.isEmpty then .eof else .ueof)
    | some (c, rest) => .ok (c, rest)

theorem takeUntil_rest_lt (d : Nat) : ∀ (s acc : List Nat) {h r : List Nat},
    takeUntil d s acc = some (h, r) → r.length < s.length
  | [], acc, h, r, e => by simp [takeUntil] at e
  | b :: rest, acc, h, r, e => by
    rw [takeUntil] at e
    by_cases hb : b = d
    · rw [if_pos hb] at e
      simp only [Option.some.injEq, Prod.mk.injEq] at e
      rw [← e.2]; simp
    · rw [if_neg hb] at e
      have := takeUntil_rest_lt d rest _ e
      simp; omega

theorem takeN_rest_le : ∀ (n : Nat) (s acc : List Nat) {c r : List Nat},
    takeN n s acc = some (c, r) → r.length ≤ s.length
  | 0, s, acc, c, r, e => by
    simp only [takeN, Option.some.injEq, Prod.mk.injEq] at e; rw [← e.2]; exact Nat.le_refl _
  | n + 1, [], acc, c, r, e => by simp [takeN] at e
  | n + 1, b :: rest, acc, c, r, e => by
    rw [takeN] at e
    have := takeN_rest_le n rest _ e
    simp; omega

theorem readBase_rest_lt {s c r : List Nat} (h : readBase s = .ok (c, r)) : r.length < s.length := by
  unfold readBase at h
  split at h
  · simp at h
  · rename_i n s2 hl
    split at h
    · simp at h
    · rename_i c' rest hn
      simp only [Except.ok.injEq, Prod.mk.injEq] at h
      obtain ⟨_, rfl⟩ := h
      have h2 := takeN_rest_le _ _ _ hn
      unfold readLen at hl
      split at hl
      · simp at hl
      · rename_i hdrCr s1 hu
        have h1 := takeUntil_rest_lt _ _ _ hu
        split at hl
        · simp at hl
        · rename_i three s2' h3
          have h3' := takeN_rest_le _ _ _ h3
          split at hl
          · simp at hl
          · simp only [Except.ok.injEq, Prod.mk.injEq] at hl
            obtain ⟨_, rfl⟩ := hl
            omega

/-- call `ReadBaseMessage` until it fails: the contents delivered and the final error -/
def readAllBase (s : List Nat) : List (List Nat) × Err :=
  match h : readBase s with
  | .error e => ([], e)
  | .ok (c, r) => let (cs, e) := readAllBase r; (c :: cs, e)
termination_by s.length
decreasing_by exact readBase_rest_lt h

/-! ## the same reader through a buffer of `cap` bytes over a chunked transport -/

def readLenC (cap : Nat) (s : Buffered) : Except Err (Nat × Buffered) :=
  match takeUntilC cap 13 s [] with
  | none => .error .eof
  | some (hdrCr, s1) =>
    match takeNC cap 3 s1 [] with
    | none => .error (if (s1.next cap).isNone then .eof else .ueof)
    | some (three, s2) =>
      match headerValue hdrCr three with
      | .error e => .error e
      | .ok v => .ok (v, s2)

def readBaseC (cap : Nat) (s : Buffered) : Except Err (List Nat × Buffered) :=
  match readLenC cap s with
  | .error e => .error e
  | .ok (n, s2) =>
    match takeNC cap n s2 [] with
    | none => .error (if (s2.next cap).isNone then .eof else .ueof)
    | some (c, rest) => .ok (c, rest)

/-- fuelled loop (fuel = number of bytes + 1 is always enough: each message consumes ≥ 1 byte) -/
def readAllBaseC (cap : Nat) : Nat → Buffered → List (List Nat) × Err
  | 0, _ => ([], .eof)
  | fuel + 1, s =>
    match readBaseC cap s with
    | .error e => ([], e)
    | .ok (c, r) => let (cs, e) := readAllBaseC cap fuel r; (c :: cs, e)

/-! ## dispatch (`Codec.DecodeMessage`)

Strings are UTF-8 byte lists (as in the regenerated tables). -/

/-- "request" -/
def sRequest : List Nat := [114, 101, 113, 117, 101, 115, 116]
/-- "response" -/
def sResponse : List Nat := [114, 101, 115, 112, 111, 110, 115, 101]
/-- "event" -/
def sEvent : List Nat := [101, 118, 101, 110, 116]
/-- "ErrorResponse" -/
def sErrorResponse : List Nat := [69, 114, 114, 111, 114, 82, 101, 115, 112, 111, 110, 115, 101]

inductive Decoded
  | ok (goType : List Nat)
  | errType | errRequest | errResponse | errEvent
  deriving DecidableEq, Repr

/-- which constructor `DecodeMessage` picks from the `type`, `command`, `event`, `success` attributes -/
def decodeKind (type command event : List Nat) (success : Bool) : Decoded :=
  if type = sRequest then
    match requestTable.lookup command with
    | some t => .ok t
    | none => .errRequest
  else if type = sResponse then
    if !success then .ok sErrorResponse
    else match responseTable.lookup command with
      | some t => .ok t
      | none => .errResponse
  else if type = sEvent then
    match eventTable.lookup event with
    | some t => .ok t
    | none => .errEvent
  else .errType

/-- a registered message type: its kind and the name it is registered under -/
structure Row where
  kind : List Nat
  name : List Nat
  goType : List Nat
  deriving DecidableEq, Repr

def allRows : List Row :=
  requestTable.map (fun r => ⟨sRequest, r.1, r.2⟩) ++
  responseTable.map (fun r => ⟨sResponse, r.1, r.2⟩) ++
  eventTable.map (fun r => ⟨sEvent, r.1, r.2⟩)

/-- the attributes a well-formed message of the row's type carries (`success = true` for a
typed response; a failed response is an `ErrorResponse`) -/
def decodeRow (r : Row) : Decoded := decodeKind r.kind r.name r.name true

/-- injective numbering of byte strings (used to make distinctness checks cheap for the kernel) -/
def bcode (l : List Nat) : Nat := l.foldl (fun a b => a * 256 + b) 1

def allDistinctN : List Nat → Bool
  | [] => true
  | x :: xs => !xs.contains x && allDistinctN xs

end WaVerif.C26
