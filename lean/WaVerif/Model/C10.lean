/-!
# C10 — abstract model of the Wa heap allocator (internal/waroot/malloc/malloc.wat)

Hand-written transcription of the WAT algorithm over `Nat` addresses.  Core Lean only.

A *block* is `(addr, size)`: header at `[addr, addr+8)` (`size : i32`, `next : i32`), payload at
`[addr+8, addr+8+size)`.  The allocator state of the real code lives in four globals and in the
header words inside linear memory; the model keeps the same information as

* `heapPtr`, `heapTop`, `pages`  — `$__heap_ptr`, `$__heap_top`, `memory.size`
* `f0..f3`  — the four fixed-size LIFO lists l24/l32/l48/l80 (top of stack first = walk order from the list head)
* `free`    — the circular K&R list l128 WITHOUT its head, in ring order from the head (= address order)
* `rover`   — `$__heap_l128_freep` (address of a ring node; the head is `heapBase+32`)
* `live`    — blocks handed out and not yet freed (the real code has no such table: it is the
              caller's knowledge; `req` is the size the caller asked for)
* `dead`    — 0, or the reason why the real heap would be corrupted from here on (1: the l128 list head
              itself was handed out; 2: the bump pointer is at or beyond 2^31, where the signed address
              comparisons stop being order comparisons).  Both are unreachable under `CfgWF`/`OpOK` since the
              repairs 785884e / 786cf0e (proved: `Inv.alive`); no operation is modelled after that point.

Every operation also returns its *write log*: the addresses of the 32-bit words the WAT code
stores to, in program order.
-/
namespace WaVerif.C10

structure Config where
  pages : Nat        -- {{.MemoryPages}}
  maxPages : Nat     -- {{.MemoryPagesMax}}
  stackPtr : Nat     -- {{.StackPtr}}
  heapBase : Nat     -- {{.HeapBase}}
  cap : Nat          -- {{.HeapLFixedCap}}; 0 = fixed lists disabled
deriving Repr, DecidableEq

/-- free / fixed-list block: (block address, payload size) -/
abbrev FBlk := Nat × Nat

/-- `$heap_block.end`: first address after the block -/
@[reducible] def bend (b : FBlk) : Nat := b.1 + b.2 + 8

structure LBlk where
  addr : Nat   -- block (header) address; the pointer returned to the caller is `addr + 8`
  size : Nat   -- the header's size field
  req : Nat    -- what the caller asked for
deriving Repr, DecidableEq

@[reducible] def LBlk.blk (b : LBlk) : FBlk := (b.addr, b.size)

structure State where
  cfg : Config
  heapPtr : Nat
  heapTop : Nat
  pages : Nat
  live : List LBlk
  f0 : List FBlk
  f1 : List FBlk
  f2 : List FBlk
  f3 : List FBlk
  free : List FBlk
  rover : Nat
  dead : Nat
deriving Repr, DecidableEq

def getFx (s : State) (k : Nat) : List FBlk :=
  match k with
  | 0 => s.f0
  | 1 => s.f1
  | 2 => s.f2
  | _ => s.f3

def setFx (s : State) (k : Nat) (l : List FBlk) : State :=
  match k with
  | 0 => { s with f0 := l }
  | 1 => { s with f1 := l }
  | 2 => { s with f2 := l }
  | _ => { s with f3 := l }

/-- address of the l128 ring head -/
def headAddr (c : Config) : Nat := c.heapBase + 32
/-- first address of the bump-allocated area (after the six 8-byte list heads) -/
def heapStart (c : Config) : Nat := c.heapBase + 48
/-- address of the head of fixed list `k` -/
def fxHead (c : Config) (k : Nat) : Nat := c.heapBase + 8 * k

/-- `$heap_alignment8` -/
def align8 (n : Nat) : Nat := (n + 7) / 8 * 8

/-- `$heap_free_list.ptr_and_fixed_size`: (list index 0..3 fixed / 4 = l128, block size) -/
def ptrAndFixedSize (c : Config) (size : Nat) : Nat × Nat :=
  if c.cap = 0 then (4, if align8 size = 0 then 8 else align8 size)   -- at least 8: the size-0 ring head must never match
  else if size > 80 then (4, if size ≤ 128 then 128 else align8 size)
  else if size > 48 then (3, 80)
  else if size > 32 then (2, 48)
  else if size > 24 then (1, 32)
  else (0, 24)

/-- the block size `$wa_malloc` works with for a request of `req` bytes -/
def effSize (c : Config) (req : Nat) : Nat := (ptrAndFixedSize c (align8 req)).2
/-- the fixed list `$wa_malloc` consults (4 = none) -/
def effList (c : Config) (req : Nat) : Nat := (ptrAndFixedSize c (align8 req)).1

/-- the checks of `$wa_malloc_init_once` plus module validation (`pages ≤ maxPages ≤ 65536`) -/
def initOK (c : Config) : Bool :=
  decide (0 < c.stackPtr ∧ c.stackPtr < c.heapBase ∧ c.heapBase % 8 = 0 ∧
          c.heapBase + 48 < c.pages * 65536 ∧ c.pages ≤ c.maxPages ∧ c.maxPages ≤ 65536 ∧
          c.pages * 65536 < 2147483648)

def init (c : Config) : State :=
  { cfg := c, heapPtr := c.heapBase + 48, heapTop := c.pages * 65536, pages := c.pages,
    live := [], f0 := [], f1 := [], f2 := [], f3 := [], free := [],
    rover := c.heapBase + 32, dead := 0 }

/-- result of one operation: new state, returned value, write log -/
structure Res where
  st : State
  ret : Nat
  writes : List Nat
deriving Repr

/-! ## `$wa_malloc_reuse_fixed` -/

def reuseFixed (s : State) (k : Nat) : Option (State × FBlk × List Nat) :=
  match getFx s k with
  | [] => none
  | p :: r =>
    let h := fxHead s.cfg k
    some (setFx s k r, p, [h, h + 4, p.1 + 4])

/-! ## `$heap_reuse_varying`: first fit around the ring, starting after the rover -/

def withPrev (prev : Nat) : List FBlk → List (FBlk × Nat)
  | [] => []
  | b :: r => (b, prev) :: withPrev b.1 r

def lastAddr (d : Nat) : List FBlk → Nat
  | [] => d
  | b :: r => lastAddr b.1 r

/-- every ring node with the address of its predecessor in the ring -/
def ringPairs (hd : Nat) (free : List FBlk) : List (FBlk × Nat) :=
  ((hd, 0), lastAddr hd free) :: withPrev hd free

/-- the order in which the loop visits the ring: the nodes after the rover, wrapping round, the
rover itself last (the loop exits with nil on reaching it) -/
def scanOrder (hd rover : Nat) (free : List FBlk) : List (FBlk × Nat) :=
  let rp := ringPairs hd free
  rp.filter (fun p => decide (rover < p.1.1)) ++ rp.filter (fun p => decide (p.1.1 ≤ rover))

inductive Fit where
  | split (p : FBlk) (prev : Nat)
  | exact (p : FBlk) (prev : Nat)
  | none
deriving Repr, DecidableEq

def scan (n : Nat) : List (FBlk × Nat) → Fit
  | [] => .none
  | (p, prev) :: r =>
    if p.2 ≥ n + 8 then .split p prev
    else if p.2 ≥ n then .exact p prev
    else scan n r

def replaceFirst (p q : FBlk) : List FBlk → List FBlk
  | [] => []
  | b :: r => if b = p then q :: r else b :: replaceFirst p q r

/-- returns the block taken (none = nil) -/
def reuseVarying (s : State) (n : Nat) : State × Option FBlk × List Nat :=
  let hd := headAddr s.cfg
  match scan n (scanOrder hd s.rover s.free) with
  | .none => (s, none, [])
  | .split p prev =>
    let rem : FBlk := (p.1 + 8 + n, p.2 - n - 8)
    ({ s with free := replaceFirst p rem s.free, rover := prev }, some (p.1, n),
      [rem.1 + 4, rem.1, prev + 4, p.1, p.1 + 4])
  | .exact p prev =>
    if p.1 = hd then
      -- the ring head (size 0) satisfies a request of 0 bytes: the code unlinks and returns it
      ({ s with rover := prev, dead := 1 }, some p, [prev + 4, p.1 + 4])
    else
      ({ s with free := s.free.erase p, rover := prev }, some p, [prev + 4, p.1 + 4])

/-! ## `$heap_new_allocation`: bump allocation, `memory.grow` when the block does not fit -/

def newAllocation (s : State) (n : Nat) : State × Option FBlk × List Nat :=
  let ptr := s.heapPtr
  let bs := 8 + n
  let sum := (s.heapPtr + bs) % 4294967296
  -- `i32.ge_u` against `$__heap_top`: unsigned, so a sum at or beyond 2^31 still asks for growth
  let needGrow := decide (sum ≥ s.heapTop)
  let pg := (bs + 65535) / 65536
  if needGrow && decide (s.pages + pg > s.cfg.maxPages) then (s, none, [])
  else
    let s1 := if needGrow then { s with pages := s.pages + pg, heapTop := s.heapTop + pg * 65536 } else s
    ({ s1 with heapPtr := sum, dead := if sum < 2147483648 then s1.dead else 2 }, some (ptr, n), [ptr, ptr + 4])

/-! ## `$wa_l128_free`: K&R free with coalescing -/

/-- insert into the address-ordered list, joining with the upper and/or lower neighbour -/
def insertFree (bp : FBlk) : List FBlk → List FBlk
  | [] => [bp]
  | a :: r =>
    if bend bp < a.1 then bp :: a :: r
    else if bend bp = a.1 then (bp.1, bp.2 + a.2 + 8) :: r
    else if bend a = bp.1 then
      match r with
      | [] => [(a.1, a.2 + bp.2 + 8)]
      | c :: r' => if bend bp = c.1 then (a.1, a.2 + bp.2 + 8 + c.2 + 8) :: r'
                   else (a.1, a.2 + bp.2 + 8) :: c :: r'
    else a :: insertFree bp r

/-- the ring node `p` the K&R loop stops at: the last node below `a` (the head if none) -/
def predBlk (d : FBlk) (a : Nat) : List FBlk → FBlk
  | [] => d
  | b :: r => if b.1 < a then predBlk b a r else d

/-- `p.next`: the first node above `a`, wrapping to the head -/
def nextBlk (d : FBlk) (a : Nat) : List FBlk → FBlk
  | [] => d
  | b :: r => if a < b.1 then b else nextBlk d a r

def l128Free (s : State) (bp : FBlk) : State × List Nat :=
  let hd : FBlk := (headAddr s.cfg, 0)
  let p := predBlk hd bp.1 s.free
  let nx := nextBlk hd bp.1 s.free
  let w1 := if bend bp = nx.1 then [bp.1, bp.1 + 4] else [bp.1 + 4]
  let w2 := if bend p = bp.1 then [p.1, p.1 + 4] else [p.1 + 4]
  ({ s with free := insertFree bp s.free, rover := p.1 }, w1 ++ w2)

/-! ## `$wa_lfixed_free_all`, `$wa_lfixed_free_block`, `$wa_free` -/

def flushList (s : State) : List FBlk → State × List Nat
  | [] => (s, [])
  | b :: r =>
    let (s1, w1) := l128Free s b
    let (s2, w2) := flushList s1 r
    (s2, w1 ++ w2)

def lfixedFreeBlock (s : State) (k : Nat) (b : FBlk) : State × List Nat :=
  let h := fxHead s.cfg k
  let (s1, w) :=
    if (getFx s k).length = s.cfg.cap then
      -- the loop hands every node to `$wa_l128_free`; the head is reset after the loop (the abstract
      -- lists are independent, so the model may empty the list first)
      let (s', w') := flushList (setFx s k []) (getFx s k)
      (s', w' ++ [h, h + 4])
    else (s, [])
  (setFx s1 k (b :: getFx s1 k), w ++ [b.1 + 4, h + 4, h])

def findLive (ptr : Nat) (l : List LBlk) : Option LBlk :=
  l.find? (fun b => b.addr + 8 = ptr)

/-- `wa_free(ptr)`; ret 1 = done, 0 = `ptr` is not a live block (nothing happens in the model; the
real code would corrupt its lists — outside the property's quantifier) -/
def free (s : State) (ptr : Nat) : Res :=
  match findLive ptr s.live with
  | none => ⟨s, 0, []⟩
  | some b =>
    let s1 := { s with live := s.live.erase b }
    if s.cfg.cap ≠ 0 ∧ b.size ≤ 80 then
      let (s2, w) := lfixedFreeBlock s1 (ptrAndFixedSize s.cfg b.size).1 b.blk
      ⟨s2, 1, w⟩
    else
      let (s2, w) := l128Free s1 b.blk
      ⟨s2, 1, w⟩

/-! ## `$wa_malloc` -/

def addLive (s : State) (b : FBlk) (req : Nat) : State :=
  { s with live := ⟨b.1, b.2, req⟩ :: s.live }

/-- `wa_malloc(req)`; ret = returned pointer (0 = nil) -/
def malloc (s : State) (req : Nat) : Res :=
  let k := effList s.cfg req
  let n := effSize s.cfg req
  let fixedTry := if s.cfg.cap ≠ 0 ∧ n ≤ 80 then reuseFixed s k else none
  match fixedTry with
  | some (s1, b, w) => ⟨addLive s1 b req, b.1 + 8, w⟩
  | none =>
    match reuseVarying s n with
    | (s1, some b, w) => ⟨addLive s1 b req, b.1 + 8, w⟩
    | (_, none, _) =>
      match newAllocation s n with
      | (s1, some b, w) => ⟨addLive s1 b req, b.1 + 8, w⟩
      | (_, none, _) => ⟨s, 0, []⟩

inductive Op where
  | malloc (req : Nat)
  | free (ptr : Nat)
deriving Repr, DecidableEq

/-- one step of a history; nothing is modelled once the heap is dead -/
def step (s : State) (op : Op) : Res :=
  if s.dead ≠ 0 then ⟨s, 0, []⟩ else
  match op with
  | .malloc req => malloc s req
  | .free ptr => free s ptr

def run (c : Config) (ops : List Op) : State :=
  ops.foldl (fun s op => (step s op).st) (init c)

end WaVerif.C10
