import WaVerif.Model.C24
/-!
# C24 — the reference grammar of build-constraint expressions (specification)

    or   := and ('||' and)*        and := not ('&&' not)*
    not  := '!' atom | atom        atom := tag | '(' or ')'

binary operators associate to the left.  The two starred repetitions are written with an
accumulator (`orLoop acc`, `andLoop acc`: "continuing from the tree built so far"), so that the
judgement is indexed by the same procedure names as the parser.
-/
namespace WaVerif.C24

/-- reference grammar, one judgement per parser procedure.
`D nt w e`: the token string `w` is an `nt` whose tree is `e`. -/
inductive D : NT → List Tok → Expr → Prop
  | or {t ts x e} : D .and t x → D (.orLoop x) ts e → D .or (t ++ ts) e
  | orNil {acc} : D (.orLoop acc) [] acc
  | orCons {acc t y ts e} : D .and t y → D (.orLoop (.or acc y)) ts e → D (.orLoop acc) (.oror :: (t ++ ts)) e
  | and {t ts x e} : D .not t x → D (.andLoop x) ts e → D .and (t ++ ts) e
  | andNil {acc} : D (.andLoop acc) [] acc
  | andCons {acc t y ts e} : D .not t y → D (.andLoop (.and acc y)) ts e → D (.andLoop acc) (.andand :: (t ++ ts)) e
  | notPos {t x} : D .atom t x → D .not t x
  | notNeg {t x} : D .atom t x → D .not (.bang :: t) (.not x)
  | tag {s} : D .atom [.tag s] (.tag s)
  | paren {t x} : D .or t x → D .atom (.lp :: (t ++ [.rp])) x

end WaVerif.C24
