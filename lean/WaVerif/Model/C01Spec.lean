import WaVerif.Base.WasmNum
import WaVerif.Base.GoInt
/-!
# C01 — what each emitted operator row must compute (specification)

A Wa numeric type is a Go integer type (`bits`, `signed`); a value of a type of at most 32 bits
lives in a WebAssembly `i32` local (unsigned narrow types zero-extended — the representation
invariant `embed`), a 64-bit one in an `i64` local. The row for `x op y` is executed with locals
`[x, y]` and an empty stack and must leave exactly the embedded Go result (or trap when Go panics).
-/
namespace WaVerif.C01
open WaVerif WaVerif.Wasm

abbrev ITy := Go.ITy

/-- representation of a Go integer value in a WebAssembly local -/
def embed (w : Nat) (signed : Bool) (x : BitVec w) : Val :=
  if w ≤ 32 then .i32 (if signed then x.signExtend 32 else x.setWidth 32)
  else .i64 (if signed then x.signExtend 64 else x.setWidth 64)

def embedBool (b : Bool) : Val := .i32 (b2i b)

/-- the shift-count limit below which WebAssembly's modulo-width count and Go's unbounded count agree
for this representation: 32 for values held in an i32, 64 for i64. -/
def shiftLimit (w : Nat) : Nat := if w ≤ 32 then 32 else 64

/-- arithmetic/bitwise row: defined results agree; Go panic (division by zero) ⇒ trap. -/
def ArithRowFull (op : Go.Op) (w : Nat) (sg : Bool) (code : List Instr) : Prop :=
  ∀ x y : BitVec w,
    exec [embed w sg x, embed w sg y] code [] = (Go.arith sg op x y).map (fun r => [embed w sg r])

/-- the same, excluding the one operand pair on which WebAssembly's signed division traps -/
def ArithRowExceptOverflow (op : Go.Op) (w : Nat) (sg : Bool) (code : List Instr) : Prop :=
  ∀ x y : BitVec w, ¬ (sg = true ∧ op = .quo ∧ x = BitVec.intMin w ∧ y = -1) →
    exec [embed w sg x, embed w sg y] code [] = (Go.arith sg op x y).map (fun r => [embed w sg r])

def CmpRow (c : Go.Cmp) (w : Nat) (sg : Bool) (code : List Instr) : Prop :=
  ∀ x y : BitVec w,
    exec [embed w sg x, embed w sg y] code [] = some [embedBool (Go.cmp sg c x y)]

/-- shift rows: count of (unsigned or non-negative) type `tc`; full statement = every count -/
def ShlRowFull (w : Nat) (sg : Bool) (wc : Nat) (sgc : Bool) (code : List Instr) : Prop :=
  ∀ (x : BitVec w) (n : BitVec wc), (sgc = true → n.toInt ≥ 0) →
    exec [embed w sg x, embed wc sgc n] code [] = some [embed w sg (Go.shl x n.toNat)]

def ShlRowBelow (w : Nat) (sg : Bool) (wc : Nat) (sgc : Bool) (code : List Instr) : Prop :=
  ∀ (x : BitVec w) (n : BitVec wc), n.toNat < shiftLimit w →
    exec [embed w sg x, embed wc sgc n] code [] = some [embed w sg (Go.shl x n.toNat)]

def ShrRowFull (w : Nat) (sg : Bool) (wc : Nat) (sgc : Bool) (code : List Instr) : Prop :=
  ∀ (x : BitVec w) (n : BitVec wc), (sgc = true → n.toInt ≥ 0) →
    exec [embed w sg x, embed wc sgc n] code [] = some [embed w sg (Go.shr sg x n.toNat)]

def ShrRowBelow (w : Nat) (sg : Bool) (wc : Nat) (sgc : Bool) (code : List Instr) : Prop :=
  ∀ (x : BitVec w) (n : BitVec wc), n.toNat < shiftLimit w →
    exec [embed w sg x, embed wc sgc n] code [] = some [embed w sg (Go.shr sg x n.toNat)]

def NegRow (w : Nat) (sg : Bool) (code : List Instr) : Prop :=
  ∀ x : BitVec w, exec [embed w sg x] code [] = some [embed w sg (Go.neg x)]

def ComplRow (w : Nat) (sg : Bool) (code : List Instr) : Prop :=
  ∀ x : BitVec w, exec [embed w sg x] code [] = some [embed w sg (Go.compl x)]

def NotRow (code : List Instr) : Prop :=
  ∀ b : Bool, exec [embedBool b] code [] = some [embedBool (!b)]

def ConvRow (ws : Nat) (ss : Bool) (wd : Nat) (sd : Bool) (code : List Instr) : Prop :=
  ∀ x : BitVec ws, exec [embed ws ss x] code [] = some [embed wd sd (Go.conv ss x wd)]

/-- type names used by the emitter -/
def tyOf : String → Option ITy
  | "u8" => some Go.u8 | "u16" => some Go.u16 | "i32" => some Go.i32 | "u32" => some Go.u32
  | "i64" => some Go.i64 | "u64" => some Go.u64 | "rune" => some Go.i32 | _ => none

end WaVerif.C01
