import WaVerif.Model.C02X64
/-!
# C02: the statement every extracted x86-64 template has to satisfy (fixed by the WebAssembly instruction's name)

`t.x` is the frame slot of the bottom operand-stack position the instruction works on (first operand and
result), `t.y` the slot above it (second operand).  The slots are quantified as full 64-bit words: the
upper half of a slot holding an `i32` is arbitrary (earlier templates only write the low 4 bytes).

`Outcome*`: when WebAssembly yields `r`, running the template terminates normally with `r` in the result
slot and everything outside {rax, r10, r11, flags, result slot} unchanged (the machine stack included);
when WebAssembly traps, the template faults (`#DE`).
-/
namespace WaVerif.C02
open WaVerif WaVerif.X64

def lo32 (v : BitVec 64) : BitVec 32 := v.setWidth 32

/-- every register except the scratch registers rax, r10, r11; the machine stack; every frame slot except `r` -/
def Preserved (s s' : State) (r : Nat) : Prop :=
  s'.rcx = s.rcx ∧ s'.rdx = s.rdx ∧ s'.rbx = s.rbx ∧ s'.rsi = s.rsi ∧ s'.rdi = s.rdi ∧ s'.r8 = s.r8 ∧ s'.r9 = s.r9 ∧
  s'.r12 = s.r12 ∧ s'.r13 = s.r13 ∧ s'.r14 = s.r14 ∧ s'.r15 = s.r15 ∧ s'.stk = s.stk ∧
  ∀ k : Nat, k ≠ r → s'.slots k = s.slots k

def Outcome32 (t : Template) (s : State) (res : Option (BitVec 32)) : Prop :=
  match res with
  | none => run t.code s = none
  | some r => ∃ s', run t.code s = some s' ∧ lo32 (s'.slots t.x) = r ∧ Preserved s s' t.x

def Outcome64 (t : Template) (s : State) (res : Option (BitVec 64)) : Prop :=
  match res with
  | none => run t.code s = none
  | some r => ∃ s', run t.code s = some s' ∧ s'.slots t.x = r ∧ Preserved s s' t.x

def BinRow32 (k : Wasm.BinK) (t : Template) : Prop :=
  t.x ≠ t.y ∧ ∀ s : State, Outcome32 t s (Wasm.binop k (lo32 (s.slots t.x)) (lo32 (s.slots t.y)))

def BinRow64 (k : Wasm.BinK) (t : Template) : Prop :=
  t.x ≠ t.y ∧ ∀ s : State, Outcome64 t s (Wasm.binop k (s.slots t.x) (s.slots t.y))

/-- weakened form for `rem_s`: everything except the operand pair (MinInt, -1) -/
def BinRow32ExceptMinInt (k : Wasm.BinK) (t : Template) : Prop :=
  t.x ≠ t.y ∧ ∀ s : State, ¬ (lo32 (s.slots t.x) = BitVec.intMin 32 ∧ lo32 (s.slots t.y) = -1) →
    Outcome32 t s (Wasm.binop k (lo32 (s.slots t.x)) (lo32 (s.slots t.y)))

def BinRow64ExceptMinInt (k : Wasm.BinK) (t : Template) : Prop :=
  t.x ≠ t.y ∧ ∀ s : State, ¬ (s.slots t.x = BitVec.intMin 64 ∧ s.slots t.y = -1) →
    Outcome64 t s (Wasm.binop k (s.slots t.x) (s.slots t.y))

def RelRow32 (k : Wasm.RelK) (t : Template) : Prop :=
  t.x ≠ t.y ∧ ∀ s : State, Outcome32 t s (some (Wasm.b2i (Wasm.relop k (lo32 (s.slots t.x)) (lo32 (s.slots t.y)))))

def RelRow64 (k : Wasm.RelK) (t : Template) : Prop :=
  t.x ≠ t.y ∧ ∀ s : State, Outcome32 t s (some (Wasm.b2i (Wasm.relop k (s.slots t.x) (s.slots t.y))))

def EqzRow32 (t : Template) : Prop := ∀ s : State, Outcome32 t s (some (Wasm.b2i (lo32 (s.slots t.x) == 0)))
def EqzRow64 (t : Template) : Prop := ∀ s : State, Outcome32 t s (some (Wasm.b2i (s.slots t.x == 0)))
def UnRow32 (k : Wasm.UnK) (t : Template) : Prop := ∀ s : State, Outcome32 t s (some (Wasm.unop k (lo32 (s.slots t.x))))
def UnRow64 (k : Wasm.UnK) (t : Template) : Prop := ∀ s : State, Outcome64 t s (some (Wasm.unop k (s.slots t.x)))
def WrapRow (t : Template) : Prop := ∀ s : State, Outcome32 t s (some ((s.slots t.x).setWidth 32))
def ExtSRow (t : Template) : Prop := ∀ s : State, Outcome64 t s (some ((lo32 (s.slots t.x)).signExtend 64))
def ExtURow (t : Template) : Prop := ∀ s : State, Outcome64 t s (some ((lo32 (s.slots t.x)).setWidth 64))

/-- `select`: operands x (chosen when the condition is non-zero), y, condition in slot `c` -/
def SelectRow32 (t : Template) (c : Nat) : Prop :=
  t.x ≠ t.y ∧ t.x ≠ c ∧ t.y ≠ c ∧
  ∀ s : State, Outcome32 t s (some (if lo32 (s.slots c) ≠ 0 then lo32 (s.slots t.x) else lo32 (s.slots t.y)))

def SelectRow64 (t : Template) (c : Nat) : Prop :=
  t.x ≠ t.y ∧ t.x ≠ c ∧ t.y ≠ c ∧
  ∀ s : State, Outcome64 t s (some (if lo32 (s.slots c) ≠ 0 then s.slots t.x else s.slots t.y))

/-- a template the model cannot execute on any state (ill-formed operand widths: the assembler rejects it) -/
def Illformed (t : Template) : Prop := ∀ s : State, run t.code s = none

/-- concrete state used by the witnesses: all registers zero, operands in the template's slots -/
def witnessState (t : Template) (x y : BitVec 64) : State :=
  { rax := 0, rcx := 0, rdx := 0, rbx := 0, rsi := 0, rdi := 0, r8 := 0, r9 := 0, r10 := 0, r11 := 0, r12 := 0, r13 := 0,
    r14 := 0, r15 := 0, flags := none, slots := fun k => if k = t.x then x else if k = t.y then y else 0, stk := [] }

end WaVerif.C02
