import WaVerif.Gen.C14Tables
/-!
# C14 — model of math/bits (bits.wa), core Lean only, executable
Functions are written over `BitVec w` exactly as the source computes them (SWAR masks, table lookups through the
regenerated `*8tab` / de Bruijn tables); results that Go returns as `int` are naturals.
Shifts have Go's semantics (`x >>> n = 0` for `n ≥ w`).
-/
namespace WaVerif.C14
open WaVerif.C14.Gen

def tab8 (t : List Nat) (i : BitVec 8) : BitVec 8 := BitVec.ofNat 8 (t.getD i.toNat 0)

def byteOf {w : Nat} (x : BitVec w) (k : Nat) : BitVec 8 := x.extractLsb' (8 * k) 8

def m0 : BitVec 64 := 0x5555555555555555#64
def m1 : BitVec 64 := 0x3333333333333333#64
def m2 : BitVec 64 := 0x0f0f0f0f0f0f0f0f#64
def m3 : BitVec 64 := 0x00ff00ff00ff00ff#64
def m4 : BitVec 64 := 0x0000ffff0000ffff#64

/-! ### OnesCount -/
def onesCount8 (x : BitVec 8) : Nat := (tab8 pop8tab x).toNat
def onesCount16 (x : BitVec 16) : Nat := (tab8 pop8tab (byteOf x 1) + tab8 pop8tab (byteOf x 0)).toNat
def onesCount32 (x : BitVec 32) : Nat :=
  (tab8 pop8tab (byteOf x 3) + tab8 pop8tab (byteOf x 2) + tab8 pop8tab (byteOf x 1) + tab8 pop8tab (byteOf x 0)).toNat
def onesCount64 (x : BitVec 64) : Nat :=
  let x := ((x >>> 1) &&& m0) + (x &&& m0)
  let x := ((x >>> 2) &&& m1) + (x &&& m1)
  let x := ((x >>> 4) + x) &&& m2
  let x := x + (x >>> 8)
  let x := x + (x >>> 16)
  let x := x + (x >>> 32)
  (x &&& 127#64).toNat

/-! ### Len / LeadingZeros -/
def len8 (x : BitVec 8) : Nat := (tab8 len8tab x).toNat
def len16 (x : BitVec 16) : Nat :=
  if x ≥ 0x100#16 then 8 + len8 (byteOf x 1) else len8 (byteOf x 0)
def len32 (x : BitVec 32) : Nat :=
  let (x, n) := if x ≥ 0x10000#32 then (x >>> 16, 16) else (x, 0)
  let (x, n) := if x ≥ 0x100#32 then (x >>> 8, n + 8) else (x, n)
  n + len8 (byteOf x 0)
def len64 (x : BitVec 64) : Nat :=
  let (x, n) := if x ≥ 0x100000000#64 then (x >>> 32, 32) else (x, 0)
  let (x, n) := if x ≥ 0x10000#64 then (x >>> 16, n + 16) else (x, n)
  let (x, n) := if x ≥ 0x100#64 then (x >>> 8, n + 8) else (x, n)
  n + len8 (byteOf x 0)
def leadingZeros8 (x : BitVec 8) : Nat := 8 - len8 x
def leadingZeros16 (x : BitVec 16) : Nat := 16 - len16 x
def leadingZeros32 (x : BitVec 32) : Nat := 32 - len32 x
def leadingZeros64 (x : BitVec 64) : Nat := 64 - len64 x

/-! ### TrailingZeros -/
def trailingZeros8 (x : BitVec 8) : Nat := (tab8 ntz8tab x).toNat
def deBruijnIdx32 (x : BitVec 32) : Nat := (((x &&& -x) * BitVec.ofNat 32 deBruijn32) >>> 27).toNat
def deBruijnIdx64 (x : BitVec 64) : Nat := (((x &&& -x) * BitVec.ofNat 64 deBruijn64) >>> 58).toNat
def trailingZeros16 (x : BitVec 16) : Nat :=
  if x = 0 then 16 else deBruijn32tab.getD (deBruijnIdx32 (x.zeroExtend 32)) 0
def trailingZeros32 (x : BitVec 32) : Nat :=
  if x = 0 then 32 else deBruijn32tab.getD (deBruijnIdx32 x) 0
def trailingZeros64 (x : BitVec 64) : Nat :=
  if x = 0 then 64 else deBruijn64tab.getD (deBruijnIdx64 x) 0

/-! ### Reverse / ReverseBytes -/
def reverseBytes16 (x : BitVec 16) : BitVec 16 := x >>> 8 ||| x <<< 8
def reverseBytes32 (x : BitVec 32) : BitVec 32 :=
  let m := m3.truncate 32
  let x := (x >>> 8 &&& m) ||| ((x &&& m) <<< 8)
  x >>> 16 ||| x <<< 16
def reverseBytes64 (x : BitVec 64) : BitVec 64 :=
  let x := (x >>> 8 &&& m3) ||| ((x &&& m3) <<< 8)
  let x := (x >>> 16 &&& m4) ||| ((x &&& m4) <<< 16)
  x >>> 32 ||| x <<< 32
def reverse8 (x : BitVec 8) : BitVec 8 := tab8 rev8tab x
def reverse16 (x : BitVec 16) : BitVec 16 :=
  (tab8 rev8tab (byteOf x 1)).zeroExtend 16 ||| ((tab8 rev8tab (byteOf x 0)).zeroExtend 16 <<< 8)
def reverse32 (x : BitVec 32) : BitVec 32 :=
  let a := m0.truncate 32; let b := m1.truncate 32; let c := m2.truncate 32
  let x := (x >>> 1 &&& a) ||| ((x &&& a) <<< 1)
  let x := (x >>> 2 &&& b) ||| ((x &&& b) <<< 2)
  let x := (x >>> 4 &&& c) ||| ((x &&& c) <<< 4)
  reverseBytes32 x
def reverse64 (x : BitVec 64) : BitVec 64 :=
  let x := (x >>> 1 &&& m0) ||| ((x &&& m0) <<< 1)
  let x := (x >>> 2 &&& m1) ||| ((x &&& m1) <<< 2)
  let x := (x >>> 4 &&& m2) ||| ((x &&& m2) <<< 4)
  reverseBytes64 x

/-! ### RotateLeft: `s := uint(k) & (n-1); x<<s | x>>(n-s)` -/
def rotAmount (n : Nat) (k : Int) : Nat := (k % n).toNat          -- n a power of two: the low bits of two's complement k
def rotateLeftW {w : Nat} (x : BitVec w) (k : Int) : BitVec w :=
  let s := rotAmount w k
  x <<< s ||| x >>> (w - s)

/-! ### Add / Sub / Mul with carry -/
def add64 (x y c : BitVec 64) : BitVec 64 × BitVec 64 :=
  let sum := x + y + c
  (sum, ((x &&& y) ||| ((x ||| y) &&& ~~~sum)) >>> 63)
def add32 (x y c : BitVec 32) : BitVec 32 × BitVec 32 :=
  let s64 := x.zeroExtend 64 + y.zeroExtend 64 + c.zeroExtend 64
  (s64.truncate 32, (s64 >>> 32).truncate 32)
def sub64 (x y b : BitVec 64) : BitVec 64 × BitVec 64 :=
  let diff := x - y - b
  (diff, ((~~~x &&& y) ||| (~~~(x ^^^ y) &&& diff)) >>> 63)
def sub32 (x y b : BitVec 32) : BitVec 32 × BitVec 32 :=
  let diff := x - y - b
  (diff, ((~~~x &&& y) ||| (~~~(x ^^^ y) &&& diff)) >>> 31)
def mul32 (x y : BitVec 32) : BitVec 32 × BitVec 32 :=
  let t := x.zeroExtend 64 * y.zeroExtend 64
  ((t >>> 32).truncate 32, t.truncate 32)

/-- `Mul64` on naturals with explicit 64-bit wrap-around (`% 2^64`) at every operation, as the source computes it -/
def mul64 (x y : Nat) : Nat × Nat :=
  let B := 2 ^ 32
  let W := 2 ^ 64
  let x0 := x % B; let x1 := x / B
  let y0 := y % B; let y1 := y / B
  let w0 := (x0 * y0) % W
  let t := (x1 * y0 % W + w0 / B) % W
  let w1 := t % B
  let w2 := t / B
  let w1 := (w1 + x0 * y1 % W) % W
  let hi := ((x1 * y1 % W + w2) % W + w1 / B) % W
  (hi, (x * y) % W)

/-- `Div64` (Knuth D, two-digit by one-digit), Go shift semantics; on naturals with explicit wrap-around.
Executed for correspondence only — no theorem. -/
def div64 (hi lo y : Nat) : Option (Nat × Nat) :=
  let W := 2 ^ 64; let B := 2 ^ 32
  if y = 0 ∨ y ≤ hi then none else
  let s := 64 - Nat.log2 y - 1
  let y := (y <<< s) % W
  let yn1 := y / B; let yn0 := y % B
  let un32 := ((hi <<< s) % W) ||| (if s = 0 then 0 else lo >>> (64 - s))
  let un10 := (lo <<< s) % W
  let un1 := un10 / B; let un0 := un10 % B
  let q1 := un32 / yn1
  let rhat := (un32 + W - (q1 * yn1) % W) % W
  let adj := fun (q rhat u : Nat) =>
    -- for q >= two32 || q*yn0 > two32*rhat+u { q--; rhat += yn1; if rhat >= two32 {break} }   (at most 2 rounds)
    let step := fun (qr : Nat × Nat × Bool) =>
      let (q, rhat, stop) := qr
      if stop then qr
      else if q ≥ B ∨ (q * yn0) % W > ((B * rhat) % W + u) % W then
        let q := (q + W - 1) % W; let rhat := (rhat + yn1) % W
        (q, rhat, decide (rhat ≥ B))
      else (q, rhat, true)
    (step (step (step (q, rhat, false)))).1
  let q1 := adj q1 rhat un1
  let un21 := (((un32 * B) % W + un1) % W + W - (q1 * y) % W) % W
  let q0 := un21 / yn1
  let rhat := (un21 + W - (q0 * yn1) % W) % W
  let q0 := adj q0 rhat un0
  some (((q1 * B) % W + q0) % W, ((((un21 * B) % W + un0) % W + W - (q0 * y) % W) % W) >>> s)

end WaVerif.C14
