import WaVerif.Gen.C14Tables
/-!
# C14 — model of Wa's port of unicode/utf8 (core Lean only, executable)
Bytes are naturals < 256, runes are integers (Go's `rune` is signed).  Masks and shifts are written as `%` and `/`,
`|` of disjoint bit fields as `+`.  The decoder is driven by the regenerated `first` / `acceptRanges` tables.
-/
namespace WaVerif.C14
open WaVerif.C14.Gen

def enc3 (i : Nat) : List Nat := [224 + i / 4096, 128 + i / 64 % 64, 128 + i % 64]

/-- `EncodeRune` / `AppendRune`: the switch is on `uint32(r)`, so negative runes count as too large -/
def encodeRune (r : Int) : List Nat :=
  let i := (r % 2 ^ 32).toNat
  if i ≤ utf8Rune1Max then [i]
  else if i ≤ utf8Rune2Max then [192 + i / 64, 128 + i % 64]
  else if i > utf8MaxRune ∨ (utf8SurrogateMin ≤ i ∧ i ≤ utf8SurrogateMax) then enc3 utf8RuneError
  else if i ≤ utf8Rune3Max then enc3 i
  else [240 + i / 262144, 128 + i / 4096 % 64, 128 + i / 64 % 64, 128 + i % 64]

/-- `RuneLen` (-1 for an invalid rune) -/
def runeLen (r : Int) : Int :=
  if r < 0 then -1
  else if r ≤ utf8Rune1Max then 1
  else if r ≤ utf8Rune2Max then 2
  else if utf8SurrogateMin ≤ r ∧ r ≤ utf8SurrogateMax then -1
  else if r ≤ utf8Rune3Max then 3
  else if r ≤ utf8MaxRune then 4
  else -1

def validRune (r : Int) : Bool :=
  (0 ≤ r ∧ r < utf8SurrogateMin) ∨ (utf8SurrogateMax < r ∧ r ≤ utf8MaxRune)

/-- the part of `DecodeRune` after the table lookups: `sz` = announced length, `[lo, hi]` = range accepted for the
second byte, `n` = number of bytes available -/
def decodeTail (p0 sz lo hi : Nat) (rest : List Nat) : Nat × Nat :=
  if rest.length + 1 < sz then (utf8RuneError, 1) else
  match rest with
  | [] => (utf8RuneError, 1)
  | b1 :: r2 =>
    if b1 < lo ∨ hi < b1 then (utf8RuneError, 1)
    else if sz ≤ 2 then (p0 % 32 * 64 + b1 % 64, 2)
    else match r2 with
      | [] => (utf8RuneError, 1)
      | b2 :: r3 =>
        if b2 < 128 ∨ 191 < b2 then (utf8RuneError, 1)
        else if sz ≤ 3 then (p0 % 16 * 4096 + b1 % 64 * 64 + b2 % 64, 3)
        else match r3 with
          | [] => (utf8RuneError, 1)
          | b3 :: _ =>
            if b3 < 128 ∨ 191 < b3 then (utf8RuneError, 1)
            else (p0 % 8 * 262144 + b1 % 64 * 4096 + b2 % 64 * 64 + b3 % 64, 4)

/-- what a first byte announces -/
inductive ByteClass where
  | ascii
  | invalid
  | lead (sz lo hi : Nat)
  deriving DecidableEq, Repr

/-- the source's classification: `x = first[p0]`; `x >= 0xF0` are the one-byte cases (low bit set = invalid),
otherwise the low 3 bits are the length and the high nibble indexes `acceptRanges` -/
def tableClass (b : Nat) : ByteClass :=
  let x := utf8First.getD b 241
  if x ≥ 240 then (if x % 2 = 1 then .invalid else .ascii)
  else .lead (x % 8) (utf8AcceptLo.getD (x / 16) 0) (utf8AcceptHi.getD (x / 16) 0)

/-- Unicode 15, Table 3-7 "Well-Formed UTF-8 Byte Sequences", by first byte: (length, range of the second byte);
`none` for bytes that never start a sequence (80..C1, F5..FF).  Written from the standard, not from the tables. -/
def leadClass (b0 : Nat) : Option (Nat × Nat × Nat) :=
  if 0xC2 ≤ b0 ∧ b0 ≤ 0xDF then some (2, 0x80, 0xBF)
  else if b0 = 0xE0 then some (3, 0xA0, 0xBF)
  else if (0xE1 ≤ b0 ∧ b0 ≤ 0xEC) ∨ b0 = 0xEE ∨ b0 = 0xEF then some (3, 0x80, 0xBF)
  else if b0 = 0xED then some (3, 0x80, 0x9F)
  else if b0 = 0xF0 then some (4, 0x90, 0xBF)
  else if 0xF1 ≤ b0 ∧ b0 ≤ 0xF3 then some (4, 0x80, 0xBF)
  else if b0 = 0xF4 then some (4, 0x80, 0x8F)
  else none

def specClass (b : Nat) : ByteClass :=
  if b < 0x80 then .ascii
  else match leadClass b with
    | none => .invalid
    | some (sz, lo, hi) => .lead sz lo hi

def decodeWith (cls : Nat → ByteClass) (p : List Nat) : Nat × Nat :=
  match p with
  | [] => (utf8RuneError, 0)
  | p0 :: rest =>
    match cls p0 with
    | .ascii => (p0, 1)
    | .invalid => (utf8RuneError, 1)
    | .lead sz lo hi => decodeTail p0 sz lo hi rest

/-- `DecodeRune`: (rune, size), driven by the source's tables -/
def decodeRune (p : List Nat) : Nat × Nat := decodeWith tableClass p

/-- decoding as the standard prescribes: a well-formed sequence at the head gives its scalar value and length,
anything else gives (U+FFFD, 1) — Go's convention for invalid input — and the empty input (U+FFFD, 0) -/
def decodeSpec (p : List Nat) : Nat × Nat := decodeWith specClass p

/-- `RuneStart` -/
def runeStart (b : Nat) : Bool := b / 64 % 4 != 2

/-- `DecodeLastRune` -/
def decodeLastRune (p : List Nat) : Nat × Nat :=
  let e := p.length
  if e = 0 then (utf8RuneError, 0) else
  let last := p.getD (e - 1) 0
  if last < 128 then (last, 1) else
  let lim := e - 4
  -- Go: start = end-1; for start--; start >= lim; start-- { if RuneStart(p[start]) break }; if start < 0 { start = 0 }
  let start :=
    let s0 := e - 1
    let rec go (s : Nat) (fuel : Nat) : Nat :=
      match fuel with
      | 0 => s
      | f + 1 =>
        if s = 0 then 0                      -- start-- would go below 0: loop ends, start clamps to 0
        else if s - 1 < lim then s - 1       -- condition start >= lim fails: loop ends with start = s-1 (≥ 0)
        else if runeStart (p.getD (s - 1) 0) then s - 1
        else go (s - 1) f
    go s0 4
  let (r, size) := decodeRune (p.drop start)
  if start + size ≠ e then (utf8RuneError, 1) else (r, size)

/-- `Valid` -/
def validUtf8 : Nat → List Nat → Bool
  | 0, _ => true
  | f + 1, p =>
    match p with
    | [] => true
    | p0 :: _ =>
      let (r, size) := decodeRune p
      if size = 1 ∧ r = utf8RuneError ∧ p0 ≥ 128 then false
      else validUtf8 f (p.drop size)

def valid (p : List Nat) : Bool := validUtf8 (p.length + 1) p

/-- `RuneCount` -/
def runeCountAux : Nat → List Nat → Nat → Nat
  | 0, _, n => n
  | f + 1, p, n =>
    match p with
    | [] => n
    | _ => runeCountAux f (p.drop (max 1 (decodeRune p).2)) (n + 1)

def runeCount (p : List Nat) : Nat := runeCountAux (p.length + 1) p 0

/-- `FullRune` -/
def fullRune (p : List Nat) : Bool :=
  match p with
  | [] => false
  | p0 :: rest =>
    let x := utf8First.getD p0 241
    if p.length ≥ x % 8 then true
    else
      let lo := utf8AcceptLo.getD (x / 16) 0
      let hi := utf8AcceptHi.getD (x / 16) 0
      match rest with
      | [] => false
      | b1 :: r2 =>
        if b1 < lo ∨ hi < b1 then true
        else match r2 with
          | [] => false
          | b2 :: _ => if b2 < 128 ∨ 191 < b2 then true else false

end WaVerif.C14
