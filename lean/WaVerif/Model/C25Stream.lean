/-!
# Base.Stream — a byte stream delivered in arbitrary chunks, read through a bounded buffer

(Shared by C25 and C26; DESIGN.md section 4 "Base.Stream".)

The transport is a list of chunks (`Chunks`).  One `Read(p)` with `len(p) = cap` returns at most
`cap` bytes of the head chunk (`readChunk`); the rest of that chunk stays for the next `Read`.
A consumer pulls single bytes through a buffer of capacity `cap` (`Buffered.next`): the 1-byte
`readBuf` of the SLIP reader is `cap = 1`, a `bufio.Reader` is `cap = 4096`.
`none` means the transport reported EOF *or* a 0-byte read (the Go readers stop on both).

The lemmas (Lemmas/C25Stream.lean) show that when every chunk is non-empty and `cap ≥ 1`, the
sequence of bytes obtained with `next` is exactly the concatenation of the chunks
(`Buffered.flat`), so a consumer written against `next` computes the same result as the same
consumer on the flat list.  The generic consumers `takeUntilC` / `takeNC` (used by C26) are here too.
-/
namespace WaVerif.Stream

abbrev Chunks := List (List Nat)

/-- one `Read` with a destination of `cap` bytes -/
def readChunk (cap : Nat) : Chunks → Option (List Nat × Chunks)
  | [] => none
  | c :: cs => if c.length ≤ cap then some (c, cs) else some (c.take cap, c.drop cap :: cs)

/-- bytes already fetched into the buffer + what the transport still holds -/
structure Buffered where
  buf : List Nat
  rest : Chunks
  deriving Repr

/-- the byte sequence a `Buffered` source still has to deliver -/
def Buffered.flat (s : Buffered) : List Nat := s.buf ++ s.rest.flatten

def Buffered.ofChunks (cs : Chunks) : Buffered := ⟨[], cs⟩

/-- next byte through a buffer of capacity `cap`; refills with ONE `Read` when the buffer is empty -/
def Buffered.next (cap : Nat) (s : Buffered) : Option (Nat × Buffered) :=
  match s.buf with
  | b :: bs => some (b, ⟨bs, s.rest⟩)
  | [] =>
    match readChunk cap s.rest with
    | none => none
    | some ([], _) => none
    | some (b :: bs, cs) => some (b, ⟨bs, cs⟩)

/-- transport well-formedness: every `Read` returns at least one byte until EOF -/
def ChunksWF (cs : Chunks) : Prop := ∀ c ∈ cs, c ≠ []

def Buffered.WF (cap : Nat) (s : Buffered) : Prop := 1 ≤ cap ∧ ChunksWF s.rest

theorem Buffered.next_flat {cap : Nat} {s s' : Buffered} {b : Nat}
    (h : s.next cap = some (b, s')) : s.flat = b :: s'.flat := by
  unfold Buffered.next at h
  cases hb : s.buf with
  | cons x xs =>
    rw [hb] at h
    simp only [Option.some.injEq, Prod.mk.injEq] at h
    obtain ⟨rfl, rfl⟩ := h
    simp [Buffered.flat, hb]
  | nil =>
    rw [hb] at h
    simp only at h
    cases hr : s.rest with
    | nil => rw [hr] at h; simp [readChunk] at h
    | cons c cs =>
      rw [hr] at h
      simp only [readChunk] at h
      by_cases hc : c.length ≤ cap
      · rw [if_pos hc] at h
        cases c with
        | nil => simp at h
        | cons y ys =>
          simp only [Option.some.injEq, Prod.mk.injEq] at h
          obtain ⟨rfl, rfl⟩ := h
          simp [Buffered.flat, hb, hr]
      · rw [if_neg hc] at h
        cases ht : c.take cap with
        | nil => rw [ht] at h; simp at h
        | cons y ys =>
          rw [ht] at h
          simp only [Option.some.injEq, Prod.mk.injEq] at h
          obtain ⟨rfl, rfl⟩ := h
          have : c = (y :: ys) ++ c.drop cap := by rw [← ht, List.take_append_drop]
          simp only [Buffered.flat, hb, hr, List.nil_append, List.flatten_cons]
          conv => lhs; rw [this]
          simp

theorem Buffered.next_flat_length {cap : Nat} {s s' : Buffered} {b : Nat}
    (h : s.next cap = some (b, s')) : s'.flat.length < s.flat.length := by
  rw [Buffered.next_flat h]; simp

/-! ## generic consumers (C26 builds `readBase` from these) -/

/-- `bufio.Reader.ReadString(delim)`: bytes up to and including the first `delim`;
`none` when the stream ends first (Go returns the partial data with the error). -/
def takeUntilC (cap : Nat) (delim : Nat) (s : Buffered) (acc : List Nat) : Option (List Nat × Buffered) :=
  match _h : s.next cap with
  | none => none
  | some (b, s1) =>
    if b = delim then some (acc ++ [b], s1) else takeUntilC cap delim s1 (acc ++ [b])
termination_by s.flat.length
decreasing_by exact Buffered.next_flat_length _h

/-- `io.ReadFull(r, make([]byte, n))`: exactly `n` bytes, `none` when the stream ends first -/
def takeNC (cap : Nat) : Nat → Buffered → List Nat → Option (List Nat × Buffered)
  | 0, s, acc => some (acc, s)
  | n + 1, s, acc =>
    match s.next cap with
    | none => none
    | some (b, s1) => takeNC cap n s1 (acc ++ [b])

/-- flat counterparts -/
def takeUntil (delim : Nat) : List Nat → List Nat → Option (List Nat × List Nat)
  | [], _ => none
  | b :: rest, acc => if b = delim then some (acc ++ [b], rest) else takeUntil delim rest (acc ++ [b])

def takeN : Nat → List Nat → List Nat → Option (List Nat × List Nat)
  | 0, s, acc => some (acc, s)
  | _ + 1, [], _ => none
  | n + 1, b :: rest, acc => takeN n rest (acc ++ [b])

/-- split a flat byte list into chunks of the given lengths, cyclically (driver / correspondence) -/
def chunkBy (splits : List Nat) (fuel : Nat) (i : Nat) (l : List Nat) : Chunks :=
  match fuel with
  | 0 => if l.isEmpty then [] else [l]
  | fuel + 1 =>
    if l.isEmpty then [] else
    let n := max 1 (splits.getD (i % max 1 splits.length) 1)
    l.take n :: chunkBy splits fuel (i + 1) (l.drop n)

end WaVerif.Stream
