/-!
# C18 — PC-relative hi/lo splitting (hand-written model; tied to internal/native/pcrel by correspondence)

Every Go function of `pcrel.go` / `la64.go` is transcribed expression for expression on
`BitVec 32` (`int32` / `uint32`) and `BitVec 64` (`int64`):

* `x >> 12` on a signed Go integer is `sshiftRight 12`; `x << 12` wraps (`<<<`);
* `int32(x)` of an `int64` is `setWidth 32`; `int64(x)` of an `int32` is `signExtend 64`,
  of a `uint32` it is `setWidth 64` (zero extension);
* `a &^ 0xFFF` is `a &&& ~~~0xFFF`; `lo >= 0x800` on `int32` is the signed comparison `sle`.

The second half is a *specification*, written from the ISA manuals and not from the repo:
what the CPU computes from the two instruction fields that the encoders emit
(`riscv/encode.go`: `imm << 12` and `imm << 20` of the `uint32` immediate, i.e. the low 20 / 12
bits; `loong64/encode.go`: `Imm & 0xFFFFF`, `Imm & 0xFFF`).
-/
namespace WaVerif.C18

/-! ## pcrel.go -/

/-- `SplitOffset(delta int32) (hiCorr, loSigned int32)` -/
def splitOffset (delta : BitVec 32) : BitVec 32 × BitVec 32 :=
  let hiCorr :=
    if delta &&& 0x800#32 ≠ 0#32 then delta.sshiftRight 12 + 1#32 else delta.sshiftRight 12
  (hiCorr, delta - (hiCorr <<< 12))

/-- `CombineOffset(pcrel_hi, pcrel_lo int32) int32 = (pcrel_hi << 12) + pcrel_lo` -/
def combineOffset (hi lo : BitVec 32) : BitVec 32 := (hi <<< 12) + lo

/-- `MakeAbs(targetAddress uint32)` -/
def makeAbs (target : BitVec 32) : BitVec 32 × BitVec 32 := splitOffset target

/-- `MakePCRel(targetAddress, pc int64)`: `delta := int32(targetAddress - pc)` -/
def makePCRel (target pc : BitVec 64) : BitVec 32 × BitVec 32 :=
  splitOffset ((target - pc).setWidth 32)

/-- `GetTargetAddress(pc uint32, hi, lo int32) uint32 = uint32(int64(pc) + int64(delta))` -/
def getTargetAddress (pc hi lo : BitVec 32) : BitVec 32 :=
  (pc.setWidth 64 + (combineOffset hi lo).signExtend 64).setWidth 32

/-! ## la64.go -/

/-- `MakeLa64PCRel(targetAddress, pc int64) (pc_hi20, pc_lo12 int32)` -/
def makeLa64PCRel (target pc : BitVec 64) : BitVec 32 × BitVec 32 :=
  let pcPage := pc &&& ~~~0xFFF#64
  let delta := target - pcPage
  let hi0 := (delta.sshiftRight 12).setWidth 32
  let lo := (delta &&& 0xFFF#64).setWidth 32
  let hi1 := if (0x800#32).sle lo then hi0 + 1#32 else hi0
  (hi1 &&& 0xFFFFF#32, lo)

/-- `GetTargetAddressLa64(pc int64, pc_hi20, pc_lo12 int32) int64` — the repo's own inverse
(no sign extension of the 20- and 12-bit fields; see `getTargetAddressLa64_agrees_iff`). -/
def getTargetAddressLa64 (pc : BitVec 64) (hi lo : BitVec 32) : BitVec 64 :=
  ((pc + (hi.signExtend 64 <<< 12)) &&& ~~~0xFFF#64) + lo.signExtend 64

/-! ## CPU semantics of the instruction pairs (specification, from the manuals) -/

/-- the 20-bit / 12-bit instruction field holding the low bits of the `int32` immediate,
sign-extended to the register width, as the CPU reads it -/
def sext20 (x : BitVec 32) : BitVec 64 := (x.setWidth 20).signExtend 64
def sext12 (x : BitVec 32) : BitVec 64 := (x.setWidth 12).signExtend 64

/-- RV32I `auipc rd, hi ; addi rd, rd, lo` executed at `pc`:
`rd = pc + (imm20 << 12)`, then `rd + sext(imm12)`, all modulo 2^32. -/
def cpuRv32 (pc hi lo : BitVec 32) : BitVec 32 :=
  pc + ((hi.setWidth 20).setWidth 32 <<< 12) + (lo.setWidth 12).signExtend 32

/-- RV64I: `auipc` adds the *sign-extended* 32-bit value `imm20 << 12` to the 64-bit pc. -/
def cpuRv64 (pc : BitVec 64) (hi lo : BitVec 32) : BitVec 64 :=
  pc + ((hi.setWidth 20).setWidth 32 <<< 12).signExtend 64 + sext12 lo

/-- LoongArch64 `pcalau12i rd, si20 ; addi.d rd, rd, si12` executed at `pc`:
`rd = (pc + SignExtend({si20, 12'b0})) with the low 12 bits cleared`, then `rd + SignExtend(si12)`. -/
def cpuLa64 (pc : BitVec 64) (hi lo : BitVec 32) : BitVec 64 :=
  ((pc + (sext20 hi <<< 12)) &&& ~~~0xFFF#64) + sext12 lo

/-- the target is within the reach of `pcalau12i`+`addi.d`:
`-2^31 ≤ (target - page(pc)) + 0x800 < 2^31` as a signed 64-bit difference -/
def InPcalauRange (pc t : BitVec 64) : Prop :=
  -2147483648 ≤ (t - (pc &&& ~~~0xFFF#64)).toInt + 2048 ∧
    (t - (pc &&& ~~~0xFFF#64)).toInt + 2048 < 2147483648

instance (pc t : BitVec 64) : Decidable (InPcalauRange pc t) := by
  unfold InPcalauRange; infer_instance

/-- the signed 64-bit difference `target - pc` fits an `int32` -/
def Fits32 (d : BitVec 64) : Prop := -2147483648 ≤ d.toInt ∧ d.toInt < 2147483648

instance (d : BitVec 64) : Decidable (Fits32 d) := by unfold Fits32; infer_instance

/-- reach of `auipc`+`addi` on RV64: `-2^31 - 2^11 ≤ d < 2^31 - 2^11`; intersected with
`Fits32` (what `MakePCRel` can represent at all) this is `-2^31 ≤ d < 2^31 - 2^11`. -/
def InAuipcRange64 (d : BitVec 64) : Prop := -2147483648 ≤ d.toInt ∧ d.toInt < 2147483648 - 2048

instance (d : BitVec 64) : Decidable (InAuipcRange64 d) := by unfold InAuipcRange64; infer_instance

end WaVerif.C18
