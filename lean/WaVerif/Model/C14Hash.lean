import WaVerif.Gen.C14Tables
/-!
# C14 — models of Wa's ports of hash/crc32, hash/adler32, hash/fnv (core Lean only, executable)

Bytes and registers are naturals; 32/64-bit wrap-around is written explicitly as `% 2^32` / `% 2^64`.
Polynomials, tables, moduli, offsets and primes come from `Gen/C14Tables.lean` (regenerated from the `.wa`
sources; the CRC tables are the ones the port computes at run time).
-/
namespace WaVerif.C14
open WaVerif.C14.Gen

/-! ## CRC-32 (LSB-first / reflected), hash/crc32/crc32_generic.wa -/

/-- one bit of the shift register: `if crc&1 == 1 { crc = (crc >> 1) ^ poly } else { crc >>= 1 }` -/
def crcBitStep (poly crc : Nat) : Nat := if crc % 2 = 1 then (crc / 2) ^^^ poly else crc / 2

def crcBits (poly : Nat) : Nat → Nat → Nat
  | 0, c => c
  | k + 1, c => crcBits poly k (crcBitStep poly c)

/-- `simplePopulateTable`: entry `i` is `i` pushed through 8 bit steps -/
def crcTableEntry (poly i : Nat) : Nat := crcBits poly 8 i

def crcMakeTable (poly : Nat) : List Nat := (List.range 256).map (crcTableEntry poly)

/-- `simpleUpdate` inner step: `crc = tab[byte(crc)^v] ^ (crc >> 8)` -/
def crcStep (tab : List Nat) (crc b : Nat) : Nat := tab.getD ((crc % 256) ^^^ b) 0 ^^^ (crc / 256)

/-- `simpleUpdate`: `crc = ^crc; for … ; return ^crc` -/
def crcUpdate (tab : List Nat) (crc : Nat) (p : List Nat) : Nat :=
  (p.foldl (crcStep tab) (crc ^^^ 0xffffffff)) ^^^ 0xffffffff

/-- the bit-serial definition of the same register update (no table) -/
def crcBitwiseStep (poly crc b : Nat) : Nat := crcBits poly 8 (crc ^^^ b)

def crcBitwise (poly crc : Nat) (p : List Nat) : Nat :=
  (p.foldl (crcBitwiseStep poly) (crc ^^^ 0xffffffff)) ^^^ 0xffffffff

def crcChecksumIEEE (p : List Nat) : Nat := crcUpdate crcIEEETable 0 p

/-! ## Adler-32, hash/adler32/adler32.wa -/

/-- the threshold of the deferred reduction: `(0xffffffff-255)/2` -/
def adlerT : Nat := (0xffffffff - 255) / 2

/-- loop body of `update` on 32-bit registers -/
def adlerStep (ab : Nat × Nat) (p : Nat) : Nat × Nat :=
  let a := (ab.1 + p) % 2 ^ 32
  let b := (ab.2 + a) % 2 ^ 32
  if b > adlerT then (a % adlerMod, b % adlerMod) else (a, b)

def adlerUpdate (a b : Nat) (p : List Nat) : Nat × Nat := p.foldl adlerStep (a, b)

/-- `finish`: `if b >= mod { a %= mod; b %= mod }; return b<<16 | a` -/
def adlerFinish (ab : Nat × Nat) : Nat :=
  let ab' := if ab.2 ≥ adlerMod then (ab.1 % adlerMod, ab.2 % adlerMod) else ab
  ((ab'.2 <<< 16) % 2 ^ 32) ||| ab'.1

def adlerChecksum (p : List Nat) : Nat := adlerFinish (adlerUpdate 1 0 p)

/-- RFC 1950 definition: both sums reduced modulo 65521 after every byte -/
def adlerSpecStep (ab : Nat × Nat) (p : Nat) : Nat × Nat :=
  ((ab.1 + p) % adlerMod, (ab.2 + (ab.1 + p) % adlerMod) % adlerMod)

def adlerSpec (p : List Nat) : Nat :=
  let ab := p.foldl adlerSpecStep (1, 0)
  ab.2 * 65536 + ab.1

/-! ## FNV-1 / FNV-1a, hash/fnv/fnv.wa -/

def fnv32Step (h b : Nat) : Nat := ((h * fnvPrime32) % 2 ^ 32) ^^^ b
def fnv32aStep (h b : Nat) : Nat := ((h ^^^ b) * fnvPrime32) % 2 ^ 32
def fnv64Step (h b : Nat) : Nat := ((h * fnvPrime64) % 2 ^ 64) ^^^ b
def fnv64aStep (h b : Nat) : Nat := ((h ^^^ b) * fnvPrime64) % 2 ^ 64

def fnv32 (p : List Nat) : Nat := p.foldl fnv32Step fnvOffset32
def fnv32a (p : List Nat) : Nat := p.foldl fnv32aStep fnvOffset32
def fnv64 (p : List Nat) : Nat := p.foldl fnv64Step fnvOffset64
def fnv64a (p : List Nat) : Nat := p.foldl fnv64aStep fnvOffset64

end WaVerif.C14
