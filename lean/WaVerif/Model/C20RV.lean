/-!
# C20 — RISC-V reference specification (RV32I / RV64I + M), written from the unprivileged ISA manual

Core Lean only.  This file is the REFERENCE the `wemu` emulator is compared against: it transcribes
the manual (volume I, chapters "RV32I", "RV64I", "M" and "RV32/64G Instruction Set Listings"), not
the Go code.  `xlen` is a parameter `n` (32 or 64).

* machine state: `x` registers (`x0` hard-wired to zero on every read), `pc`, a finite byte map for
  memory (an address with no entry has no memory behind it: access fault), a log of written bytes;
* `decode : BitVec 32 → Option Instr` (field positions of the R/I/S/B/U/J formats);
* `specStep : RVState n → Instr → RVState n`, executable.

Decisions where the manual leaves latitude (stated in the check's report as well):
* misaligned loads/stores are performed (the EEI may support them; the emulator does);
* a taken branch / jump to a target that is not 4-byte aligned raises instruction-address-misaligned
  (no C extension): `trap := some .misaligned`, no register is written;
* no memory at an accessed address: `trap := some .fault`;
* FENCE is a no-op on a single hart; ECALL/EBREAK/CSR instructions are outside the specification
  (`decode` returns `none`), as are the F/D/A extensions (the emulator implements none of them).
-/
namespace WaVerif.C20

abbrev Byte := BitVec 8
abbrev Reg := BitVec 5

inductive Trap | fault | misaligned
  deriving DecidableEq, Repr

/-- finite byte map; the first entry for an address is the current one -/
structure Mem where
  cells : List (Nat × Byte)

def Mem.read1 (m : Mem) (a : Nat) : Option Byte := m.cells.lookup a

def Mem.write1 (m : Mem) (a : Nat) (b : Byte) : Mem := ⟨(a, b) :: m.cells⟩

/-- little-endian read of `k` bytes starting at `a`; addresses wrap at `2^xlen` -/
def Mem.readLE (m : Mem) (xlen : Nat) (a : Nat) : Nat → Option Nat
  | 0 => some 0
  | k + 1 =>
    match m.read1 (a % 2 ^ xlen), m.readLE xlen (a + 1) k with
    | some b, some r => some (b.toNat + 256 * r)
    | _, _ => none

/-- the `k` little-endian bytes of `v` with their addresses -/
def leBytes (xlen : Nat) (a : Nat) (v : Nat) : Nat → List (Nat × Byte)
  | 0 => []
  | k + 1 => ((a % 2 ^ xlen), BitVec.ofNat 8 v) :: leBytes xlen (a + 1) (v / 256) k

def Mem.mapped (m : Mem) (xlen : Nat) (a : Nat) (k : Nat) : Bool :=
  (leBytes xlen a 0 k).all fun p => (m.read1 p.1).isSome

def Mem.writeAll (m : Mem) : List (Nat × Byte) → Mem
  | [] => m
  | (a, b) :: rest => (m.write1 a b).writeAll rest

/-! ## instructions -/

inductive BrCond | eq | ne | lt | ge | ltu | geu
  deriving DecidableEq, Repr
inductive Width | b | h | w | d
  deriving DecidableEq, Repr
inductive ImmOp | addi | slti | sltiu | xori | ori | andi
  deriving DecidableEq, Repr
inductive ShOp | sll | srl | sra
  deriving DecidableEq, Repr
inductive ROp
  | add | sub | sll | slt | sltu | xor | srl | sra | or | and
  | mul | mulh | mulhsu | mulhu | div | divu | rem | remu
  deriving DecidableEq, Repr
inductive WOp | addw | subw | sllw | srlw | sraw | mulw | divw | divuw | remw | remuw
  deriving DecidableEq, Repr

def Width.bytes : Width → Nat
  | .b => 1 | .h => 2 | .w => 4 | .d => 8

inductive Instr
  | lui (rd : Reg) (imm : BitVec 20)
  | auipc (rd : Reg) (imm : BitVec 20)
  | jal (rd : Reg) (off : BitVec 21)
  | jalr (rd rs1 : Reg) (imm : BitVec 12)
  | branch (c : BrCond) (rs1 rs2 : Reg) (off : BitVec 13)
  | load (wd : Width) (unsigned : Bool) (rd rs1 : Reg) (imm : BitVec 12)
  | store (wd : Width) (rs1 rs2 : Reg) (imm : BitVec 12)
  | opImm (o : ImmOp) (rd rs1 : Reg) (imm : BitVec 12)
  | shImm (o : ShOp) (rd rs1 : Reg) (shamt : Nat)
  | op (o : ROp) (rd rs1 rs2 : Reg)
  | addiw (rd rs1 : Reg) (imm : BitVec 12)
  | shImmW (o : ShOp) (rd rs1 : Reg) (shamt : Nat)
  | opW (o : WOp) (rd rs1 rs2 : Reg)
  | fence
  deriving Repr

/-! ## the integer computations (pure functions on `BitVec n`) -/

/-- `2^(n-1)` as a bit pattern: the most negative value -/
def intMinBV (n : Nat) : BitVec n := BitVec.ofInt n (-(2 : Int) ^ (n - 1))

/-- DIV: division by zero gives all ones (-1); otherwise the quotient rounded towards zero, reduced
to `n` bits (so the overflow case `-2^(n-1) / -1` gives `-2^(n-1)`). -/
def divS (a b : BitVec n) : BitVec n :=
  if b = 0 then BitVec.allOnes n else BitVec.ofInt n (Int.tdiv a.toInt b.toInt)

/-- REM: division by zero gives the dividend; sign of the result follows the dividend. -/
def remS (a b : BitVec n) : BitVec n :=
  if b = 0 then a else BitVec.ofInt n (Int.tmod a.toInt b.toInt)

def divU (a b : BitVec n) : BitVec n :=
  if b = 0 then BitVec.allOnes n else BitVec.ofNat n (a.toNat / b.toNat)

def remU (a b : BitVec n) : BitVec n :=
  if b = 0 then a else BitVec.ofNat n (a.toNat % b.toNat)

/-- upper `n` bits of the `2n`-bit product of the sign-extended operands -/
def mulhSS (a b : BitVec n) : BitVec n :=
  ((a.signExtend (2 * n)) * (b.signExtend (2 * n))).extractLsb' n n

/-- upper `n` bits of the `2n`-bit product of the zero-extended operands -/
def mulhUU (a b : BitVec n) : BitVec n :=
  ((a.setWidth (2 * n)) * (b.setWidth (2 * n))).extractLsb' n n

/-- upper `n` bits of signed `a` times unsigned `b` -/
def mulhSU (a b : BitVec n) : BitVec n :=
  ((a.signExtend (2 * n)) * (b.setWidth (2 * n))).extractLsb' n n

def boolBV (n : Nat) (c : Bool) : BitVec n := if c then 1 else 0

def shiftOp (o : ShOp) (a : BitVec n) (k : Nat) : BitVec n :=
  match o with
  | .sll => a <<< k
  | .srl => a >>> k
  | .sra => a.sshiftRight k

/-- register-register operations; shifts use the low log2(n) bits of the second operand -/
def aluR (o : ROp) (a b : BitVec n) : BitVec n :=
  match o with
  | .add => a + b
  | .sub => a - b
  | .sll => shiftOp .sll a (b.toNat % n)
  | .slt => boolBV n (a.slt b)
  | .sltu => boolBV n (a.ult b)
  | .xor => a ^^^ b
  | .srl => shiftOp .srl a (b.toNat % n)
  | .sra => shiftOp .sra a (b.toNat % n)
  | .or => a ||| b
  | .and => a &&& b
  | .mul => a * b
  | .mulh => mulhSS a b
  | .mulhsu => mulhSU a b
  | .mulhu => mulhUU a b
  | .div => divS a b
  | .divu => divU a b
  | .rem => remS a b
  | .remu => remU a b

def sext12 (n : Nat) (imm : BitVec 12) : BitVec n := imm.signExtend n

def aluImm (o : ImmOp) (a : BitVec n) (imm : BitVec 12) : BitVec n :=
  match o with
  | .addi => a + sext12 n imm
  | .slti => boolBV n (a.slt (sext12 n imm))
  | .sltiu => boolBV n (a.ult (sext12 n imm))
  | .xori => a ^^^ sext12 n imm
  | .ori => a ||| sext12 n imm
  | .andi => a &&& sext12 n imm

/-- the 32-bit result of a W operation (operands are the low 32 bits of the registers) -/
def aluW32 (o : WOp) (a b : BitVec 32) : BitVec 32 :=
  match o with
  | .addw => a + b
  | .subw => a - b
  | .sllw => a <<< (b.toNat % 32)
  | .srlw => a >>> (b.toNat % 32)
  | .sraw => a.sshiftRight (b.toNat % 32)
  | .mulw => a * b
  | .divw => divS a b
  | .divuw => divU a b
  | .remw => remS a b
  | .remuw => remU a b

/-- W instructions: compute on the low 32 bits, sign-extend the 32-bit result to `n` bits -/
def aluW (o : WOp) (a b : BitVec n) : BitVec n :=
  (aluW32 o (a.setWidth 32) (b.setWidth 32)).signExtend n

def addiwVal (a : BitVec n) (imm : BitVec 12) : BitVec n :=
  ((a + sext12 n imm).setWidth 32).signExtend n

def shiftW (o : ShOp) (a : BitVec n) (k : Nat) : BitVec n :=
  (shiftOp o (a.setWidth 32) k).signExtend n

def brTaken (c : BrCond) (a b : BitVec n) : Bool :=
  match c with
  | .eq => a == b
  | .ne => a != b
  | .lt => a.slt b
  | .ge => !(a.slt b)
  | .ltu => a.ult b
  | .geu => !(a.ult b)

/-- value loaded from `k` bytes whose little-endian value is `v` -/
def loadVal (n : Nat) (k : Nat) (unsigned : Bool) (v : Nat) : BitVec n :=
  if unsigned then BitVec.ofNat n v else (BitVec.ofNat (8 * k) v).signExtend n

/-- JALR target: (rs1 + sext(imm)) with the least significant bit cleared -/
def jalrTarget (a : BitVec n) (imm : BitVec 12) : BitVec n :=
  (a + sext12 n imm) &&& ~~~(1 : BitVec n)

def aligned4 (a : BitVec n) : Bool := a.toNat % 4 == 0

/-! ## machine state and one step -/

structure RVState (n : Nat) where
  x : Reg → BitVec n
  pc : BitVec n
  mem : Mem
  writes : List (Nat × Byte) := []
  trap : Option Trap := none

namespace RVState
variable {n : Nat}

/-- register read: `x0` is hard-wired to zero -/
def rd (s : RVState n) (r : Reg) : BitVec n := if r = 0 then 0 else s.x r

def wr (s : RVState n) (r : Reg) (v : BitVec n) : RVState n :=
  { s with x := fun i => if i = r then v else s.x i }

def next (s : RVState n) : RVState n := { s with pc := s.pc + 4 }

def raise (s : RVState n) (t : Trap) : RVState n := { s with trap := some t }

/-- transfer control to `target` (checked for alignment), writing `link` to `rd` when given -/
def jump (s : RVState n) (target : BitVec n) (link : Option Reg) : RVState n :=
  if aligned4 target then
    let s1 := match link with
      | some r => s.wr r (s.pc + 4)
      | none => s
    { s1 with pc := target }
  else s.raise .misaligned

def storeBytes (s : RVState n) (addr : BitVec n) (v : BitVec n) (k : Nat) : RVState n :=
  if s.mem.mapped n addr.toNat k then
    let bs := leBytes n addr.toNat v.toNat k
    ({ s with mem := s.mem.writeAll bs, writes := bs.reverse ++ s.writes }).next
  else s.raise .fault

end RVState

def specStep {n : Nat} (s : RVState n) (i : Instr) : RVState n :=
  match i with
  | .lui rd imm => (s.wr rd ((imm ++ (0 : BitVec 12)).signExtend n)).next
  | .auipc rd imm => (s.wr rd (s.pc + (imm ++ (0 : BitVec 12)).signExtend n)).next
  | .jal rd off => s.jump (s.pc + off.signExtend n) (some rd)
  | .jalr rd rs1 imm => s.jump (jalrTarget (s.rd rs1) imm) (some rd)
  | .branch c rs1 rs2 off =>
    if brTaken c (s.rd rs1) (s.rd rs2) then s.jump (s.pc + off.signExtend n) none else s.next
  | .load wd u rd rs1 imm =>
    let addr := s.rd rs1 + sext12 n imm
    match s.mem.readLE n addr.toNat wd.bytes with
    | some v => (s.wr rd (loadVal n wd.bytes u v)).next
    | none => s.raise .fault
  | .store wd rs1 rs2 imm => s.storeBytes (s.rd rs1 + sext12 n imm) (s.rd rs2) wd.bytes
  | .opImm o rd rs1 imm => (s.wr rd (aluImm o (s.rd rs1) imm)).next
  | .shImm o rd rs1 sh => (s.wr rd (shiftOp o (s.rd rs1) sh)).next
  | .op o rd rs1 rs2 => (s.wr rd (aluR o (s.rd rs1) (s.rd rs2))).next
  | .addiw rd rs1 imm => (s.wr rd (addiwVal (s.rd rs1) imm)).next
  | .shImmW o rd rs1 sh => (s.wr rd (shiftW o (s.rd rs1) sh)).next
  | .opW o rd rs1 rs2 => (s.wr rd (aluW o (s.rd rs1) (s.rd rs2))).next
  | .fence => s.next

/-! ## decoder (RV32/64G instruction set listings) -/

def fld (w : BitVec 32) (lo len : Nat) : Nat := (w.extractLsb' lo len).toNat

def regAt (w : BitVec 32) (lo : Nat) : Reg := w.extractLsb' lo 5

def immI (w : BitVec 32) : BitVec 12 := w.extractLsb' 20 12
def immS (w : BitVec 32) : BitVec 12 := (w.extractLsb' 25 7 ++ w.extractLsb' 7 5).setWidth 12
def immB (w : BitVec 32) : BitVec 13 :=
  (w.extractLsb' 31 1 ++ w.extractLsb' 7 1 ++ w.extractLsb' 25 6 ++ w.extractLsb' 8 4 ++ (0 : BitVec 1)).setWidth 13
def immU (w : BitVec 32) : BitVec 20 := w.extractLsb' 12 20
def immJ (w : BitVec 32) : BitVec 21 :=
  (w.extractLsb' 31 1 ++ w.extractLsb' 12 8 ++ w.extractLsb' 20 1 ++ w.extractLsb' 21 10 ++ (0 : BitVec 1)).setWidth 21

def decodeROp (f7 f3 : Nat) : Option ROp :=
  match f7, f3 with
  | 0, 0 => some .add | 0, 1 => some .sll | 0, 2 => some .slt | 0, 3 => some .sltu
  | 0, 4 => some .xor | 0, 5 => some .srl | 0, 6 => some .or | 0, 7 => some .and
  | 32, 0 => some .sub | 32, 5 => some .sra
  | 1, 0 => some .mul | 1, 1 => some .mulh | 1, 2 => some .mulhsu | 1, 3 => some .mulhu
  | 1, 4 => some .div | 1, 5 => some .divu | 1, 6 => some .rem | 1, 7 => some .remu
  | _, _ => none

def decodeWOp (f7 f3 : Nat) : Option WOp :=
  match f7, f3 with
  | 0, 0 => some .addw | 0, 1 => some .sllw | 0, 5 => some .srlw
  | 32, 0 => some .subw | 32, 5 => some .sraw
  | 1, 0 => some .mulw | 1, 4 => some .divw | 1, 5 => some .divuw | 1, 6 => some .remw | 1, 7 => some .remuw
  | _, _ => none

/-- `n` = xlen (32 or 64) selects the RV64-only instructions and the shamt width -/
def decode (n : Nat) (w : BitVec 32) : Option Instr :=
  let opc := fld w 0 7
  let f3 := fld w 12 3
  let f7 := fld w 25 7
  let rd := regAt w 7
  let rs1 := regAt w 15
  let rs2 := regAt w 20
  let is64 := n == 64
  match opc with
  | 0x37 => some (.lui rd (immU w))
  | 0x17 => some (.auipc rd (immU w))
  | 0x6f => some (.jal rd (immJ w))
  | 0x67 => if f3 = 0 then some (.jalr rd rs1 (immI w)) else none
  | 0x63 =>
    match f3 with
    | 0 => some (.branch .eq rs1 rs2 (immB w)) | 1 => some (.branch .ne rs1 rs2 (immB w))
    | 4 => some (.branch .lt rs1 rs2 (immB w)) | 5 => some (.branch .ge rs1 rs2 (immB w))
    | 6 => some (.branch .ltu rs1 rs2 (immB w)) | 7 => some (.branch .geu rs1 rs2 (immB w))
    | _ => none
  | 0x03 =>
    match f3 with
    | 0 => some (.load .b false rd rs1 (immI w)) | 1 => some (.load .h false rd rs1 (immI w))
    | 2 => some (.load .w false rd rs1 (immI w)) | 4 => some (.load .b true rd rs1 (immI w))
    | 5 => some (.load .h true rd rs1 (immI w))
    | 6 => if is64 then some (.load .w true rd rs1 (immI w)) else none
    | 3 => if is64 then some (.load .d false rd rs1 (immI w)) else none
    | _ => none
  | 0x23 =>
    match f3 with
    | 0 => some (.store .b rs1 rs2 (immS w)) | 1 => some (.store .h rs1 rs2 (immS w))
    | 2 => some (.store .w rs1 rs2 (immS w))
    | 3 => if is64 then some (.store .d rs1 rs2 (immS w)) else none
    | _ => none
  | 0x13 =>
    -- shift immediates: RV64 has a 6-bit shamt (funct6 above it), RV32 a 5-bit one (funct7)
    let hi := if is64 then fld w 26 6 * 2 else f7
    let sh := if is64 then fld w 20 6 else fld w 20 5
    match f3 with
    | 0 => some (.opImm .addi rd rs1 (immI w)) | 2 => some (.opImm .slti rd rs1 (immI w))
    | 3 => some (.opImm .sltiu rd rs1 (immI w)) | 4 => some (.opImm .xori rd rs1 (immI w))
    | 6 => some (.opImm .ori rd rs1 (immI w)) | 7 => some (.opImm .andi rd rs1 (immI w))
    | 1 => if hi = 0 then some (.shImm .sll rd rs1 sh) else none
    | 5 => if hi = 0 then some (.shImm .srl rd rs1 sh) else if hi = 32 then some (.shImm .sra rd rs1 sh) else none
    | _ => none
  | 0x33 => (decodeROp f7 f3).map fun o => .op o rd rs1 rs2
  | 0x1b =>
    if !is64 then none else
    match f3 with
    | 0 => some (.addiw rd rs1 (immI w))
    | 1 => if f7 = 0 then some (.shImmW .sll rd rs1 (fld w 20 5)) else none
    | 5 => if f7 = 0 then some (.shImmW .srl rd rs1 (fld w 20 5))
           else if f7 = 32 then some (.shImmW .sra rd rs1 (fld w 20 5)) else none
    | _ => none
  | 0x3b => if !is64 then none else (decodeWOp f7 f3).map fun o => .opW o rd rs1 rs2
  | 0x0f => if f3 = 0 then some .fence else none
  | _ => none

/-- mnemonic of a decoded instruction (for the driver's cross-check with the generator) -/
def Instr.name : Instr → String
  | .lui .. => "lui" | .auipc .. => "auipc" | .jal .. => "jal" | .jalr .. => "jalr"
  | .branch c .. => match c with
    | .eq => "beq" | .ne => "bne" | .lt => "blt" | .ge => "bge" | .ltu => "bltu" | .geu => "bgeu"
  | .load wd u .. => match wd, u with
    | .b, false => "lb" | .h, false => "lh" | .w, false => "lw" | .d, _ => "ld"
    | .b, true => "lbu" | .h, true => "lhu" | .w, true => "lwu"
  | .store wd .. => match wd with | .b => "sb" | .h => "sh" | .w => "sw" | .d => "sd"
  | .opImm o .. => match o with
    | .addi => "addi" | .slti => "slti" | .sltiu => "sltiu" | .xori => "xori" | .ori => "ori" | .andi => "andi"
  | .shImm o .. => match o with | .sll => "slli" | .srl => "srli" | .sra => "srai"
  | .op o .. => match o with
    | .add => "add" | .sub => "sub" | .sll => "sll" | .slt => "slt" | .sltu => "sltu" | .xor => "xor"
    | .srl => "srl" | .sra => "sra" | .or => "or" | .and => "and" | .mul => "mul" | .mulh => "mulh"
    | .mulhsu => "mulhsu" | .mulhu => "mulhu" | .div => "div" | .divu => "divu" | .rem => "rem" | .remu => "remu"
  | .addiw .. => "addiw"
  | .shImmW o .. => match o with | .sll => "slliw" | .srl => "srliw" | .sra => "sraiw"
  | .opW o .. => match o with
    | .addw => "addw" | .subw => "subw" | .sllw => "sllw" | .srlw => "srlw" | .sraw => "sraw"
    | .mulw => "mulw" | .divw => "divw" | .divuw => "divuw" | .remw => "remw" | .remuw => "remuw"
  | .fence => "fence"

end WaVerif.C20
