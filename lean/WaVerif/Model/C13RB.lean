import WaVerif.Model.C13Spec
/-!
# C13 — mirror model: an executable transcription of `waroot/src/runtime/map.wa`

`mapImp` is a red-black tree whose nodes are additionally listed in `nodes : []*mapNode`
(slot 0 = the NIL sentinel; a `range` loop walks slots 1, 2, …).  A node refers to its children by
POINTER (`Left`, `Right`) and to its parent by SLOT INDEX (`parentIdx`, resolved through
`m.nodes[parentIdx]`); `NodeIdx` is the node's own slot.  The transcription keeps that distinction:

* `heap : Array Node` — the store, indexed by pointer.  Pointer 0 is the NIL sentinel
  (`NIL.Left`/`NIL.Right` are modelled as NIL itself; the real ones are null and are only read
  when the structure is already corrupted — the driver refuses structural updates in such a state).
  Nodes are never freed in the model (an unlinked node stays in the heap as garbage).
* `nodes : Array Nat` — slot ↦ pointer.
* every loop (`search`, the descent of `insert`, `insertFixup`, `min`, `successor`,
  `deleteFixup`) takes fuel; running out sets `fault` (never happens on a well-formed store, the
  driver reports it).

Keys are `Int`s compared with `<` (the checks map each Wa key to its rank under
`runtime.Compare`), values are `Int`s.

`fixed = false` transcribes the pinned code, whose `delete` does `if y != z { z = y }` (rebinding a
local).  `fixed = true` transcribes the repair in `/verif/proposed_fixes/C13-delete-two-children.diff`
(the successor's key and value are copied into `z`; the slot of the unlinked node `y` is vacated).
-/
namespace WaVerif.C13RB

structure Node where
  parent : Nat := 0     -- parentIdx (a slot index)
  idx : Nat := 0        -- NodeIdx (own slot index)
  left : Nat := 0       -- pointer
  right : Nat := 0      -- pointer
  red : Bool := false   -- Color == mapRED
  key : Int := 0
  val : Int := 0
  deriving Repr, Inhabited, DecidableEq

structure St where
  heap : Array Node
  root : Nat
  nodes : Array Nat
  fault : Bool := false
  deriving Repr

/-- `mapMake` -/
def St.empty : St := { heap := #[{}], root := 0, nodes := #[0] }

def St.nd (s : St) (p : Nat) : Node := s.heap.getD p {}
def St.upd (s : St) (p : Nat) (f : Node → Node) : St := { s with heap := s.heap.modify p f }
/-- `x.Parent(m)` = `m.nodes[x.parentIdx]` -/
def St.parentOf (s : St) (p : Nat) : Nat := s.nodes.getD (s.nd p).parent 0
/-- `x.SetParent(y)`: `x.parentIdx = y.NodeIdx` -/
def St.setParent (s : St) (x y : Nat) : St := s.upd x fun n => { n with parent := (s.nd y).idx }
def St.setRed (s : St) (p : Nat) (c : Bool) : St := s.upd p fun n => { n with red := c }
def St.setLeft (s : St) (p q : Nat) : St := s.upd p fun n => { n with left := q }
def St.setRight (s : St) (p q : Nat) : St := s.upd p fun n => { n with right := q }
def St.setRoot (s : St) (p : Nat) : St := { s with root := p }
def St.fuel (s : St) : Nat := s.heap.size + 1

/-- `mapImp.Len` -/
def len (s : St) : Nat := s.nodes.size - 1

/-- `mapImp.search` from pointer `p`; `none` = out of fuel -/
def searchFrom : Nat → St → Nat → Int → Option Nat
  | 0, _, _, _ => none
  | f + 1, s, p, k =>
    if p = 0 then some 0
    else if (s.nd p).key < k then searchFrom f s (s.nd p).right k     -- Compare(p.Key, key) < 0
    else if k < (s.nd p).key then searchFrom f s (s.nd p).left k      -- cmp > 0
    else some p

def search (s : St) (k : Int) : Option Nat := searchFrom s.fuel s s.root k

/-- `mapImp.Lookup` -/
def lookup (s : St) (k : Int) : Option Int :=
  match search s k with
  | some (p + 1) => some (s.nd (p + 1)).val
  | _ => none

/-- `if c != this.NIL { c.SetParent(p) }` -/
def adopt (s : St) (c p : Nat) : St := if c ≠ 0 then s.setParent c p else s

/-- the pointer that led to `x` (the root pointer, or a child field of `x`'s parent) now leads to `y`:
`if x.Parent(this) == this.NIL { this.root = y } else if x == x.Parent(this).Left { x.Parent(this).Left = y } else { x.Parent(this).Right = y }` -/
def relink (s : St) (x y : Nat) : St :=
  if s.parentOf x = 0 then s.setRoot y
  else if x = (s.nd (s.parentOf x)).left then s.setLeft (s.parentOf x) y
  else s.setRight (s.parentOf x) y

/-- `mapImp.leftRotate` -/
def leftRotate (s : St) (x : Nat) : St :=
  if (s.nd x).right = 0 then s else
  let y := (s.nd x).right
  let s1 := s.setRight x (s.nd y).left
  let s2 := adopt s1 (s1.nd y).left x
  let s3 := s2.setParent y (s2.parentOf x)
  let s4 := relink s3 x y
  let s5 := s4.setLeft y x
  s5.setParent x y

/-- `mapImp.rightRotate` -/
def rightRotate (s : St) (x : Nat) : St :=
  if (s.nd x).left = 0 then s else
  let y := (s.nd x).left
  let s1 := s.setLeft x (s.nd y).right
  let s2 := adopt s1 (s1.nd y).right x
  let s3 := s2.setParent y (s2.parentOf x)
  let s4 := relink s3 x y
  let s5 := s4.setRight y x
  s5.setParent x y

/-- `insertFixup`, case 1 (uncle `y` red): recolour parent, uncle, grandparent -/
def insCase1 (s : St) (z y : Nat) : St :=
  let s := s.setRed (s.parentOf z) false
  let s := s.setRed y false
  s.setRed (s.parentOf (s.parentOf z)) true

/-- `insertFixup`, cases 2+3 when the parent is a LEFT child:
`if z == z.Parent.Right { z = z.Parent; leftRotate(z) }; z.Parent.Color = BLACK; z.Parent.Parent.Color = RED; rightRotate(z.Parent.Parent)`.
Returns the store and the new `z`. -/
def insCase23L (s : St) (z : Nat) : St × Nat :=
  let z' := if z = (s.nd (s.parentOf z)).right then s.parentOf z else z
  let s := if z = (s.nd (s.parentOf z)).right then leftRotate s (s.parentOf z) else s
  let s := s.setRed (s.parentOf z') false
  let s := s.setRed (s.parentOf (s.parentOf z')) true
  (rightRotate s (s.parentOf (s.parentOf z')), z')

/-- mirror image of `insCase23L` (parent is a RIGHT child) -/
def insCase23R (s : St) (z : Nat) : St × Nat :=
  let z' := if z = (s.nd (s.parentOf z)).left then s.parentOf z else z
  let s := if z = (s.nd (s.parentOf z)).left then rightRotate s (s.parentOf z) else s
  let s := s.setRed (s.parentOf z') false
  let s := s.setRed (s.parentOf (s.parentOf z')) true
  (leftRotate s (s.parentOf (s.parentOf z')), z')

/-- `mapImp.insertFixup` -/
def insertFixup : Nat → St → Nat → St
  | 0, s, _ => { s with fault := true }
  | f + 1, s, z =>
    if (s.nd (s.parentOf z)).red then
      if s.parentOf z = (s.nd (s.parentOf (s.parentOf z))).left then
        let y := (s.nd (s.parentOf (s.parentOf z))).right
        if (s.nd y).red then
          let s' := insCase1 s z y
          insertFixup f s' (s'.parentOf (s'.parentOf z))
        else
          insertFixup f (insCase23L s z).1 (insCase23L s z).2
      else
        let y := (s.nd (s.parentOf (s.parentOf z))).left
        if (s.nd y).red then
          let s' := insCase1 s z y
          insertFixup f s' (s'.parentOf (s'.parentOf z))
        else
          insertFixup f (insCase23R s z).1 (insCase23R s z).2
    else s.setRed s.root false

/-- result of the descent loop of `mapImp.insert` -/
inductive Desc where
  | fuel
  | dup (x : Nat)     -- `return x` (an equal key is already linked)
  | at (y : Nat)      -- the loop ended with parent candidate `y`
  deriving Repr, DecidableEq

/-- the `for x != this.NIL` loop of `mapImp.insert` for key `k`, at `x` with trailing pointer `y` -/
def insDescend : Nat → St → Int → Nat → Nat → Desc
  | 0, _, _, _, _ => .fuel
  | f + 1, s, k, x, y =>
    if x = 0 then .at y
    else if k < (s.nd x).key then insDescend f s k (s.nd x).left x
    else if (s.nd x).key < k then insDescend f s k (s.nd x).right x
    else .dup x

/-- the linking part of `mapImp.insert` (before `insertFixup`) -/
def attach (s : St) (z y : Nat) : St :=
  let s := s.setParent z y
  if y = 0 then s.setRoot z
  else if (s.nd z).key < (s.nd y).key then s.setLeft y z
  else s.setRight y z

/-- `mapImp.insert` -/
def insert (s : St) (z : Nat) : St :=
  match insDescend s.fuel s (s.nd z).key s.root 0 with
  | .fuel => { s with fault := true }
  | .dup _ => s
  | .at y => insertFixup s.fuel (attach s z y) z

/-- the allocation part of `mapImp.Update` for a new key -/
def alloc (s : St) (k v : Int) : St :=
  { s with heap := s.heap.push { idx := s.nodes.size, left := 0, right := 0, red := true, key := k, val := v }
           nodes := s.nodes.push s.heap.size }

/-- `mapImp.Update` -/
def update (s : St) (k v : Int) : St :=
  match search s k with
  | none => { s with fault := true }
  | some 0 => insert (alloc s k v) s.heap.size
  | some (p + 1) => s.upd (p + 1) fun n => { n with val := v }

/-- `mapImp.min` (for `x ≠ NIL`) -/
def minFrom : Nat → St → Nat → Option Nat
  | 0, _, _ => none
  | f + 1, s, x => if (s.nd x).left ≠ 0 then minFrom f s (s.nd x).left else some x

/-- the upward loop of `mapImp.successor` -/
def succUp : Nat → St → Nat → Nat → Option Nat
  | 0, _, _, _ => none
  | f + 1, s, x, y => if y ≠ 0 ∧ x = (s.nd y).right then succUp f s y (s.parentOf y) else some y

/-- `mapImp.successor` -/
def successor (s : St) (x : Nat) : Option Nat :=
  if x = 0 then some 0
  else if (s.nd x).right ≠ 0 then minFrom s.fuel s (s.nd x).right
  else succUp s.fuel s x (s.parentOf x)

/-- `deleteFixup`, `x` a LEFT child, case 1: `if w.Color == RED { w.Color = BLACK; x.Parent.Color = RED; leftRotate(x.Parent) }`
(afterwards the sibling is re-read as `x.Parent.Right`, which is also its value when the branch is not taken) -/
def delCase1L (s : St) (x : Nat) : St :=
  let w := (s.nd (s.parentOf x)).right
  if (s.nd w).red then
    let s := s.setRed w false
    let s := s.setRed (s.parentOf x) true
    leftRotate s (s.parentOf x)
  else s

/-- case 3: `if w.Right.Color == BLACK { w.Left.Color = BLACK; w.Color = RED; rightRotate(w) }` -/
def delCase3L (s : St) (w : Nat) : St :=
  if (s.nd (s.nd w).right).red = false then
    let s := s.setRed (s.nd w).left false
    let s := s.setRed w true
    rightRotate s w
  else s

/-- case 4: `w.Color = x.Parent.Color; x.Parent.Color = BLACK; w.Right.Color = BLACK; leftRotate(x.Parent)` -/
def delCase4L (s : St) (x w : Nat) : St :=
  let s := s.setRed w (s.nd (s.parentOf x)).red
  let s := s.setRed (s.parentOf x) false
  let s := s.setRed (s.nd w).right false
  leftRotate s (s.parentOf x)

def delCase1R (s : St) (x : Nat) : St :=
  let w := (s.nd (s.parentOf x)).left
  if (s.nd w).red then
    let s := s.setRed w false
    let s := s.setRed (s.parentOf x) true
    rightRotate s (s.parentOf x)
  else s

def delCase3R (s : St) (w : Nat) : St :=
  if (s.nd (s.nd w).left).red = false then
    let s := s.setRed (s.nd w).right false
    let s := s.setRed w true
    leftRotate s w
  else s

def delCase4R (s : St) (x w : Nat) : St :=
  let s := s.setRed w (s.nd (s.parentOf x)).red
  let s := s.setRed (s.parentOf x) false
  let s := s.setRed (s.nd w).left false
  rightRotate s (s.parentOf x)

/-- `mapImp.deleteFixup` -/
def deleteFixup : Nat → St → Nat → St
  | 0, s, _ => { s with fault := true }
  | f + 1, s, x =>
    if x ≠ s.root ∧ (s.nd x).red = false then
      if x = (s.nd (s.parentOf x)).left then
        let s := delCase1L s x
        let w := (s.nd (s.parentOf x)).right
        if (s.nd (s.nd w).left).red = false ∧ (s.nd (s.nd w).right).red = false then
          let s := s.setRed w true
          deleteFixup f s (s.parentOf x)
        else
          let s := delCase3L s w
          let w := (s.nd (s.parentOf x)).right
          let s := delCase4L s x w
          deleteFixup f s s.root
      else
        let s := delCase1R s x
        let w := (s.nd (s.parentOf x)).left
        if (s.nd (s.nd w).left).red = false ∧ (s.nd (s.nd w).right).red = false then
          let s := s.setRed w true
          deleteFixup f s (s.parentOf x)
        else
          let s := delCase3R s w
          let w := (s.nd (s.parentOf x)).left
          let s := delCase4R s x w
          deleteFixup f s s.root
    else s.setRed x false

/-- the node `y` that `mapImp.delete(z)` unlinks: `z` itself, or its successor when `z` has two children -/
def spliceTarget (s : St) (z : Nat) : Option Nat :=
  if (s.nd z).left = 0 ∨ (s.nd z).right = 0 then some z else successor s z

/-- `mapImp.delete(z)`; returns the new store and the node whose slot `Delete` vacates
(pinned code: always `z`; repaired code: the unlinked node `y`) -/
def treeDelete (fixed : Bool) (s : St) (z : Nat) : St × Nat :=
  match spliceTarget s z with
  | none => ({ s with fault := true }, z)
  | some y =>
    let x := if (s.nd y).left ≠ 0 then (s.nd y).left else (s.nd y).right
    let s := s.setParent x (s.parentOf y)
    let s := relink s y x
    -- pinned: `if y != z { z = y }` — no effect.  repaired: `z.Key = y.Key; z.Val = y.Val`
    let s := if fixed ∧ y ≠ z then s.upd z fun n => { n with key := (s.nd y).key, val := (s.nd y).val } else s
    let s := if (s.nd y).red = false then deleteFixup s.fuel s x else s
    (s, if fixed then y else z)

/-- the last node moves into slot `ri`:
`lastNode := nodes[len-1]; lastNode.NodeIdx = ri; nodes[ri] = lastNode;` then the children of
`lastNode` (if not NIL) get `SetParent(lastNode)` -/
def moveLast (s : St) (ri : Nat) : St :=
  let lastNode := s.nodes.getD (s.nodes.size - 1) 0
  let s := s.upd lastNode fun n => { n with idx := ri }
  let s := { s with nodes := s.nodes.setIfInBounds ri lastNode }
  let s := adopt s (s.nd lastNode).left lastNode
  adopt s (s.nd lastNode).right lastNode

/-- `this.nodes = this.nodes[:len(this.nodes)-1]` -/
def popSlot (s : St) : St := { s with nodes := s.nodes.pop }

/-- the slot bookkeeping of `mapImp.Delete` for the vacated node `r` -/
def vacate (s : St) (r : Nat) : St :=
  popSlot (if (s.nd r).idx < s.nodes.size - 1 then moveLast s (s.nd r).idx else s)

/-- `mapImp.Delete` -/
def delete (fixed : Bool) (s : St) (k : Int) : St :=
  match search s k with
  | none => { s with fault := true }
  | some 0 => s
  | some (z + 1) =>
    let (s, r) := treeDelete fixed s (z + 1)
    vacate s r

/-- `mapIter.Next` over all positions: the `(key, value)` sequence of a `range` loop -/
def slots (s : St) : List (Int × Int) :=
  (s.nodes.toList.drop 1).map fun p => ((s.nd p).key, (s.nd p).val)

/-- number of children of the node holding `k` (`none`: key absent) -/
def childCount (s : St) (k : Int) : Option Nat :=
  match search s k with
  | some (z + 1) => some ((if (s.nd (z + 1)).left ≠ 0 then 1 else 0) + (if (s.nd (z + 1)).right ≠ 0 then 1 else 0))
  | _ => none

/-! ## decidable well-formedness (evaluated by the driver after every operation: MONITORING) -/

/-- in-order walk from `p` collecting `(pointer, key)`; `none` = out of fuel (cycle) -/
def walk : Nat → St → Nat → Option (List (Nat × Int))
  | 0, _, _ => none
  | f + 1, s, p =>
    if p = 0 then some []
    else match walk f s (s.nd p).left, walk f s (s.nd p).right with
      | some l, some r => some (l ++ (p, (s.nd p).key) :: r)
      | _, _ => none

/-- black height from `p`, `none` if two paths differ or a red node has a red child (or fuel) -/
def blackHeight : Nat → St → Nat → Option Nat
  | 0, _, _ => none
  | f + 1, s, p =>
    if p = 0 then some 1
    else match blackHeight f s (s.nd p).left, blackHeight f s (s.nd p).right with
      | some a, some b =>
        if a ≠ b then none
        else if (s.nd p).red ∧ ((s.nd (s.nd p).left).red ∨ (s.nd (s.nd p).right).red) then none
        else some (if (s.nd p).red then a else a + 1)
      | _, _ => none

def sortedKeys : List (Nat × Int) → Bool
  | [] => true
  | [_] => true
  | a :: b :: r => a.2 < b.2 && sortedKeys (b :: r)

/-- first violated invariant, `""` if none -/
def wfReport (s : St) : String :=
  if s.fault then "fault (fuel exhausted)"
  else if s.nodes.size = 0 ∨ s.nodes.getD 0 1 ≠ 0 then "slot 0 is not NIL"
  else if (s.nd 0).red then "NIL is red"
  else if ! (List.range s.nodes.size).all (fun i =>
      i = 0 ∨ (let p := s.nodes.getD i 0; p ≠ 0 ∧ p < s.heap.size ∧ (s.nd p).idx = i)) then
    "slot list: nodes[i].NodeIdx != i"
  else match walk s.fuel s s.root with
    | none => "tree walk does not terminate"
    | some l =>
      if l.length + 1 ≠ s.nodes.size then "tree node count != slot count"
      else if ! l.all (fun (p, _) => p < s.heap.size ∧ s.nodes.getD (s.nd p).idx 0 = p) then
        "tree node not in slot list"
      else if ! sortedKeys l then "in-order keys not strictly increasing"
      else if s.root ≠ 0 ∧ s.parentOf s.root ≠ 0 then "root's parent is not NIL"
      else if ! l.all (fun (p, _) =>
          ((s.nd p).left = 0 ∨ s.parentOf (s.nd p).left = p) ∧
          ((s.nd p).right = 0 ∨ s.parentOf (s.nd p).right = p)) then
        "child's parentIdx does not lead back"
      else if (s.nd s.root).red then "root is red"
      else match blackHeight s.fuel s s.root with
        | none => "red-red or unequal black height"
        | some _ => ""

def wf (s : St) : Bool := wfReport s = ""

/-! ## histories -/

def stepOp (fixed : Bool) (s : St) : C13Spec.Op Int Int → St
  | .set k v => update s k v
  | .del k => delete fixed s k
  | _ => s

def run (fixed : Bool) (ops : List (C13Spec.Op Int Int)) : St := ops.foldl (stepOp fixed) St.empty

end WaVerif.C13RB
