/-!
# C22 — text diffs (hand-written model of internal/lsp/diff: diff.go, ndiff.go, unified.go, lcs.toDiffs)

Bytes and runes are `Nat`s.  The LCS *search* (lcs/old.go, bidirectional Myers with a depth
limit) is NOT modelled: its result, a list of diagonals, is a parameter of `stringsEdits`, and
the contract `ValidLcs` it must satisfy is evaluated on every pair at run time by the harness.

Transcribed:
* `decodeRune` / `decodeRunes` / `encodeRune` / `runeLen` — Go's `[]rune(string)`, `utf8.DecodeRune`
  (invalid byte ⇒ U+FFFD, width 1), `string([]rune)`, `utf8.RuneLen` (for scalar values)
* `toDiffs`                — `lcs.toDiffs`
* `diffASCII`, `diffRunes` — ndiff.go (rune offsets → byte offsets)
* `stringsEdits`           — `Strings` / `Bytes`
* `isSortedAdj`, `sortEdits`, `validate`, `apply` — diff.go
* `lineEdits`, `expandEdit`, `toUnified`, `render` — diff.go / unified.go
* `patchHunks`             — reference interpreter for hunks (specification side)
-/
namespace WaVerif.C22

/-! ## UTF-8, Go conventions -/

def runeError : Nat := 0xFFFD

/-- `utf8.RuneLen` on scalar values (surrogates / > 0x10FFFF never come out of `decodeRune`) -/
def runeLen (r : Nat) : Nat :=
  if r < 0x80 then 1 else if r < 0x800 then 2 else if r < 0x10000 then 3 else 4

def encodeRune (r : Nat) : List Nat :=
  if r < 0x80 then [r]
  else if r < 0x800 then [0xC0 + r / 64, 0x80 + r % 64]
  else if r < 0x10000 then [0xE0 + r / 4096, 0x80 + r / 64 % 64, 0x80 + r % 64]
  else [0xF0 + r / 262144 % 8, 0x80 + r / 4096 % 64, 0x80 + r / 64 % 64, 0x80 + r % 64]

def isCont (b : Nat) : Bool := decide (0x80 ≤ b) && decide (b ≤ 0xBF)

/-- `utf8.DecodeRune`: (rune, width); ill-formed or truncated ⇒ (U+FFFD, 1) -/
def decodeRune : List Nat → Nat × Nat
  | [] => (runeError, 0)
  | b0 :: rest =>
    if b0 < 0x80 then (b0, 1)
    else if b0 < 0xC2 then (runeError, 1)
    else if b0 < 0xE0 then
      match rest with
      | b1 :: _ => if isCont b1 then ((b0 - 0xC0) * 64 + (b1 - 0x80), 2) else (runeError, 1)
      | _ => (runeError, 1)
    else if b0 < 0xF0 then
      match rest with
      | b1 :: b2 :: _ =>
        let lo := if b0 = 0xE0 then 0xA0 else 0x80
        let hi := if b0 = 0xED then 0x9F else 0xBF
        if decide (lo ≤ b1) && decide (b1 ≤ hi) && isCont b2 then
          ((b0 - 0xE0) * 4096 + (b1 - 0x80) * 64 + (b2 - 0x80), 3)
        else (runeError, 1)
      | _ => (runeError, 1)
    else if b0 < 0xF5 then
      match rest with
      | b1 :: b2 :: b3 :: _ =>
        let lo := if b0 = 0xF0 then 0x90 else 0x80
        let hi := if b0 = 0xF4 then 0x8F else 0xBF
        if decide (lo ≤ b1) && decide (b1 ≤ hi) && isCont b2 && isCont b3 then
          ((b0 - 0xF0) * 262144 + (b1 - 0x80) * 4096 + (b2 - 0x80) * 64 + (b3 - 0x80), 4)
        else (runeError, 1)
      | _ => (runeError, 1)
    else (runeError, 1)

/-- `[]rune(s)`; fuel = number of bytes is always enough (each step consumes ≥ 1 byte) -/
def decodeRunesF : Nat → List Nat → List Nat
  | 0, _ => []
  | _, [] => []
  | fuel + 1, bs =>
    let (r, n) := decodeRune bs
    r :: decodeRunesF fuel (bs.drop n)

def decodeRunes (bs : List Nat) : List Nat := decodeRunesF bs.length bs

/-- `string([]rune)` -/
def utf8 (rs : List Nat) : List Nat := rs.flatMap encodeRune

/-- `runesLen` -/
def utf8Len (rs : List Nat) : Nat := (rs.map runeLen).sum

def isASCII (bs : List Nat) : Bool := bs.all (fun b => decide (b < 0x80))

/-- `s` is well-formed UTF-8: decoding loses nothing -/
def ValidUtf8 (bs : List Nat) : Prop := utf8 (decodeRunes bs) = bs

instance (bs : List Nat) : Decidable (ValidUtf8 bs) := by unfold ValidUtf8; exact inferInstance

/-! ## lcs.toDiffs -/

structure Diag where
  x : Nat
  y : Nat
  len : Nat
  deriving Repr, DecidableEq

/-- `lcs.Diff`: replace `A[start:stop]` by `B[replStart:replStop]` -/
structure RDiff where
  start : Nat
  stop : Nat
  replStart : Nat
  replStop : Nat
  deriving Repr, DecidableEq

def toDiffsGo (alen blen : Nat) : List Diag → Nat → Nat → List RDiff
  | [], pa, pb => if pa < alen ∨ pb < blen then [⟨pa, alen, pb, blen⟩] else []
  | l :: rest, pa, pb =>
    let tail := toDiffsGo alen blen rest (l.x + l.len) (l.y + l.len)
    if pa < l.x ∨ pb < l.y then ⟨pa, l.x, pb, l.y⟩ :: tail else tail

def toDiffs (l : List Diag) (alen blen : Nat) : List RDiff := toDiffsGo alen blen l 0 0

/-- the contract of the LCS search: diagonals in bounds, in order without overlap in both
coordinates, each a real match (`pa`, `pb`: where the previous diagonal ended) -/
def ValidLcsFrom {α : Type} [DecidableEq α] (a b : List α) : Nat → Nat → List Diag → Prop
  | pa, pb, [] => pa ≤ a.length ∧ pb ≤ b.length
  | pa, pb, d :: rest =>
    pa ≤ d.x ∧ pb ≤ d.y ∧ d.x + d.len ≤ a.length ∧ d.y + d.len ≤ b.length ∧
    (a.drop d.x).take d.len = (b.drop d.y).take d.len ∧
    ValidLcsFrom a b (d.x + d.len) (d.y + d.len) rest

def ValidLcs {α : Type} [DecidableEq α] (l : List Diag) (a b : List α) : Prop := ValidLcsFrom a b 0 0 l

instance instDecidableValidLcsFrom {α : Type} [DecidableEq α] (a b : List α) :
    ∀ (pa pb : Nat) (l : List Diag), Decidable (ValidLcsFrom a b pa pb l)
  | pa, pb, [] => inferInstanceAs (Decidable (pa ≤ a.length ∧ pb ≤ b.length))
  | pa, pb, d :: rest =>
    have := instDecidableValidLcsFrom a b (d.x + d.len) (d.y + d.len) rest
    inferInstanceAs (Decidable (pa ≤ d.x ∧ pb ≤ d.y ∧ d.x + d.len ≤ a.length ∧ d.y + d.len ≤ b.length ∧
      (a.drop d.x).take d.len = (b.drop d.y).take d.len ∧
      ValidLcsFrom a b (d.x + d.len) (d.y + d.len) rest))

instance {α : Type} [DecidableEq α] (l : List Diag) (a b : List α) : Decidable (ValidLcs l a b) :=
  instDecidableValidLcsFrom a b 0 0 l

/-- slice `xs[i:j]` (empty when `j ≤ i`) -/
def slice {α : Type} (xs : List α) (i j : Nat) : List α := (xs.drop i).take (j - i)

/-- specification of what a list of `Diff`s means: copy `a[last:start]`, emit `b[rs:re]`, continue at `stop` -/
def applyDiffs {α : Type} (a b : List α) : Nat → List RDiff → List α
  | last, [] => a.drop last
  | last, d :: rest => slice a last d.start ++ slice b d.replStart d.replStop ++ applyDiffs a b d.stop rest

/-! ## edits -/

structure Edit where
  start : Int
  stop : Int
  new : List Nat
  deriving Repr, DecidableEq

def diffASCII (after : List Nat) (ds : List RDiff) : List Edit :=
  ds.map fun d => ⟨d.start, d.stop, slice after d.replStart d.replStop⟩

/-- loop of `diffRunes`: `lastEnd` (rune index), `u` = `utf8Len` -/
def diffRunesGo (before after : List Nat) : Nat → Nat → List RDiff → List Edit
  | _, _, [] => []
  | lastEnd, u, d :: rest =>
    let u1 := u + utf8Len (slice before lastEnd d.start)
    let u2 := u1 + utf8Len (slice before d.start d.stop)
    ⟨u1, u2, utf8 (slice after d.replStart d.replStop)⟩ :: diffRunesGo before after d.stop u2 rest

def diffRunes (before after : List Nat) (ds : List RDiff) : List Edit := diffRunesGo before after 0 0 ds

/-- `Strings(before, after)` / `Bytes`, given the diagonals the LCS search returns for the
sequences it is run on (bytes if both ASCII, else runes) -/
def stringsEdits (before after : List Nat) (l : List Diag) : List Edit :=
  if before = after then []
  else if isASCII before && isASCII after then
    diffASCII after (toDiffs l before.length after.length)
  else
    let ra := decodeRunes before
    let rb := decodeRunes after
    diffRunes ra rb (toDiffs l ra.length rb.length)

/-- `editsSort.Less` negated with swapped arguments: `a` may stay before `b` -/
def editLE (a b : Edit) : Bool :=
  decide (a.start < b.start) || (decide (a.start = b.start) && decide (a.stop ≤ b.stop))

/-- `sort.IsSorted`: no adjacent pair out of order -/
def isSortedAdj : List Edit → Bool
  | a :: b :: rest => editLE a b && isSortedAdj (b :: rest)
  | _ => true

/-- `SortEdits` (stable) -/
def sortEdits (es : List Edit) : List Edit := es.mergeSort editLE

inductive VErr | oob | overlap | wrongSize
  deriving Repr, DecidableEq

instance : DecidableEq (Except VErr (List Nat))
  | .ok a, .ok b => if h : a = b then isTrue (by rw [h]) else isFalse (by intro h'; injection h' with h''; exact h h'')
  | .error a, .error b => if h : a = b then isTrue (by rw [h]) else isFalse (by intro h'; injection h' with h''; exact h h'')
  | .ok _, .error _ => isFalse (by intro h; cases h)
  | .error _, .ok _ => isFalse (by intro h; cases h)

def validateGo (srcLen : Int) : List Edit → Int → Int → Except VErr Int
  | [], size, _ => .ok size
  | e :: rest, size, lastEnd =>
    if ¬ (0 ≤ e.start ∧ e.start ≤ e.stop ∧ e.stop ≤ srcLen) then .error .oob
    else if e.start < lastEnd then .error .overlap
    else validateGo srcLen rest (size + e.new.length + e.start - e.stop) e.stop

/-- `validate`: the (possibly re-ordered) edits and the size of the result -/
def validate (src : List Nat) (es : List Edit) : Except VErr (List Edit × Int) :=
  let es' := if isSortedAdj es then es else sortEdits es
  match validateGo src.length es' src.length 0 with
  | .ok size => .ok (es', size)
  | .error e => .error e

def applyGo (src : List Nat) : Nat → List Edit → List Nat
  | lastEnd, [] => src.drop lastEnd
  | lastEnd, e :: rest =>
    slice src lastEnd e.start.toNat ++ e.new ++ applyGo src e.stop.toNat rest

/-- `Apply` -/
def apply (src : List Nat) (es : List Edit) : Except VErr (List Nat) :=
  match validate src es with
  | .error e => .error e
  | .ok (es', size) =>
    let out := applyGo src 0 es'
    if (out.length : Int) ≠ size then .error .wrongSize else .ok out

/-! ## line edits -/

/-- offset of the start of the line containing offset `p` (`p - 1 - LastIndex(src[:p], "\n")`) -/
def lineStart (src : List Nat) : Nat → Nat
  | 0 => 0
  | k + 1 => if src[k]? = some 10 then k + 1 else lineStart src k

def endsNl (xs : List Nat) : Bool := xs.getLast? == some 10

def misaligned (src : List Nat) (e : Edit) : Bool :=
  let s := e.start.toNat
  let t := e.stop.toNat
  decide (s ≥ src.length) ||
  (decide (s > 0) && src[s - 1]? != some 10) ||
  (decide (t > 0) && src[t - 1]? != some 10) ||
  (e.new != [] && !endsNl e.new)

def expandEdit (src : List Nat) (e : Edit) : Edit :=
  let start := e.start.toNat
  let ls := lineStart src start
  let (start', new') := if start - ls > 0 then (ls, slice src ls start ++ e.new) else (start, e.new)
  let stop := e.stop.toNat
  let stop' :=
    if (decide (stop > 0) && src[stop - 1]? != some 10) || (new' != [] && !endsNl new') then
      match (src.drop stop).idxOf? 10 with
      | none => src.length
      | some nl => stop + nl + 1
    else stop
  ⟨start', stop', new' ++ slice src stop stop'⟩

def expandLoop (src : List Nat) : Edit → List Edit → List Edit
  | prev, [] => [expandEdit src prev]
  | prev, e :: rest =>
    let between := slice src prev.stop.toNat e.start.toNat
    if !between.contains 10 then
      expandLoop src ⟨prev.start, e.stop, prev.new ++ between ++ e.new⟩ rest
    else expandEdit src prev :: expandLoop src e rest

/-- `lineEdits` -/
def lineEdits (src : List Nat) (es : List Edit) : Except VErr (List Edit) :=
  match validate src es with
  | .error e => .error e
  | .ok (es', _) =>
    if es'.any (misaligned src) then
      match es' with
      | [] => .ok []
      | e :: rest => .ok (expandLoop src e rest)
    else .ok es'

/-! ## unified hunks -/

/-- `strings.SplitAfter(text, "\n")` without a trailing empty piece -/
def splitLinesGo : List Nat → List Nat → List (List Nat)
  | [], cur => if cur.isEmpty then [] else [cur.reverse]
  | b :: rest, cur => if b = 10 then (b :: cur).reverse :: splitLinesGo rest [] else splitLinesGo rest (b :: cur)

def splitLines (text : List Nat) : List (List Nat) := splitLinesGo text []

inductive Kind | delete | insert | equal
  deriving Repr, DecidableEq

structure Hunk where
  fromLine : Nat
  toLine : Nat
  lines : List (Kind × List Nat)
  deriving Repr, DecidableEq

/-- `addEqualLines(h, lines, lo, hi)` with `lo` already clamped at 0 -/
def eqLines (lines : List (List Nat)) (lo hi : Nat) : List (Kind × List Nat) :=
  (slice lines lo hi).map fun l => (Kind.equal, l)

def countNl (xs : List Nat) : Nat := xs.count 10

structure UState where
  hunks : List Hunk          -- finished hunks, in order
  cur : Option Hunk
  last : Nat
  toLine : Nat

/-- one iteration of the loop of `toUnified`.  `fixJoin` selects the behaviour of the
"joiners" branch: `false` = the code as pinned (the new-file line counter is not advanced
over the joining context lines), `true` = with `toLine += addEqualLines(...)` there
(proposed_fixes/C22-unified-new-start-line.diff). -/
def uStep (fixJoin : Bool) (content : List Nat) (lines : List (List Nat)) (ctx : Nat) (st : UState) (e : Edit) : UState :=
  let gap := ctx * 2
  let start := countNl (content.take e.start.toNat)
  let stop0 := countNl (content.take e.stop.toNat)
  let stop := if e.stop.toNat = content.length ∧ content.length > 0 ∧ content.getLast? ≠ some 10 then stop0 + 1 else stop0
  let (hunks, h, toLine) : List Hunk × Hunk × Nat :=
    match st.cur with
    | some h =>
      if start = st.last then (st.hunks, h, st.toLine)
      else if start ≤ st.last + gap then
        (st.hunks, { h with lines := h.lines ++ eqLines lines st.last start },
          if fixJoin then st.toLine + (eqLines lines st.last start).length else st.toLine)
      else
        let hdone := { h with lines := h.lines ++ eqLines lines st.last (st.last + ctx) }
        let toLine := st.toLine + (start - st.last)
        let pre := eqLines lines (start - ctx) start
        (st.hunks ++ [hdone], ⟨start + 1 - pre.length, toLine + 1 - pre.length, pre⟩, toLine)
    | none =>
      let toLine := st.toLine + (start - st.last)
      let pre := eqLines lines (start - ctx) start
      (st.hunks, ⟨start + 1 - pre.length, toLine + 1 - pre.length, pre⟩, toLine)
  let dels := (slice lines start stop).map fun l => (Kind.delete, l)
  let ins := if e.new = [] then [] else (splitLines e.new).map fun l => (Kind.insert, l)
  ⟨hunks, some { h with lines := h.lines ++ dels ++ ins }, start + dels.length, toLine + ins.length⟩

/-- `toUnified`: the hunks -/
def toUnified (fixJoin : Bool) (content : List Nat) (es : List Edit) (ctx : Nat) : Except VErr (List Hunk) :=
  if es = [] then .ok [] else
  match lineEdits content es with
  | .error e => .error e
  | .ok les =>
    let lines := splitLines content
    let st := les.foldl (uStep fixJoin content lines ctx) ⟨[], none, 0, 0⟩
    match st.cur with
    | some h => .ok (st.hunks ++ [{ h with lines := h.lines ++ eqLines lines st.last (st.last + ctx) }])
    | none => .ok st.hunks

def ascii (s : String) : List Nat := s.toList.map Char.toNat

def countKind (h : Hunk) : Nat × Nat :=
  h.lines.foldl (fun (p : Nat × Nat) l =>
    match l.1 with
    | .delete => (p.1 + 1, p.2)
    | .insert => (p.1, p.2 + 1)
    | .equal => (p.1 + 1, p.2 + 1)) (0, 0)

def renderRange (sign : String) (line count : Nat) : List Nat :=
  if count > 1 then ascii s!" {sign}{line},{count}"
  else if line = 1 ∧ count = 0 then ascii s!" {sign}0,0"
  else ascii s!" {sign}{line}"

def renderLine (l : Kind × List Nat) : List Nat :=
  let pre := match l.1 with | .delete => 45 | .insert => 43 | .equal => 32
  pre :: l.2 ++ (if endsNl l.2 then [] else ascii "\n\\ No newline at end of file\n")

/-- `unified.String()` with labels "a" and "b" -/
def render (hs : List Hunk) : List Nat :=
  if hs = [] then [] else
  ascii "--- a\n+++ b\n" ++ hs.flatMap fun h =>
    let (fc, tc) := countKind h
    ascii "@@" ++ renderRange "-" h.fromLine fc ++ renderRange "+" h.toLine tc ++ ascii " @@\n" ++ h.lines.flatMap renderLine

/-! ## reference patch interpreter (specification side) -/

/-- apply hunks to the old lines.  `pos` = old lines consumed so far (0-based), `npos` = new
lines produced so far.  A hunk's `fromLine`/`toLine` are the 1-based numbers of its first old /
new line (for a side with no lines: of the line it stands before).  Each hunk must start at or
after `pos` (and, when `strictNew`, exactly at its stated new line), and its context and deleted
lines must be the old lines found there. -/
def patchHunks (strictNew : Bool) (old : List (List Nat)) : Nat → Nat → List Hunk → Option (List (List Nat))
  | pos, _, [] => some (old.drop pos)
  | pos, npos, h :: rest =>
    if h.fromLine = 0 ∨ h.toLine = 0 then none else
    let fstart := h.fromLine - 1
    if fstart < pos then none else
    let skipped := slice old pos fstart
    let nstart := npos + skipped.length
    if strictNew && (h.toLine - 1 != nstart) then none else
    let rec go : List (Kind × List Nat) → Nat → List (List Nat) → Option (Nat × List (List Nat))
      | [], p, acc => some (p, acc.reverse)
      | (k, l) :: ls, p, acc =>
        match k with
        | .insert => go ls p (l :: acc)
        | .delete => if old[p]? = some l then go ls (p + 1) acc else none
        | .equal => if old[p]? = some l then go ls (p + 1) (l :: acc) else none
    match go h.lines fstart [] with
    | none => none
    | some (p, outLines) =>
      match patchHunks strictNew old p (nstart + outLines.length) rest with
      | none => none
      | some tl => some (skipped ++ outLines ++ tl)

end WaVerif.C22
