/-! # C28 — concurrent API use: the shared "current module" model

`internal/backends/compiler_wat/wir/wir.go` keeps a package-level `var currentModule *Module`, set by
`SetCurrentModule` at the start of `Compiler.Compile` and read by type/value constructors
(`newValue_String`, `Block.OnFree`, `Struct.OnFree`, closures) for the rest of the compilation.

Model: any number of sessions (compilations), each performing
`begin (set current := mine) ; read* ; finish`, interleaved by an arbitrary schedule (the list of
(session, action) turns the scheduler grants).  With `cfg.locked` the span begin…finish is a critical
section: a `begin` while another session holds the lock is blocked (the turn is lost; the session tries
again on a later turn).  `log` records, for every read, which session's module the reader saw.
Core-only, executable. -/
namespace WaVerif.C28

abbrev Sess := Nat

/-- `crash`: the session's compilation panics (the backend does that for some legal programs); the caller
recovers (net/http does, per request) -/
inductive Act | begin | read | finish | crash
  deriving DecidableEq, Repr

structure Cfg where
  /-- does `Compile` hold a process-wide lock from `SetCurrentModule` to its return? (regenerated fact) -/
  locked : Bool
  /-- is the lock released by `defer` (i.e. also when the compilation panics)? (regenerated fact) -/
  deferUnlock : Bool := true
  deriving DecidableEq, Repr

structure St where
  cur : Option Sess                 -- the process-global current module (whose it is)
  lock : Option Sess                -- holder of the compile lock
  active : List Sess                -- sessions between begin and finish
  log : List (Sess × Option Sess)   -- (reader, owner of the module it read)
  deriving DecidableEq, Repr

def St.init : St := ⟨none, none, [], []⟩

def step (cfg : Cfg) (st : St) (e : Sess × Act) : St :=
  match e with
  | (s, .begin) =>
    if s ∈ st.active then st
    else if cfg.locked && st.lock.isSome then st
    else { st with cur := some s, lock := if cfg.locked then some s else st.lock, active := s :: st.active }
  | (s, .read) =>
    if s ∈ st.active then { st with log := st.log ++ [(s, st.cur)] } else st
  | (s, .finish) =>
    if s ∈ st.active then
      { st with active := st.active.filter (· ≠ s), lock := if st.lock = some s then none else st.lock }
    else st
  | (s, .crash) =>
    if s ∈ st.active then
      { st with active := st.active.filter (· ≠ s),
                lock := if cfg.deferUnlock && st.lock = some s then none else st.lock }   -- without defer the lock LEAKS
    else st

def runFrom (cfg : Cfg) (st : St) (sched : List (Sess × Act)) : St := sched.foldl (step cfg) st

def run (cfg : Cfg) (sched : List (Sess × Act)) : St := runFrom cfg St.init sched

/-- every read saw the reader's own module -/
def Isolated (st : St) : Prop := ∀ e ∈ st.log, e.2 = some e.1

instance (st : St) : Decidable (Isolated st) := by unfold Isolated; exact inferInstance

/-- one whole session: begin, n reads, finish -/
def block (b : Sess × Nat) : List (Sess × Act) :=
  (b.1, .begin) :: (List.replicate b.2 (b.1, .read) ++ [(b.1, .finish)])

/-- a serialised (non-overlapping) schedule: whole sessions one after the other -/
def serialised (blocks : List (Sess × Nat)) : List (Sess × Act) := blocks.flatMap block

/-- a session that begins and panics -/
def crashOnce : List (Sess × Act) := [(0, .begin), (0, .crash)]

/-- "lock acquired ⇒ released by defer" (the discipline the regenerated facts are checked against) -/
def lockDiscipline (acquired deferred : Bool) : Bool := !acquired || deferred

/-- the smallest interfering schedule: A begins, B begins, A reads -/
def witness : List (Sess × Act) := [(0, .begin), (1, .begin), (0, .read)]

/-! ## package-level variables written after init (regenerated into `Gen/C28Facts.lean`) -/

inductive GlobalAudit
  | lockGuarded | initOnly | configFlag | notOnApiPath | idempotent | unsynchronised | unaudited
  deriving Repr, DecidableEq

structure GlobalVar where
  id : String
  audit : GlobalAudit
  deriving Repr

def GlobalVar.accounted (g : GlobalVar) : Bool :=
  match g.audit with
  | .unaudited => false
  | _ => true

def allGlobalsAccounted (l : List GlobalVar) : Bool := l.all GlobalVar.accounted

end WaVerif.C28
