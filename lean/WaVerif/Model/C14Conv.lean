import WaVerif.Gen.C14Tables
/-!
# C14 — model of strconv's integer conversions (itoa.wa formatBits, atoi.wa ParseUint/ParseInt), core Lean only
Strings are lists of character codes; the digit alphabet is the regenerated `strconvDigits`.
`formatUint` is the generic digit loop (`u % base`, `u / base`); the port's fast paths (base 10 by pairs, powers of
two by shifting) produce the same digits — checked by the correspondence run, not proved.
-/
namespace WaVerif.C14
open WaVerif.C14.Gen

def digitChar (d : Nat) : Nat := strconvDigits.getD d 0

/-- digits of `u`, most significant first; `fuel` bounds the number of digits -/
def toDigits (base : Nat) : Nat → Nat → List Nat
  | 0, _ => []
  | f + 1, u => if u < base then [u] else toDigits base f (u / base) ++ [u % base]

def formatUint (u base : Nat) : List Nat := (toDigits base 64 u).map digitChar

/-- `FormatInt`: sign, then the magnitude -/
def formatInt (v : Int) (base : Nat) : List Nat :=
  if v < 0 then 45 :: formatUint (-v).toNat base else formatUint v.toNat base

/-- outcome of ParseUint / ParseInt: value, or the error kind (with the clamped value Go returns on range errors) -/
inductive PRes where
  | ok (n : Int)
  | range (n : Int)
  | syntax
  | base
  | bits
  deriving DecidableEq, Repr

/-- `lower(c) = c | ('x' - 'X')` -/
def lowerC (c : Nat) : Nat := c ||| 32

def digitVal (c : Nat) : Option Nat :=
  if 48 ≤ c ∧ c ≤ 57 then some (c - 48)
  else if 97 ≤ lowerC c ∧ lowerC c ≤ 122 then some (lowerC c - 97 + 10)
  else none

/-- the digit loop of ParseUint on a 64-bit register; `inr (n, sawUnderscore)` when all characters were consumed -/
def parseLoop (base cutoff maxVal : Nat) (base0 : Bool) : List Nat → Nat → Bool → PRes ⊕ (Nat × Bool)
  | [], n, us => .inr (n, us)
  | c :: cs, n, us =>
    if c = 95 ∧ base0 = true then parseLoop base cutoff maxVal base0 cs n true
    else match digitVal c with
      | none => .inl .syntax
      | some d =>
        if d ≥ base then .inl .syntax
        else if n ≥ cutoff then .inl (.range maxVal)
        else
          let n' := (n * base) % 2 ^ 64
          let n1 := (n' + d) % 2 ^ 64
          if n1 < n' ∨ n1 > maxVal then .inl (.range maxVal)
          else parseLoop base cutoff maxVal base0 cs n1 us

/-- `underscoreOK`: state is the `saw` variable ('^' = 0, '0' = 1, '_' = 2, '!' = 3) -/
def underscoreScan (hex : Bool) : List Nat → Nat → Bool
  | [], saw => saw != 2
  | c :: cs, saw =>
    if (48 ≤ c ∧ c ≤ 57) ∨ (hex = true ∧ 97 ≤ lowerC c ∧ lowerC c ≤ 102) then underscoreScan hex cs 1
    else if c = 95 then (if saw != 1 then false else underscoreScan hex cs 2)
    else if saw = 2 then false
    else underscoreScan hex cs 3

def underscoreOK (s : List Nat) : Bool :=
  let s := match s with
    | c :: rest => if c = 45 ∨ c = 43 then rest else s
    | [] => s
  match s with
  | 48 :: p :: rest =>
    if lowerC p = 98 ∨ lowerC p = 111 ∨ lowerC p = 120 then underscoreScan (lowerC p = 120) rest 1
    else underscoreScan false s 0
  | _ => underscoreScan false s 0

def maxUint64 : Nat := 2 ^ 64 - 1

/-- ParseUint(s, base, bitSize) with Go's semantics (a bit size of 0 means 64 here; the drivers never pass 0) -/
def parseUint (s : List Nat) (base bitSize : Int) : PRes :=
  if s = [] then .syntax else
  let base0 := base == 0
  let sel : Option (Nat × List Nat) :=
    if 2 ≤ base ∧ base ≤ 36 then some (base.toNat, s)
    else if base = 0 then
      match s with
      | 48 :: p :: q :: rest =>
        if lowerC p = 98 then some (2, q :: rest)
        else if lowerC p = 111 then some (8, q :: rest)
        else if lowerC p = 120 then some (16, q :: rest)
        else some (8, p :: q :: rest)
      | 48 :: rest => some (8, rest)
      | _ => some (10, s)
    else none
  match sel with
  | none => .base
  | some (b, digits) =>
    let bitSize := if bitSize = 0 then 64 else bitSize
    if bitSize < 0 ∨ bitSize > 64 then .bits else
    let cutoff := maxUint64 / b + 1
    let maxVal := 2 ^ bitSize.toNat - 1
    match parseLoop b cutoff maxVal base0 digits 0 false with
    | .inl e => e
    | .inr (n, us) => if us ∧ ¬ underscoreOK s then .syntax else .ok n

/-- ParseInt(s, base, bitSize) -/
def parseInt (s : List Nat) (base bitSize : Int) : PRes :=
  match s with
  | [] => .syntax
  | c :: rest =>
    let neg := c = 45
    let body := if c = 43 ∨ c = 45 then rest else s
    let r := parseUint body base bitSize
    let bitSize := if bitSize = 0 then 64 else bitSize
    match r with
    | .syntax => .syntax
    | .base => .base
    | .bits => .bits
    | .ok un | .range un =>
      let cutoff : Int := 2 ^ (bitSize.toNat - 1)
      if ¬ neg ∧ un ≥ cutoff then .range (cutoff - 1)
      else if neg ∧ un > cutoff then .range (-cutoff)
      else .ok (if neg then -un else un)

end WaVerif.C14
