/-!
# C17 — LoongArch64: instruction layouts, ISA reference table, specification decoder, encoder model

Core Lean only.  Machine words are naturals `< 2^32`.

A format is a `layout`: the list of its bit segments from bit 0 upwards, each either `fix w`
(`w` opcode bits) or `fld w slot kind vlo` (an operand field of `w` bits holding bits
`[vlo, vlo+w)` of the operand's field value).  The widths of a layout sum to 32.
`packSegs` / `unpackSegs` are the mixed-radix pack/unpack over a layout; the mask of a format is
derived from its layout (`maskOf`).  Layouts are written from the LoongArch Reference Manual
vol. 1 (instruction formats 2R/3R/4R/2RI8/2RI12/2RI14/2RI16/1RI21/I26 and their register-class /
condition-flag variants); `isaTable` is typed from its appendix B "Table of Instruction Encoding".
The repo's `_AOpContextTable` is REGENERATED into `WaVerif/Gen/C17Loong64.lean` on every run.
-/
namespace WaVerif.C17.La

/-- the repo's `OpFormatType`s (prefix `f`), plus `f2R_si16` which the ISA needs for ADDU16I.D -/
inductive Fm
  | fNULL | f2R | f2F | f1F_1R | f1R_1F | f3R | f3F | f1F_2R | f4F | f2R_ui5 | f2R_ui6 | f2R_si12 | f1F_1R_si12
  | f2R_ui12 | f2R_si14 | f2R_si16 | f1R_si20 | f0_2R | f3R_sa2 | f3R_sa3 | fcode | fcode_1R_si12 | f2R_msbw_lsbw
  | f2R_msbd_lsbd | ffcsr_1R | f1R_fcsr | fcd_1R | fcd_1F | fcd_2F | f1R_cj | f1F_cj | f1R_csr | f2R_csr | f2R_level
  | flevel | f0_1R_seq | fop_2R | f3F_ca | fhint_1R_si12 | fhint_2R | fhint | fcj_offset | frj_offset
  | frj_rd_offset | frd_rj_offset | foffset
  deriving DecidableEq, Repr

/-- the mnemonics of the LoongArch64 base, FP, atomic and privileged instructions the repo's table covers -/
inductive Mn
  | CLO_W | CLZ_W | CTO_W | CTZ_W | CLO_D | CLZ_D | CTO_D | CTZ_D | REVB_2H | REVB_4H | REVB_2W | REVB_D | REVH_2W
  | REVH_D | BITREV_4B | BITREV_8B | BITREV_W | BITREV_D | EXT_W_H | EXT_W_B | RDTIMEL_W | RDTIMEH_W | RDTIME_D
  | CPUCFG | ASRTLE_D | ASRTGT_D | ALSL_W | ALSL_WU | BYTEPICK_W | BYTEPICK_D | ADD_W | ADD_D | SUB_W | SUB_D | SLT
  | SLTU | MASKEQZ | MASKNEZ | NOR | AND | OR | XOR | ORN | ANDN | SLL_W | SRL_W | SRA_W | SLL_D | SRL_D | SRA_D
  | ROTR_W | ROTR_D | MUL_W | MULH_W | MULH_WU | MUL_D | MULH_D | MULH_DU | MULW_D_W | MULW_D_WU | DIV_W | MOD_W
  | DIV_WU | MOD_WU | DIV_D | MOD_D | DIV_DU | MOD_DU | CRC_W_B_W | CRC_W_H_W | CRC_W_W_W | CRC_W_D_W | CRCC_W_B_W
  | CRCC_W_H_W | CRCC_W_W_W | CRCC_W_D_W | BREAK | DBCL | SYSCALL | ALSL_D | SLLI_W | SLLI_D | SRLI_W | SRLI_D
  | SRAI_W | SRAI_D | ROTRI_W | ROTRI_D | BSTRINS_W | BSTRPICK_W | BSTRINS_D | BSTRPICK_D | FADD_S | FADD_D | FSUB_S
  | FSUB_D | FMUL_S | FMUL_D | FDIV_S | FDIV_D | FMAX_S | FMAX_D | FMIN_S | FMIN_D | FMAXA_S | FMAXA_D | FMINA_S
  | FMINA_D | FSCALEB_S | FSCALEB_D | FCOPYSIGN_S | FCOPYSIGN_D | FABS_S | FABS_D | FNEG_S | FNEG_D | FLOGB_S
  | FLOGB_D | FCLASS_S | FCLASS_D | FSQRT_S | FSQRT_D | FRECIP_S | FRECIP_D | FRSQRT_S | FRSQRT_D | FRECIPE_S
  | FRECIPE_D | FRSQRTE_S | FRSQRTE_D | FMOV_S | FMOV_D | MOVGR2FR_W | MOVGR2FR_D | MOVGR2FRH_W | MOVFR2GR_S
  | MOVFR2GR_D | MOVFRH2GR_S | MOVGR2FCSR | MOVFCSR2GR | MOVFR2CF | MOVCF2FR | MOVGR2CF | MOVCF2GR | FCVT_S_D
  | FCVT_D_S | FTINTRM_W_S | FTINTRM_W_D | FTINTRM_L_S | FTINTRM_L_D | FTINTRP_W_S | FTINTRP_W_D | FTINTRP_L_S
  | FTINTRP_L_D | FTINTRZ_W_S | FTINTRZ_W_D | FTINTRZ_L_S | FTINTRZ_L_D | FTINTRNE_W_S | FTINTRNE_W_D | FTINTRNE_L_S
  | FTINTRNE_L_D | FTINT_W_S | FTINT_W_D | FTINT_L_S | FTINT_L_D | FFINT_S_W | FFINT_S_L | FFINT_D_W | FFINT_D_L
  | FRINT_S | FRINT_D | SLTI | SLTUI | ADDI_W | ADDI_D | LU52I_D | ANDI | ORI | XORI | CSRRD | CSRWR | CSRXCHG | CACOP
  | LDDIR | LDPTE | IOCSRRD_B | IOCSRRD_H | IOCSRRD_W | IOCSRRD_D | IOCSRWR_B | IOCSRWR_H | IOCSRWR_W | IOCSRWR_D
  | TLBCLR | TLBFLUSH | TLBSRCH | TLBRD | TLBWR | TLBFILL | ERTN | IDLE | INVTLB | FMADD_S | FMADD_D | FMSUB_S
  | FMSUB_D | FNMADD_S | FNMADD_D | FNMSUB_S | FNMSUB_D | FCMP_CAF_S | FCMP_CAF_D | FCMP_SAF_S | FCMP_SAF_D
  | FCMP_CLT_S | FCMP_CLT_D | FCMP_SLT_S | FCMP_SLT_D | FCMP_CEQ_S | FCMP_CEQ_D | FCMP_SEQ_S | FCMP_SEQ_D | FCMP_CLE_S
  | FCMP_CLE_D | FCMP_SLE_S | FCMP_SLE_D | FCMP_CUN_S | FCMP_CUN_D | FCMP_SUN_S | FCMP_SUN_D | FCMP_CULT_S
  | FCMP_CULT_D | FCMP_SULT_S | FCMP_SULT_D | FCMP_CUEQ_S | FCMP_CUEQ_D | FCMP_SUEQ_S | FCMP_SUEQ_D | FCMP_CULE_S
  | FCMP_CULE_D | FCMP_SULE_S | FCMP_SULE_D | FCMP_CNE_S | FCMP_CNE_D | FCMP_SNE_S | FCMP_SNE_D | FCMP_COR_S
  | FCMP_COR_D | FCMP_SOR_S | FCMP_SOR_D | FCMP_CUNE_S | FCMP_CUNE_D | FCMP_SUNE_S | FCMP_SUNE_D | FSEL | ADDU16I_D
  | LU12I_W | LU32I_D | PCADDI | PCALAU12I | PCADDU12I | PCADDU18I | LL_W | SC_W | LL_D | SC_D | LDPTR_W | STPTR_W
  | LDPTR_D | STPTR_D | LD_B | LD_H | LD_W | LD_D | ST_B | ST_H | ST_W | ST_D | LD_BU | LD_HU | LD_WU | PRELD | FLD_S
  | FST_S | FLD_D | FST_D | LDX_B | LDX_H | LDX_W | LDX_D | STX_B | STX_H | STX_W | STX_D | LDX_BU | LDX_HU | LDX_WU
  | PRELDX | FLDX_S | FLDX_D | FSTX_S | FSTX_D | SC_Q | LLACQ_W | SCREL_W | LLACQ_D | SCREL_D | AMCAS_B | AMCAS_H
  | AMCAS_W | AMCAS_D | AMCAS_DB_B | AMCAS_DB_H | AMCAS_DB_W | AMCAS_DB_D | AMSWAP_B | AMSWAP_H | AMADD_B | AMADD_H
  | AMSWAP_DB_B | AMSWAP_DB_H | AMADD_DB_B | AMADD_DB_H | AMSWAP_W | AMSWAP_D | AMADD_W | AMADD_D | AMAND_W | AMAND_D
  | AMOR_W | AMOR_D | AMXOR_W | AMXOR_D | AMMAX_W | AMMAX_D | AMMIN_W | AMMIN_D | AMMAX_WU | AMMAX_DU | AMMIN_WU
  | AMMIN_DU | AMSWAP_DB_W | AMSWAP_DB_D | AMADD_DB_W | AMADD_DB_D | AMAND_DB_W | AMAND_DB_D | AMOR_DB_W | AMOR_DB_D
  | AMXOR_DB_W | AMXOR_DB_D | AMMAX_DB_W | AMMAX_DB_D | AMMIN_DB_W | AMMIN_DB_D | AMMAX_DB_WU | AMMAX_DB_DU
  | AMMIN_DB_WU | AMMIN_DB_DU | DBAR | IBAR | FLDGT_S | FLDGT_D | FLDLE_S | FLDLE_D | FSTGT_S | FSTGT_D | FSTLE_S
  | FSTLE_D | LDGT_B | LDGT_H | LDGT_W | LDGT_D | LDLE_B | LDLE_H | LDLE_W | LDLE_D | STGT_B | STGT_H | STGT_W
  | STGT_D | STLE_B | STLE_H | STLE_W | STLE_D | BEQZ | BNEZ | BCEQZ | BCNEZ | JIRL | B | BL | BEQ | BNE | BLT | BGE
  | BLTU | BGEU
  deriving DecidableEq, Repr


inductive Slot | rd | rs1 | rs2 | rs3 | imm
  deriving DecidableEq, Repr

/-- operand kinds: general register, FP register, FCSR, condition flag, raw number passed in a
register slot (code / hint / op / msb / lsb), unsigned immediate, signed immediate, branch offset
(signed, multiple of 4, stored shifted right by 2) -/
inductive Kind | R | F | S | C | U | UI | SI | OF
  deriving DecidableEq, Repr

inductive Seg
  | fix (w : Nat)
  | fld (w : Nat) (slot : Slot) (kind : Kind) (vlo : Nat)
  deriving DecidableEq, Repr

def Seg.width : Seg → Nat
  | .fix w => w
  | .fld w _ _ _ => w

open Seg Slot Kind in
/-- bit layout of every format, from bit 0 upwards -/
def layout : Fm → List Seg
  | .fNULL => [fix 32]
  | .f2R => [fld 5 rd R 0, fld 5 rs1 R 0, fix 22]
  | .f2F => [fld 5 rd F 0, fld 5 rs1 F 0, fix 22]
  | .f1F_1R => [fld 5 rd F 0, fld 5 rs1 R 0, fix 22]
  | .f1R_1F => [fld 5 rd R 0, fld 5 rs1 F 0, fix 22]
  | .f3R => [fld 5 rd R 0, fld 5 rs1 R 0, fld 5 rs2 R 0, fix 17]
  | .f3F => [fld 5 rd F 0, fld 5 rs1 F 0, fld 5 rs2 F 0, fix 17]
  | .f1F_2R => [fld 5 rd F 0, fld 5 rs1 R 0, fld 5 rs2 R 0, fix 17]
  | .f4F => [fld 5 rd F 0, fld 5 rs1 F 0, fld 5 rs2 F 0, fld 5 rs3 F 0, fix 12]
  | .f2R_ui5 => [fld 5 rd R 0, fld 5 rs1 R 0, fld 5 imm UI 0, fix 17]
  | .f2R_ui6 => [fld 5 rd R 0, fld 5 rs1 R 0, fld 6 imm UI 0, fix 16]
  | .f2R_si12 => [fld 5 rd R 0, fld 5 rs1 R 0, fld 12 imm SI 0, fix 10]
  | .f1F_1R_si12 => [fld 5 rd F 0, fld 5 rs1 R 0, fld 12 imm SI 0, fix 10]
  | .f2R_ui12 => [fld 5 rd R 0, fld 5 rs1 R 0, fld 12 imm UI 0, fix 10]
  | .f2R_si14 => [fld 5 rd R 0, fld 5 rs1 R 0, fld 14 imm SI 0, fix 8]
  | .f2R_si16 => [fld 5 rd R 0, fld 5 rs1 R 0, fld 16 imm SI 0, fix 6]
  | .f1R_si20 => [fld 5 rd R 0, fld 20 imm SI 0, fix 7]
  | .f0_2R => [fix 5, fld 5 rs1 R 0, fld 5 rs2 R 0, fix 17]
  | .f3R_sa2 => [fld 5 rd R 0, fld 5 rs1 R 0, fld 5 rs2 R 0, fld 2 imm UI 0, fix 15]
  | .f3R_sa3 => [fld 5 rd R 0, fld 5 rs1 R 0, fld 5 rs2 R 0, fld 3 imm UI 0, fix 14]
  | .fcode => [fld 15 imm UI 0, fix 17]
  | .fcode_1R_si12 => [fld 5 rd U 0, fld 5 rs1 R 0, fld 12 imm SI 0, fix 10]
  | .f2R_msbw_lsbw => [fld 5 rd R 0, fld 5 rs1 R 0, fld 5 rs3 U 0, fix 1, fld 5 rs2 U 0, fix 11]
  | .f2R_msbd_lsbd => [fld 5 rd R 0, fld 5 rs1 R 0, fld 6 rs3 U 0, fld 6 rs2 U 0, fix 10]
  | .ffcsr_1R => [fld 5 rd S 0, fld 5 rs1 R 0, fix 22]
  | .f1R_fcsr => [fld 5 rd R 0, fld 5 rs1 S 0, fix 22]
  | .fcd_1R => [fld 3 rd C 0, fix 2, fld 5 rs1 R 0, fix 22]
  | .fcd_1F => [fld 3 rd C 0, fix 2, fld 5 rs1 F 0, fix 22]
  | .fcd_2F => [fld 3 rd C 0, fix 2, fld 5 rs1 F 0, fld 5 rs2 F 0, fix 17]
  | .f1R_cj => [fld 5 rd R 0, fld 3 rs1 C 0, fix 24]
  | .f1F_cj => [fld 5 rd F 0, fld 3 rs1 C 0, fix 24]
  | .f1R_csr => [fld 5 rd R 0, fix 5, fld 14 imm UI 0, fix 8]
  | .f2R_csr => [fld 5 rd R 0, fld 5 rs1 R 0, fld 14 imm UI 0, fix 8]
  | .f2R_level => [fld 5 rd R 0, fld 5 rs1 R 0, fld 8 imm UI 0, fix 14]
  | .flevel => [fld 15 imm UI 0, fix 17]
  | .f0_1R_seq => [fix 5, fld 5 rs1 R 0, fld 8 imm UI 0, fix 14]
  | .fop_2R => [fld 5 rd U 0, fld 5 rs1 R 0, fld 5 rs2 R 0, fix 17]
  | .f3F_ca => [fld 5 rd F 0, fld 5 rs1 F 0, fld 5 rs2 F 0, fld 3 imm UI 0, fix 14]
  | .fhint_1R_si12 => [fld 5 rd U 0, fld 5 rs1 R 0, fld 12 imm SI 0, fix 10]
  | .fhint_2R => [fld 5 rd U 0, fld 5 rs1 R 0, fld 5 rs2 R 0, fix 17]
  | .fhint => [fld 15 imm UI 0, fix 17]
  | .fcj_offset => [fld 5 imm OF 16, fld 3 rs1 C 0, fix 2, fld 16 imm OF 0, fix 6]
  | .frj_offset => [fld 5 imm OF 16, fld 5 rs1 R 0, fld 16 imm OF 0, fix 6]
  | .frj_rd_offset => [fld 5 rd R 0, fld 5 rs1 R 0, fld 16 imm OF 0, fix 6]
  | .frd_rj_offset => [fld 5 rd R 0, fld 5 rs1 R 0, fld 16 imm OF 0, fix 6]
  | .foffset => [fld 10 imm OF 16, fld 16 imm OF 0, fix 6]

/-- total width of the immediate operand of a layout (sum of its pieces) -/
def immWidth : List Seg → Nat
  | [] => 0
  | .fix _ :: r => immWidth r
  | .fld w s _ _ :: r => if s = .imm then w + immWidth r else immWidth r

/-- kind of the immediate operand, if any -/
def immKind : List Seg → Option Kind
  | [] => none
  | .fix _ :: r => immKind r
  | .fld _ s k _ :: r => if s = .imm then some k else immKind r

/-! ## operands (numbering of `abi.RegType` in package loong64: 0 absent, r_n ↦ n+1, f_n ↦ n+33,
fcsr_n ↦ n+65, fcc_n ↦ n+69) -/

structure Ops where
  rd : Nat
  rs1 : Nat
  rs2 : Nat
  rs3 : Nat
  imm : Int
  deriving DecidableEq, Repr

def Ops.reg (a : Ops) : Slot → Nat
  | .rd => a.rd | .rs1 => a.rs1 | .rs2 => a.rs2 | .rs3 => a.rs3 | .imm => 0

/-- field value of a register-slot operand (`none`: not encodable) for a `w`-bit field -/
def regField (k : Kind) (w r : Nat) : Option Nat :=
  match k with
  | .R => if 1 ≤ r ∧ r ≤ 32 then some (r - 1) else none
  | .F => if 33 ≤ r ∧ r ≤ 64 then some (r - 33) else none
  | .S => if 65 ≤ r ∧ r ≤ 68 then some (r - 65) else none
  | .C => if 69 ≤ r ∧ r ≤ 76 then some (r - 69) else none
  | .U => if r < 2 ^ w then some r else none
  | _ => none

/-- the operand shown for a register-slot field value -/
def regShow (k : Kind) (v : Nat) : Nat :=
  match k with
  | .R => v + 1 | .F => v + 33 | .S => v + 65 | .C => v + 69 | _ => v

/-- field value of an immediate of total width `W` -/
def immField (k : Kind) (W : Nat) (i : Int) : Option Nat :=
  match k with
  | .UI => if 0 ≤ i ∧ i < 2 ^ W then some i.toNat else none
  | .SI => if -(2 ^ (W - 1) : Int) ≤ i ∧ i < 2 ^ (W - 1) then some (i % (2 ^ W : Int)).toNat else none
  | .OF => if i % 4 = 0 ∧ -(2 ^ (W - 1) : Int) ≤ i / 4 ∧ i / 4 < 2 ^ (W - 1) then some ((i / 4) % (2 ^ W : Int)).toNat else none
  | _ => none

def sext (W v : Nat) : Int := if v ≥ 2 ^ (W - 1) then (v : Int) - (2 ^ W : Nat) else (v : Int)

def immShow (k : Kind) (W v : Nat) : Int :=
  match k with
  | .SI => sext W v
  | .OF => sext W v * 4
  | _ => (v : Int)

/-! ## mixed-radix pack / unpack over a layout -/

/-- `vals` supplies the value of each segment in layout order -/
def packSegs : List Seg → List Nat → Nat
  | [], _ => 0
  | _ :: _, [] => 0
  | s :: r, v :: vs => v + 2 ^ s.width * packSegs r vs

def unpackSegs : List Seg → Nat → List Nat
  | [], _ => []
  | s :: r, x => x % 2 ^ s.width :: unpackSegs r (x / 2 ^ s.width)

/-- all-ones in the `fix` segments -/
def maskOf : List Seg → Nat
  | [] => 0
  | .fix w :: r => (2 ^ w - 1) + 2 ^ w * maskOf r
  | .fld w _ _ _ :: r => 2 ^ w * maskOf r

/-- the segment values of an opcode constant: its `fix` segments, operand segments must be zero -/
def fixedVals (L : List Seg) (value : Nat) : List Nat := unpackSegs L value

def opndZero : List Seg → List Nat → Bool
  | [], _ => true
  | _ :: _, [] => false
  | .fix _ :: r, _ :: vs => opndZero r vs
  | .fld _ _ _ _ :: r, v :: vs => v == 0 && opndZero r vs

/-- segment values for an instruction: fixed segments from the opcode constant, operand segments
from the operands (`none` if some operand is not encodable) -/
def segVals (W : Nat) (a : Ops) : List Seg → List Nat → Option (List Nat)
  | [], _ => some []
  | _ :: _, [] => none
  | .fix _ :: r, c :: cs => (segVals W a r cs).map (c :: ·)
  | .fld w slot k vlo :: r, _ :: cs =>
    let fv : Option Nat := if slot = .imm then immField k W a.imm else regField k w (a.reg slot)
    match fv, segVals W a r cs with
    | some t, some vs => some (t / 2 ^ vlo % 2 ^ w :: vs)
    | _, _ => none

/-- the operand shown in register slot `s`: the first field of the layout that carries it -/
def slotVal (s : Slot) : List Seg → List Nat → Nat
  | [], _ => 0
  | _ :: _, [] => 0
  | .fix _ :: r, _ :: vs => slotVal s r vs
  | .fld _ s' k _ :: r, v :: vs => if s' = s then regShow k v else slotVal s r vs

/-- the immediate's field value reassembled from its pieces -/
def immTotal : List Seg → List Nat → Nat
  | [], _ => 0
  | _ :: _, [] => 0
  | .fix _ :: r, _ :: vs => immTotal r vs
  | .fld _ s _ vlo :: r, v :: vs => if s = .imm then v * 2 ^ vlo + immTotal r vs else immTotal r vs

/-- reassemble operands from a word read under layout `L` -/
def decodeOps (L : List Seg) (w : Nat) : Ops :=
  let vs := unpackSegs L w
  { rd := slotVal .rd L vs, rs1 := slotVal .rs1 L vs, rs2 := slotVal .rs2 L vs, rs3 := slotVal .rs3 L vs,
    imm := match immKind L with
      | some k => immShow k (immWidth L) (immTotal L vs)
      | none => 0 }

/-! ## the ISA reference table (typed from the manual's appendix B; `value` = the 32-bit pattern with all
operand bits zero) -/

structure Isa where
  mn : Mn
  value : Nat
  mask : Nat     -- redundant: `la_isa_wf` proves it is `maskOf (layout fmt)` for every entry
  fmt : Fm
  deriving DecidableEq, Repr

open Mn Fm in
def isaTable : List Isa := [
  ⟨CLO_W, 0x00001000, 0xfffffc00, f2R⟩,
  ⟨CLZ_W, 0x00001400, 0xfffffc00, f2R⟩,
  ⟨CTO_W, 0x00001800, 0xfffffc00, f2R⟩,
  ⟨CTZ_W, 0x00001c00, 0xfffffc00, f2R⟩,
  ⟨CLO_D, 0x00002000, 0xfffffc00, f2R⟩,
  ⟨CLZ_D, 0x00002400, 0xfffffc00, f2R⟩,
  ⟨CTO_D, 0x00002800, 0xfffffc00, f2R⟩,
  ⟨CTZ_D, 0x00002c00, 0xfffffc00, f2R⟩,
  ⟨REVB_2H, 0x00003000, 0xfffffc00, f2R⟩,
  ⟨REVB_4H, 0x00003400, 0xfffffc00, f2R⟩,
  ⟨REVB_2W, 0x00003800, 0xfffffc00, f2R⟩,
  ⟨REVB_D, 0x00003c00, 0xfffffc00, f2R⟩,
  ⟨REVH_2W, 0x00004000, 0xfffffc00, f2R⟩,
  ⟨REVH_D, 0x00004400, 0xfffffc00, f2R⟩,
  ⟨BITREV_4B, 0x00004800, 0xfffffc00, f2R⟩,
  ⟨BITREV_8B, 0x00004c00, 0xfffffc00, f2R⟩,
  ⟨BITREV_W, 0x00005000, 0xfffffc00, f2R⟩,
  ⟨BITREV_D, 0x00005400, 0xfffffc00, f2R⟩,
  ⟨EXT_W_H, 0x00005800, 0xfffffc00, f2R⟩,
  ⟨EXT_W_B, 0x00005c00, 0xfffffc00, f2R⟩,
  ⟨RDTIMEL_W, 0x00006000, 0xfffffc00, f2R⟩,
  ⟨RDTIMEH_W, 0x00006400, 0xfffffc00, f2R⟩,
  ⟨RDTIME_D, 0x00006800, 0xfffffc00, f2R⟩,
  ⟨CPUCFG, 0x00006c00, 0xfffffc00, f2R⟩,
  ⟨ASRTLE_D, 0x00010000, 0xffff801f, f0_2R⟩,
  ⟨ASRTGT_D, 0x00018000, 0xffff801f, f0_2R⟩,
  ⟨ALSL_W, 0x00040000, 0xfffe0000, f3R_sa2⟩,
  ⟨ALSL_WU, 0x00060000, 0xfffe0000, f3R_sa2⟩,
  ⟨BYTEPICK_W, 0x00080000, 0xfffe0000, f3R_sa2⟩,
  ⟨BYTEPICK_D, 0x000c0000, 0xfffc0000, f3R_sa3⟩,
  ⟨ADD_W, 0x00100000, 0xffff8000, f3R⟩,
  ⟨ADD_D, 0x00108000, 0xffff8000, f3R⟩,
  ⟨SUB_W, 0x00110000, 0xffff8000, f3R⟩,
  ⟨SUB_D, 0x00118000, 0xffff8000, f3R⟩,
  ⟨SLT, 0x00120000, 0xffff8000, f3R⟩,
  ⟨SLTU, 0x00128000, 0xffff8000, f3R⟩,
  ⟨MASKEQZ, 0x00130000, 0xffff8000, f3R⟩,
  ⟨MASKNEZ, 0x00138000, 0xffff8000, f3R⟩,
  ⟨NOR, 0x00140000, 0xffff8000, f3R⟩,
  ⟨AND, 0x00148000, 0xffff8000, f3R⟩,
  ⟨OR, 0x00150000, 0xffff8000, f3R⟩,
  ⟨XOR, 0x00158000, 0xffff8000, f3R⟩,
  ⟨ORN, 0x00160000, 0xffff8000, f3R⟩,
  ⟨ANDN, 0x00168000, 0xffff8000, f3R⟩,
  ⟨SLL_W, 0x00170000, 0xffff8000, f3R⟩,
  ⟨SRL_W, 0x00178000, 0xffff8000, f3R⟩,
  ⟨SRA_W, 0x00180000, 0xffff8000, f3R⟩,
  ⟨SLL_D, 0x00188000, 0xffff8000, f3R⟩,
  ⟨SRL_D, 0x00190000, 0xffff8000, f3R⟩,
  ⟨SRA_D, 0x00198000, 0xffff8000, f3R⟩,
  ⟨ROTR_W, 0x001b0000, 0xffff8000, f3R⟩,
  ⟨ROTR_D, 0x001b8000, 0xffff8000, f3R⟩,
  ⟨MUL_W, 0x001c0000, 0xffff8000, f3R⟩,
  ⟨MULH_W, 0x001c8000, 0xffff8000, f3R⟩,
  ⟨MULH_WU, 0x001d0000, 0xffff8000, f3R⟩,
  ⟨MUL_D, 0x001d8000, 0xffff8000, f3R⟩,
  ⟨MULH_D, 0x001e0000, 0xffff8000, f3R⟩,
  ⟨MULH_DU, 0x001e8000, 0xffff8000, f3R⟩,
  ⟨MULW_D_W, 0x001f0000, 0xffff8000, f3R⟩,
  ⟨MULW_D_WU, 0x001f8000, 0xffff8000, f3R⟩,
  ⟨DIV_W, 0x00200000, 0xffff8000, f3R⟩,
  ⟨MOD_W, 0x00208000, 0xffff8000, f3R⟩,
  ⟨DIV_WU, 0x00210000, 0xffff8000, f3R⟩,
  ⟨MOD_WU, 0x00218000, 0xffff8000, f3R⟩,
  ⟨DIV_D, 0x00220000, 0xffff8000, f3R⟩,
  ⟨MOD_D, 0x00228000, 0xffff8000, f3R⟩,
  ⟨DIV_DU, 0x00230000, 0xffff8000, f3R⟩,
  ⟨MOD_DU, 0x00238000, 0xffff8000, f3R⟩,
  ⟨CRC_W_B_W, 0x00240000, 0xffff8000, f3R⟩,
  ⟨CRC_W_H_W, 0x00248000, 0xffff8000, f3R⟩,
  ⟨CRC_W_W_W, 0x00250000, 0xffff8000, f3R⟩,
  ⟨CRC_W_D_W, 0x00258000, 0xffff8000, f3R⟩,
  ⟨CRCC_W_B_W, 0x00260000, 0xffff8000, f3R⟩,
  ⟨CRCC_W_H_W, 0x00268000, 0xffff8000, f3R⟩,
  ⟨CRCC_W_W_W, 0x00270000, 0xffff8000, f3R⟩,
  ⟨CRCC_W_D_W, 0x00278000, 0xffff8000, f3R⟩,
  ⟨BREAK, 0x002a0000, 0xffff8000, fcode⟩,
  ⟨DBCL, 0x002a8000, 0xffff8000, fcode⟩,
  ⟨SYSCALL, 0x002b0000, 0xffff8000, fcode⟩,
  ⟨ALSL_D, 0x002c0000, 0xfffe0000, f3R_sa2⟩,
  ⟨SLLI_W, 0x00408000, 0xffff8000, f2R_ui5⟩,
  ⟨SLLI_D, 0x00410000, 0xffff0000, f2R_ui6⟩,
  ⟨SRLI_W, 0x00448000, 0xffff8000, f2R_ui5⟩,
  ⟨SRLI_D, 0x00450000, 0xffff0000, f2R_ui6⟩,
  ⟨SRAI_W, 0x00488000, 0xffff8000, f2R_ui5⟩,
  ⟨SRAI_D, 0x00490000, 0xffff0000, f2R_ui6⟩,
  ⟨ROTRI_W, 0x004c8000, 0xffff8000, f2R_ui5⟩,
  ⟨ROTRI_D, 0x004d0000, 0xffff0000, f2R_ui6⟩,
  ⟨BSTRINS_W, 0x00600000, 0xffe08000, f2R_msbw_lsbw⟩,
  ⟨BSTRPICK_W, 0x00608000, 0xffe08000, f2R_msbw_lsbw⟩,
  ⟨BSTRINS_D, 0x00800000, 0xffc00000, f2R_msbd_lsbd⟩,
  ⟨BSTRPICK_D, 0x00c00000, 0xffc00000, f2R_msbd_lsbd⟩,
  ⟨FADD_S, 0x01008000, 0xffff8000, f3F⟩,
  ⟨FADD_D, 0x01010000, 0xffff8000, f3F⟩,
  ⟨FSUB_S, 0x01028000, 0xffff8000, f3F⟩,
  ⟨FSUB_D, 0x01030000, 0xffff8000, f3F⟩,
  ⟨FMUL_S, 0x01048000, 0xffff8000, f3F⟩,
  ⟨FMUL_D, 0x01050000, 0xffff8000, f3F⟩,
  ⟨FDIV_S, 0x01068000, 0xffff8000, f3F⟩,
  ⟨FDIV_D, 0x01070000, 0xffff8000, f3F⟩,
  ⟨FMAX_S, 0x01088000, 0xffff8000, f3F⟩,
  ⟨FMAX_D, 0x01090000, 0xffff8000, f3F⟩,
  ⟨FMIN_S, 0x010a8000, 0xffff8000, f3F⟩,
  ⟨FMIN_D, 0x010b0000, 0xffff8000, f3F⟩,
  ⟨FMAXA_S, 0x010c8000, 0xffff8000, f3F⟩,
  ⟨FMAXA_D, 0x010d0000, 0xffff8000, f3F⟩,
  ⟨FMINA_S, 0x010e8000, 0xffff8000, f3F⟩,
  ⟨FMINA_D, 0x010f0000, 0xffff8000, f3F⟩,
  ⟨FSCALEB_S, 0x01108000, 0xffff8000, f3F⟩,
  ⟨FSCALEB_D, 0x01110000, 0xffff8000, f3F⟩,
  ⟨FCOPYSIGN_S, 0x01128000, 0xffff8000, f3F⟩,
  ⟨FCOPYSIGN_D, 0x01130000, 0xffff8000, f3F⟩,
  ⟨FABS_S, 0x01140400, 0xfffffc00, f2F⟩,
  ⟨FABS_D, 0x01140800, 0xfffffc00, f2F⟩,
  ⟨FNEG_S, 0x01141400, 0xfffffc00, f2F⟩,
  ⟨FNEG_D, 0x01141800, 0xfffffc00, f2F⟩,
  ⟨FLOGB_S, 0x01142400, 0xfffffc00, f2F⟩,
  ⟨FLOGB_D, 0x01142800, 0xfffffc00, f2F⟩,
  ⟨FCLASS_S, 0x01143400, 0xfffffc00, f2F⟩,
  ⟨FCLASS_D, 0x01143800, 0xfffffc00, f2F⟩,
  ⟨FSQRT_S, 0x01144400, 0xfffffc00, f2F⟩,
  ⟨FSQRT_D, 0x01144800, 0xfffffc00, f2F⟩,
  ⟨FRECIP_S, 0x01145400, 0xfffffc00, f2F⟩,
  ⟨FRECIP_D, 0x01145800, 0xfffffc00, f2F⟩,
  ⟨FRSQRT_S, 0x01146400, 0xfffffc00, f2F⟩,
  ⟨FRSQRT_D, 0x01146800, 0xfffffc00, f2F⟩,
  ⟨FRECIPE_S, 0x01147400, 0xfffffc00, f2F⟩,
  ⟨FRECIPE_D, 0x01147800, 0xfffffc00, f2F⟩,
  ⟨FRSQRTE_S, 0x01148400, 0xfffffc00, f2F⟩,
  ⟨FRSQRTE_D, 0x01148800, 0xfffffc00, f2F⟩,
  ⟨FMOV_S, 0x01149400, 0xfffffc00, f2F⟩,
  ⟨FMOV_D, 0x01149800, 0xfffffc00, f2F⟩,
  ⟨MOVGR2FR_W, 0x0114a400, 0xfffffc00, f1F_1R⟩,
  ⟨MOVGR2FR_D, 0x0114a800, 0xfffffc00, f1F_1R⟩,
  ⟨MOVGR2FRH_W, 0x0114ac00, 0xfffffc00, f1F_1R⟩,
  ⟨MOVFR2GR_S, 0x0114b400, 0xfffffc00, f1R_1F⟩,
  ⟨MOVFR2GR_D, 0x0114b800, 0xfffffc00, f1R_1F⟩,
  ⟨MOVFRH2GR_S, 0x0114bc00, 0xfffffc00, f1R_1F⟩,
  ⟨MOVGR2FCSR, 0x0114c000, 0xfffffc00, ffcsr_1R⟩,
  ⟨MOVFCSR2GR, 0x0114c800, 0xfffffc00, f1R_fcsr⟩,
  ⟨MOVFR2CF, 0x0114d000, 0xfffffc18, fcd_1F⟩,
  ⟨MOVCF2FR, 0x0114d400, 0xffffff00, f1F_cj⟩,
  ⟨MOVGR2CF, 0x0114d800, 0xfffffc18, fcd_1R⟩,
  ⟨MOVCF2GR, 0x0114dc00, 0xffffff00, f1R_cj⟩,
  ⟨FCVT_S_D, 0x01191800, 0xfffffc00, f2F⟩,
  ⟨FCVT_D_S, 0x01192400, 0xfffffc00, f2F⟩,
  ⟨FTINTRM_W_S, 0x011a0400, 0xfffffc00, f2F⟩,
  ⟨FTINTRM_W_D, 0x011a0800, 0xfffffc00, f2F⟩,
  ⟨FTINTRM_L_S, 0x011a2400, 0xfffffc00, f2F⟩,
  ⟨FTINTRM_L_D, 0x011a2800, 0xfffffc00, f2F⟩,
  ⟨FTINTRP_W_S, 0x011a4400, 0xfffffc00, f2F⟩,
  ⟨FTINTRP_W_D, 0x011a4800, 0xfffffc00, f2F⟩,
  ⟨FTINTRP_L_S, 0x011a6400, 0xfffffc00, f2F⟩,
  ⟨FTINTRP_L_D, 0x011a6800, 0xfffffc00, f2F⟩,
  ⟨FTINTRZ_W_S, 0x011a8400, 0xfffffc00, f2F⟩,
  ⟨FTINTRZ_W_D, 0x011a8800, 0xfffffc00, f2F⟩,
  ⟨FTINTRZ_L_S, 0x011aa400, 0xfffffc00, f2F⟩,
  ⟨FTINTRZ_L_D, 0x011aa800, 0xfffffc00, f2F⟩,
  ⟨FTINTRNE_W_S, 0x011ac400, 0xfffffc00, f2F⟩,
  ⟨FTINTRNE_W_D, 0x011ac800, 0xfffffc00, f2F⟩,
  ⟨FTINTRNE_L_S, 0x011ae400, 0xfffffc00, f2F⟩,
  ⟨FTINTRNE_L_D, 0x011ae800, 0xfffffc00, f2F⟩,
  ⟨FTINT_W_S, 0x011b0400, 0xfffffc00, f2F⟩,
  ⟨FTINT_W_D, 0x011b0800, 0xfffffc00, f2F⟩,
  ⟨FTINT_L_S, 0x011b2400, 0xfffffc00, f2F⟩,
  ⟨FTINT_L_D, 0x011b2800, 0xfffffc00, f2F⟩,
  ⟨FFINT_S_W, 0x011d1000, 0xfffffc00, f2F⟩,
  ⟨FFINT_S_L, 0x011d1800, 0xfffffc00, f2F⟩,
  ⟨FFINT_D_W, 0x011d2000, 0xfffffc00, f2F⟩,
  ⟨FFINT_D_L, 0x011d2800, 0xfffffc00, f2F⟩,
  ⟨FRINT_S, 0x011e4400, 0xfffffc00, f2F⟩,
  ⟨FRINT_D, 0x011e4800, 0xfffffc00, f2F⟩,
  ⟨SLTI, 0x02000000, 0xffc00000, f2R_si12⟩,
  ⟨SLTUI, 0x02400000, 0xffc00000, f2R_si12⟩,
  ⟨ADDI_W, 0x02800000, 0xffc00000, f2R_si12⟩,
  ⟨ADDI_D, 0x02c00000, 0xffc00000, f2R_si12⟩,
  ⟨LU52I_D, 0x03000000, 0xffc00000, f2R_si12⟩,
  ⟨ANDI, 0x03400000, 0xffc00000, f2R_ui12⟩,
  ⟨ORI, 0x03800000, 0xffc00000, f2R_ui12⟩,
  ⟨XORI, 0x03c00000, 0xffc00000, f2R_ui12⟩,
  ⟨CSRRD, 0x04000000, 0xff0003e0, f1R_csr⟩,
  ⟨CSRWR, 0x04000020, 0xff0003e0, f1R_csr⟩,
  ⟨CSRXCHG, 0x04000000, 0xff000000, f2R_csr⟩,
  ⟨CACOP, 0x06000000, 0xffc00000, fcode_1R_si12⟩,
  ⟨LDDIR, 0x06400000, 0xfffc0000, f2R_level⟩,
  ⟨LDPTE, 0x06440000, 0xfffc001f, f0_1R_seq⟩,
  ⟨IOCSRRD_B, 0x06480000, 0xfffffc00, f2R⟩,
  ⟨IOCSRRD_H, 0x06480400, 0xfffffc00, f2R⟩,
  ⟨IOCSRRD_W, 0x06480800, 0xfffffc00, f2R⟩,
  ⟨IOCSRRD_D, 0x06480c00, 0xfffffc00, f2R⟩,
  ⟨IOCSRWR_B, 0x06481000, 0xfffffc00, f2R⟩,
  ⟨IOCSRWR_H, 0x06481400, 0xfffffc00, f2R⟩,
  ⟨IOCSRWR_W, 0x06481800, 0xfffffc00, f2R⟩,
  ⟨IOCSRWR_D, 0x06481c00, 0xfffffc00, f2R⟩,
  ⟨TLBCLR, 0x06482000, 0xffffffff, fNULL⟩,
  ⟨TLBFLUSH, 0x06482400, 0xffffffff, fNULL⟩,
  ⟨TLBSRCH, 0x06482800, 0xffffffff, fNULL⟩,
  ⟨TLBRD, 0x06482c00, 0xffffffff, fNULL⟩,
  ⟨TLBWR, 0x06483000, 0xffffffff, fNULL⟩,
  ⟨TLBFILL, 0x06483400, 0xffffffff, fNULL⟩,
  ⟨ERTN, 0x06483800, 0xffffffff, fNULL⟩,
  ⟨IDLE, 0x06488000, 0xffff8000, flevel⟩,
  ⟨INVTLB, 0x06498000, 0xffff8000, fop_2R⟩,
  ⟨FMADD_S, 0x08100000, 0xfff00000, f4F⟩,
  ⟨FMADD_D, 0x08200000, 0xfff00000, f4F⟩,
  ⟨FMSUB_S, 0x08500000, 0xfff00000, f4F⟩,
  ⟨FMSUB_D, 0x08600000, 0xfff00000, f4F⟩,
  ⟨FNMADD_S, 0x08900000, 0xfff00000, f4F⟩,
  ⟨FNMADD_D, 0x08a00000, 0xfff00000, f4F⟩,
  ⟨FNMSUB_S, 0x08d00000, 0xfff00000, f4F⟩,
  ⟨FNMSUB_D, 0x08e00000, 0xfff00000, f4F⟩,
  ⟨FCMP_CAF_S, 0x0c100000, 0xffff8018, fcd_2F⟩,
  ⟨FCMP_CAF_D, 0x0c200000, 0xffff8018, fcd_2F⟩,
  ⟨FCMP_SAF_S, 0x0c108000, 0xffff8018, fcd_2F⟩,
  ⟨FCMP_SAF_D, 0x0c208000, 0xffff8018, fcd_2F⟩,
  ⟨FCMP_CLT_S, 0x0c110000, 0xffff8018, fcd_2F⟩,
  ⟨FCMP_CLT_D, 0x0c210000, 0xffff8018, fcd_2F⟩,
  ⟨FCMP_SLT_S, 0x0c118000, 0xffff8018, fcd_2F⟩,
  ⟨FCMP_SLT_D, 0x0c218000, 0xffff8018, fcd_2F⟩,
  ⟨FCMP_CEQ_S, 0x0c120000, 0xffff8018, fcd_2F⟩,
  ⟨FCMP_CEQ_D, 0x0c220000, 0xffff8018, fcd_2F⟩,
  ⟨FCMP_SEQ_S, 0x0c128000, 0xffff8018, fcd_2F⟩,
  ⟨FCMP_SEQ_D, 0x0c228000, 0xffff8018, fcd_2F⟩,
  ⟨FCMP_CLE_S, 0x0c130000, 0xffff8018, fcd_2F⟩,
  ⟨FCMP_CLE_D, 0x0c230000, 0xffff8018, fcd_2F⟩,
  ⟨FCMP_SLE_S, 0x0c138000, 0xffff8018, fcd_2F⟩,
  ⟨FCMP_SLE_D, 0x0c238000, 0xffff8018, fcd_2F⟩,
  ⟨FCMP_CUN_S, 0x0c140000, 0xffff8018, fcd_2F⟩,
  ⟨FCMP_CUN_D, 0x0c240000, 0xffff8018, fcd_2F⟩,
  ⟨FCMP_SUN_S, 0x0c148000, 0xffff8018, fcd_2F⟩,
  ⟨FCMP_SUN_D, 0x0c248000, 0xffff8018, fcd_2F⟩,
  ⟨FCMP_CULT_S, 0x0c150000, 0xffff8018, fcd_2F⟩,
  ⟨FCMP_CULT_D, 0x0c250000, 0xffff8018, fcd_2F⟩,
  ⟨FCMP_SULT_S, 0x0c158000, 0xffff8018, fcd_2F⟩,
  ⟨FCMP_SULT_D, 0x0c258000, 0xffff8018, fcd_2F⟩,
  ⟨FCMP_CUEQ_S, 0x0c160000, 0xffff8018, fcd_2F⟩,
  ⟨FCMP_CUEQ_D, 0x0c260000, 0xffff8018, fcd_2F⟩,
  ⟨FCMP_SUEQ_S, 0x0c168000, 0xffff8018, fcd_2F⟩,
  ⟨FCMP_SUEQ_D, 0x0c268000, 0xffff8018, fcd_2F⟩,
  ⟨FCMP_CULE_S, 0x0c170000, 0xffff8018, fcd_2F⟩,
  ⟨FCMP_CULE_D, 0x0c270000, 0xffff8018, fcd_2F⟩,
  ⟨FCMP_SULE_S, 0x0c178000, 0xffff8018, fcd_2F⟩,
  ⟨FCMP_SULE_D, 0x0c278000, 0xffff8018, fcd_2F⟩,
  ⟨FCMP_CNE_S, 0x0c180000, 0xffff8018, fcd_2F⟩,
  ⟨FCMP_CNE_D, 0x0c280000, 0xffff8018, fcd_2F⟩,
  ⟨FCMP_SNE_S, 0x0c188000, 0xffff8018, fcd_2F⟩,
  ⟨FCMP_SNE_D, 0x0c288000, 0xffff8018, fcd_2F⟩,
  ⟨FCMP_COR_S, 0x0c1a0000, 0xffff8018, fcd_2F⟩,
  ⟨FCMP_COR_D, 0x0c2a0000, 0xffff8018, fcd_2F⟩,
  ⟨FCMP_SOR_S, 0x0c1a8000, 0xffff8018, fcd_2F⟩,
  ⟨FCMP_SOR_D, 0x0c2a8000, 0xffff8018, fcd_2F⟩,
  ⟨FCMP_CUNE_S, 0x0c1c0000, 0xffff8018, fcd_2F⟩,
  ⟨FCMP_CUNE_D, 0x0c2c0000, 0xffff8018, fcd_2F⟩,
  ⟨FCMP_SUNE_S, 0x0c1c8000, 0xffff8018, fcd_2F⟩,
  ⟨FCMP_SUNE_D, 0x0c2c8000, 0xffff8018, fcd_2F⟩,
  ⟨FSEL, 0x0d000000, 0xfffc0000, f3F_ca⟩,
  ⟨ADDU16I_D, 0x10000000, 0xfc000000, f2R_si16⟩,
  ⟨LU12I_W, 0x14000000, 0xfe000000, f1R_si20⟩,
  ⟨LU32I_D, 0x16000000, 0xfe000000, f1R_si20⟩,
  ⟨PCADDI, 0x18000000, 0xfe000000, f1R_si20⟩,
  ⟨PCALAU12I, 0x1a000000, 0xfe000000, f1R_si20⟩,
  ⟨PCADDU12I, 0x1c000000, 0xfe000000, f1R_si20⟩,
  ⟨PCADDU18I, 0x1e000000, 0xfe000000, f1R_si20⟩,
  ⟨LL_W, 0x20000000, 0xff000000, f2R_si14⟩,
  ⟨SC_W, 0x21000000, 0xff000000, f2R_si14⟩,
  ⟨LL_D, 0x22000000, 0xff000000, f2R_si14⟩,
  ⟨SC_D, 0x23000000, 0xff000000, f2R_si14⟩,
  ⟨LDPTR_W, 0x24000000, 0xff000000, f2R_si14⟩,
  ⟨STPTR_W, 0x25000000, 0xff000000, f2R_si14⟩,
  ⟨LDPTR_D, 0x26000000, 0xff000000, f2R_si14⟩,
  ⟨STPTR_D, 0x27000000, 0xff000000, f2R_si14⟩,
  ⟨LD_B, 0x28000000, 0xffc00000, f2R_si12⟩,
  ⟨LD_H, 0x28400000, 0xffc00000, f2R_si12⟩,
  ⟨LD_W, 0x28800000, 0xffc00000, f2R_si12⟩,
  ⟨LD_D, 0x28c00000, 0xffc00000, f2R_si12⟩,
  ⟨ST_B, 0x29000000, 0xffc00000, f2R_si12⟩,
  ⟨ST_H, 0x29400000, 0xffc00000, f2R_si12⟩,
  ⟨ST_W, 0x29800000, 0xffc00000, f2R_si12⟩,
  ⟨ST_D, 0x29c00000, 0xffc00000, f2R_si12⟩,
  ⟨LD_BU, 0x2a000000, 0xffc00000, f2R_si12⟩,
  ⟨LD_HU, 0x2a400000, 0xffc00000, f2R_si12⟩,
  ⟨LD_WU, 0x2a800000, 0xffc00000, f2R_si12⟩,
  ⟨PRELD, 0x2ac00000, 0xffc00000, fhint_1R_si12⟩,
  ⟨FLD_S, 0x2b000000, 0xffc00000, f1F_1R_si12⟩,
  ⟨FST_S, 0x2b400000, 0xffc00000, f1F_1R_si12⟩,
  ⟨FLD_D, 0x2b800000, 0xffc00000, f1F_1R_si12⟩,
  ⟨FST_D, 0x2bc00000, 0xffc00000, f1F_1R_si12⟩,
  ⟨LDX_B, 0x38000000, 0xffff8000, f3R⟩,
  ⟨LDX_H, 0x38040000, 0xffff8000, f3R⟩,
  ⟨LDX_W, 0x38080000, 0xffff8000, f3R⟩,
  ⟨LDX_D, 0x380c0000, 0xffff8000, f3R⟩,
  ⟨STX_B, 0x38100000, 0xffff8000, f3R⟩,
  ⟨STX_H, 0x38140000, 0xffff8000, f3R⟩,
  ⟨STX_W, 0x38180000, 0xffff8000, f3R⟩,
  ⟨STX_D, 0x381c0000, 0xffff8000, f3R⟩,
  ⟨LDX_BU, 0x38200000, 0xffff8000, f3R⟩,
  ⟨LDX_HU, 0x38240000, 0xffff8000, f3R⟩,
  ⟨LDX_WU, 0x38280000, 0xffff8000, f3R⟩,
  ⟨PRELDX, 0x382c0000, 0xffff8000, fhint_2R⟩,
  ⟨FLDX_S, 0x38300000, 0xffff8000, f1F_2R⟩,
  ⟨FLDX_D, 0x38340000, 0xffff8000, f1F_2R⟩,
  ⟨FSTX_S, 0x38380000, 0xffff8000, f1F_2R⟩,
  ⟨FSTX_D, 0x383c0000, 0xffff8000, f1F_2R⟩,
  ⟨SC_Q, 0x38570000, 0xffff8000, f3R⟩,
  ⟨LLACQ_W, 0x38578000, 0xfffffc00, f2R⟩,
  ⟨SCREL_W, 0x38578400, 0xfffffc00, f2R⟩,
  ⟨LLACQ_D, 0x38578800, 0xfffffc00, f2R⟩,
  ⟨SCREL_D, 0x38578c00, 0xfffffc00, f2R⟩,
  ⟨AMCAS_B, 0x38580000, 0xffff8000, f3R⟩,
  ⟨AMCAS_H, 0x38588000, 0xffff8000, f3R⟩,
  ⟨AMCAS_W, 0x38590000, 0xffff8000, f3R⟩,
  ⟨AMCAS_D, 0x38598000, 0xffff8000, f3R⟩,
  ⟨AMCAS_DB_B, 0x385a0000, 0xffff8000, f3R⟩,
  ⟨AMCAS_DB_H, 0x385a8000, 0xffff8000, f3R⟩,
  ⟨AMCAS_DB_W, 0x385b0000, 0xffff8000, f3R⟩,
  ⟨AMCAS_DB_D, 0x385b8000, 0xffff8000, f3R⟩,
  ⟨AMSWAP_B, 0x385c0000, 0xffff8000, f3R⟩,
  ⟨AMSWAP_H, 0x385c8000, 0xffff8000, f3R⟩,
  ⟨AMADD_B, 0x385d0000, 0xffff8000, f3R⟩,
  ⟨AMADD_H, 0x385d8000, 0xffff8000, f3R⟩,
  ⟨AMSWAP_DB_B, 0x385e0000, 0xffff8000, f3R⟩,
  ⟨AMSWAP_DB_H, 0x385e8000, 0xffff8000, f3R⟩,
  ⟨AMADD_DB_B, 0x385f0000, 0xffff8000, f3R⟩,
  ⟨AMADD_DB_H, 0x385f8000, 0xffff8000, f3R⟩,
  ⟨AMSWAP_W, 0x38600000, 0xffff8000, f3R⟩,
  ⟨AMSWAP_D, 0x38608000, 0xffff8000, f3R⟩,
  ⟨AMADD_W, 0x38610000, 0xffff8000, f3R⟩,
  ⟨AMADD_D, 0x38618000, 0xffff8000, f3R⟩,
  ⟨AMAND_W, 0x38620000, 0xffff8000, f3R⟩,
  ⟨AMAND_D, 0x38628000, 0xffff8000, f3R⟩,
  ⟨AMOR_W, 0x38630000, 0xffff8000, f3R⟩,
  ⟨AMOR_D, 0x38638000, 0xffff8000, f3R⟩,
  ⟨AMXOR_W, 0x38640000, 0xffff8000, f3R⟩,
  ⟨AMXOR_D, 0x38648000, 0xffff8000, f3R⟩,
  ⟨AMMAX_W, 0x38650000, 0xffff8000, f3R⟩,
  ⟨AMMAX_D, 0x38658000, 0xffff8000, f3R⟩,
  ⟨AMMIN_W, 0x38660000, 0xffff8000, f3R⟩,
  ⟨AMMIN_D, 0x38668000, 0xffff8000, f3R⟩,
  ⟨AMMAX_WU, 0x38670000, 0xffff8000, f3R⟩,
  ⟨AMMAX_DU, 0x38678000, 0xffff8000, f3R⟩,
  ⟨AMMIN_WU, 0x38680000, 0xffff8000, f3R⟩,
  ⟨AMMIN_DU, 0x38688000, 0xffff8000, f3R⟩,
  ⟨AMSWAP_DB_W, 0x38690000, 0xffff8000, f3R⟩,
  ⟨AMSWAP_DB_D, 0x38698000, 0xffff8000, f3R⟩,
  ⟨AMADD_DB_W, 0x386a0000, 0xffff8000, f3R⟩,
  ⟨AMADD_DB_D, 0x386a8000, 0xffff8000, f3R⟩,
  ⟨AMAND_DB_W, 0x386b0000, 0xffff8000, f3R⟩,
  ⟨AMAND_DB_D, 0x386b8000, 0xffff8000, f3R⟩,
  ⟨AMOR_DB_W, 0x386c0000, 0xffff8000, f3R⟩,
  ⟨AMOR_DB_D, 0x386c8000, 0xffff8000, f3R⟩,
  ⟨AMXOR_DB_W, 0x386d0000, 0xffff8000, f3R⟩,
  ⟨AMXOR_DB_D, 0x386d8000, 0xffff8000, f3R⟩,
  ⟨AMMAX_DB_W, 0x386e0000, 0xffff8000, f3R⟩,
  ⟨AMMAX_DB_D, 0x386e8000, 0xffff8000, f3R⟩,
  ⟨AMMIN_DB_W, 0x386f0000, 0xffff8000, f3R⟩,
  ⟨AMMIN_DB_D, 0x386f8000, 0xffff8000, f3R⟩,
  ⟨AMMAX_DB_WU, 0x38700000, 0xffff8000, f3R⟩,
  ⟨AMMAX_DB_DU, 0x38708000, 0xffff8000, f3R⟩,
  ⟨AMMIN_DB_WU, 0x38710000, 0xffff8000, f3R⟩,
  ⟨AMMIN_DB_DU, 0x38718000, 0xffff8000, f3R⟩,
  ⟨DBAR, 0x38720000, 0xffff8000, fhint⟩,
  ⟨IBAR, 0x38728000, 0xffff8000, fhint⟩,
  ⟨FLDGT_S, 0x38740000, 0xffff8000, f1F_2R⟩,
  ⟨FLDGT_D, 0x38748000, 0xffff8000, f1F_2R⟩,
  ⟨FLDLE_S, 0x38750000, 0xffff8000, f1F_2R⟩,
  ⟨FLDLE_D, 0x38758000, 0xffff8000, f1F_2R⟩,
  ⟨FSTGT_S, 0x38760000, 0xffff8000, f1F_2R⟩,
  ⟨FSTGT_D, 0x38768000, 0xffff8000, f1F_2R⟩,
  ⟨FSTLE_S, 0x38770000, 0xffff8000, f1F_2R⟩,
  ⟨FSTLE_D, 0x38778000, 0xffff8000, f1F_2R⟩,
  ⟨LDGT_B, 0x38780000, 0xffff8000, f3R⟩,
  ⟨LDGT_H, 0x38788000, 0xffff8000, f3R⟩,
  ⟨LDGT_W, 0x38790000, 0xffff8000, f3R⟩,
  ⟨LDGT_D, 0x38798000, 0xffff8000, f3R⟩,
  ⟨LDLE_B, 0x387a0000, 0xffff8000, f3R⟩,
  ⟨LDLE_H, 0x387a8000, 0xffff8000, f3R⟩,
  ⟨LDLE_W, 0x387b0000, 0xffff8000, f3R⟩,
  ⟨LDLE_D, 0x387b8000, 0xffff8000, f3R⟩,
  ⟨STGT_B, 0x387c0000, 0xffff8000, f3R⟩,
  ⟨STGT_H, 0x387c8000, 0xffff8000, f3R⟩,
  ⟨STGT_W, 0x387d0000, 0xffff8000, f3R⟩,
  ⟨STGT_D, 0x387d8000, 0xffff8000, f3R⟩,
  ⟨STLE_B, 0x387e0000, 0xffff8000, f3R⟩,
  ⟨STLE_H, 0x387e8000, 0xffff8000, f3R⟩,
  ⟨STLE_W, 0x387f0000, 0xffff8000, f3R⟩,
  ⟨STLE_D, 0x387f8000, 0xffff8000, f3R⟩,
  ⟨BEQZ, 0x40000000, 0xfc000000, frj_offset⟩,
  ⟨BNEZ, 0x44000000, 0xfc000000, frj_offset⟩,
  ⟨BCEQZ, 0x48000000, 0xfc000300, fcj_offset⟩,
  ⟨BCNEZ, 0x48000100, 0xfc000300, fcj_offset⟩,
  ⟨JIRL, 0x4c000000, 0xfc000000, frd_rj_offset⟩,
  ⟨B, 0x50000000, 0xfc000000, foffset⟩,
  ⟨BL, 0x54000000, 0xfc000000, foffset⟩,
  ⟨BEQ, 0x58000000, 0xfc000000, frj_rd_offset⟩,
  ⟨BNE, 0x5c000000, 0xfc000000, frj_rd_offset⟩,
  ⟨BLT, 0x60000000, 0xfc000000, frj_rd_offset⟩,
  ⟨BGE, 0x64000000, 0xfc000000, frj_rd_offset⟩,
  ⟨BLTU, 0x68000000, 0xfc000000, frj_rd_offset⟩,
  ⟨BGEU, 0x6c000000, 0xfc000000, frj_rd_offset⟩
]

def isaLookup (mn : Mn) : Option Isa := isaTable.find? (fun e => e.mn == mn)

/-- CSRXCHG shares its opcode with CSRRD (rj = 0) and CSRWR (rj = 1): it is the instruction only for rj ≥ 2 -/
def Isa.rjGe2 (e : Isa) : Bool := e.fmt == .f2R_csr

/-- reference entry well-formed: a 32-bit value with no bit inside an operand field -/
def Isa.wf (e : Isa) : Bool :=
  decide (e.value < 4294967296) && (e.value &&& e.mask == e.value) && (e.mask == maskOf (layout e.fmt))

def Isa.matchesW (e : Isa) (w : Nat) : Bool :=
  decide (w < 4294967296) && (w &&& e.mask == e.value) && (!e.rjGe2 || decide (2 ≤ w / 32 % 32))

def specDecode (w : Nat) : Option (Mn × Ops) :=
  (isaTable.find? (fun e => e.matchesW w)).map (fun e => (e.mn, decodeOps (layout e.fmt) w))

/-- syntactic criterion: two entries can never match the same word (`Props.C17.la_disjoint_sound`) -/
def Isa.disjoint (a b : Isa) : Bool :=
  (a.value &&& b.mask != b.value &&& a.mask) ||
  -- CSRXCHG (rj ≥ 2) against an entry that fixes the rj field to 0 or 1
  (a.rjGe2 && (b.mask &&& 992 == 992) && decide (b.value / 32 % 32 < 2)) ||
  (b.rjGe2 && (a.mask &&& 992 == 992) && decide (a.value / 32 % 32 < 2))

def pairwiseDisjoint : List Isa → Bool
  | [] => true
  | a :: t => t.all (fun b => a.disjoint b) && pairwiseDisjoint t

/-! ## rows of the repo's table and the encoder model -/

/-- one row of `_AOpContextTable` (regenerated); `selfOp`: the row's `op` field names the row itself -/
structure Row where
  mn : Mn
  mask : Nat
  value : Nat
  fmt : Fm
  selfOp : Bool
  deriving DecidableEq, Repr

def rowIsa (r : Row) (e : Isa) : Bool :=
  r.mn == e.mn && r.value == e.value && r.fmt == e.fmt && r.mask == e.mask && r.selfOp

def rowMatchesIsa (r : Row) : Bool :=
  match isaLookup r.mn with
  | some e => rowIsa r e
  | none => false

/-- linear comparison of the (enum-ordered) regenerated table with the reference: every row outside `bad`
meets the reference entry of its mnemonic; reference entries the repo lacks are skipped -/
def mergeOK (bad : List Mn) : List Isa → List Row → Bool
  | [], rows => rows.isEmpty
  | e :: es, rows =>
    match rows with
    | [] => true
    | r :: rs => if r.mn == e.mn then (bad.contains r.mn || rowIsa r e) && mergeOK bad es rs else mergeOK bad es (r :: rs)

def slotUsed (s : Slot) : List Seg → Bool
  | [] => false
  | .fld _ s' _ _ :: r => s' == s || slotUsed s r
  | _ :: r => slotUsed s r

/-- operands in slots the format does not have must be absent -/
def unusedAbsent (L : List Seg) (a : Ops) : Bool :=
  (slotUsed .rd L || a.rd == 0) && (slotUsed .rs1 L || a.rs1 == 0) && (slotUsed .rs2 L || a.rs2 == 0) &&
  (slotUsed .rs3 L || a.rs3 == 0) && (slotUsed .imm L || a.imm == 0)

inductive Res
  | ok (w : Nat)
  | rej
  deriving DecidableEq, Repr

/-- Encoder model: opcode bits `mask &&& value` of the row, operand fields per the layout of the row's
format, operands validated against the ISA's field widths.  This is the encoder as the ISA requires it;
where the real `EncodeLA64` differs the check's oracle decides. -/
def encode (r : Row) (a : Ops) : Res :=
  let L := layout r.fmt
  if !unusedAbsent L a then .rej
  else if r.fmt == .f2R_csr && (a.rs1 == 1 || a.rs1 == 2) then .rej
  else match segVals (immWidth L) a L (unpackSegs L (r.mask &&& r.value)) with
    | some vs => .ok (packSegs L vs)
    | none => .rej

end WaVerif.C17.La
