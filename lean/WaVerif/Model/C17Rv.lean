/-!
# C17 — RISC-V: instruction formats, ISA reference table, specification decoder, encoder model

Core Lean only.  Machine words are naturals `< 2^32`.

* `pack*` mirror the bit operations of `internal/native/riscv/encode.go` (`|||`, `<<<`, `>>>`, `&&&`
  on `uint32`, i.e. on naturals reduced mod 2^32);
* `unpack` / `specDecode` are written from the RISC-V unprivileged ISA manual (field positions of
  the R/R4/I/S/B/U/J formats, chapter "RV32/64G Instruction Set Listings") with `/` and `%`;
* `isaTable` is the hand-written reference: opcode / funct3 / funct7 / fixed rs2 per mnemonic;
* `Row` is one row of the repo's `_AOpContextTable`; the table itself is REGENERATED into
  `WaVerif/Gen/C17Riscv.lean` on every run.
-/
namespace WaVerif.C17.Rv

/-! ## formats and operand classes -/

inductive Fmt | R | R4 | I | S | B | U | J
  deriving DecidableEq, Repr

/-- register class of an operand slot: none / integer `x` / floating point `f` -/
inductive RC | N | X | F
  deriving DecidableEq, Repr

/-- RV32I, RV64I, Zicsr, M, F, D (the extensions the repo's table draws from). -/
inductive Mn
  | LUI | AUIPC | JAL | JALR | BEQ | BNE | BLT | BGE | BLTU | BGEU
  | LB | LH | LW | LBU | LHU | SB | SH | SW
  | ADDI | SLTI | SLTIU | XORI | ORI | ANDI | SLLI | SRLI | SRAI
  | ADD | SUB | SLL | SLT | SLTU | XOR | SRL | SRA | OR | AND
  | FENCE | ECALL | EBREAK
  | LWU | LD | SD | ADDIW | SLLIW | SRLIW | SRAIW | ADDW | SUBW | SLLW | SRLW | SRAW
  | CSRRW | CSRRS | CSRRC | CSRRWI | CSRRSI | CSRRCI
  | MUL | MULH | MULHSU | MULHU | DIV | DIVU | REM | REMU
  | MULW | DIVW | DIVUW | REMW | REMUW
  | FLW | FSW | FMADD_S | FMSUB_S | FNMSUB_S | FNMADD_S
  | FADD_S | FSUB_S | FMUL_S | FDIV_S | FSQRT_S | FSGNJ_S | FSGNJN_S | FSGNJX_S | FMIN_S | FMAX_S
  | FCVT_W_S | FCVT_WU_S | FMV_X_W | FEQ_S | FLT_S | FLE_S | FCLASS_S | FCVT_S_W | FCVT_S_WU | FMV_W_X
  | FCVT_L_S | FCVT_LU_S | FCVT_S_L | FCVT_S_LU
  | FLD | FSD | FMADD_D | FMSUB_D | FNMSUB_D | FNMADD_D
  | FADD_D | FSUB_D | FMUL_D | FDIV_D | FSQRT_D | FSGNJ_D | FSGNJN_D | FSGNJX_D | FMIN_D | FMAX_D
  | FCVT_S_D | FCVT_D_S | FEQ_D | FLT_D | FLE_D | FCLASS_D | FCVT_W_D | FCVT_WU_D | FCVT_D_W | FCVT_D_WU
  | FCVT_L_D | FCVT_LU_D | FMV_X_D | FCVT_D_L | FCVT_D_LU | FMV_D_X
  deriving DecidableEq, Repr

/-! ## operands

Registers use the numbering of `abi.RegType` in package riscv: 0 = absent, `x_n ↦ n+1`,
`f_n ↦ n+33`.  `rm` is the rounding-mode field of FP instructions (not expressible in
`abi.AsArgument`; compared separately). -/

structure Ops where
  rd : Nat
  rs1 : Nat
  rs2 : Nat
  rs3 : Nat
  imm : Int
  rm : Nat := 0
  deriving DecidableEq, Repr

def regOf : RC → Nat → Nat
  | .N, _ => 0
  | .X, n => n + 1
  | .F, n => n + 33

/-- field value of a register operand of the expected class, `none` if absent / wrong class -/
def fieldOf : RC → Nat → Option Nat
  | .N, r => if r = 0 then some 0 else none
  | .X, r => if 1 ≤ r ∧ r ≤ 32 then some (r - 1) else none
  | .F, r => if 33 ≤ r ∧ r ≤ 64 then some (r - 33) else none

/-! ## pack: the encoder's bit operations (mirrors encode.go) -/

def W32 : Nat := 4294967296
def toU32 (i : Int) : Nat := (i % 4294967296).toNat

def packR (opc f3 f7 rd rs1 rs2 : Nat) : Nat :=
  (f7 <<< 25 ||| rs2 <<< 20 ||| rs1 <<< 15 ||| f3 <<< 12 ||| rd <<< 7 ||| opc) % W32

def packR4 (opc f3 f2 rd rs1 rs2 rs3 : Nat) : Nat :=
  (rs3 <<< 27 ||| f2 <<< 25 ||| rs2 <<< 20 ||| rs1 <<< 15 ||| f3 <<< 12 ||| rd <<< 7 ||| opc) % W32

def packI (opc f3 rd rs1 : Nat) (imm : Nat) : Nat :=
  (imm <<< 20 ||| rs1 <<< 15 ||| f3 <<< 12 ||| rd <<< 7 ||| opc) % W32

def packS (opc f3 rs1 rs2 : Nat) (imm : Nat) : Nat :=
  ((imm >>> 5) <<< 25 ||| rs2 <<< 20 ||| rs1 <<< 15 ||| f3 <<< 12 ||| (imm &&& 31) <<< 7 ||| opc) % W32

def packBImm (imm : Nat) : Nat :=
  ((imm >>> 12) <<< 31 ||| ((imm >>> 5) &&& 63) <<< 25 ||| ((imm >>> 1) &&& 15) <<< 8 ||| ((imm >>> 11) &&& 1) <<< 7) % W32

def packB (opc f3 rs1 rs2 : Nat) (imm : Nat) : Nat :=
  (packBImm imm ||| rs2 <<< 20 ||| rs1 <<< 15 ||| f3 <<< 12 ||| opc) % W32

def packU (opc rd : Nat) (imm : Nat) : Nat :=
  (imm <<< 12 ||| rd <<< 7 ||| opc) % W32

def packJImm (imm : Nat) : Nat :=
  ((imm >>> 20) <<< 31 ||| ((imm >>> 1) &&& 1023) <<< 21 ||| ((imm >>> 11) &&& 1) <<< 20 ||| ((imm >>> 12) &&& 255) <<< 12) % W32

def packJ (opc rd : Nat) (imm : Nat) : Nat :=
  (packJImm imm ||| rd <<< 7 ||| opc) % W32

/-- all fields of an instruction word, format-independent container -/
structure Fields where
  opc : Nat
  f3 : Nat := 0
  f7 : Nat := 0      -- funct7 (R) or funct2 (R4)
  rd : Nat := 0
  rs1 : Nat := 0
  rs2 : Nat := 0
  rs3 : Nat := 0
  imm : Int := 0
  deriving DecidableEq, Repr

def pack : Fmt → Fields → Nat
  | .R, f => packR f.opc f.f3 f.f7 f.rd f.rs1 f.rs2
  | .R4, f => packR4 f.opc f.f3 f.f7 f.rd f.rs1 f.rs2 f.rs3
  | .I, f => packI f.opc f.f3 f.rd f.rs1 (toU32 f.imm)
  | .S, f => packS f.opc f.f3 f.rs1 f.rs2 (toU32 f.imm)
  | .B, f => packB f.opc f.f3 f.rs1 f.rs2 (toU32 f.imm)
  | .U, f => packU f.opc f.rd (toU32 f.imm)
  | .J, f => packJ f.opc f.rd (toU32 f.imm)

/-! ## unpack: field positions from the ISA manual -/

def sext (bits : Nat) (v : Nat) : Int :=
  if v ≥ 2 ^ (bits - 1) then (v : Int) - (2 ^ bits : Nat) else (v : Int)

def fOpc (w : Nat) : Nat := w % 128
def fRd (w : Nat) : Nat := w / 128 % 32
def fF3 (w : Nat) : Nat := w / 4096 % 8
def fRs1 (w : Nat) : Nat := w / 32768 % 32
def fRs2 (w : Nat) : Nat := w / 1048576 % 32
def fF7 (w : Nat) : Nat := w / 33554432 % 128
def fF2 (w : Nat) : Nat := w / 33554432 % 4
def fRs3 (w : Nat) : Nat := w / 134217728 % 32
def immI (w : Nat) : Int := sext 12 (w / 1048576 % 4096)
def immS (w : Nat) : Int := sext 12 ((w / 33554432 % 128) * 32 + w / 128 % 32)
def immB (w : Nat) : Int :=
  sext 13 ((w / 2147483648 % 2) * 4096 + (w / 128 % 2) * 2048 + (w / 33554432 % 64) * 32 + (w / 256 % 16) * 2)
def immU (w : Nat) : Int := ((w / 4096 % 1048576 : Nat) : Int)
def immJ (w : Nat) : Int :=
  sext 21 ((w / 2147483648 % 2) * 1048576 + (w / 4096 % 256) * 4096 + (w / 1048576 % 2) * 2048 + (w / 2097152 % 1024) * 2)

def unpack : Fmt → Nat → Fields
  | .R, w => { opc := fOpc w, f3 := fF3 w, f7 := fF7 w, rd := fRd w, rs1 := fRs1 w, rs2 := fRs2 w }
  | .R4, w => { opc := fOpc w, f3 := fF3 w, f7 := fF2 w, rd := fRd w, rs1 := fRs1 w, rs2 := fRs2 w, rs3 := fRs3 w }
  | .I, w => { opc := fOpc w, f3 := fF3 w, rd := fRd w, rs1 := fRs1 w, imm := immI w }
  | .S, w => { opc := fOpc w, f3 := fF3 w, rs1 := fRs1 w, rs2 := fRs2 w, imm := immS w }
  | .B, w => { opc := fOpc w, f3 := fF3 w, rs1 := fRs1 w, rs2 := fRs2 w, imm := immB w }
  | .U, w => { opc := fOpc w, rd := fRd w, imm := immU w }
  | .J, w => { opc := fOpc w, rd := fRd w, imm := immJ w }

/-- the fields a format carries are within their widths (registers 5 bits, funct3 3 bits,
funct7 7 bits / funct2 2 bits, immediates in the signed range of the format with the alignment
the format cannot represent otherwise; U carries an unsigned 20-bit value) -/
def InRange : Fmt → Fields → Prop
  | .R, f => f.opc < 128 ∧ f.f3 < 8 ∧ f.f7 < 128 ∧ f.rd < 32 ∧ f.rs1 < 32 ∧ f.rs2 < 32 ∧ f.rs3 = 0 ∧ f.imm = 0
  | .R4, f => f.opc < 128 ∧ f.f3 < 8 ∧ f.f7 < 4 ∧ f.rd < 32 ∧ f.rs1 < 32 ∧ f.rs2 < 32 ∧ f.rs3 < 32 ∧ f.imm = 0
  | .I, f => f.opc < 128 ∧ f.f3 < 8 ∧ f.f7 = 0 ∧ f.rd < 32 ∧ f.rs1 < 32 ∧ f.rs2 = 0 ∧ f.rs3 = 0 ∧ -2048 ≤ f.imm ∧ f.imm ≤ 2047
  | .S, f => f.opc < 128 ∧ f.f3 < 8 ∧ f.f7 = 0 ∧ f.rd = 0 ∧ f.rs1 < 32 ∧ f.rs2 < 32 ∧ f.rs3 = 0 ∧ -2048 ≤ f.imm ∧ f.imm ≤ 2047
  | .B, f => f.opc < 128 ∧ f.f3 < 8 ∧ f.f7 = 0 ∧ f.rd = 0 ∧ f.rs1 < 32 ∧ f.rs2 < 32 ∧ f.rs3 = 0 ∧ -4096 ≤ f.imm ∧ f.imm ≤ 4094 ∧ f.imm % 2 = 0
  | .U, f => f.opc < 128 ∧ f.f3 = 0 ∧ f.f7 = 0 ∧ f.rd < 32 ∧ f.rs1 = 0 ∧ f.rs2 = 0 ∧ f.rs3 = 0 ∧ 0 ≤ f.imm ∧ f.imm ≤ 1048575
  | .J, f => f.opc < 128 ∧ f.f3 = 0 ∧ f.f7 = 0 ∧ f.rd < 32 ∧ f.rs1 = 0 ∧ f.rs2 = 0 ∧ f.rs3 = 0 ∧ -1048576 ≤ f.imm ∧ f.imm ≤ 1048574 ∧ f.imm % 2 = 0

instance (fmt : Fmt) (f : Fields) : Decidable (InRange fmt f) := by
  cases fmt <;> unfold InRange <;> infer_instance

/-! ## the ISA reference table (hand-written from the manual) -/

structure Isa where
  mn : Mn
  fmt : Fmt
  opcode : Nat
  f3 : Option Nat := none      -- `none`: funct3 is the rounding-mode operand (FP) or absent (U/J)
  f7 : Option Nat := none      -- R: funct7;  R4: funct2;  I-type shifts: funct7 (bit 25 is shamt[5] on RV64)
  rs2f : Option Nat := none    -- fixed rs2 field (FSQRT, FCVT, FMV, FCLASS)
  immf : Option Nat := none    -- fixed imm[11:0] with rd = rs1 = 0 (ECALL, EBREAK)
  sh : Nat := 0                -- 0: no shamt; 5: 5-bit shamt (RV64 *W shifts); 6: XLEN-dependent shamt
  rd : RC := .N
  rs1 : RC := .N
  rs2 : RC := .N
  rs3 : RC := .N
  rv64 : Bool := false
  deriving DecidableEq, Repr

namespace Opc
def LOAD := 0x03
def LOAD_FP := 0x07
def MISC_MEM := 0x0f
def OP_IMM := 0x13
def AUIPC := 0x17
def OP_IMM_32 := 0x1b
def STORE := 0x23
def STORE_FP := 0x27
def OP := 0x33
def LUI := 0x37
def OP_32 := 0x3b
def MADD := 0x43
def MSUB := 0x47
def NMSUB := 0x4b
def NMADD := 0x4f
def OP_FP := 0x53
def BRANCH := 0x63
def JALR := 0x67
def JAL := 0x6f
def SYSTEM := 0x73
end Opc

/-- `op rd, rs1, rs2` on integer registers -/
def iR (mn : Mn) (opc f3 f7 : Nat) (rv64 := false) : Isa :=
  { mn, fmt := .R, opcode := opc, f3 := some f3, f7 := some f7, rd := .X, rs1 := .X, rs2 := .X, rv64 }
def iI (mn : Mn) (opc f3 : Nat) (rv64 := false) (rd := RC.X) : Isa :=
  { mn, fmt := .I, opcode := opc, f3 := some f3, rd, rs1 := .X, rv64 }
def iSh (mn : Mn) (opc f3 f7 sh : Nat) (rv64 := false) : Isa :=
  { mn, fmt := .I, opcode := opc, f3 := some f3, f7 := some f7, sh, rd := .X, rs1 := .X, rv64 }
def iS (mn : Mn) (opc f3 : Nat) (rv64 := false) (rs2 := RC.X) : Isa :=
  { mn, fmt := .S, opcode := opc, f3 := some f3, rs1 := .X, rs2, rv64 }
def iB (mn : Mn) (f3 : Nat) : Isa :=
  { mn, fmt := .B, opcode := Opc.BRANCH, f3 := some f3, rs1 := .X, rs2 := .X }
/-- FP `op fd, fs1, fs2` with rounding mode -/
def iFrm (mn : Mn) (f7 : Nat) : Isa :=
  { mn, fmt := .R, opcode := Opc.OP_FP, f7 := some f7, rd := .F, rs1 := .F, rs2 := .F }
/-- FP `op fd, fs1, fs2` with fixed funct3 -/
def iF3 (mn : Mn) (f7 f3 : Nat) (rd := RC.F) : Isa :=
  { mn, fmt := .R, opcode := Opc.OP_FP, f3 := some f3, f7 := some f7, rd, rs1 := .F, rs2 := .F }
/-- FP unary with fixed rs2 field and rounding mode -/
def iFu (mn : Mn) (f7 rs2 : Nat) (rd rs1 : RC) (rv64 := false) : Isa :=
  { mn, fmt := .R, opcode := Opc.OP_FP, f7 := some f7, rs2f := some rs2, rd, rs1, rv64 }
/-- FP unary with fixed rs2 field and fixed funct3 -/
def iFu3 (mn : Mn) (f7 rs2 f3 : Nat) (rd rs1 : RC) (rv64 := false) : Isa :=
  { mn, fmt := .R, opcode := Opc.OP_FP, f3 := some f3, f7 := some f7, rs2f := some rs2, rd, rs1, rv64 }
def iR4 (mn : Mn) (opc f2 : Nat) : Isa :=
  { mn, fmt := .R4, opcode := opc, f7 := some f2, rd := .F, rs1 := .F, rs2 := .F, rs3 := .F }

open Mn in
def isaTable : List Isa := [
  -- RV32I
  { mn := LUI, fmt := .U, opcode := Opc.LUI, rd := .X },
  { mn := AUIPC, fmt := .U, opcode := Opc.AUIPC, rd := .X },
  { mn := JAL, fmt := .J, opcode := Opc.JAL, rd := .X },
  iI JALR Opc.JALR 0,
  iB BEQ 0, iB BNE 1, iB BLT 4, iB BGE 5, iB BLTU 6, iB BGEU 7,
  iI LB Opc.LOAD 0, iI LH Opc.LOAD 1, iI LW Opc.LOAD 2, iI LBU Opc.LOAD 4, iI LHU Opc.LOAD 5,
  iS SB Opc.STORE 0, iS SH Opc.STORE 1, iS SW Opc.STORE 2,
  iI ADDI Opc.OP_IMM 0, iI SLTI Opc.OP_IMM 2, iI SLTIU Opc.OP_IMM 3,
  iI XORI Opc.OP_IMM 4, iI ORI Opc.OP_IMM 6, iI ANDI Opc.OP_IMM 7,
  iSh SLLI Opc.OP_IMM 1 0x00 6, iSh SRLI Opc.OP_IMM 5 0x00 6, iSh SRAI Opc.OP_IMM 5 0x20 6,
  iR ADD Opc.OP 0 0x00, iR SUB Opc.OP 0 0x20, iR SLL Opc.OP 1 0x00, iR SLT Opc.OP 2 0x00,
  iR SLTU Opc.OP 3 0x00, iR XOR Opc.OP 4 0x00, iR SRL Opc.OP 5 0x00, iR SRA Opc.OP 5 0x20,
  iR OR Opc.OP 6 0x00, iR AND Opc.OP 7 0x00,
  iI FENCE Opc.MISC_MEM 0,
  { mn := ECALL, fmt := .I, opcode := Opc.SYSTEM, f3 := some 0, immf := some 0 },
  { mn := EBREAK, fmt := .I, opcode := Opc.SYSTEM, f3 := some 0, immf := some 1 },
  -- RV64I
  iI LWU Opc.LOAD 6 true, iI LD Opc.LOAD 3 true, iS SD Opc.STORE 3 true,
  iI ADDIW Opc.OP_IMM_32 0 true,
  iSh SLLIW Opc.OP_IMM_32 1 0x00 5 true, iSh SRLIW Opc.OP_IMM_32 5 0x00 5 true, iSh SRAIW Opc.OP_IMM_32 5 0x20 5 true,
  iR ADDW Opc.OP_32 0 0x00 true, iR SUBW Opc.OP_32 0 0x20 true, iR SLLW Opc.OP_32 1 0x00 true,
  iR SRLW Opc.OP_32 5 0x00 true, iR SRAW Opc.OP_32 5 0x20 true,
  -- Zicsr  (rs1 of the *I forms is the 5-bit uimm; shown in the rs1 slot)
  iI CSRRW Opc.SYSTEM 1, iI CSRRS Opc.SYSTEM 2, iI CSRRC Opc.SYSTEM 3,
  iI CSRRWI Opc.SYSTEM 5, iI CSRRSI Opc.SYSTEM 6, iI CSRRCI Opc.SYSTEM 7,
  -- RV32M / RV64M
  iR MUL Opc.OP 0 0x01, iR MULH Opc.OP 1 0x01, iR MULHSU Opc.OP 2 0x01, iR MULHU Opc.OP 3 0x01,
  iR DIV Opc.OP 4 0x01, iR DIVU Opc.OP 5 0x01, iR REM Opc.OP 6 0x01, iR REMU Opc.OP 7 0x01,
  iR MULW Opc.OP_32 0 0x01 true, iR DIVW Opc.OP_32 4 0x01 true, iR DIVUW Opc.OP_32 5 0x01 true,
  iR REMW Opc.OP_32 6 0x01 true, iR REMUW Opc.OP_32 7 0x01 true,
  -- RV32F
  iI FLW Opc.LOAD_FP 2 false .F, iS FSW Opc.STORE_FP 2 false .F,
  iR4 FMADD_S Opc.MADD 0, iR4 FMSUB_S Opc.MSUB 0, iR4 FNMSUB_S Opc.NMSUB 0, iR4 FNMADD_S Opc.NMADD 0,
  iFrm FADD_S 0x00, iFrm FSUB_S 0x04, iFrm FMUL_S 0x08, iFrm FDIV_S 0x0c,
  iFu FSQRT_S 0x2c 0 .F .F,
  iF3 FSGNJ_S 0x10 0, iF3 FSGNJN_S 0x10 1, iF3 FSGNJX_S 0x10 2,
  iF3 FMIN_S 0x14 0, iF3 FMAX_S 0x14 1,
  iFu FCVT_W_S 0x60 0 .X .F, iFu FCVT_WU_S 0x60 1 .X .F,
  iFu3 FMV_X_W 0x70 0 0 .X .F,
  iF3 FEQ_S 0x50 2 .X, iF3 FLT_S 0x50 1 .X, iF3 FLE_S 0x50 0 .X,
  iFu3 FCLASS_S 0x70 0 1 .X .F,
  iFu FCVT_S_W 0x68 0 .F .X, iFu FCVT_S_WU 0x68 1 .F .X,
  iFu3 FMV_W_X 0x78 0 0 .F .X,
  -- RV64F
  iFu FCVT_L_S 0x60 2 .X .F true, iFu FCVT_LU_S 0x60 3 .X .F true,
  iFu FCVT_S_L 0x68 2 .F .X true, iFu FCVT_S_LU 0x68 3 .F .X true,
  -- RV32D
  iI FLD Opc.LOAD_FP 3 false .F, iS FSD Opc.STORE_FP 3 false .F,
  iR4 FMADD_D Opc.MADD 1, iR4 FMSUB_D Opc.MSUB 1, iR4 FNMSUB_D Opc.NMSUB 1, iR4 FNMADD_D Opc.NMADD 1,
  iFrm FADD_D 0x01, iFrm FSUB_D 0x05, iFrm FMUL_D 0x09, iFrm FDIV_D 0x0d,
  iFu FSQRT_D 0x2d 0 .F .F,
  iF3 FSGNJ_D 0x11 0, iF3 FSGNJN_D 0x11 1, iF3 FSGNJX_D 0x11 2,
  iF3 FMIN_D 0x15 0, iF3 FMAX_D 0x15 1,
  iFu FCVT_S_D 0x20 1 .F .F, iFu FCVT_D_S 0x21 0 .F .F,
  iF3 FEQ_D 0x51 2 .X, iF3 FLT_D 0x51 1 .X, iF3 FLE_D 0x51 0 .X,
  iFu3 FCLASS_D 0x71 0 1 .X .F,
  iFu FCVT_W_D 0x61 0 .X .F, iFu FCVT_WU_D 0x61 1 .X .F,
  iFu FCVT_D_W 0x69 0 .F .X, iFu FCVT_D_WU 0x69 1 .F .X,
  -- RV64D
  iFu FCVT_L_D 0x61 2 .X .F true, iFu FCVT_LU_D 0x61 3 .X .F true,
  iFu3 FMV_X_D 0x71 0 0 .X .F true,
  iFu FCVT_D_L 0x69 2 .F .X true, iFu FCVT_D_LU 0x69 3 .F .X true,
  iFu3 FMV_D_X 0x79 0 0 .F .X true
]

def isaLookup (mn : Mn) : Option Isa := isaTable.find? (fun e => e.mn == mn)

/-- well-formedness of a reference entry: field widths, and the operand classes fit the format -/
def Isa.wf (e : Isa) : Bool :=
  decide (e.opcode < 128) && decide (e.opcode % 4 = 3) &&
  (match e.f3 with | some v => decide (v < 8) | none => true) &&
  (match e.rs2f with | some v => decide (v < 32) | none => true) &&
  (match e.immf with | some v => decide (v < 4096) | none => true) &&
  (match e.fmt with
   | .R => (match e.f7 with | some v => decide (v < 128) | none => false) && e.rd != .N && e.rs1 != .N &&
           e.rs3 == .N && e.sh == 0 && e.immf.isNone && (e.rs2f.isSome == (e.rs2 == .N))
   | .R4 => (match e.f7 with | some v => decide (v < 4) | none => false) && e.f3.isNone && e.rd != .N && e.rs1 != .N &&
           e.rs2 != .N && e.rs3 != .N && e.sh == 0 && e.immf.isNone && e.rs2f.isNone
   | .I => e.f3.isSome && e.rs2 == .N && e.rs3 == .N && e.rs2f.isNone &&
           (if e.immf.isSome then e.rd == .N && e.rs1 == .N && e.sh == 0 && e.f7.isNone
            else e.rd != .N && e.rs1 != .N &&
              (if e.sh == 0 then e.f7.isNone
               else (e.sh == 5 || e.sh == 6) && (match e.f7 with | some v => decide (v < 128) && decide (v % 2 = 0) | none => false)))
   | .S => e.f3.isSome && e.f7.isNone && e.rd == .N && e.rs1 != .N && e.rs2 != .N && e.rs3 == .N && e.sh == 0 &&
           e.immf.isNone && e.rs2f.isNone
   | .B => e.f3.isSome && e.f7.isNone && e.rd == .N && e.rs1 != .N && e.rs2 != .N && e.rs3 == .N && e.sh == 0 &&
           e.immf.isNone && e.rs2f.isNone
   | .U => e.f3.isNone && e.f7.isNone && e.rd != .N && e.rs1 == .N && e.rs2 == .N && e.rs3 == .N && e.sh == 0 &&
           e.immf.isNone && e.rs2f.isNone
   | .J => e.f3.isNone && e.f7.isNone && e.rd != .N && e.rs1 == .N && e.rs2 == .N && e.rs3 == .N && e.sh == 0 &&
           e.immf.isNone && e.rs2f.isNone)

/-! ## the specification decoder -/

/-- does word `w` (in mode `xlen`) carry the fixed fields of reference entry `e`? -/
def Isa.matchesW (e : Isa) (xlen w : Nat) : Bool :=
  decide (w < W32) && fOpc w == e.opcode && (!e.rv64 || xlen == 64) &&
  (match e.f3 with | some v => fF3 w == v | none => true) &&
  (match e.rs2f with | some v => fRs2 w == v | none => true) &&
  (match e.immf with | some v => w / 1048576 == v && fRd w == 0 && fRs1 w == 0 | none => true) &&
  (match e.fmt, e.f7 with
   | .R, some v => fF7 w == v
   | .R4, some v => fF2 w == v
   | .I, some v => if e.sh == 6 && xlen == 64 then w / 67108864 == v / 2 else fF7 w == v
   | _, _ => true)

/-- operands of `w` read as an instance of `e` -/
def Isa.operands (e : Isa) (xlen w : Nat) : Ops :=
  match e.fmt with
  | .R => { rd := regOf e.rd (fRd w), rs1 := regOf e.rs1 (fRs1 w), rs2 := regOf e.rs2 (fRs2 w), rs3 := 0, imm := 0,
            rm := if e.f3.isNone then fF3 w else 0 }
  | .R4 => { rd := regOf e.rd (fRd w), rs1 := regOf e.rs1 (fRs1 w), rs2 := regOf e.rs2 (fRs2 w),
             rs3 := regOf e.rs3 (fRs3 w), imm := 0, rm := fF3 w }
  | .I => { rd := regOf e.rd (fRd w), rs1 := regOf e.rs1 (fRs1 w), rs2 := 0, rs3 := 0,
            imm := if e.immf.isSome then 0
                   else if e.sh == 0 then immI w
                   else if e.sh == 6 && xlen == 64 then ((w / 1048576 % 64 : Nat) : Int)
                   else ((w / 1048576 % 32 : Nat) : Int) }
  | .S => { rd := 0, rs1 := regOf e.rs1 (fRs1 w), rs2 := regOf e.rs2 (fRs2 w), rs3 := 0, imm := immS w }
  | .B => { rd := 0, rs1 := regOf e.rs1 (fRs1 w), rs2 := regOf e.rs2 (fRs2 w), rs3 := 0, imm := immB w }
  | .U => { rd := regOf e.rd (fRd w), rs1 := 0, rs2 := 0, rs3 := 0, imm := immU w }
  | .J => { rd := regOf e.rd (fRd w), rs1 := 0, rs2 := 0, rs3 := 0, imm := immJ w }

def specDecode (xlen w : Nat) : Option (Mn × Ops) :=
  (isaTable.find? (fun e => e.matchesW xlen w)).map (fun e => (e.mn, e.operands xlen w))

/-- two reference entries can never match the same word (syntactic criterion, see
`Props.C17.rv_disjoint_sound`) -/
def Isa.disjoint (a b : Isa) : Bool :=
  a.opcode != b.opcode ||
  (match a.f3, b.f3 with | some x, some y => x != y | _, _ => false) ||
  (match a.rs2f, b.rs2f with | some x, some y => x != y | _, _ => false) ||
  (match a.immf, b.immf with | some x, some y => x != y | _, _ => false) ||
  (match a.fmt, b.fmt, a.f7, b.f7 with
   | .R, .R, some x, some y => x != y
   | .R4, .R4, some x, some y => x != y
   | .I, .I, some x, some y => a.sh == b.sh && x / 2 != y / 2
   | _, _, _, _ => false)

def pairwiseDisjoint : List Isa → Bool
  | [] => true
  | a :: t => t.all (fun b => a.disjoint b) && pairwiseDisjoint t

/-! ## rows of the repo's table and the encoder model -/

/-- one row of `_AOpContextTable` (regenerated) -/
structure Row where
  mn : Mn
  opcode : Nat
  fmt : Nat            -- `_OpFormatType` of the opcode: 1 R, 2 R4, 3 I, 4 S, 5 B, 6 U, 7 J, 0 none
  marks : Nat          -- `_ArgMarks` bits: 1 RD, 2 RD_IS_X, 4 RS1, 8 RS2, 16 RS3, 32 IMM
  funct3 : Nat
  funct7 : Nat
  rs2 : Option Nat
  shamt : Bool
  deriving DecidableEq, Repr

/-- the `_ImmRange` values used by `checkArgImm` (regenerated) -/
structure ImmRange where
  align : Int
  min : Int
  max : Int
  deriving DecidableEq, Repr

structure Ranges where
  i : ImmRange
  s : ImmRange
  b : ImmRange
  u : ImmRange
  j : ImmRange
  sh32 : ImmRange
  sh64 : ImmRange
  deriving DecidableEq, Repr

def fmtCode : Fmt → Nat
  | .R => 1 | .R4 => 2 | .I => 3 | .S => 4 | .B => 5 | .U => 6 | .J => 7

/-- the argument marks the ISA operand list of `e` calls for -/
def Isa.marks (e : Isa) : Nat :=
  (if e.rd != .N then 1 else 0) + (if e.rs1 != .N then 4 else 0) + (if e.rs2 != .N then 8 else 0) +
  (if e.rs3 != .N then 16 else 0) +
  (match e.fmt with | .R | .R4 => 0 | _ => if e.immf.isSome then 0 else 32)

/-- the marks of a row, ignoring the documentation-only FUNCT3/FUNCT7/FUNCT2/SHAMT bits and RD_IS_X -/
def Row.argMarks (r : Row) : Nat := r.marks % 2 + (r.marks / 4 % 2) * 4 + (r.marks / 8 % 2) * 8 + (r.marks / 16 % 2) * 16 + (r.marks / 32 % 2) * 32

/-- row `r` carries exactly the encoding the manual gives for its mnemonic.
FP rounding mode: the repo has no `rm` operand, its funct3 column is used for the field; both the
static default RNE (0) and DYN (7) are accepted as "no rounding mode given". -/
def rowIsa (r : Row) (e : Isa) : Bool :=
  r.mn == e.mn && r.opcode == e.opcode && r.fmt == fmtCode e.fmt &&
  (match e.f3 with
   | some v => r.funct3 == v
   | none => match e.fmt with | .R | .R4 => r.funct3 == 0 || r.funct3 == 7 | _ => r.funct3 == 0) &&
  (match e.f7 with | some v => r.funct7 == v | none => r.funct7 == 0) &&
  r.rs2 == e.rs2f && r.shamt == (e.sh != 0) &&
  -- ECALL/EBREAK: the repo's convention is an I-type argument list with rd = rs1 = x0, imm = 0
  r.argMarks == (if e.immf.isSome then 37 else e.marks)

/-- the ISA entry a row must agree with -/
def rowMatchesIsa (r : Row) : Bool :=
  match isaLookup r.mn with
  | some e => rowIsa r e
  | none => false

/-- the immediate ranges the ISA formats can represent (what `checkArgImm` must enforce) -/
def isaRanges : Ranges :=
  { i := ⟨1, -2048, 2047⟩, s := ⟨1, -2048, 2047⟩, b := ⟨2, -4096, 4094⟩, u := ⟨1, 0, 1048575⟩,
    j := ⟨2, -1048576, 1048574⟩, sh32 := ⟨1, 0, 31⟩, sh64 := ⟨1, 0, 63⟩ }

/-- largest shift amount: 6-bit shamt only for the XLEN-dependent shifts on RV64 -/
def shLimit (sh xlen : Nat) : Int := if sh == 6 && xlen == 64 then 63 else 31

inductive Res
  | ok (w : Nat)
  | rej
  deriving DecidableEq, Repr

/-- Encoder model for a base (non-pseudo) row: the row supplies opcode / funct3 / funct7 / fixed
rs2, the reference entry supplies operand classes, the ISA supplies the immediate ranges.
This is the encoder as the ISA requires it; where the real `Encode` differs the check's oracle
decides (see checks/c17.py). -/
def encode (r : Row) (e : Isa) (xlen : Nat) (a : Ops) : Res :=
  if e.rv64 && xlen != 64 then .rej else
  match fieldOf e.rd a.rd, fieldOf e.rs1 a.rs1, fieldOf e.rs2 a.rs2, fieldOf e.rs3 a.rs3 with
  | some rd, some rs1, some rs2, some rs3 =>
    match e.fmt with
    | .R =>
      if a.imm ≠ 0 then .rej else
      .ok (packR r.opcode (if e.f3.isNone then a.rm else r.funct3) r.funct7 rd rs1 (r.rs2.getD rs2))
    | .R4 =>
      if a.imm ≠ 0 then .rej else .ok (packR4 r.opcode a.rm r.funct7 rd rs1 rs2 rs3)
    | .I =>
      match e.immf with
      | some v => if a.imm ≠ 0 then .rej else .ok (packI r.opcode r.funct3 0 0 v)
      | none =>
        if e.sh == 0 then
          if -2048 ≤ a.imm ∧ a.imm ≤ 2047 then .ok (packI r.opcode r.funct3 rd rs1 (toU32 a.imm)) else .rej
        else
          if 0 ≤ a.imm ∧ a.imm ≤ shLimit e.sh xlen then .ok (packI r.opcode r.funct3 rd rs1 (r.funct7 <<< 5 ||| toU32 a.imm)) else .rej
    | .S => if -2048 ≤ a.imm ∧ a.imm ≤ 2047 then .ok (packS r.opcode r.funct3 rs1 rs2 (toU32 a.imm)) else .rej
    | .B => if -4096 ≤ a.imm ∧ a.imm ≤ 4094 ∧ a.imm % 2 = 0 then .ok (packB r.opcode r.funct3 rs1 rs2 (toU32 a.imm)) else .rej
    | .U => if 0 ≤ a.imm ∧ a.imm ≤ 1048575 then .ok (packU r.opcode rd (toU32 a.imm)) else .rej
    | .J => if -1048576 ≤ a.imm ∧ a.imm ≤ 1048574 ∧ a.imm % 2 = 0 then .ok (packJ r.opcode rd (toU32 a.imm)) else .rej
  | _, _, _, _ => .rej

end WaVerif.C17.Rv
