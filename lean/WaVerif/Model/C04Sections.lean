import WaVerif.Model.C04
/-!
# C04 — decoders for the contents of the standard sections (executable; used for the canonical dump)

Built from the proved pieces of `Model/C04.lean` (`decU32`, `decName`, `decVec`, `decLimits`) and the
C19 signed decoders.  Type, function, export and start sections have `encode` counterparts and
round-trip theorems (Props/C04); the others are decode-only and are tied by the dump comparison.
-/
namespace WaVerif.C04
open WaVerif.C19

inductive ValTy | i32 | i64 | f32 | f64 | funcref | externref
  deriving DecidableEq, Repr

def ValTy.code : ValTy → Nat
  | .i32 => 0x7f | .i64 => 0x7e | .f32 => 0x7d | .f64 => 0x7c | .funcref => 0x70 | .externref => 0x6f

def ValTy.ofCode (b : Nat) : Option ValTy :=
  if b = 0x7f then some .i32 else if b = 0x7e then some .i64 else if b = 0x7d then some .f32
  else if b = 0x7c then some .f64 else if b = 0x70 then some .funcref else if b = 0x6f then some .externref else none

def ValTy.str : ValTy → String
  | .i32 => "i32" | .i64 => "i64" | .f32 => "f32" | .f64 => "f64" | .funcref => "funcref" | .externref => "externref"

def encValTy (t : ValTy) : Bytes := [t.code]
def decValTy : Bytes → Option (ValTy × Bytes)
  | [] => none
  | b :: r => (ValTy.ofCode b).map (·, r)

structure FuncType where
  params : List ValTy
  results : List ValTy
  deriving DecidableEq, Repr

def encFuncType (t : FuncType) : Bytes := 0x60 :: (encVec encValTy t.params ++ encVec encValTy t.results)
def decFuncType : Bytes → Option (FuncType × Bytes)
  | 0x60 :: r =>
    match decVec decValTy r with
    | some (ps, r1) => (decVec decValTy r1).map (fun p => (⟨ps, p.1⟩, p.2))
    | none => none
  | _ => none

def encTypeSec (ts : List FuncType) : Bytes := encVec encFuncType ts
def decTypeSec (bs : Bytes) : Option (List FuncType) := whole (decVec decFuncType) bs

def encFuncSec (is : List Nat) : Bytes := encVec encU32 is
def decFuncSec (bs : Bytes) : Option (List Nat) := whole (decVec decU32) bs

structure Export where
  name : Bytes
  kind : Nat       -- 0 func, 1 table, 2 memory, 3 global
  idx : Nat
  deriving DecidableEq, Repr

def encExport (e : Export) : Bytes := encName e.name ++ (e.kind :: encU32 e.idx)
def decExport (bs : Bytes) : Option (Export × Bytes) :=
  match decName bs with
  | some (n, k :: r) => (decU32 r).map (fun p => (⟨n, k, p.1⟩, p.2))
  | _ => none

def encExportSec (es : List Export) : Bytes := encVec encExport es
def decExportSec (bs : Bytes) : Option (List Export) := whole (decVec decExport) bs

def decStartSec (bs : Bytes) : Option Nat := whole decU32 bs

/-! decode-only -/

inductive ImportDesc
  | func (ty : Nat)
  | table (elem : ValTy) (lim : Limits)
  | memory (flag64 : Bool) (lim : Limits)
  | global (ty : ValTy) (mutable : Nat)
  deriving Repr

structure Import where
  mod : Bytes
  name : Bytes
  desc : ImportDesc
  deriving Repr

/-- memory limits: flags 0/1, and Wa's memory64 flags 4/5 -/
def decMemLimits : Bytes → Option ((Bool × Limits) × Bytes)
  | 4 :: r => (decLimits (0 :: r)).map (fun p => ((true, p.1), p.2))
  | 5 :: r => (decLimits (1 :: r)).map (fun p => ((true, p.1), p.2))
  | bs => (decLimits bs).map (fun p => ((false, p.1), p.2))

def decImport (bs : Bytes) : Option (Import × Bytes) :=
  match decName bs with
  | none => none
  | some (m, r) =>
    match decName r with
    | some (n, 0 :: r1) => (decU32 r1).map (fun p => (⟨m, n, .func p.1⟩, p.2))
    | some (n, 1 :: r1) =>
      match decValTy r1 with
      | some (t, r2) => (decLimits r2).map (fun p => (⟨m, n, .table t p.1⟩, p.2))
      | none => none
    | some (n, 2 :: r1) => (decMemLimits r1).map (fun p => (⟨m, n, .memory p.1.1 p.1.2⟩, p.2))
    | some (n, 3 :: t :: mu :: r1) => (ValTy.ofCode t).map (fun ty => (⟨m, n, .global ty mu⟩, r1))
    | _ => none

def decImportSec (bs : Bytes) : Option (List Import) := whole (decVec decImport) bs

def decTable (bs : Bytes) : Option ((ValTy × Limits) × Bytes) :=
  match decValTy bs with
  | some (t, r) => (decLimits r).map (fun p => ((t, p.1), p.2))
  | none => none
def decTableSec (bs : Bytes) : Option (List (ValTy × Limits)) := whole (decVec decTable) bs
def decMemorySec (bs : Bytes) : Option (List (Bool × Limits)) := whole (decVec decMemLimits) bs

/-- constant expressions: one constant (or global.get) followed by `end` -/
inductive ConstExpr
  | i32 (v : Int) | i64 (v : Int) | f32 (bits : Nat) | f64 (bits : Nat) | globalGet (i : Nat)
  deriving Repr

def leBytes : List Nat → Nat
  | [] => 0
  | b :: r => b + 256 * leBytes r

def decS32' (bs : Bytes) : Option (Int × Bytes) :=
  match decodeS32 bs with
  | .ok (v, n) => some (v, bs.drop n)
  | .error _ => none
def decS64' (bs : Bytes) : Option (Int × Bytes) :=
  match decodeS64 bs with
  | .ok (v, n) => some (v, bs.drop n)
  | .error _ => none

def decConstExpr : Bytes → Option (ConstExpr × Bytes)
  | 0x41 :: r =>
    match decS32' r with
    | some (v, 0x0b :: r1) => some (.i32 v, r1)
    | _ => none
  | 0x42 :: r =>
    match decS64' r with
    | some (v, 0x0b :: r1) => some (.i64 v, r1)
    | _ => none
  | 0x43 :: a :: b :: c :: d :: 0x0b :: r => some (.f32 (leBytes [a, b, c, d]), r)
  | 0x44 :: a :: b :: c :: d :: e :: f :: g :: h :: 0x0b :: r => some (.f64 (leBytes [a, b, c, d, e, f, g, h]), r)
  | 0x23 :: r =>
    match decU32 r with
    | some (i, 0x0b :: r1) => some (.globalGet i, r1)
    | _ => none
  | _ => none

structure Global where
  ty : ValTy
  mutable : Nat
  init : ConstExpr
  deriving Repr

def decGlobal : Bytes → Option (Global × Bytes)
  | t :: mu :: r =>
    match ValTy.ofCode t, decConstExpr r with
    | some ty, some (e, r1) => some (⟨ty, mu, e⟩, r1)
    | _, _ => none
  | _ => none
def decGlobalSec (bs : Bytes) : Option (List Global) := whole (decVec decGlobal) bs

structure Elem where
  offset : ConstExpr
  funcs : List Nat
  deriving Repr

/-- only the MVP form `0 expr vec(funcidx)` (what the assembler emits) -/
def decElem : Bytes → Option (Elem × Bytes)
  | 0 :: r =>
    match decConstExpr r with
    | some (e, r1) => (decVec decU32 r1).map (fun p => (⟨e, p.1⟩, p.2))
    | none => none
  | _ => none
def decElemSec (bs : Bytes) : Option (List Elem) := whole (decVec decElem) bs

structure DataSeg where
  offset : ConstExpr
  bytes : Bytes
  deriving Repr

def decData : Bytes → Option (DataSeg × Bytes)
  | 0 :: r =>
    match decConstExpr r with
    | some (e, r1) => (decName r1).map (fun p => (⟨e, p.1⟩, p.2))
    | none => none
  | _ => none
def decDataSec (bs : Bytes) : Option (List DataSeg) := whole (decVec decData) bs

structure Code where
  locals : List (Nat × ValTy)
  body : Bytes
  deriving Repr

def decLocalGroup (bs : Bytes) : Option ((Nat × ValTy) × Bytes) :=
  match decU32 bs with
  | some (n, r) => (decValTy r).map (fun p => ((n, p.1), p.2))
  | none => none

/-- `size func`; the function must fill exactly `size` bytes and its body must end with `end` -/
def decCode (bs : Bytes) : Option (Code × Bytes) :=
  match decName bs with
  | none => none
  | some (f, rest) =>
    match decVec decLocalGroup f with
    | some (ls, body) => if body.getLast? = some 0x0b then some (⟨ls, body⟩, rest) else none
    | none => none
def decCodeSec (bs : Bytes) : Option (List Code) := whole (decVec decCode) bs

/-- body of a custom section: its name and the payload -/
def decCustom (bs : Bytes) : Option (Bytes × Bytes) := decName bs

end WaVerif.C04
