/-!
# C23 — source positions (hand-written model of internal/token/position.go + serialize.go)

Bytes are `Nat`s (a newline is `10`); offsets, bases, sizes and line-table entries are `Int`
(Go `int`; 64-bit overflow is not modelled — see the check's assumptions), indices are `Nat`.
Transcribed, loop for loop:

* `slcGo` / `setLinesForContent`  — `(*File).SetLinesForContent`
* `searchGo` / `searchInts`       — the hand-inlined binary search `searchInts`; `sort.Search`
  (used by `searchFiles`) is the same loop (`int(uint(i+j)>>1) = i+(j-i)/2` on naturals)
* `unpack` / `unpackAdj`           — `(*File).unpack` (raw part / with `//line` infos, `adjusted`)
* `fileLookup`                    — `(*FileSet).file` including the `last` cache (the cached File object, by value)
* `position`                      — `(*FileSet).PositionFor`
* `addFile`, `setContent`, `addLineInfo` — `addFile`, `SetLinesForContent`, `AddLineColumnInfo` on a member file
* `write` / `read` / `readInto`   — `(*FileSet).Write/Read` (what `ToJson/FromJson` encode), also into an existing set
-/
namespace WaVerif.C23

/-! ## line table -/

/-- loop of `SetLinesForContent`: `pend` is the Go variable `line` (`none` = -1),
`off` the loop index.  Returns the entries appended from here on. -/
def slcGo : List Nat → Nat → Option Nat → List Int
  | [], _, _ => []
  | b :: rest, off, pend =>
    let tail := slcGo rest (off + 1) (if b = 10 then some (off + 1) else none)
    match pend with
    | some l => (l : Int) :: tail
    | none => tail

def setLinesForContent (c : List Nat) : List Int := slcGo c 0 (some 0)

/-! ## binary search -/

/-- the loop of `searchInts`: invariant `i ≤ j ≤ len`; every probe is in bounds (no default
element is ever read). Returns the final `i`. -/
def searchGo (a : List Int) (x : Int) (i j : Nat) (hj : j ≤ a.length) : Nat :=
  if h : i < j then
    let m := i + (j - i) / 2
    have hm : m < a.length := by omega
    if a[m] ≤ x then searchGo a x (m + 1) j hj
    else searchGo a x i m (by omega)
  else i
termination_by j - i
decreasing_by
  all_goals omega

theorem searchGo_le (a : List Int) (x : Int) (i j : Nat) (hj : j ≤ a.length) (hij : i ≤ j) :
    searchGo a x i j hj ≤ j := by
  induction h : j - i using Nat.strongRecOn generalizing i j with
  | _ n ih =>
    unfold searchGo
    split
    · rename_i hlt
      simp only
      split
      · exact ih _ (by omega) _ _ hj (by omega) rfl
      · have := ih _ (by omega) i (i + (j - i) / 2) (by omega) (by omega) rfl
        omega
    · omega

/-- `searchInts a x` (Go returns `i - 1`, possibly `-1`) -/
def searchInts (a : List Int) (x : Int) : Int :=
  (searchGo a x 0 a.length (Nat.le_refl _) : Nat) - 1

/-- the index found and the element there, or `none` when Go's result is `-1` -/
def searchEntry (a : List Int) (x : Int) : Option (Nat × Int) :=
  let r := searchGo a x 0 a.length (Nat.le_refl _)
  if h : 0 < r then
    have : r - 1 < a.length := by
      have := searchGo_le a x 0 a.length (Nat.le_refl _) (Nat.zero_le _)
      omega
    some (r - 1, a[r - 1])
  else none

/-! ## files and file sets -/

/-- `lineInfo`: alternative position registered by a `//line` / `/*line*/` directive -/
structure LineInfo where
  offset : Int
  filename : String
  line : Int
  column : Int
  deriving Repr, DecidableEq

structure MFile where
  name : String
  base : Int
  size : Int
  cap : Int
  lines : List Int
  infos : List LineInfo
  deriving Repr, DecidableEq

/-- `last` is the cached `*File`: the File OBJECT last looked up.  It is modelled by value, so a
set whose cache holds a file that is not (any longer) one of `files` is representable — that is
the state `Read` must not leave behind (`CacheOK` in the lemmas). -/
structure MSet where
  base : Int
  files : List MFile
  last : Option MFile
  deriving Repr, DecidableEq

structure MPosition where
  filename : String
  offset : Int
  line : Int
  column : Int
  deriving Repr, DecidableEq

def MPosition.zero : MPosition := ⟨"", 0, 0, 0⟩

/-- the raw part of `unpack`: (line, column) from the line table, `(0,0)` when the search returns -1 -/
def unpack (lines : List Int) (offset : Int) : Int × Int :=
  match searchEntry lines offset with
  | some (i, start) => ((i : Int) + 1, offset - start + 1)
  | none => (0, 0)

/-- `(*File).unpack(offset, adjusted)`: filename, line, column; `searchLineInfos` is the same
binary search over the infos' offsets -/
def unpackAdj (f : MFile) (offset : Int) (adjusted : Bool) : String × Int × Int :=
  let lc := unpack f.lines offset
  if adjusted && !f.infos.isEmpty then
    match searchEntry (f.infos.map (·.offset)) offset with
    | some (i, _) =>
      match f.infos[i]? with
      | some alt =>
        match searchEntry f.lines alt.offset with
        | some (j, _) =>
          let d := lc.1 - ((j : Int) + 1)
          let col := if alt.column = 0 then 0 else if d = 0 then alt.column + (offset - alt.offset) else lc.2
          (alt.filename, alt.line + d, col)
        | none => (alt.filename, lc.1, lc.2)
      | none => (f.name, lc.1, lc.2)
    | none => (f.name, lc.1, lc.2)
  else (f.name, lc.1, lc.2)

def inFile (f : MFile) (p : Int) : Bool := decide (f.base ≤ p) && decide (p ≤ f.base + f.size)

/-- the `last` cache test of `(*FileSet).file`: `f := s.last; f != nil && f.base <= p && p <= f.base+f.size`
— answers with the cached object itself -/
def cacheHit (s : MSet) (p : Int) : Option MFile :=
  match s.last with
  | some f => if inFile f p then some f else none
  | none => none

/-- the search of `(*FileSet).file`: `searchFiles` (= `sort.Search(a[i].base > x) - 1`) and the upper-bound test -/
def searchFile (s : MSet) (p : Int) : Option MFile :=
  match searchEntry (s.files.map (·.base)) p with
  | some (i, _) =>
    match s.files[i]? with
    | some f => if p ≤ f.base + f.size then some f else none
    | none => none
  | none => none

/-- `(*FileSet).file`: the file found and the new value of the `last` cache -/
def fileLookup (s : MSet) (p : Int) : Option MFile × Option MFile :=
  match cacheHit s p with
  | some f => (some f, s.last)
  | none =>
    match searchFile s p with
    | some f => (some f, some f)
    | none => (none, s.last)

def filePosition (f : MFile) (p : Int) (adjusted : Bool) : MPosition :=
  let offset := p - f.base
  let r := unpackAdj f offset adjusted
  ⟨r.1, offset, r.2.1, r.2.2⟩

/-- `(*FileSet).PositionFor(p, adjusted)`: the Position and the set with updated cache -/
def positionFor (s : MSet) (p : Int) (adjusted : Bool) : MPosition × MSet :=
  if p = 0 then (MPosition.zero, s) else
  match fileLookup s p with
  | (some f, last') => (filePosition f p adjusted, { s with last := last' })
  | (none, last') => (MPosition.zero, { s with last := last' })

/-- `(*FileSet).Position(p)` -/
def position (s : MSet) (p : Int) : MPosition × MSet := positionFor s p true

def newFileSet : MSet := ⟨1, [], none⟩

/-- `addFile(filename, base, size, cap)`; the error is the Go panic message -/
def addFile (s : MSet) (name : String) (base size cap : Int) : Except String MSet :=
  let base := if base < 0 then s.base else base
  if base < s.base ∨ size < 0 then .error "illegal base or size" else
  let cap := if cap < size then size else cap
  let f : MFile := ⟨name, base, size, cap, [0], []⟩
  .ok ⟨base + cap + 1, s.files ++ [f], some f⟩

/-- a method mutating the `k`-th File object: the cache, if it holds that object, sees the change -/
def updateFile (s : MSet) (k : Nat) (f f' : MFile) : MSet :=
  { s with files := s.files.set k f',
           last := match s.last with
             | some g => if g = f then some f' else some g
             | none => none }

/-- `SetLinesForContent` on the `k`-th file -/
def setContent (s : MSet) (k : Nat) (c : List Nat) : Except String MSet :=
  match s.files[k]? with
  | none => .error "no such file"
  | some f =>
    if f.cap < (c.length : Int) then .error "file content large than capacity" else
    .ok (updateFile s k f { f with size := c.length, lines := setLinesForContent c })

/-- `AddLineColumnInfo(offset, filename, line, column)` on the `k`-th file; accepted iff
`i == 0 || infos[i-1].Offset < offset && offset < size` -/
def infoAccepted (f : MFile) (li : LineInfo) : Bool :=
  match f.infos.getLast? with
  | none => true
  | some prev => decide (prev.offset < li.offset) && decide (li.offset < f.size)

def addLineInfo (s : MSet) (k : Nat) (li : LineInfo) : Except String MSet :=
  match s.files[k]? with
  | none => .error "no such file"
  | some f =>
    if infoAccepted f li then .ok (updateFile s k f { f with infos := f.infos ++ [li] }) else .ok s

/-! ## serialisable form -/

structure SFile where
  name : String
  base : Int
  size : Int
  lines : List Int
  infos : List LineInfo
  deriving Repr, DecidableEq

structure SSet where
  base : Int
  files : List SFile
  deriving Repr, DecidableEq

def write (s : MSet) : SSet := ⟨s.base, s.files.map fun f => ⟨f.name, f.base, f.size, f.lines, f.infos⟩⟩

/-- `Read` into a fresh or an EXISTING set: base and files are replaced and the cache is dropped -/
def read (ss : SSet) : MSet :=
  ⟨ss.base, ss.files.map fun f => ⟨f.name, f.base, f.size, 0, f.lines, f.infos⟩, none⟩

def readInto (_old : MSet) (ss : SSet) : MSet := read ss

/-! ## independent specification of line and column -/

/-- offset of the byte after the last newline strictly before `off` (scan backwards) -/
def lastLineStart (c : List Nat) : Nat → Nat
  | 0 => 0
  | k + 1 => if c[k]? = some 10 then k + 1 else lastLineStart c k

/-- line = 1 + number of newlines before `off`; column = 1 + bytes since the last line start -/
def specLineCol (c : List Nat) (off : Nat) : Int × Int :=
  (1 + ((c.take off).count 10 : Nat), 1 + (off : Int) - (lastLineStart c off : Nat))

end WaVerif.C23
