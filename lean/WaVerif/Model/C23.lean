/-!
# C23 — source positions (hand-written model of internal/token/position.go + serialize.go)

Bytes are `Nat`s (a newline is `10`); offsets, bases, sizes and line-table entries are `Int`
(Go `int`; 64-bit overflow is not modelled — see the check's assumptions), indices are `Nat`.
Transcribed, loop for loop:

* `slcGo` / `setLinesForContent`  — `(*File).SetLinesForContent`
* `searchGo` / `searchInts`       — the hand-inlined binary search `searchInts`; `sort.Search`
  (used by `searchFiles`) is the same loop (`int(uint(i+j)>>1) = i+(j-i)/2` on naturals)
* `unpack`                        — `(*File).unpack` with no `//line` infos
* `fileLookup`                    — `(*FileSet).file` including the `last` cache
* `position`                      — `(*FileSet).PositionFor`
* `addFile`, `setContent`         — `addFile`, `SetLinesForContent` on a member file
* `write` / `read`                — `(*FileSet).Write/Read` (what `ToJson/FromJson` encode)
-/
namespace WaVerif.C23

/-! ## line table -/

/-- loop of `SetLinesForContent`: `pend` is the Go variable `line` (`none` = -1),
`off` the loop index.  Returns the entries appended from here on. -/
def slcGo : List Nat → Nat → Option Nat → List Int
  | [], _, _ => []
  | b :: rest, off, pend =>
    let tail := slcGo rest (off + 1) (if b = 10 then some (off + 1) else none)
    match pend with
    | some l => (l : Int) :: tail
    | none => tail

def setLinesForContent (c : List Nat) : List Int := slcGo c 0 (some 0)

/-! ## binary search -/

/-- the loop of `searchInts`: invariant `i ≤ j ≤ len`; every probe is in bounds (no default
element is ever read). Returns the final `i`. -/
def searchGo (a : List Int) (x : Int) (i j : Nat) (hj : j ≤ a.length) : Nat :=
  if h : i < j then
    let m := i + (j - i) / 2
    have hm : m < a.length := by omega
    if a[m] ≤ x then searchGo a x (m + 1) j hj
    else searchGo a x i m (by omega)
  else i
termination_by j - i
decreasing_by
  all_goals omega

theorem searchGo_le (a : List Int) (x : Int) (i j : Nat) (hj : j ≤ a.length) (hij : i ≤ j) :
    searchGo a x i j hj ≤ j := by
  induction h : j - i using Nat.strongRecOn generalizing i j with
  | _ n ih =>
    unfold searchGo
    split
    · rename_i hlt
      simp only
      split
      · exact ih _ (by omega) _ _ hj (by omega) rfl
      · have := ih _ (by omega) i (i + (j - i) / 2) (by omega) (by omega) rfl
        omega
    · omega

/-- `searchInts a x` (Go returns `i - 1`, possibly `-1`) -/
def searchInts (a : List Int) (x : Int) : Int :=
  (searchGo a x 0 a.length (Nat.le_refl _) : Nat) - 1

/-- the index found and the element there, or `none` when Go's result is `-1` -/
def searchEntry (a : List Int) (x : Int) : Option (Nat × Int) :=
  let r := searchGo a x 0 a.length (Nat.le_refl _)
  if h : 0 < r then
    have : r - 1 < a.length := by
      have := searchGo_le a x 0 a.length (Nat.le_refl _) (Nat.zero_le _)
      omega
    some (r - 1, a[r - 1])
  else none

/-! ## files and file sets -/

structure MFile where
  name : String
  base : Int
  size : Int
  cap : Int
  lines : List Int
  deriving Repr, DecidableEq

structure MSet where
  base : Int
  files : List MFile
  last : Option Nat          -- index of the cached file
  deriving Repr, DecidableEq

structure MPosition where
  filename : String
  offset : Int
  line : Int
  column : Int
  deriving Repr, DecidableEq

def MPosition.zero : MPosition := ⟨"", 0, 0, 0⟩

/-- `unpack` with an empty `infos` table: (line, column), `(0,0)` when the search returns -1 -/
def unpack (lines : List Int) (offset : Int) : Int × Int :=
  match searchEntry lines offset with
  | some (i, start) => ((i : Int) + 1, offset - start + 1)
  | none => (0, 0)

def inFile (f : MFile) (p : Int) : Bool := decide (f.base ≤ p) && decide (p ≤ f.base + f.size)

/-- the `last` cache test of `(*FileSet).file`: `f := s.last; f != nil && f.base <= p && p <= f.base+f.size` -/
def cacheHit (s : MSet) (p : Int) : Option Nat :=
  match s.last with
  | some k => match s.files[k]? with
    | some f => if inFile f p then some k else none
    | none => none
  | none => none

/-- the search of `(*FileSet).file`: `searchFiles` (= `sort.Search(a[i].base > x) - 1`) and the upper-bound test -/
def searchFile (s : MSet) (p : Int) : Option Nat :=
  match searchEntry (s.files.map (·.base)) p with
  | some (i, _) =>
    match s.files[i]? with
    | some f => if p ≤ f.base + f.size then some i else none
    | none => none
  | none => none

/-- `(*FileSet).file`: returns the index found and the new value of the `last` cache -/
def fileLookup (s : MSet) (p : Int) : Option Nat × Option Nat :=
  match cacheHit s p with
  | some k => (some k, s.last)
  | none =>
    match searchFile s p with
    | some i => (some i, some i)
    | none => (none, s.last)

def filePosition (f : MFile) (p : Int) : MPosition :=
  let offset := p - f.base
  let lc := unpack f.lines offset
  ⟨f.name, offset, lc.1, lc.2⟩

/-- `(*FileSet).PositionFor(p, _)` (no infos): the Position and the set with updated cache -/
def position (s : MSet) (p : Int) : MPosition × MSet :=
  if p = 0 then (MPosition.zero, s) else
  match fileLookup s p with
  | (some k, last') =>
    match s.files[k]? with
    | some f => (filePosition f p, { s with last := last' })
    | none => (MPosition.zero, { s with last := last' })
  | (none, last') => (MPosition.zero, { s with last := last' })

def newFileSet : MSet := ⟨1, [], none⟩

/-- `addFile(filename, base, size, cap)`; the error is the Go panic message -/
def addFile (s : MSet) (name : String) (base size cap : Int) : Except String MSet :=
  let base := if base < 0 then s.base else base
  if base < s.base ∨ size < 0 then .error "illegal base or size" else
  let cap := if cap < size then size else cap
  let f : MFile := ⟨name, base, size, cap, [0]⟩
  .ok ⟨base + cap + 1, s.files ++ [f], some s.files.length⟩

/-- `SetLinesForContent` on the `k`-th file -/
def setContent (s : MSet) (k : Nat) (c : List Nat) : Except String MSet :=
  match s.files[k]? with
  | none => .error "no such file"
  | some f =>
    if f.cap < (c.length : Int) then .error "file content large than capacity" else
    .ok { s with files := s.files.set k { f with size := c.length, lines := setLinesForContent c } }

/-! ## serialisable form -/

structure SFile where
  name : String
  base : Int
  size : Int
  lines : List Int
  deriving Repr, DecidableEq

structure SSet where
  base : Int
  files : List SFile
  deriving Repr, DecidableEq

def write (s : MSet) : SSet := ⟨s.base, s.files.map fun f => ⟨f.name, f.base, f.size, f.lines⟩⟩

def read (ss : SSet) : MSet :=
  ⟨ss.base, ss.files.map fun f => ⟨f.name, f.base, f.size, 0, f.lines⟩, none⟩

/-! ## independent specification of line and column -/

/-- offset of the byte after the last newline strictly before `off` (scan backwards) -/
def lastLineStart (c : List Nat) : Nat → Nat
  | 0 => 0
  | k + 1 => if c[k]? = some 10 then k + 1 else lastLineStart c k

/-- line = 1 + number of newlines before `off`; column = 1 + bytes since the last line start -/
def specLineCol (c : List Nat) (off : Nat) : Int × Int :=
  (1 + ((c.take off).count 10 : Nat), 1 + (off : Int) - (lastLineStart c off : Nat))

end WaVerif.C23
