import WaVerif.Model.C20RV
/-!
# C20 — LoongArch (LA64) reference specification of the base integer instructions

Core Lean only.  Written from the LoongArch Reference Manual, volume 1 (basic architecture),
chapter 2 "Basic integer instructions" and appendix B (instruction encodings) — not from the Go
code.  It covers the integer instructions the `wemu` emulator executes and their neighbours in the
same groups, so that an instruction the emulator gains later is compared as soon as it stops
answering "TODO".

Left out on purpose: DIV/MOD (the manual leaves the result undefined for a zero divisor and, for
the `.W` forms, for operands that are not sign-extended 32-bit values), atomics, CRC, bit-string and
byte-reversal instructions, CSR/privileged instructions and the floating point unit (the emulator
executes three FP instructions; they are compared at instruction precision by the driver, executed
only).  Unaligned accesses are performed (allowed for LA64 implementations; the emulator does).
A jump to a non-aligned address raises ADEF when the NEXT instruction is fetched, so one step never
traps for that reason.
-/
namespace WaVerif.C20.LA
open WaVerif.C20

abbrev W := BitVec 64

inductive Op3
  | add_w | add_d | sub_w | sub_d | slt | sltu | maskeqz | masknez | nor | and | or | xor | orn | andn
  | sll_w | srl_w | sra_w | sll_d | srl_d | sra_d | rotr_w | rotr_d
  | mul_w | mulh_w | mulh_wu | mul_d | mulh_d | mulh_du | mulw_d_w | mulw_d_wu
  deriving DecidableEq, Repr

inductive OpSh | slli_w | srli_w | srai_w | rotri_w | slli_d | srli_d | srai_d | rotri_d
  deriving DecidableEq, Repr

inductive OpI12 | slti | sltui | addi_w | addi_d | lu52i_d | andi | ori | xori
  deriving DecidableEq, Repr

inductive OpI20 | lu12i_w | lu32i_d | pcaddi | pcalau12i | pcaddu12i | pcaddu18i
  deriving DecidableEq, Repr

inductive Instr
  | op3 (o : Op3) (rd rj rk : Reg)
  | sh (o : OpSh) (rd rj : Reg) (k : Nat)
  | i12 (o : OpI12) (rd rj : Reg) (imm : BitVec 12)
  | i20 (o : OpI20) (rd : Reg) (imm : BitVec 20)
  | addu16i_d (rd rj : Reg) (imm : BitVec 16)
  | load (wd : Width) (unsigned : Bool) (rd rj : Reg) (imm : BitVec 12)
  | store (wd : Width) (rd rj : Reg) (imm : BitVec 12)
  | branch (c : BrCond) (rj rd : Reg) (off : BitVec 16)
  | bz (ne : Bool) (rj : Reg) (off : BitVec 21)
  | jirl (rd rj : Reg) (off : BitVec 16)
  | b (link : Bool) (off : BitVec 26)
  deriving Repr

/-- sign extension of a 32-bit result to the 64-bit register -/
def sx32 (v : BitVec 32) : W := v.signExtend 64

def lo32 (a : W) : BitVec 32 := a.setWidth 32

def rotr32 (a : BitVec 32) (k : Nat) : BitVec 32 := a.rotateRight k
def rotr64 (a : W) (k : Nat) : W := a.rotateRight k

def alu3 (o : Op3) (a b : W) : W :=
  match o with
  | .add_w => sx32 (lo32 a + lo32 b)
  | .add_d => a + b
  | .sub_w => sx32 (lo32 a - lo32 b)
  | .sub_d => a - b
  | .slt => boolBV 64 (a.slt b)
  | .sltu => boolBV 64 (a.ult b)
  | .maskeqz => if b = 0 then 0 else a
  | .masknez => if b = 0 then a else 0
  | .nor => ~~~(a ||| b)
  | .and => a &&& b
  | .or => a ||| b
  | .xor => a ^^^ b
  | .orn => a ||| ~~~b
  | .andn => a &&& ~~~b
  | .sll_w => sx32 (lo32 a <<< (b.toNat % 32))
  | .srl_w => sx32 (lo32 a >>> (b.toNat % 32))
  | .sra_w => sx32 ((lo32 a).sshiftRight (b.toNat % 32))
  | .sll_d => a <<< (b.toNat % 64)
  | .srl_d => a >>> (b.toNat % 64)
  | .sra_d => a.sshiftRight (b.toNat % 64)
  | .rotr_w => sx32 (rotr32 (lo32 a) (b.toNat % 32))
  | .rotr_d => rotr64 a (b.toNat % 64)
  | .mul_w => sx32 (lo32 a * lo32 b)
  | .mulh_w => sx32 (mulhSS (lo32 a) (lo32 b))
  | .mulh_wu => sx32 (mulhUU (lo32 a) (lo32 b))
  | .mul_d => a * b
  | .mulh_d => mulhSS a b
  | .mulh_du => mulhUU a b
  | .mulw_d_w => (lo32 a).signExtend 64 * (lo32 b).signExtend 64
  | .mulw_d_wu => (lo32 a).setWidth 64 * (lo32 b).setWidth 64

def aluSh (o : OpSh) (a : W) (k : Nat) : W :=
  match o with
  | .slli_w => sx32 (lo32 a <<< k)
  | .srli_w => sx32 (lo32 a >>> k)
  | .srai_w => sx32 ((lo32 a).sshiftRight k)
  | .rotri_w => sx32 (rotr32 (lo32 a) k)
  | .slli_d => a <<< k
  | .srli_d => a >>> k
  | .srai_d => a.sshiftRight k
  | .rotri_d => rotr64 a k

def aluI12 (o : OpI12) (a : W) (imm : BitVec 12) : W :=
  match o with
  | .slti => boolBV 64 (a.slt (imm.signExtend 64))
  | .sltui => boolBV 64 (a.ult (imm.signExtend 64))
  | .addi_w => sx32 (lo32 a + imm.signExtend 32)
  | .addi_d => a + imm.signExtend 64
  | .lu52i_d => (imm ++ a.extractLsb' 0 52).setWidth 64
  | .andi => a &&& imm.setWidth 64
  | .ori => a ||| imm.setWidth 64
  | .xori => a ^^^ imm.setWidth 64

/-- `old` is the previous value of `rd` (LU32I.D keeps its low half) -/
def aluI20 (o : OpI20) (pc old : W) (imm : BitVec 20) : W :=
  match o with
  | .lu12i_w => (imm ++ (0 : BitVec 12)).signExtend 64
  | .lu32i_d => ((imm.signExtend 32) ++ old.extractLsb' 0 32).setWidth 64
  | .pcaddi => pc + (imm ++ (0 : BitVec 2)).signExtend 64
  | .pcalau12i => (pc + (imm ++ (0 : BitVec 12)).signExtend 64) &&& ~~~(0xfff : W)
  | .pcaddu12i => pc + (imm ++ (0 : BitVec 12)).signExtend 64
  | .pcaddu18i => pc + (imm ++ (0 : BitVec 18)).signExtend 64

structure LAState where
  r : Reg → W
  pc : W
  mem : Mem
  writes : List (Nat × Byte) := []
  trap : Option Trap := none

namespace LAState

/-- `r0` always reads zero -/
def rd (s : LAState) (i : Reg) : W := if i = 0 then 0 else s.r i
def wr (s : LAState) (i : Reg) (v : W) : LAState := { s with r := fun j => if j = i then v else s.r j }
def next (s : LAState) : LAState := { s with pc := s.pc + 4 }
def raise (s : LAState) (t : Trap) : LAState := { s with trap := some t }

def storeBytes (s : LAState) (addr v : W) (k : Nat) : LAState :=
  if s.mem.mapped 64 addr.toNat k then
    let bs := leBytes 64 addr.toNat v.toNat k
    ({ s with mem := s.mem.writeAll bs, writes := bs.reverse ++ s.writes }).next
  else s.raise .fault

end LAState

/-- branch offsets are in instructions: `offs << 2`, sign-extended -/
def off2 {k : Nat} (off : BitVec k) : W := (off ++ (0 : BitVec 2)).signExtend 64

def specStep (s : LAState) (i : Instr) : LAState :=
  match i with
  | .op3 o rd rj rk => (s.wr rd (alu3 o (s.rd rj) (s.rd rk))).next
  | .sh o rd rj k => (s.wr rd (aluSh o (s.rd rj) k)).next
  | .i12 o rd rj imm => (s.wr rd (aluI12 o (s.rd rj) imm)).next
  | .i20 o rd imm => (s.wr rd (aluI20 o s.pc (s.rd rd) imm)).next
  | .addu16i_d rd rj imm => (s.wr rd (s.rd rj + (imm ++ (0 : BitVec 16)).signExtend 64)).next
  | .load wd u rd rj imm =>
    let addr := s.rd rj + imm.signExtend 64
    match s.mem.readLE 64 addr.toNat wd.bytes with
    | some v => (s.wr rd (loadVal 64 wd.bytes u v)).next
    | none => s.raise .fault
  | .store wd rd rj imm => s.storeBytes (s.rd rj + imm.signExtend 64) (s.rd rd) wd.bytes
  | .branch c rj rd off =>
    if brTaken c (s.rd rj) (s.rd rd) then { s with pc := s.pc + off2 off } else s.next
  | .bz ne rj off =>
    if (s.rd rj == 0) != ne then { s with pc := s.pc + off2 off } else s.next
  | .jirl rd rj off =>
    let target := s.rd rj + off2 off
    { s.wr rd (s.pc + 4) with pc := target }
  | .b link off =>
    let s1 := if link then s.wr 1 (s.pc + 4) else s
    { s1 with pc := s.pc + off2 off }

/-! ## decoder (appendix B) -/

def decodeOp3 (code : Nat) : Option Op3 :=
  match code with
  | 0x20 => some .add_w | 0x21 => some .add_d | 0x22 => some .sub_w | 0x23 => some .sub_d
  | 0x24 => some .slt | 0x25 => some .sltu | 0x26 => some .maskeqz | 0x27 => some .masknez
  | 0x28 => some .nor | 0x29 => some .and | 0x2a => some .or | 0x2b => some .xor
  | 0x2c => some .orn | 0x2d => some .andn
  | 0x2e => some .sll_w | 0x2f => some .srl_w | 0x30 => some .sra_w
  | 0x31 => some .sll_d | 0x32 => some .srl_d | 0x33 => some .sra_d
  | 0x36 => some .rotr_w | 0x37 => some .rotr_d
  | 0x38 => some .mul_w | 0x39 => some .mulh_w | 0x3a => some .mulh_wu
  | 0x3b => some .mul_d | 0x3c => some .mulh_d | 0x3d => some .mulh_du
  | 0x3e => some .mulw_d_w | 0x3f => some .mulw_d_wu
  | _ => none

def decode (w : BitVec 32) : Option Instr :=
  let rd := regAt w 0
  let rj := regAt w 5
  let rk := regAt w 10
  let op6 := fld w 26 6
  let op10 := fld w 22 10
  let op17 := fld w 15 17
  let op16 := fld w 16 16
  let i12 : BitVec 12 := w.extractLsb' 10 12
  let i16 : BitVec 16 := w.extractLsb' 10 16
  match op6 with
  | 0x00 =>
    match decodeOp3 op17 with
    | some o => some (.op3 o rd rj rk)
    | none =>
      -- shifts by immediate: ui5 forms have bit 15 set below the 16-bit opcode, ui6 forms clear
      match op17 with
      | 0x81 => some (.sh .slli_w rd rj (fld w 10 5)) | 0x89 => some (.sh .srli_w rd rj (fld w 10 5))
      | 0x91 => some (.sh .srai_w rd rj (fld w 10 5)) | 0x99 => some (.sh .rotri_w rd rj (fld w 10 5))
      | _ =>
        match op16 with
        | 0x41 => some (.sh .slli_d rd rj (fld w 10 6)) | 0x45 => some (.sh .srli_d rd rj (fld w 10 6))
        | 0x49 => some (.sh .srai_d rd rj (fld w 10 6)) | 0x4d => some (.sh .rotri_d rd rj (fld w 10 6))
        | _ =>
          match op10 with
          | 0x008 => some (.i12 .slti rd rj i12) | 0x009 => some (.i12 .sltui rd rj i12)
          | 0x00a => some (.i12 .addi_w rd rj i12) | 0x00b => some (.i12 .addi_d rd rj i12)
          | 0x00c => some (.i12 .lu52i_d rd rj i12) | 0x00d => some (.i12 .andi rd rj i12)
          | 0x00e => some (.i12 .ori rd rj i12) | 0x00f => some (.i12 .xori rd rj i12)
          | _ => none
  | 0x04 => some (.addu16i_d rd rj i16)
  | 0x05 => some (.i20 (if fld w 25 1 = 0 then .lu12i_w else .lu32i_d) rd (w.extractLsb' 5 20))
  | 0x06 => some (.i20 (if fld w 25 1 = 0 then .pcaddi else .pcalau12i) rd (w.extractLsb' 5 20))
  | 0x07 => some (.i20 (if fld w 25 1 = 0 then .pcaddu12i else .pcaddu18i) rd (w.extractLsb' 5 20))
  | 0x0a =>
    match op10 with
    | 0x0a0 => some (.load .b false rd rj i12) | 0x0a1 => some (.load .h false rd rj i12)
    | 0x0a2 => some (.load .w false rd rj i12) | 0x0a3 => some (.load .d false rd rj i12)
    | 0x0a4 => some (.store .b rd rj i12) | 0x0a5 => some (.store .h rd rj i12)
    | 0x0a6 => some (.store .w rd rj i12) | 0x0a7 => some (.store .d rd rj i12)
    | 0x0a8 => some (.load .b true rd rj i12) | 0x0a9 => some (.load .h true rd rj i12)
    | 0x0aa => some (.load .w true rd rj i12)
    | _ => none
  | 0x10 => some (.bz false rj ((w.extractLsb' 0 5 ++ i16).setWidth 21))
  | 0x11 => some (.bz true rj ((w.extractLsb' 0 5 ++ i16).setWidth 21))
  | 0x13 => some (.jirl rd rj i16)
  | 0x14 => some (.b false ((w.extractLsb' 0 10 ++ i16).setWidth 26))
  | 0x15 => some (.b true ((w.extractLsb' 0 10 ++ i16).setWidth 26))
  | 0x16 => some (.branch .eq rj rd i16) | 0x17 => some (.branch .ne rj rd i16)
  | 0x18 => some (.branch .lt rj rd i16) | 0x19 => some (.branch .ge rj rd i16)
  | 0x1a => some (.branch .ltu rj rd i16) | 0x1b => some (.branch .geu rj rd i16)
  | _ => none

def Instr.name : Instr → String
  | .op3 o .. => match o with
    | .add_w => "add.w" | .add_d => "add.d" | .sub_w => "sub.w" | .sub_d => "sub.d" | .slt => "slt"
    | .sltu => "sltu" | .maskeqz => "maskeqz" | .masknez => "masknez" | .nor => "nor" | .and => "and"
    | .or => "or" | .xor => "xor" | .orn => "orn" | .andn => "andn" | .sll_w => "sll.w" | .srl_w => "srl.w"
    | .sra_w => "sra.w" | .sll_d => "sll.d" | .srl_d => "srl.d" | .sra_d => "sra.d" | .rotr_w => "rotr.w"
    | .rotr_d => "rotr.d" | .mul_w => "mul.w" | .mulh_w => "mulh.w" | .mulh_wu => "mulh.wu"
    | .mul_d => "mul.d" | .mulh_d => "mulh.d" | .mulh_du => "mulh.du" | .mulw_d_w => "mulw.d.w"
    | .mulw_d_wu => "mulw.d.wu"
  | .sh o .. => match o with
    | .slli_w => "slli.w" | .srli_w => "srli.w" | .srai_w => "srai.w" | .rotri_w => "rotri.w"
    | .slli_d => "slli.d" | .srli_d => "srli.d" | .srai_d => "srai.d" | .rotri_d => "rotri.d"
  | .i12 o .. => match o with
    | .slti => "slti" | .sltui => "sltui" | .addi_w => "addi.w" | .addi_d => "addi.d"
    | .lu52i_d => "lu52i.d" | .andi => "andi" | .ori => "ori" | .xori => "xori"
  | .i20 o .. => match o with
    | .lu12i_w => "lu12i.w" | .lu32i_d => "lu32i.d" | .pcaddi => "pcaddi" | .pcalau12i => "pcalau12i"
    | .pcaddu12i => "pcaddu12i" | .pcaddu18i => "pcaddu18i"
  | .addu16i_d .. => "addu16i.d"
  | .load wd u .. => match wd, u with
    | .b, false => "ld.b" | .h, false => "ld.h" | .w, false => "ld.w" | .d, _ => "ld.d"
    | .b, true => "ld.bu" | .h, true => "ld.hu" | .w, true => "ld.wu"
  | .store wd .. => match wd with | .b => "st.b" | .h => "st.h" | .w => "st.w" | .d => "st.d"
  | .branch c .. => match c with
    | .eq => "beq" | .ne => "bne" | .lt => "blt" | .ge => "bge" | .ltu => "bltu" | .geu => "bgeu"
  | .bz ne .. => if ne then "bnez" else "beqz"
  | .jirl .. => "jirl"
  | .b link .. => if link then "bl" else "b"

end WaVerif.C20.LA
