import WaVerif.Gen.C14Tables
/-!
# C14 — model of Wa's port of encoding/hex (core Lean only, executable)
Byte strings are `List Nat` (each < 256); the alphabet and the reverse table come from `Gen/C14Tables.lean`.
-/
namespace WaVerif.C14
open WaVerif.C14.Gen

/-- every element is a byte -/
def BytesOK (bs : List Nat) : Prop := ∀ b ∈ bs, b < 256

instance (bs : List Nat) : Decidable (BytesOK bs) := by unfold BytesOK; infer_instance

/-- `Encode`: `dst[j] = hextable[v>>4]; dst[j+1] = hextable[v&0x0f]` -/
def hexEncode : List Nat → List Nat
  | [] => []
  | b :: bs => hexTable.getD (b / 16) 0 :: hexTable.getD (b % 16) 0 :: hexEncode bs

/-- `reverseHexTable[c]`; values above 15 mean "not a hex digit" -/
def hexVal (c : Nat) : Nat := hexReverse.getD c 255

/-- `Decode`: pairs of hex digits; any other character or an odd length is an error (`none`) -/
def hexDecode : List Nat → Option (List Nat)
  | [] => some []
  | [_] => none
  | a :: b :: rest =>
    if hexVal a > 15 ∨ hexVal b > 15 then none
    else match hexDecode rest with
      | none => none
      | some bs => some ((hexVal a * 16 + hexVal b) :: bs)

def hexEncodedLen (n : Nat) : Nat := n * 2
def hexDecodedLen (n : Nat) : Nat := n / 2

end WaVerif.C14
