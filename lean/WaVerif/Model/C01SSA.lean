import WaVerif.Base.WasmNum
/-!
# C01 — straight-line SSA blocks (model of what compile_func.go does with the operator rows)

The Wa back end compiles SSA: every value is a WebAssembly local ("register"), and an SSA
instruction `dst = x op y` is emitted as: the operator ROW (the sequence `wir.EmitBinOp` returns,
which reads its operands with `local.get $x`, `local.get $y`) with the two operand locals
substituted, followed by `local.set dst`. This file models exactly that composition, for blocks of
any length; `Props/C01SSA.lean` proves it correct given the per-row theorems.
-/
namespace WaVerif.C01.SSA
open WaVerif.Wasm

/-- instructions of a compiled block: the numeric subset, plus `local.set` -/
inductive SIns
  | base (i : Instr)
  | set (n : Nat)
  deriving Repr

structure St where
  loc : List Val
  stk : List Val
  deriving Repr

def sstep (s : St) : SIns → Option St
  | .base i => (step s.loc i s.stk).map fun st => { s with stk := st }
  | .set n => match s.stk with
    | v :: r => if n < s.loc.length then some { loc := s.loc.set n v, stk := r } else none
    | [] => none

def srun (s : St) : List SIns → Option St
  | [] => some s
  | i :: r => (sstep s i).bind (fun s' => srun s' r)

/-- one SSA instruction: destination register, two operand registers, the operator row
(a row for a unary operator or conversion simply never reads operand 1) -/
structure Op where
  dst : Nat
  sx : Nat
  sy : Nat
  row : List Instr

/-- substitution of the operand locals into a row -/
def rename (sx sy : Nat) : Instr → Instr
  | .localGet 0 => .localGet sx
  | .localGet 1 => .localGet sy
  | i => i

/-- rows read only locals 0 and 1 (checked for the regenerated table by `decide`) -/
def UsesOnly01 : List Instr → Bool
  | [] => true
  | .localGet n :: r => decide (n < 2) && UsesOnly01 r
  | _ :: r => UsesOnly01 r

def compileOp (o : Op) : List SIns :=
  o.row.map (fun i => .base (rename o.sx o.sy i)) ++ [.set o.dst]

def compileBlock (os : List Op) : List SIns := os.flatMap compileOp

/-- the meaning of an operator on register values; `none` = trap -/
abbrev Sem := Val → Val → Option Val

/-- source-level evaluation of a block: read the two operand registers, apply the operator's
meaning, write the destination register -/
def evalBlock : List (Op × Sem) → List Val → Option (List Val)
  | [], loc => some loc
  | (o, sem) :: rest, loc =>
    match loc[o.sx]?, loc[o.sy]? with
    | some x, some y =>
      if o.dst < loc.length then (sem x y).bind (fun r => evalBlock rest (loc.set o.dst r)) else none
    | _, _ => none

/-- the hypotheses under which the composition theorem applies: at every instruction of the block the
operand registers exist, the row only reads its two operands, and the row theorem (`exec` of the row
on the operand values = the operator's meaning) applies to the values the registers hold THEN. -/
def Good : List (Op × Sem) → List Val → Prop
  | [], _ => True
  | (o, sem) :: rest, loc =>
    ∃ x y, loc[o.sx]? = some x ∧ loc[o.sy]? = some y ∧ o.dst < loc.length ∧ UsesOnly01 o.row = true ∧
      exec [x, y] o.row [] = (sem x y).map (fun r => [r]) ∧
      ∀ r, sem x y = some r → Good rest (loc.set o.dst r)

end WaVerif.C01.SSA
