import WaVerif.Base.WasmNum
/-!
# C03 — the C statement / expression forms that wat2c emits, with C11 semantics

Target: LP64, two's complement (`int32_t = int`, `uint32_t = unsigned`, `int64_t = long`, `uint64_t = unsigned long`;
`long long` has the width and signedness of `long`, so it is identified with it).  Written from C11 §6.3 (conversions),
§6.5 (expressions).  **Undefined behaviour is a result of its own (`Res.ub`)**:

* signed `+ - *` and unary `-` whose mathematical result is not representable (§6.5p5),
* `/` and `%` with divisor 0, and signed `MIN / -1`, `MIN % -1` (§6.5.5p5-6),
* shifts whose (promoted) right operand is negative or ≥ the width of the promoted left operand (§6.5.7p3),
* `E1 << E2` with signed `E1` that is negative or with `E1 × 2^E2` not representable (§6.5.7p4),
* `__builtin_clz/ctz(0)` (gcc manual),
* `memcpy` to/from `mem[i]` with `i < 0` or `i + n > size` (object bounds, §6.5.6p8 / §7.24.1p2).

Implementation-defined choices fixed as gcc and clang document them: conversion to a signed type reduces modulo 2^N
(§6.3.1.3p3), `>>` on a negative signed value is an arithmetic shift (§6.5.7p5).
`abort()` — wat2c's trap convention — is the outcome `Outcome.trap`.  Floating point is not modelled.
-/
namespace WaVerif.C03

inductive CTy | i32 | u32 | i64 | u64
  deriving DecidableEq, Repr, Inhabited

/-- cast targets; the types narrower than `int` only occur as casts and as the `R_u8/R_u16` temporaries, and a value
of such a type is promoted to `int` by every operator (§6.3.1.1p2), so their values are carried as `int`. -/
inductive CastTy | i8 | u8 | i16 | u16 | i32 | u32 | i64 | u64
  deriving DecidableEq, Repr, Inhabited

inductive CVal
  | i32 (v : BitVec 32)
  | u32 (v : BitVec 32)
  | i64 (v : BitVec 64)
  | u64 (v : BitVec 64)
  deriving DecidableEq, Repr, Inhabited

inductive Res (α : Type)
  | ok (a : α)
  | ub          -- undefined behaviour
  | stuck       -- outside the modelled forms (ill-typed read of a union member, unknown variable, …)
  deriving DecidableEq, Repr

inductive BinOp | add | sub | mul | div | rem | band | bor | bxor | shl | shr | lt | gt | le | ge | eq | ne
  deriving DecidableEq, Repr, Inhabited

inductive UnOp | neg | bnot | lnot
  deriving DecidableEq, Repr, Inhabited

inductive Builtin | clz | clzll | ctz | ctzll | popcount | popcountll
  deriving DecidableEq, Repr, Inhabited

inductive CExpr
  | lit (v : Int)                    -- unsuffixed decimal constant: `int` if it fits, else `long` (§6.4.4.1p5)
  | arg (i : Nat) (t : CTy)          -- function parameter `arg<i>`
  | reg (k : Nat) (t : CTy)          -- `R<k>.i32` / `R<k>.i64` (member of the `val_t` union register)
  | tmp (bits : Nat)                 -- `R_u8`, `R_u16`, `R_u32`
  | cast (t : CastTy) (e : CExpr)
  | un (op : UnOp) (e : CExpr)
  | bin (op : BinOp) (a b : CExpr)
  | cond (c a b : CExpr)
  | land (a b : CExpr)               -- `a && b` (short-circuit, result `int` 0/1)
  | lor (a b : CExpr)                -- `a || b`
  | call (f : Builtin) (e : CExpr)
  deriving Repr, Inhabited

inductive LHS
  | reg (k : Nat) (t : CTy)
  | tmp (bits : Nat)
  deriving Repr, Inhabited

inductive CStmt
  | assign (l : LHS) (e : CExpr)
  | ret (e : CExpr)
  | retVoid
  | abort
  | ifThen (c : CExpr) (body : List CStmt)                -- `if (c) { … }`
  | loadMem (dst : LHS) (idx : CExpr) (n : Nat)           -- `memcpy(&dst, &mem[idx], n)`
  | storeMem (idx : CExpr) (src : LHS) (n : Nat)          -- `memcpy(&mem[idx], &src, n)`
  deriving Repr, Inhabited

structure CFunc where
  params : List CTy
  body : List CStmt
  deriving Repr, Inhabited

/-! ## values and conversions -/

def CVal.ty : CVal → CTy
  | .i32 _ => .i32 | .u32 _ => .u32 | .i64 _ => .i64 | .u64 _ => .u64

/-- conversion of an integer value to an integer type (§6.3.1.3) -/
def conv (t : CTy) : CVal → CVal
  | .i32 v => match t with
    | .i32 => .i32 v | .u32 => .u32 v | .i64 => .i64 (v.signExtend 64) | .u64 => .u64 (v.signExtend 64)
  | .u32 v => match t with
    | .i32 => .i32 v | .u32 => .u32 v | .i64 => .i64 (v.setWidth 64) | .u64 => .u64 (v.setWidth 64)
  | .i64 v => match t with
    | .i32 => .i32 (v.setWidth 32) | .u32 => .u32 (v.setWidth 32) | .i64 => .i64 v | .u64 => .u64 v
  | .u64 v => match t with
    | .i32 => .i32 (v.setWidth 32) | .u32 => .u32 (v.setWidth 32) | .i64 => .i64 v | .u64 => .u64 v

/-- the value as 64 bits, extended according to its own signedness (value preserving) -/
@[reducible] def CVal.wide : CVal → BitVec 64
  | .i32 v => v.signExtend 64 | .u32 v => v.setWidth 64 | .i64 v => v | .u64 v => v

def castTo (t : CastTy) (v : CVal) : CVal :=
  match t with
  | .i8 => .i32 ((v.wide.setWidth 8).signExtend 32)
  | .u8 => .i32 ((v.wide.setWidth 8).setWidth 32)
  | .i16 => .i32 ((v.wide.setWidth 16).signExtend 32)
  | .u16 => .i32 ((v.wide.setWidth 16).setWidth 32)
  | .i32 => conv .i32 v
  | .u32 => conv .u32 v
  | .i64 => conv .i64 v
  | .u64 => conv .u64 v

def CastTy.ty : CastTy → CTy
  | .i8 | .u8 | .i16 | .u16 | .i32 => .i32
  | .u32 => .u32 | .i64 => .i64 | .u64 => .u64

/-- usual arithmetic conversions (§6.3.1.8) on promoted types -/
def uac : CTy → CTy → CTy
  | .u64, _ => .u64
  | _, .u64 => .u64
  | .i64, _ => .i64
  | _, .i64 => .i64
  | .u32, _ => .u32
  | _, .u32 => .u32
  | .i32, .i32 => .i32

def BinOp.isShift : BinOp → Bool
  | .shl | .shr => true
  | _ => false

def BinOp.isCmp : BinOp → Bool
  | .lt | .gt | .le | .ge | .eq | .ne => true
  | _ => false

/-- static type of an expression -/
def CExpr.ty : CExpr → CTy
  | .lit v => if -2147483648 ≤ v ∧ v ≤ 2147483647 then .i32 else .i64
  | .arg _ t => t
  | .reg _ t => t
  | .tmp b => if b = 32 then .u32 else .i32
  | .cast t _ => t.ty
  | .un .lnot _ => .i32
  | .un _ e => e.ty
  | .bin op a b => if op.isShift then a.ty else if op.isCmp then .i32 else uac a.ty b.ty
  | .cond _ a b => uac a.ty b.ty
  | .land _ _ => .i32
  | .lor _ _ => .i32
  | .call _ _ => .i32

def b2c (b : Bool) : CVal := .i32 (if b then 1#32 else 0#32)

def CVal.isZero : CVal → Bool
  | .i32 v => v == 0 | .u32 v => v == 0 | .i64 v => v == 0 | .u64 v => v == 0

/-! ## operators on operands already converted to their common type -/

def sarith {w : Nat} (op : BinOp) (x y : BitVec w) : Res (BitVec w) :=
  match op with
  | .add => if BitVec.saddOverflow x y then .ub else .ok (x + y)
  | .sub => if BitVec.ssubOverflow x y then .ub else .ok (x - y)
  | .mul => if BitVec.smulOverflow x y then .ub else .ok (x * y)
  | .div => if y = 0 then .ub else if x = BitVec.intMin w ∧ y = -1 then .ub else .ok (x.sdiv y)
  | .rem => if y = 0 then .ub else if x = BitVec.intMin w ∧ y = -1 then .ub else .ok (x.srem y)
  | .band => .ok (x &&& y)
  | .bor => .ok (x ||| y)
  | .bxor => .ok (x ^^^ y)
  | _ => .stuck

def uarith {w : Nat} (op : BinOp) (x y : BitVec w) : Res (BitVec w) :=
  match op with
  | .add => .ok (x + y)
  | .sub => .ok (x - y)
  | .mul => .ok (x * y)
  | .div => if y = 0 then .ub else .ok (x / y)
  | .rem => if y = 0 then .ub else .ok (x % y)
  | .band => .ok (x &&& y)
  | .bor => .ok (x ||| y)
  | .bxor => .ok (x ^^^ y)
  | _ => .stuck

def scmp {w : Nat} (op : BinOp) (x y : BitVec w) : Res CVal :=
  match op with
  | .lt => .ok (b2c (x.slt y))
  | .gt => .ok (b2c (y.slt x))
  | .le => .ok (b2c (x.sle y))
  | .ge => .ok (b2c (y.sle x))
  | .eq => .ok (b2c (x == y))
  | .ne => .ok (b2c (x != y))
  | _ => .stuck

def ucmp {w : Nat} (op : BinOp) (x y : BitVec w) : Res CVal :=
  match op with
  | .lt => .ok (b2c (x.ult y))
  | .gt => .ok (b2c (y.ult x))
  | .le => .ok (b2c (x.ule y))
  | .ge => .ok (b2c (y.ule x))
  | .eq => .ok (b2c (x == y))
  | .ne => .ok (b2c (x != y))
  | _ => .stuck

def Res.map {α β : Type} (f : α → β) : Res α → Res β
  | .ok a => .ok (f a) | .ub => .ub | .stuck => .stuck

/-- arithmetic / bitwise / comparison on two values of the SAME type -/
def arith (op : BinOp) (a b : CVal) : Res CVal :=
  match a, b with
  | .i32 x, .i32 y => if op.isCmp then scmp op x y else (sarith op x y).map .i32
  | .u32 x, .u32 y => if op.isCmp then ucmp op x y else (uarith op x y).map .u32
  | .i64 x, .i64 y => if op.isCmp then scmp op x y else (sarith op x y).map .i64
  | .u64 x, .u64 y => if op.isCmp then ucmp op x y else (uarith op x y).map .u64
  | _, _ => .stuck

/-- the shift count as an unsigned 64-bit number: a negative signed count becomes ≥ 2^63, hence ≥ any width -/
@[reducible] def CVal.count : CVal → BitVec 64 := CVal.wide

/-- `E1 << E2` on a signed `E1`: defined iff `E1 ≥ 0` and `E1 × 2^E2` is representable -/
def sshl {w : Nat} (x : BitVec w) (c : BitVec 64) : Res (BitVec w) :=
  if x.msb = false ∧ (x <<< c).sshiftRight' c = x then .ok (x <<< c) else .ub

def shiftOp (op : BinOp) (a b : CVal) : Res CVal :=
  let c := b.count
  match a with
  | .i32 x => if (32#64).ule c then .ub else
      match op with
      | .shl => (sshl x c).map .i32
      | .shr => .ok (.i32 (x.sshiftRight' c))
      | _ => .stuck
  | .u32 x => if (32#64).ule c then .ub else
      match op with
      | .shl => .ok (.u32 (x <<< c))
      | .shr => .ok (.u32 (x >>> c))
      | _ => .stuck
  | .i64 x => if (64#64).ule c then .ub else
      match op with
      | .shl => (sshl x c).map .i64
      | .shr => .ok (.i64 (x.sshiftRight' c))
      | _ => .stuck
  | .u64 x => if (64#64).ule c then .ub else
      match op with
      | .shl => .ok (.u64 (x <<< c))
      | .shr => .ok (.u64 (x >>> c))
      | _ => .stuck

def cunop (op : UnOp) (a : CVal) : Res CVal :=
  match op, a with
  | .lnot, v => .ok (b2c v.isZero)
  | .bnot, .i32 x => .ok (.i32 (~~~x))
  | .bnot, .u32 x => .ok (.u32 (~~~x))
  | .bnot, .i64 x => .ok (.i64 (~~~x))
  | .bnot, .u64 x => .ok (.u64 (~~~x))
  | .neg, .i32 x => if x = BitVec.intMin 32 then .ub else .ok (.i32 (-x))
  | .neg, .i64 x => if x = BitVec.intMin 64 then .ub else .ok (.i64 (-x))
  | .neg, .u32 x => .ok (.u32 (-x))
  | .neg, .u64 x => .ok (.u64 (-x))

/-- number of trailing zero bits: the same function the WebAssembly specification side uses (`Wasm.ctz`); the builtin is
only defined for a non-zero argument -/
def ctzBV {w : Nat} (x : BitVec w) : BitVec w := Wasm.ctz x

/-- gcc/clang builtins; the parameter types are `unsigned int` / `unsigned long long`, the result type is `int` -/
def builtin (f : Builtin) (a : CVal) : Res CVal :=
  match f with
  | .clz => match conv .u32 a with
    | .u32 x => if x = 0 then .ub else .ok (.i32 x.clz)
    | _ => .stuck
  | .ctz => match conv .u32 a with
    | .u32 x => if x = 0 then .ub else .ok (.i32 (ctzBV x))
    | _ => .stuck
  | .popcount => match conv .u32 a with
    | .u32 x => .ok (.i32 x.cpop)
    | _ => .stuck
  | .clzll => match conv .u64 a with
    | .u64 x => if x = 0 then .ub else .ok (.i32 (x.clz.setWidth 32))
    | _ => .stuck
  | .ctzll => match conv .u64 a with
    | .u64 x => if x = 0 then .ub else .ok (.i32 ((ctzBV x).setWidth 32))
    | _ => .stuck
  | .popcountll => match conv .u64 a with
    | .u64 x => .ok (.i32 (x.cpop.setWidth 32))
    | _ => .stuck

/-! ## state -/

abbrev Mem := List (BitVec 8)

structure St where
  regs : List (Nat × CVal)      -- `R<k>`: the union member written last
  tmps : List (Nat × CVal)      -- `R_u8 / R_u16 / R_u32`, keyed by width
  mem : Mem
  deriving Repr

def look (l : List (Nat × CVal)) (k : Nat) : Option CVal :=
  match l with
  | [] => none
  | (k', v) :: r => if k = k' then some v else look r k

def litVal (v : Int) : CVal :=
  if -2147483648 ≤ v ∧ v ≤ 2147483647 then .i32 (BitVec.ofInt 32 v) else .i64 (BitVec.ofInt 64 v)

def Res.bind {α β : Type} (r : Res α) (f : α → Res β) : Res β :=
  match r with
  | .ok a => f a
  | .ub => .ub
  | .stuck => .stuck

def ceval (args : List CVal) (s : St) : CExpr → Res CVal
  | .lit v => if -9223372036854775808 ≤ v ∧ v ≤ 9223372036854775807 then .ok (litVal v) else .stuck
  | .arg i t => match args[i]? with
    | some v => if v.ty = t then .ok v else .stuck
    | none => .stuck
  | .reg k t => match look s.regs k with
    | some v => if v.ty = t then .ok v else .stuck        -- reading another union member is not modelled
    | none => .stuck
  | .tmp b => match look s.tmps b with
    | some v => .ok v
    | none => .stuck
  | .cast t e => (ceval args s e).bind fun v => .ok (castTo t v)
  | .un op e => (ceval args s e).bind fun v => cunop op v
  | .bin op a b => (ceval args s a).bind fun va => (ceval args s b).bind fun vb =>
      if op.isShift then shiftOp op va vb
      else arith op (conv (uac va.ty vb.ty) va) (conv (uac va.ty vb.ty) vb)
  | .cond c a b => (ceval args s c).bind fun vc =>
      if vc.isZero then (ceval args s b).bind fun v => .ok (conv (uac a.ty b.ty) v)
      else (ceval args s a).bind fun v => .ok (conv (uac a.ty b.ty) v)
  | .land a b => (ceval args s a).bind fun va =>
      if va.isZero then .ok (b2c false) else (ceval args s b).bind fun vb => .ok (b2c (!vb.isZero))
  | .lor a b => (ceval args s a).bind fun va =>
      if va.isZero then (ceval args s b).bind fun vb => .ok (b2c (!vb.isZero)) else .ok (b2c true)
  | .call f e => (ceval args s e).bind fun v => builtin f v

inductive Outcome
  | ret (v : Option CVal) (m : Mem)     -- normal return (value, final memory)
  | trap                                -- `abort()`
  | ub
  | stuck
  deriving DecidableEq, Repr

/-- little-endian bytes of the low `n` bytes of a 64-bit pattern -/
def leBytes (v : BitVec 64) : Nat → List (BitVec 8)
  | 0 => []
  | n + 1 => v.setWidth 8 :: leBytes (v >>> 8) n

def leValue : List (BitVec 8) → BitVec 64
  | [] => 0
  | b :: r => (b.setWidth 64) ||| (leValue r <<< 8)

def memRead (m : Mem) (i n : Nat) : Option (List (BitVec 8)) :=
  if i + n ≤ m.length then some ((m.drop i).take n) else none

def memWrite (m : Mem) (i : Nat) (bs : List (BitVec 8)) : Option Mem :=
  if i + bs.length ≤ m.length then some (m.take i ++ bs ++ m.drop (i + bs.length)) else none

/-- the array index of `mem[idx]`: a negative index is outside the object -/
def idxNat (v : CVal) : Option Nat :=
  match v with
  | .i32 x => if x.msb then none else some x.toNat
  | .i64 x => if x.msb then none else some x.toNat
  | .u32 x => some x.toNat
  | .u64 x => some x.toNat

def lhsTy : LHS → CTy
  | .reg _ t => t
  | .tmp b => if b = 32 then .u32 else .i32

def lhsBytes : LHS → Nat
  | .reg _ .i32 | .reg _ .u32 => 4
  | .reg _ _ => 8
  | .tmp b => b / 8

/-- store a value (already of the object's value range) into an lvalue -/
def writeL (s : St) (l : LHS) (v : CVal) : St :=
  match l with
  | .reg k t => { s with regs := (k, conv t v) :: s.regs }
  | .tmp b =>
    let narrowed : CVal :=
      if b = 8 then .i32 ((v.wide.setWidth 8).setWidth 32)
      else if b = 16 then .i32 ((v.wide.setWidth 16).setWidth 32)
      else conv .u32 v
    { s with tmps := (b, narrowed) :: s.tmps }

def readL (s : St) (l : LHS) : Option CVal :=
  match l with
  | .reg k t => match look s.regs k with
    | some v => if v.ty = t then some v else none
    | none => none
  | .tmp b => look s.tmps b

/-- a value of the lvalue's type from `n = sizeof` little-endian bytes -/
def ofBytes (l : LHS) (bs : List (BitVec 8)) : CVal :=
  match lhsTy l with
  | .i32 => .i32 ((leValue bs).setWidth 32)
  | .u32 => .u32 ((leValue bs).setWidth 32)
  | .i64 => .i64 (leValue bs)
  | .u64 => .u64 (leValue bs)

/-- continue with the value of an expression, or stop with its failure -/
def Res.andThen {α : Type} (r : Res α) (k : α → Outcome ⊕ St) : Outcome ⊕ St :=
  match r with
  | .ok a => k a
  | .ub => .inl .ub
  | .stuck => .inl .stuck

/-- continue with `some`, undefined behaviour on `none` (out-of-bounds object access) -/
def orUB {α : Type} (o : Option α) (k : α → Outcome ⊕ St) : Outcome ⊕ St :=
  match o with
  | some a => k a
  | none => .inl .ub

def orStuck {α : Type} (o : Option α) (k : α → Outcome ⊕ St) : Outcome ⊕ St :=
  match o with
  | some a => k a
  | none => .inl .stuck

def seqSt (r : Outcome ⊕ St) (k : St → Outcome ⊕ St) : Outcome ⊕ St :=
  match r with
  | .inl o => .inl o
  | .inr s => k s

def cexec (args : List CVal) : Nat → List CStmt → St → Outcome ⊕ St
  | 0, _, _ => .inl .stuck
  | _ + 1, [], s => .inr s
  | fuel + 1, st :: rest, s =>
    match st with
    | .assign l e => (ceval args s e).andThen fun v => cexec args fuel rest (writeL s l v)
    | .ret e => (ceval args s e).andThen fun v => .inl (.ret (some v) s.mem)
    | .retVoid => .inl (.ret none s.mem)
    | .abort => .inl .trap
    | .ifThen c body => (ceval args s c).andThen fun v =>
        if v.isZero then cexec args fuel rest s
        else seqSt (cexec args fuel body s) fun s' => cexec args fuel rest s'
    | .loadMem dst idx n =>
      if n ≠ lhsBytes dst then .inl .stuck else
      (ceval args s idx).andThen fun v => orUB (idxNat v) fun i => orUB (memRead s.mem i n) fun bs =>
        cexec args fuel rest (writeL s dst (ofBytes dst bs))
    | .storeMem idx src n =>
      if n ≠ lhsBytes src then .inl .stuck else
      (ceval args s idx).andThen fun v => orUB (idxNat v) fun i => orStuck (readL s src) fun sv =>
        orUB (memWrite s.mem i (leBytes sv.wide n)) fun m' => cexec args fuel rest { s with mem := m' }

def finish : Outcome ⊕ St → Outcome
  | .inl o => o
  | .inr _ => .stuck       -- falling off the end of the function body is not modelled

/-- run a translated function on argument values and a memory; falling off the end is not modelled -/
def crun (f : CFunc) (args : List CVal) (m : Mem) : Outcome :=
  if args.map CVal.ty ≠ f.params then .stuck else
  finish (cexec args 64 f.body { regs := [], tmps := [], mem := m })

/-! ## distribution of the evaluator's plumbing over `if` (used by the symbolic execution in the proofs) -/
theorem Res.bind_ok {α β : Type} (a : α) (f : α → Res β) : (Res.ok a).bind f = f a := rfl
theorem Res.bind_ub {α β : Type} (f : α → Res β) : (Res.ub : Res α).bind f = .ub := rfl
theorem Res.bind_stuck {α β : Type} (f : α → Res β) : (Res.stuck : Res α).bind f = .stuck := rfl
theorem Res.map_ok {α β : Type} (a : α) (f : α → β) : (Res.ok a).map f = .ok (f a) := rfl
theorem Res.map_ub {α β : Type} (f : α → β) : (Res.ub : Res α).map f = .ub := rfl
theorem Res.map_stuck {α β : Type} (f : α → β) : (Res.stuck : Res α).map f = .stuck := rfl
theorem Res.andThen_ok {α : Type} (a : α) (k : α → Outcome ⊕ St) : (Res.ok a).andThen k = k a := rfl
theorem Res.andThen_ub {α : Type} (k : α → Outcome ⊕ St) : (Res.ub : Res α).andThen k = .inl .ub := rfl
theorem Res.andThen_stuck {α : Type} (k : α → Outcome ⊕ St) : (Res.stuck : Res α).andThen k = .inl .stuck := rfl
theorem finish_inl (o : Outcome) : finish (.inl o) = o := rfl
theorem finish_inr (s : St) : finish (.inr s) = .stuck := rfl
theorem seqSt_inl (o : Outcome) (k : St → Outcome ⊕ St) : seqSt (.inl o) k = .inl o := rfl
theorem seqSt_inr (s : St) (k : St → Outcome ⊕ St) : seqSt (.inr s) k = k s := rfl
theorem orUB_some {α : Type} (a : α) (k : α → Outcome ⊕ St) : orUB (some a) k = k a := rfl
theorem orUB_none {α : Type} (k : α → Outcome ⊕ St) : orUB (none : Option α) k = .inl .ub := rfl
theorem orStuck_some {α : Type} (a : α) (k : α → Outcome ⊕ St) : orStuck (some a) k = k a := rfl
theorem orStuck_none {α : Type} (k : α → Outcome ⊕ St) : orStuck (none : Option α) k = .inl .stuck := rfl

section ite
variable {c : Prop} [Decidable c]
theorem Res.map_ite {α β : Type} (a b : Res α) (f : α → β) : (if c then a else b).map f = if c then a.map f else b.map f := by
  split <;> rfl
theorem orUB_ite {α : Type} (a b : Option α) (k : α → Outcome ⊕ St) : orUB (if c then a else b) k = if c then orUB a k else orUB b k := by
  split <;> rfl
theorem Res.bind_ite {α β : Type} (a b : Res α) (f : α → Res β) : (if c then a else b).bind f = if c then a.bind f else b.bind f := by
  split <;> rfl
theorem Res.andThen_ite {α : Type} (a b : Res α) (k : α → Outcome ⊕ St) :
    (if c then a else b).andThen k = if c then a.andThen k else b.andThen k := by
  split <;> rfl
theorem finish_ite (a b : Outcome ⊕ St) : finish (if c then a else b) = if c then finish a else finish b := by
  split <;> rfl
theorem seqSt_ite (a b : Outcome ⊕ St) (k : St → Outcome ⊕ St) : seqSt (if c then a else b) k = if c then seqSt a k else seqSt b k := by
  split <;> rfl
theorem conv_ite (t : CTy) (a b : CVal) : conv t (if c then a else b) = if c then conv t a else conv t b := by
  split <;> rfl
theorem castTo_ite (t : CastTy) (a b : CVal) : castTo t (if c then a else b) = if c then castTo t a else castTo t b := by
  split <;> rfl
theorem ty_ite (a b : CVal) : (if c then a else b).ty = if c then a.ty else b.ty := by
  split <;> rfl
theorem isZero_ite (a b : CVal) : (if c then a else b).isZero = if c then a.isZero else b.isZero := by
  split <;> rfl
theorem wide_ite (a b : CVal) : (if c then a else b).wide = if c then a.wide else b.wide := by
  split <;> rfl
theorem resok_ite {α : Type} (a b : α) : (Res.ok (if c then a else b)) = if c then Res.ok a else Res.ok b := by
  split <;> rfl
theorem writeL_ite (s : St) (l : LHS) (a b : CVal) : writeL s l (if c then a else b) = if c then writeL s l a else writeL s l b := by
  split <;> rfl
end ite

end WaVerif.C03
