/-!
# C07 — model: formatting = print ∘ parse, import sorting, tree equality modulo import order

Core Lean only.  The layout engine (a go/printer derivative) is NOT modelled; what is modelled is the
algebra around it:

* `format = print ∘ parse` over an abstract language (`Lang`);
* `sortImports`: what `ast.SortImports` does to one run of import specs (consecutive lines of one
  parenthesised import block): sort by (path, name, line comment), then drop a spec when the next one
  has the same path and name and the dropped one carries no line comment;
* `Tree`/`astEq`: a position-free syntax tree is its import runs + everything else; two trees are
  equal "modulo import order" when they agree after `sortImports` on every run.

Strings are abstracted to naturals (the driver interns paths/names/comments order-preservingly; `0`
is "no comment").
-/
namespace WaVerif.C07

/-! ## format = print ∘ parse -/

structure Lang (Src Ast : Type) where
  parse : Src → Option Ast
  print : Ast → Src
  /-- the equivalence the round trip is stated up to (≈) -/
  eqv : Ast → Ast → Prop

def format {Src Ast : Type} (L : Lang Src Ast) (s : Src) : Option Src := (L.parse s).map L.print

/-- format ∘ format in the Kleisli sense (formatting the result of a successful formatting) -/
def formatTwice {Src Ast : Type} (L : Lang Src Ast) (s : Src) : Option Src := (format L s).bind (format L)

/-- `t` is the tree of some source text -/
def InRange {Src Ast : Type} (L : Lang Src Ast) (t : Ast) : Prop := ∃ s, L.parse s = some t

/-- round trip up to ≈ : printing a parsed tree gives text that parses to an equivalent tree -/
def RoundTrip {Src Ast : Type} (L : Lang Src Ast) : Prop :=
  ∀ t, InRange L t → ∃ t', L.parse (L.print t) = some t' ∧ L.eqv t' t

/-- the printer does not distinguish equivalent trees -/
def PrintRespects {Src Ast : Type} (L : Lang Src Ast) : Prop :=
  ∀ t t', L.eqv t t' → L.print t = L.print t'

/-! ## import sorting -/

structure Imp where
  path : Nat
  name : Nat
  comment : Nat     -- 0 = no line comment
deriving DecidableEq, Repr

/-- the order of `sort.Slice` in `sortSpecs`: path, then name, then comment text -/
def impLe (a b : Imp) : Bool :=
  a.path < b.path || (a.path == b.path && (a.name < b.name || (a.name == b.name && a.comment ≤ b.comment)))

/-- `collapse(prev, next)`: prev may be removed, leaving only next -/
def collapse (a b : Imp) : Bool := a.path == b.path && a.name == b.name && a.comment == 0

/-- insertion into a sorted list, after every element that is ≤ (stable) -/
def insertImp (a : Imp) : List Imp → List Imp
  | [] => [a]
  | b :: l => if impLe b a then b :: insertImp a l else a :: b :: l

/-- stable insertion sort by `impLe` -/
def sortRun : List Imp → List Imp
  | [] => []
  | a :: l => insertImp a (sortRun l)

/-- the de-duplication pass over adjacent pairs -/
def dedupRun : List Imp → List Imp
  | [] => []
  | [a] => [a]
  | a :: b :: l => if collapse a b then dedupRun (b :: l) else a :: dedupRun (b :: l)

def sortImports (l : List Imp) : List Imp := dedupRun (sortRun l)

/-! ## trees -/

/-- a position-free syntax tree: the runs of import specs and the rest (`R` is any type with
decidable equality — the dump of everything else, comments included) -/
structure Tree (R : Type) where
  runs : List (List Imp)
  rest : R

def Tree.normalize {R : Type} (t : Tree R) : Tree R := { t with runs := t.runs.map sortImports }

/-- what `ast.SortImports` does to a tree -/
def Tree.applySort {R : Type} (t : Tree R) : Tree R := t.normalize

/-- equality of position-free trees modulo the order (and removable duplicates) inside one import run -/
def astEq {R : Type} (t u : Tree R) : Prop := t.normalize = u.normalize

instance {R : Type} [DecidableEq R] : DecidableEq (Tree R) := fun a b => by
  cases a; cases b; simp only [Tree.mk.injEq]; exact inferInstance

instance {R : Type} [DecidableEq R] (t u : Tree R) : Decidable (astEq t u) := by
  unfold astEq; exact inferInstance

end WaVerif.C07
