/-!
# C17 — x86-64 (bonus): REX / ModRM / SIB / displacement for `op reg, [base + disp]`

Written from the Intel SDM vol. 2 ch. 2 ("Instruction Format"): ModRM = mod(2) reg(3) rm(3),
SIB = scale(2) index(3) base(3), REX = 0100WRXB; rm = 100 announces a SIB byte, mod = 00 with
rm/base = 101 means "no base, disp32", so rbp/r13 as base always carry a displacement; registers
8..15 put their high bit into REX.R / REX.B.  Core Lean only; bytes are naturals < 256.
-/
namespace WaVerif.C17.X64

def modrm (md reg rm : Nat) : Nat := md * 64 + reg * 8 + rm
def unModrm (b : Nat) : Nat × Nat × Nat := (b / 64, b / 8 % 8, b % 8)

def sib (scale index base : Nat) : Nat := scale * 64 + index * 8 + base

def rex (w r x b : Nat) : Nat := 64 + w * 8 + r * 4 + x * 2 + b

/-- little-endian bytes of a 32-bit two's complement displacement -/
def disp32 (d : Int) : List Nat :=
  let u := (d % 4294967296).toNat
  [u % 256, u / 256 % 256, u / 65536 % 256, u / 16777216 % 256]

def disp8 (d : Int) : Nat := (d % 256).toNat

def sext8 (b : Nat) : Int := if b ≥ 128 then (b : Int) - 256 else b
def sext32 (u : Nat) : Int := if u ≥ 2147483648 then (u : Int) - 4294967296 else u

/-- `[REX] opcode ModRM [SIB] [disp]` for `op reg, [base + disp]` with a one-byte opcode; `w` = 64-bit
operand size.  The shortest displacement form is chosen (none / disp8 / disp32). -/
def encodeRM (opc w reg base : Nat) (d : Int) : List Nat :=
  let rx := rex w (reg / 8) 0 (base / 8)
  let pre := if rx = 64 then [] else [rx]
  let lowb := base % 8
  let needSib := lowb = 4
  let rm := if needSib then 4 else lowb
  let sibB := if needSib then [sib 0 4 4] else []
  if d = 0 ∧ lowb ≠ 5 then pre ++ [opc, modrm 0 (reg % 8) rm] ++ sibB
  else if -128 ≤ d ∧ d ≤ 127 then pre ++ [opc, modrm 1 (reg % 8) rm] ++ sibB ++ [disp8 d]
  else pre ++ [opc, modrm 2 (reg % 8) rm] ++ sibB ++ disp32 d

/-- decoder for exactly that instruction shape: returns (w, reg, base, disp) -/
def decodeRM (opc : Nat) (bs : List Nat) : Option (Nat × Nat × Nat × Int) :=
  let (rx, rest) := match bs with
    | b :: r => if 64 ≤ b ∧ b < 80 then (b, r) else (64, bs)
    | [] => (64, bs)
  let w := (rx - 64) / 8 % 2
  let r := (rx - 64) / 4 % 2
  let b := (rx - 64) % 2
  match rest with
  | o :: m :: tail =>
    if o ≠ opc then none else
    let (md, reg, rm) := unModrm m
    if md = 3 then none else
    let (base, tail2) : Option Nat × List Nat :=
      if rm = 4 then
        match tail with
        | s :: t => if s / 8 % 8 = 4 ∧ s / 64 = 0 then (some (s % 8), t) else (none, t)
        | [] => (none, [])
      else (some rm, tail)
    match base with
    | none => none
    | some bl =>
      if md = 0 then
        if bl = 5 then none else
        if tail2 = [] then some (w, r * 8 + reg, b * 8 + bl, 0) else none
      else if md = 1 then
        match tail2 with
        | [d] => some (w, r * 8 + reg, b * 8 + bl, sext8 d)
        | _ => none
      else
        match tail2 with
        | [d0, d1, d2, d3] => some (w, r * 8 + reg, b * 8 + bl, sext32 (d0 + d1 * 256 + d2 * 65536 + d3 * 16777216))
        | _ => none
  | _ => none

end WaVerif.C17.X64
