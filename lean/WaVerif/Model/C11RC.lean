/-!
# C11 / C12 model: the reference-counting protocol of `waroot/src/runtime/heap.wat.ws`

A heap block carries a header `{refcount, item count, release callback, item size}` (byte offsets
`hdrRc … hdrItemSize`, regenerated check in the plugin) followed by its items.  `$runtime.Block.Retain`
increments the count; `$runtime.Block.Release` decrements it and, when it reaches zero, runs the release
callback over every item (which calls `Block.Release` on each reference stored in the item) and then
`HeapFree`s the block.

The model abstracts a block to `{rc, kids}`: the count and the multiset of (non-null) references stored
in its items.  `Block.Release` is a small-step machine with an explicit stack (one frame per block whose
count reached zero, holding the references of that block that are still to be released) — exactly the
recursion structure of the WAT code (`loop $free_next … call_indirect $$OnFree … end; call HeapFree`).

Null references are not modelled (both runtime functions return at once on 0).
Core Lean only.
-/
namespace WaVerif.C11

abbrev Addr := Nat

/-- header layout of a block (byte offsets), `heap.wat.ws: $runtime.Block.Init` -/
def hdrRc : Nat := 0
def hdrItemCount : Nat := 4
def hdrRelease : Nat := 8
def hdrItemSize : Nat := 12
def hdrSize : Nat := 16

structure Blk where
  rc : Nat
  kids : List Addr
deriving DecidableEq, Repr

/-- observable events, as logged by the instrumented run (`rc` = count read from the header BEFORE the call) -/
inductive Ev where
  | alloc (a : Addr)
  | retain (a : Addr) (rc : Nat)
  | release (a : Addr) (rc : Nat)
  | free (a : Addr)
deriving DecidableEq, Repr

def Ev.isFree : Ev → Bool
  | .free _ => true
  | _ => false

structure St where
  live : List Addr          -- allocated blocks
  blk : Addr → Blk          -- their contents (meaningful on `live`)
  roots : List Addr         -- references held by the mutator (locals, globals, operand stack): a multiset
  err : Bool                -- a protocol violation happened (release of a dead block / of count 0, double free)
  log : List Ev             -- newest first

/-- one activation of `Block.Release` whose count reached zero (`owner = some b`: `b` is freed when `rem` is
exhausted), or the mutator's own pending release (`owner = none`). -/
structure Frame where
  owner : Option Addr
  rem : List Addr

structure Cfg where
  st : St
  stk : List Frame

def St.setBlk (s : St) (a : Addr) (b : Blk) : St :=
  { s with blk := fun x => if x = a then b else s.blk x }

def St.fail (s : St) : St := { s with err := true }

def St.emit (s : St) (e : Ev) : St := { s with log := e :: s.log }

/-- `HeapFree b` -/
def St.free (s : St) (b : Addr) : St :=
  if b ∈ s.live then { s with live := s.live.erase b, log := Ev.free b :: s.log } else s.fail

/-- entry of `Block.Release k`: decrement; at zero open a frame that will run the release callback over the items. -/
def decr (k : Addr) (c : Cfg) : Cfg :=
  if k ∈ c.st.live then
    if (c.st.blk k).rc = 1 then
      { st := (c.st.setBlk k ⟨0, []⟩).emit (.release k 1), stk := ⟨some k, (c.st.blk k).kids⟩ :: c.stk }
    else if (c.st.blk k).rc = 0 then { c with st := c.st.fail }
    else { c with st := (c.st.setBlk k ⟨(c.st.blk k).rc - 1, (c.st.blk k).kids⟩).emit (.release k (c.st.blk k).rc) }
  else { c with st := c.st.fail }

def step (c : Cfg) : Cfg :=
  match c.stk with
  | [] => c
  | ⟨none, []⟩ :: rest => { c with stk := rest }
  | ⟨some b, []⟩ :: rest => { st := c.st.free b, stk := rest }
  | ⟨o, k :: ks⟩ :: rest => decr k { c with stk := ⟨o, ks⟩ :: rest }

def run : Nat → Cfg → Cfg
  | 0, c => c
  | n + 1, c => run n (step c)

/-- weight of a block for the termination measure -/
def wBlk (b : Blk) : Nat := b.kids.length + (if b.rc = 0 then 0 else 2)

/-- termination measure: strictly decreases with every step on a non-empty stack -/
def mu (c : Cfg) : Nat :=
  (c.stk.map fun f => f.rem.length + 1).sum + (c.st.live.map fun a => wBlk (c.st.blk a)).sum

/-- `Block.Release b` run to completion -/
def release (b : Addr) (s : St) : St :=
  let c : Cfg := ⟨s, [⟨none, [b]⟩]⟩
  (run (mu c) c).st

/-! ## the mutator -/

inductive Op where
  | alloc (a : Addr)          -- `Block.HeapAlloc` returned block `a`; the reference goes to the mutator
  | retain (b : Addr)         -- copy a reference the mutator can reach (a local, or a field of a block it holds)
  | store (x b : Addr)        -- move a held reference `b` into a field of held block `x`
  | unstore (x b : Addr)      -- overwrite a field of held block `x` that holds `b`: release the old value
  | drop (b : Addr)           -- a held reference goes out of scope: release it
deriving DecidableEq, Repr

/-- the mutator can reach `b`: it holds it, or a block it holds stores it -/
def Held (s : St) (b : Addr) : Prop := b ∈ s.roots ∨ ∃ x ∈ s.roots, b ∈ (s.blk x).kids

instance (s : St) (b : Addr) : Decidable (Held s b) := by unfold Held; exact inferInstance

/-- the mutator discipline: an operation only uses references the mutator actually holds -/
def Op.Ok (s : St) : Op → Prop
  | .alloc a => a ∉ s.live
  | .retain b => Held s b
  | .store x b => b ∈ s.roots ∧ x ∈ s.roots.erase b
  | .unstore x b => x ∈ s.roots ∧ b ∈ (s.blk x).kids
  | .drop b => b ∈ s.roots

instance (s : St) (op : Op) : Decidable (op.Ok s) := by
  cases op <;> unfold Op.Ok <;> exact inferInstance

def apply (s : St) : Op → St
  | .alloc a =>
      { (s.setBlk a ⟨1, []⟩) with live := a :: s.live, roots := a :: s.roots, log := .alloc a :: s.log }
  | .retain b =>
      { (s.setBlk b ⟨(s.blk b).rc + 1, (s.blk b).kids⟩) with
          roots := b :: s.roots, log := .retain b (s.blk b).rc :: s.log }
  | .store x b =>
      { (s.setBlk x ⟨(s.blk x).rc, b :: (s.blk x).kids⟩) with roots := s.roots.erase b }
  | .unstore x b =>
      release b (s.setBlk x ⟨(s.blk x).rc, (s.blk x).kids.erase b⟩)
  | .drop b =>
      release b { s with roots := s.roots.erase b }

def applyAll (s : St) : List Op → St
  | [] => s
  | op :: ops => applyAll (apply s op) ops

/-- every operation of the list satisfies the discipline in the state it is applied to -/
def AllOk : St → List Op → Prop
  | _, [] => True
  | s, op :: ops => op.Ok s ∧ AllOk (apply s op) ops

instance decAllOk : (s : St) → (ops : List Op) → Decidable (AllOk s ops)
  | _, [] => isTrue trivial
  | s, op :: ops =>
    match (inferInstance : Decidable (op.Ok s)), decAllOk (apply s op) ops with
    | isTrue h1, isTrue h2 => isTrue ⟨h1, h2⟩
    | isFalse h1, _ => isFalse fun h => h1 h.1
    | _, isFalse h2 => isFalse fun h => h2 h.2

/-! ## reference counts -/

def heapRefs (s : St) (b : Addr) : Nat := (s.live.map fun a => (s.blk a).kids.count b).sum
def pendRefs (stk : List Frame) (b : Addr) : Nat := (stk.map fun f => f.rem.count b).sum
/-- number of references to `b`: in roots, in fields of blocks, and in the frames of releases in progress -/
def refsC (c : Cfg) (b : Addr) : Nat := c.st.roots.count b + heapRefs c.st b + pendRefs c.stk b
def refs (s : St) (b : Addr) : Nat := s.roots.count b + heapRefs s b
def dying (stk : List Frame) : List Addr := stk.filterMap (·.owner)

structure Inv (c : Cfg) : Prop where
  nodup : c.st.live.Nodup
  noerr : c.st.err = false
  dyNodup : (dying c.stk).Nodup
  dyLive : ∀ b ∈ dying c.stk, b ∈ c.st.live ∧ c.st.blk b = ⟨0, []⟩
  counted : ∀ b ∈ c.st.live, b ∉ dying c.stk → (c.st.blk b).rc = refsC c b ∧ 1 ≤ (c.st.blk b).rc
  noDangling : ∀ b, (b ∉ c.st.live ∨ b ∈ dying c.stk) → refsC c b = 0

/-- the `Owned` discipline: every reference held in a root or in a live block's field is matched by one count,
nothing refers to a block that is not allocated, and no protocol error has happened. -/
def Owned (s : St) : Prop := Inv ⟨s, []⟩

/-! ## reachability -/

inductive Reach (s : St) : Addr → Prop where
  | root {b} : b ∈ s.roots → Reach s b
  | kid {x b} : Reach s x → x ∈ s.live → b ∈ (s.blk x).kids → Reach s b

/-- no reference cycles among allocated blocks: a rank strictly decreases along every stored reference -/
def Acyclic (s : St) : Prop := ∃ rank : Addr → Nat, ∀ x ∈ s.live, ∀ k ∈ (s.blk x).kids, rank k < rank x

/-- blocks freed by going from `s` to `s'` -/
def freedBy (s s' : St) : List Addr := s.live.filter fun b => !(s'.live.contains b)

def empty : St := { live := [], blk := fun _ => ⟨0, []⟩, roots := [], err := false, log := [] }

/-! ## `$runtime.HeapAlloc`: the zero loop (transcribed by hand from heap.wat.ws; checked on every real allocation by the
instrumentation, oracle (c)).  `i32` wrap-around is not modelled (sizes are far below 2^32). -/

/-- linear memory as a byte map -/
abbrev Mem := Nat → Nat

/-- `i64.const 0; i64.store` at address `a` -/
def store64z (a : Nat) (m : Mem) : Mem := fun x => if a ≤ x ∧ x < a + 8 then 0 else m x

/-- `nbytes := (nbytes + 7) / 8 * 8` -/
def heapAllocSize (nbytes : Nat) : Nat := (nbytes + 7) / 8 * 8

/-- `loop $zero` with `k` iterations left: `nbytes -= 8; store64 (ptr + nbytes) 0; br_if nbytes ≠ 0` -/
def zeroLoop : Nat → Nat → Mem → Mem
  | 0, _, m => m
  | k + 1, ptr, m => zeroLoop k ptr (store64z (ptr + 8 * k) m)

/-- memory after `HeapAlloc nbytes` obtained `ptr` from malloc (`nbytes = 0` returns 0 before the loop) -/
def heapAllocZero (nbytes ptr : Nat) (m : Mem) : Mem :=
  if nbytes = 0 then m else zeroLoop (heapAllocSize nbytes / 8) ptr m

/-! ## example programs (used by the `example`s next to the theorems) -/

def exOps : List Op := [.alloc 1, .alloc 2, .store 1 2, .retain 2, .alloc 3, .store 2 3, .drop 2]

/-- a three-block chain 1 → 2 → 3 with 3 also held directly -/
def chainOps : List Op := [.alloc 1, .alloc 2, .alloc 3, .retain 3, .store 2 3, .store 1 2]

/-- state at the head of iteration `n` of a loop whose `i`-th iteration performs the operations `body i` -/
def iter (body : Nat → List Op) (s : St) : Nat → St
  | 0 => s
  | n + 1 => applyAll (iter body s n) (body n)

/-- example loop: a retained block 1; each iteration builds a two-block structure 10+2i → 11+2i and drops it -/
def loopStart : St := applyAll empty [.alloc 1]
def loopBody (i : Nat) : List Op :=
  [.alloc (10 + 2 * i), .alloc (11 + 2 * i), .store (10 + 2 * i) (11 + 2 * i), .drop (10 + 2 * i)]

/-- two blocks referring to each other, then both references of the mutator dropped -/
def cycleOps : List Op :=
  [.alloc 1, .alloc 2, .store 1 2, .retain 2, .retain 1, .store 2 1, .drop 1, .drop 2]

/-- the structure retained across a loop iteration is left alone: same root members, every block of `s` still allocated
in `t` with the same fields -/
structure SameRetained (s t : St) : Prop where
  rootsTo : ∀ b ∈ t.roots, b ∈ s.roots
  rootsFrom : ∀ b ∈ s.roots, b ∈ t.roots
  kids : ∀ b ∈ s.live, b ∈ t.live ∧ (t.blk b).kids = (s.blk b).kids

/-! ## trace replay (what the driver `wamodel_c11` runs on the events observed in the real run)

State: the count of every allocated block and the stack of blocks whose count reached zero and whose
`free` has not been seen yet (innermost first).  The real header keeps the value 1 while the block is
being destroyed (the store is skipped on the zero branch), so does the replay. -/

structure RS where
  cnt : List (Addr × Nat)
  pending : List Addr
  frees : Nat
deriving Repr

def RS.init : RS := ⟨[], [], 0⟩

def lookupCnt (l : List (Addr × Nat)) (a : Addr) : Option Nat := (l.find? (·.1 == a)).map (·.2)
def setCnt (l : List (Addr × Nat)) (a : Addr) (n : Nat) : List (Addr × Nat) :=
  l.map fun p => if p.1 == a then (a, n) else p
def delCnt (l : List (Addr × Nat)) (a : Addr) : List (Addr × Nat) := l.filter (·.1 != a)

inductive TOp where
  | reset | alloc (a : Addr) | retain (a : Addr) | release (a : Addr) | free (a : Addr) | fin

/-- one event: new state and the model's answer (count before the call / verdict) -/
def replay (r : RS) : TOp → RS × String
  | .reset => (RS.init, "ok")
  | .alloc a =>
    match lookupCnt r.cnt a with
    | some _ => (r, "live")
    | none => ({ r with cnt := (a, 1) :: r.cnt }, "ok")
  | .retain a =>
    match lookupCnt r.cnt a with
    | none => (r, "dead")
    | some n => ({ r with cnt := setCnt r.cnt a (n + 1) }, toString n)
  | .release a =>
    match lookupCnt r.cnt a with
    | none => (r, "dead")
    | some n =>
      if n = 1 then ({ r with pending := a :: r.pending }, "1")
      else ({ r with cnt := setCnt r.cnt a (n - 1) }, toString n)
  | .free a =>
    match r.pending with
    | p :: rest =>
      if p = a then ({ cnt := delCnt r.cnt a, pending := rest, frees := r.frees + 1 }, "ok")
      else ({ r with cnt := delCnt r.cnt a }, s!"unexpected-free-predicted-{p}")
    | [] => ({ r with cnt := delCnt r.cnt a }, "unexpected-free-count-not-zero")
  | .fin => (r, s!"{r.cnt.length} {r.pending.length}")

end WaVerif.C11
