import WaVerif.Base.WasmNum
import WaVerif.Model.C03CExpr
/-!
# C03 — what a translated function has to do, per WebAssembly instruction (statement forms fixed by the instruction)

`Full`   : for every operand value and every memory, the C function returns WebAssembly's result with the memory unchanged
           where WebAssembly defines one, and aborts (wat2c's trap convention) where WebAssembly traps.
`Partial`: the same under an explicit operand guard (only used for rows whose `Full` statement is proved false).
`Sound`  : whenever the C function has defined behaviour and returns, WebAssembly defines that very result.
-/
namespace WaVerif.C03
open WaVerif.Wasm

/-- a WebAssembly integer value type and its carrier -/
def Ty.bits : Ty → Nat
  | .i32 => 32 | .i64 => 64

def mkC : (t : Ty) → BitVec (Ty.bits t) → CVal
  | .i32, v => .i32 v
  | .i64, v => .i64 v

/-- expected outcome of the C function for a WebAssembly result (`none` = trap) -/
def expect (t : Ty) (r : Option (BitVec (Ty.bits t))) (m : Mem) : Outcome :=
  match r with
  | some v => .ret (some (mkC t v)) m
  | none => .trap

/-! ### WebAssembly semantics of the rows (from Base/WasmNum.lean) -/
def wBin (t : Ty) (k : BinK) (x y : BitVec (Ty.bits t)) : Option (BitVec (Ty.bits t)) := binop k x y
def wRel (t : Ty) (k : RelK) (x y : BitVec (Ty.bits t)) : Option (BitVec 32) := some (b2i (relop k x y))
def wEqz (t : Ty) (x : BitVec (Ty.bits t)) : Option (BitVec 32) := some (b2i (x == 0))
def wUn (t : Ty) (k : UnK) (x : BitVec (Ty.bits t)) : Option (BitVec (Ty.bits t)) := some (Wasm.unop k x)
def wWrap (x : BitVec 64) : Option (BitVec 32) := some (x.setWidth 32)
def wExtS (x : BitVec 32) : Option (BitVec 64) := some (x.signExtend 64)
def wExtU (x : BitVec 32) : Option (BitVec 64) := some (x.setWidth 64)
def wSelect (t : Ty) (a b : BitVec (Ty.bits t)) (c : BitVec 32) : Option (BitVec (Ty.bits t)) := some (if c = 0 then b else a)

/-! ### statement forms -/
def Full1 (ta tr : Ty) (spec : BitVec (Ty.bits ta) → Option (BitVec (Ty.bits tr))) (f : CFunc) : Prop :=
  ∀ (x : BitVec (Ty.bits ta)) (m : Mem), crun f [mkC ta x] m = expect tr (spec x) m

def Full2 (ta tb tr : Ty) (spec : BitVec (Ty.bits ta) → BitVec (Ty.bits tb) → Option (BitVec (Ty.bits tr))) (f : CFunc) : Prop :=
  ∀ (x : BitVec (Ty.bits ta)) (y : BitVec (Ty.bits tb)) (m : Mem), crun f [mkC ta x, mkC tb y] m = expect tr (spec x y) m

def Full3 (ta tb tc tr : Ty)
    (spec : BitVec (Ty.bits ta) → BitVec (Ty.bits tb) → BitVec (Ty.bits tc) → Option (BitVec (Ty.bits tr))) (f : CFunc) : Prop :=
  ∀ (x : BitVec (Ty.bits ta)) (y : BitVec (Ty.bits tb)) (z : BitVec (Ty.bits tc)) (m : Mem),
    crun f [mkC ta x, mkC tb y, mkC tc z] m = expect tr (spec x y z) m

def Partial1 (ta tr : Ty) (G : BitVec (Ty.bits ta) → Prop)
    (spec : BitVec (Ty.bits ta) → Option (BitVec (Ty.bits tr))) (f : CFunc) : Prop :=
  ∀ (x : BitVec (Ty.bits ta)) (m : Mem), G x → crun f [mkC ta x] m = expect tr (spec x) m

def Partial2 (ta tb tr : Ty) (G : BitVec (Ty.bits ta) → BitVec (Ty.bits tb) → Prop)
    (spec : BitVec (Ty.bits ta) → BitVec (Ty.bits tb) → Option (BitVec (Ty.bits tr))) (f : CFunc) : Prop :=
  ∀ (x : BitVec (Ty.bits ta)) (y : BitVec (Ty.bits tb)) (m : Mem), G x y → crun f [mkC ta x, mkC tb y] m = expect tr (spec x y) m

def Sound2 (ta tb tr : Ty) (spec : BitVec (Ty.bits ta) → BitVec (Ty.bits tb) → Option (BitVec (Ty.bits tr))) (f : CFunc) : Prop :=
  ∀ (x : BitVec (Ty.bits ta)) (y : BitVec (Ty.bits tb)) (m : Mem) (v : Option CVal) (m' : Mem),
    crun f [mkC ta x, mkC tb y] m = .ret v m' → expect tr (spec x y) m = .ret v m'

/-! ### operand guards of the `_partial` theorems (fixed by the instruction, independent of the emitted C) -/
namespace Guard
/-- no signed overflow -/
def addOk {w : Nat} (x y : BitVec w) : Prop := BitVec.saddOverflow x y = false
def subOk {w : Nat} (x y : BitVec w) : Prop := BitVec.ssubOverflow x y = false
def mulOk {w : Nat} (x y : BitVec w) : Prop := BitVec.smulOverflow x y = false
/-- the division is defined in both languages -/
def divS {w : Nat} (x y : BitVec w) : Prop := y ≠ 0 ∧ ¬(x = BitVec.intMin w ∧ y = -1)
def divU {w : Nat} (_x y : BitVec w) : Prop := y ≠ 0
/-- shift count below the width (as an unsigned number) -/
def cnt32 (_x y : BitVec 32) : Prop := y.ult 32#32 = true
/-- the count (mod width) is `c`, the value is non-negative and `x·2^c` is representable as a non-negative signed number -/
def shlRepr {w : Nat} (x c : BitVec w) : Prop := x.msb = false ∧ (x <<< c).sshiftRight' c = x
def shl32 (x y : BitVec 32) : Prop := y.ult 32#32 = true ∧ shlRepr x y
def shl64 (x y : BitVec 64) : Prop := shlRepr x (y % 64#64)
/-- rotations: the value is non-negative, the left-shifted part is representable, and `width - count` does not overflow -/
def rotl32 (x y : BitVec 32) : Prop := shlRepr x (y % 32#32) ∧ BitVec.ssubOverflow 31#32 y = false ∧ BitVec.saddOverflow (31#32 - y) 1#32 = false
def rotr32 (x y : BitVec 32) : Prop := shlRepr x ((32#32 - y) % 32#32) ∧ BitVec.ssubOverflow 31#32 y = false ∧ BitVec.saddOverflow (31#32 - y) 1#32 = false
def rotl64 (x y : BitVec 64) : Prop := shlRepr x (y % 64#64) ∧ BitVec.ssubOverflow 63#64 y = false ∧ BitVec.saddOverflow (63#64 - y) 1#64 = false
def rotr64 (x y : BitVec 64) : Prop := shlRepr x ((64#64 - y) % 64#64) ∧ BitVec.ssubOverflow 63#64 y = false ∧ BitVec.saddOverflow (63#64 - y) 1#64 = false
end Guard

end WaVerif.C03
