import WaVerif.Base.WasmNum
import WaVerif.Model.C03CExpr
/-!
# C03 — what a translated function has to do, per WebAssembly instruction (statement forms fixed by the instruction)

`Full`   : for every operand value and every memory, the C function returns WebAssembly's result with the memory unchanged
           where WebAssembly defines one, and aborts (wat2c's trap convention) where WebAssembly traps.
`Partial`: the same under an explicit operand guard (only used for rows whose `Full` statement is proved false).
`Sound`  : whenever the C function has defined behaviour and returns, WebAssembly defines that very result.
-/
namespace WaVerif.C03
open WaVerif.Wasm

/-- expected outcome of the C function for a WebAssembly result (`none` = trap); `inj` is the C type of the result -/
def expect {w : Nat} (inj : BitVec w → CVal) (r : Option (BitVec w)) (m : Mem) : Outcome :=
  match r with
  | some v => .ret (some (inj v)) m
  | none => .trap

theorem expect_some {w : Nat} (inj : BitVec w → CVal) (v : BitVec w) (m : Mem) : expect inj (some v) m = .ret (some (inj v)) m := rfl
theorem expect_none {w : Nat} (inj : BitVec w → CVal) (m : Mem) : expect inj none m = .trap := rfl
theorem expect_ite {w : Nat} {c : Prop} [Decidable c] (inj : BitVec w → CVal) (a b : Option (BitVec w)) (m : Mem) :
    expect inj (if c then a else b) m = if c then expect inj a m else expect inj b m := by
  split <;> rfl

/-! ### WebAssembly semantics of the rows (from Base/WasmNum.lean) -/
def wBin {w : Nat} (k : BinK) (x y : BitVec w) : Option (BitVec w) := binop k x y
def wRel {w : Nat} (k : RelK) (x y : BitVec w) : Option (BitVec 32) := some (b2i (relop k x y))
def wEqz {w : Nat} (x : BitVec w) : Option (BitVec 32) := some (b2i (x == 0))
def wUn {w : Nat} (k : UnK) (x : BitVec w) : Option (BitVec w) := some (Wasm.unop k x)
def wWrap (x : BitVec 64) : Option (BitVec 32) := some (x.setWidth 32)
def wExtS (x : BitVec 32) : Option (BitVec 64) := some (x.signExtend 64)
def wExtU (x : BitVec 32) : Option (BitVec 64) := some (x.setWidth 64)
def wSelect {w : Nat} (a b : BitVec w) (c : BitVec 32) : Option (BitVec w) := some (if c = 0 then b else a)
def wConst {w : Nat} (c : BitVec w) : Option (BitVec w) := some c

/-! ### statement forms (`ia ib ic ir` are `CVal.i32` / `CVal.i64`: the C parameter and result types) -/
def Full0 {wr : Nat} (ir : BitVec wr → CVal) (spec : Option (BitVec wr)) (f : CFunc) : Prop :=
  ∀ (m : Mem), crun f [] m = expect ir spec m

def Full1 {wa wr : Nat} (ia : BitVec wa → CVal) (ir : BitVec wr → CVal) (spec : BitVec wa → Option (BitVec wr)) (f : CFunc) : Prop :=
  ∀ (x : BitVec wa) (m : Mem), crun f [ia x] m = expect ir (spec x) m

def Full2 {wa wb wr : Nat} (ia : BitVec wa → CVal) (ib : BitVec wb → CVal) (ir : BitVec wr → CVal)
    (spec : BitVec wa → BitVec wb → Option (BitVec wr)) (f : CFunc) : Prop :=
  ∀ (x : BitVec wa) (y : BitVec wb) (m : Mem), crun f [ia x, ib y] m = expect ir (spec x y) m

def Full3 {wa wb wc wr : Nat} (ia : BitVec wa → CVal) (ib : BitVec wb → CVal) (ic : BitVec wc → CVal) (ir : BitVec wr → CVal)
    (spec : BitVec wa → BitVec wb → BitVec wc → Option (BitVec wr)) (f : CFunc) : Prop :=
  ∀ (x : BitVec wa) (y : BitVec wb) (z : BitVec wc) (m : Mem), crun f [ia x, ib y, ic z] m = expect ir (spec x y z) m

def Partial1 {wa wr : Nat} (ia : BitVec wa → CVal) (ir : BitVec wr → CVal) (G : BitVec wa → Prop)
    (spec : BitVec wa → Option (BitVec wr)) (f : CFunc) : Prop :=
  ∀ (x : BitVec wa) (m : Mem), G x → crun f [ia x] m = expect ir (spec x) m

def Partial2 {wa wb wr : Nat} (ia : BitVec wa → CVal) (ib : BitVec wb → CVal) (ir : BitVec wr → CVal) (G : BitVec wa → BitVec wb → Prop)
    (spec : BitVec wa → BitVec wb → Option (BitVec wr)) (f : CFunc) : Prop :=
  ∀ (x : BitVec wa) (y : BitVec wb) (m : Mem), G x y → crun f [ia x, ib y] m = expect ir (spec x y) m

def Sound1 {wa wr : Nat} (ia : BitVec wa → CVal) (ir : BitVec wr → CVal) (spec : BitVec wa → Option (BitVec wr)) (f : CFunc) : Prop :=
  ∀ (x : BitVec wa) (m : Mem) (v : Option CVal) (m' : Mem), crun f [ia x] m = .ret v m' → expect ir (spec x) m = .ret v m'

def Sound2 {wa wb wr : Nat} (ia : BitVec wa → CVal) (ib : BitVec wb → CVal) (ir : BitVec wr → CVal)
    (spec : BitVec wa → BitVec wb → Option (BitVec wr)) (f : CFunc) : Prop :=
  ∀ (x : BitVec wa) (y : BitVec wb) (m : Mem) (v : Option CVal) (m' : Mem),
    crun f [ia x, ib y] m = .ret v m' → expect ir (spec x y) m = .ret v m'

/-! ### operand guards of the `_partial` theorems (fixed by the instruction, independent of the emitted C) -/
namespace Guard
/-- no signed overflow -/
abbrev addOk {w : Nat} (x y : BitVec w) : Prop := BitVec.saddOverflow x y = false
abbrev subOk {w : Nat} (x y : BitVec w) : Prop := BitVec.ssubOverflow x y = false
abbrev mulOk {w : Nat} (x y : BitVec w) : Prop := BitVec.smulOverflow x y = false
/-- the division is defined in both languages -/
abbrev divS {w : Nat} (x y : BitVec w) : Prop := y ≠ 0 ∧ ¬(x = BitVec.intMin w ∧ y = -1)
abbrev divU {w : Nat} (_x y : BitVec w) : Prop := y ≠ 0
/-- shift count below the width (as an unsigned number) -/
abbrev cnt32 (_x y : BitVec 32) : Prop := y.ult 32#32 = true
/-- the count (mod width) is `c`, the value is non-negative and `x·2^c` is representable as a non-negative signed number -/
abbrev shlRepr {w : Nat} (x c : BitVec w) : Prop := x.msb = false ∧ (x <<< c).sshiftRight' c = x
abbrev shl32 (x y : BitVec 32) : Prop := y.ult 32#32 = true ∧ shlRepr x y
abbrev shl64 (x y : BitVec 64) : Prop := shlRepr x (y % 64#64)
/-- rotations: the value is non-negative, the left-shifted part is representable, and `width - count` does not overflow -/
abbrev rotl32 (x y : BitVec 32) : Prop := shlRepr x (y % 32#32) ∧ BitVec.ssubOverflow 31#32 y = false ∧ BitVec.saddOverflow (31#32 - y) 1#32 = false
abbrev rotr32 (x y : BitVec 32) : Prop := shlRepr x ((32#32 - y) % 32#32) ∧ BitVec.ssubOverflow 31#32 y = false ∧ BitVec.saddOverflow (31#32 - y) 1#32 = false
abbrev rotl64 (x y : BitVec 64) : Prop := shlRepr x (y % 64#64) ∧ BitVec.ssubOverflow 63#64 y = false ∧ BitVec.saddOverflow (63#64 - y) 1#64 = false
abbrev rotr64 (x y : BitVec 64) : Prop := shlRepr x ((64#64 - y) % 64#64) ∧ BitVec.ssubOverflow 63#64 y = false ∧ BitVec.saddOverflow (63#64 - y) 1#64 = false
end Guard

end WaVerif.C03
