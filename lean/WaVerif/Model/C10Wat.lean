import WaVerif.Model.C10
/-!
# C10 — a small interpreter for the straight-line WAT subset used by the allocator's helper functions

Core Lean only, executable.  i32 values are `Int`s in `[-2^31, 2^31)`; every arithmetic result is
wrapped (`wrap32`).  Instructions are a tree (`if`/`block` carry their bodies); `loop`, `br` and memory
instructions are NOT in the subset — the extractor (extract/c10_wat2lean.py) refuses functions that use them.
The term interpreted is regenerated from /repo's malloc.wat on every run (Gen/C10Wat.lean).
-/
namespace WaVerif.C10.Wat

inductive Instr where
  | localGet (i : Nat) | localSet (i : Nat) | localTee (i : Nat)
  | globalGet (g : String)
  | i32Const (v : Int)
  | i32Add | i32Sub | i32Mul | i32DivS | i32RemS
  | i32LeS | i32LtS | i32GtS | i32GeS | i32Eq | i32Ne | i32Eqz
  | drop
  | unreachable
  | ifElse (t e : List Instr)
  | block (b : List Instr)
  | ret
  | call (f : String)
deriving Repr

structure Func where
  name : String
  params : Nat
  locals : Nat      -- declared locals (beyond the parameters)
  results : Nat
  body : List Instr
deriving Repr

def wrap32 (x : Int) : Int := (x + 2147483648) % 4294967296 - 2147483648

def b2i (b : Bool) : Int := if b then 1 else 0

inductive Ctl where | next | returned
deriving Repr, DecidableEq

structure St where
  locals : List Int
  stack : List Int
deriving Repr

def findFunc (fs : List Func) (n : String) : Option Func := fs.find? (fun f => f.name == n)

/-- `none` = trap (unreachable, division by zero / overflow, stack underflow, unknown function, out of fuel) -/
def divS (a b : Int) : Option Int :=
  if b = 0 then none else if a = -2147483648 ∧ b = -1 then none else some (wrap32 (Int.tdiv a b))
def remS (a b : Int) : Option Int :=
  if b = 0 then none else some (wrap32 (Int.tmod a b))

/-- sequencing: continue with `k` after a result that fell through, stop on trap / `return` -/
def seqK (r : Option (Ctl × St)) (k : St → Option (Ctl × St)) : Option (Ctl × St) :=
  match r with
  | some (.next, s') => k s'
  | r => r

/-- the effect of `call`: callee result `r` (started on an empty stack), caller stack `st` -/
def callRet (fn : Func) (s : St) (r : Option (Ctl × St)) : Option (Ctl × St) :=
  match r with
  | some (_, s') =>
    if s'.stack.length < fn.results then none
    else some (.next, { s with stack := s'.stack.take fn.results ++ s.stack.drop fn.params })
  | none => none

mutual
def step (fs : List Func) (gl : String → Int) (fuel : Nat) (i : Instr) (s : St) : Option (Ctl × St) :=
  match fuel with
  | 0 => none
  | fuel + 1 =>
  match i, s.stack with
  | .localGet k, st => some (.next, { s with stack := s.locals.getD k 0 :: st })
  | .localSet k, v :: st => some (.next, { locals := s.locals.set k v, stack := st })
  | .localTee k, v :: st => some (.next, { locals := s.locals.set k v, stack := v :: st })
  | .globalGet g, st => some (.next, { s with stack := gl g :: st })
  | .i32Const v, st => some (.next, { s with stack := wrap32 v :: st })
  | .i32Add, b :: a :: st => some (.next, { s with stack := wrap32 (a + b) :: st })
  | .i32Sub, b :: a :: st => some (.next, { s with stack := wrap32 (a - b) :: st })
  | .i32Mul, b :: a :: st => some (.next, { s with stack := wrap32 (a * b) :: st })
  | .i32DivS, b :: a :: st => (divS a b).map fun r => (.next, { s with stack := r :: st })
  | .i32RemS, b :: a :: st => (remS a b).map fun r => (.next, { s with stack := r :: st })
  | .i32LeS, b :: a :: st => some (.next, { s with stack := b2i (decide (a ≤ b)) :: st })
  | .i32LtS, b :: a :: st => some (.next, { s with stack := b2i (decide (a < b)) :: st })
  | .i32GtS, b :: a :: st => some (.next, { s with stack := b2i (decide (a > b)) :: st })
  | .i32GeS, b :: a :: st => some (.next, { s with stack := b2i (decide (a ≥ b)) :: st })
  | .i32Eq, b :: a :: st => some (.next, { s with stack := b2i (decide (a = b)) :: st })
  | .i32Ne, b :: a :: st => some (.next, { s with stack := b2i (decide (a ≠ b)) :: st })
  | .i32Eqz, a :: st => some (.next, { s with stack := b2i (decide (a = 0)) :: st })
  | .drop, _ :: st => some (.next, { s with stack := st })
  | .unreachable, _ => none
  | .ifElse t e, c :: st =>
    if c ≠ 0 then run fs gl fuel t { s with stack := st } else run fs gl fuel e { s with stack := st }
  | .block b, _ => run fs gl fuel b s
  | .ret, _ => some (.returned, s)
  | .call f, st =>
    match findFunc fs f with
    | none => none
    | some fn =>
      if st.length < fn.params then none else
      callRet fn s (run fs gl fuel fn.body
        { locals := (st.take fn.params).reverse ++ List.replicate fn.locals 0, stack := [] })
  | _, _ => none
def run (fs : List Func) (gl : String → Int) (fuel : Nat) (is : List Instr) (s : St) : Option (Ctl × St) :=
  match fuel with
  | 0 => none
  | fuel + 1 =>
  match is with
  | [] => some (.next, s)
  | i :: rest => seqK (step fs gl fuel i s) (run fs gl fuel rest)
end

/-- call function `name` with `args` (first parameter first); results in declaration order -/
def callFuel (fs : List Func) (gl : String → Int) (fuel : Nat) (name : String) (args : List Int) : Option (List Int) :=
  (findFunc fs name).bind fun fn =>
    (step fs gl fuel (.call name) { locals := [], stack := args.reverse }).map fun r =>
      (r.2.stack.take fn.results).reverse

def callFn (fs : List Func) (gl : String → Int) (name : String) (args : List Int) : Option (List Int) :=
  callFuel fs gl 400 name args

/-- the module's globals as far as the helper functions read them, from the template parameters -/
def glOf (c : WaVerif.C10.Config) (g : String) : Int :=
  if g = "__heap_base" then c.heapBase
  else if g = "__heap_lfixed_cap" then c.cap
  else if g = "__stack_ptr" then c.stackPtr
  else 0

end WaVerif.C10.Wat
