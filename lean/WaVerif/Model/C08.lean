/-!
# C08 — model of the language dispatch (`xlang.DetectLang` + the switch of `format.File`)

Only the decision logic is modelled; the scanners, parsers and the type checker are NOT (they are
explored by harness/c08, see checks/c08.py).

Input of the model: the file name (bytes, as `Char`s < 256) and, for each of the three scanners that
`DetectLang` runs over the content, the sequence of *token classes* the scanner produces (the harness
computes them with the real scanners and the real predicates `IsKeyword`, `LookupEx`, …).

The data of the dispatch — extension table, suffix table, what the Wa loop does with a token it
does not recognise, the `format.File` switch and its default branch — is a `Cfg`; the current
source's `Cfg` is regenerated into `Gen/C08.lean` on every run (extract/c08_extract.go).
-/
namespace WaVerif.C08

inductive Lang | unknown | wa | wz | wat | nasm
  deriving DecidableEq, Repr

inductive Outcome | formatWa | formatWz | passThrough | error | PANIC
  deriving DecidableEq, Repr

/-- classes of the tokens of the Wa scanner, as `DetectLang` tests them (in this order) -/
inductive WaTok
  | eof | illegal
  | keyword      -- `tok.IsKeyword()`: an English keyword
  | wzIdent      -- IDENT with `LookupEx(lit, true) != IDENT`: a Chinese keyword spelled as identifier
  | wzMark       -- `tok.IsWzKeyword() || tok.IsWzComment(lit)`
  | comment      -- any other comment
  | other
  deriving DecidableEq, Repr

/-- classes of the tokens of the native-assembly and of the WAT scanner -/
inductive ATok | eof | illegal | keyword | comment | other
  deriving DecidableEq, Repr

/-- what the Wa loop does with a token of class `other` -/
inductive OtherAct | retUnknown | stop | skip
  deriving DecidableEq, Repr

structure Cfg where
  /-- `switch strings.ToLower(filepath.Ext(filename))` -/
  extTable : List (List Char × Lang)
  /-- `strings.HasSuffix(strings.ToLower(filename), key)`, in source order -/
  suffixTable : List (List Char × Lang)
  waOther : OtherAct
  /-- `switch xlang.DetectLang(...)` of `format.File` -/
  fmtTable : List (Lang × Outcome)
  fmtDefault : Outcome

/-- the tables of the pinned commit (hand-transcribed; `Gen/C08.lean` carries the current ones) -/
def cfgPinned : Cfg :=
  { extTable := [(['.', 'w', 'a'], .wa), (['.', 'w', 'z'], .wz), (['.', 'w', 'a', 't'], .wat)],
    suffixTable := [(['.', 'w', 'a', '.', 's'], .nasm), (['.', 'w', 'z', '.', 's'], .nasm)],
    waOther := .retUnknown,
    fmtTable := [(.wa, .formatWa), (.wz, .formatWz), (.wat, .passThrough), (.nasm, .passThrough)],
    fmtDefault := .PANIC }

/-- the repair proposed in proposed_fixes/C08-format-unknown-language.diff -/
def cfgRepaired : Cfg := { cfgPinned with fmtDefault := .error }

/-! ## file name -/

/-- ASCII lower-casing (what `strings.ToLower` does to the bytes that can match an ASCII table key) -/
def lowerAscii (c : Char) : Char :=
  if 'A' ≤ c ∧ c ≤ 'Z' then Char.ofNat (c.toNat + 32) else c

def lowerName (s : List Char) : List Char := s.map lowerAscii

/-- `filepath.Ext` scanning from the end: `extRev (reverse name) []` -/
def extRev : List Char → List Char → List Char
  | [], _ => []
  | c :: rest, acc =>
    if c = '/' then [] else if c = '.' then '.' :: acc else extRev rest (c :: acc)

/-- `filepath.Ext(name)`: from the last '.' of the last path element; "" if there is none -/
def goExt (name : List Char) : List Char := extRev name.reverse []

def suffixLookup (lname : List Char) : List (List Char × Lang) → Option Lang
  | [] => none
  | (k, l) :: rest => if k.isSuffixOf lname then some l else suffixLookup lname rest

/-- the part of `DetectLang` that looks at the file name only -/
def extLang (cfg : Cfg) (name : List Char) : Option Lang :=
  match cfg.extTable.lookup (lowerName (goExt name)) with
  | some l => some l
  | none => suffixLookup (lowerName name) cfg.suffixTable

/-! ## content: the three scanner loops -/

inductive Step | decided (l : Lang) | fallthrough
  deriving DecidableEq, Repr

/-- first loop (Wa scanner); the end of the list stands for EOF -/
def waStage (cfg : Cfg) : List WaTok → Step
  | [] => .fallthrough
  | .eof :: _ => .fallthrough
  | .illegal :: _ => .fallthrough
  | .keyword :: _ => .decided .wa
  | .wzIdent :: _ => .decided .wz
  | .wzMark :: _ => .decided .wz
  | .comment :: ts => waStage cfg ts
  | .other :: ts =>
    match cfg.waOther with
    | .retUnknown => .decided .unknown
    | .stop => .fallthrough
    | .skip => waStage cfg ts

/-- second and third loop (native assembly, WAT): a keyword before the first EOF/ILLEGAL decides -/
def aStage (l : Lang) : List ATok → Step
  | [] => .fallthrough
  | .eof :: _ => .fallthrough
  | .illegal :: _ => .fallthrough
  | .keyword :: _ => .decided l
  | .comment :: ts => aStage l ts
  | .other :: ts => aStage l ts

/-- `xlang.DetectLang` -/
def detect (cfg : Cfg) (name : List Char) (wa : List WaTok) (na wt : List ATok) : Lang :=
  match extLang cfg name with
  | some l => l
  | none =>
    match waStage cfg wa with
    | .decided l => l
    | .fallthrough =>
      match aStage .nasm na with
      | .decided l => l
      | .fallthrough =>
        match aStage .wat wt with
        | .decided l => l
        | .fallthrough => .unknown

/-- the switch of `format.File` (the list lookup's default IS the switch's default branch) -/
def formatOutcome (cfg : Cfg) (l : Lang) : Outcome :=
  match cfg.fmtTable.lookup l with
  | some o => o
  | none => cfg.fmtDefault

/-- `format.File` / `api.FormatCode`: which branch handles the input -/
def dispatch (cfg : Cfg) (name : List Char) (wa : List WaTok) (na wt : List ATok) : Outcome :=
  formatOutcome cfg (detect cfg name wa na wt)

/-! ## decidable conditions on a table -/

def allLangs : List Lang := [.unknown, .wa, .wz, .wat, .nasm]

/-- no language is sent to the panicking branch -/
def Sound (cfg : Cfg) : Bool := allLangs.all fun l => formatOutcome cfg l != .PANIC

/-- every language a file name can select has a non-panicking branch -/
def TablesSafe (cfg : Cfg) : Bool :=
  (cfg.extTable.all fun e => formatOutcome cfg e.2 != .PANIC) &&
  (cfg.suffixTable.all fun e => formatOutcome cfg e.2 != .PANIC)

/-! ## helpers for the characterisation -/

/-- the first token of the Wa scanner that is not a plain comment (EOF if there is none) -/
def waFirst : List WaTok → WaTok
  | [] => .eof
  | .comment :: ts => waFirst ts
  | t :: _ => t

/-- a keyword occurs before the first EOF/ILLEGAL -/
def hasKw : List ATok → Bool
  | [] => false
  | .eof :: _ => false
  | .illegal :: _ => false
  | .keyword :: _ => true
  | .comment :: ts => hasKw ts
  | .other :: ts => hasKw ts

end WaVerif.C08
