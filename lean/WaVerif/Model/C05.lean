/-!
# C05 — model of the WAT printer's output grammar and of a parser for it

Two layers.

* **Tokens and trees.**  `Tok` is the token alphabet (`(`, `)`, atoms that carry their value:
  keyword, instruction mnemonic, `$identifier`, string bytes, integer, float bit pattern).
  `flatten : SExp → List Tok` and `unflatten : List Tok → Option (List SExp)` (a stack machine).
  The character level (spelling of numbers, escapes in strings, white space) is *below* this model:
  it is the real scanner's business and is tied by the correspondence run only.
* **Module grammar.**  `Module` mirrors what `internal/wat/printer` prints of `ast.Module`, in the
  printer's field order (imports, exports, memory, table, types, globals, funcs, start, data, elem),
  with instructions as a FLAT list (`block … end`, `if … else … end` are ordinary mnemonics; nesting
  is not represented).  `print : Module → List Tok`, `parse : List Tok → Option Module`.
  The parser is written the way the real one is: a module is a sequence of fields, each dispatched on
  its head keyword and appended to its own list; a function header accepts `(export)`, `(param)`,
  `(result)`, `(local)` items up to the first instruction.

The grammar is the INTENDED one: it prints `(start $f)` and function exports that are not inline
(`(export "g" (func $g))`).  The real printer omits both (finding); the token-level correspondence
shows exactly that difference.

Outside this grammar (oracle only): `(import … (table …))` (the real printer panics "TODO"), unnamed
functions (the real printer indexes an empty string), instruction nesting, the character level.
-/
namespace WaVerif.C05

/-! ## tokens and trees -/

inductive Atom
  | kw (s : String)            -- keyword that is not an instruction: module func param i32 offset = funcref mut …
  | op (s : String)            -- instruction mnemonic (token.IsIsntruction in the real scanner)
  | id (s : String)            -- `$name` (without the `$`)
  | str (b : List Nat)         -- string literal, as bytes
  | int (i : Int)
  | flt (w : Nat) (bits : Nat) -- float literal: width 32/64 and IEEE bit pattern
  deriving DecidableEq, Repr

inductive Tok
  | lp | rp | atom (a : Atom)
  deriving DecidableEq, Repr

inductive SExp
  | atom (a : Atom)
  | list (l : List SExp)
  deriving Repr

mutual
def flatten : SExp → List Tok
  | .atom a => [.atom a]
  | .list l => .lp :: (flattenL l ++ [.rp])
def flattenL : List SExp → List Tok
  | [] => []
  | e :: es => flatten e ++ flattenL es
end

/-- stack machine: `cur` is the reversed list of trees of the innermost open parenthesis,
`stk` the reversed lists of the enclosing ones -/
def unflat : List Tok → List SExp → List (List SExp) → Option (List SExp)
  | [], cur, [] => some cur.reverse
  | [], _, _ :: _ => none
  | .atom a :: ts, cur, stk => unflat ts (.atom a :: cur) stk
  | .lp :: ts, _cur, stk => unflat ts [] (_cur :: stk)
  | .rp :: _, _, [] => none
  | .rp :: ts, cur, p :: stk => unflat ts (.list cur.reverse :: p) stk

def unflatten (ts : List Tok) : Option (List SExp) := unflat ts [] []

/-! ## small helpers -/

abbrev K (s : String) : SExp := .atom (.kw s)
abbrev A (a : Atom) : SExp := .atom a
abbrev L (l : List SExp) : SExp := .list l

def mapOpt {α β : Type} (f : α → Option β) : List α → Option (List β)
  | [] => some []
  | x :: xs =>
    match f x, mapOpt f xs with
    | some y, some ys => some (y :: ys)
    | _, _ => none

def natOf (i : Int) : Option Nat := if 0 ≤ i then some i.toNat else none

inductive ValTy | i32 | i64 | f32 | f64
  deriving DecidableEq, Repr

def ValTy.kw : ValTy → String
  | .i32 => "i32" | .i64 => "i64" | .f32 => "f32" | .f64 => "f64"

def ValTy.ofKw (s : String) : Option ValTy :=
  if s = "i32" then some .i32 else if s = "i64" then some .i64
  else if s = "f32" then some .f32 else if s = "f64" then some .f64 else none

def ValTy.constOp : ValTy → String
  | .i32 => "i32.const" | .i64 => "i64.const" | .f32 => "f32.const" | .f64 => "f64.const"

def ValTy.toS (t : ValTy) : SExp := K t.kw
def ValTy.ofS : SExp → Option ValTy
  | .atom (.kw s) => ValTy.ofKw s
  | _ => none

/-- a reference to a function/global/label/…: `$name` or a number -/
inductive Idx | name (s : String) | num (n : Nat)
  deriving DecidableEq, Repr

def Idx.toS : Idx → SExp
  | .name s => A (.id s)
  | .num n => A (.int n)
def Idx.ofS : SExp → Option Idx
  | .atom (.id s) => some (.name s)
  | .atom (.int i) => (natOf i).map .num
  | _ => none

/-- optional `$name` of a definition -/
def optName : Option String → List SExp
  | none => []
  | some n => [A (.id n)]
def popName : List SExp → Option String × List SExp
  | .atom (.id n) :: r => (some n, r)
  | r => (none, r)

/-- limits `min max?` followed by `tail` (nothing for memories, `funcref` for tables) -/
def limitsS (min : Nat) (max : Option Nat) : List SExp :=
  match max with
  | none => [A (.int min)]
  | some m => [A (.int min), A (.int m)]

/-! ## the module grammar -/

structure Field where
  name : Option String
  ty : ValTy
  deriving DecidableEq, Repr

def Field.toS (k : String) (f : Field) : SExp := L (K k :: (optName f.name ++ [f.ty.toS]))
def Field.ofArgs : List SExp → Option Field
  | [.atom (.id n), t] => (ValTy.ofS t).map (⟨some n, ·⟩)
  | [t] => (ValTy.ofS t).map (⟨none, ·⟩)
  | _ => none

/-- `(result t1 t2 …)`, printed only when there is a result -/
def resultsS (rs : List ValTy) : List SExp :=
  match rs with
  | [] => []
  | _ :: _ => [L (K "result" :: rs.map ValTy.toS)]

/-- a function type printed with anonymous parameters: `(param t)* (result t*)?` -/
structure Sig where
  params : List ValTy
  results : List ValTy
  deriving DecidableEq, Repr

def Sig.args (s : Sig) : List SExp := s.params.map (fun t => L [K "param", t.toS]) ++ resultsS s.results

def Sig.step : SExp → Sig → Option Sig
  | .list (.atom (.kw k) :: ts), a =>
    if k = "param" then
      match ts with
      | [t] => (ValTy.ofS t).map (fun t => { a with params := t :: a.params })
      | _ => none
    else if k = "result" then
      match a.results with
      | [] => (mapOpt ValTy.ofS ts).map (fun r => { a with results := r })
      | _ :: _ => none
    else none
  | _, _ => none

/-- fields of a sequence are handled from the right, each one prepending to its own list -/
def foldFields {σ : Type} (step : SExp → σ → Option σ) : List SExp → σ → Option σ
  | [], a => some a
  | x :: xs, a => (foldFields step xs a).bind (step x)

def Sig.ofArgs (l : List SExp) : Option Sig := foldFields Sig.step l ⟨[], []⟩

inductive Import
  | func (mod nm : List Nat) (id : Idx) (sig : Sig)
  | global (mod nm : List Nat) (id : Idx) (ty : ValTy)
  | memory (mod nm : List Nat) (id : Option String) (min : Nat) (max : Option Nat)
  deriving DecidableEq, Repr

def Import.args : Import → List SExp
  | .func m n id sig => [A (.str m), A (.str n), L (K "func" :: id.toS :: sig.args)]
  | .global m n id ty => [A (.str m), A (.str n), L [K "global", id.toS, ty.toS]]
  | .memory m n id mn mx => [A (.str m), A (.str n), L (K "memory" :: (optName id ++ limitsS mn mx))]

def limitsOf : List SExp → Option (Nat × Option Nat)
  | [.atom (.int a)] => (natOf a).map (·, none)
  | [.atom (.int a), .atom (.int b)] =>
    match natOf a, natOf b with
    | some x, some y => some (x, some y)
    | _, _ => none
  | _ => none

def Import.ofArgs : List SExp → Option Import
  | [.atom (.str m), .atom (.str n), .list (.atom (.kw k) :: r)] =>
    if k = "func" then
      match r with
      | id :: sg =>
        match Idx.ofS id, Sig.ofArgs sg with
        | some i, some s => some (.func m n i s)
        | _, _ => none
      | [] => none
    else if k = "global" then
      match r with
      | [id, t] =>
        match Idx.ofS id, ValTy.ofS t with
        | some i, some ty => some (.global m n i ty)
        | _, _ => none
      | _ => none
    else if k = "memory" then
      (limitsOf (popName r).2).map (fun p => .memory m n (popName r).1 p.1 p.2)
    else none
  | _ => none

inductive ExKind | func | global | memory | table
  deriving DecidableEq, Repr

def ExKind.kw : ExKind → String
  | .func => "func" | .global => "global" | .memory => "memory" | .table => "table"
def ExKind.ofKw (s : String) : Option ExKind :=
  if s = "func" then some .func else if s = "global" then some .global
  else if s = "memory" then some .memory else if s = "table" then some .table else none

structure Export where
  name : List Nat
  kind : ExKind
  idx : Idx
  deriving DecidableEq, Repr

def Export.args (e : Export) : List SExp := [A (.str e.name), L [K e.kind.kw, e.idx.toS]]
def Export.ofArgs : List SExp → Option Export
  | [.atom (.str n), .list [.atom (.kw k), i]] =>
    match ExKind.ofKw k, Idx.ofS i with
    | some kd, some ix => some ⟨n, kd, ix⟩
    | _, _ => none
  | _ => none

structure Memory where
  name : Option String
  addr64 : Bool
  min : Nat
  max : Option Nat
  deriving DecidableEq, Repr

def Memory.args (m : Memory) : List SExp :=
  optName m.name ++ ((if m.addr64 then [K "i64"] else []) ++ limitsS m.min m.max)

def popI64 : List SExp → Bool × List SExp
  | .atom (.kw s) :: r => if s = "i64" then (true, r) else (false, .atom (.kw s) :: r)
  | r => (false, r)

def Memory.ofArgs (l : List SExp) : Option Memory :=
  let p := popName l
  let q := popI64 p.2
  (limitsOf q.2).map (fun lm => ⟨p.1, q.1, lm.1, lm.2⟩)

structure Table where
  name : Option String
  min : Nat
  max : Option Nat
  deriving DecidableEq, Repr

def Table.args (t : Table) : List SExp := optName t.name ++ (limitsS t.min t.max ++ [K "funcref"])

def tableLimitsOf : List SExp → Option (Nat × Option Nat)
  | [.atom (.int a), .atom (.kw f)] => if f = "funcref" then (natOf a).map (·, none) else none
  | [.atom (.int a), .atom (.int b), .atom (.kw f)] =>
    if f = "funcref" then
      match natOf a, natOf b with
      | some x, some y => some (x, some y)
      | _, _ => none
    else none
  | _ => none

def Table.ofArgs (l : List SExp) : Option Table :=
  let p := popName l
  (tableLimitsOf p.2).map (fun lm => ⟨p.1, lm.1, lm.2⟩)

structure TypeDef where
  name : Option String
  sig : Sig
  deriving DecidableEq, Repr

def TypeDef.args (t : TypeDef) : List SExp := optName t.name ++ [L (K "func" :: t.sig.args)]
def TypeDef.ofArgs (l : List SExp) : Option TypeDef :=
  match (popName l).2 with
  | [.list (.atom (.kw k) :: sg)] => if k = "func" then (Sig.ofArgs sg).map (⟨(popName l).1, ·⟩) else none
  | _ => none

/-- a numeric literal: the token carries the value -/
inductive Num | int (i : Int) | flt (w : Nat) (bits : Nat)
  deriving DecidableEq, Repr
def Num.toS : Num → SExp
  | .int i => A (.int i)
  | .flt w b => A (.flt w b)
def Num.ofS : SExp → Option Num
  | .atom (.int i) => some (.int i)
  | .atom (.flt w b) => some (.flt w b)
  | _ => none

structure Global where
  name : Option String
  mutable : Bool
  ty : ValTy
  init : Num
  deriving DecidableEq, Repr

def Global.args (g : Global) : List SExp :=
  optName g.name ++ [if g.mutable then L [K "mut", g.ty.toS] else g.ty.toS, L [A (.op g.ty.constOp), g.init.toS]]

def globalTyOf : SExp → Option (Bool × ValTy)
  | .list [.atom (.kw m), t] => if m = "mut" then (ValTy.ofS t).map (true, ·) else none
  | .atom (.kw s) => (ValTy.ofKw s).map (false, ·)
  | _ => none

def Global.ofArgs (l : List SExp) : Option Global :=
  match (popName l).2 with
  | [t, .list [.atom (.op c), v]] =>
    match globalTyOf t, Num.ofS v with
    | some (mu, ty), some n => if c = ty.constOp then some ⟨(popName l).1, mu, ty, n⟩ else none
    | _, _ => none
  | _ => none

/-- one flat instruction: mnemonic and everything printed after it up to the next mnemonic
(identifiers, numbers, `offset` `=` `8`, `(result i32)`, `(type $t)` …) -/
structure Instr where
  op : String
  args : List SExp
  deriving Repr

def SExp.isOp : SExp → Bool
  | .atom (.op _) => true
  | _ => false

/-- no argument is itself a (top-level) mnemonic -/
def Instr.WF (i : Instr) : Prop := ∀ a ∈ i.args, a.isOp = false

def Instr.toL (i : Instr) : List SExp := A (.op i.op) :: i.args

def bodyS : List Instr → List SExp
  | [] => []
  | i :: is => i.toL ++ bodyS is

/-- from the right: collect arguments until a mnemonic closes the group -/
def groupBody : List SExp → Option (List SExp × List Instr)
  | [] => some ([], [])
  | x :: rest =>
    match groupBody rest with
    | none => none
    | some (args, is) =>
      match x with
      | .atom (.op s) => some ([], ⟨s, args⟩ :: is)
      | other => some (other :: args, is)

def bodyOf (l : List SExp) : Option (List Instr) :=
  match groupBody l with
  | some ([], is) => some is
  | _ => none

/-- header items (all of them lists) up to the first mnemonic -/
def splitAtOp : List SExp → List SExp × List SExp
  | [] => ([], [])
  | x :: rest => if x.isOp then ([], x :: rest) else ((splitAtOp rest).1.cons x, (splitAtOp rest).2)

structure Func where
  name : String
  exp : Option (List Nat)
  params : List Field
  results : List ValTy
  locals : List Field
  body : List Instr
  deriving Repr

def Func.WF (f : Func) : Prop := ∀ i ∈ f.body, i.WF

def expS : Option (List Nat) → List SExp
  | none => []
  | some n => [L [K "export", A (.str n)]]

def Func.header (f : Func) : List SExp :=
  expS f.exp ++ (f.params.map (Field.toS "param") ++ (resultsS f.results ++ f.locals.map (Field.toS "local")))

def Func.args (f : Func) : List SExp := A (.id f.name) :: (f.header ++ bodyS f.body)

/-- accumulator of the header: export, params, results, locals -/
structure FuncHdr where
  exp : Option (List Nat)
  params : List Field
  results : List ValTy
  locals : List Field

def FuncHdr.step : SExp → FuncHdr → Option FuncHdr
  | .list (.atom (.kw k) :: r), a =>
    if k = "export" then
      match r, a.exp with
      | [.atom (.str n)], none => some { a with exp := some n }
      | _, _ => none
    else if k = "param" then (Field.ofArgs r).map (fun f => { a with params := f :: a.params })
    else if k = "local" then (Field.ofArgs r).map (fun f => { a with locals := f :: a.locals })
    else if k = "result" then
      match a.results with
      | [] => (mapOpt ValTy.ofS r).map (fun rs => { a with results := rs })
      | _ :: _ => none
    else none
  | _, _ => none

def Func.ofArgs : List SExp → Option Func
  | .atom (.id n) :: r =>
    match foldFields FuncHdr.step (splitAtOp r).1 ⟨none, [], [], []⟩, bodyOf (splitAtOp r).2 with
    | some h, some b => some ⟨n, h.exp, h.params, h.results, h.locals, b⟩
    | _, _ => none
  | _ => none

structure Data where
  name : Option String
  offset : Nat
  bytes : List Nat
  deriving DecidableEq, Repr

def Data.args (d : Data) : List SExp :=
  optName d.name ++ [L [A (.op "i32.const"), A (.int d.offset)], A (.str d.bytes)]
def Data.ofArgs (l : List SExp) : Option Data :=
  match (popName l).2 with
  | [.list [.atom (.op c), .atom (.int o)], .atom (.str b)] =>
    if c = "i32.const" then (natOf o).map (⟨(popName l).1, ·, b⟩) else none
  | _ => none

structure Elem where
  offset : Nat
  funcs : List Idx
  deriving DecidableEq, Repr

def Elem.args (e : Elem) : List SExp := L [A (.op "i32.const"), A (.int e.offset)] :: e.funcs.map Idx.toS
def Elem.ofArgs : List SExp → Option Elem
  | .list [.atom (.op c), .atom (.int o)] :: fs =>
    if c = "i32.const" then
      match natOf o, mapOpt Idx.ofS fs with
      | some off, some l => some ⟨off, l⟩
      | _, _ => none
    else none
  | _ => none

structure Module where
  name : Option String
  imports : List Import
  exports : List Export
  memory : Option Memory
  table : Option Table
  types : List TypeDef
  globals : List Global
  funcs : List Func
  start : Option Idx
  data : List Data
  elems : List Elem
  deriving Repr

def Module.WF (m : Module) : Prop := ∀ f ∈ m.funcs, f.WF

def optS {α : Type} (k : String) (args : α → List SExp) : Option α → List SExp
  | none => []
  | some x => [L (K k :: args x)]

def Module.fields (m : Module) : List SExp :=
  m.imports.map (fun x => L (K "import" :: x.args)) ++
  (m.exports.map (fun x => L (K "export" :: x.args)) ++
  (optS "memory" Memory.args m.memory ++
  (optS "table" Table.args m.table ++
  (m.types.map (fun x => L (K "type" :: x.args)) ++
  (m.globals.map (fun x => L (K "global" :: x.args)) ++
  (m.funcs.map (fun x => L (K "func" :: x.args)) ++
  (optS "start" (fun i => [Idx.toS i]) m.start ++
  (m.data.map (fun x => L (K "data" :: x.args)) ++
  m.elems.map (fun x => L (K "elem" :: x.args))))))))))

def Module.toS (m : Module) : SExp := L (K "module" :: (optName m.name ++ m.fields))

def Module.step : SExp → Module → Option Module
  | .list (.atom (.kw k) :: r), a =>
    if k = "import" then (Import.ofArgs r).map (fun x => { a with imports := x :: a.imports })
    else if k = "export" then (Export.ofArgs r).map (fun x => { a with exports := x :: a.exports })
    else if k = "memory" then
      match a.memory with
      | none => (Memory.ofArgs r).map (fun x => { a with memory := some x })
      | some _ => none
    else if k = "table" then
      match a.table with
      | none => (Table.ofArgs r).map (fun x => { a with table := some x })
      | some _ => none
    else if k = "type" then (TypeDef.ofArgs r).map (fun x => { a with types := x :: a.types })
    else if k = "global" then (Global.ofArgs r).map (fun x => { a with globals := x :: a.globals })
    else if k = "func" then (Func.ofArgs r).map (fun x => { a with funcs := x :: a.funcs })
    else if k = "start" then
      match r, a.start with
      | [i], none => (Idx.ofS i).map (fun x => { a with start := some x })
      | _, _ => none
    else if k = "data" then (Data.ofArgs r).map (fun x => { a with data := x :: a.data })
    else if k = "elem" then (Elem.ofArgs r).map (fun x => { a with elems := x :: a.elems })
    else none
  | _, _ => none

def Module.empty (n : Option String) : Module := ⟨n, [], [], none, none, [], [], [], none, [], []⟩

def Module.ofS : SExp → Option Module
  | .list (.atom (.kw k) :: r) =>
    if k = "module" then foldFields Module.step (popName r).2 (Module.empty (popName r).1) else none
  | _ => none

/-- the printer -/
def print (m : Module) : List Tok := flatten m.toS

/-- the parser -/
def parse (ts : List Tok) : Option Module :=
  match unflatten ts with
  | some [e] => Module.ofS e
  | _ => none

end WaVerif.C05
