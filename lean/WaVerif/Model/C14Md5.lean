/-!
# C14 — MD5 (RFC 1321) as an executable reference, core Lean only.  NO theorem is stated about it: it is run by
`wamodel_c14` on the same inputs as the port (crypto/md5) for correspondence only.
-/
namespace WaVerif.C14.Md5

def sTab : List Nat :=
  [7, 12, 17, 22, 7, 12, 17, 22, 7, 12, 17, 22, 7, 12, 17, 22,
   5, 9, 14, 20, 5, 9, 14, 20, 5, 9, 14, 20, 5, 9, 14, 20,
   4, 11, 16, 23, 4, 11, 16, 23, 4, 11, 16, 23, 4, 11, 16, 23,
   6, 10, 15, 21, 6, 10, 15, 21, 6, 10, 15, 21, 6, 10, 15, 21]

/-- K[i] = floor(2^32 × |sin(i + 1)|) -/
def kTab : List Nat :=
  [0xd76aa478, 0xe8c7b756, 0x242070db, 0xc1bdceee, 0xf57c0faf, 0x4787c62a, 0xa8304613, 0xfd469501,
   0x698098d8, 0x8b44f7af, 0xffff5bb1, 0x895cd7be, 0x6b901122, 0xfd987193, 0xa679438e, 0x49b40821,
   0xf61e2562, 0xc040b340, 0x265e5a51, 0xe9b6c7aa, 0xd62f105d, 0x02441453, 0xd8a1e681, 0xe7d3fbc8,
   0x21e1cde6, 0xc33707d6, 0xf4d50d87, 0x455a14ed, 0xa9e3e905, 0xfcefa3f8, 0x676f02d9, 0x8d2a4c8a,
   0xfffa3942, 0x8771f681, 0x6d9d6122, 0xfde5380c, 0xa4beea44, 0x4bdecfa9, 0xf6bb4b60, 0xbebfbc70,
   0x289b7ec6, 0xeaa127fa, 0xd4ef3085, 0x04881d05, 0xd9d4d039, 0xe6db99e5, 0x1fa27cf8, 0xc4ac5665,
   0xf4292244, 0x432aff97, 0xab9423a7, 0xfc93a039, 0x655b59c3, 0x8f0ccc92, 0xffeff47d, 0x85845dd1,
   0x6fa87e4f, 0xfe2ce6e0, 0xa3014314, 0x4e0811a1, 0xf7537e82, 0xbd3af235, 0x2ad7d2bb, 0xeb86d391]

abbrev W := BitVec 32

def word (bs : List Nat) (i : Nat) : W :=
  BitVec.ofNat 32 (bs.getD (4 * i) 0 + bs.getD (4 * i + 1) 0 * 256 + bs.getD (4 * i + 2) 0 * 65536 + bs.getD (4 * i + 3) 0 * 16777216)

structure St where
  a : W
  b : W
  c : W
  d : W

def step (m : List Nat) (s : St) (i : Nat) : St :=
  let (f, g) :=
    if i < 16 then ((s.b &&& s.c) ||| (~~~s.b &&& s.d), i)
    else if i < 32 then ((s.d &&& s.b) ||| (~~~s.d &&& s.c), (5 * i + 1) % 16)
    else if i < 48 then (s.b ^^^ s.c ^^^ s.d, (3 * i + 5) % 16)
    else (s.c ^^^ (s.b ||| ~~~s.d), (7 * i) % 16)
  let f := f + s.a + BitVec.ofNat 32 (kTab.getD i 0) + word m g
  ⟨s.d, s.b + f.rotateLeft (sTab.getD i 0), s.b, s.c⟩

def block (s : St) (m : List Nat) : St :=
  let t := (List.range 64).foldl (step m) s
  ⟨s.a + t.a, s.b + t.b, s.c + t.c, s.d + t.d⟩

def pad (bs : List Nat) : List Nat :=
  let n := bs.length
  let z := (55 + 64 - n % 64) % 64
  let bits := n * 8
  bs ++ [128] ++ List.replicate z 0 ++ (List.range 8).map (fun i => bits / 256 ^ i % 256)

def chunks : Nat → List Nat → List (List Nat)
  | 0, _ => []
  | f + 1, l => if l.isEmpty then [] else l.take 64 :: chunks f (l.drop 64)

def le32 (w : W) : List Nat := (List.range 4).map (fun i => w.toNat / 256 ^ i % 256)

def sum (bs : List Nat) : List Nat :=
  let p := pad bs
  let s := (chunks (p.length / 64 + 1) p).foldl block ⟨0x67452301#32, 0xefcdab89#32, 0x98badcfe#32, 0x10325476#32⟩
  le32 s.a ++ le32 s.b ++ le32 s.c ++ le32 s.d

end WaVerif.C14.Md5
