/-!
# C24 — build-tag expressions (hand-written model; tied to internal/loader/buildtag by correspondence)

* `Expr`, `eval`, `str` transcribe the four node types of `expr.go`, their `Eval` and their
  `String()` methods (with the exact parenthesisation rules).  `str` takes one flag,
  `wrapNot`: whether `NotExpr.String` also parenthesises a negated negation.  On the pinned tree
  it does not (`!(!a)` prints as `!!a`); the flag is re-derived from the real code on every run
  (`Gen/C24Variant.lean`) so that the model follows the code if the printer is repaired.
* `lexAll` is the lexer `(*exprParser).lex` run to the end of the text.  Go lexes lazily and
  panics at the first bad character; the model lexes eagerly and ends the token list with a
  `bad` token at that place, and the parser raises the error when it *reaches* that token — the
  same order of events.
* `parseNT` is the recursive-descent parser (`or`, `and`, `not`, `atom`, the two `for` loops as
  `orLoop` / `andLoop`), with fuel; `parseToks` gives it `4·|tokens| + 8`, which is proved sufficient
  (the fuel error never surfaces: `parse_complete`).
* `splitWaBuild`, `parseLine`, `isWaBuild`, `isSkipped` transcribe the line handling and the loader's
  `isSkipedAstFile`.

Tags are `List Char`.  The tag alphabet of the model is ASCII letters, digits, `_`, `.`;
Go additionally accepts every Unicode letter/digit (`unicode.IsLetter/IsDigit`) — lines with
non-ASCII characters are outside the model and are exercised on the real code by the oracle only.
-/
namespace WaVerif.C24

abbrev Tag := List Char

inductive Expr
  | tag (s : Tag)
  | not (x : Expr)
  | and (x y : Expr)
  | or (x y : Expr)
  deriving DecidableEq, Repr, Inhabited

/-- `Eval(ok)` -/
def eval (ρ : Tag → Bool) : Expr → Bool
  | .tag s => ρ s
  | .not x => !(eval ρ x)
  | .and x y => eval ρ x && eval ρ y
  | .or x y => eval ρ x || eval ρ y

def Expr.isNot : Expr → Bool | .not _ => true | _ => false
def Expr.isAnd : Expr → Bool | .and _ _ => true | _ => false
def Expr.isOr : Expr → Bool | .or _ _ => true | _ => false

def wrapIf (b : Bool) (s : List Char) : List Char := if b then '(' :: (s ++ [')']) else s

/-- `String()`; `wrapNot` = the printer parenthesises `!(!x)` -/
def str (wrapNot : Bool) : Expr → List Char
  | .tag s => s
  | .not x => '!' :: wrapIf (x.isAnd || x.isOr || (wrapNot && x.isNot)) (str wrapNot x)
  | .and x y => wrapIf x.isOr (str wrapNot x) ++ [' ', '&', '&', ' '] ++ wrapIf y.isOr (str wrapNot y)
  | .or x y => wrapIf x.isAnd (str wrapNot x) ++ [' ', '|', '|', ' '] ++ wrapIf y.isAnd (str wrapNot y)

/-! ## lexer -/

inductive Tok
  | lp | rp | bang | andand | oror
  | tag (s : Tag)
  | bad (c : Char)          -- the lexer's "invalid syntax at c"; nothing is lexed after it
  deriving DecidableEq, Repr, Inhabited

def isTagChar (c : Char) : Bool := c.isAlphanum || c == '_' || c == '.'

/-- the pending tag (characters accumulated in reverse) becomes a token -/
def flush (acc : List Char) : List Tok := if acc.isEmpty then [] else [.tag acc.reverse]

def opTok (p : Char) : Tok := if p = '&' then .andand else .oror

/-- the lexer as a state machine over the characters.  `acc` = the tag being read (reversed);
`pend = some p` = a single `&` or `|` has been read and its twin must follow
(Go: `p.s[p.i+1] != p.s[p.i]` ⇒ "invalid syntax at &"). -/
def lexGo : Option Char → List Char → List Char → List Tok
  | some p, _, [] => [.bad p]
  | some p, _, c :: cs => if c = p then opTok p :: lexGo none [] cs else [.bad p]
  | none, acc, [] => flush acc
  | none, acc, c :: cs =>
    if isTagChar c then lexGo none (c :: acc) cs
    else flush acc ++
      (if c = ' ' ∨ c = '\t' then lexGo none [] cs
       else if c = '(' then .lp :: lexGo none [] cs
       else if c = ')' then .rp :: lexGo none [] cs
       else if c = '!' then .bang :: lexGo none [] cs
       else if c = '&' ∨ c = '|' then lexGo (some c) [] cs
       else [.bad c])

def lexAll (cs : List Char) : List Tok := lexGo none [] cs

/-! ## parser -/

inductive Err
  | notConstraint | doubleNeg | missingParen | unexpectedEnd | unexpectedTok | invalidSyntax | fuel
  deriving DecidableEq, Repr, Inhabited

/-- `p.lex()` on the eagerly lexed stream: `none` = end of input (`p.tok == ""`) -/
def lexTok : List Tok → Except Err (Option Tok × List Tok)
  | [] => .ok (none, [])
  | .bad _ :: _ => .error .invalidSyntax
  | t :: r => .ok (some t, r)

/-- the parser's procedures; the two `for p.tok == "||"` / `"&&"` loops carry the expression
built so far -/
inductive NT
  | or | orLoop (x : Expr) | and | andLoop (x : Expr) | not | atom
  deriving Repr, Inhabited

abbrev PRes := Except Err (Expr × Option Tok × List Tok)

/-- `cur` = `p.tok` (already lexed), `ts` = the tokens not yet lexed.  `or`, `and`, `not` are
entered *before* their first token is lexed (`cur` is then stale and ignored), `atom` and the
loops with their first token in `cur`; all return with the next token lexed. -/
def parseNT : Nat → NT → Option Tok → List Tok → PRes
  | 0, _, _, _ => .error .fuel
  | f + 1, .or, cur, ts =>
    match parseNT f .and cur ts with
    | .error e => .error e
    | .ok (x, cur', ts') => parseNT f (.orLoop x) cur' ts'
  | f + 1, .orLoop x, cur, ts =>
    if cur = some .oror then
      match parseNT f .and cur ts with
      | .error e => .error e
      | .ok (y, cur', ts') => parseNT f (.orLoop (.or x y)) cur' ts'
    else .ok (x, cur, ts)
  | f + 1, .and, cur, ts =>
    match parseNT f .not cur ts with
    | .error e => .error e
    | .ok (x, cur', ts') => parseNT f (.andLoop x) cur' ts'
  | f + 1, .andLoop x, cur, ts =>
    if cur = some .andand then
      match parseNT f .not cur ts with
      | .error e => .error e
      | .ok (y, cur', ts') => parseNT f (.andLoop (.and x y)) cur' ts'
    else .ok (x, cur, ts)
  | f + 1, .not, _, ts =>
    match lexTok ts with
    | .error e => .error e
    | .ok (cur, ts) =>
      if cur = some .bang then
        match lexTok ts with
        | .error e => .error e
        | .ok (cur, ts) =>
          if cur = some .bang then .error .doubleNeg
          else match parseNT f .atom cur ts with
            | .error e => .error e
            | .ok (x, c, t) => .ok (.not x, c, t)
      else parseNT f .atom cur ts
  | f + 1, .atom, cur, ts =>
    match cur with
    | some .lp =>
      (match parseNT f .or cur ts with
       | .error .unexpectedEnd => .error .missingParen      -- the deferred recover in atom()
       | .error e => .error e
       | .ok (x, cur', ts') =>
         if cur' = some .rp then
           match lexTok ts' with
           | .error e => .error e
           | .ok (c, t) => .ok (x, c, t)
         else .error .missingParen)
    | some (.tag s) =>
      (match lexTok ts with
       | .error e => .error e
       | .ok (c, t) => .ok (.tag s, c, t))
    | none => .error .unexpectedEnd
    | some _ => .error .unexpectedTok

/-- `parseExpr` on the token stream -/
def parseToks (ts : List Tok) : Except Err Expr :=
  match parseNT (4 * ts.length + 8) .or none ts with
  | .error e => .error e
  | .ok (x, none, _) => .ok x
  | .ok (_, some _, _) => .error .unexpectedTok

/-- `parseExpr(text)` -/
def parseExpr (text : List Char) : Except Err Expr := parseToks (lexAll text)

/-! ## `#wa:build` lines -/

/-- `unicode.IsSpace` -/
def isSpace (c : Char) : Bool :=
  let n := c.toNat
  n = 0x20 || (0x09 ≤ n && n ≤ 0x0d) || n = 0x85 || n = 0xa0 || n = 0x1680 ||
  (0x2000 ≤ n && n ≤ 0x200a) || n = 0x2028 || n = 0x2029 || n = 0x202f || n = 0x205f || n = 0x3000

/-- `strings.TrimSpace` -/
def trimSpace (s : List Char) : List Char :=
  ((s.dropWhile isSpace).reverse.dropWhile isSpace).reverse

/-- `"#wa:build"` (written out: `String.toList` of a literal is very slow to reduce in the kernel) -/
def waBuildPrefix : List Char := ['#', 'w', 'a', ':', 'b', 'u', 'i', 'l', 'd']

/-- `splitWaBuild` -/
def splitWaBuild (line : List Char) : Option (List Char) :=
  let line := if line.getLast? = some '\n' then line.dropLast else line
  if line.contains '\n' then none
  else if !(waBuildPrefix.isPrefixOf line) then none
  else
    let line := (trimSpace line).drop waBuildPrefix.length
    let trim := trimSpace line
    if line.length = trim.length ∧ line ≠ [] then none else some trim

def isWaBuild (line : List Char) : Bool := (splitWaBuild line).isSome

/-- `Parse(line)` -/
def parseLine (line : List Char) : Except Err Expr :=
  match splitWaBuild line with
  | none => .error .notConstraint
  | some text => parseExpr text

/-! ## the loader's file filter -/

structure Cfg where
  os : Tag
  arch : Tag
  tags : List Tag

/-- the `ok` callback of `isSkipedAstFile` -/
def tagSet (cfg : Cfg) (t : Tag) : Bool := t == cfg.os || t == cfg.arch || cfg.tags.contains t

/-- the comment `isSkipedAstFile` picks: the first `#wa:build` comment of `f.Doc.List`, else the
first one among all comment groups of `f.Comments` (in order) -/
def firstConstraint (doc comments : List (List Char)) : Option (List Char) :=
  match doc.find? isWaBuild with
  | some l => some l
  | none => comments.find? isWaBuild

/-- `isSkipedAstFile`: `doc` = the texts of `f.Doc.List`, `comments` = the texts of all comment
groups of `f.Comments` in order. -/
def isSkipped (cfg : Cfg) (doc comments : List (List Char)) : Except Err Bool :=
  match firstConstraint doc comments with
  | none => .ok false
  | some line =>
    match parseLine line with
    | .error e => .error e
    | .ok e => .ok (!(eval (tagSet cfg) e))

end WaVerif.C24
