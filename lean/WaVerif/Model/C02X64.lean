import WaVerif.Base.WasmNum
/-!
# A model of the x86-64 integer instructions that `wat2x64` emits (C02)

Written from the Intel SDM vol. 2 instruction descriptions.  Scope: the integer instruction
templates of `internal/native/wat2x64/func.go`; operands are general registers (at 8/32/64-bit
width), `rbp`-relative 8-byte frame slots (`[rbp-8k]`, accessed at 32/64-bit width) and immediates.

* registers are `BitVec 64`; a 32-bit register write zero-extends, an 8-bit write keeps bits 8..63;
* a `dword ptr` slot access reads / replaces the low 4 bytes of the (little-endian, 8-aligned) slot;
* flags CF ZF SF OF are `Option`: instructions whose flag results are undefined or not needed
  (`imul`, shifts, rotates, `idiv`, `div`, `lzcnt`…) leave `none`, and a consumer of undefined
  flags is stuck — so no theorem can rest on an undefined flag;
* the machine stack (`push`/`pop`) is a list: frame slots lie at or above `rsp`, pushes go below
  (frame layout is an assumption of the model, stated in the check's META);
* `#DE` (and every unmodelled situation) is `none`.
`lzcnt`/`tzcnt`/`popcnt` are modelled as on a CPU with LZCNT/BMI1/POPCNT (assumption).
-/
namespace WaVerif.X64

inductive Reg | rax | rcx | rdx | rbx | rsi | rdi | r8 | r9 | r10 | r11 | r12 | r13 | r14 | r15
  deriving DecidableEq, Repr, Inhabited

/-- operand width: byte, dword, qword -/
inductive W | b | d | q
  deriving DecidableEq, Repr, Inhabited

inductive Opd
  | reg (r : Reg) (w : W)
  | slot (k : Nat) (w : W)      -- `[rbp - 8*k]`
  | imm (v : Int)
  deriving DecidableEq, Repr, Inhabited

structure Flags where
  cf : Bool
  zf : Bool
  sf : Bool
  of : Bool
  deriving DecidableEq, Repr, Inhabited

inductive Alu | add | sub | and | or | xor | cmp | test | imul
  deriving DecidableEq, Repr, Inhabited
inductive Sh | shl | shr | sar | rol | ror
  deriving DecidableEq, Repr, Inhabited
inductive CC | e | ne | l | ge | le | g | b | ae | be | a
  deriving DecidableEq, Repr, Inhabited

inductive Ins
  | mov (d s : Opd)
  | movzx (d s : Opd)
  | movsx (d s : Opd)            -- movsx / movsxd
  | alu (op : Alu) (d s : Opd)
  | sh (op : Sh) (d : Opd)       -- count in cl
  | cdq
  | cqo
  | idiv (s : Opd)
  | div (s : Opd)
  | set (c : CC) (d : Opd)
  | cmovne (d s : Opd)
  | lzcnt (d s : Opd)
  | tzcnt (d s : Opd)
  | popcnt (d s : Opd)
  | push (r : Reg)
  | pop (r : Reg)
  deriving DecidableEq, Repr, Inhabited

structure State where
  rax : BitVec 64
  rcx : BitVec 64
  rdx : BitVec 64
  rbx : BitVec 64
  rsi : BitVec 64
  rdi : BitVec 64
  r8 : BitVec 64
  r9 : BitVec 64
  r10 : BitVec 64
  r11 : BitVec 64
  r12 : BitVec 64
  r13 : BitVec 64
  r14 : BitVec 64
  r15 : BitVec 64
  flags : Option Flags
  slots : Nat → BitVec 64
  stk : List (BitVec 64)

def getReg (s : State) : Reg → BitVec 64
  | .rax => s.rax | .rcx => s.rcx | .rdx => s.rdx | .rbx => s.rbx | .rsi => s.rsi | .rdi => s.rdi
  | .r8 => s.r8 | .r9 => s.r9 | .r10 => s.r10 | .r11 => s.r11 | .r12 => s.r12 | .r13 => s.r13
  | .r14 => s.r14 | .r15 => s.r15

def setReg (s : State) (r : Reg) (v : BitVec 64) : State :=
  match r with
  | .rax => { s with rax := v } | .rcx => { s with rcx := v } | .rdx => { s with rdx := v }
  | .rbx => { s with rbx := v } | .rsi => { s with rsi := v } | .rdi => { s with rdi := v }
  | .r8 => { s with r8 := v } | .r9 => { s with r9 := v } | .r10 => { s with r10 := v }
  | .r11 => { s with r11 := v } | .r12 => { s with r12 := v } | .r13 => { s with r13 := v }
  | .r14 => { s with r14 := v } | .r15 => { s with r15 := v }

/-- the low `w` bits of `v`, zero-extended -/
def trunc (w : W) (v : BitVec 64) : BitVec 64 :=
  match w with
  | .b => (v.setWidth 8).setWidth 64
  | .d => (v.setWidth 32).setWidth 64
  | .q => v

def writeReg (s : State) (r : Reg) (w : W) (v : BitVec 64) : State :=
  match w with
  | .q => setReg s r v
  | .d => setReg s r (trunc .d v)                                             -- zero-extends
  | .b => setReg s r ((getReg s r &&& 0xFFFFFFFFFFFFFF00#64) ||| trunc .b v)  -- keeps bits 8..63

def setSlot (s : State) (k : Nat) (v : BitVec 64) : State :=
  { s with slots := fun j => if j = k then v else s.slots j }

def writeSlot (s : State) (k : Nat) (w : W) (v : BitVec 64) : State :=
  match w with
  | .q => setSlot s k v
  | .d => setSlot s k ((s.slots k &&& 0xFFFFFFFF00000000#64) ||| trunc .d v)
  | .b => setSlot s k ((s.slots k &&& 0xFFFFFFFFFFFFFF00#64) ||| trunc .b v)

/-- operand value at the operand's width, zero-extended; an immediate is sign-extended to 64 bits -/
def read (s : State) : Opd → BitVec 64
  | .reg r w => trunc w (getReg s r)
  | .slot k w => trunc w (s.slots k)
  | .imm v => BitVec.ofInt 64 v

def width : Opd → Option W
  | .reg _ w => some w
  | .slot _ w => some w
  | .imm _ => none

def write (s : State) (o : Opd) (v : BitVec 64) : Option State :=
  match o with
  | .reg r w => some (writeReg s r w v)
  | .slot k w => some (writeSlot s k w v)
  | .imm _ => none

/-- the source must be an immediate or have the destination's width -/
def sameWidth (d s : Opd) : Bool :=
  match width d, width s with
  | some a, some b => a == b
  | some _, none => true
  | none, _ => false

def logicFlags {n : Nat} (r : BitVec n) : Flags := { cf := false, zf := r == 0, sf := r.msb, of := false }

def subFlags {n : Nat} (a b : BitVec n) : Flags :=
  { cf := a.ult b, zf := a == b, sf := (a - b).msb, of := (a.msb != b.msb) && ((a - b).msb != a.msb) }

def addFlags {n : Nat} (a b : BitVec n) : Flags :=
  { cf := (a + b).ult a, zf := (a + b) == 0, sf := (a + b).msb, of := (a.msb == b.msb) && ((a + b).msb != a.msb) }

/-- result (written back unless `cmp`/`test`) and flags at native width -/
def aluN {n : Nat} (op : Alu) (a c : BitVec n) : BitVec n × Option Flags :=
  match op with
  | .add => (a + c, some (addFlags a c))
  | .sub => (a - c, some (subFlags a c))
  | .cmp => (a, some (subFlags a c))
  | .and => (a &&& c, some (logicFlags (a &&& c)))
  | .test => (a, some (logicFlags (a &&& c)))
  | .or => (a ||| c, some (logicFlags (a ||| c)))
  | .xor => (a ^^^ c, some (logicFlags (a ^^^ c)))
  | .imul => (a * c, none)           -- two-operand form: truncated product; SF/ZF undefined

def aluW (op : Alu) (w : W) (a b : BitVec 64) : BitVec 64 × Option Flags :=
  match w with
  | .b => let p := aluN op (a.setWidth 8) (b.setWidth 8); (p.1.setWidth 64, p.2)
  | .d => let p := aluN op (a.setWidth 32) (b.setWidth 32); (p.1.setWidth 64, p.2)
  | .q => aluN op a b

def shN {n : Nat} (op : Sh) (a : BitVec n) (c : Nat) : BitVec n :=
  match op with
  | .shl => a <<< c
  | .shr => a >>> c
  | .sar => a.sshiftRight c
  | .rol => a.rotateLeft c
  | .ror => a.rotateRight c

/-- shift / rotate by `cl`: the count is masked to 5 bits (6 bits for a 64-bit operand) -/
def shW (op : Sh) (w : W) (a cl : BitVec 64) : Option (BitVec 64) :=
  match w with
  | .b => none
  | .d => some ((shN op (a.setWidth 32) ((cl.setWidth 8).toNat % 32)).setWidth 64)
  | .q => some (shN op a ((cl.setWidth 8).toNat % 64))

def ccHolds (f : Flags) : CC → Bool
  | .e => f.zf
  | .ne => !f.zf
  | .l => f.sf != f.of
  | .ge => f.sf == f.of
  | .le => f.zf || (f.sf != f.of)
  | .g => !f.zf && (f.sf == f.of)
  | .b => f.cf
  | .ae => !f.cf
  | .be => f.cf || f.zf
  | .a => !f.cf && !f.zf

/-- `idiv`: signed division of the double-width dividend `hi:lo`; `#DE` when the divisor is zero or the
quotient does not fit (SDM: "if the quotient is too large for the designated register") -/
def idivN {n : Nat} (hi lo d : BitVec n) : Option (BitVec n × BitVec n) :=
  let num : Int := hi.toInt * (2 : Int) ^ n + (lo.toNat : Int)
  let dv : Int := d.toInt
  if dv = 0 then none
  else
    let q := num.tdiv dv
    let r := num.tmod dv
    if q < -((2 : Int) ^ (n - 1)) ∨ (2 : Int) ^ (n - 1) ≤ q then none
    else some (BitVec.ofInt n q, BitVec.ofInt n r)

/-- `div`: unsigned division of `hi:lo` -/
def divN {n : Nat} (hi lo d : BitVec n) : Option (BitVec n × BitVec n) :=
  let num : Nat := hi.toNat * 2 ^ n + lo.toNat
  if d.toNat = 0 then none
  else
    let q := num / d.toNat
    if 2 ^ n ≤ q then none
    else some (BitVec.ofNat n q, BitVec.ofNat n (num % d.toNat))

def cntW (f : ∀ {n : Nat}, BitVec n → BitVec n) (w : W) (a : BitVec 64) : Option (BitVec 64) :=
  match w with
  | .b => none
  | .d => some ((f (a.setWidth 32)).setWidth 64)
  | .q => some (f a)

def step (i : Ins) (s : State) : Option State :=
  match i with
  | .mov d src => if sameWidth d src then write s d (read s src) else none
  | .movzx d src =>
      match width d, width src with
      | some .d, some .b => write s d (read s src)
      | some .q, some .b => write s d (read s src)
      | _, _ => none
  | .movsx d src =>
      match width d, width src with
      | some .q, some .d => write s d (((read s src).setWidth 32).signExtend 64)
      | some .d, some .b => write s d ((((read s src).setWidth 8).signExtend 32).setWidth 64)
      | some .q, some .b => write s d (((read s src).setWidth 8).signExtend 64)
      | _, _ => none
  | .alu op d src =>
      if sameWidth d src then
        match width d with
        | none => none
        | some w =>
          let p := aluW op w (read s d) (read s src)
          match op with
          | .cmp => some { s with flags := p.2 }
          | .test => some { s with flags := p.2 }
          | _ => (write s d p.1).map fun s1 => { s1 with flags := p.2 }
      else none
  | .sh op d =>
      match width d with
      | none => none
      | some w => (shW op w (read s d) s.rcx).bind fun v => (write s d v).map fun s1 => { s1 with flags := none }
  | .cdq => some (writeReg s .rdx .d (if (s.rax.setWidth 32).msb then 0xFFFFFFFF#64 else 0#64))
  | .cqo => some (setReg s .rdx (if s.rax.msb then 0xFFFFFFFFFFFFFFFF#64 else 0#64))
  | .idiv src =>
      match width src with
      | some .d =>
          (idivN (s.rdx.setWidth 32) (s.rax.setWidth 32) ((read s src).setWidth 32)).map fun (q, r) =>
            { (writeReg (writeReg s .rax .d (q.setWidth 64)) .rdx .d (r.setWidth 64)) with flags := none }
      | some .q =>
          (idivN s.rdx s.rax (read s src)).map fun (q, r) => { (setReg (setReg s .rax q) .rdx r) with flags := none }
      | _ => none
  | .div src =>
      match width src with
      | some .d =>
          (divN (s.rdx.setWidth 32) (s.rax.setWidth 32) ((read s src).setWidth 32)).map fun (q, r) =>
            { (writeReg (writeReg s .rax .d (q.setWidth 64)) .rdx .d (r.setWidth 64)) with flags := none }
      | some .q =>
          (divN s.rdx s.rax (read s src)).map fun (q, r) => { (setReg (setReg s .rax q) .rdx r) with flags := none }
      | _ => none
  | .set c d =>
      match s.flags, width d with
      | some f, some .b => write s d ((BitVec.ofBool (ccHolds f c)).setWidth 64)
      | _, _ => none
  | .cmovne d src =>
      match s.flags with
      | none => none
      | some f => if sameWidth d src then write s d (bif ccHolds f .ne then read s src else read s d) else none
  | .lzcnt d src => if sameWidth d src then
      (width d).bind fun w => (cntW (fun x => x.clz) w (read s src)).bind fun v => (write s d v).map fun s1 => { s1 with flags := none }
      else none
  | .tzcnt d src => if sameWidth d src then
      (width d).bind fun w => (cntW (fun x => Wasm.ctz x) w (read s src)).bind fun v => (write s d v).map fun s1 => { s1 with flags := none }
      else none
  | .popcnt d src => if sameWidth d src then
      (width d).bind fun w => (cntW (fun x => x.cpop) w (read s src)).bind fun v => (write s d v).map fun s1 => { s1 with flags := none }
      else none
  | .push r => some { s with stk := getReg s r :: s.stk }
  | .pop r =>
      match s.stk with
      | [] => none
      | v :: rest => some { (setReg s r v) with stk := rest }

def run : List Ins → State → Option State
  | [], s => some s
  | i :: rest, s => (step i s).bind (run rest)

/-- one extracted template: the code and the frame slots of the two operand-stack positions it works on
(`x`: bottom operand and result; `y`: top operand, unused by unary templates) -/
structure Template where
  code : List Ins
  x : Nat
  y : Nat
  deriving Repr, Inhabited

end WaVerif.X64
