/-!
# C13 — specification model of a Wa map

A map is the list of `(key, value)` pairs in *slot order* — the order of `mapImp.nodes[1:]` in
`waroot/src/runtime/map.wa`, which is the order a `range` loop visits:

* `Update` of a new key appends (`this.nodes = append(this.nodes, node)`), of a present key
  overwrites the value in place (`ret.Val = v`);
* `Delete` moves the LAST slot into the vacated slot and truncates
  (`this.nodes[z.NodeIdx] = lastNode; this.nodes = this.nodes[:len-1]`) — "swap with last".

The mathematical finite map is a function `K → Option V` (`FMap`).  Histories are lists of `Op`s
starting from the empty map; the observing operations (`get`, `commaOk`, `len`, `range`) do not
change the state, so "the state after every prefix" is "the state after every history".
-/
namespace WaVerif.C13Spec

abbrev SMap (K V : Type) := List (K × V)

variable {K V : Type} [DecidableEq K]

/-- `m[k]` with comma-ok: `some v` = (v, true), `none` = (zero, false) -/
def lookup (k : K) : SMap K V → Option V
  | [] => none
  | (k', v) :: r => if k' = k then some v else lookup k r

/-- `m[k] = v` -/
def insert (k : K) (v : V) : SMap K V → SMap K V
  | [] => [(k, v)]
  | (k', v') :: r => if k' = k then (k', v) :: r else (k', v') :: insert k v r

/-- `delete(m, k)`: the last slot moves into the vacated one -/
def delete (k : K) : SMap K V → SMap K V
  | [] => []
  | (k', v') :: r =>
    if k' = k then
      (match r.getLast? with
       | none => []
       | some l => l :: r.dropLast)
    else (k', v') :: delete k r

def len (m : SMap K V) : Nat := m.length

/-- the sequence of `(key, value)` a `range` loop produces -/
def range (m : SMap K V) : List (K × V) := m

def keys (m : SMap K V) : List K := m.map Prod.fst

/-- one operation of a history -/
inductive Op (K V : Type) where
  | set (k : K) (v : V)
  | del (k : K)
  | get (k : K)
  | commaOk (k : K)
  | len
  | range

def step (m : SMap K V) : Op K V → SMap K V
  | .set k v => insert k v m
  | .del k => delete k m
  | _ => m

/-- state after a history, starting from `make(map[K]V)` -/
def run (ops : List (Op K V)) : SMap K V := ops.foldl step []

/-! ## the mathematical finite map -/

abbrev FMap (K V : Type) := K → Option V

def FMap.empty : FMap K V := fun _ => none
def FMap.set (f : FMap K V) (k : K) (v : V) : FMap K V := fun q => if q = k then some v else f q
def FMap.del (f : FMap K V) (k : K) : FMap K V := fun q => if q = k then none else f q

def fstep (f : FMap K V) : Op K V → FMap K V
  | .set k v => f.set k v
  | .del k => f.del k
  | _ => f

def denote (ops : List (Op K V)) : FMap K V := ops.foldl fstep FMap.empty

/-! ## what a program observes -/

inductive Obs (K V : Type) where
  | none
  | val (v : V)                       -- `m[k]`
  | valOk (v : V) (ok : Bool)         -- `v, ok := m[k]`
  | num (n : Nat)                     -- `len(m)`
  | entries (l : List (K × V))        -- the `range` loop, in visiting order

/-- observation of the implementation model (`zero` is the value type's zero value) -/
def observe (zero : V) (m : SMap K V) : Op K V → Obs K V
  | .set _ _ => .none
  | .del _ => .none
  | .get k => .val ((lookup k m).getD zero)
  | .commaOk k => .valOk ((lookup k m).getD zero) (lookup k m).isSome
  | .len => .num (len m)
  | .range => .entries (range m)

end WaVerif.C13Spec
