/-!
# C30 — `wa test` verdicts: decision model

Transcribed from `internal/app/apptest/apptest.go` (`runTest`: the loop over `TestInfo.Tests`, then
the loop over `TestInfo.Examples`, then the final verdict), `internal/loader/loader.go`
(`parseExampleOutputComment`: what a `// Output:` / `// Output(panic):` comment becomes) and the
runtime's convention for panics and failed assertions (`waroot/src/runtime/runtime_js.wa`: print one
line on stdout, then `procExit(1)`).

Text is `List Char`.  The stdout of a function is taken *after* `fmtGotOutput` (every line trimmed,
the whole trimmed); declared text is taken after the loader's `TrimSpace` per line.

Which output belongs to which function.  A package may print while it is initialised (global
initialisers, `init` functions); that happens inside `Module.RunFunc` when the module instance is
created lazily, i.e. in the same call that runs the *first* function on a fresh instance (the very
first one, and the first after every reload that follows an expected-panic function).  Init output
is NOT part of any function's output: `Behaviour.out` is what the function body itself prints and
the contract (`meets`) only looks at that.  `RunFunc` implements this by resetting its capture
buffers after the instantiation and before the call; where the reset sits is the parameter
`Cfg.initOutputLeaks`.  Globals persist between functions on one instance and are re-initialised
by a reload (`SFn`, `resolve`).

The parameters (`Cfg`): whether the early-exit block of each loop prints a `FAIL` line, and whether
init output leaks into the first function's captured stdout; regenerated from the source on every
run (`extract/c30_extract.go` → `Gen/C30.lean`).
-/
namespace WaVerif.C30

abbrev Text := List Char

/-- how a test/example function ends -/
inductive End
  | returns
  | panics (msg pos : Text)        -- `panic(msg)`: prints `panic: msg (pos)`, exit(1)
  | assertFails (msg pos : Text)   -- failed `assert`: prints `assert failed: msg (pos)` (or `assert failed (pos)`), exit(1)
  | exits (n : Nat)                -- calls the exit function itself
  | traps                          -- wasm trap
  deriving DecidableEq, Repr

structure Behaviour where
  /-- normalised text printed by the function body before it ends -/
  out : Text
  end_ : End
  deriving DecidableEq, Repr

/-- the contract a function declares in its body comment -/
inductive Decl
  | none
  | output (s : Text)     -- `// Output:` followed by comment lines
  | panic (s : Text)      -- `// Output(panic):` followed by comment lines
  deriving DecidableEq, Repr

structure Fn where
  name : Text
  isExample : Bool
  selected : Bool          -- matches the `-run` pattern (or no pattern given)
  decl : Decl
  beh : Behaviour
  /-- it is the first function run on a freshly created module instance (so the package's
      initialisation runs inside the same `RunFunc` call) -/
  fresh : Bool
  deriving DecidableEq, Repr

structure Cfg where
  testAbortFAIL : Bool      -- Tests loop: early-exit block prints `FAIL …` before `os.Exit(1)`
  exampleAbortFAIL : Bool   -- Examples loop: same
  /-- `Module.RunFunc` does NOT reset its stdout/stderr buffers between the lazy instantiation
      and the call, so init output is prepended to the first function's captured stdout -/
  initOutputLeaks : Bool
  deriving DecidableEq, Repr

def cfgPinned : Cfg := ⟨false, false, false⟩
def cfgRepaired : Cfg := ⟨true, true, false⟩

/-! ## constants -/
def panicPrefix : Text := ['p', 'a', 'n', 'i', 'c', ':', ' ']
def assertPrefix : Text := ['a', 's', 's', 'e', 'r', 't', ' ', 'f', 'a', 'i', 'l', 'e', 'd']
def sentinel : Text := ['?']

/-- `panic: msg (pos)` -/
def panicLine (msg pos : Text) : Text := panicPrefix ++ (msg ++ ([' ', '('] ++ (pos ++ [')'])))

/-- `assert failed: msg (pos)` / `assert failed (pos)` -/
def assertLine (msg pos : Text) : Text :=
  assertPrefix ++ ((if msg = [] then [] else [':', ' '] ++ msg) ++ ([' ', '('] ++ (pos ++ [')'])))

/-- append a line to already printed (normalised) text -/
def addLine (out line : Text) : Text := if out = [] then line else out ++ ('\n' :: line)

/-! ## loader: `parseExampleOutputComment` → `TestFuncInfo.Output`, `.OutputPanic` -/
def declInfo : Decl → Text × Bool
  | .none => ([], false)
  | .output s => (if s = [] then sentinel else s, false)
  | .panic s => (if s = [] then sentinel else s, true)

/-! ## what `m.RunFunc` reports -/
inductive RunErr | none | exitErr (n : Nat) | other
  deriving DecidableEq, Repr

def obs (b : Behaviour) : Text × RunErr :=
  match b.end_ with
  | .returns => (b.out, .none)
  | .panics m p => (addLine b.out (panicLine m p), .exitErr 1)
  | .assertFails m p => (addLine b.out (assertLine m p), .exitErr 1)
  | .exits n => (b.out, .exitErr n)
  | .traps => (b.out, .other)

/-- normalised concatenation of two pieces of stdout -/
def joinOut (a b : Text) : Text := if a = [] then b else if b = [] then a else a ++ ('\n' :: b)

/-- the stdout `RunFunc` hands to the runner for `f` (normalised): the function's own output,
preceded by the package's init output only if the buffers are not reset after instantiation -/
def captured (cfg : Cfg) (initOut : Text) (f : Fn) : Text :=
  if cfg.initOutputLeaks && f.fresh then joinOut initOut (obs f.beh).1 else (obs f.beh).1

/-- `exitCode, _ := wazero.AsExitError(err)` -/
def exitCodeOf : RunErr → Nat
  | .exitErr n => n
  | _ => 0

/-! ## printed lines -/
inductive Line
  | header (name : Text)              -- `---- <pkg>.<name>`
  | expectPanicGotNil                 -- `    expect panic, got = nil`
  | expectPanic (expect got : Text)   -- `    expect(panic) = %q, got = %q`
  | expectOut (expect got : Text)     -- `    expect = %q, got = %q`
  | dump                              -- the indented raw output / error text printed before an early exit
  | fail                              -- `FAIL <pkg> <time>`
  | ok                                -- `ok   <pkg> <time>`
  | noTestFiles                       -- `?    <pkg> [no test files]`
  deriving DecidableEq, Repr

inductive Res | pass | failed | abort
  deriving DecidableEq, Repr

def abortFAIL (cfg : Cfg) (f : Fn) : Bool := if f.isExample then cfg.exampleAbortFAIL else cfg.testAbortFAIL

/-- one iteration of either loop (they differ only in what the early exit dumps), given what
`RunFunc` returned: normalised stdout `got` and the error `err` -/
def runFnCore (cfg : Cfg) (f : Fn) (got : Text) (err : RunErr) : List Line × Res :=
  let info := declInfo f.decl
  let expect := info.1
  if info.2 then
    -- `if t.OutputPanic { … continue }`
    if exitCodeOf err = 0 then ([.header f.name, .expectPanicGotNil], .failed)
    else if (panicPrefix ++ expect).isPrefixOf got then ([], .pass)
    else ([.header f.name, .expectPanic expect got], .failed)
  else if err ≠ .none then
    -- `if err != nil { dump; os.Exit(1) }`: a test always prints err.Error() (stderr is empty),
    -- an example prints only its stdout, if any
    ((if f.isExample && got.isEmpty then [] else [.dump]) ++ (if abortFAIL cfg f then [.fail] else []), .abort)
  else if expect ≠ [] ∧ expect = got then ([], .pass)
  else if expect ≠ [] then ([.header f.name, .expectOut expect got], .failed)
  else ([], .pass)

def runFn (cfg : Cfg) (initOut : Text) (f : Fn) : List Line × Res :=
  runFnCore cfg f (captured cfg initOut f) (obs f.beh).2

/-- the rest of the run after some functions (already in execution order: Tests, then Examples);
`failed` = `firstError != nil` -/
def runAll (cfg : Cfg) (initOut : Text) : List Fn → Bool → List Line × Nat
  | [], failed => if failed then ([.fail], 1) else ([.ok], 0)
  | f :: rest, failed =>
    if f.selected then
      match runFn cfg initOut f with
      | (ls, .pass) => let r := runAll cfg initOut rest failed; (ls ++ r.1, r.2)
      | (ls, .failed) => let r := runAll cfg initOut rest true; (ls ++ r.1, r.2)
      | (ls, .abort) => (ls, 1)
    else runAll cfg initOut rest failed

/-- the run over functions whose behaviour is already resolved -/
def runList (cfg : Cfg) (initOut : Text) (l : List Fn) : List Line × Nat := runAll cfg initOut l false

/-! ## module state: package initialisation, globals, reload -/

/-- what the package does when a module instance is created -/
structure Pkg where
  initOut : Text     -- normalised text printed by global initialisers / `init`
  g0 : Nat           -- value `init` gives to the package's global counter
  deriving DecidableEq, Repr

/-- a function as written: it may add to the global counter and print its value before the rest -/
structure SFn where
  name : Text
  isExample : Bool
  selected : Bool
  decl : Decl
  bump : Nat          -- `Bump(k)`: counter += k, first statement
  printsG : Bool      -- `println(Counter())`, second statement
  out : Text          -- the rest of its own output
  end_ : End
  deriving DecidableEq, Repr

def natText (n : Nat) : Text := (toString n).toList

/-- the function's own behaviour when the counter is `g` on entry -/
def SFn.behAt (s : SFn) (g : Nat) : Behaviour :=
  ⟨if s.printsG then joinOut (natText (g + s.bump)) s.out else s.out, s.end_⟩

def isPanicDecl : Decl → Bool
  | .panic _ => true
  | _ => false

/-- thread the module state through the functions in execution order: the counter persists on one
instance; after an expected-panic function that ended with a non-zero exit code the runner builds a
new instance (`wazero.BuildModule`), whose initialisation runs with the next function -/
def resolve (pkg : Pkg) : List SFn → Nat → Bool → List Fn
  | [], _, _ => []
  | s :: rest, g, fresh =>
    if s.selected then
      let b := s.behAt g
      let reload := isPanicDecl s.decl && exitCodeOf (obs b).2 != 0
      ⟨s.name, s.isExample, true, s.decl, b, fresh⟩ ::
        (if reload then resolve pkg rest pkg.g0 true else resolve pkg rest (g + s.bump) false)
    else ⟨s.name, s.isExample, false, s.decl, s.behAt g, false⟩ :: resolve pkg rest g fresh

/-- Tests first, then Examples, each in declaration order -/
def ordered (l : List SFn) : List SFn := l.filter (fun f => !f.isExample) ++ l.filter (fun f => f.isExample)

/-- the functions of a suite with the behaviour each one actually shows in the state it runs in -/
def resolved (pkg : Pkg) (l : List SFn) : List Fn := resolve pkg (ordered l) pkg.g0 true

inductive Suite
  | loadError                 -- the package does not load / compile: error printed, `os.Exit(1)`
  | noTestFiles
  | fns (pkg : Pkg) (l : List SFn)
  deriving Repr

def run (cfg : Cfg) : Suite → List Line × Nat
  | .loadError => ([.dump], 1)
  | .noTestFiles => ([.noTestFiles], 0)
  | .fns pkg l => runList cfg pkg.initOut (resolved pkg l)

/-! ## the contract (the property's side) -/
def meets : Decl → Behaviour → Bool
  | .none, b => b.end_ = .returns
  | .output s, b => b.end_ = .returns && b.out = s
  | .panic s, b => match b.end_ with
    | .panics m _ => m = s
    | _ => false

def allMeet (l : List Fn) : Prop := ∀ f ∈ l, f.selected = true → meets f.decl f.beh = true

instance (l : List Fn) : Decidable (allMeet l) := by unfold allMeet; exact inferInstance

/-- a function that declares an expected panic prints nothing else (the statement does not say
whether output before the panic matters; the runner compares the whole stdout) -/
def WF (f : Fn) : Bool :=
  match f.decl with
  | .panic _ => f.beh.out.isEmpty
  | _ => true

/-- root cause 1: a declaration with no text is stored as the sentinel `?` -/
def EmptyDecl (f : Fn) : Bool :=
  match f.decl with
  | .output s => s.isEmpty
  | .panic s => s.isEmpty
  | .none => false

/-- root cause 2: the expected-panic comparison is a prefix match, so another message can pass -/
def PrefixAmbiguous (f : Fn) : Bool :=
  match f.decl, f.beh.end_ with
  | .panic e, .panics m p => m ≠ e && (panicPrefix ++ e).isPrefixOf (panicLine m p)
  | _, _ => false

/-- root cause 3: takes the early-exit path (no expected panic declared and the function does not return) -/
def Aborts (f : Fn) : Bool :=
  match f.decl with
  | .panic _ => false
  | _ => f.beh.end_ ≠ .returns

def Guarded (f : Fn) : Bool := WF f && !EmptyDecl f && !PrefixAmbiguous f

/-! ## loader: which comment of the function body is the declaration

`parseExampleOutputComment` walks the comment groups that lie inside the function body, in source
order, and inside each group the comments in order; the first comment whose text is exactly
`// Output:` or `// Output(panic):` is the marker, and the `//` comments that follow it *in the same
group* (up to the first comment that is not a `//` comment) are the expected text, each trimmed.
A group is a maximal run of comments with no blank line and no other token between them, so the
marker need not be the first line of its group (an ordinary `//` line, a `/* */` comment or the
trailing comment of the previous statement may precede it).  Whether the scan looks at every
comment of a group or only at the first one is regenerated from the source (`markerAnywhere`). -/

inductive Comment
  | line (t : Text)     -- `//t`
  | block (t : Text)    -- `/*t*/`
  deriving DecidableEq, Repr

abbrev Group := List Comment

def markerOut : Text := [' ', 'O', 'u', 't', 'p', 'u', 't', ':']
def markerPanic : Text := [' ', 'O', 'u', 't', 'p', 'u', 't', '(', 'p', 'a', 'n', 'i', 'c', ')', ':']

def isSpaceChar (c : Char) : Bool := c = ' ' || c = '\t' || c = '\n' || c = '\r'

/-- `strings.TrimSpace` -/
def trimText (t : Text) : Text := ((t.dropWhile isSpaceChar).reverse.dropWhile isSpaceChar).reverse

/-- the `//` comments that directly follow the marker in its group, trimmed -/
def collectLines : List Comment → List Text
  | .line t :: rest => trimText t :: collectLines rest
  | _ => []

def joinLines : List Text → Text
  | [] => []
  | [t] => t
  | t :: rest => t ++ ('\n' :: joinLines rest)

def markerDecl (t : Text) (rest : List Comment) : Option Decl :=
  if t = markerOut then some (.output (joinLines (collectLines rest)))
  else if t = markerPanic then some (.panic (joinLines (collectLines rest)))
  else none

/-- scan every comment of the group -/
def scanWhole : List Comment → Option Decl
  | [] => none
  | .line t :: rest => match markerDecl t rest with
    | some d => some d
    | none => scanWhole rest
  | .block _ :: rest => scanWhole rest

/-- look only at the first comment of the group (`range commentGroup.List[:1]`) -/
def scanHead : List Comment → Option Decl
  | .line t :: rest => markerDecl t rest
  | _ => none

def loaderDecl (markerAnywhere : Bool) : List Group → Decl
  | [] => .none
  | g :: gs => match (if markerAnywhere then scanWhole g else scanHead g) with
    | some d => d
    | none => loaderDecl markerAnywhere gs

/-- the declaration as written: the first marker comment of the body, wherever it sits in its group -/
def declSpec (gs : List Group) : Decl := loaderDecl true gs

/-- a function as written, with the comments of its body (`base.decl` is not used) -/
structure SrcFn where
  base : SFn
  comments : List Group
  deriving DecidableEq, Repr

def lower (markerAnywhere : Bool) (s : SrcFn) : SFn := { s.base with decl := loaderDecl markerAnywhere s.comments }

/-- `wa test` on the package as written -/
def runSrc (cfg : Cfg) (markerAnywhere : Bool) (pkg : Pkg) (l : List SrcFn) : List Line × Nat :=
  run cfg (.fns pkg (l.map (lower markerAnywhere)))

/-- the functions with the declarations as written and the behaviour each shows when it runs -/
def contractFns (pkg : Pkg) (l : List SrcFn) : List Fn := resolved pkg (l.map (lower true))

end WaVerif.C30
