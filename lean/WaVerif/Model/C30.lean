/-!
# C30 — `wa test` verdicts: decision model

Transcribed from `internal/app/apptest/apptest.go` (`runTest`: the loop over `TestInfo.Tests`, then
the loop over `TestInfo.Examples`, then the final verdict), `internal/loader/loader.go`
(`parseExampleOutputComment`: what a `// Output:` / `// Output(panic):` comment becomes) and the
runtime's convention for panics and failed assertions (`waroot/src/runtime/runtime_js.wa`: print one
line on stdout, then `procExit(1)`).

Text is `List Char`.  The stdout of a function is taken *after* `fmtGotOutput` (every line trimmed,
the whole trimmed); declared text is taken after the loader's `TrimSpace` per line.

The only parameter (`Cfg`) is whether the early-exit block of each loop prints a `FAIL` line; it is
regenerated from the source on every run (`extract/c30_extract.go` → `Gen/C30.lean`).
-/
namespace WaVerif.C30

abbrev Text := List Char

/-- how a test/example function ends -/
inductive End
  | returns
  | panics (msg pos : Text)        -- `panic(msg)`: prints `panic: msg (pos)`, exit(1)
  | assertFails (msg pos : Text)   -- failed `assert`: prints `assert failed: msg (pos)` (or `assert failed (pos)`), exit(1)
  | exits (n : Nat)                -- calls the exit function itself
  | traps                          -- wasm trap
  deriving DecidableEq, Repr

structure Behaviour where
  /-- normalised text printed by the function body before it ends -/
  out : Text
  end_ : End
  deriving DecidableEq, Repr

/-- the contract a function declares in its body comment -/
inductive Decl
  | none
  | output (s : Text)     -- `// Output:` followed by comment lines
  | panic (s : Text)      -- `// Output(panic):` followed by comment lines
  deriving DecidableEq, Repr

structure Fn where
  name : Text
  isExample : Bool
  selected : Bool          -- matches the `-run` pattern (or no pattern given)
  decl : Decl
  beh : Behaviour
  deriving DecidableEq, Repr

structure Cfg where
  testAbortFAIL : Bool      -- Tests loop: early-exit block prints `FAIL …` before `os.Exit(1)`
  exampleAbortFAIL : Bool   -- Examples loop: same
  deriving DecidableEq, Repr

def cfgPinned : Cfg := ⟨false, false⟩
def cfgRepaired : Cfg := ⟨true, true⟩

/-! ## constants -/
def panicPrefix : Text := ['p', 'a', 'n', 'i', 'c', ':', ' ']
def assertPrefix : Text := ['a', 's', 's', 'e', 'r', 't', ' ', 'f', 'a', 'i', 'l', 'e', 'd']
def sentinel : Text := ['?']

/-- `panic: msg (pos)` -/
def panicLine (msg pos : Text) : Text := panicPrefix ++ (msg ++ ([' ', '('] ++ (pos ++ [')'])))

/-- `assert failed: msg (pos)` / `assert failed (pos)` -/
def assertLine (msg pos : Text) : Text :=
  assertPrefix ++ ((if msg = [] then [] else [':', ' '] ++ msg) ++ ([' ', '('] ++ (pos ++ [')'])))

/-- append a line to already printed (normalised) text -/
def addLine (out line : Text) : Text := if out = [] then line else out ++ ('\n' :: line)

/-! ## loader: `parseExampleOutputComment` → `TestFuncInfo.Output`, `.OutputPanic` -/
def declInfo : Decl → Text × Bool
  | .none => ([], false)
  | .output s => (if s = [] then sentinel else s, false)
  | .panic s => (if s = [] then sentinel else s, true)

/-! ## what `m.RunFunc` reports -/
inductive RunErr | none | exitErr (n : Nat) | other
  deriving DecidableEq, Repr

def obs (b : Behaviour) : Text × RunErr :=
  match b.end_ with
  | .returns => (b.out, .none)
  | .panics m p => (addLine b.out (panicLine m p), .exitErr 1)
  | .assertFails m p => (addLine b.out (assertLine m p), .exitErr 1)
  | .exits n => (b.out, .exitErr n)
  | .traps => (b.out, .other)

/-- `exitCode, _ := wazero.AsExitError(err)` -/
def exitCodeOf : RunErr → Nat
  | .exitErr n => n
  | _ => 0

/-! ## printed lines -/
inductive Line
  | header (name : Text)              -- `---- <pkg>.<name>`
  | expectPanicGotNil                 -- `    expect panic, got = nil`
  | expectPanic (expect got : Text)   -- `    expect(panic) = %q, got = %q`
  | expectOut (expect got : Text)     -- `    expect = %q, got = %q`
  | dump                              -- the indented raw output / error text printed before an early exit
  | fail                              -- `FAIL <pkg> <time>`
  | ok                                -- `ok   <pkg> <time>`
  | noTestFiles                       -- `?    <pkg> [no test files]`
  deriving DecidableEq, Repr

inductive Res | pass | failed | abort
  deriving DecidableEq, Repr

def abortFAIL (cfg : Cfg) (f : Fn) : Bool := if f.isExample then cfg.exampleAbortFAIL else cfg.testAbortFAIL

/-- one iteration of either loop (they differ only in what the early exit dumps) -/
def runFn (cfg : Cfg) (f : Fn) : List Line × Res :=
  let info := declInfo f.decl
  let o := obs f.beh
  let expect := info.1
  let got := o.1
  if info.2 then
    -- `if t.OutputPanic { … continue }`
    if exitCodeOf o.2 = 0 then ([.header f.name, .expectPanicGotNil], .failed)
    else if (panicPrefix ++ expect).isPrefixOf got then ([], .pass)
    else ([.header f.name, .expectPanic expect got], .failed)
  else if o.2 ≠ .none then
    -- `if err != nil { dump; os.Exit(1) }`: a test always prints err.Error() (stderr is empty),
    -- an example prints only its stdout, if any
    ((if f.isExample && got.isEmpty then [] else [.dump]) ++ (if abortFAIL cfg f then [.fail] else []), .abort)
  else if expect ≠ [] ∧ expect = got then ([], .pass)
  else if expect ≠ [] then ([.header f.name, .expectOut expect got], .failed)
  else ([], .pass)

/-- the rest of the run after some functions; `failed` = `firstError != nil` -/
def runAll (cfg : Cfg) : List Fn → Bool → List Line × Nat
  | [], failed => if failed then ([.fail], 1) else ([.ok], 0)
  | f :: rest, failed =>
    if f.selected then
      match runFn cfg f with
      | (ls, .pass) => let r := runAll cfg rest failed; (ls ++ r.1, r.2)
      | (ls, .failed) => let r := runAll cfg rest true; (ls ++ r.1, r.2)
      | (ls, .abort) => (ls, 1)
    else runAll cfg rest failed

inductive Suite
  | loadError                 -- the package does not load / compile: error printed, `os.Exit(1)`
  | noTestFiles
  | fns (l : List Fn)
  deriving Repr

/-- Tests first, then Examples, each in declaration order -/
def ordered (l : List Fn) : List Fn := l.filter (fun f => !f.isExample) ++ l.filter (fun f => f.isExample)

def run (cfg : Cfg) : Suite → List Line × Nat
  | .loadError => ([.dump], 1)
  | .noTestFiles => ([.noTestFiles], 0)
  | .fns l => runAll cfg (ordered l) false

/-! ## the contract (the property's side) -/
def meets : Decl → Behaviour → Bool
  | .none, b => b.end_ = .returns
  | .output s, b => b.end_ = .returns && b.out = s
  | .panic s, b => match b.end_ with
    | .panics m _ => m = s
    | _ => false

def allMeet (l : List Fn) : Prop := ∀ f ∈ l, f.selected = true → meets f.decl f.beh = true

instance (l : List Fn) : Decidable (allMeet l) := by unfold allMeet; exact inferInstance

/-- a function that declares an expected panic prints nothing else (the statement does not say
whether output before the panic matters; the runner compares the whole stdout) -/
def WF (f : Fn) : Bool :=
  match f.decl with
  | .panic _ => f.beh.out.isEmpty
  | _ => true

/-- root cause 1: a declaration with no text is stored as the sentinel `?` -/
def EmptyDecl (f : Fn) : Bool :=
  match f.decl with
  | .output s => s.isEmpty
  | .panic s => s.isEmpty
  | .none => false

/-- root cause 2: the expected-panic comparison is a prefix match, so another message can pass -/
def PrefixAmbiguous (f : Fn) : Bool :=
  match f.decl, f.beh.end_ with
  | .panic e, .panics m p => m ≠ e && (panicPrefix ++ e).isPrefixOf (panicLine m p)
  | _, _ => false

/-- root cause 3: takes the early-exit path (no expected panic declared and the function does not return) -/
def Aborts (f : Fn) : Bool :=
  match f.decl with
  | .panic _ => false
  | _ => f.beh.end_ ≠ .returns

def Guarded (f : Fn) : Bool := WF f && !EmptyDecl f && !PrefixAmbiguous f

end WaVerif.C30
