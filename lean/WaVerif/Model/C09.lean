import WaVerif.Gen.C09Tables
/-!
# C09 — model: the Chinese ↔ English keyword map, the predeclared-name map, and the
normalisation of a position-free syntax tree dump under these maps.

All tables come from `Gen/C09Tables.lean` (regenerated from /repo on every run); this file only
defines what is *computed* from them.  Core Lean only.
-/
namespace WaVerif.C09
open Gen

/-- the English token sequence a Chinese keyword denotes (`none`: not a Chinese keyword) -/
def kwImage (z : Nat) : Option (List Nat) :=
  (zhKeywords.find? (fun r => r.1 == z)).map (·.2)

def isZhKeyword (t : Nat) : Bool := zhKeywords.any (fun r => r.1 == t)
def isEnKeyword (t : Nat) : Bool := enKeywords.contains t

/-- English keywords with no Chinese spelling by design: `.wz` files have no package clause. -/
def notShared : List Nat := [T_PACKAGE]

/-! ## keyword properties (Bool-valued so that the kernel evaluates them) -/

def kwMapInjective : Bool :=
  zhKeywords.all fun a => zhKeywords.all fun b => (a.2 != b.2) || (a.1 == b.1)

def kwMapCoversShared : Bool :=
  enKeywords.all fun e => notShared.contains e || zhKeywords.any (fun r => r.2 == [e])

/-- every Chinese keyword denotes a non-empty sequence of real English keyword / delimiter tokens -/
def kwMapTotal : Bool :=
  zhKeywords.all fun r => !r.2.isEmpty && r.2.all (fun e => enKeywords.contains e || operatorToks.contains e)

/-- `LookupEx` returns a keyword only in its own language mode; `Lookup` knows both -/
def lookupSeparatesModes : Bool :=
  lookupRows.all fun (t, wa, wz, both) =>
    both == t &&
    (if isEnKeyword t then wa == t && wz == identTok
     else if isZhKeyword t then wz == t && wa == identTok
     else false)

/-- the lookup rows cover every keyword of both languages exactly once -/
def lookupRowsComplete : Bool :=
  lookupRows.map (·.1) == enKeywords ++ zhKeywords.map (·.1)

/-- no two keywords (of either language) share their text: the single lookup map holds all of them -/
def keywordTextsDistinct : Bool :=
  keywordMapLen == enKeywords.length + zhKeywords.length

/-! ## punctuation / selector -/

def punctModeIndependent : Bool := punctRows.all fun (_, wa, wz) => wa == wz

def selectorIsPeriod : Bool :=
  selectorRunes.length == 2 &&
  selectorRunes.all fun r => punctRows.any fun (q, wa, wz) =>
    q == r && wa == [identTok, periodTok, identTok] && wz == [identTok, periodTok, identTok]

/-! ## consumers of the syntax tree -/

/-- a clause that accepts a Chinese keyword token also accepts the English token(s) it denotes
(only single-token images can occur in a tree) -/
def clauseClosed (c : List Nat) : Bool :=
  c.all fun t => match kwImage t with
    | some [e] => c.contains e
    | some _ => false
    | none => true

def consumerClausesClosed : Bool := consumerClauses.all clauseClosed

/-! ## predeclared names -/

def sameObj (a b : Nat × Nat × Nat) : Bool := a.2.1 == b.2.1 && a.2.2 == b.2.2

/-- no two Chinese predeclared names denote the same object -/
def universeInjective : Bool :=
  wzZh.all fun a => wzZh.all fun b => !(sameObj a b) || a.1 == b.1

/-- every Chinese predeclared name denotes an object the English universe also has (same scope,
same kind/type/builtin id/constant value/role) -/
def universeTotal : Bool := wzZh.all fun a => waEn.any (sameObj a)

/-- the English names denoting the same object as Chinese name `a` (English has synonyms such as
`int32`/`i32`; they all denote one object kind) -/
def englishNamesOf (a : Nat × Nat × Nat) : List Nat := (waEn.filter (sameObj a)).map (·.1)

/-- the objects (scope, descriptor) the English universe has -/
def englishObjects : List (Nat × Nat) := (waEn.map (·.2)).eraseDups

/-- number of English *objects* a Chinese name denotes -/
def englishObjectCount (a : Nat × Nat × Nat) : Nat := (englishObjects.filter (· == a.2)).length

def universeExactlyOne : Bool := wzZh.all fun a => englishObjectCount a == 1

def descOf (tab : List (Nat × Nat × Nat)) (n : Nat) : Option (Nat × Nat) :=
  (tab.find? (fun r => r.1 == n)).map (·.2)

/-- documented pairs (const_wz.go comments) whose two names do NOT denote the same object -/
def docPairsMismatch : List (Nat × Nat) :=
  docPairs.filter fun (z, e) => descOf wzZh z != descOf waEn e

/-- back-end pairs (one `case` of the builtin dispatch) whose two names do NOT denote the same object -/
def backendPairsMismatch : List (Nat × Nat) :=
  backendPairs.filter fun (e, z) => descOf wzZh z != descOf waEn e

/-- ASCII names of the Chinese universe that the English universe does not define identically -/
def wzEnglishMismatch : List Nat :=
  (wzEnBase.filter fun r => descOf waEnBase r.1 != some r.2).map (·.1)

/-- a clause that dispatches on builtin NAMES (ssa builder, back ends): as soon as it lists an English
builtin name it lists exactly the Chinese names registered under the same builtin ids, and vice versa
(clauses made of Chinese names only are language tests and are left alone) -/
def builtinClauseClosed (c : List Nat) : Bool :=
  !(builtinPairs.any fun p => c.contains p.1) ||
  builtinPairs.all fun p => c.contains p.1 == c.contains p.2

def builtinClausesClosed : Bool := kNameClauses.all builtinClauseClosed

/-! ## normalising a tree dump (executable; used by the driver)

Atoms `T:<Node.Field>:<id>` carry tokens, `I:<hex>` identifiers.  A Chinese keyword token with a
single-token image is replaced by that English token; three places need the context:
* `GenDecl.Tok`: `结构 T:`/`接口 T:`/`类型 T = U` are all type declarations (English `type`), and
  package-level / local variables are `VAR` in the tree of either front end (`global`, `全局`, `设定`);
* `IfStmt.Tok`: `或者` (else-if) heads a nested `IfStmt`, English `if`.
-/

def zhTok (s : String) : Nat := (zhTokByText.lookup s).getD 0

def normTok (ctx : String) (t : Nat) : Nat :=
  if ctx == "GenDecl.Tok" then
    if t == zhTok "结构" || t == zhTok "接口" || t == zhTok "类型" then T_TYPE
    else if t == T_GLOBAL || t == zhTok "全局" || t == zhTok "设定" then T_VAR
    else match kwImage t with | some [e] => e | _ => t
  else if ctx == "IfStmt.Tok" && t == zhTok "或者" then T_IF
  else match kwImage t with | some [e] => e | _ => t

def normIdentHex (h : String) : String := (identMapHex.lookup h).getD h

def normAtom (a : String) : String :=
  if a.startsWith "T:" then
    match a.splitOn ":" with
    | [_, ctx, n] => match n.toNat? with
      | some t => s!"T:{ctx}:{normTok ctx t}"
      | none => a
    | _ => a
  else if a.startsWith "I:" then "I:" ++ normIdentHex ((a.drop 2).toString)
  else a

def normLine (l : String) : String :=
  " ".intercalate ((l.splitOn " ").map normAtom)

end WaVerif.C09
