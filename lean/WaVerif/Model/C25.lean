import WaVerif.Gen.C25Slip
import WaVerif.Model.C25Stream
/-!
# C25 — SLIP / SLIPMUX / FCS-16 model

Hand-written transcription of internal/3rdparty/slip (slip.go, slipmux.go, fcs.go); the four
framing bytes, the frame-class constants and the 256-entry FCS table come from
`WaVerif.Gen.C25` which is regenerated from the compiled Go package on every run.

* `encode`          — `Writer.WritePacket`
* `readGo`/`readPacket` — `Reader.ReadPacket` on the remaining byte list (the Go reader pulls
  one byte per `Read` through a 1-byte buffer); result `(payload, complete, rest)` where
  `complete = !isPrefix`
* `readGoC`/`readPacketC` — the same loop written against `Stream.Buffered.next 1`, i.e. over a
  transport that delivers arbitrary chunks
* `readAll`, `readAllC` — call `ReadPacket` until it reports an incomplete packet
* `muxWrite`, `muxRead` — `SlipMuxWriter.WritePacket`, `SlipMuxReader.ReadPacket`
* `fcsStep`, `calcFcs`, `fcsBytes`, `checkFcs` — fcs.go on `BitVec 16` (`uint16`)
Bytes are `Nat`s below 256.
-/
namespace WaVerif.C25
open WaVerif.Gen.C25 WaVerif.Stream

/-! ## writer -/

/-- the `switch b` of `WritePacket` -/
def stuff (b : Nat) : List Nat :=
  if b = cEND then [cESC, cESC_END]
  else if b = cESC then [cESC, cESC_ESC]
  else [b]

def encode (p : List Nat) : List Nat := cEND :: (p.flatMap stuff ++ [cEND])

/-! ## reader -/

/-- the inner `switch readBuf[0]` after an ESC -/
def unesc (c : Nat) : Nat :=
  if c = cESC_END then cEND else if c = cESC_ESC then cESC else c

/-- `ReadPacket` loop; `acc` = `buf` so far; `esc = true` when the previous byte was an ESC (the
Go code is then at its second `Read`, inside `case ESC`).
Result: (payload, complete, remaining stream). -/
def readGo : List Nat → List Nat → Bool → List Nat × Bool × List Nat
  | [], acc, _ => (acc, false, [])
  | c :: rest, acc, true => readGo rest (acc ++ [unesc c]) false
  | b :: rest, acc, false =>
    if b = cEND then
      if acc ≠ [] then (acc, true, rest) else readGo rest acc false
    else if b = cESC then readGo rest acc true
    else readGo rest (acc ++ [b]) false

def readPacket (s : List Nat) : List Nat × Bool × List Nat := readGo s [] false

theorem readGo_rest_lt : ∀ (s acc : List Nat) (e : Bool) {p r : List Nat},
    readGo s acc e = (p, true, r) → r.length < s.length
  | [], acc, e, p, r, h => by simp [readGo] at h
  | c :: rest, acc, true, p, r, h => by
    rw [readGo] at h
    have := readGo_rest_lt rest _ false h
    simp; omega
  | b :: rest, acc, false, p, r, h => by
    rw [readGo] at h
    by_cases h1 : b = cEND
    · by_cases h2 : acc ≠ []
      · rw [if_pos h1, if_pos h2] at h
        simp only [Prod.mk.injEq, true_and] at h
        simp [← h.2]
      · rw [if_pos h1, if_neg h2] at h
        have := readGo_rest_lt rest acc false h
        simp; omega
    · by_cases h3 : b = cESC
      · rw [if_neg h1, if_pos h3] at h
        have := readGo_rest_lt rest _ true h
        simp; omega
      · rw [if_neg h1, if_neg h3] at h
        have := readGo_rest_lt rest _ false h
        simp; omega

/-- call `ReadPacket` until it reports an incomplete packet (EOF); result: the complete packets
and the bytes of the trailing incomplete one -/
def readAll (s : List Nat) : List (List Nat) × List Nat :=
  match h : readPacket s with
  | (p, true, r) => let (ps, t) := readAll r; (p :: ps, t)
  | (p, false, _) => ([], p)
termination_by s.length
decreasing_by exact readGo_rest_lt s [] false h

/-! ## the same reader over a chunked transport (1-byte reads) -/

def readGoC (s : Buffered) (acc : List Nat) (esc : Bool) : List Nat × Bool × Buffered :=
  match _h : s.next 1 with
  | none => (acc, false, s)
  | some (b, s1) =>
    if esc then readGoC s1 (acc ++ [unesc b]) false
    else if b = cEND then
      if acc ≠ [] then (acc, true, s1) else readGoC s1 acc false
    else if b = cESC then readGoC s1 acc true
    else readGoC s1 (acc ++ [b]) false
termination_by s.flat.length
decreasing_by all_goals exact Buffered.next_flat_length _h

def readPacketC (s : Buffered) : List Nat × Bool × Buffered := readGoC s [] false

theorem readGoC_rest_lt (s : Buffered) (acc : List Nat) (e : Bool) {p : List Nat} {r : Buffered}
    (h : readGoC s acc e = (p, true, r)) : r.flat.length < s.flat.length := by
  revert h
  fun_induction readGoC s acc e <;> intro h
  case case1 => simp at h
  case case3 =>
    have hlt := Buffered.next_flat_length ‹Buffered.next 1 _ = some (_, _)›
    simp only [Prod.mk.injEq, true_and] at h
    rw [← h.2]; exact hlt
  all_goals
    rename_i ih
    have hlt := Buffered.next_flat_length ‹Buffered.next 1 _ = some (_, _)›
    have := ih h; omega

def readAllC (s : Buffered) : List (List Nat) × List Nat :=
  match h : readPacketC s with
  | (p, true, r) => let (ps, t) := readAllC r; (p :: ps, t)
  | (p, false, _) => ([], p)
termination_by s.flat.length
decreasing_by exact readGoC_rest_lt s [] false h

/-! ## FCS-16 (fcs.go) -/

def fcsTab (i : Nat) : BitVec 16 := BitVec.ofNat 16 (fcstab.getD i 0)

/-- `fcs = (fcs >> 8) ^ fcstab[(fcs ^ uint16(b)) & 0xff]` -/
def fcsStep (f : BitVec 16) (b : Nat) : BitVec 16 :=
  (f >>> 8) ^^^ fcsTab ((f ^^^ BitVec.ofNat 16 b) &&& 0xff#16).toNat

def calcFcsInit (init : BitVec 16) (data : List Nat) : BitVec 16 := data.foldl fcsStep init

def calcFcs (data : List Nat) : BitVec 16 := calcFcsInit (BitVec.ofNat 16 cFCS_INITIAL) data

/-- the two bytes `AppendFcs16` appends: complement, least significant byte first -/
def fcsBytes (f : BitVec 16) : List Nat :=
  let c := f ^^^ 0xffff#16
  [(c &&& 0xff#16).toNat, ((c >>> 8) &&& 0xff#16).toNat]

def appendFcs (data : List Nat) : List Nat := data ++ fcsBytes (calcFcs data)

def checkFcs (d : List Nat) : Bool := calcFcs d == BitVec.ofNat 16 cFCS_GOOD

/-! ## SLIPMUX -/

def isIpv4 (f : Nat) : Bool := decide (cIPV4_START ≤ f ∧ f ≤ cIPV4_END)
def isIpv6 (f : Nat) : Bool := decide (cIPV6_START ≤ f ∧ f ≤ cIPV6_END)
def isIp (f : Nat) : Bool := isIpv4 f || isIpv6 f

def isInvalidFrame (f : Nat) : Bool := decide (f = cEND ∨ f = cESC ∨ f = cFRAME_UNKNOWN)

/-- the packet body `SlipMuxWriter.WritePacket` hands to the SLIP writer -/
def muxBody (frame : Nat) (p : List Nat) : List Nat :=
  let p1 := if isIp frame then p else frame :: p
  if frame = cFRAME_COAP then appendFcs p1 else p1

def muxWrite (frame : Nat) (p : List Nat) : List Nat := encode (muxBody frame p)

/-- what `SlipMuxReader.ReadPacket` does with one complete SLIP packet `res` (never empty):
`none` = the packet is ignored and the reader goes on with the next one -/
def muxAccept (res : List Nat) : Option (List Nat × Nat) :=
  match res with
  | [] => none
  | ft :: body =>
    if isInvalidFrame ft then none
    else if ft = cFRAME_COAP then
      if res.length < 7 then none
      else if !checkFcs res then none
      else
        let res' := res.take (res.length - 2)
        some (if isIp ft then res' else res'.drop 1, ft)
    else some (if isIp ft then res else body, ft)

/-- `SlipMuxReader.ReadPacket` on the remaining stream: `some (payload, frameType, rest)`, or
`none` when the stream holds no further complete acceptable packet (the Go reader then keeps
polling the transport). -/
def muxRead (s : List Nat) : Option (List Nat × Nat × List Nat) :=
  match h : readPacket s with
  | (_, false, _) => none
  | (res, true, rest) =>
    match muxAccept res with
    | some (p, ft) => some (p, ft, rest)
    | none => muxRead rest
termination_by s.length
decreasing_by exact readGo_rest_lt s [] false h

theorem muxRead_rest_lt (s : List Nat) {p : List Nat} {ft : Nat} {r : List Nat}
    (h : muxRead s = some (p, ft, r)) : r.length < s.length := by
  revert h
  fun_induction muxRead s <;> intro h
  case case1 => simp at h
  case case2 hr _ _ hacc =>
    simp only [Option.some.injEq, Prod.mk.injEq] at h
    rw [← h.2.2]; exact readGo_rest_lt _ [] false hr
  case case3 hr _ ih =>
    have := readGo_rest_lt _ [] false hr; have := ih h; omega

/-- every packet the mux reader delivers until the stream is exhausted -/
def muxReadAll (s : List Nat) : List (Nat × List Nat) :=
  match h : muxRead s with
  | none => []
  | some (p, ft, rest) => (ft, p) :: muxReadAll rest
termination_by s.length
decreasing_by exact muxRead_rest_lt s h

/-! ### the mux reader over a chunked transport -/

def muxReadC (s : Buffered) : Option (List Nat × Nat × Buffered) :=
  match h : readPacketC s with
  | (_, false, _) => none
  | (res, true, rest) =>
    match muxAccept res with
    | some (p, ft) => some (p, ft, rest)
    | none => muxReadC rest
termination_by s.flat.length
decreasing_by exact readGoC_rest_lt s [] false h

theorem muxReadC_rest_lt (s : Buffered) {p : List Nat} {ft : Nat} {r : Buffered}
    (h : muxReadC s = some (p, ft, r)) : r.flat.length < s.flat.length := by
  revert h
  fun_induction muxReadC s <;> intro h
  case case1 => simp at h
  case case2 hr _ _ hacc =>
    simp only [Option.some.injEq, Prod.mk.injEq] at h
    rw [← h.2.2]; exact readGoC_rest_lt _ [] false hr
  case case3 hr _ ih =>
    have := readGoC_rest_lt _ [] false hr; have := ih h; omega

def muxReadAllC (s : Buffered) : List (Nat × List Nat) :=
  match h : muxReadC s with
  | none => []
  | some (p, ft, rest) => (ft, p) :: muxReadAllC rest
termination_by s.flat.length
decreasing_by exact muxReadC_rest_lt s h

/-- the frames/payloads for which SLIPMUX is a faithful channel (DESIGN C25): the frame byte is
not one the reader filters out; an IP frame byte is not prepended by the writer, so it must
already be the payload's first byte; a CoAP payload has at least 4 bytes (the reader drops
shorter CoAP packets by design). -/
structure MuxWF (frame : Nat) (p : List Nat) : Prop where
  valid : isInvalidFrame frame = false
  ip : isIp frame = true → ∃ t, p = frame :: t
  coap : frame = cFRAME_COAP → 4 ≤ p.length

/-- bitwise CRC-16/X-25 (reflected polynomial 0x8408) of one byte: the specification of a table entry -/
def crcEntry (i : Nat) : Nat :=
  let stepBit (v : Nat) : Nat := if v % 2 = 1 then (v / 2) ^^^ 0x8408 else v / 2
  stepBit (stepBit (stepBit (stepBit (stepBit (stepBit (stepBit (stepBit i)))))))

end WaVerif.C25
