import WaVerif.Gen.C25Slip
import WaVerif.Model.C25Stream
/-!
# C25 — SLIP / SLIPMUX / FCS-16 model

Hand-written transcription of internal/3rdparty/slip (slip.go, slipmux.go, fcs.go); the four
framing bytes, the frame-class constants and the 256-entry FCS table come from
`WaVerif.Gen.C25` which is regenerated from the compiled Go package on every run.

* `encode`          — `Writer.WritePacket`
* `readGo`/`readPacket` — `Reader.ReadPacket` on the remaining byte list (the Go reader pulls
  one byte per `Read` through a 1-byte buffer); result `(payload, complete, rest)` where
  `complete = !isPrefix`
* `readGoC`/`readPacketC` — the same loop written against `Stream.Buffered.next 1`, i.e. over a
  transport that delivers arbitrary chunks
* `readAll`, `readAllC` — call `ReadPacket` until it reports an incomplete packet
* `muxWrite`, `muxRead` — `SlipMuxWriter.WritePacket`, `SlipMuxReader.ReadPacket`
* `fcsStep`, `calcFcs`, `fcsBytes`, `checkFcs` — fcs.go on `BitVec 16` (`uint16`)
Bytes are `Nat`s below 256.
-/
namespace WaVerif.C25
open WaVerif.Gen.C25 WaVerif.Stream

/-! ## writer -/

/-- the `switch b` of `WritePacket` -/
def stuff (b : Nat) : List Nat :=
  if b = cEND then [cESC, cESC_END]
  else if b = cESC then [cESC, cESC_ESC]
  else [b]

def encode (p : List Nat) : List Nat := cEND :: (p.flatMap stuff ++ [cEND])

/-! ## reader -/

/-- the inner `switch readBuf[0]` after an ESC -/
def unesc (c : Nat) : Nat :=
  if c = cESC_END then cEND else if c = cESC_ESC then cESC else c

/-- `ReadPacket` loop; `acc` = `buf` so far.  Result: (payload, complete, remaining stream). -/
def readGo : List Nat → List Nat → List Nat × Bool × List Nat
  | [], acc => (acc, false, [])
  | b :: rest, acc =>
    if b = cEND then
      if acc ≠ [] then (acc, true, rest) else readGo rest acc
    else if b = cESC then
      match rest with
      | [] => (acc, false, [])
      | c :: rest' => readGo rest' (acc ++ [unesc c])
    else readGo rest (acc ++ [b])

def readPacket (s : List Nat) : List Nat × Bool × List Nat := readGo s []

theorem readGo_rest_lt : ∀ (s acc : List Nat) {p r : List Nat},
    readGo s acc = (p, true, r) → r.length < s.length
  | [], acc, p, r, h => by simp [readGo] at h
  | [b], acc, p, r, h => by
    unfold readGo at h
    by_cases h1 : b = cEND
    · by_cases h2 : acc ≠ []
      · simp [h1, h2] at h; simp [← h.2]
      · simp [h1, h2, readGo] at h
    · by_cases h3 : b = cESC
      · simp [h1, h3] at h
        simp [← h3, h1] at h
      · simp [h1, h3, readGo] at h
  | b :: c :: rest', acc, p, r, h => by
    unfold readGo at h
    by_cases h1 : b = cEND
    · by_cases h2 : acc ≠ []
      · simp [h1, h2] at h; simp [← h.2]
      · simp only [h1, if_true, h2, if_false] at h
        have := readGo_rest_lt (c :: rest') acc h
        simp at this ⊢; omega
    · by_cases h3 : b = cESC
      · simp only [h1, if_false, h3, if_true] at h
        have := readGo_rest_lt rest' _ h
        simp; omega
      · simp only [h1, if_false, h3] at h
        have := readGo_rest_lt (c :: rest') _ h
        simp at this ⊢; omega

/-- call `ReadPacket` until it reports an incomplete packet (EOF); result: the complete packets
and the bytes of the trailing incomplete one -/
def readAll (s : List Nat) : List (List Nat) × List Nat :=
  match h : readPacket s with
  | (p, true, r) => let (ps, t) := readAll r; (p :: ps, t)
  | (p, false, _) => ([], p)
termination_by s.length
decreasing_by exact readGo_rest_lt s [] h

/-! ## the same reader over a chunked transport (1-byte reads) -/

def readGoC (s : Buffered) (acc : List Nat) : List Nat × Bool × Buffered :=
  match _h : s.next 1 with
  | none => (acc, false, s)
  | some (b, s1) =>
    if b = cEND then
      if acc ≠ [] then (acc, true, s1) else readGoC s1 acc
    else if b = cESC then
      match _h2 : s1.next 1 with
      | none => (acc, false, s1)
      | some (c, s2) => readGoC s2 (acc ++ [unesc c])
    else readGoC s1 (acc ++ [b])
termination_by s.flat.length
decreasing_by
  · exact Buffered.next_flat_length _h
  · have := Buffered.next_flat_length _h; have := Buffered.next_flat_length _h2; omega
  · exact Buffered.next_flat_length _h

def readPacketC (s : Buffered) : List Nat × Bool × Buffered := readGoC s []

theorem readGoC_rest_lt (s : Buffered) (acc : List Nat) {p : List Nat} {r : Buffered}
    (h : readGoC s acc = (p, true, r)) : r.flat.length < s.flat.length := by
  revert h
  fun_induction readGoC s acc <;> intro h
  case case1 => simp at h
  case case2 hn =>
    simp only [Prod.mk.injEq, true_and] at h
    rw [← h.2]; exact Buffered.next_flat_length hn
  case case3 hn ih => have := Buffered.next_flat_length hn; have := ih h; omega
  case case4 => simp at h
  case case5 hn2 hn _ ih =>
    have := Buffered.next_flat_length hn; have := Buffered.next_flat_length hn2
    have := ih h; omega
  case case6 hn _ _ ih => have := Buffered.next_flat_length hn; have := ih h; omega

def readAllC (s : Buffered) : List (List Nat) × List Nat :=
  match h : readPacketC s with
  | (p, true, r) => let (ps, t) := readAllC r; (p :: ps, t)
  | (p, false, _) => ([], p)
termination_by s.flat.length
decreasing_by exact readGoC_rest_lt s [] h

/-! ## FCS-16 (fcs.go) -/

def fcsTab (i : Nat) : BitVec 16 := BitVec.ofNat 16 (fcstab.getD i 0)

/-- `fcs = (fcs >> 8) ^ fcstab[(fcs ^ uint16(b)) & 0xff]` -/
def fcsStep (f : BitVec 16) (b : Nat) : BitVec 16 :=
  (f >>> 8) ^^^ fcsTab ((f ^^^ BitVec.ofNat 16 b) &&& 0xff#16).toNat

def calcFcsInit (init : BitVec 16) (data : List Nat) : BitVec 16 := data.foldl fcsStep init

def calcFcs (data : List Nat) : BitVec 16 := calcFcsInit (BitVec.ofNat 16 cFCS_INITIAL) data

/-- the two bytes `AppendFcs16` appends: complement, least significant byte first -/
def fcsBytes (f : BitVec 16) : List Nat :=
  let c := f ^^^ 0xffff#16
  [(c &&& 0xff#16).toNat, ((c >>> 8) &&& 0xff#16).toNat]

def appendFcs (data : List Nat) : List Nat := data ++ fcsBytes (calcFcs data)

def checkFcs (d : List Nat) : Bool := calcFcs d == BitVec.ofNat 16 cFCS_GOOD

/-! ## SLIPMUX -/

def isIpv4 (f : Nat) : Bool := decide (cIPV4_START ≤ f ∧ f ≤ cIPV4_END)
def isIpv6 (f : Nat) : Bool := decide (cIPV6_START ≤ f ∧ f ≤ cIPV6_END)
def isIp (f : Nat) : Bool := isIpv4 f || isIpv6 f

def isInvalidFrame (f : Nat) : Bool := decide (f = cEND ∨ f = cESC ∨ f = cFRAME_UNKNOWN)

/-- the packet body `SlipMuxWriter.WritePacket` hands to the SLIP writer -/
def muxBody (frame : Nat) (p : List Nat) : List Nat :=
  let p1 := if isIp frame then p else frame :: p
  if frame = cFRAME_COAP then appendFcs p1 else p1

def muxWrite (frame : Nat) (p : List Nat) : List Nat := encode (muxBody frame p)

/-- what `SlipMuxReader.ReadPacket` does with one complete SLIP packet `res` (never empty):
`none` = the packet is ignored and the reader goes on with the next one -/
def muxAccept (res : List Nat) : Option (List Nat × Nat) :=
  match res with
  | [] => none
  | ft :: body =>
    if isInvalidFrame ft then none
    else if ft = cFRAME_COAP then
      if res.length < 7 then none
      else if !checkFcs res then none
      else
        let res' := res.take (res.length - 2)
        some (if isIp ft then res' else res'.drop 1, ft)
    else some (if isIp ft then res else body, ft)

/-- `SlipMuxReader.ReadPacket` on the remaining stream: `some (payload, frameType, rest)`, or
`none` when the stream holds no further complete acceptable packet (the Go reader then keeps
polling the transport). -/
def muxRead (s : List Nat) : Option (List Nat × Nat × List Nat) :=
  match h : readPacket s with
  | (_, false, _) => none
  | (res, true, rest) =>
    match muxAccept res with
    | some (p, ft) => some (p, ft, rest)
    | none => muxRead rest
termination_by s.length
decreasing_by exact readGo_rest_lt s [] h

theorem muxRead_rest_lt (s : List Nat) {p : List Nat} {ft : Nat} {r : List Nat}
    (h : muxRead s = some (p, ft, r)) : r.length < s.length := by
  revert h
  fun_induction muxRead s <;> intro h
  case case1 => simp at h
  case case2 hr _ _ hacc =>
    simp only [Option.some.injEq, Prod.mk.injEq] at h
    rw [← h.2.2]; exact readGo_rest_lt _ [] hr
  case case3 hr _ ih =>
    have := readGo_rest_lt _ [] hr; have := ih h; omega

/-- every packet the mux reader delivers until the stream is exhausted -/
def muxReadAll (s : List Nat) : List (Nat × List Nat) :=
  match h : muxRead s with
  | none => []
  | some (p, ft, rest) => (ft, p) :: muxReadAll rest
termination_by s.length
decreasing_by exact muxRead_rest_lt s h

end WaVerif.C25
