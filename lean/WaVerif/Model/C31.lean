import WaVerif.Base.WasmNum
/-!
# C31 — reference semantics for the integer + linear-memory fragment of WebAssembly

Extends `Base.WasmNum` (the numeric specification shared with C01: `binop`, `relop`, `unop`) with
* a result type that separates *trap* (with its cause) from *stuck* (ill-typed; unreachable for validated code),
* `select`,
* linear memory: a byte array with a page limit; little-endian loads / stores at 1, 2, 4, 8 bytes with
  zero / sign extension, effective address `addr + offset` computed WITHOUT wrap-around (33 bits, spec §4.4.7),
  bounds trap exactly when `ea + n > size`, `memory.size / grow / fill / copy`.
Written from the WebAssembly core specification (§4.3 numerics, §4.4.7 memory instructions); floats are not modelled.
Core Lean only.
-/
namespace WaVerif.C31
open WaVerif.Wasm

inductive TrapK | div0 | ovf | oob
  deriving DecidableEq, Repr, Inhabited

inductive Res (α : Type)
  | ok (a : α)
  | trap (k : TrapK)
  | stuck
  deriving Repr, DecidableEq

def Res.bind {α β : Type} (r : Res α) (f : α → Res β) : Res β :=
  match r with
  | .ok a => f a
  | .trap k => .trap k
  | .stuck => .stuck

def pageSize : Nat := 65536

/-- linear memory: its bytes (length is always a multiple of the page size in reachable states) and the page limit -/
structure Mem where
  bytes : Array (BitVec 8)
  maxPages : Nat

def Mem.size (m : Mem) : Nat := m.bytes.size
def Mem.pages (m : Mem) : Nat := m.bytes.size / pageSize

/-- little-endian read of `n` bytes at `ea` as a natural number -/
def readLE (b : Array (BitVec 8)) (ea : Nat) : Nat → Nat
  | 0 => 0
  | n + 1 => (b.getD ea 0).toNat + 256 * readLE b (ea + 1) n

/-- little-endian write of the low `n` bytes of `v` at `ea` -/
def writeLE (b : Array (BitVec 8)) (ea : Nat) : Nat → Nat → Array (BitVec 8)
  | 0, _ => b
  | n + 1, v => writeLE (b.setIfInBounds ea (BitVec.ofNat 8 v)) (ea + 1) n (v / 256)

def fillBytes (b : Array (BitVec 8)) (d : Nat) (v : BitVec 8) : Nat → Array (BitVec 8)
  | 0 => b
  | n + 1 => fillBytes (b.setIfInBounds d v) (d + 1) v n

def writeList (b : Array (BitVec 8)) (d : Nat) : List (BitVec 8) → Array (BitVec 8)
  | [] => b
  | x :: xs => writeList (b.setIfInBounds d x) (d + 1) xs

def readList (b : Array (BitVec 8)) (s : Nat) : Nat → List (BitVec 8)
  | 0 => []
  | n + 1 => b.getD s 0 :: readList b (s + 1) n

/-- `memory.copy`: as if the source range were read completely before anything is written -/
def copyBytes (b : Array (BitVec 8)) (d s n : Nat) : Array (BitVec 8) :=
  writeList b d (readList b s n)

/-- the value a load of `n` bytes produces in a `w`-bit register -/
def extendNat (w n : Nat) (sx : Bool) (raw : Nat) : BitVec w :=
  if sx then (BitVec.ofNat (8 * n) raw).signExtend w else BitVec.ofNat w raw

inductive Instr
  | num (i : Wasm.Instr)                                   -- const / local.get / binary / compare / eqz / unary / wrap / extend / drop
  | select
  | load (t : Ty) (n : Nat) (sx : Bool) (off : Nat)        -- tN.load / tN.load{8,16,32}_{s,u} offset=off
  | store (t : Ty) (n : Nat) (off : Nat)                   -- tN.store / tN.store{8,16,32} offset=off
  | memSize | memGrow | memFill | memCopy
  deriving DecidableEq, Repr, Inhabited

abbrev State := List Val × Mem

def bits : Ty → Nat
  | .i32 => 32
  | .i64 => 64

/-- cause of an integer division trap (spec: both are just "trap"; engines name them) -/
def divTrap {w : Nat} (y : BitVec w) : TrapK := if y = 0 then .div0 else .ovf

def ofOpt {α : Type} (k : TrapK) : Option α → Res α
  | some a => .ok a
  | none => .trap k

def popI32 : List Val → Res (BitVec 32 × List Val)
  | .i32 v :: st => .ok (v, st)
  | _ => .stuck

def popI64 : List Val → Res (BitVec 64 × List Val)
  | .i64 v :: st => .ok (v, st)
  | _ => .stuck

def popAny : List Val → Res (Val × List Val)
  | v :: st => .ok (v, st)
  | [] => .stuck

/-- numeric instructions, with the trap cause made explicit; agrees with `Wasm.step` (theorem `stepNum_eq_base`).
Written as one `match` on the instruction with typed pops (no overlapping patterns), which keeps unfolding cheap in proofs. -/
def stepNum (loc : List Val) (i : Wasm.Instr) (st : List Val) : Res (List Val) :=
  match i with
  | .const32 v => .ok (.i32 v :: st)
  | .const64 v => .ok (.i64 v :: st)
  | .localGet k => match loc[k]? with
    | some v => .ok (v :: st)
    | none => .stuck
  | .bin .i32 k => (popI32 st).bind fun (y, st1) => (popI32 st1).bind fun (x, st2) =>
      (ofOpt (divTrap y) (binop k x y)).bind fun r => .ok (.i32 r :: st2)
  | .bin .i64 k => (popI64 st).bind fun (y, st1) => (popI64 st1).bind fun (x, st2) =>
      (ofOpt (divTrap y) (binop k x y)).bind fun r => .ok (.i64 r :: st2)
  | .rel .i32 k => (popI32 st).bind fun (y, st1) => (popI32 st1).bind fun (x, st2) => .ok (.i32 (b2i (relop k x y)) :: st2)
  | .rel .i64 k => (popI64 st).bind fun (y, st1) => (popI64 st1).bind fun (x, st2) => .ok (.i32 (b2i (relop k x y)) :: st2)
  | .eqz .i32 => (popI32 st).bind fun (x, st1) => .ok (.i32 (b2i (x == 0)) :: st1)
  | .eqz .i64 => (popI64 st).bind fun (x, st1) => .ok (.i32 (b2i (x == 0)) :: st1)
  | .un .i32 k => (popI32 st).bind fun (x, st1) => .ok (.i32 (unop k x) :: st1)
  | .un .i64 k => (popI64 st).bind fun (x, st1) => .ok (.i64 (unop k x) :: st1)
  | .wrap_i64 => (popI64 st).bind fun (x, st1) => .ok (.i32 (x.setWidth 32) :: st1)
  | .extend_i32_s => (popI32 st).bind fun (x, st1) => .ok (.i64 (x.signExtend 64) :: st1)
  | .extend_i32_u => (popI32 st).bind fun (x, st1) => .ok (.i64 (x.setWidth 64) :: st1)
  | .drop => (popAny st).bind fun (_, st1) => .ok st1

def valNat : Val → Nat
  | .i32 v => v.toNat
  | .i64 v => v.toNat

def mkVal (t : Ty) (sx : Bool) (n raw : Nat) : Val :=
  match t with
  | .i32 => .i32 (extendNat 32 n sx raw)
  | .i64 => .i64 (extendNat 64 n sx raw)

def valTy : Val → Ty
  | .i32 _ => .i32
  | .i64 _ => .i64

/-- access widths the binary format can express for a value type -/
def widthOk (t : Ty) (n : Nat) : Bool :=
  match t with
  | .i32 => n = 1 || n = 2 || n = 4
  | .i64 => n = 1 || n = 2 || n = 4 || n = 8

def step (loc : List Val) (i : Instr) (s : State) : Res State :=
  let (st, m) := s
  match i with
  | .num i => (stepNum loc i st).bind fun st' => .ok (st', m)
  | .select => (popI32 st).bind fun (c, st1) => (popAny st1).bind fun (v2, st2) => (popAny st2).bind fun (v1, st3) =>
      if valTy v1 = valTy v2 then .ok ((if c = 0 then v2 else v1) :: st3, m) else .stuck
  | .load t n sx off => (popI32 st).bind fun (a, st1) =>
      if !widthOk t n then .stuck
      else if a.toNat + off + n > m.size then .trap .oob
      else .ok (mkVal t sx n (readLE m.bytes (a.toNat + off) n) :: st1, m)
  | .store t n off => (popAny st).bind fun (v, st1) => (popI32 st1).bind fun (a, st2) =>
      if !widthOk t n || valTy v != t then .stuck
      else if a.toNat + off + n > m.size then .trap .oob
      else .ok (st2, { m with bytes := writeLE m.bytes (a.toNat + off) n (valNat v) })
  | .memSize => .ok (.i32 (BitVec.ofNat 32 m.pages) :: st, m)
  | .memGrow => (popI32 st).bind fun (d, st1) =>
      if m.pages + d.toNat ≤ m.maxPages then
        .ok (.i32 (BitVec.ofNat 32 m.pages) :: st1, { m with bytes := m.bytes ++ Array.replicate (d.toNat * pageSize) 0 })
      else .ok (.i32 (-1) :: st1, m)
  | .memFill => (popI32 st).bind fun (n, st1) => (popI32 st1).bind fun (v, st2) => (popI32 st2).bind fun (d, st3) =>
      if d.toNat + n.toNat > m.size then .trap .oob
      else .ok (st3, { m with bytes := fillBytes m.bytes d.toNat (v.setWidth 8) n.toNat })
  | .memCopy => (popI32 st).bind fun (n, st1) => (popI32 st1).bind fun (s, st2) => (popI32 st2).bind fun (d, st3) =>
      if s.toNat + n.toNat > m.size || d.toNat + n.toNat > m.size then .trap .oob
      else .ok (st3, { m with bytes := copyBytes m.bytes d.toNat s.toNat n.toNat })

def exec (loc : List Val) : List Instr → State → Res State
  | [], s => .ok s
  | i :: r, s => (step loc i s).bind (exec loc r)

/-! ## typing of straight-line code (validation, spec §3.3) -/

/-- pop one operand of type `t` from the type stack -/
def tpop (t : Ty) : List Ty → Option (List Ty)
  | t' :: ts => if t' = t then some ts else none
  | [] => none

def tyNum (lt : List Ty) (i : Wasm.Instr) (ts : List Ty) : Option (List Ty) :=
  match i with
  | .const32 _ => some (.i32 :: ts)
  | .const64 _ => some (.i64 :: ts)
  | .localGet k => (lt[k]?).map (· :: ts)
  | .bin t _ => (tpop t ts).bind fun r => (tpop t r).map (t :: ·)
  | .rel t _ => (tpop t ts).bind fun r => (tpop t r).map (.i32 :: ·)
  | .eqz t => (tpop t ts).map (.i32 :: ·)
  | .un t _ => (tpop t ts).map (t :: ·)
  | .wrap_i64 => (tpop .i64 ts).map (.i32 :: ·)
  | .extend_i32_s => (tpop .i32 ts).map (.i64 :: ·)
  | .extend_i32_u => (tpop .i32 ts).map (.i64 :: ·)
  | .drop => match ts with
    | _ :: r => some r
    | [] => none

def tyStep (lt : List Ty) (i : Instr) (ts : List Ty) : Option (List Ty) :=
  match i with
  | .num i => tyNum lt i ts
  | .select => (tpop .i32 ts).bind fun r => match r with
    | t2 :: t1 :: r' => if t1 = t2 then some (t1 :: r') else none
    | _ => none
  | .load t n _ _ => if widthOk t n then (tpop .i32 ts).map (t :: ·) else none
  | .store t n _ => if widthOk t n then (tpop t ts).bind (tpop .i32) else none
  | .memSize => some (.i32 :: ts)
  | .memGrow => (tpop .i32 ts).map (.i32 :: ·)
  | .memFill => (tpop .i32 ts).bind fun r => (tpop .i32 r).bind (tpop .i32)
  | .memCopy => (tpop .i32 ts).bind fun r => (tpop .i32 r).bind (tpop .i32)

def tyExec (lt : List Ty) : List Instr → List Ty → Option (List Ty)
  | [], ts => some ts
  | i :: r, ts => (tyStep lt i ts).bind (tyExec lt r)

end WaVerif.C31
