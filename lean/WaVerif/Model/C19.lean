/-!
# C19 — LEB128 model (hand-written; tied to internal/wasm/leb128 by correspondence)

Bytes are `Nat`s below 256 (`Bytes bs`).  Encoders transcribe `encodeUint64` / `encodeInt64`
(`v & 0x7f` = `v % 128`, `v >>= 7` = `v / 128`, which on `Int` is the arithmetic shift because
Lean's `Int` division by a positive literal rounds towards minus infinity).
Decoders transcribe the four loops of leb128.go, including their overflow checks; the
accumulator is kept modulo `2^32` / `2^64` exactly where the Go variable is 32 / 64 bits wide
(bitwise OR of disjoint bit ranges is written as addition).
-/
namespace WaVerif.C19

inductive Err | eof | overflow
  deriving DecidableEq, Repr

abbrev Res (α : Type) := Except Err (α × Nat)

def Bytes (bs : List Nat) : Prop := ∀ b ∈ bs, b < 256

/-! ## encoders -/

/-- `encodeUint64` -/
def encU (v : Nat) : List Nat :=
  if v / 128 = 0 then [v % 128] else (v % 128 + 128) :: encU (v / 128)
decreasing_by omega

/-- `encodeInt64`: `s = v & 0x40`; stop when (v' = 0 ∧ s = 0) ∨ (v' = -1 ∧ s ≠ 0). -/
def encS (v : Int) : List Nat :=
  let c := (v % 128).toNat
  let v' := v / 128
  if (v' = 0 ∧ c < 64) ∨ (v' = -1 ∧ c ≥ 64) then [c] else (c + 128) :: encS v'
termination_by v.natAbs
decreasing_by
  simp only [not_or, not_and] at *
  omega

/-! ## exact value of a LEB128 byte sequence (the specification of decoding) -/

/-- unsigned value of the groups of `bs` (continuation bits ignored), little endian base 128 -/
def valU : List Nat → Nat
  | [] => 0
  | b :: rest => b % 128 + 128 * valU rest

/-- signed value: the last group's bit 6 is the sign -/
def valS : List Nat → Int
  | [] => 0
  | [b] => if b % 128 < 64 then (b % 128 : Nat) else ((b % 128 : Nat) : Int) - 128
  | b :: rest => ((b % 128 : Nat) : Int) + 128 * valS rest

/-- `bs` is one complete LEB128 number: every byte but the last has the continuation bit -/
def Terminated : List Nat → Prop
  | [] => False
  | [b] => b < 128
  | b :: rest => 128 ≤ b ∧ Terminated rest

/-! ## decoders -/

/-- `decodeUint32`: at most 5 bytes, the 5th must be below 0x10. `i` bytes consumed so far,
`s = 7*i`, `ret` the accumulator (a `uint32`). -/
def decU32go : Nat → Nat → List Nat → Res Nat
  | i, ret, bs =>
    if i ≥ 5 then .error .overflow else
    match bs with
    | [] => .error .eof
    | b :: rest =>
      if b < 128 then
        if i = 4 ∧ (b / 16) % 16 > 0 then .error .overflow
        else .ok ((ret + b * 2 ^ (7 * i)) % 2 ^ 32, i + 1)
      else decU32go (i + 1) ((ret + (b % 128) * 2 ^ (7 * i)) % 2 ^ 32) rest
termination_by i _ _ => 5 - i
decreasing_by omega

def decodeU32 (bs : List Nat) : Res Nat := decU32go 0 0 bs

/-- two's-complement reading of an accumulator held in `w` bits -/
def toSigned (w : Nat) (x : Nat) : Int := if x < 2 ^ (w - 1) then x else (x : Int) - 2 ^ w

/-- `decodeInt32`.  `n` = bytesRead, `shift = 7*n`, `ret` is the int32 accumulator as a
residue mod 2^32.  The loop itself is unbounded in Go; the length check happens at the
terminating byte. -/
def decS32go : Nat → Nat → List Nat → Res Int
  | _, _, [] => .error .eof
  | n, ret, b :: rest =>
    let shift := 7 * n
    let ret1 := (ret + (b % 128) * 2 ^ shift) % 2 ^ 32
    let shift1 := shift + 7
    let n1 := n + 1
    if b < 128 then
      let ret2 := if shift1 < 32 ∧ (b / 64) % 2 = 1 then (ret1 + (2 ^ 32 - 2 ^ shift1)) % 2 ^ 32 else ret1
      let neg := ret2 ≥ 2 ^ 31
      let unused := (b / 16) % 8
      if n1 > 5 then .error .overflow
      else if n1 = 5 ∧ neg ∧ unused ≠ 7 then .error .overflow
      else if n1 = 5 ∧ ¬ neg ∧ unused ≠ 0 then .error .overflow
      else .ok (toSigned 32 ret2, n1)
    else decS32go n1 ret1 rest

def decodeS32 (bs : List Nat) : Res Int := decS32go 0 0 bs

/-- `decodeInt64`: same shape, 64-bit accumulator, 10 bytes, unused = b & 0b01111110 -/
def decS64go : Nat → Nat → List Nat → Res Int
  | _, _, [] => .error .eof
  | n, ret, b :: rest =>
    let shift := 7 * n
    let ret1 := (ret + (b % 128) * 2 ^ shift) % 2 ^ 64
    let shift1 := shift + 7
    let n1 := n + 1
    if b < 128 then
      let ret2 := if shift1 < 64 ∧ (b / 64) % 2 = 1 then (ret1 + (2 ^ 64 - 2 ^ shift1)) % 2 ^ 64 else ret1
      let neg := ret2 ≥ 2 ^ 63
      let unused := (b / 2) % 64
      if n1 > 10 then .error .overflow
      else if n1 = 10 ∧ neg ∧ unused ≠ 63 then .error .overflow
      else if n1 = 10 ∧ ¬ neg ∧ unused ≠ 0 then .error .overflow
      else .ok (toSigned 64 ret2, n1)
    else decS64go n1 ret1 rest

def decodeS64 (bs : List Nat) : Res Int := decS64go 0 0 bs

/-- `DecodeInt33AsInt64`: loop `for shift < 35`, breaks on a byte without continuation bit;
after the loop: sign-extend within 33 bits, mask to 33 bits, reinterpret, then the checks.
`ret` is an int64 accumulator (residue mod 2^64); `lastb` is the last byte read. -/
def decS33loop : Nat → Nat → List Nat → Except Err (Nat × Nat × Nat)   -- (ret, n, lastb)
  | n, ret, bs =>
    if 7 * n ≥ 35 then .error .overflow   -- unreachable marker; replaced below
    else match bs with
      | [] => .error .eof
      | b :: rest =>
        let ret1 := (ret + (b % 128) * 2 ^ (7 * n)) % 2 ^ 64
        if b < 128 ∨ 7 * (n + 1) ≥ 35 then .ok (ret1, n + 1, b)
        else decS33loop (n + 1) ret1 rest
termination_by n _ _ => 5 - n
decreasing_by omega

def decodeS33 (bs : List Nat) : Res Int :=
  match decS33loop 0 0 bs with
  | .error e => .error e
  | .ok (ret, n, b) =>
    let shift := 7 * n
    -- ret |= int33Mask4 << shift  (int33Mask4 = 2^33-1; shift < 33); then ret &= 2^33-1
    let ret1 := if shift < 33 ∧ (b / 64) % 2 = 1 then (ret + (2 ^ 33 - 1) * 2 ^ shift) % 2 ^ 64 else ret
    let ret2 : Nat := ret1 % 2 ^ 33
    let v : Int := if ret2 ≥ 2 ^ 32 then (ret2 : Int) - 2 ^ 33 else (ret2 : Int)
    let unused := (b / 32) % 4
    if n > 5 then .error .overflow
    else if b ≥ 128 then .error .overflow
    else if n = 5 ∧ v < 0 ∧ unused ≠ 3 then .error .overflow
    else if n = 5 ∧ v ≥ 0 ∧ unused ≠ 0 then .error .overflow
    else .ok (v, n)

end WaVerif.C19
