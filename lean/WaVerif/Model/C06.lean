/-!
# C06 — dead-code stripping (`internal/wat/watutil/watstrip`), hand-written model

A module is reduced to what the pass looks at: the names of its function imports, its defined
functions with the *skeleton* of their bodies (`call`, `table.set`, and the three structured
instructions whose bodies the pass walks), the start function, the function exports and the
entries of the element segments.  Names are an arbitrary type with decidable equality (the driver
uses `String`, the `decide`-checked examples use `Nat`).

Two algorithms live here:

* the **specified** pass: `mark` = closure of the roots (start, every function export, every
  element entry — defined function or import) under direct `call` edges, computed by a fuelled
  worklist (`close`); `strip` keeps the marked functions and the marked function imports;
* the **transcription of the real pass** (`realKept`, from `remove_unused.go`), parametrised by a
  `Variant`; at the pinned commit (`pinnedVariant`) roots are searched only among *defined*
  functions, exports with an empty export name are ignored, `table.set $t` is treated like
  `call $t` (the table name is looked up in the function map), and a looked-up name that is not
  a function is a nil dereference (`none`).

`Props/C06.lean` proves the property for the specified pass, proves that the real pass coincides
with it on the modules where no root is an import, every export is named and no `table.set`
occurs, and exhibits (by `decide`) the modules on which the real pass breaks the property.
The correspondence run compares `realKept` with the real `DoPass` on every input.

The last section is an abstract call-graph interpreter (`run`): function bodies are programs that
update a state, branch on it, call functions by name, call through the funcref table and copy
table slots; imports are host functions.  It is what "behaves exactly as before" is stated over.
-/
namespace WaVerif.C06

/-! ## syntax skeleton -/

/-- the part of an instruction the pass can see -/
inductive Instr (ν : Type) where
  | call (f : ν)
  | tableSet (t : ν)
  | block (body : List (Instr ν))
  | loop (body : List (Instr ν))
  | ite (thn els : List (Instr ν))
  | other
  deriving Repr

mutual
/-- direct call targets of one instruction, nested bodies included (`markFuncReachable_ins`).
Every *syntactic* `call` is an edge, whether or not control can reach it: `return`, `unreachable`,
`br` are `.other` and do not end the walk — code after them is dead but is still printed, so its
call targets must still be defined in the stripped module. -/
def Instr.calls {ν : Type} : Instr ν → List ν
  | .call f => [f]
  | .tableSet _ => []
  | .block b => callsL b
  | .loop b => callsL b
  | .ite t e => callsL t ++ callsL e
  | .other => []
/-- direct call targets of an instruction list -/
def callsL {ν : Type} : List (Instr ν) → List ν
  | [] => []
  | i :: is => i.calls ++ callsL is
end

mutual
/-- table names used by `table.set`, nested bodies included -/
def Instr.tsets {ν : Type} : Instr ν → List ν
  | .call _ => []
  | .tableSet t => [t]
  | .block b => tsetsL b
  | .loop b => tsetsL b
  | .ite t e => tsetsL t ++ tsetsL e
  | .other => []
def tsetsL {ν : Type} : List (Instr ν) → List ν
  | [] => []
  | i :: is => i.tsets ++ tsetsL is
end

/-- "a `call f` occurs in this instruction list, at any nesting depth" — the specification of the walk -/
inductive Occ {ν : Type} (f : ν) : List (Instr ν) → Prop
  | here {is} : Occ f (.call f :: is)
  | inBlock {b is} : Occ f b → Occ f (.block b :: is)
  | inLoop {b is} : Occ f b → Occ f (.loop b :: is)
  | inThen {t e is} : Occ f t → Occ f (.ite t e :: is)
  | inElse {t e is} : Occ f e → Occ f (.ite t e :: is)
  | later {i is} : Occ f is → Occ f (i :: is)

structure Func (ν : Type) where
  name : ν
  body : List (Instr ν)
  deriving Repr

structure Export (ν : Type) where
  /-- the export name is not the empty string -/
  named : Bool
  fn : ν
  deriving Repr

structure Module (ν : Type) where
  /-- names of the function imports, in order -/
  imports : List ν
  funcs : List (Func ν)
  start : Option ν
  /-- exports of kind func -/
  exports : List (Export ν)
  /-- entries of all element segments -/
  elems : List ν
  deriving Repr

variable {ν : Type} [DecidableEq ν]

def Module.funcNames (m : Module ν) : List ν := m.funcs.map (·.name)

/-- every function name the module defines: imports first (they get the low indices) -/
def Module.names (m : Module ν) : List ν := m.imports ++ m.funcNames

def Module.lookup (m : Module ν) (x : ν) : Option (Func ν) := m.funcs.find? (fun f => f.name == x)

/-- call edges: imports (and unknown names) have none -/
def Module.callees (m : Module ν) (x : ν) : List ν :=
  match m.lookup x with
  | some f => callsL f.body
  | none => []

/-- start function, every function export, every element-segment entry -/
def Module.roots (m : Module ν) : List ν :=
  m.start.toList ++ m.exports.map (·.fn) ++ m.elems

/-! ## the fuelled worklist closure -/

/-- pop already visited names off the work list -/
def skipSeen (seen : List ν) : List ν → List ν
  | [] => []
  | x :: w => if x ∈ seen then skipSeen seen w else x :: w

/-- worklist closure: one unit of fuel per newly visited name -/
def close (succ : ν → List ν) : Nat → List ν → List ν → List ν
  | 0, _, seen => seen
  | fuel + 1, work, seen =>
    match skipSeen seen work with
    | [] => seen
    | x :: rest => close succ fuel (succ x ++ rest) (x :: seen)

/-- the marked ("black") names; fuel = number of function names of the module -/
def Module.mark (m : Module ν) : List ν := close m.callees m.names.length m.roots []

/-- the specified pass: everything but the unmarked functions and function imports is kept as is -/
def Module.stripWith (m : Module ν) (mk : List ν) : Module ν :=
  { m with imports := m.imports.filter (fun x => x ∈ mk)
           funcs := m.funcs.filter (fun f => f.name ∈ mk) }

def Module.strip (m : Module ν) : Module ν := m.stripWith m.mark

/-- reachability in the call graph, the specification of `mark` -/
inductive Reach (m : Module ν) : ν → Prop
  | root {r} : r ∈ m.roots → Reach m r
  | step {x y} : Reach m x → y ∈ m.callees x → Reach m y

/-- well-formedness: distinct function names, every referenced function name is defined -/
structure WF (m : Module ν) : Prop where
  nodup : m.names.Nodup
  roots_def : ∀ r ∈ m.roots, r ∈ m.names
  calls_def : ∀ f ∈ m.funcs, ∀ g ∈ callsL f.body, g ∈ m.names

instance (m : Module ν) : Decidable (WF m) :=
  if h : m.names.Nodup ∧ (∀ r ∈ m.roots, r ∈ m.names) ∧ (∀ f ∈ m.funcs, ∀ g ∈ callsL f.body, g ∈ m.names)
  then isTrue ⟨h.1, h.2.1, h.2.2⟩
  else isFalse (fun w => h ⟨w.nodup, w.roots_def, w.calls_def⟩)

/-! ## transcription of the real pass (`_RemoveUnusedPass.DoPass`) -/

/-- The four places where `remove_unused.go` (pinned tree) departs from the specified pass.  The check
measures which variant the current source implements (probe modules run through the real pass) and
the correspondence run then validates that variant on every input; the theorems hold for all 16. -/
structure Variant where
  /-- roots are looked for among imports too (pinned tree: `false`, `DoPass` walks `m.Funcs` only) -/
  importRoots : Bool
  /-- `table.set $t` looks `$t` up in the function map like a `call` (pinned tree: `true`) -/
  tableSetLookup : Bool
  /-- an export whose export name is empty is not a root (pinned tree: `true`) -/
  skipUnnamedExports : Bool
  /-- looking up a name that is not a function dereferences nil (pinned tree: `true`) -/
  nilPanics : Bool
  deriving DecidableEq, Repr

/-- `remove_unused.go` at the pinned commit -/
def pinnedVariant : Variant := ⟨false, true, true, true⟩
/-- the pass after proposed_fixes/C06-roots-and-table-set.diff -/
def fixedVariant : Variant := ⟨true, false, false, false⟩

/-- a name is a root iff it is a defined function (or, `importRoots`, an import) that is the start
function, an element entry, or the target of a (named) function export -/
def Module.realRoots (v : Variant) (m : Module ν) : List ν :=
  (if v.importRoots then m.names else m.funcNames).filter (fun n =>
    m.start = some n ∨ n ∈ m.elems ∨
      n ∈ (m.exports.filter (fun e => e.named || !v.skipUnnamedExports)).map (·.fn))

/-- names looked up in `p.funcs` while walking the body of `x`: `call` targets and (`tableSetLookup`)
`table.set` tables -/
def Module.realSucc (v : Variant) (m : Module ν) (x : ν) : List ν :=
  match m.lookup x with
  | some f => callsL f.body ++ (if v.tableSetLookup then tsetsL f.body else [])
  | none => []

/-- the successors that are functions (the others crash the pass or are ignored, see `panicsWith`) -/
def Module.realSuccD (v : Variant) (m : Module ν) (x : ν) : List ν :=
  (m.realSucc v x).filter (fun y => y ∈ m.names)

def Module.realMark (v : Variant) (m : Module ν) : List ν :=
  close (m.realSuccD v) m.names.length (m.realRoots v) []

/-- a visited function looks up a name that is not in the function map: nil dereference -/
def Module.panicsWith (v : Variant) (m : Module ν) (mk : List ν) : Bool :=
  v.nilPanics && mk.any (fun x => (m.realSucc v x).any (fun t => t ∉ m.names))

/-- the module the real pass returns; `none` = the pass panics -/
def Module.realStrip (v : Variant) (m : Module ν) : Option (Module ν) :=
  let mk := m.realMark v
  if m.panicsWith v mk then none else some (m.stripWith mk)

/-- kept defined functions and kept function imports, in module order -/
def Module.realKept (v : Variant) (m : Module ν) : Option (List ν × List ν) :=
  (m.realStrip v).map (fun s => (s.funcNames, s.imports))

/-- the modules on which variant `v` of the real pass is the specified pass; for `fixedVariant`
every hypothesis is vacuous -/
structure RealSubset (v : Variant) (m : Module ν) : Prop where
  roots_defined : v.importRoots = false → ∀ r ∈ m.roots, r ∈ m.funcNames
  exports_named : v.skipUnnamedExports = true → ∀ e ∈ m.exports, e.named = true
  no_table_set : v.tableSetLookup = true → ∀ f ∈ m.funcs, tsetsL f.body = []

/-! ## abstract call-graph interpreter -/

/-- interpreter state: abstract data (locals, globals, memory …) and the funcref table -/
structure St (ν σ : Type) where
  data : σ
  tbl : List (Option ν)

/-- a function body as a program over the state -/
inductive Prog (ν σ : Type) where
  | ret
  | trap
  | op (f : σ → σ) (k : Prog ν σ)
  | br (c : σ → Bool) (t e : Prog ν σ)
  | call (g : ν) (k : Prog ν σ)
  /-- `call_indirect`: the table slot is computed from the state -/
  | callInd (slot : σ → Nat) (k : Prog ν σ)
  /-- `table.set dst (table.get src)` — the only way this WAT subset can write the table -/
  | tblCopy (dst src : σ → Nat) (k : Prog ν σ)

/-- direct call targets of a program -/
def Prog.calls {ν σ : Type} : Prog ν σ → List ν
  | .ret => []
  | .trap => []
  | .op _ k => k.calls
  | .br _ t e => t.calls ++ e.calls
  | .call g k => g :: k.calls
  | .callInd _ k => k.calls
  | .tblCopy _ _ k => k.calls

inductive Code (ν σ : Type) where
  /-- an imported function: acts on the data only -/
  | host (h : σ → Option σ)
  | body (p : Prog ν σ)

inductive Res (α : Type) where
  | ok (a : α)
  | trap
  /-- a function name with no definition was called: the module is invalid -/
  | undefined
  | outOfFuel

def Res.bind {α β : Type} : Res α → (α → Res β) → Res β
  | .ok a, f => f a
  | .trap, _ => .trap
  | .undefined, _ => .undefined
  | .outOfFuel, _ => .outOfFuel

/-- run a program; `callf` is the meaning of calling a function by name -/
def exec {ν σ : Type} (callf : ν → St ν σ → Res (St ν σ)) : Prog ν σ → St ν σ → Res (St ν σ)
  | .ret, st => .ok st
  | .trap, _ => .trap
  | .op f k, st => exec callf k { st with data := f st.data }
  | .br c t e, st => if c st.data then exec callf t st else exec callf e st
  | .call g k, st => (callf g st).bind (exec callf k)
  | .callInd slot k, st =>
    match st.tbl[slot st.data]? with
    | some (some g) => (callf g st).bind (exec callf k)
    | _ => .trap
  | .tblCopy dst src k, st =>
    match st.tbl[src st.data]? with
    | some v =>
      if dst st.data < st.tbl.length then exec callf k { st with tbl := st.tbl.set (dst st.data) v }
      else .trap
    | none => .trap

/-- call function `f` in environment `env` with call-depth fuel `n` -/
def run {ν σ : Type} (env : ν → Option (Code ν σ)) : Nat → ν → St ν σ → Res (St ν σ)
  | 0, _, _ => .outOfFuel
  | n + 1, f, st =>
    match env f with
    | none => .undefined
    | some (.host h) =>
      match h st.data with
      | some d => .ok { st with data := d }
      | none => .trap
    | some (.body p) => exec (run env n) p st

/-- a sequence of calls from outside (exports), each on the state the previous one left -/
def runSeq {ν σ : Type} (env : ν → Option (Code ν σ)) (n : Nat) : List ν → St ν σ → Res (St ν σ)
  | [], st => .ok st
  | f :: fs, st => (run env n f st).bind (runSeq env n fs)

/-- the environment of a module from which the functions outside `keep` were deleted -/
def restrict {ν σ : Type} [DecidableEq ν] (env : ν → Option (Code ν σ)) (keep : List ν) : ν → Option (Code ν σ) :=
  fun f => if f ∈ keep then env f else none

/-- every table entry is one of `S` -/
def TblIn {ν σ : Type} (S : ν → Prop) (st : St ν σ) : Prop := ∀ g, some g ∈ st.tbl → S g

/-- `env` gives meaning to the bodies of `m`: a body only calls what its skeleton calls -/
def Sound {σ : Type} (m : Module ν) (env : ν → Option (Code ν σ)) : Prop :=
  ∀ f p, env f = some (.body p) → ∀ g ∈ p.calls, g ∈ m.callees f

end WaVerif.C06
