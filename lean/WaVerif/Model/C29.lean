/-!
# C29 — `wa run` exit status: decision model

Transcribed from `internal/app/apprun/apprun.go` (`CmdRunAction`, `runWasm`), `internal/wazero/util.go`
(`AsExitError`) and `main.go` (`cliApp.Run(os.Args)`).

The control flow of `wa run <input>` is a chain of fallible steps; every step has an
`if err != nil { … }` block.  *How each of these blocks ends* (`os.Exit(k)`, `return err`,
`return nil`/fall through) is the whole decision logic, and it is the part that is regenerated
from the source on every run (`extract/c29_extract.go` → `Gen/C29.lean : cfgCurrent`).  The shape of
the chain itself (which step handles which outcome) is hand-transcribed here and tied to the real
binary by the correspondence run of `checks/c29.py`.
-/
namespace WaVerif.C29

/-- how an `if err != nil` block ends -/
inductive BranchEnd
  | osExit (k : Nat)   -- `os.Exit(k)`
  | retErr             -- `return err` (the error goes back through the cli package to `main`)
  | retNil             -- `return nil` or falls through to the final `return nil`
  deriving DecidableEq, Repr

/-- the block after `RunMain` / `RunWasm` -/
structure RunBranch where
  /-- `if exitCode, ok := wazero.AsExitError(err); ok { os.Exit(exitCode) }` is present -/
  propagatesExit : Bool
  /-- how the block ends when the error is not an exit error -/
  other : BranchEnd
  deriving DecidableEq, Repr

structure Cfg where
  watRead    : BranchEnd   -- CmdRunAction: os.ReadFile(input) for *.wat
  watCompile : BranchEnd   -- CmdRunAction: watutil.Wat2Wasm
  waCompile  : BranchEnd   -- CmdRunAction: appbuild.BuildApp (load, parse, type check, code generation)
  waModule   : BranchEnd   -- CmdRunAction: wazero.BuildModule
  waRun      : RunBranch   -- CmdRunAction: m.RunMain
  wasmRead   : BranchEnd   -- runWasm: os.ReadFile(input)
  wasmRun    : RunBranch   -- runWasm: wazero.RunWasm (BuildModule + RunMain)
  /-- `main`: what happens to an error returned by the action.  `none`: dropped
      (`cliApp.Run(os.Args)` as a statement; the cli package only exits for `ExitCoder` errors,
      which these are not); `some k`: `os.Exit(k)`. -/
  mainErrExit : Option Nat
  deriving DecidableEq, Repr

/-- the decision table of the pinned commit (7d318b1) -/
def cfgPinned : Cfg :=
  { watRead := .retErr, watCompile := .retErr, waCompile := .osExit 1, waModule := .osExit 1,
    waRun := ⟨true, .retNil⟩, wasmRead := .retErr, wasmRun := ⟨true, .retNil⟩, mainErrExit := none }

/-- the table after the repair in proposed_fixes/C29-*.diff (every error branch prints and `os.Exit(1)`) -/
def cfgRepaired : Cfg :=
  { watRead := .osExit 1, watCompile := .osExit 1, waCompile := .osExit 1, waModule := .osExit 1,
    waRun := ⟨true, .osExit 1⟩, wasmRead := .osExit 1, wasmRun := ⟨true, .osExit 1⟩, mainErrExit := none }

inductive Input | wa | wat | wasm
  deriving DecidableEq, Repr

/-- how the program ends (the quantifier of the property) -/
inductive Outcome
  | unreadable       -- the input file cannot be read
  | compileError     -- syntax / type error (`.wa`), assembler error (`.wat`), undecodable binary (`.wasm`)
  | moduleError      -- the wasm module is rejected by the engine before running (validation)
  | normal           -- main returns
  | exit (n : Nat)   -- the program calls the exit function with code n (a 32-bit value)
  | panic            -- Wa-level panic: the runtime prints `panic: msg (pos)` and calls exit(1)
  | trap             -- wasm trap (or any other non-exit error while instantiating / calling main)
  deriving DecidableEq, Repr

/-- what `RunMain` reports -/
inductive RunErr | none | exitErr (n : Nat) | other
  deriving DecidableEq, Repr

/-- runtime convention (`waroot/src/runtime/runtime_js.wa: panic_`): a panic is `procExit(1)` -/
def hostObs : Outcome → RunErr
  | .normal => .none
  | .exit n => .exitErr n
  | .panic => .exitErr 1
  | _ => .other

/-- process status after `os.Exit(n)`: the low 8 bits -/
def exitStatus (n : Nat) : Nat := n % 256

def procStatus (cfg : Cfg) : BranchEnd → Nat
  | .osExit k => exitStatus k
  | .retNil => 0
  | .retErr => match cfg.mainErrExit with
    | none => 0
    | some k => exitStatus k

def runStatus (cfg : Cfg) (rb : RunBranch) : RunErr → Nat
  | .none => 0
  | .exitErr n => if rb.propagatesExit then exitStatus n else procStatus cfg rb.other
  | .other => procStatus cfg rb.other

/-- exit status of `wa run <input>` -/
def status (cfg : Cfg) : Input → Outcome → Nat
  | .wa, .unreadable => procStatus cfg cfg.waCompile
  | .wa, .compileError => procStatus cfg cfg.waCompile
  | .wa, .moduleError => procStatus cfg cfg.waModule
  | .wa, o => runStatus cfg cfg.waRun (hostObs o)
  | .wat, .unreadable => procStatus cfg cfg.watRead
  | .wat, .compileError => procStatus cfg cfg.watCompile
  | .wat, o => runStatus cfg cfg.wasmRun (hostObs o)     -- moduleError: RunWasm returns BuildModule's error
  | .wasm, .unreadable => procStatus cfg cfg.wasmRead
  | .wasm, o => runStatus cfg cfg.wasmRun (hostObs o)    -- compileError/moduleError: BuildModule's error

/-- is the program's own output (written before it ended) shown?  Every run-phase path prints the
captured stdout/stderr before deciding the status. -/
def showsOutput : Input → Outcome → Bool
  | _, .normal => true
  | _, .exit _ => true
  | _, .panic => true
  | _, .trap => true
  | _, _ => false

/-- Are the statements that FOLLOW the program's terminating action executed (and their output
shown)?  Only when there is no terminating action: the exit function does not return to the program
(the host function unwinds the call), a panic is an exit, a trap aborts the call.  So nothing after
the exit call is observable and the first requested code is the one reported. -/
def runsPastEnd : Input → Outcome → Bool
  | _, .normal => true
  | _, _ => false

/-- The property: the status the statement demands for an outcome. -/
def Expected (o : Outcome) (s : Nat) : Prop :=
  match o with
  | .normal => s = 0
  | .exit n => s = exitStatus n
  | _ => s ≠ 0

instance (o : Outcome) (s : Nat) : Decidable (Expected o s) := by
  cases o <;> simp only [Expected] <;> exact inferInstance

/-- every error branch yields a non-zero status and both run branches pass exit codes through -/
def nz (cfg : Cfg) (b : BranchEnd) : Bool := procStatus cfg b != 0

def Sound (cfg : Cfg) : Bool :=
  nz cfg cfg.watRead && nz cfg cfg.watCompile && nz cfg cfg.waCompile && nz cfg cfg.waModule &&
  cfg.waRun.propagatesExit && nz cfg cfg.waRun.other &&
  nz cfg cfg.wasmRead && cfg.wasmRun.propagatesExit && nz cfg cfg.wasmRun.other

/-- classes whose status is wrong on the pinned commit -/
def AffectedPinned : Input → Outcome → Bool
  | _, .trap => true
  | .wat, .unreadable => true
  | .wat, .compileError => true
  | .wat, .moduleError => true
  | .wasm, .unreadable => true
  | .wasm, .compileError => true
  | .wasm, .moduleError => true
  | _, _ => false

end WaVerif.C29
