/-!
# C14 — specification of sorting (sort.Ints / sort.Strings / sort.Sort), core Lean only, executable
The port's algorithm (quick sort with heap-sort fallback and insertion sort for short ranges, sort.wa) is not
modelled; what is specified is its contract: the output is the sorted permutation of the input.  `isort` is the
reference implementation of that contract; `Props/C14Sort` shows the contract determines the output uniquely, so
comparing the port's output with `isort`'s decides the contract.
-/
namespace WaVerif.C14

def insertBy {α : Type} (le : α → α → Bool) (x : α) : List α → List α
  | [] => [x]
  | y :: ys => if le x y then x :: y :: ys else y :: insertBy le x ys

def isortBy {α : Type} (le : α → α → Bool) : List α → List α
  | [] => []
  | x :: xs => insertBy le x (isortBy le xs)

/-- bytewise lexicographic order: Go's `<` on strings -/
def lexLe : List Nat → List Nat → Bool
  | [], _ => true
  | _ :: _, [] => false
  | a :: as, b :: bs => a < b || (a == b && lexLe as bs)

def sortInts (l : List Int) : List Int := isortBy (fun a b => decide (a ≤ b)) l
def sortStrings (l : List (List Nat)) : List (List Nat) := isortBy lexLe l

def isSortedBy {α : Type} (le : α → α → Bool) : List α → Bool
  | [] => true
  | [_] => true
  | a :: b :: rest => le a b && isSortedBy le (b :: rest)

/-- `sort.SearchInts`: smallest index `i` with `a[i] >= x` (for a sorted `a`), else `len(a)` — binary search as in
search.wa: `i, j := 0, n; for i < j { h := (i+j)/2; if !f(h) { i = h+1 } else { j = h } }` -/
def searchBy (n : Nat) (f : Nat → Bool) : Nat :=
  let rec go (fuel i j : Nat) : Nat :=
    match fuel with
    | 0 => i
    | k + 1 => if i < j then
        let h := (i + j) / 2
        if !f h then go k (h + 1) j else go k i h
      else i
  go (n + 1) 0 n

end WaVerif.C14
