/-!
# C21 — UTF-8 / UTF-16 helpers (core only)

`Char`-level sizes and the UTF-8 encoder (bytes are `Nat`s below 256), and a byte-level decoder
transcribing Go's `unicode/utf8.DecodeRune` (the `first` / `acceptRanges` tables written as
comparisons), including the `(RuneError, 1)` convention for invalid or truncated sequences and
`(RuneError, 0)` for empty input.
-/
namespace WaVerif.C21

/-- number of UTF-8 bytes of the scalar value `n` -/
def utf8SizeN (n : Nat) : Nat :=
  if n < 0x80 then 1 else if n < 0x800 then 2 else if n < 0x10000 then 3 else 4

/-- UTF-8 encoding of the scalar value `n` -/
def utf8EncN (n : Nat) : List Nat :=
  if n < 0x80 then [n]
  else if n < 0x800 then [0xC0 + n / 64, 0x80 + n % 64]
  else if n < 0x10000 then [0xE0 + n / 4096, 0x80 + n / 64 % 64, 0x80 + n % 64]
  else [0xF0 + n / 262144, 0x80 + n / 4096 % 64, 0x80 + n / 64 % 64, 0x80 + n % 64]

/-- number of UTF-8 bytes of a scalar value -/
def utf8Size (c : Char) : Nat := utf8SizeN c.toNat

/-- number of UTF-16 code units of a scalar value (2 = surrogate pair) -/
def utf16Size (c : Char) : Nat := if c.toNat < 0x10000 then 1 else 2

/-- UTF-8 encoding of one scalar value -/
def utf8Enc (c : Char) : List Nat := utf8EncN c.toNat

/-- UTF-8 encoding of a text -/
def utf8 : List Char → List Nat
  | [] => []
  | c :: cs => utf8Enc c ++ utf8 cs

/-- UTF-8 length of a text -/
def utf8Len : List Char → Nat
  | [] => 0
  | c :: cs => utf8Size c + utf8Len cs

/-- UTF-16 length of a text -/
def utf16Len : List Char → Nat
  | [] => 0
  | c :: cs => utf16Size c + utf16Len cs

def runeError : Nat := 0xFFFD

/-- Go's `utf8.DecodeRune`: `(rune, size)`. -/
def decodeRune (p : List Nat) : Nat × Nat :=
  match p with
  | [] => (runeError, 0)
  | p0 :: t =>
    if p0 < 0x80 then (p0, 1)
    else if p0 < 0xC2 then (runeError, 1)
    else if p0 < 0xE0 then
      match t with
      | b1 :: _ =>
        if b1 < 0x80 ∨ 0xBF < b1 then (runeError, 1)
        else ((p0 % 32) * 64 + b1 % 64, 2)
      | _ => (runeError, 1)
    else if p0 < 0xF0 then
      let lo := if p0 = 0xE0 then 0xA0 else 0x80
      let hi := if p0 = 0xED then 0x9F else 0xBF
      match t with
      | b1 :: b2 :: _ =>
        if b1 < lo ∨ hi < b1 then (runeError, 1)
        else if b2 < 0x80 ∨ 0xBF < b2 then (runeError, 1)
        else ((p0 % 16) * 4096 + (b1 % 64) * 64 + b2 % 64, 3)
      | _ => (runeError, 1)
    else if p0 < 0xF5 then
      let lo := if p0 = 0xF0 then 0x90 else 0x80
      let hi := if p0 = 0xF4 then 0x8F else 0xBF
      match t with
      | b1 :: b2 :: b3 :: _ =>
        if b1 < lo ∨ hi < b1 then (runeError, 1)
        else if b2 < 0x80 ∨ 0xBF < b2 then (runeError, 1)
        else if b3 < 0x80 ∨ 0xBF < b3 then (runeError, 1)
        else ((p0 % 8) * 262144 + (b1 % 64) * 4096 + (b2 % 64) * 64 + b3 % 64, 4)
      | _ => (runeError, 1)
    else (runeError, 1)

/-- decode a whole byte string into scalar values; `none` if it is not valid UTF-8
(used by the driver only, to feed the client model). Fuel = number of bytes. -/
def decodeAll : Nat → List Nat → Option (List Char)
  | _, [] => some []
  | 0, _ :: _ => none
  | fuel + 1, bs =>
    let (r, sz) := decodeRune bs
    if sz = 0 ∨ (sz = 1 ∧ r = runeError) then none
    else if h : r.isValidChar then
      (decodeAll fuel (bs.drop sz)).map (fun cs => Char.ofNatAux r h :: cs)
    else none

end WaVerif.C21
