import WaVerif.Base.AuditCmd
