#!/usr/bin/env python3
"""Writes lean/WaVerif/Props/C02.lean: one theorem per x86-64 template row, stating the FIXED specification
for that WebAssembly instruction (Model/C02Spec.lean) about the regenerated constant Gen.C02.<row>.
Statements and proof scripts depend only on the row key (never on the emitted code); slot numbers are
referred to as <row>.x / <row>.y.  Run by hand when the set of row keys changes."""
import os, sys
V = os.path.dirname(os.path.dirname(os.path.abspath(__file__)))
sys.path.insert(0, V)
from extract import c02_templates as T

DESTR = "obtain ⟨rax, rcx, rdx, rbx, rsi, rdi, r8, r9, r10, r11, r12, r13, r14, r15, flags, slots, stk⟩ := s"
NPARTS = 6
HEAD = ["import WaVerif.Model.C02Spec", "import WaVerif.Gen.C02Templates", "import WaVerif.Lemmas.C02Tac",
       "set_option linter.unusedSimpArgs false", "set_option linter.unusedVariables false", "set_option maxRecDepth 4000",
       "/-! One theorem per row of the regenerated x86-64 template table (statement fixed by the instruction name). -/",
       "namespace WaVerif.C02.Rows", "open WaVerif WaVerif.X64 WaVerif.C02 WaVerif.Gen.C02", ""]
parts = [[] for _ in range(NPARTS)]
COST = {"div_s": 6, "div_u": 4, "rem_s": 6, "rem_u": 4}
load = [0] * NPARTS


class Out:
    def __init__(self):
        self.cur = 0

    def append(self, x):
        parts[self.cur].append(x)


out = Out()


def plain(name, stmt, ndist):
    pre = "  refine ⟨%s, ?_⟩\n" % ", ".join(["by decide"] * ndist) if ndist else ""
    return "theorem %s_ok : %s := by\n%s  intro s\n  %s\n  unfold %s\n  x64_simp\n  x64_finish\n" % (name, stmt, pre, DESTR, name)


def branch(name, hyps, indent):
    pad = " " * indent
    return ("%s%s\n%ssimp only [%s] at %s\n%sunfold %s\n%sx64_simp\n%ssimp [%s]\n%sx64_finish\n" % (
        pad, DESTR, pad, name, " ".join(hyps), pad, name, pad, pad, ", ".join(hyps), pad))


def div_script(name, bits, signed, partial):
    lo = "BitVec.setWidth 32 (s.slots %s.%s)" if bits == 32 else "s.slots %s.%s"
    x, y = lo % (name, "x"), lo % (name, "y")
    m1 = (1 << bits) - 1
    L = ["  refine ⟨by decide, ?_⟩", "  intro s"]
    if partial:
        L.append("  intro hov0")
        L.append("  have hov : ¬ (%s = %d#%d ∧ %s = %d#%d) := by\n    intro h; apply hov0; simpa [lo32, intMin32_lit, intMin64_lit] using h" % (x, 1 << (bits - 1), bits, y, m1, bits))
        L.append("  by_cases hd : %s = 0#%d" % (y, bits))
        L.append("  · " + branch(name, ["hd", "hov"], 4).lstrip())
        L.append("  · " + branch(name, ["hd", "hov"], 4).lstrip())
        return "\n".join(L)
    L.append("  by_cases hd : %s = 0#%d" % (y, bits))
    L.append("  · " + branch(name, ["hd"], 4).lstrip())
    if signed:
        L.append("  · by_cases hov : %s = %d#%d ∧ %s = %d#%d" % (x, 1 << (bits - 1), bits, y, m1, bits))
        L.append("    · " + branch(name, ["hd", "hov"], 6).lstrip())
        L.append("    · " + branch(name, ["hd", "hov"], 6).lstrip())
    else:
        L.append("  · " + branch(name, ["hd"], 4).lstrip())
    return "\n".join(L)


for name, ins, ptypes, rt, kind in T.ROWS:
    t, op = ins.split(".") if "." in ins else ("", ins)
    out.cur = load.index(min(load))
    load[out.cur] += COST.get(op, 1)
    bits = 32 if ptypes[0] == "i32" else 64
    if name in T.ILLFORMED:
        out.append("theorem %s_illformed : Illformed %s := by\n  intro s\n  %s\n  unfold %s\n  x64_simp\n" % (name, name, DESTR, name))
        out.append("/-- the full statement for `%s` is false of the emitted template (it is not even encodable: GNU as rejects it) -/" % ins)
        out.append("theorem %s_full_false : ¬ UnRow64 .%s %s := illformed_not_un64 _ %s_illformed\n" % (name, op, name, name))
        continue
    if kind == "bin" and op in ("div_s", "div_u", "rem_s", "rem_u"):
        signed = op.endswith("_s")
        if name in T.PARTIAL:
            out.append("def %s_Statement : Prop := BinRow%d .%s %s" % (name, bits, op, name))
            out.append("theorem %s_partial : BinRow%dExceptMinInt .%s %s := by\n%s" % (name, bits, op, name, div_script(name, bits, signed, True)))
            mn, m1 = 1 << (bits - 1), (1 << bits) - 1
            out.append("/-- `idiv` raises #DE on MinInt %% -1 where WebAssembly's rem_s yields 0 -/")
            out.append("theorem %s_full_false : ¬ %s_Statement := by\n  intro h\n  have h1 := h.2 (witnessState %s %d#64 %d#64)\n"
                       "  revert h1\n  unfold %s witnessState\n  x64_simp\n" % (name, name, name, mn, m1, name))
            out.append("theorem %s_witness_faults : X64.run %s.code (witnessState %s %d#64 %d#64) = none := by\n  unfold %s witnessState\n  x64_simp\n" % (
                name, name, name, mn, m1, name))
        else:
            out.append("theorem %s_ok : BinRow%d .%s %s := by\n%s" % (name, bits, op, name, div_script(name, bits, signed, False)))
        continue
    if kind == "bin":
        out.append(plain(name, "BinRow%d .%s %s" % (bits, op, name), 1))
    elif kind == "rel":
        out.append(plain(name, "RelRow%d .%s %s" % (bits, op, name), 1))
    elif kind == "eqz":
        out.append(plain(name, "EqzRow%d %s" % (bits, name), 0))
    elif kind == "un":
        out.append(plain(name, "UnRow%d .%s %s" % (bits, op, name), 0))
    elif kind == "wrap":
        out.append(plain(name, "WrapRow %s" % name, 0))
    elif kind == "exts":
        out.append(plain(name, "ExtSRow %s" % name, 0))
    elif kind == "extu":
        out.append(plain(name, "ExtURow %s" % name, 0))
    elif kind == "select":
        out.append(plain(name, "SelectRow%d %s %s_c" % (bits, name, name), 3).replace("unfold %s\n" % name, "unfold %s %s_c\n" % (name, name)))
for i, p in enumerate(parts):
    open(os.path.join(V, "lean/WaVerif/Props/C02R%d.lean" % i), "w").write("\n".join(HEAD + p + ["end WaVerif.C02.Rows"]) + "\n")
main = ["import WaVerif.Props.C02R%d" % i for i in range(NPARTS)] + [
    "/-! C02: the per-row theorems live in Props/C02R0..C02R%d (generated by tools/gen_c02_props.py); this module states what they add up to. -/" % (NPARTS - 1),
    "namespace WaVerif.C02", "open WaVerif WaVerif.X64 WaVerif.C02 WaVerif.Gen.C02", "",
    "/-- hypotheses of the weakened rem_s rows are satisfiable -/",
    "example : ¬ (lo32 5#64 = BitVec.intMin 32 ∧ lo32 3#64 = -1) := by decide", "",
    "/-- integer division rows: the template faults exactly when WebAssembly traps (both directions, from the Outcome form) -/",
    "theorem div_rows_trap_iff_fault (s : State) :",
    "    (X64.run i32_div_s.code s = none ↔ Wasm.binop .div_s (lo32 (s.slots i32_div_s.x)) (lo32 (s.slots i32_div_s.y)) = none) ∧",
    "    (X64.run i64_div_u.code s = none ↔ Wasm.binop .div_u (s.slots i64_div_u.x) (s.slots i64_div_u.y) = none) := by",
    "  constructor",
    "  · have h := Rows.i32_div_s_ok.2 s",
    "    cases hr : Wasm.binop .div_s (lo32 (s.slots i32_div_s.x)) (lo32 (s.slots i32_div_s.y)) with",
    "    | none => simp [Outcome32, hr] at h; simp [h]",
    "    | some r => simp [Outcome32, hr] at h; obtain ⟨s', h1, _⟩ := h; simp [h1]",
    "  · have h := Rows.i64_div_u_ok.2 s",
    "    cases hr : Wasm.binop .div_u (s.slots i64_div_u.x) (s.slots i64_div_u.y) with",
    "    | none => simp [Outcome64, hr] at h; simp [h]",
    "    | some r => simp [Outcome64, hr] at h; obtain ⟨s', h1, _⟩ := h; simp [h1]",
    "end WaVerif.C02"]
open(os.path.join(V, "lean/WaVerif/Props/C02.lean"), "w").write("\n".join(main) + "\n")
names = {}
import re
for i, p in enumerate(parts):
    names["WaVerif.Props.C02R%d" % i] = re.findall(r"^theorem (\w+)", "\n".join(p), re.M)
import json
json.dump(names, open(os.path.join(V, "extract/c02_required.json"), "w"), indent=1)
print(len(T.ROWS), "rows", load)
