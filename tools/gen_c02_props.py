#!/usr/bin/env python3
"""Writes lean/WaVerif/Props/C02.lean: one theorem per x86-64 template row, stating the FIXED specification
for that WebAssembly instruction (Model/C02Spec.lean) about the regenerated constant Gen.C02.<row>.
Statements and proof scripts depend only on the row key (never on the emitted code); slot numbers are
referred to as <row>.x / <row>.y.  Run by hand when the set of row keys changes."""
import os, sys
V = os.path.dirname(os.path.dirname(os.path.abspath(__file__)))
sys.path.insert(0, V)
from extract import c02_templates as T

DESTR = "obtain ⟨rax, rcx, rdx, rbx, rsi, rdi, r8, r9, r10, r11, r12, r13, r14, r15, flags, slots, stk⟩ := s"
out = ["import WaVerif.Model.C02Spec", "import WaVerif.Gen.C02Templates", "import WaVerif.Lemmas.C02Tac",
       "set_option linter.unusedSimpArgs false", "set_option linter.unusedVariables false", "set_option maxRecDepth 4000",
       "/-! One theorem per row of the regenerated x86-64 template table (statement fixed by the instruction name). -/",
       "namespace WaVerif.C02.Rows", "open WaVerif WaVerif.X64 WaVerif.C02 WaVerif.Gen.C02", ""]


def plain(name, stmt, ndist):
    pre = "  refine ⟨%s, ?_⟩\n" % ", ".join(["by decide"] * ndist) if ndist else ""
    return "theorem %s_ok : %s := by\n%s  intro s\n  %s\n  unfold %s\n  x64_simp\n  x64_finish\n" % (name, stmt, pre, DESTR, name)


def branch(name, hyps, indent):
    pad = " " * indent
    return ("%s%s\n%ssimp only [%s] at %s\n%sunfold %s\n%sx64_simp\n%ssimp [%s]\n%sx64_finish\n" % (
        pad, DESTR, pad, name, " ".join(hyps), pad, name, pad, pad, ", ".join(hyps), pad))


def div_script(name, bits, signed, partial):
    lo = "BitVec.setWidth 32 (s.slots %s.%s)" if bits == 32 else "s.slots %s.%s"
    x, y = lo % (name, "x"), lo % (name, "y")
    m1 = (1 << bits) - 1
    L = ["  refine ⟨by decide, ?_⟩", "  intro s"]
    if partial:
        L.append("  intro hov")
        L.append("  simp only [lo32] at hov")
        L.append("  by_cases hd : %s = 0#%d" % (y, bits))
        L.append("  · " + branch(name, ["hd", "hov"], 4).lstrip())
        L.append("  · " + branch(name, ["hd", "hov"], 4).lstrip())
        return "\n".join(L)
    L.append("  by_cases hd : %s = 0#%d" % (y, bits))
    L.append("  · " + branch(name, ["hd"], 4).lstrip())
    if signed:
        L.append("  · by_cases hov : %s = BitVec.intMin %d ∧ %s = %d#%d" % (x, bits, y, m1, bits))
        L.append("    · " + branch(name, ["hd", "hov"], 6).lstrip())
        L.append("    · " + branch(name, ["hd", "hov"], 6).lstrip())
    else:
        L.append("  · " + branch(name, ["hd"], 4).lstrip())
    return "\n".join(L)


for name, ins, ptypes, rt, kind in T.ROWS:
    t, op = ins.split(".") if "." in ins else ("", ins)
    bits = 32 if ptypes[0] == "i32" else 64
    if name in T.ILLFORMED:
        out.append("theorem %s_illformed : Illformed %s := by\n  intro s\n  %s\n  unfold %s\n  x64_simp\n" % (name, name, DESTR, name))
        out.append("/-- the full statement for `%s` is false of the emitted template (it is not even encodable: GNU as rejects it) -/" % ins)
        out.append("theorem %s_full_false : ¬ UnRow64 .%s %s := illformed_not_un64 _ %s_illformed\n" % (name, op, name, name))
        continue
    if kind == "bin" and op in ("div_s", "div_u", "rem_s", "rem_u"):
        signed = op.endswith("_s")
        if name in T.PARTIAL:
            out.append("def %s_Statement : Prop := BinRow%d .%s %s" % (name, bits, op, name))
            out.append("theorem %s_partial : BinRow%dExceptMinInt .%s %s := by\n%s" % (name, bits, op, name, div_script(name, bits, signed, True)))
            mn, m1 = 1 << (bits - 1), (1 << bits) - 1
            out.append("/-- `idiv` raises #DE on MinInt %% -1 where WebAssembly's rem_s yields 0 -/")
            out.append("theorem %s_full_false : ¬ %s_Statement := by\n  intro h\n  have h1 := h.2 (witnessState %s %d#64 %d#64)\n"
                       "  revert h1\n  unfold %s witnessState\n  x64_simp\n" % (name, name, name, mn, m1, name))
            out.append("theorem %s_witness_faults : X64.run %s.code (witnessState %s %d#64 %d#64) = none := by\n  unfold %s witnessState\n  x64_simp\n" % (
                name, name, name, mn, m1, name))
        else:
            out.append("theorem %s_ok : BinRow%d .%s %s := by\n%s" % (name, bits, op, name, div_script(name, bits, signed, False)))
        continue
    if kind == "bin":
        out.append(plain(name, "BinRow%d .%s %s" % (bits, op, name), 1))
    elif kind == "rel":
        out.append(plain(name, "RelRow%d .%s %s" % (bits, op, name), 1))
    elif kind == "eqz":
        out.append(plain(name, "EqzRow%d %s" % (bits, name), 0))
    elif kind == "un":
        out.append(plain(name, "UnRow%d .%s %s" % (bits, op, name), 0))
    elif kind == "wrap":
        out.append(plain(name, "WrapRow %s" % name, 0))
    elif kind == "exts":
        out.append(plain(name, "ExtSRow %s" % name, 0))
    elif kind == "extu":
        out.append(plain(name, "ExtURow %s" % name, 0))
    elif kind == "select":
        out.append(plain(name, "SelectRow%d %s %s_c" % (bits, name, name), 3).replace("unfold %s\n" % name, "unfold %s %s_c\n" % (name, name)))
out.append("/-- hypotheses of the weakened rows are satisfiable -/")
out.append("example : ¬ ((5#32 : BitVec 32) = BitVec.intMin 32 ∧ (3#32 : BitVec 32) = -1) := by decide")
out.append("end WaVerif.C02.Rows")
open(os.path.join(V, "lean/WaVerif/Props/C02.lean"), "w").write("\n".join(out) + "\n")
print(len(T.ROWS), "rows")
