#!/usr/bin/env python3
"""Writes lean/WaVerif/Props/C01Rows.lean: one theorem per emit-table row, stating the FIXED
specification for that (op, types) key about the regenerated constant Gen.C01.<row>.
The statements depend only on the row key, never on the emitted code. Run by hand when the
set of row keys changes (a changed key set otherwise shows up as a build failure)."""
import os, re, sys
V = os.path.dirname(os.path.dirname(os.path.abspath(__file__)))
T = {"u8": "8 false", "u16": "16 false", "i32": "32 true", "u32": "32 false", "i64": "64 true", "u64": "64 false", "rune": "32 true"}
SIGNED = {"i32", "i64", "rune"}
src = open(os.path.join(V, "lean/WaVerif/Gen/C01Rows.lean")).read()
names = re.findall(r"^def (\w+) : List Instr", src, re.M)
out = ["import WaVerif.Model.C01Spec", "import WaVerif.Gen.C01Rows", "import WaVerif.Lemmas.C01Tac",
       "set_option linter.unusedSimpArgs false\n/-! One theorem per row of the regenerated emit table (statement fixed by the row key). -/",
       "namespace WaVerif.C01.Rows", "open WaVerif WaVerif.Wasm WaVerif.C01 WaVerif.Gen.C01", ""]
CMP = {"eql": "eq", "ne": "ne", "lt": "lt", "gt": "gt", "le": "le", "ge": "ge"}
for n in names:
    f = n.split("_")
    kind, op = f[0], f[1]
    if kind == "bin" and op in ("add", "sub", "mul", "and", "or", "xor", "andnot", "rem"):
        st = "ArithRowFull .%s %s %s" % (op, T[f[2]], n)
    elif kind == "bin" and op == "quo":
        st = ("ArithRowExceptOverflow .quo %s %s" if f[2] in SIGNED else "ArithRowFull .quo %s %s") % (T[f[2]], n)
    elif kind == "bin" and op in CMP:
        st = "CmpRow .%s %s %s" % (CMP[op], T[f[2]], n)
    elif kind == "bin" and op == "shl":
        st = "ShlRowBelow %s %s %s" % (T[f[2]], T[f[3]], n)
    elif kind == "bin" and op == "shr":
        st = "ShrRowBelow %s %s %s" % (T[f[2]], T[f[3]], n)
    elif kind == "un" and op == "sub":
        st = "NegRow %s %s" % (T[f[2]], n)
    elif kind == "un" and op == "xor":
        st = "ComplRow %s %s" % (T[f[2]], n)
    elif kind == "un" and op == "not":
        st = "NotRow %s" % n
    elif kind == "conv":
        st = "ConvRow %s %s %s" % (T[f[2]], T[f[3]], n)
    else:
        continue
    tac = "div_tac" if op in ("quo", "rem") else "shift_tac" if op in ("shl", "shr") else "row_tac"
    out.append("theorem %s_ok : %s := by\n  unfold %s\n  %s\n" % (n, st, n, tac))
out.append("end WaVerif.C01.Rows")
open(os.path.join(V, "lean/WaVerif/Props/C01Rows.lean"), "w").write("\n".join(out) + "\n")
print(len(names), "rows")
