// node tools/validate.js a.wasm b.wasm ...  -> one line per file: "<file> valid|invalid <message>"
const fs = require('fs');
for (const f of process.argv.slice(2)) {
  try {
    const buf = fs.readFileSync(f);
    if (!WebAssembly.validate(buf)) {
      let msg = '';
      try { new WebAssembly.Module(buf); } catch (e) { msg = String(e.message).replace(/\n/g, ' '); }
      console.log(f + ' invalid ' + msg);
    } else {
      const m = new WebAssembly.Module(buf);
      console.log(f + ' valid exports=' + WebAssembly.Module.exports(m).length + ' imports=' + WebAssembly.Module.imports(m).length);
    }
  } catch (e) { console.log(f + ' error ' + String(e.message).replace(/\n/g, ' ')); }
}
