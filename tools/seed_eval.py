#!/usr/bin/env python3
"""tools/seed_eval.py <PROP> <k> [--demo-dest <pkg dir rel to repo>] [--demo-cmd '<shell cmd run in worktree>'] [--checks C19,C04]
Confirms a seeded change from /tmp/seedout-<PROP>/ (patch<k>.diff, demo<k>/, meta<k>.json) in a scratch worktree:
builds, runs the existing test suite, runs the demonstration with and without the change, then runs the
registered check(s) against the changed tree (VERIF_REPO=<worktree>) and records everything in /verif/seeded/<PROP>-<k>/."""
import argparse, glob, json, os, shutil, subprocess, sys, time
V = os.path.dirname(os.path.dirname(os.path.abspath(__file__)))
ENV = dict(os.environ, GOFLAGS="-mod=mod", GOPROXY="off", GOSUMDB="off", GOTOOLCHAIN="local")

def sh(cmd, cwd=None, env=None, timeout=3600):
    p = subprocess.run(cmd, shell=True, cwd=cwd, env=env or ENV, stdout=subprocess.PIPE, stderr=subprocess.STDOUT, text=True, timeout=timeout)
    return p.returncode, p.stdout

ap = argparse.ArgumentParser()
ap.add_argument("prop"); ap.add_argument("k")
ap.add_argument("--demo-dest"); ap.add_argument("--demo-cmd"); ap.add_argument("--checks"); ap.add_argument("--src")
ap.add_argument("--skip-suite", action="store_true"); ap.add_argument("--tag", default="")
a = ap.parse_args()
src = a.src or "/tmp/seedout-%s" % a.prop
patch = os.path.join(src, "patch%s.diff" % a.k)
demo = os.path.join(src, "demo%s" % a.k)
meta = json.load(open(os.path.join(src, "meta%s.json" % a.k)))
wt = "/tmp/evalwt-%s-%s%s" % (a.prop, a.tag, a.k)
sh("git -C /repo worktree remove --force %s" % wt)
rc, o = sh("git -C /repo worktree add -q %s HEAD" % wt)
assert rc == 0, o
res = {"ran": []}
try:
    demo_files = []
    def put_demo():
        demo_files.clear()
        if a.demo_dest:
            for f in glob.glob(os.path.join(demo, "*")):
                if os.path.isfile(f) and not f.endswith("README.txt"):
                    shutil.copy(f, os.path.join(wt, a.demo_dest)); demo_files.append(os.path.join(wt, a.demo_dest, os.path.basename(f)))
    demo_cmd = a.demo_cmd or ("go test -vet=off -count=1 -timeout 120s ./%s" % a.demo_dest)
    # demonstration WITHOUT the change
    put_demo()
    rc0, o0 = sh(demo_cmd, cwd=wt, timeout=900)
    res["demo_without_change"] = {"rc": rc0, "tail": o0[-600:]}
    for f in demo_files: os.remove(f)
    rc, o = sh("git apply %s" % patch, cwd=wt); assert rc == 0, o
    rc, o = sh("go build ./...", cwd=wt); res["build_rc"] = rc
    prev = os.path.join(V, "seeded", "%s-%s%s" % (a.prop, (a.tag + "-") if a.tag else "", a.k), "meta.json")
    if a.skip_suite and os.path.exists(prev):
        # re-evaluation after strengthening a check: the suite result of the first evaluation (same patch) is carried over
        pe = json.load(open(prev)).get("evaluation", {})
        if "suite_fail_lines" in pe:
            res["suite_fail_lines"] = pe["suite_fail_lines"]; res["suite_carried_over"] = True
        if pe.get("ran"):
            res["first_evaluation"] = [{"check": r["check"], "exit": r["exit"], "summary": r["summary"]} for r in pe.get("first_evaluation_full", pe["ran"])]
    if not a.skip_suite:
        rc, o = sh("go test -vet=off -count=1 ./... 2>&1 | grep -v 'no test files'", cwd=wt, timeout=3000)
        res["suite_fail_lines"] = [l for l in o.splitlines() if l.startswith(("FAIL", "--- FAIL", "panic:"))][:10]
    put_demo()
    rc1, o1 = sh(demo_cmd, cwd=wt, timeout=900)
    res["demo_with_change"] = {"rc": rc1, "tail": o1[-600:]}
    for f in demo_files: os.remove(f)
    res["confirmed"] = (rc0 == 0 and rc1 != 0 and res["build_rc"] == 0 and not res.get("suite_fail_lines"))
    # our checks against the changed tree
    for c in (a.checks or a.prop).split(","):
        t = time.time()
        rc, o = sh("./check %s --tier quick" % c, cwd=V, env=dict(os.environ, VERIF_REPO=wt), timeout=7200)
        vio = [l for l in o.splitlines() if l.startswith("VIOLATION")]
        res["ran"].append({"check": c, "exit": rc, "violation_lines": vio[:6], "what": [l.strip() for l in o.splitlines() if l.strip().startswith(("what:", "broken:"))][:6],
                           "summary": o.strip().splitlines()[-1] if o.strip() else "", "wall_s": round(time.time() - t)})
    res["detected_by"] = [r["check"] for r in res["ran"] if r["exit"] == 1 and r["violation_lines"]]
finally:
    sh("git -C /repo worktree remove --force %s" % wt)
out = os.path.join(V, "seeded", "%s-%s%s" % (a.prop, (a.tag + "-") if a.tag else "", a.k))
shutil.rmtree(out, ignore_errors=True); os.makedirs(out)
shutil.copy(patch, os.path.join(out, "patch.diff"))
if os.path.isdir(demo): shutil.copytree(demo, os.path.join(out, "demo"))
meta["evaluation"] = res
meta["evaluated_against_repo_commit"] = subprocess.check_output("git -C /repo log --format=%h -1", shell=True, text=True).strip()
json.dump(meta, open(os.path.join(out, "meta.json"), "w"), indent=1)
print(json.dumps({"confirmed": res.get("confirmed"), "detected_by": res.get("detected_by"), "runs": [(r["check"], r["exit"], r["summary"][-160:]) for r in res["ran"]],
                  "demo": (res["demo_without_change"]["rc"], res["demo_with_change"]["rc"]), "suite": res.get("suite_fail_lines")}, indent=1))
