#!/usr/bin/env python3
"""tools/stale_findings.py -- lists entries of known_findings.json that the last run of their check (evidence/<id>.json,
quick tier) did not hit.  An entry that never fires is not wrong (the thorough tier or another seed may reach it) but is a
candidate for removal when the defect was repaired in /repo; the owner decides."""
import json, os, re
V = os.path.dirname(os.path.dirname(os.path.abspath(__file__)))
k = json.load(open(os.path.join(V, "known_findings.json")))
hits = {}
for f in os.listdir(os.path.join(V, "evidence")):
    e = json.load(open(os.path.join(V, "evidence", f)))
    hits[e["property_id"]] = set(e["coverage"].get("known_findings_hit", []))
for f in k["findings"]:
    p = f["property"]; key = f.get("key"); rx = f.get("key_regex")
    h = hits.get(p, set())
    ok = (key in h) or any(re.fullmatch(rx, x) for x in h) if rx else (key in h)
    if not ok:
        print("NOT-HIT %s %s" % (p, key or rx))
