#!/usr/bin/env python3
"""Regenerates /verif/MANIFEST.json from the META dict of every checks/cXX.py."""
import importlib, json, os, sys
V = os.path.dirname(os.path.dirname(os.path.abspath(__file__)))
sys.path.insert(0, V)
props = [json.loads(l) for l in open(os.path.join(V, "properties.jsonl"))]
checks, na = [], []
NA_REASONS = json.load(open(os.path.join(V, "tools", "not_applicable.json")))
for p in props:
    pid = p["id"]
    f = os.path.join(V, "checks", pid.lower() + ".py")
    if not os.path.exists(f):
        na.append({"property_id": pid, "reason": NA_REASONS.get(pid, "no check registered yet: the Lean model and its tie to the code for this property are not built; see DESIGN.md section 5 for the planned design")})
        continue
    m = importlib.import_module("checks." + pid.lower())
    M = m.META
    checks.append({
        "property_id": pid,
        "quick_cmd": "./check %s --tier quick" % pid,
        "thorough_cmd": "./check %s --tier thorough" % pid,
        "evidence_file": "/verif/evidence/%s.json" % pid,
        "replay_cmd_template": "./check %s --replay {path}" % pid,
        "engine": "lean4+correspondence",
        "level_claimed": {"category": M["category"], "text": M["text"], "design_ref": "DESIGN.md section 5, %s" % pid},
        "level_note": M["note"],
        "technique": M["technique"],
    })
man = {
    "version": 1,
    "setup_cmd": "./check --setup",
    "hooks": {
        "guard": "verif",
        "enable": "go build -tags verif -overlay <generated overlay.json>: every harness/hook file lives under /verif/harness, carries //go:build verif and is mapped into /repo's tree virtually; /repo itself contains no hook code",
        "baseline_off_cmd": "cd /repo && GOFLAGS=-mod=mod GOPROXY=off GOSUMDB=off GOTOOLCHAIN=local go test -vet=off -count=1 ./...",
        "source_commits": [],
        "add_only": True,
    },
    "engines": [{"name": "lean4+correspondence", "path": "/verif/lean, /verif/harness, /verif/checks",
                 "serves_properties": [c["property_id"] for c in checks],
                 "kind_free_text": "Lean 4 theorems over hand-written or regenerated models (lake build + axiom audit), tied to the Go/WAT source by regeneration and by a line-protocol correspondence run between the real code (Go harness built with -overlay from /repo's working tree) and the compiled Lean model"}],
    "checks": checks,
    "notes": "Only 'fix:' commits touch /repo; they are listed in known_findings.json under 'fixed'.",
    "not_applicable": na,
}
json.dump(man, open(os.path.join(V, "MANIFEST.json"), "w"), indent=1)
print("checks:", len(checks), "not_applicable:", len(na))
