#!/usr/bin/env python3
"""Writes lean/WaVerif/Props/C03Rows.lean: the theorems about the regenerated C templates (Gen/C03Templates.lean).

For every modelled integer row the FULL statement is fixed by the instruction name alone (Model/C03Spec.lean):
    theorem <row>_ok : Full<n> <C param/result types> <WebAssembly semantics of the instruction> Gen.C03.f_<row>
Rows listed in FALSE_ROWS (the full statement is false of the C that wat2c emits today) get instead
    theorem <row>_partial    : Partial<n> … <operand guard fixed by the instruction> …
    theorem <row>_full_false : ¬ Full<n> …         (by a concrete witness; the check replays it through compiled C)
    theorem <row>_sound      : Sound<n> …          (whenever the C has defined behaviour and returns, it returns WebAssembly's result)
Run by hand (python3 tools/gen_c03_props.py) when the set of rows or FALSE_ROWS changes.  With `--auto` the classification is not
taken from FALSE_ROWS but decided by the executable Lean model (wamodel_c03, which must have been built for the current
Gen/C03Templates.lean — `./check C03` does that): a row is false iff the model finds a counterexample on the boundary grid; FALSE_ROWS
then only supplies the guard and the explanation.  Use it after repairs to wat2c were applied to /repo.
The witnesses are also written to lean/WaVerif/Props/C03Witnesses.json for the check.
"""
import json, os, re, sys
V = os.path.dirname(os.path.dirname(os.path.abspath(__file__)))
sys.path.insert(0, V)
from extract import c03_rows as R

BINK = set(R.IBIN)
RELK = set(R.IREL)

# rows whose full statement is false today: key -> (guard, witness operands (hex), why)
FALSE_ROWS = {
    "i32.add": ("Guard.addOk", ["7fffffff", "1"], "signed overflow is undefined in C"),
    "i32.sub": ("Guard.subOk", ["80000000", "1"], "signed overflow is undefined in C"),
    "i32.mul": ("Guard.mulOk", ["10000", "10000"], "signed overflow is undefined in C"),
    "i64.add": ("Guard.addOk", ["7fffffffffffffff", "1"], "signed overflow is undefined in C"),
    "i64.sub": ("Guard.subOk", ["8000000000000000", "1"], "signed overflow is undefined in C"),
    "i64.mul": ("Guard.mulOk", ["100000000", "100000000"], "signed overflow is undefined in C"),
    "i32.div_s": ("Guard.divS", ["1", "0"], "no trap check: division by zero is undefined in C, not abort()"),
    "i32.div_u": ("Guard.divU", ["1", "0"], "no trap check: division by zero is undefined in C, not abort()"),
    "i32.rem_s": ("Guard.divS", ["80000000", "ffffffff"], "INT_MIN % -1 is undefined in C; WebAssembly yields 0"),
    "i32.rem_u": ("Guard.divU", ["1", "0"], "no trap check: division by zero is undefined in C, not abort()"),
    "i64.div_s": ("Guard.divS", ["1", "0"], "no trap check: division by zero is undefined in C, not abort()"),
    "i64.div_u": ("Guard.divU", ["1", "0"], "no trap check: division by zero is undefined in C, not abort()"),
    "i64.rem_s": ("Guard.divS", ["8000000000000000", "ffffffffffffffff"], "INT64_MIN % -1 is undefined in C; WebAssembly yields 0"),
    "i64.rem_u": ("Guard.divU", ["1", "0"], "no trap check: division by zero is undefined in C, not abort()"),
    "i32.shl": ("Guard.shl32", ["1", "20"], "count masked with 63: a count of 32..63 on a 32-bit operand is undefined in C (WebAssembly: count mod 32)"),
    "i32.shr_s": ("Guard.cnt32", ["1", "20"], "count masked with 63: a count of 32..63 on a 32-bit operand is undefined in C"),
    "i32.shr_u": ("Guard.cnt32", ["1", "20"], "count masked with 63: a count of 32..63 on a 32-bit operand is undefined in C"),
    "i64.shl": ("Guard.shl64", ["ffffffffffffffff", "1"], "left shift of a negative int64_t is undefined in C"),
    "i32.rotl": ("Guard.rotl32", ["fffffffe", "1"], "I32_ROTL applied to a signed int32_t: undefined left shift and arithmetic right shift"),
    "i32.rotr": ("Guard.rotr32", ["fffffffe", "1"], "I32_ROTR applied to a signed int32_t: arithmetic right shift and undefined left shift"),
    "i64.rotl": ("Guard.rotl64", ["fffffffffffffffe", "1"], "I64_ROTL applied to a signed int64_t"),
    "i64.rotr": ("Guard.rotr64", ["fffffffffffffffe", "1"], "I64_ROTR applied to a signed int64_t"),
}


def inj(t):
    return "CVal.%s" % t


def statement(row):
    """(form arity, 'inj… spec') for a modelled integer row, or None"""
    k = row.key
    t, _, op = k.partition(".")
    if t == "select":
        return 3, "%s %s CVal.i32 %s wSelect" % (inj(op), inj(op), inj(op))
    if k == "i32.wrap_i64":
        return 1, "CVal.i64 CVal.i32 wWrap"
    if k == "i64.extend_i32_s":
        return 1, "CVal.i32 CVal.i64 wExtS"
    if k == "i64.extend_i32_u":
        return 1, "CVal.i32 CVal.i64 wExtU"
    if op == "const":
        c = int(row.ins.split()[1], 0)
        w = 32 if t == "i32" else 64
        return 0, "%s (wConst %d#%d)" % (inj(t), c % (1 << w), w)
    if t not in ("i32", "i64"):
        return None
    if op in BINK:
        return 2, "%s %s %s (wBin .%s)" % (inj(t), inj(t), inj(t), op)
    if op in RELK:
        return 2, "%s %s CVal.i32 (wRel .%s)" % (inj(t), inj(t), op)
    if op == "eqz":
        return 1, "%s CVal.i32 wEqz" % inj(t)
    if op in R.IUN:
        return 1, "%s %s (wUn .%s)" % (inj(t), inj(t), op)
    return None


def lit(h, t):
    return "0x%s#%d" % (h, 32 if t == "i32" else 64)


GROUPS = ["I32Arith", "I32Bits", "I32Cmp", "I64Arith", "I64Bits", "I64Cmp", "Misc"]


def group_of(row):
    t, _, op = row.key.partition(".")
    if t in ("i32", "i64") and op in ("add", "sub", "mul", "div_s", "div_u", "rem_s", "rem_u"):
        return t.upper() + "Arith"
    if t in ("i32", "i64") and op in ("and", "or", "xor", "shl", "shr_s", "shr_u", "rotl", "rotr"):
        return t.upper() + "Bits"
    if t in ("i32", "i64") and (op in RELK or op in R.IUN or op == "eqz"):
        return t.upper() + "Cmp"
    return "Misc"


def modules():
    return ["WaVerif.Props.C03Rows" + g for g in GROUPS]


def probe(rows):
    """ask the executable Lean model (built for the CURRENT Gen/C03Templates.lean) for a counterexample of each row's full
    statement on the boundary grid + the table's witness: name -> hex operand list of the first failing point (or absent)"""
    import subprocess
    exe = os.path.join(V, "lean/.lake/build/bin/wamodel_c03")
    lines, meta = [], []
    for r in rows:
        pts = list(R.calls_for(r, "thorough"))
        if r.key in FALSE_ROWS:
            pts.insert(0, tuple(int(h, 16) for h in FALSE_ROWS[r.key][1]))
        for a in pts:
            lines.append("%s n %s %s" % (r.name, r.key, " ".join("%x" % x for x in a)))
            meta.append((r, a))
    out = subprocess.run([exe], input="\n".join(lines) + "\n", stdout=subprocess.PIPE, text=True, timeout=3600).stdout.splitlines()
    assert len(out) == len(lines), (len(out), len(lines))
    bad = {}
    for (r, a), l in zip(meta, out):
        c, _, w = l.partition(" | ")
        if w != "-" and c != w and r.name not in bad:
            bad[r.name] = ["%x" % x for x in a]
    return bad


def main():
    auto = "--auto" in sys.argv
    src = open(os.path.join(V, "lean/WaVerif/Gen/C03Templates.lean")).read()
    modelled = set(re.findall(r"^def f_(\w+) : CFunc", src, re.M))
    head = ["import WaVerif.Model.C03Spec", "import WaVerif.Gen.C03Templates", "import WaVerif.Lemmas.C03Tac",
            "set_option linter.unusedSimpArgs false",
            "/-! One theorem group per regenerated C template (statement fixed by the instruction name). Written by tools/gen_c03_props.py. -/",
            "namespace WaVerif.C03.Rows", "open WaVerif WaVerif.Wasm WaVerif.C03 WaVerif.Gen.C03", ""]
    outs = dict((g, list(head)) for g in GROUPS)
    wit = {}
    agg = []         # (theorem name, statement) restated in Props/C03.lean
    n_ok = n_false = 0
    cand = [r for r in R.all_rows() if r.name in modelled and statement(r) is not None]
    failing = probe([r for r in cand if len(r.params) in (1, 2, 3)]) if auto else None
    for row in cand:
        st = statement(row)
        out = outs[group_of(row)]
        ar, body = st
        nm = row.name
        is_false = (row.key in FALSE_ROWS) if failing is None else (nm in failing)
        if is_false and (row.key not in FALSE_ROWS or ar != 2):
            raise SystemExit("row %s: the model finds a counterexample of the full statement at %s but tools/gen_c03_props.py has no guard for it" % (nm, failing[nm]))
        if is_false:
            guard, w, why = FALSE_ROWS[row.key]
            if failing is not None:
                w = failing[nm]
            injs, spec = body.rsplit(" (", 1)
            spec = "(" + spec
            out.append("/-- `%s`: %s -/" % (row.ins, why))
            out.append("theorem %s_partial : Partial2 %s %s %s f_%s := by\n  unfold f_%s\n  c03_tac\n" % (nm, injs, guard, spec, nm, nm))
            out.append("theorem %s_full_false : ¬ Full2 %s f_%s := by\n  intro h\n  have h := h %s %s []\n  revert h\n  decide\n" % (
                nm, body, nm, lit(w[0], row.params[0]), lit(w[1], row.params[1])))
            out.append("theorem %s_sound : Sound2 %s f_%s := by\n  unfold f_%s\n  c03_sound\n" % (nm, body, nm, nm))
            ex = ("1", "4") if "rot" in guard else ("3", "2")
            out.append("example : %s %s %s := by decide\n" % (guard, lit(ex[0], row.params[0]), lit(ex[1], row.params[1])))
            agg += [("%s_partial" % nm, "Partial2 %s %s %s f_%s" % (injs, guard, spec, nm)), ("%s_full_false" % nm, "¬ Full2 %s f_%s" % (body, nm)),
                    ("%s_sound" % nm, "Sound2 %s f_%s" % (body, nm))]
            wit[nm] = {"key": row.key, "args": w, "why": why}
            n_false += 1
        else:
            out.append("theorem %s_ok : Full%d %s f_%s := by\n  unfold f_%s\n  c03_tac\n" % (nm, ar, body, nm, nm))
            agg.append(("%s_ok" % nm, "Full%d %s f_%s" % (ar, body, nm)))
            n_ok += 1
    for g in GROUPS:
        outs[g].append("end WaVerif.C03.Rows")
        open(os.path.join(V, "lean/WaVerif/Props/C03Rows%s.lean" % g), "w").write("\n".join(outs[g]) + "\n")
    top = ["import " + m for m in modules()] + [
        "/-! C03 — the property theorems: one group per regenerated C template of an integer instruction (statement forms in",
        "    Model/C03Spec.lean; proofs in Props/C03Rows*.lean, restated here so that every one is axiom-audited once).",
        "    `<row>_ok`: the C function wat2c emits returns WebAssembly's result for ALL operands and memories, memory unchanged, and aborts where",
        "    WebAssembly traps.  Rows where that is false: `<row>_partial` (same under the instruction's operand guard), `<row>_full_false`",
        "    (negation by a concrete witness, replayed through compiled C by the check) and `<row>_sound` (defined C behaviour ⇒ WebAssembly's result).",
        "    Written by tools/gen_c03_props.py. -/",
        "namespace WaVerif.C03", "open WaVerif WaVerif.Wasm WaVerif.C03 WaVerif.Gen.C03", ""]
    for n, st in agg:
        top.append("theorem %s : %s := Rows.%s" % (n, st, n))
    top.append("end WaVerif.C03")
    open(os.path.join(V, "lean/WaVerif/Props/C03.lean"), "w").write("\n".join(top) + "\n")
    old = os.path.join(V, "lean/WaVerif/Props/C03Rows.lean")
    if os.path.exists(old):
        os.remove(old)
    json.dump(wit, open(os.path.join(V, "lean/WaVerif/Props/C03Witnesses.json"), "w"), indent=1, sort_keys=True)
    print(n_ok, "full rows,", n_false, "partial+false rows")


if __name__ == "__main__":
    main()
