#!/usr/bin/env python3
"""Writes lean/WaVerif/Props/C16Rows.lean: per emit-table row, `validate` accepts the regenerated code
with the local types and result type demanded by the row key (statement fixed by the key)."""
import os, re
V = os.path.dirname(os.path.dirname(os.path.abspath(__file__)))
REG = {"u8": ".i32", "u16": ".i32", "i32": ".i32", "u32": ".i32", "rune": ".i32", "bool": ".i32", "i64": ".i64", "u64": ".i64"}
src = open(os.path.join(V, "lean/WaVerif/Gen/C01Rows.lean")).read()
names = re.findall(r"^def (\w+) : List Instr", src, re.M)
out = ["import WaVerif.Base.WasmTyping", "import WaVerif.Gen.C01Rows",
       "/-! One validation theorem per row of the regenerated emit table. -/",
       "namespace WaVerif.C16.Rows", "open WaVerif.Wasm WaVerif.Gen.C01", ""]
for n in names:
    f = n.split("_")
    kind, op = f[0], f[1]
    if kind == "bin":
        G = "[%s, %s]" % (REG[f[2]], REG[f[3]])
        ret = ".i32" if op in ("eql", "ne", "lt", "gt", "le", "ge") else REG[f[2]]
    elif kind == "un":
        G = "[%s]" % REG[f[2]]
        ret = REG[f[2]]
    else:
        G = "[%s]" % REG[f[2]]
        ret = REG[f[3]]
    out.append("theorem %s_valid : validate %s %s [] = some [%s] := by decide" % (n, G, n, ret))
out.append("\nend WaVerif.C16.Rows")
open(os.path.join(V, "lean/WaVerif/Props/C16Rows.lean"), "w").write("\n".join(out) + "\n")
print(len(names))
