#!/usr/bin/env python3
"""tools/add_finding.py <PROP> <key> <what> [--regex]   — append a known finding (flock-protected)."""
import fcntl, json, os, sys
V = os.path.dirname(os.path.dirname(os.path.abspath(__file__)))
prop, key, what = sys.argv[1], sys.argv[2], sys.argv[3]
p = os.path.join(V, "known_findings.json")
with open(os.path.join(V, ".build", "kf.lock") if os.path.isdir(os.path.join(V, ".build")) else p + ".lock", "w") as lk:
    fcntl.flock(lk, fcntl.LOCK_EX)
    k = json.load(open(p))
    if any(f["property"] == prop and f["key"] == key for f in k["findings"]):
        print("already listed"); sys.exit(0)
    e = {"property": prop, "key": key, "what": what}
    if "--regex" in sys.argv:
        e["key_regex"] = key
    k["findings"].append(e)
    json.dump(k, open(p + ".tmp", "w"), indent=1, ensure_ascii=False)
    os.replace(p + ".tmp", p)
print("added")
